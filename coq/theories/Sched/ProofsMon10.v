(* The monitor on the model's trace: e_stream.  Part 2: the monitor's stream records, and the fold of c02_obs. *)
From Coq Require Import Lia Permutation.
From VF Require Export Sched.ProofsMon9.
From VF Require Import Sched.Spec Sched.Corr Sched.ProofsObsLink Sched.ProofsObsC01 Sched.ProofsExec Sched.ProofsStreams Sched.ProofsWaiters Sched.ProofsEnabled.
Open Scope Z_scope.

(* ---- reading one stream record ---------------------------------------------------------------------------------------------------------------------------------- *)
Lemma get_stream_upd_other : forall m c c' f, c' <> c -> (forall x, sm_call (f x) = sm_call x) -> get_stream (upd_stream c' f m) c = get_stream m c.
Proof.
  intros m c c' f Hne Hf. unfold get_stream, upd_stream. cbn [m_streams set]. induction (m_streams m) as [|x l IH]; cbn; [reflexivity|].
  destruct (Nat.eqb (sm_call x) c') eqn:E1.
  - rewrite Hf. destruct (Nat.eqb (sm_call x) c) eqn:E2; [apply Nat.eqb_eq in E1, E2; congruence|exact IH].
  - destruct (Nat.eqb (sm_call x) c); [reflexivity|exact IH].
Qed.
Lemma get_stream_upd_same : forall m c f, (forall x, sm_call (f x) = sm_call x) -> get_stream (upd_stream c f m) c = option_map f (get_stream m c).
Proof.
  intros m c f Hf. unfold get_stream, upd_stream. cbn [m_streams set]. induction (m_streams m) as [|x l IH]; cbn; [reflexivity|].
  destruct (Nat.eqb (sm_call x) c) eqn:E1; [rewrite Hf, E1; reflexivity|rewrite E1; exact IH].
Qed.
Lemma get_stream_frame : forall m m' c, m_streams m' = m_streams m -> get_stream m' c = get_stream m c.
Proof. unfold get_stream. intros m m' c ->. reflexivity. Qed.

Definition msg_upd (st : N) (d : option resp) (x : stream_mon) : stream_mon :=
  x <| sm_stage := st |> <| sm_done := match d with Some _ => true | None => false end |>.

(* the record of call c after one observation *)
Lemma c02_obs_stream : forall post m err x c,
  get_stream (fst (c02_obs post (m, err) x)) c =
  match x with
  | OMsg c' _ st d => if Nat.eqb c' c then match get_stream m c with Some sm => if sm_done sm then Some sm else Some (msg_upd st d sm) | None => None end else get_stream m c
  | _ => get_stream m c
  end.
Proof.
  intros post m err x c. unfold c02_obs. destruct x as [c' n st d|c' code|c' d z|g|w]; try reflexivity.
  - destruct (Nat.eqb c' c) eqn:E.
    + apply Nat.eqb_eq in E. subst c'. destruct (get_stream m c) as [sm|] eqn:Eg; [|cbn [fst]; exact Eg].
      destruct (sm_done sm); [cbn [fst]; exact Eg|]. cbn [fst]. rewrite get_stream_upd_same by (intro; reflexivity). rewrite Eg. reflexivity.
    + apply Nat.eqb_neq in E. destruct (get_stream m c') as [sm|]; [|reflexivity]. destruct (sm_done sm); [reflexivity|]. cbn [fst].
      apply get_stream_upd_other; [exact E|intro; reflexivity].
  - destruct (get_stream m c'); reflexivity.
  - destruct (find _ (m_syncs m)) as [[c'' w]|]; reflexivity.
Qed.

Lemma c02_obs_supplied : forall post m err x, m_supplied (fst (c02_obs post (m, err) x)) = m_supplied m.
Proof.
  intros post m err x. unfold c02_obs. destruct x; try reflexivity.
  - destruct (get_stream m c) as [sm|]; [|reflexivity]. destruct (sm_done sm); reflexivity.
  - destruct (get_stream m c); reflexivity.
  - destruct (find _ (m_syncs m)) as [[c' w]|]; reflexivity.
Qed.

Lemma c02_fold_supplied : forall post o m err, m_supplied (fst (fold_left (c02_obs post) o (m, err))) = m_supplied m.
Proof.
  intros post o. induction o as [|x o IH]; intros m err; cbn [fold_left]; [reflexivity|].
  destruct (c02_obs post (m, err) x) as [m1 e1] eqn:E. rewrite IH. pose proof (c02_obs_supplied post m err x) as H. rewrite E in H. exact H.
Qed.

Lemma c02_fold_stream_untagged : forall post o m err c, (forall x, In x o -> tagged c x = false) ->
  get_stream (fst (fold_left (c02_obs post) o (m, err))) c = get_stream m c.
Proof.
  intros post o. induction o as [|x o IH]; intros m err c H; cbn [fold_left]; [reflexivity|].
  destruct (c02_obs post (m, err) x) as [m1 e1] eqn:E. rewrite IH by (intros y Hy; apply H; right; exact Hy).
  pose proof (c02_obs_stream post m err x c) as Hs. rewrite E in Hs. cbn [fst] in Hs. rewrite Hs.
  specialize (H x (or_introl eq_refl)). destruct x as [c' n st d| | | |]; try reflexivity.
  unfold tagged in H. cbn in H. rewrite Nat.eqb_sym, H. reflexivity.
Qed.

Lemma c02_fold_stream_none : forall post o m err c, get_stream m c = None -> get_stream (fst (fold_left (c02_obs post) o (m, err))) c = None.
Proof.
  intros post o. induction o as [|x o IH]; intros m err c H; cbn [fold_left]; [exact H|].
  destruct (c02_obs post (m, err) x) as [m1 e1] eqn:E. apply IH.
  pose proof (c02_obs_stream post m err x c) as Hs. rewrite E in Hs. cbn [fst] in Hs. rewrite Hs.
  destruct x as [c' n st d| | | |]; try exact H. destruct (Nat.eqb c' c); [rewrite H; reflexivity|exact H].
Qed.

(* the fold reports nothing if every observation, met in the state the fold has reached, reports nothing *)
Lemma c02_fold_ok : forall post o m,
  (forall pre x suf, o = pre ++ x :: suf -> snd (c02_obs post (fst (fold_left (c02_obs post) pre (m, ""%string)), ""%string) x) = ""%string) ->
  snd (fold_left (c02_obs post) o (m, ""%string)) = ""%string.
Proof.
  intros post o. induction o as [|x o IH]; intros m H; cbn [fold_left]; [reflexivity|].
  pose proof (H [] x o eq_refl) as H0. cbn [fold_left fst] in H0.
  destruct (c02_obs post (m, ""%string) x) as [m1 e1] eqn:E. cbn [snd] in H0. subst e1. apply IH.
  intros pre y suf Eo. specialize (H (x :: pre) y suf ltac:(rewrite Eo; reflexivity)). cbn [fold_left] in H. rewrite E in H. exact H.
Qed.

(* ---- what the event itself does to the records ------------------------------------------------------------------------------------------------------------ *)
Lemma mon_event_stream : forall e m c,
  get_stream (mon_event e m) c =
  if stream_start e && Nat.eqb (ev_call e) c then Some (mkSM (ev_call e) 0 false false)
  else match e with
       | ECancel c' => if Nat.eqb c' c then option_map (fun s => s <| sm_cancelled := true |>) (get_stream m c) else get_stream m c
       | _ => get_stream m c
       end.
Proof.
  intros e m c. destruct e; cbn [stream_start ev_call andb mon_event]; try reflexivity.
  - destruct (x_sel a) as [[[? ?] ?] ?]. unfold get_stream. cbn [m_streams set find sm_call]. destruct (Nat.eqb c0 c); reflexivity.
  - unfold get_stream. destruct (y_state a); reflexivity.
  - destruct (Nat.eqb c0 c) eqn:E; [apply Nat.eqb_eq in E; subst; apply get_stream_upd_same; intro; reflexivity|].
    apply get_stream_upd_other; [apply Nat.eqb_neq; exact E|intro; reflexivity].
Qed.

Lemma mon_event_supplied : forall e m, m_supplied (mon_event e m) = ev_supplied e ++ m_supplied m.
Proof.
  intros e m. destruct e; cbn; try reflexivity.
  - destruct (x_sel a) as [[[? ?] ?] ?]. reflexivity.
  - destruct (y_state a); reflexivity.
Qed.

Lemma pm2_streams : forall e o m, m_streams (pm2 e o m) = m_streams (mon_event e m).
Proof.
  intros e o m. unfold pm2, pm1. cbv zeta. cbn [m_streams set]. destruct e; try reflexivity.
  destruct (existsb _ o); [|reflexivity]. destruct (x_sel a) as [[[? ?] ?] ?]. reflexivity.
Qed.
Lemma pm2_supplied : forall e o m, m_supplied (pm2 e o m) = m_supplied (mon_event e m).
Proof.
  intros e o m. unfold pm2, pm1. cbv zeta. cbn [m_supplied set]. destruct e; try reflexivity.
  destruct (existsb _ o); [|reflexivity]. destruct (x_sel a) as [[[? ?] ?] ?]. reflexivity.
Qed.
(* ---- the two checks ----------------------------------------------------------------------------------------------------------------------------------------------- *)
Lemma chk_msg : forall post m c o tk x,
  get_stream m c = Some x -> sm_done x = false -> (sm_stage x <? 4)%N = true ->
  (t_resp tk = None -> find_dop post o <> None) ->
  (forall y r, find_dop post o = Some y -> t_resp tk = Some r -> do_resp y = Some r /\ okrb (m_supplied m) (do_digest y) r = true) ->
  snd (c02_obs post (m, ""%string) (OMsg c o (task_stage tk) (t_resp tk))) = ""%string.
Proof.
  intros post m c o tk x Hg Hd Hs Hnone Hsome. unfold c02_obs. rewrite Hg, Hd. cbn [snd String.eqb].
  assert (E1 : (if (task_stage tk <? sm_stage x)%N && negb ((sm_stage x =? 3)%N && (task_stage tk =? 2)%N) then "C02:stage-went-backwards" else "")%string = ""%string).
  { apply N.ltb_lt in Hs. unfold task_stage. destruct (t_resp tk); [|destruct (t_worker tk)].
    - destruct (N.ltb_spec 4 (sm_stage x)); [lia|reflexivity].
    - destruct (N.ltb_spec 3 (sm_stage x)); [lia|reflexivity].
    - destruct (N.ltb_spec 2 (sm_stage x)); [|reflexivity]. assert (E : sm_stage x = 3%N) by lia. rewrite E. reflexivity. }
  rewrite E1. cbn [first_nonempty].
  destruct (t_resp tk) as [r|] eqn:Er.
  - unfold task_stage. rewrite Er. cbn [N.eqb negb Pos.eqb]. destruct (find_dop post o) as [y|] eqn:Ef; [|reflexivity].
    destruct (Hsome y r eq_refl eq_refl) as [A B]. rewrite A. cbn [opt_eqb]. rewrite resp_eqb_refl.
    unfold okrb in B. destruct (scheduler_made r); rewrite B; reflexivity.
  - assert (E4 : (task_stage tk =? 4)%N = false) by (unfold task_stage; rewrite Er; destruct (t_worker tk); reflexivity).
    rewrite E4. destruct (find_dop post o) eqn:Ef; [reflexivity|]. exfalso. exact (Hnone eq_refl eq_refl).
Qed.

Lemma chk_ret : forall post m c code x,
  get_stream m c = Some x ->
  ((code = cOK /\ sm_done x = true) \/ (code <> cOK /\ sm_done x = false /\ (sm_cancelled x = true \/ In code [cNOTFOUND; cUNAVAILABLE; cFAILEDPRE]))) ->
  snd (c02_obs post (m, ""%string) (ORet c code)) = ""%string.
Proof.
  intros post m c code x Hg H. unfold c02_obs. rewrite Hg. cbn [snd String.eqb].
  destruct H as [[-> Hd]|[Hc [Hd Hx]]].
  - rewrite Hd. reflexivity.
  - assert (E0 : (code =? 0)%N = false) by (apply N.eqb_neq; exact Hc). rewrite E0, Hd. cbn [andb negb].
    destruct Hx as [Hx|Hx]; [rewrite Hx; reflexivity|]. destruct (sm_cancelled x); [reflexivity|]. cbn [negb andb].
    assert (E : existsb (N.eqb code) [cNOTFOUND; cUNAVAILABLE; cFAILEDPRE] = true) by (apply existsb_exists; exists code; split; [exact Hx|apply N.eqb_refl]).
    rewrite E. reflexivity.
Qed.

(* ---- lists with one observation of a call ---------------------------------------------------------------------------------------------------------------------- *)
Lemma ctag_nil_untagged : forall c o, ctag c o = [] -> forall x, In x o -> tagged c x = false.
Proof.
  intros c o H x Hx. destruct (tagged c x) eqn:E; [|reflexivity]. assert (Hin : In x (ctag c o)) by (unfold ctag; apply filter_In; auto). rewrite H in Hin. destruct Hin.
Qed.
Lemma ctag_single_split : forall c o x0 pre x suf, ctag c o = [x0] -> o = pre ++ x :: suf -> tagged c x = true ->
  x = x0 /\ ctag c pre = [] /\ ctag c suf = [].
Proof.
  intros c o x0 pre x suf H Eo Ht. rewrite Eo, ctag_app in H. cbn [ctag filter] in H. rewrite Ht in H. fold (ctag c suf) in H.
  destruct (ctag c pre) as [|y pre']; cbn in H.
  - inversion H. auto.
  - inversion H as [[E1 E2]]. destruct pre'; discriminate.
Qed.

(* the record of call c after the fold, when the list holds at most one observation of c *)
Definition obs_upd (x : obs) (c : nat) (sm : option stream_mon) : option stream_mon :=
  match x with
  | OMsg c' _ st d => if Nat.eqb c' c then match sm with Some y => if sm_done y then Some y else Some (msg_upd st d y) | None => None end else sm
  | _ => sm
  end.
Lemma fold_stream_nil : forall post o m err c, ctag c o = [] -> get_stream (fst (fold_left (c02_obs post) o (m, err))) c = get_stream m c.
Proof. intros post o m err c H. apply c02_fold_stream_untagged. exact (ctag_nil_untagged c o H). Qed.
Lemma fold_stream_single : forall post o m err c x, ctag c o = [x] ->
  get_stream (fst (fold_left (c02_obs post) o (m, err))) c = obs_upd x c (get_stream m c).
Proof.
  intros post o m err c x H.
  assert (Hin : In x o) by (assert (Hx : In x (ctag c o)) by (rewrite H; left; reflexivity); unfold ctag in Hx; apply filter_In in Hx; tauto).
  assert (Ht : tagged c x = true) by (assert (Hx : In x (ctag c o)) by (rewrite H; left; reflexivity); unfold ctag in Hx; apply filter_In in Hx; tauto).
  destruct (in_split _ _ Hin) as [pre [suf Eo]]. destruct (ctag_single_split c o x pre x suf H Eo Ht) as [_ [Hp Hs]].
  rewrite Eo, fold_left_app. cbn [fold_left].
  destruct (fold_left (c02_obs post) pre (m, err)) as [m1 e1] eqn:E1.
  destruct (c02_obs post (m1, e1) x) as [m2 e2] eqn:E2.
  rewrite (fold_stream_nil post suf m2 e2 c Hs).
  pose proof (c02_obs_stream post m1 e1 x c) as Hx. rewrite E2 in Hx. cbn [fst] in Hx. rewrite Hx.
  pose proof (fold_stream_nil post pre m err c Hp) as Hpre. rewrite E1 in Hpre. cbn [fst] in Hpre. rewrite Hpre.
  unfold obs_upd. destruct x; reflexivity.
Qed.

(* ---- freshness, kinds --------------------------------------------------------------------------------------------------------------------------------------------- *)
Lemma kind_of_snoc : forall pfx e h c,
  kind_of (pfx ++ [(e, h)]) c = kind_of pfx c || (is_start e && Nat.eqb (ev_call e) c && stream_start e).
Proof. intros. unfold kind_of. rewrite existsb_app. cbn [existsb]. rewrite orb_false_r. reflexivity. Qed.

Lemma fresh_snoc_not_started : forall pfx U e h, fresh_calls U (pfx ++ [(e, h)]) -> is_start e = true -> ~ In (ev_call e) U /\ ~ started pfx (ev_call e).
Proof.
  induction pfx as [|[e0 h0] pfx IH]; intros U e h Hf Hs; cbn [app fresh_calls] in Hf.
  - rewrite Hs in Hf. split; [tauto|]. intros [e' [h' [[] _]]].
  - destruct (is_start e0) eqn:Es0.
    + destruct Hf as [Hn Hf]. destruct (IH _ e h Hf Hs) as [A B]. split; [intro Hu; apply A; right; exact Hu|].
      intros [e' [h' [[E|Hin] [Hs' Hc]]]]; [inversion E; subst; apply A; left; exact Hc|apply B; exists e', h'; auto].
    + destruct (IH _ e h Hf Hs) as [A B]. split; [exact A|].
      intros [e' [h' [[E|Hin] [Hs' Hc]]]]; [inversion E; subst; congruence|apply B; exists e', h'; auto].
Qed.

Lemma not_started_kind : forall pfx c, ~ started pfx c -> kind_of pfx c = false.
Proof.
  intros pfx c H. unfold kind_of. apply not_true_is_false. intro Hex. apply existsb_exists in Hex. destruct Hex as [[e h] [Hin Hb]].
  apply andb_true_iff in Hb. destruct Hb as [Hb _]. apply andb_true_iff in Hb. destruct Hb as [Hs He]. apply Nat.eqb_eq in He.
  apply H. exists e, h. auto.
Qed.
Lemma not_started_call : forall cfg t0 pfx c, ~ started pfx c -> aget Nat.eqb c (s_calls (fst (run (init cfg t0) pfx))) = None.
Proof.
  intros cfg t0 pfx c H. destruct (aget Nat.eqb c (s_calls (fst (run (init cfg t0) pfx)))) eqn:E; [|reflexivity].
  exfalso. apply H. apply (run_keys cfg t0). eapply aget_Some_in_keys; [exact nat_eqb_eq|exact E].
Qed.
Lemma calls_nodup_run : forall cfg t0 evs, calls_nodup (fst (run (init cfg t0) evs)).
Proof. intros. apply (run_fst_snoc evs (init cfg t0) calls_nodup); [intros; apply calls_nodup_step; assumption|]. unfold calls_nodup. rewrite init_calls. constructor. Qed.

(* ---- the monitor's stream records follow the program points of the stream calls --------------------------------------------------------------- *)
Definition pp_ok (p : option pc) (x : stream_mon) : Prop :=
  match p with
  | None | Some (PWaitRecheck _) | Some (PStream _ _) => sm_done x = false /\ (sm_stage x <? 4)%N = true
  | Some (PStreamCancelled _) => sm_done x = false /\ sm_cancelled x = true
  | Some (PStreamReturn _ _) => sm_done x = true
  | _ => True
  end.
Definition smi (k : bool) (p : option pc) (sm : option stream_mon) : Prop :=
  if k then exists x, sm = Some x /\ pp_ok p x else sm = None.

Definition InvS (cfg : config) (t0 : Z) (pfx : list (event * list (nat * wref))) (m : mon) : Prop :=
  let s := fst (run (init cfg t0) pfx) in
  (forall c, smi (kind_of pfx c) (aget Nat.eqb c (s_calls s)) (get_stream m c)) /\ RC (m_supplied m) s.

Lemma pp_ok_cancelled : forall p x, pp_ok p x -> pp_ok p (x <| sm_cancelled := true |>).
Proof. intros p x H. destruct p as [[]|]; cbn in *; try exact H; try exact I. destruct H. auto. Qed.

(* everything the proof needs to know about one stream call and one event *)
Lemma stream_facts : forall cfg t0 pfx e h c,
  fresh_calls [] (pfx ++ [(e, h)]) -> kind_of (pfx ++ [(e, h)]) c = true ->
  let s := fst (run (init cfg t0) pfx) in let p0 := aget Nat.eqb c (s_calls s) in
  let s' := fst (step s (e, h)) in let o := snd (step s (e, h)) in
  (ev_call e = c -> exists p l, aget Nat.eqb c (s_calls s') = p /\ ctag c o = rev l /\ Qs c e p0 p l s') /\
  (ev_call e <> c -> aget Nat.eqb c (s_calls s') = p0 /\ ctag c o = []) /\
  ((is_start e = true /\ ev_call e = c /\ p0 = None /\ stream_start e = true /\ kind_of pfx c = false) \/
   ((is_start e = false \/ ev_call e <> c) /\ kind_of pfx c = true)) /\
  (forall o' code, p0 = Some (PStreamReturn o' code) -> code = cOK).
Proof.
  intros cfg t0 pfx e h c Hf Hk s p0 s' o. pose proof (fresh_calls_app _ _ _ Hf) as Hf0.
  pose proof (call_view cfg t0 pfx c Hf0) as V0. fold s in V0. fold p0 in V0.
  rewrite kind_of_snoc in Hk.
  assert (Hcase : (is_start e = true /\ ev_call e = c /\ p0 = None /\ stream_start e = true /\ kind_of pfx c = false) \/
                  ((is_start e = false \/ ev_call e <> c) /\ kind_of pfx c = true)).
  { destruct (is_start e) eqn:Es; [|right; split; [left; reflexivity|]; cbn [andb] in Hk; rewrite orb_false_r in Hk; exact Hk].
    destruct (Nat.eqb (ev_call e) c) eqn:Ec.
    - apply Nat.eqb_eq in Ec. destruct (fresh_snoc_not_started pfx [] e h Hf Es) as [_ Hns]. rewrite Ec in Hns.
      pose proof (not_started_kind pfx c Hns) as Hk0. pose proof (not_started_call cfg t0 pfx c Hns) as Hp0. rewrite Hk0 in Hk. cbn [andb orb] in Hk.
      left. auto.
    - right. split; [right; apply Nat.eqb_neq; exact Ec|]. cbn [andb] in Hk. rewrite orb_false_r in Hk. exact Hk. }
  assert (HJ : J c true p0 (ctag c (List.concat (snd (run (init cfg t0) pfx))))).
  { destruct Hcase as [[_ [_ [Hp [_ Hk0]]]]|[_ Hk0]]; [|rewrite Hk0 in V0; exact V0]. rewrite Hk0, Hp in V0. rewrite Hp. exact V0. }
  destruct (stream_call_step c p0 _ s e h (calls_nodup_run cfg t0 pfx) eq_refl HJ) as [A B].
  { intros Hs Hc. destruct Hcase as [[_ [_ [Hp [Hss _]]]]|[[Hx|Hx] _]]; [auto|congruence|contradiction]. }
  split; [exact A|]. split; [exact B|]. split; [exact Hcase|].
  intros o' code Hp. rewrite Hp in HJ. cbn [J] in HJ. tauto.
Qed.

(* the record of a stream call once the event has been noted *)
Lemma sm1_facts : forall cfg t0 pfx m e c,
  InvS cfg t0 pfx m ->
  let p0 := aget Nat.eqb c (s_calls (fst (run (init cfg t0) pfx))) in
  ((is_start e = true /\ ev_call e = c /\ p0 = None /\ stream_start e = true /\ kind_of pfx c = false) \/
   ((is_start e = false \/ ev_call e <> c) /\ kind_of pfx c = true)) ->
  exists x1, get_stream (mon_event e m) c = Some x1 /\ pp_ok p0 x1 /\ (e = ECancel c -> sm_cancelled x1 = true) /\
             (ev_call e <> c -> get_stream m c = Some x1).
Proof.
  intros cfg t0 pfx m e c [HI _] p0 Hcase. rewrite mon_event_stream.
  destruct Hcase as [[Hs [Hc [Hp [Hss Hk0]]]]|[Hx Hk0]].
  - rewrite Hss, Hc, Nat.eqb_refl. cbn [andb]. exists (mkSM c 0 false false). rewrite Hp. cbn. split; [reflexivity|]. split; [auto|]. split; [intros ->; discriminate|congruence].
  - specialize (HI c). rewrite Hk0 in HI. cbn [smi] in HI. destruct HI as [x [Ex Hx1]]. fold p0 in Hx1.
    assert (Hb : stream_start e && Nat.eqb (ev_call e) c = false).
    { destruct (stream_start e) eqn:Ess; [|reflexivity]. cbn [andb]. destruct Hx as [Hx|Hx]; [destruct e; discriminate|apply Nat.eqb_neq; exact Hx]. }
    rewrite Hb. destruct e; try (exists x; split; [exact Ex|split; [exact Hx1|split; [discriminate|intros _; exact Ex]]]; fail).
    cbn [ev_call] in *. destruct (Nat.eqb c0 c) eqn:Ec.
    + apply Nat.eqb_eq in Ec. subst c0. rewrite Ex. cbn [option_map]. eexists. split; [reflexivity|]. split; [apply pp_ok_cancelled; exact Hx1|]. split; [reflexivity|congruence].
    + exists x. split; [exact Ex|split; [exact Hx1|split; [intro E; inversion E; subst; rewrite Nat.eqb_refl in Ec; discriminate|intros _; exact Ex]]].
Qed.

Lemma J_false_ends : forall c p tr x, J c false p tr -> In x tr -> is_end c x.
Proof.
  intros c p tr x HJ Hin. destruct p as [p|]; cbn [J] in HJ; [|subst; destruct Hin].
  destruct p; try (destruct HJ as [_ ->]; destruct Hin; fail); try (destruct HJ as [HF _]; discriminate HF).
  destruct HJ as [->|[[_ [o [-> Ho]]]|[HF _]]]; [destruct Hin| |discriminate HF]. destruct Hin as [<-|[]]. exact Ho.
Qed.

Lemma in_step_trace : forall cfg t0 pfx eh c x, In x (snd (step (fst (run (init cfg t0) pfx)) eh)) -> tagged c x = true ->
  In x (ctag c (List.concat (snd (run (init cfg t0) (pfx ++ [eh]))))).
Proof.
  intros cfg t0 pfx eh c x Hin Ht. rewrite run_snoc_snd, concat_app, ctag_app. apply in_or_app. right. cbn [List.concat]. rewrite app_nil_r.
  unfold ctag. apply filter_In. auto.
Qed.

Lemma list3_nonzero : forall code, In code [cNOTFOUND; cUNAVAILABLE; cFAILEDPRE] -> code <> cOK.
Proof. intros code [<-|[<-|[<-|[]]]]; discriminate. Qed.

Lemma pc_stream_ok : forall cfg t0 pfx e h m,
  fresh_calls [] (pfx ++ [(e, h)]) -> causes_ok (pfx ++ [(e, h)]) -> InvS cfg t0 pfx m ->
  let s := fst (run (init cfg t0) pfx) in
  pc_stream (observe (fst (step s (e, h)))) e (snd (step s (e, h))) m = ""%string.
Proof.
  intros cfg t0 pfx e h m Hf Hc HI s. set (s' := fst (step s (e, h))). set (o := snd (step s (e, h))).
  pose proof (fresh_calls_app _ _ _ Hf) as Hf0.
  assert (Es' : fst (run (init cfg t0) (pfx ++ [(e, h)])) = s') by apply run_snoc_fst.
  assert (Hev : ev_resp_ok e = true) by (apply (Hc (e, h)); apply in_or_app; right; left; reflexivity).
  assert (HRC : RC (ev_supplied e ++ m_supplied m) s').
  { apply (RC_step (m_supplied m) s (e, h)); [exact Hev|apply KC_run; exact (causes_ok_prefix _ _ Hc)|apply W_run|exact (proj2 HI)]. }
  unfold pc_stream. apply c02_fold_ok. intros pre x suf Eo. fold o in Eo.
  set (mx := fst (fold_left (c02_obs (observe s')) pre (pm2 e o m, ""%string))).
  assert (Hsup : m_supplied mx = ev_supplied e ++ m_supplied m) by (unfold mx; rewrite c02_fold_supplied, pm2_supplied; apply mon_event_supplied).
  assert (Hxo : In x o) by (rewrite Eo; apply in_or_app; right; left; reflexivity).
  assert (Hstr : forall c, ctag c pre = [] -> get_stream mx c = get_stream (mon_event e m) c).
  { intros c Hp. unfold mx. rewrite (fold_stream_nil _ pre _ _ c Hp). apply get_stream_frame. apply pm2_streams. }
  (* what an alive operation looks like in the dump *)
  assert (Hop : forall c p o', aget Nat.eqb c (s_calls s') = Some p -> parked_on p = Some o' ->
            exists y, find_dop (observe s') o' = Some (observe_op s' o' y) /\ get_op s' o' = y).
  { intros c p o' Hp Hpo. pose proof (parked_alive_all cfg t0 (pfx ++ [(e, h)]) c p o' Hf) as Ha. cbv zeta in Ha. rewrite Es' in Ha. specialize (Ha Hp Hpo).
    unfold op_alive in Ha. destruct (aget Nat.eqb o' (s_ops s')) as [y|] eqn:Ey; [|discriminate]. exists y. split; [apply find_dop_observe; exact Ey|unfold get_op; rewrite Ey; reflexivity]. }
  destruct x as [c n st d|c code|c d z|g|w]; try reflexivity.
  - (* a message *)
    assert (Ht : tagged c (OMsg c n st d) = true) by apply tagged_self_msg.
    destruct (kind_of (pfx ++ [(e, h)]) c) eqn:Hk.
    2:{ exfalso. pose proof (call_view cfg t0 (pfx ++ [(e, h)]) c Hf) as V1. rewrite Hk in V1.
        destruct (J_false_ends _ _ _ _ V1 (in_step_trace cfg t0 pfx (e, h) c _ Hxo Ht)) as [[code E]|[d' [z E]]]; discriminate. }
    destruct (stream_facts cfg t0 pfx e h c Hf Hk) as [A [B [Hcase Hret]]]. fold s s' o in A, B.
    destruct (Nat.eq_dec (ev_call e) c) as [Hec|Hnc].
    2:{ exfalso. destruct (B Hnc) as [_ E0]. pose proof (ctag_nil_untagged c o E0 _ Hxo) as Hu. congruence. }
    destruct (A Hec) as [p [l [Ep [El Q]]]].
    assert (Hxl : In (OMsg c n st d) (rev l)) by (rewrite <- El; unfold ctag; apply filter_In; auto).
    destruct Q as [[-> _]|[[o' [-> [Hcap Epc]]]|[code [-> _]]]]; [destruct Hxl| |destruct Hxl as [E|[]]; discriminate].
    cbn [rev app] in Hxl, El. destruct Hxl as [E|[]]. inversion E; subst n st d. clear E.
    destruct (ctag_single_split c o _ pre _ suf El Eo Ht) as [_ [Hpre _]].
    destruct (sm1_facts cfg t0 pfx m e c HI Hcase) as [x1 [E1 [Hpp _]]]. change (fst (run (init cfg t0) pfx)) with s in Hpp.
    assert (Hdn : sm_done x1 = false /\ (sm_stage x1 <? 4)%N = true).
    { destruct Hcap as [E0|[[n0 E0]|[o0 [g0 E0]]]]; rewrite E0 in Hpp; exact Hpp. }
    apply (chk_msg (observe s') mx c o' (optask s' o') x1); [rewrite (Hstr c Hpre); exact E1|exact (proj1 Hdn)|exact (proj2 Hdn)| |].
    + intros Hr. rewrite Epc in Ep. unfold msg_pc in Ep. rewrite Hr in Ep. destruct (Hop c _ o' Ep eq_refl) as [y [Ef _]]. rewrite Ef. discriminate.
    + intros y' r Ef Hr. rewrite Epc in Ep. unfold msg_pc in Ep. rewrite Hr in Ep. destruct (Hop c _ o' Ep eq_refl) as [y [Ef' Eg]].
      rewrite Ef' in Ef. inversion Ef; subst y'. unfold observe_op. cbn [do_resp do_digest]. unfold optask in Hr. rewrite Eg in Hr.
      split; [exact Hr|]. rewrite Hsup. apply HRC. exact Hr.
  - (* a return *)
    destruct (get_stream mx c) as [x0|] eqn:Eg; [|unfold c02_obs; rewrite Eg; reflexivity].
    assert (Ht : tagged c (ORet c code) = true) by apply tagged_self_ret.
    destruct (kind_of (pfx ++ [(e, h)]) c) eqn:Hk.
    2:{ exfalso. rewrite kind_of_snoc in Hk. apply orb_false_iff in Hk. destruct Hk as [Hk0 Hk1].
        assert (E1 : get_stream (mon_event e m) c = None).
        { rewrite mon_event_stream. pose proof (proj1 HI c) as Hc0. rewrite Hk0 in Hc0. cbn [smi] in Hc0.
          destruct (stream_start e && Nat.eqb (ev_call e) c) eqn:Eb.
          - apply andb_true_iff in Eb. destruct Eb as [Eb1 Eb2]. rewrite Eb1, Eb2 in Hk1. destruct e; discriminate.
          - destruct e; try exact Hc0. destruct (Nat.eqb c0 c); [rewrite Hc0; reflexivity|exact Hc0]. }
        unfold mx in Eg. rewrite c02_fold_stream_none in Eg; [discriminate|]. rewrite (get_stream_frame _ _ c (pm2_streams e o m)). exact E1. }
    destruct (stream_facts cfg t0 pfx e h c Hf Hk) as [A [B [Hcase Hret]]]. fold s s' o in A, B.
    destruct (Nat.eq_dec (ev_call e) c) as [Hec|Hnc].
    2:{ exfalso. destruct (B Hnc) as [_ E0]. pose proof (ctag_nil_untagged c o E0 _ Hxo) as Hu. congruence. }
    destruct (A Hec) as [p [l [Ep [El Q]]]].
    assert (Hxl : In (ORet c code) (rev l)) by (rewrite <- El; unfold ctag; apply filter_In; auto).
    destruct Q as [[-> _]|[[o' [-> _]]|[code' [-> [_ Hro]]]]]; [destruct Hxl|destruct Hxl as [E|[]]; discriminate|].
    cbn [rev app] in Hxl, El. destruct Hxl as [E|[]]. inversion E; subst code'. clear E.
    destruct (ctag_single_split c o _ pre _ suf El Eo Ht) as [_ [Hpre _]].
    destruct (sm1_facts cfg t0 pfx m e c HI Hcase) as [x1 [E1 [Hpp _]]]. change (fst (run (init cfg t0) pfx)) with s in Hpp.
    rewrite (Hstr c Hpre), E1 in Eg. inversion Eg; subst x0.
    apply (chk_ret (observe s') mx c code x1); [rewrite (Hstr c Hpre); exact E1|].
    set (p0 := aget Nat.eqb c (s_calls s)) in *.
    destruct p0 as [[]|] eqn:Ep0; cbn [ret_ok] in Hro; try contradiction; cbn [pp_ok] in Hpp.
    + right. split; [exact (list3_nonzero _ Hro)|]. split; [exact (proj1 Hpp)|right; exact Hro].
    + right. split; [subst code; discriminate|]. split; [exact (proj1 Hpp)|left; exact (proj2 Hpp)].
    + left. split; [rewrite Hro; exact (Hret _ _ Ep0)|exact Hpp].
    + right. split; [exact (list3_nonzero _ Hro)|]. split; [exact (proj1 Hpp)|right; exact Hro].
Qed.

Lemma pm_final_streams : forall cfg pre d e o m c,
  get_stream (pm_final cfg pre d e o m) c = get_stream (fst (fold_left (c02_obs d) o (pm2 e o m, ""%string))) c.
Proof. intros. apply get_stream_frame. exact (proj1 (pm_final_frame cfg pre d e o m)). Qed.
Lemma pm_final_supplied : forall cfg pre d e o m, m_supplied (pm_final cfg pre d e o m) = ev_supplied e ++ m_supplied m.
Proof. intros. destruct (pm_final_frame cfg pre d e o m) as [_ [_ [E _]]]. cbv zeta in E. rewrite E. unfold pm3. rewrite c02_fold_supplied, pm2_supplied. apply mon_event_supplied. Qed.

Lemma InvS_step : forall cfg t0 pfx e h m pre d,
  fresh_calls [] (pfx ++ [(e, h)]) -> causes_ok (pfx ++ [(e, h)]) -> InvS cfg t0 pfx m ->
  let s := fst (run (init cfg t0) pfx) in
  InvS cfg t0 (pfx ++ [(e, h)]) (pm_final cfg pre d e (snd (step s (e, h))) m).
Proof.
  intros cfg t0 pfx e h m pre d Hf Hc HI s. set (s' := fst (step s (e, h))). set (o := snd (step s (e, h))).
  assert (Es' : fst (run (init cfg t0) (pfx ++ [(e, h)])) = s') by apply run_snoc_fst.
  assert (Hev : ev_resp_ok e = true) by (apply (Hc (e, h)); apply in_or_app; right; left; reflexivity).
  unfold InvS. rewrite Es'. split.
  2:{ rewrite pm_final_supplied. apply (RC_step (m_supplied m) s (e, h)); [exact Hev|apply KC_run; exact (causes_ok_prefix _ _ Hc)|apply W_run|exact (proj2 HI)]. }
  intro c. rewrite pm_final_streams.
  destruct (kind_of (pfx ++ [(e, h)]) c) eqn:Hk; cbn [smi].
  - destruct (stream_facts cfg t0 pfx e h c Hf Hk) as [A [B [Hcase _]]]. fold s s' o in A, B.
    destruct (sm1_facts cfg t0 pfx m e c HI Hcase) as [x1 [E1 [Hpp [Hcan _]]]]. change (fst (run (init cfg t0) pfx)) with s in Hpp.
    assert (E2 : get_stream (pm2 e o m) c = Some x1) by (rewrite (get_stream_frame _ _ c (pm2_streams e o m)); exact E1).
    destruct (Nat.eq_dec (ev_call e) c) as [Hec|Hnc].
    2:{ destruct (B Hnc) as [Ep E0]. rewrite (fold_stream_nil _ o _ _ c E0), E2, Ep. exists x1. auto. }
    destruct (A Hec) as [p [l [Ep [El Q]]]]. rewrite Ep.
    destruct Q as [[-> Hq]|[[o' [-> [Hcap Epc]]]|[code [-> [-> _]]]]]; cbn [rev app] in El.
    + rewrite (fold_stream_nil _ o _ _ c El), E2. exists x1. split; [reflexivity|].
      destruct Hq as [->|[[E0 [n ->]]|[o' [g [E0 [-> Ee]]]]]]; [exact Hpp|rewrite E0 in Hpp; exact Hpp|].
      rewrite E0 in Hpp. cbn [pp_ok] in *. split; [exact (proj1 Hpp)|exact (Hcan Ee)].
    + rewrite (fold_stream_single _ o _ _ c _ El), E2. cbn [obs_upd]. rewrite Nat.eqb_refl.
      assert (Hdn : sm_done x1 = false) by (destruct Hcap as [E0|[[n0 E0]|[o0 [g0 E0]]]]; rewrite E0 in Hpp; exact (proj1 Hpp)).
      rewrite Hdn. eexists. split; [reflexivity|]. rewrite Epc. set (tk := optask s' o') in *. clearbody tk. unfold msg_pc, msg_upd.
      destruct (t_resp tk) eqn:Er; cbn; [reflexivity|].
      split; [reflexivity|]. unfold task_stage. rewrite Er. destruct (t_worker tk); reflexivity.
    + rewrite (fold_stream_single _ o _ _ c _ El), E2. cbn [obs_upd]. exists x1. split; [reflexivity|exact I].
  - rewrite kind_of_snoc in Hk. apply orb_false_iff in Hk. destruct Hk as [Hk0 Hk1].
    apply c02_fold_stream_none. rewrite (get_stream_frame _ _ c (pm2_streams e o m)). rewrite mon_event_stream.
    pose proof (proj1 HI c) as Hc0. rewrite Hk0 in Hc0. cbn [smi] in Hc0.
    destruct (stream_start e && Nat.eqb (ev_call e) c) eqn:Eb.
    + apply andb_true_iff in Eb. destruct Eb as [Eb1 Eb2]. rewrite Eb1, Eb2 in Hk1. destruct e; discriminate.
    + destruct e; try exact Hc0. destruct (Nat.eqb c0 c); [rewrite Hc0; reflexivity|exact Hc0].
Qed.

Theorem monitor_stream_on_model : forall cfg t0 evs,
  selectors_in_range (init cfg t0) evs -> fresh_calls [] evs -> bg_scripts_ok evs -> causes_ok evs ->
  panicked (snd (run (init cfg t0) evs)) \/ trace_sub [3%nat] cfg t0 (model_trace cfg t0 evs) = true.
Proof.
  intros cfg t0 evs Hsel Hfr Hbg Hc.
  apply (trace_sub_generic2 cfg t0 [3%nat] causes_ok (fun pfx m _ => InvS cfg t0 pfx m) causes_ok_prefix) with (pfx := []) (m := mon0) (pre := empty_dump);
    [|split; [exact Hsel|split; assumption]|exact Hc|intros [o [what [[] _]]]|].
  - intros pfx [e h] m pre Hg Hq Hnp HI. cbv zeta. split; [|apply InvS_step; [exact (proj1 (proj2 Hg))|exact Hq|exact HI]].
    cbn [forallb]. rewrite andb_true_r. apply String.eqb_eq. unfold p_components. cbv zeta. cbn [nth fst].
    apply pc_stream_ok; [exact (proj1 (proj2 Hg))|exact Hq|exact HI].
  - split; [intro c; cbn; reflexivity|]. intros t r Hr. unfold init, get_task in Hr. cbn in Hr. discriminate.
Qed.
