(* Position 15 (e_early) of Spec.p_step on the model's own traces, second round (2026-09-23).  Depends only on Spec.v / Corr.v.

   HISTORY.  The p_step that had the accepted-completion rule restored (first round, ProofsRetry1.v) was refuted again, position
   15 only, by rw7_evs below.  That monitor looked at the operation list of the task a worker holds only at the worker's
   re-requests; it recognised "the same task" by a shared operation id between the list stored at the previous re-request
   and the list in the pre dump of this one.  Consecutive operation lists of a live task intersect, but the lists at two
   re-requests need not: in between, in-flight deduplication attaches a new operation and the no-waiter clean-up removes
   the old one.

   rw7_evs (11 events, retry count 2, one size class, no-waiter time-out 10, worker time-out 20):
     0 register; 1 worker w parks; 2 Execute (call 2): task 0 / operation 0 handed to w; 3 the parked call is told (t = 4)
     4 w asks again (t = 5): counted                                         t_retry = 1   m_reissue[w] = ([0], 1)
     5 Execute of the same digest, other invocation (call 4): operation 1 attached to task 0       operations [0; 1]
     6 call 2 is cancelled; 7 it leaves (t = 8): operation 0 has no waiter, removal armed at 18
     8 a read-only call at t = 19: operation 0 is removed                                           operations [1]
     9 w asks again (t = 20): stored [0] shared nothing with [1], that monitor restarted at 0;
       the model counts 1 < 2 and tells it again                              t_retry = 2   m_reissue[w] = ([1], 1)   <- drift
    10 w asks again (t = 21): the model has reached the limit: INTERNAL; that monitor read 1 <> 2:
       "C06:task-failed-before-retry-limit".
   No panic; call ids fresh; learner ids 1, 2; no kill; selector index 0 of one size class.

   Spec.p_step was repaired with the rule proposed here ([rt_track]): after every event each entry (w, (ops0, n)) becomes
   (w, (ops', n)) if w holds ops' in the post dump and ops0 shares an operation with ops', and is dropped otherwise, as
   m_terms does with term_track.  (The accepted-completion rule stays: the retried task handed back to the reporting call
   has the same operations.)  The stored list is now always the list in the dump.  rw7_evs is accepted by the whole p_step
   and kept as a regression; [rt_step true] is a copy of the bookkeeping of the current p_step (rt_faithful_on_rw7),
   [rt_step false] the one of the second round. *)
From VF Require Import Sched.Spec Sched.Corr.
Open Scope Z_scope.

Fixpoint rt_trace (s : state) (evs : list (event * list (nat * wref))) : list (event * list obs * dump) :=
  match evs with
  | [] => []
  | eh :: tl => (fst eh, snd (step s eh), observe (fst (step s eh))) :: rt_trace (fst (step s eh)) tl
  end.
(* the first complaint of p_step at every step *)
Fixpoint rt_verdicts (cfg : config) (t0 : Z) (m : mon) (pre : dump) (tr : list (event * list obs * dump)) : list string :=
  match tr with
  | [] => []
  | (e, o, d) :: tl => snd (p_step cfg t0 m pre e o d) :: rt_verdicts cfg t0 (fst (p_step cfg t0 m pre e o d)) d tl
  end.
(* positions 14 and 15 at every step *)
Fixpoint rt_positions (cfg : config) (t0 : Z) (m : mon) (pre : dump) (tr : list (event * list obs * dump)) : list (string * string) :=
  match tr with
  | [] => []
  | (e, o, d) :: tl => (nth 14 (snd (p_step_all cfg t0 m pre e o d)) ""%string, nth 15 (snd (p_step_all cfg t0 m pre e o d)) ""%string)
                       :: rt_positions cfg t0 (fst (p_step_all cfg t0 m pre e o d)) d tl
  end.

Definition rw7_cfg : config := mkConfig 5 10 30 10 60 2 20.
Definition rw7_w : wref := mkW (mkSK (mkPK [] 0) 1) 7 8.
Definition rw7_evs : list (event * list (nat * wref)) :=
  [ (ERegister 0 (mkPK [] 0) [] 0 0 [1%N] 1, []);
    (EStartSync 1 (mkSync rw7_w WIdle false) 2, []);
    (EStartExecute 2 (mkExec [] 0 5 false 0 [] (0%nat, 10, 100, Learner 1 None None)) 3, []);
    (EEnter 1 4, []);
    (EStartSync 3 (mkSync rw7_w WIdle false) 5, []);
    (EStartExecute 4 (mkExec [] 0 5 false 0 [9%N] (0%nat, 10, 100, Learner 2 None None)) 6, []);
    (ECancel 2, []);
    (EEnter 2 8, []);
    (ETick 5 19, []);
    (EStartSync 6 (mkSync rw7_w WIdle false) 20, []);
    (EStartSync 7 (mkSync rw7_w WIdle false) 21, []) ].

Lemma rw7_outputs : snd (run (init rw7_cfg 0) rw7_evs) =
  [[ORet 0 0]; []; [OGhost GSelect; OMsg 2 0 3 None]; [OSync 1 (DExec 5 false 100 3 []) 14];
   [OSync 3 (DExec 5 false 100 3 []) 15]; [OGhost GSelAbandoned; OMsg 4 1 3 None]; []; [ORet 2 1]; [ORet 5 0];
   [OSync 6 (DExec 5 false 100 3 []) 30]; [OGhost (GAbandoned 1)]].
Proof. vm_compute. reflexivity. Qed.

(* the whole current monitor accepts every step *)
Lemma rw7_verdicts : rt_verdicts rw7_cfg 0 mon0 empty_dump (rt_trace (init rw7_cfg 0) rw7_evs) =
  [""; ""; ""; ""; ""; ""; ""; ""; ""; ""; ""]%string.
Proof. vm_compute. reflexivity. Qed.
(* after ten events the worker holds task 0 (uncompleted, operations [1]) with t_retry = 2; the monitor of the second
   round stored ([1], 1) *)
Lemma rw7_drift :
  let s := fst (run (init rw7_cfg 0) (firstn 10 rw7_evs)) in
  k_task (get_worker s rw7_w) = Some 0%nat /\ t_retry (get_task s 0%nat) = 2%nat /\ t_resp (get_task s 0%nat) = None /\ task_opids s 0%nat = [1%nat].
Proof. vm_compute. repeat split; reflexivity. Qed.

(* ---- the retry bookkeeping in isolation (copies of the corresponding lets of Spec.p_gen); [track]: with the last rule ---------------- *)
Definition rt_clear (pre : dump) (e : event) (m : mon) : mon :=
  match e with
  | EStartSync _ a _ =>
    match y_state a, find_dworker pre (w_sk (y_worker a)) (wid (y_worker a)) with
    | WCompleted d _, Some k =>
      match dw_task k with
      | Some ops0 =>
        if existsb (fun o => existsb (Nat.eqb (do_name o)) ops0 && (do_digest o =? d)%N) (d_ops pre)
        then m <| m_reissue := adel wref_eqb (y_worker a) (m_reissue m) |> else m
      | None => m
      end
    | _, _ => m
    end
  | _ => m
  end.
Definition rt_rereq (pre : dump) (e : event) (m : mon) : option (wref * list nat * nat) :=
    match e with
    | EStartSync _ a _ =>
      let w := y_worker a in
      match find_dworker pre (w_sk w) (wid w) with
      | Some k =>
        match dw_task k with
        | Some ops =>
          let names_task (d : N) := existsb (fun o => existsb (Nat.eqb (do_name o)) ops && (do_digest o =? d)%N) (d_ops pre) in
          let correct := match y_state a with
                         | WExecuting d => names_task d
                         | WCompleted d _ => names_task d
                         | WIdle => false
                         | WNoState => true
                         end in
          if correct then None
          else Some (w, ops, match aget wref_eqb w (m_reissue m) with
                             | Some (ops0, n0) => if shares_op ops0 ops then n0 else O
                             | None => O
                             end)
        | None => None
        end
      | None => None
      end
    | _ => None
    end.
Definition rt_retry (cfg : config) (post : dump) (e : event) (o : list obs) (rr : option (wref * list nat * nat)) (m : mon) : mon * string :=
    match rr, e with
    | Some (w, ops, n), EStartSync c _ _ =>
      let told := existsb (fun x => match x with OSync c' (DExec _ _ _ _ _) _ => Nat.eqb c c' | _ => false end) o in
      match find_dworker post (w_sk w) (wid w) with
      | Some k =>
        match dw_task k with
        | Some ops' =>
          if told && shares_op ops ops'
          then (m <| m_reissue := aset wref_eqb w (ops', S n) (m_reissue m) |>,
                if Nat.leb (cf_retry_count cfg) n then "C06:task-reissued-beyond-retry-limit"%string else ""%string)
          else (m, ""%string)
        | None => (m, ""%string)
        end
      | None => (m, ""%string)
      end
    | _, _ => (m, ""%string)
    end.
Definition rt_early (cfg : config) (pre post : dump) (rr : option (wref * list nat * nat)) : string :=
  first_nonempty (map (fun o1 =>
                  match do_resp o1, find_dop pre (do_name o1) with
                  | Some r, Some o0 =>
                    match do_resp o0 with
                    | None =>
                      if scheduler_made r && (r_code r =? cINTERNAL)%N then
                        match rr with
                        | Some (_, ops, n) =>
                          if existsb (Nat.eqb (do_name o1)) ops && Nat.eqb n (cf_retry_count cfg) then ""%string
                          else "C06:task-failed-before-retry-limit"%string
                        | None => "C06:task-failed-before-retry-limit"%string
                        end
                      else ""%string
                    | Some _ => ""%string
                    end
                  | _, _ => ""%string
                  end) (d_ops post)).
(* follow every entry into the post dump, drop it when the worker no longer holds that task *)
Definition rt_track (post : dump) (m : mon) : mon :=
  m <| m_reissue := flat_map (fun x : wref * (list nat * nat) =>
                      match find_dworker post (w_sk (fst x)) (wid (fst x)) with
                      | Some k => match dw_task k with
                                  | Some ops' => if shares_op (fst (snd x)) ops' then [(fst x, (ops', snd (snd x)))] else []
                                  | None => []
                                  end
                      | None => []
                      end) (m_reissue m) |>.
Definition rt_step (track : bool) (cfg : config) (m : mon) (pre : dump) (e : event) (o : list obs) (post : dump) : mon * (string * string) :=
  let m1 := rt_clear pre e m in
  let rr := rt_rereq pre e m1 in
  let m2 := fst (rt_retry cfg post e o rr m1) in
  (if track then rt_track post m2 else m2, (snd (rt_retry cfg post e o rr m1), rt_early cfg pre post rr)).
Fixpoint rt_run (track : bool) (cfg : config) (m : mon) (pre : dump) (tr : list (event * list obs * dump)) : list (string * string) :=
  match tr with
  | [] => []
  | (e, o, d) :: tl => snd (rt_step track cfg m pre e o d) :: rt_run track cfg (fst (rt_step track cfg m pre e o d)) d tl
  end.
Definition rt_accepts (track : bool) (cfg : config) (t0 : Z) (evs : list (event * list (nat * wref))) : bool :=
  forallb (fun x => String.eqb (fst x) "" && String.eqb (snd x) "") (rt_run track cfg mon0 empty_dump (rt_trace (init cfg t0) evs)).

(* with the rule the copy says what positions 14 / 15 of the current p_step_all say; without it rw7_evs is rejected *)
Lemma rt_faithful_on_rw7 : rt_run true rw7_cfg mon0 empty_dump (rt_trace (init rw7_cfg 0) rw7_evs) =
                           rt_positions rw7_cfg 0 mon0 empty_dump (rt_trace (init rw7_cfg 0) rw7_evs).
Proof. vm_compute. reflexivity. Qed.
Lemma rt_rw7 : rt_accepts false rw7_cfg 0 rw7_evs = false /\ rt_accepts true rw7_cfg 0 rw7_evs = true.
Proof. vm_compute. split; reflexivity. Qed.
Lemma rt_rw7_says : map snd (rt_run false rw7_cfg mon0 empty_dump (rt_trace (init rw7_cfg 0) rw7_evs)) =
  [""; ""; ""; ""; ""; ""; ""; ""; ""; ""; "C06:task-failed-before-retry-limit"]%string.
Proof. vm_compute. reflexivity. Qed.

(* ---- bounded evidence: small histories ------------------------------------------------------------------------------------------------------------ *)
(* after "register, w parks, Execute (learner asks for two retries on failure), told", every sequence of moves:
   0 w asks again idle / 1 w reports a failure / 2 w reports Executing / 3 the latest call is released / 4 Execute of the
   same digest in another invocation / 5 a read-only call 12 time units later (no-waiter time-outs lapse, the worker's does
   not) / 6 w reports success / 7 a second worker asks / 8 the first client is cancelled / 9 the first client's call is
   released *)
Definition rt_w2 : wref := mkW (mkSK (mkPK [] 0) 1) 7 9.
Definition rt_lrn : learner := Learner 1 None (Some (10, 100, Learner 2 None (Some (10, 100, Learner 3 None None)))).
Definition rt_pfx : list (event * list (nat * wref)) :=
  [ (ERegister 0 (mkPK [] 0) [] 0 0 [1%N] 1, []);
    (EStartSync 1 (mkSync rw7_w WIdle false) 2, []);
    (EStartExecute 2 (mkExec [] 0 5 false 0 [] (0%nat, 10, 100, rt_lrn)) 3, []);
    (EEnter 1 4, []) ].
Definition rt_mv (k : nat) (c : nat) (t : Z) : event * Z :=
  match k with
  | 0%nat => (EStartSync c (mkSync rw7_w WIdle false) t, t + 1)
  | 1%nat => (EStartSync c (mkSync rw7_w (WCompleted 5 (mkResp 2 0 9)) false) t, t + 1)
  | 2%nat => (EStartSync c (mkSync rw7_w (WExecuting 5) false) t, t + 1)
  | 3%nat => (EEnter (c - 1) t, t + 1)
  | 4%nat => (EStartExecute c (mkExec [] 0 5 false 0 [N.of_nat c] (0%nat, 10, 100, Learner (N.of_nat (100 + c)) None None)) t, t + 1)
  | 5%nat => (ETick c (t + 12), t + 13)
  | 6%nat => (EStartSync c (mkSync rw7_w (WCompleted 5 (mkResp 0 0 9)) false) t, t + 1)
  | 7%nat => (EStartSync c (mkSync rt_w2 WIdle false) t, t + 1)
  | 8%nat => (ECancel 2, t)
  | _ => (EEnter 2 t, t + 1)
  end.
Fixpoint rt_build (ks : list nat) (c : nat) (t : Z) : list (event * list (nat * wref)) :=
  match ks with
  | [] => []
  | k :: tl => let '(e, t') := rt_mv k c t in (e, []) :: rt_build tl (S c) t'
  end.
Fixpoint rt_seqs (nmoves n : nat) : list (list nat) :=
  match n with
  | O => [[]]
  | S n' => flat_map (fun s => map (fun k => k :: s) (seq 0 nmoves)) (rt_seqs nmoves n')
  end.
Definition rt_nopanic (os : list (list obs)) : bool := forallb (forallb (fun x => match x with OPanic _ => false | _ => true end)) os.
Definition rt_cfg (r : nat) : config := mkConfig 5 10 30 10 60 r 20.
Definition rt_evs (mid ks : list nat) := rt_pfx ++ rt_build (mid ++ ks) 3 5.
Definition rt_bad (track : bool) (r : nat) (mid ks : list nat) : bool :=
  rt_nopanic (snd (run (init (rt_cfg r) 0) (rt_evs mid ks))) && negb (rt_accepts track (rt_cfg r) 0 (rt_evs mid ks)).

(* rw7's mechanism inside the family (retry count 1 suffices here: one counted re-request, then the replacement of the
   operation list, then the re-request that fails the task) *)
Lemma rt_family_witness : rt_bad false 1 [0; 4; 8; 9]%nat [5; 0]%nat = true /\ rt_bad true 1 [0; 4; 8; 9]%nat [5; 0]%nat = false.
Proof. vm_compute. split; reflexivity. Qed.
