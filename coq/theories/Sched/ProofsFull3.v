(* C01, completeness layer: TK and CM (= CQ and MI up to panics) through the internal functions. *)
From Coq Require Import Lia.
From VF Require Export Sched.ProofsFull2.
From VF Require Import Sched.ProofsLearner.
Open Scope Z_scope.

Definition CM (ext : list nat) (s : state) : Prop := Pan s \/ (CQ ext s /\ MI s).

Lemma CM_weaken : forall ext t s, CM ext s -> CM (t :: ext) s.
Proof. intros ext t s [H|[A B]]; [left; exact H|right; split; [apply CQ_weaken; exact A|exact B]]. Qed.

Lemma CQ_drop : forall ext t s,
  (idle_live s t -> forall o, op_alive s o = true -> tsk s o = t -> queued s o) -> CQ (t :: ext) s -> CQ ext s.
Proof.
  unfold CQ. intros ext t s Hd H o Ha Hn Hi. destruct (Nat.eq_dec (tsk s o) t) as [E|Hne].
  - apply Hd; [rewrite <- E; exact Hi|exact Ha|exact E].
  - apply H; [exact Ha| |exact Hi]. intros [Hin|Hin]; [congruence|contradiction].
Qed.

(* ---- primitive closure of CQ ------------------------------------------------------------------------------------ *)
Ltac t_CQ :=
  lazymatch goal with
  | |- CQ _ (upd_task _ _ _) =>
    apply CQ_upd_task; [ first [ (left; in_L) | (right; cbn; let H1 := fresh in let H2 := fresh in intros H1 H2; first [discriminate | (split; assumption)]) ] | assumption ]
  | |- CQ _ (upd_op _ _ _) => apply CQ_upd_op_keep; [intros ?; cbn; split; reflexivity | assumption]
  | |- CQ _ (upd_inv _ _ _) =>
    (try match goal with Hf : inv_upd _ |- _ => destruct Hf end);
    apply CQ_upd_inv_grow; [ let v := fresh in let x := fresh in let Hx := fresh in intros v x Hx; cbn; first [exact Hx | (apply in_or_app; left; exact Hx)] | assumption ]
  | |- CQ _ (set s_invs (fun l => l ++ [(_, new_inv _)]) _) => apply CQ_invs_new; assumption
  | |- CQ _ (set s_invs _ (set s_scqs (fun l => l ++ _) _)) => apply CQ_newscq; assumption
  | |- _ => (eapply CQ_frame; [ | | | eassumption]); frame_eq
  end.

Ltac t_MI' :=
  lazymatch goal with
  | |- MI (set s_invs (fun l => l ++ [(_, new_inv _)]) _) => apply MI_invs_new; [assumption | assumption]
  | |- _ => t_MI
  end.

Ltac t_CM :=
  intros;
  match goal with H : CM _ _ |- _ => let Hp := fresh "Hp" in let HC := fresh "HC" in let HM := fresh "HM" in destruct H as [Hp|[HC HM]] end;
  [left; t_pan | right; split; [t_CQ | t_MI']].

(* removeIfEmpty only removes invocations without queued operations *)
Lemma inactive_no_qops : forall s i, inv_exists s i = true -> is_active s i = false -> v_qops (get_inv s i) = [].
Proof.
  intros s i He Ha. unfold is_active in Ha. apply orb_false_iff in Ha. destruct Ha as [Ha _]. unfold is_queued in Ha.
  unfold inv_exists, get_inv in *. destruct (aget iref_eqb i (s_invs s)) as [v|] eqn:E; [|discriminate].
  apply (aget_In iref_eqb iref_eqb_eq) in E. destruct (v_qops v) as [|o l] eqn:Eq; [reflexivity|]. exfalso.
  assert (Hex : existsb (fun '(d, v0) => descendant_or_self i d && negb (Nat.eqb (List.length (v_qops v0)) 0)) (s_invs s) = true).
  { apply existsb_exists. exists (i, v). split; [exact E|]. rewrite Eq. cbn.
    unfold descendant_or_self. rewrite (proj2 (skey_eqb_eq _ _) eq_refl). cbn.
    assert (Hp : forall p, is_prefix p p = true) by (induction p as [|x p IH]; cbn; [reflexivity|rewrite N.eqb_refl; exact IH]). rewrite Hp. reflexivity. }
  congruence.
Qed.

Lemma CM_remove_if_empty : forall ext i s, NoDup (map fst (s_invs s)) -> CM ext s -> CM ext (fst (remove_if_empty i s)).
Proof.
  intros ext i s Hnd H. unfold remove_if_empty.
  destruct (negb (is_root i) && inv_exists s i && negb (is_active s i) && (v_idle (get_inv s i) =? 0)%N) eqn:Eg; cbn [fst]; [|exact H].
  apply andb_true_iff in Eg. destruct Eg as [Eg _]. apply andb_true_iff in Eg. destruct Eg as [Eg Ha]. apply andb_true_iff in Eg. destruct Eg as [_ He].
  apply negb_true_iff in Ha.
  destruct H as [Hp|[HC HM]]; [left; t_pan|right]. split; [apply CQ_invs_del; [exact Hnd|apply inactive_no_qops; assumption|exact HC]|apply MI_invs_del; exact HM].
Qed.

(* ---- the bundle ---------------------------------------------------------------------------------------------------- *)
Definition NX (ext : list nat) (s : state) : Prop := XS ext s /\ TK s /\ CM ext s.

Lemma NX_XS : forall ext s, NX ext s -> XS ext s. Proof. unfold NX. tauto. Qed.
Lemma NX_TK : forall ext s, NX ext s -> TK s. Proof. unfold NX. tauto. Qed.
Lemma NX_CM : forall ext s, NX ext s -> CM ext s. Proof. unfold NX. tauto. Qed.
Lemma NX_weaken : forall ext t s, NX ext s -> NX (t :: ext) s.
Proof. intros ext t s [A [B C]]. split; [apply XS_weaken; exact A|]. split; [exact B|apply CM_weaken; exact C]. Qed.

Ltac t_NX :=
  intros;
  match goal with H : NX _ _ |- _ =>
    let H1 := fresh "HXS" in let H2 := fresh "HTK" in let H3 := fresh "HCM" in destruct H as [H1 [H2 H3]] end;
  split; [ t_XS | split; [ t_TK | t_CM ] ].

Lemma NX_remove_if_empty : forall ext i s, NX ext s -> NX ext (fst (remove_if_empty i s)).
Proof.
  intros ext i s [A [B C]]. split; [apply XS_remove_if_empty; exact A|]. split.
  - unfold remove_if_empty. destruct (_ && _); cbn [fst]; [t_TK|exact B].
  - apply CM_remove_if_empty; [|exact C]. destruct (XS_St _ _ A) as [_ [_ [Hn _]]]. exact Hn.
Qed.

Lemma scq_exists_invs_new : forall s i z k, scq_exists (s <| s_invs ::= fun l => l ++ [(i, new_inv z)] |>) k = scq_exists s k.
Proof. reflexivity. Qed.

Lemma NX_get_or_create_invocation' : forall ext k p s, (Pan s \/ scq_exists s k = true) -> NX ext s -> NX ext (get_or_create_invocation k p s).
Proof.
  intros ext k p s He [A [B C]]. split; [apply XS_get_or_create_invocation; exact A|]. split.
  - eapply TK_frame; [|exact B]. apply goc_frames.
  - unfold get_or_create_invocation. clear A B. revert s He C. induction (prefixes_from [] p) as [|pp l IH]; intros s He C; cbn [fold_left]; [exact C|].
    destruct (inv_exists s (mkI k pp)) eqn:Ei; [apply IH; assumption|].
    apply IH; [destruct He as [Hp|He]; [left; t_pan|right; exact He]|].
    destruct C as [Hp|[HC HM]]; [left; t_pan|]. destruct He as [Hp|He]; [left; t_pan|right]. split; [t_CQ|apply MI_invs_new; [exact He|exact HM]].
Qed.

Lemma NX_get_or_create_invocation : forall ext k p s, scq_exists s k = true -> NX ext s -> NX ext (get_or_create_invocation k p s).
Proof. intros ext k p s He. apply NX_get_or_create_invocation'. right. exact He. Qed.

Ltac nx_leaf0 :=
  idtac;
  lazymatch goal with
  | |- NX _ (fst (remove_if_empty _ _)) => apply NX_remove_if_empty
  end.
Ltac nx_go0 := inv_go nx_leaf0 t_NX.

Lemma NX_clear_last_invocation : forall ext w s, NX ext s -> NX ext (clear_last_invocation w s).
Proof. intros. nx_go0. Qed.
Lemma NX_set_last_invocation : forall ext w p s, NX ext s -> NX ext (set_last_invocation w p s).
Proof. intros. nx_go0. Qed.
Lemma NX_dequeue_worker : forall ext w s, NX ext s -> NX ext (dequeue_worker w s).
Proof. intros. nx_go0. Qed.
Lemma NX_decrement_executing : forall ext i w s, NX ext s -> NX ext (decrement_executing i w s).
Proof. intros. nx_go0. Qed.
Lemma NX_increment_executing : forall ext i w s, NX ext s -> NX ext (increment_executing i w s).
Proof. intros. nx_go0. Qed.
Lemma NX_update_first_priority : forall ext i s, NX ext s -> NX ext (update_first_priority i s).
Proof. intros. nx_go0. Qed.
Lemma NX_maybe_start_cleanup : forall ext o s, NX ext s -> NX ext (maybe_start_cleanup o s).
Proof. intros. nx_go0. Qed.

Ltac nx_leaf1 :=
  first [ nx_leaf0
        | lazymatch goal with
          | |- NX _ (clear_last_invocation _ _) => apply NX_clear_last_invocation
          | |- NX _ (set_last_invocation _ _ _) => apply NX_set_last_invocation
          | |- NX _ (dequeue_worker _ _) => apply NX_dequeue_worker
          | |- NX _ (decrement_executing _ _ _) => apply NX_decrement_executing
          | |- NX _ (increment_executing _ _ _) => apply NX_increment_executing
          | |- NX _ (update_first_priority _ _) => apply NX_update_first_priority
          | |- NX _ (maybe_start_cleanup _ _) => apply NX_maybe_start_cleanup
          end ].
Ltac nx_go1 := inv_go nx_leaf1 t_NX.

(* ---- assigning (the task is in its critical section) ------------------------------------------------------------------ *)
Lemma NX_assign_unqueued : forall ext w t r s,
  In t ext -> k_wait (get_worker s w) = false ->
  (forall i o, In (i, o) (t_ops (get_task s t)) -> i_sk i = w_sk w) -> (is_phantom w = false -> t_ops (get_task s t) <> []) ->
  NX ext s -> NX ext (assign_unqueued w t r s).
Proof.
  intros ext w t r s Hin Hkw Hsk Hne H. unfold assign_unqueued. cbv zeta.
  destruct (negb (is_phantom w) && match k_task (get_worker s w) with Some _ => true | None => false end) eqn:Eg; [t_NX|].
  destruct (t_worker (get_task s t)); [t_NX|].
  set (s1 := upd_worker w (fun k => k <| k_task := Some t |>) s).
  assert (H1 : NX ext s1).
  { destruct H as [A [B C]]. split; [|split; [unfold s1; t_TK|unfold s1; t_CM]].
    apply XS_assign_prim; [exact Hin|exact Hkw| |exact A]. intro Hp. rewrite Hp in Eg. cbn in Eg.
    destruct (k_task (get_worker s w)); [discriminate|reflexivity]. }
  assert (E1 : get_task s1 t = get_task s t) by (apply get_task_frame; unfold s1; rewrite upd_worker_eq; reflexivity).
  clearbody s1. clear H.
  set (s2 := upd_task t (fun x => x <| t_worker := Some w |> <| t_retry := O |>) s1).
  assert (H2 : NX ext s2).
  { destruct H1 as [A [B C]]. split; [unfold s2; t_XS|]. split; [|unfold s2; t_CM].
    unfold s2. apply TK_upd_task; [|exact B]. rewrite E1. apply tk_assign; [exact Hsk|exact Hne|]. rewrite <- E1. apply B. }
  clearbody s2. clear H1. nx_go1.
Qed.

Lemma NX_rq : forall ext o s, In (tsk s o) ext -> NX ext s -> NX ext (remove_queued_from_invocation o s).
Proof.
  intros ext o s Hin H. unfold remove_queued_from_invocation. cbv zeta.
  assert (H1 : NX ext (upd_inv (o_inv (get_op s o)) (fun v => v <| v_qops ::= remove_nat o |>) s)).
  { destruct H as [A [B C]]. split; [t_XS|]. split; [t_TK|].
    destruct C as [Hp|[HC HM]]; [left; t_pan|right]. split; [apply CQ_deq; [left; exact Hin|exact HC]|t_MI]. }
  set (s1 := upd_inv _ _ s) in *. clearbody s1. nx_go1.
Qed.

Lemma NX_rq_fold : forall ext t l s,
  In t ext -> (forall o, In o l -> tsk s o = t) -> NX ext s -> NX ext (fold_left (fun s o => remove_queued_from_invocation o s) l s).
Proof.
  intros ext t l. induction l as [|o l IH]; intros s Hin Ht H; cbn [fold_left]; [exact H|].
  destruct (rq_reads o s) as [E1 _]. apply IH; [exact Hin| |apply NX_rq; [rewrite (Ht o (or_introl eq_refl)); exact Hin|exact H]].
  intros o' Ho'. unfold tsk. rewrite (get_op_frame _ _ _ E1). apply Ht. right. exact Ho'.
Qed.

Lemma assign_unqueued_frames : forall w t r s,
  t_ops (get_task (assign_unqueued w t r s) t) = t_ops (get_task s t) /\ s_ops (assign_unqueued w t r s) = s_ops s.
Proof.
  intros w t r s. split.
  - assert (H : TKeep t (get_task s t) (assign_unqueued w t r s)).
    { assert (H0 : TKeep t (get_task s t) s) by (unfold TKeep; auto). fr_go (TKeep t (get_task s t)) t_tk. }
    exact (proj1 H).
  - assert (H : keeps_ops (s_ops s) (assign_unqueued w t r s)); [|exact H].
    assert (H0 : keeps_ops (s_ops s) s) by reflexivity. fr_go (keeps_ops (s_ops s)) t_ko.
Qed.

Lemma NX_assign_queued : forall ext w t r s,
  In t ext -> k_wait (get_worker s w) = false ->
  (forall i o, In (i, o) (t_ops (get_task s t)) -> i_sk i = w_sk w) -> (is_phantom w = false -> t_ops (get_task s t) <> []) ->
  (forall o, In o (task_opids s t) -> tsk s o = t) ->
  NX ext s -> NX ext (assign_queued w t r s).
Proof.
  intros ext w t r s Hin Hkw Hsk Hne Hts H. unfold assign_queued. cbv zeta.
  pose proof (NX_assign_unqueued ext w t r s Hin Hkw Hsk Hne H) as H1.
  destruct (assign_unqueued_frames w t r s) as [E1 E2].
  set (s1 := assign_unqueued w t r s) in *. clearbody s1.
  assert (H2 : NX ext (fold_left (fun s o => remove_queued_from_invocation o s) (task_opids s1 t) s1)).
  { apply (NX_rq_fold ext t); [exact Hin| |exact H1]. intros o Ho. unfold tsk. rewrite (get_op_frame _ _ _ E2). apply Hts. unfold task_opids in *. rewrite <- E1. exact Ho. }
  set (s2 := fold_left _ (task_opids s1 t) s1) in *. clearbody s2. unfold report_non_final_stage_change. nx_go1.
Qed.

(* ---- ending the critical section ---------------------------------------------------------------------------------------- *)
Lemma NX_drop : forall ext t s,
  XS ext s -> (Pan s \/ (idle_live s t -> forall o, op_alive s o = true -> tsk s o = t -> queued s o)) ->
  NX (t :: ext) s -> NX ext s.
Proof.
  intros ext t s HX Hd [_ [B C]]. split; [exact HX|]. split; [exact B|].
  destruct C as [Hp|[HC HM]]; [left; exact Hp|]. destruct Hd as [Hp|Hd]; [left; exact Hp|right]. split; [eapply CQ_drop; eassumption|exact HM].
Qed.

Definition TWk (t : nat) (wo : option wref) (s : state) : Prop := t_worker (get_task s t) = wo.
Ltac t_twk := intros; unfold TWk in *; first [ (erewrite get_task_frame; [eassumption | frame_eq])
        | (rewrite get_task_upd_task; let E := fresh "E" in destruct (Nat.eqb _ _) eqn:E; [apply Nat.eqb_eq in E; subst; cbn; assumption | assumption]) ].

Lemma Pan_panic : forall what s, Pan (panic what s).
Proof. intros what s. exists what. left. reflexivity. Qed.

Lemma assign_unqueued_outcome : forall w t r s,
  t_worker (get_task s t) = None ->
  Pan (assign_unqueued w t r s) \/ t_worker (get_task (assign_unqueued w t r s) t) = Some w.
Proof.
  intros w t r s Hw. unfold assign_unqueued. cbv zeta.
  destruct (negb (is_phantom w) && _); [left; apply Pan_panic|]. rewrite Hw. right.
  set (s2 := upd_task t _ (upd_worker w _ s)).
  assert (H2 : TWk t (Some w) s2) by (unfold TWk, s2; rewrite get_task_upd_task, Nat.eqb_refl; reflexivity).
  clearbody s2.
  match goal with |- t_worker (get_task ?e t) = _ => assert (H : TWk t (Some w) e); [|exact H] end.
  fr_go (TWk t (Some w)) t_twk.
Qed.

Lemma Pan_assign_queued_rest : forall t l s, Pan s ->
  Pan (report_non_final_stage_change t (fold_left (fun s o => remove_queued_from_invocation o s) l s)).
Proof. intros t l s H. unfold report_non_final_stage_change. fr_go Pan t_pan. Qed.

Lemma assign_queued_outcome : forall w t r s,
  t_worker (get_task s t) = None ->
  Pan (assign_queued w t r s) \/ t_worker (get_task (assign_queued w t r s) t) = Some w.
Proof.
  intros w t r s Hw. unfold assign_queued. cbv zeta.
  destruct (assign_unqueued_outcome w t r s Hw) as [Hp|H1]; [left; apply Pan_assign_queued_rest; exact Hp|right].
  set (s1 := assign_unqueued w t r s) in *. clearbody s1.
  match goal with |- t_worker (get_task ?e t) = _ => assert (H : TWk t (Some w) e); [|exact H] end.
  assert (H0 : TWk t (Some w) s1) by exact H1. unfold report_non_final_stage_change. fr_go (TWk t (Some w)) t_twk.
Qed.

Lemma NX_assign_queued_clean : forall ext t uq w r s,
  NX (t :: ext) s -> Lc t None None uq s -> worker_exists s w = true -> k_wait (get_worker s w) = false ->
  w_sk w = task_scq s t -> t_ops (get_task s t) <> [] ->
  NX ext (assign_queued w t r s).
Proof.
  intros ext t uq w r s H HL Hex Hkw Hsk Hne.
  pose proof (XS_assign_queued_clean ext t uq w r s (NX_XS _ _ H) HL Hex Hkw) as HX.
  apply (NX_drop ext t); [exact HX| |].
  - destruct (assign_queued_outcome w t r s (LcW _ _ _ _ _ HL)) as [Hp|Hw]; [left; exact Hp|right].
    intros [E _]. congruence.
  - apply NX_assign_queued; [left; reflexivity|exact Hkw| |intros _; exact Hne| |exact H].
    + intros i o Hin. rewrite Hsk. unfold task_scq. destruct (t_ops (get_task s t)) as [|[i0 o0] l] eqn:E; [destruct Hin|].
      destruct (NX_TK _ _ H t) as [K1 _]. rewrite E in K1. apply (K1 i o i0 o0 Hin). left. reflexivity.
    + intros o Ho. unfold task_opids in Ho. apply in_map_iff in Ho. destruct Ho as [[i o'] [E Ho]]. cbn in E. subst o'.
      destruct (LcO2 _ _ _ _ _ HL i o Ho) as [_ [Ht _]]. exact Ht.
Qed.

(* ---- assignNextQueuedTask -------------------------------------------------------------------------------------------------- *)
From VF Require Import Sched.ProofsPolicy.

Lemma queued_children_sk : forall s i c, In c (queued_children s i) -> i_sk c = i_sk i.
Proof.
  intros s i c H. unfold queued_children in H. apply filter_In in H. destruct H as [H _]. unfold children in H.
  apply in_map_iff in H. destruct H as [[c' v] [E H]]. cbn in E. subst c'. apply filter_In in H. destruct H as [_ H].
  unfold is_child_of in H. apply andb_true_iff in H. destruct H as [H _]. apply andb_true_iff in H. destruct H as [H _].
  apply skey_eqb_eq in H. congruence.
Qed.

Lemma descend_sk : forall s i lk lim st r best next lk' lim' st' r',
  i_sk best = i_sk i -> descend s i lk lim st r best = (next, lk', lim', st', r') -> i_sk next = i_sk i.
Proof.
  intros s i lk lim st r best next lk' lim' st' r' Hb H. unfold descend in H.
  destruct lk as [[|k0 krest]|]; destruct lim as [|lim0 limrest]; try (inversion H; subst; exact Hb).
  cbv zeta in H.
  match type of H with (if iref_eqb ?b' _ then _ else _) = _ => set (bb := b') in * end.
  assert (Hbb : i_sk bb = i_sk i) by (unfold bb; destruct (_ && _); [reflexivity|exact Hb]).
  destruct (iref_eqb bb _); inversion H; subst; exact Hbb.
Qed.

Lemma policy_queued_sk : forall s i lk lim st r res, policy s i lk lim st r res ->
  exists j o, In o (v_qops (get_inv s j)) /\ o_task (get_op s o) = fst res /\ i_sk j = i_sk i.
Proof.
  intros s i lk lim st r res H. induction H as [i lk lim st r o Hin _|i lk lim st r best next lk' lim' st' r' res _ Hb _ Hd _ IH].
  - exists i, o. auto.
  - destruct IH as [j [o [A [B C]]]]. exists j, o. split; [exact A|]. split; [exact B|].
    rewrite C. eapply descend_sk; [|exact Hd]. apply queued_children_sk with (s := s). exact Hb.
Qed.

Lemma NX_assign_next_queued_task : forall w s,
  worker_exists s w = true -> k_wait (get_worker s w) = false -> NX [] s -> NX [] (fst (assign_next_queued_task w s)).
Proof.
  intros w s Hex Hkw H. unfold assign_next_queued_task. cbv zeta.
  destruct (pick_next s w _) as [[t r]|] eqn:Ep; cbn [fst]; [|exact H].
  apply pick_next_in in Ep. apply next_candidates_policy in Ep. apply policy_queued_sk in Ep. destruct Ep as [j [o [Hq [Ht Hj]]]]. cbn [fst i_sk] in Ht, Hj.
  pose proof (NX_XS _ _ H) as HXS. pose proof (XS_X _ _ HXS) as HX.
  destruct (XQ _ _ HX _ _ Hq) as [Ha Hi].
  assert (Hqd : queued s o) by (unfold queued; rewrite Hi; exact Hq).
  destruct (XL _ _ HX o Ha (fun F => F) Hqd) as [Ew Er]. unfold tsk in Ew, Er. rewrite Ht in Ew, Er.
  pose proof (OT_alive s o (XS_OT _ _ HXS) Ha) as Hlt. unfold tsk in Hlt. rewrite Ht in Hlt.
  pose proof (XS_St _ _ HXS) as [_ [_ [Hnd _]]].
  pose proof (Lc_intro [] t s Hnd (fun F => F) Hlt HX) as HL. rewrite Ew, Er in HL.
  pose proof (XO1 _ _ HX o Ha (fun F => F)) as Hl. unfold tsk in Hl. rewrite Ht, Hi in Hl.
  apply (NX_assign_queued_clean [] t false w r s); [apply NX_weaken; exact H|exact HL|exact Hex|exact Hkw| |].
  - unfold task_scq. destruct (t_ops (get_task s t)) as [|[i0 o0] l] eqn:E; [destruct Hl|].
    destruct (NX_TK _ _ H t) as [K1 _]. rewrite E in K1. rewrite <- Hj. apply (K1 j o i0 o0 Hl). left. reflexivity.
  - intro E. rewrite E in Hl. destruct Hl.
Qed.
