(* C06 worker_attended: every registered worker has its removal armed or is named by a parked
   Synchronize call -- unless the scheduler reported one of its impossible-state panics. *)
From Coq Require Import Lia.
From VF Require Export Sched.ProofsC01.
Open Scope Z_scope.

Definition attended (s : state) (w : wref) : Prop :=
  k_cleanup (get_worker s w) <> None \/ exists c p, aget Nat.eqb c (s_calls s) = Some p /\ sync_of p = Some w.

(* [ex]: the worker whose Synchronize section (or removal) is in progress *)
Definition AT (ex : option wref) (s : state) : Prop :=
  forall w, worker_exists s w = true -> Some w <> ex -> attended s w.

Definition Pan (s : state) : Prop := exists what, In (OPanic what) (s_out s).
Definition ATP (ex : option wref) (s : state) : Prop := Pan s \/ AT ex s.

Ltac t_pan := intros; unfold Pan in *;
  match goal with H : exists what, _ |- _ => let what := fresh "what" in let Hw := fresh "Hw" in destruct H as [what Hw]; exists what end;
  first [assumption | (rewrite upd_inv_eq; assumption) | (rewrite upd_task_eq; assumption) | (rewrite upd_op_eq; assumption)
        | (rewrite upd_worker_eq; assumption) | (rewrite upd_scq_eq; assumption) | (cbn; right; assumption) | (cbn; assumption)].

Lemma AT_frame : forall ex s s', s_scqs s' = s_scqs s -> s_calls s' = s_calls s -> AT ex s -> AT ex s'.
Proof.
  unfold AT, attended. intros ex s s' E1 E2 H w. rewrite (worker_exists_frame _ _ _ E1), (get_worker_frame' _ _ _ E1), E2. apply H.
Qed.

Lemma AT_weaken : forall w s, AT None s -> AT (Some w) s.
Proof. unfold AT. intros w s H w' He _. apply H; [exact He|discriminate]. Qed.

(* updates of a worker record that leave its removal armed if it was *)
Lemma AT_upd_worker : forall ex s w f,
  (Some w = ex \/ (k_cleanup (get_worker s w) <> None -> k_cleanup (f (get_worker s w)) <> None)) ->
  AT ex s -> AT ex (upd_worker w f s).
Proof.
  unfold AT, attended. intros ex s w f Hf H w' He Hne. rewrite worker_exists_upd_worker in He. rewrite calls_upd_worker.
  rewrite get_worker_upd_worker. destruct (wref_eqb w' w && worker_exists s w) eqn:E; [|apply H; assumption].
  apply andb_true_iff in E. destruct E as [E _]. apply wref_eqb_eq in E. subst w'.
  destruct Hf as [Hf|Hf]; [congruence|]. destruct (H w He Hne) as [Hc|Hc]; [left; apply Hf; exact Hc|right; exact Hc].
Qed.

Lemma AT_upd_scq_keep : forall ex s k f, (forall q, q_workers (f q) = q_workers q) -> AT ex s -> AT ex (upd_scq k f s).
Proof.
  unfold AT, attended. intros ex s k f Hf H w. rewrite worker_exists_upd_scq_keep, get_worker_upd_scq_keep by exact Hf.
  rewrite calls_upd_scq. apply H.
Qed.

Lemma AT_newscq : forall ex s k b, AT ex s ->
  AT ex (s <| s_scqs ::= fun l => l ++ [(k, mkScq b None [] 0 [])] |> <| s_invs ::= fun l => l ++ [(mkI k [], new_inv 0)] |>).
Proof.
  unfold AT, attended. intros ex s k b H w.
  assert (Hq : q_workers (get_scq (s <| s_scqs ::= fun l => l ++ [(k, mkScq b None [] 0 [])] |> <| s_invs ::= fun l => l ++ [(mkI k [], new_inv 0)] |>) (w_sk w))
               = q_workers (get_scq s (w_sk w))).
  { rewrite get_scq_app. unfold scq_exists, get_scq. destruct (aget skey_eqb (w_sk w) (s_scqs s)); [reflexivity|]. destruct (skey_eqb (w_sk w) k); reflexivity. }
  unfold worker_exists, get_worker. rewrite Hq. apply H.
Qed.

Ltac t_AT :=
  lazymatch goal with
  | |- AT _ (upd_worker _ _ _) =>
    apply AT_upd_worker; [first [ (left; reflexivity) | (right; cbn; let H := fresh in intro H; first [exact H | discriminate]) ] | assumption]
  | |- AT _ (upd_scq _ _ _) =>
    apply AT_upd_scq_keep; [let q := fresh "q" in intros q; first [reflexivity | (destruct (existsb _ (q_drains q)); reflexivity)] | assumption]
  | |- AT _ (set s_invs _ (set s_scqs (fun l => l ++ _) _)) => apply AT_newscq; assumption
  | |- _ => (eapply AT_frame; [ | | eassumption]); frame_eq
  end.

Ltac t_ATP :=
  intros;
  match goal with H : ATP _ _ |- _ => let Hp := fresh "Hp" in let Ha := fresh "Ha" in destruct H as [Hp|Ha] end;
  [left; t_pan | right; t_AT].

Ltac atp_go := inv_go fail t_ATP.

Lemma ATP_complete_task : forall ex t r b s, ATP ex s -> ATP ex (complete_task t r b s).
Proof. intros. unfold complete_task, new_operation. atp_go. Qed.

Lemma ATP_cancel_all_queued : forall ex i r s, ATP ex s -> ATP ex (cancel_all_queued i r s).
Proof.
  intros ex i r s H. rewrite cancel_all_queued_eq. apply cancel_go_closed; [|exact H].
  intros. apply ATP_complete_task. assumption.
Qed.

Ltac atp_leaf :=
  idtac;
  lazymatch goal with
  | |- ATP _ (complete_task _ _ _ _) => apply ATP_complete_task
  | |- ATP _ (cancel_all_queued _ _ _) => apply ATP_cancel_all_queued
  end.
Ltac atp_go1 := inv_go atp_leaf t_ATP.

Lemma ATP_operation_remove : forall ex o s, ATP ex s -> ATP ex (operation_remove o s).
Proof.
  intros ex o s H. unfold operation_remove. atp_go1.
  all: match goal with |- ATP _ (fst (fold_left ?g ?l ?a)) => apply (fold_left_pres (fun acc => ATP ex (fst acc)) g l) end;
    [ intros [s1 go] j H1; cbn [fst] in *; destruct go; [atp_go1 | assumption] | cbn [fst]; atp_go1 ].
Qed.

Lemma AT_delworker : forall s w, NoDup (map fst (q_workers (get_scq s (w_sk w)))) ->
  AT (Some w) s -> AT None (upd_scq (w_sk w) (fun q => q <| q_workers ::= adel wref_eqb w |>) s).
Proof.
  unfold AT, attended. intros s w Hn H w' He _. rewrite worker_exists_delworker in He by exact Hn.
  rewrite get_worker_delworker by exact Hn. rewrite calls_upd_scq.
  destruct (wref_eqb w' w) eqn:E; [discriminate|]. apply H; [exact He|]. intro Heq. inversion Heq; subst. rewrite wref_eqb_refl in E. discriminate.
Qed.

Lemma AT_delscq : forall ex s k, NoDup (map fst (s_scqs s)) -> q_workers (get_scq s k) = [] -> AT ex s ->
  AT ex (s <| s_scqs := adel skey_eqb k (s_scqs s) |> <| s_invs := filter (fun '(i, _) => negb (skey_eqb (i_sk i) k)) (s_invs s) |>).
Proof.
  unfold AT, attended. intros ex s k Hn Hnone H w.
  set (s' := s <| s_scqs := _ |> <| s_invs := _ |>).
  assert (Hq : q_workers (get_scq s' (w_sk w)) = q_workers (get_scq s (w_sk w))).
  { unfold s', get_scq. cbn. destruct (skey_eqb (w_sk w) k) eqn:E.
    - apply skey_eqb_eq in E. rewrite E. rewrite (aget_adel_same skey_eqb skey_eqb_eq) by exact Hn. unfold get_scq in Hnone. rewrite Hnone. reflexivity.
    - rewrite (aget_adel_other skey_eqb skey_eqb_eq); [reflexivity|]. intros Heq. rewrite Heq, skey_eqb_refl in E. discriminate. }
  unfold worker_exists, get_worker. rewrite Hq. apply H.
Qed.

(* with the structure / worker-protocol invariant at hand *)
Definition SA (ex : option wref) (s : state) : Prop := SW s /\ ATP ex s.

Lemma SA_scq_remove : forall ex k s, q_workers (get_scq s k) = [] -> SA ex s -> SA ex (scq_remove k s).
Proof.
  intros ex k s Hnw [HSW H]. split; [apply SW_scq_remove; assumption|].
  unfold scq_remove. cbv zeta.
  set (s1 := cancel_all_queued (mkI k []) (mkResp cUNAVAILABLE 0 0) s).
  assert (H1 : SW s1 /\ ATP ex s1) by (split; [apply SW_cancel_all_queued; exact HSW|apply ATP_cancel_all_queued; exact H]).
  assert (Hn1 : NWf k s1).
  { unfold s1. rewrite cancel_all_queued_eq. apply cancel_go_closed; [|exact Hnw]. intros. inv_go fail t_nw. }
  clearbody s1. destruct H1 as [[[Hnd _] _] [Hp|Ha]]; [left; t_pan|right].
  eapply AT_frame; [reflexivity|reflexivity|]. eapply AT_frame; [reflexivity|reflexivity|]. apply AT_delscq; assumption.
Qed.

(* removeStaleWorker of a worker whose time-out fired: it is the exempted worker until it is gone *)
Lemma SA_remove_stale_worker : forall w z s,
  unnamed s w -> k_wait (get_worker s w) = false -> SA (Some w) s -> SA None (remove_stale_worker w z s).
Proof.
  intros w z s Hun Hkw [HSW H]. split; [apply SW_remove_stale_worker; assumption|].
  unfold remove_stale_worker. cbv zeta.
  set (s1 := mark_terminating w s).
  set (s2 := match k_task (get_worker s1 w) with None => s1 | Some t => complete_task t (mkResp cUNAVAILABLE 0 0) false s1 end).
  set (s3 := clear_last_invocation w s2).
  assert (H3 : SW s3).
  { unfold s3, s2, s1. apply SW_clear_last_invocation. destruct (k_task _); [apply SW_complete_task|]; unfold mark_terminating; sw_go2. }
  assert (A3 : ATP (Some w) s3).
  { unfold s3, s2, s1, mark_terminating. atp_go1. }
  clearbody s3. clear s1 s2.
  assert (Hnd : NoDup (map fst (q_workers (get_scq s3 (w_sk w))))).
  { unfold get_scq. destruct (aget skey_eqb (w_sk w) (s_scqs s3)) as [q|] eqn:E; [|constructor].
    destruct H3 as [[_ [H1 _]] _]. apply (aget_In skey_eqb skey_eqb_eq) in E. apply (H1 _ _ E). }
  set (s4 := upd_scq (w_sk w) (fun q => q <| q_workers ::= adel wref_eqb w |>) s3).
  assert (A4 : ATP None s4) by (destruct A3 as [Hp|Ha]; [left; unfold s4; t_pan|right; apply AT_delworker; assumption]).
  clearbody s4. destruct (Nat.eqb _ 0 && _); [|exact A4]. atp_go1.
Qed.

Lemma SA_run_entry : forall e s, In e (cleanup_entries s) -> SA None s -> SA None (run_entry e s).
Proof.
  intros [z ce] s Hin [HSW H]. pose proof (SW_run_entry (z, ce) s Hin HSW) as HSW'. unfold run_entry in *. cbn [fst snd] in *. destruct ce as [o|w|k].
  - split; [exact HSW'|]. apply ATP_operation_remove. atp_go1.
  - pose proof (cleanup_entry_worker s z w (SW_St _ HSW) Hin) as Hc.
    pose proof (SW_WP _ HSW) as [A2 [_ [B1 _]]].
    apply SA_remove_stale_worker.
    + eapply unnamed_frame; [apply calls_upd_worker|]. intros c p Hcp Hs. destruct (A2 _ _ _ Hcp Hs) as [_ E]. congruence.
    + rewrite get_worker_upd_worker. destruct (wref_eqb w w && worker_exists s w); cbn; apply B1; congruence.
    + split; [sw_go2|]. destruct H as [Hp|Ha]; [left; t_pan|right]. apply AT_upd_worker; [left; reflexivity|apply AT_weaken; exact Ha].
  - pose proof (cleanup_entry_scq s z k (SW_St _ HSW) Hin) as Hc.
    pose proof (SW_WP _ HSW) as [_ [_ [_ [_ [_ [_ [_ E7]]]]]]].
    apply SA_scq_remove; [|split; [sw_go2|atp_go1]].
    assert (Hn : NWf k s) by (apply E7; congruence). change (NWf k (upd_scq k (fun q => q <| q_cleanup := None |>) s)). t_nw.
Qed.

Lemma SA_enter : forall t s, SA None s -> SA None (enter t s).
Proof.
  intros t s H. unfold enter. destruct (s_now s <? t); [|exact H]. cbv zeta.
  apply cleanup_run_closed; [intros s1 w [A B]; split; [t_SW|atp_go1] | intros; apply SA_run_entry; assumption | destruct H as [A B]; split; [sw_go2|atp_go1]].
Qed.

(* ---- the sections of a Synchronize call ---------------------------------------------------------------------------------- *)
(* the program counter of call [c] names worker [w] or nobody *)
Definition own (c : nat) (w : wref) (s : state) : Prop :=
  forall p w', aget Nat.eqb c (s_calls s) = Some p -> sync_of p = Some w' -> w' = w.

Lemma own_frame : forall c w s s', s_calls s' = s_calls s -> own c w s -> own c w s'.
Proof. unfold own. intros c w s s' ->. auto. Qed.

Lemma AT_setcall_end : forall c w p' s,
  own c w s -> (sync_of p' = Some w \/ k_cleanup (get_worker s w) <> None) -> (forall w', sync_of p' = Some w' -> w' = w) ->
  AT (Some w) s -> AT None (set_call c p' s).
Proof.
  unfold AT, attended. intros c w p' s Hown Hw Hp H w' He _.
  change (worker_exists (set_call c p' s) w') with (worker_exists s w') in He. change (get_worker (set_call c p' s) w') with (get_worker s w').
  unfold set_call. cbn [s_calls set]. cbn.
  destruct (wref_eq_dec w' w) as [->|Hne].
  - destruct Hw as [Hw|Hw]; [right|left; exact Hw]. exists c, p'. rewrite (aget_aset Nat.eqb nat_eqb_eq), Nat.eqb_refl. auto.
  - destruct (H w' He) as [Hc|[c1 [p1 [Hc1 Hs1]]]]; [intro Heq; inversion Heq; contradiction|left; exact Hc|right].
    exists c1, p1. split; [|exact Hs1]. rewrite (aget_aset Nat.eqb nat_eqb_eq). destruct (Nat.eqb c1 c) eqn:E; [|exact Hc1].
    apply Nat.eqb_eq in E. subst c1. exfalso. apply Hne. eapply Hown; eassumption.
Qed.

Lemma Pan_setcall : forall c p s, Pan s -> Pan (set_call c p s).
Proof. intros c p s [what H]. exists what. exact H. Qed.

Lemma ATP_finish_sync : forall c w s,
  worker_exists s w = true -> own c w s -> ATP (Some w) s -> ATP None (finish_sync c w s).
Proof.
  intros c w s Hex Hown H. unfold finish_sync.
  destruct (k_cleanup (get_worker s w)) as [z|] eqn:Ec.
  - left. apply Pan_setcall. exists "Cleanup key is already in use"%string. left. reflexivity.
  - destruct H as [Hp|Ha]; [left; apply Pan_setcall; t_pan|right].
    apply (AT_setcall_end c w); [eapply own_frame; [apply calls_upd_worker|exact Hown]| |discriminate|].
    + right. rewrite get_worker_upd_worker, wref_eqb_refl, Hex. cbn. discriminate.
    + apply AT_upd_worker; [left; reflexivity|exact Ha].
Qed.

(* the bundle carried through a section *)
Definition ATC (c : nat) (w : wref) (s : state) : Prop := Ctx c w s /\ own c w s /\ ATP (Some w) s.

Lemma ATC_emit : forall c w o s, ATC c w s -> ATC c w (emit o s).
Proof.
  intros c w o s [HC [Ho H]]. split; [ctx_go|]. split; [exact Ho|]. atp_go1.
Qed.

Lemma ATP_sync_return_exec : forall c w s, ATC c w s -> ATP None (sync_return_exec c w s).
Proof.
  intros c w s H. unfold sync_return_exec. destruct (k_task (get_worker s w)).
  - destruct (ATC_emit c w (OSync c (exec_desired s n) (s_now s + cf_busy_sync (s_cfg s))) s H) as [[_ [Hex _]] [Ho Ha]]. apply ATP_finish_sync; assumption.
  - left. unfold finish_sync. destruct (k_cleanup _); apply Pan_setcall; [exists "Cleanup key is already in use"%string; left; reflexivity|].
    exists "executing response without task"%string. rewrite upd_worker_eq. cbn. left. reflexivity.
Qed.
Lemma ATP_sync_return_idle : forall c w s, ATC c w s -> ATP None (sync_return_idle c w s).
Proof.
  intros c w s H. unfold sync_return_idle.
  destruct (ATC_emit c w (OSync c DIdle (s_now s)) s H) as [[_ [Hex _]] [Ho Ha]]. apply ATP_finish_sync; assumption.
Qed.
Lemma ATP_sync_return_err : forall c w code s, ATC c w s -> ATP None (sync_return_err c w code s).
Proof.
  intros c w code s H. unfold sync_return_err.
  destruct (ATC_emit c w (ORet c code) s H) as [[_ [Hex _]] [Ho Ha]]. apply ATP_finish_sync; assumption.
Qed.

Lemma ATC_assign_next : forall c w s, ATC c w s -> ATC c w (fst (assign_next_queued_task w s)).
Proof.
  intros c w s [HC [Ho H]]. split; [apply Ctx_assign_next; exact HC|]. split; [eapply own_frame; [apply calls_assign_next|exact Ho]|].
  unfold assign_next_queued_task. atp_go1.
Qed.

Lemma ATC_complete_task : forall c w t r b s, ATC c w s -> ATC c w (complete_task t r b s).
Proof.
  intros c w t r b s [HC [Ho H]]. split; [apply Ctx_complete_task; exact HC|]. split; [eapply own_frame; [apply calls_complete_task|exact Ho]|].
  apply ATP_complete_task. exact H.
Qed.

Lemma ATP_sync_loop : forall c w s, ATC c w s -> ATP None (sync_loop c w s).
Proof.
  intros c w s H. unfold sync_loop. destruct (is_drained s w).
  - destruct H as [_ [Ho [Hp|Ha]]]; [left; apply Pan_setcall; exact Hp|right].
    apply (AT_setcall_end c w); [exact Ho|left; reflexivity|intros w' E; inversion E; reflexivity|exact Ha].
  - pose proof (ATC_assign_next c w s H) as H1.
    rewrite (surjective_pairing (assign_next_queued_task w s)). destruct (snd (assign_next_queued_task w s)).
    + apply ATP_sync_return_exec. exact H1.
    + cbv zeta. destruct (k_wait (get_worker s w)); [left; exists "Worker is already queued"%string; left; reflexivity|].
      destruct (k_last (get_worker s w)) as [p|]; [|left; exists "parking a worker without last invocation"%string; left; reflexivity].
      destruct H as [_ [Ho [Hp|Ha]]]; [left; apply Pan_setcall; inv_go fail t_pan|right].
      apply (AT_setcall_end c w); [eapply own_frame; [|exact Ho]; rewrite calls_upd_inv; apply calls_upd_worker|left; reflexivity|intros w' E; inversion E; reflexivity|].
      eapply AT_frame; [apply scqs_upd_inv|apply calls_upd_inv|]. apply AT_upd_worker; [left; reflexivity|exact Ha].
Qed.

Lemma ATP_get_next_task : forall c w b pr s, ATC c w s -> ATP None (get_next_task c w b pr s).
Proof.
  intros c w b pr s H. unfold get_next_task.
  destruct pr; [apply ATP_sync_return_idle; exact H|]. cbv zeta.
  destruct (is_drained s w).
  - cbn [negb]. destruct (negb b); [apply ATP_sync_return_idle; exact H|apply ATP_sync_loop; exact H].
  - rewrite (surjective_pairing (assign_next_queued_task w s)). destruct (snd (assign_next_queued_task w s)).
    + apply ATP_sync_return_exec. apply ATC_assign_next. exact H.
    + destruct (negb b); [apply ATP_sync_return_idle; exact H|apply ATP_sync_loop; exact H].
Qed.

Lemma ATP_get_current_or_next : forall c w b pr s, ATC c w s -> ATP None (get_current_or_next c w b pr s).
Proof.
  intros c w b pr s H. unfold get_current_or_next.
  destruct (k_task (get_worker s w)) as [t|]; [|apply ATP_get_next_task; exact H].
  destruct (Nat.ltb _ _).
  - apply ATP_sync_return_exec. destruct H as [HC [Ho Ha]]. split; [ctx_go|]. split; [exact Ho|atp_go1].
  - apply ATP_get_next_task. apply ATC_complete_task. exact H.
Qed.

Lemma AT_setcall_plain : forall ex c p' s,
  (forall p, aget Nat.eqb c (s_calls s) = Some p -> sync_of p = None) -> AT ex s -> AT ex (set_call c p' s).
Proof.
  unfold AT, attended. intros ex c p' s Hc H w He Hne.
  change (worker_exists (set_call c p' s) w) with (worker_exists s w) in He. change (get_worker (set_call c p' s) w) with (get_worker s w).
  destruct (H w He Hne) as [Hk|[c1 [p1 [Hc1 Hs1]]]]; [left; exact Hk|right]. exists c1, p1. split; [|exact Hs1].
  unfold set_call. cbn. rewrite (aget_aset Nat.eqb nat_eqb_eq). destruct (Nat.eqb c1 c) eqn:E; [|exact Hc1].
  apply Nat.eqb_eq in E. subst c1. rewrite (Hc _ Hc1) in Hs1. discriminate.
Qed.

Lemma ATP_ret_plain : forall ex c code s,
  (forall p, aget Nat.eqb c (s_calls s) = Some p -> sync_of p = None) -> ATP ex s -> ATP ex (ret c code s).
Proof.
  intros ex c code s Hc [Hp|Ha]; [left; unfold ret; apply Pan_setcall; t_pan|right].
  unfold ret. apply AT_setcall_plain; [exact Hc|]. eapply AT_frame; [reflexivity|reflexivity|exact Ha].
Qed.

Lemma AT_newworker : forall s w v,
  AT None s -> AT (Some w) (upd_scq (w_sk w) (fun q => q <| q_workers ::= fun l => l ++ [(w, v)] |>) s).
Proof.
  unfold AT, attended. intros s w v H w' He Hne. rewrite calls_upd_scq.
  apply worker_exists_newworker_inv in He. destruct He as [->|He]; [congruence|].
  assert (Hg : get_worker (upd_scq (w_sk w) (fun q => q <| q_workers ::= fun l => l ++ [(w, v)] |>) s) w' = get_worker s w').
  { unfold get_worker. rewrite get_scq_upd_scq. destruct (skey_eqb (w_sk w') (w_sk w) && scq_exists s (w_sk w)) eqn:E; [|reflexivity].
    apply andb_true_iff in E. destruct E as [E _]. apply skey_eqb_eq in E. cbn. rewrite (aget_app wref_eqb). rewrite <- E.
    unfold worker_exists in He. destruct (aget wref_eqb w' (q_workers (get_scq s (w_sk w')))); [reflexivity|discriminate]. }
  rewrite Hg. apply H; [exact He|discriminate].
Qed.

Lemma ATP_sync_start : forall c a s,
  aget Nat.eqb c (s_calls s) = None -> SW s -> ATP None s -> ATP None (sync_start c a s).
Proof.
  intros c a s Hfresh H HA. unfold sync_start. cbv zeta. set (w := y_worker a). set (k := w_sk w).
  assert (Hplain : forall s', s_calls s' = s_calls s -> forall p, aget Nat.eqb c (s_calls s') = Some p -> sync_of p = None).
  { intros s' E p Hp. rewrite E, Hfresh in Hp. discriminate. }
  match goal with |- ATP None (match ?R with _ => _ end) => destruct R as [s1|code1] eqn:ER end;
    [|apply ATP_ret_plain; [apply Hplain; reflexivity|exact HA]].
  assert (H1 : SW s1 /\ scq_exists s1 k = true /\ q_cleanup (get_scq s1 k) = None /\ ATP None s1 /\ s_calls s1 = s_calls s).
  { destruct (scq_exists s k) eqn:Ee.
    - injection ER as <-. split; [sw_go2|]. split; [rewrite scq_exists_upd_scq; exact Ee|].
      split; [rewrite get_scq_upd_scq, skey_eqb_refl, Ee; reflexivity|]. split; [atp_go1|apply calls_upd_scq].
    - destruct (get_pq s (sk_pk k)) as [p|] eqn:Ep.
      + sum_cases ER. injection ER as <-. apply get_pq_some_in in Ep. destruct Ep as [Ep1 Ep2].
        split; [apply SW_add_scq; [exact Ee|exists p; auto|exact H]|]. split; [rewrite scq_exists_add_scq, skey_eqb_refl; apply orb_true_r|].
        split; [rewrite get_scq_add_scq_new by exact Ee; reflexivity|]. split; [unfold add_scq; atp_go1|reflexivity].
      + injection ER as <-.
        assert (Hp : SW (add_pq (sk_pk k) [] 0 0 s)) by (unfold add_pq; destruct H as [HS HW]; split; [t_St|eapply WP_frame; [ | | |exact HW]; reflexivity]).
        split; [apply SW_add_scq; [exact Ee| |exact Hp]|].
        * unfold add_pq. cbn. eexists. split; [apply in_or_app; right; left; reflexivity|reflexivity].
        * split; [rewrite scq_exists_add_scq, skey_eqb_refl; apply orb_true_r|].
          split; [rewrite get_scq_add_scq_new by exact Ee; reflexivity|]. split; [unfold add_scq, add_pq; atp_go1|reflexivity]. }
  clear ER H HA. destruct H1 as [H [Hse [Hqc [HA Ec1]]]].
  assert (Hplain1 : forall s', s_calls s' = s_calls s1 -> forall p, aget Nat.eqb c (s_calls s') = Some p -> sync_of p = None)
    by (intros s' E; apply Hplain; congruence).
  clear Hplain Ec1 Hfresh. revert H Hse Hqc HA Hplain1. generalize s1. clear s. intros s H Hse Hqc HA Hplain.
  match goal with |- ATP None (match ?R with _ => _ end) => destruct R as [s2|code2] eqn:ER end;
    [|apply ATP_ret_plain; [apply Hplain; reflexivity|exact HA]].
  assert (H2 : ATC c w s2).
  { destruct (worker_exists s w) eqn:Ee.
    - destruct (k_cleanup (get_worker s w)) eqn:Ec; [|discriminate]. injection ER as <-.
      pose proof (SW_WP _ H) as [A2 [_ [B1 _]]].
      split; [|split].
      + unfold Ctx. split; [sw_go2|]. split; [rewrite worker_exists_upd_worker; exact Ee|].
        rewrite get_worker_upd_worker, wref_eqb_refl, Ee. cbn. split; [reflexivity|]. split; [apply B1; congruence|].
        intros c' p Hc Hs. exfalso. rewrite calls_upd_worker in Hc. destruct (A2 _ _ _ Hc Hs) as [_ E]. congruence.
      + intros p w' Hc Hs. rewrite (Hplain _ (calls_upd_worker _ _ _) _ Hc) in Hs. discriminate.
      + destruct HA as [Hp|Ha]; [left; t_pan|right]. apply AT_upd_worker; [left; reflexivity|apply AT_weaken; exact Ha].
    - injection ER as <-. pose proof (SW_WP _ H) as [A2 _].
      set (s2 := upd_scq k _ s).
      assert (Hs2 : SW s2).
      { destruct H as [HS HW]. split; [apply St_newworker; assumption|apply WP_newworker; assumption]. }
      assert (Hex2 : worker_exists s2 w = true) by (apply worker_exists_newworker; exact Hse).
      assert (Hg2 : get_worker s2 w = mkWorker None None false (Some []) false (repeat 0 (List.length (limits_of s k)))).
      { apply get_worker_newworker_aux; assumption. }
      assert (Ec2 : s_calls (upd_inv (mkI k []) (fun v => v <| v_idle ::= N.succ |>) s2) = s_calls s) by (rewrite calls_upd_inv; unfold s2; apply calls_upd_scq).
      split; [|split].
      + unfold Ctx. split; [sw_go2|]. split; [rewrite (worker_exists_frame s2) by apply scqs_upd_inv; exact Hex2|].
        rewrite (get_worker_frame' s2) by apply scqs_upd_inv. rewrite Hg2. cbn. split; [reflexivity|]. split; [reflexivity|].
        intros c' p Hc Hs. exfalso. rewrite Ec2 in Hc. destruct (A2 _ _ _ Hc Hs) as [E _]. congruence.
      + intros p w' Hc Hs. rewrite (Hplain _ Ec2 _ Hc) in Hs. discriminate.
      + assert (A2' : ATP (Some w) s2) by (destruct HA as [Hp|Ha]; [left; unfold s2; t_pan|right; apply AT_newworker; exact Ha]).
        clearbody s2. atp_go1. }
  clear ER H Hse Hqc HA Hplain. revert H2. generalize s2. clear s. intros s H. unfold k, w in *. clear k w.
  destruct (y_state a) as [|d|d r|].
  - apply ATP_get_current_or_next. exact H.
  - destruct (running_correct s (y_worker a) d); [|apply ATP_get_current_or_next; exact H].
    destruct (ATC_emit c (y_worker a) (OSync c DNone (s_now s + cf_busy_sync (s_cfg s))) s H) as [[_ [Hex _]] [Ho Ha]].
    apply ATP_finish_sync; assumption.
  - destruct (running_correct s (y_worker a) d) eqn:Erc; [|apply ATP_get_current_or_next; exact H].
    unfold running_correct in Erc.
    destruct (k_task (get_worker s (y_worker a))) as [t|]; [|discriminate].
    apply ATP_get_next_task. apply ATC_complete_task. exact H.
  - apply ATP_sync_return_err. exact H.
Qed.

(* ---- events of calls that are not Synchronize calls ----------------------------------------------------------------------- *)
Definition plain (c : nat) (s : state) : Prop := forall p, aget Nat.eqb c (s_calls s) = Some p -> sync_of p = None.
Definition ATq (c : nat) (s : state) : Prop := ATP None s /\ plain c s.

Lemma ATq_setcall : forall c p' s, sync_of p' = None -> ATq c s -> ATq c (set_call c p' s).
Proof.
  intros c p' s Hp [[Hpan|Ha] Hq]; (split; [|intros p Hc; unfold set_call in Hc; cbn in Hc; rewrite (aget_aset Nat.eqb nat_eqb_eq), Nat.eqb_refl in Hc; inversion Hc; subst; exact Hp]).
  - left. apply Pan_setcall. exact Hpan.
  - right. apply AT_setcall_plain; assumption.
Qed.

Lemma ATq_frame : forall c s s', s_calls s' = s_calls s -> ATP None s' -> ATq c s -> ATq c s'.
Proof. intros c s s' E HA [_ Hq]. split; [exact HA|]. intros p Hp. apply Hq. rewrite <- E. exact Hp. Qed.

Ltac t_ATq :=
  intros;
  lazymatch goal with
  | |- ATq ?c (set_call ?c _ _) => apply ATq_setcall; [reflexivity | assumption]
  | |- ATq _ ?e =>
    match goal with H : ATq _ ?s0 |- _ =>
      apply (ATq_frame _ s0); [frame_eq | (let HA := fresh "HA" in destruct H as [HA _]; t_ATP) | assumption] end
  end.

Lemma ATq_complete_task : forall c t r b s, ATq c s -> ATq c (complete_task t r b s).
Proof. intros c t r b s H. apply (ATq_frame c s); [apply calls_complete_task|apply ATP_complete_task; exact (proj1 H)|exact H]. Qed.
Lemma ATq_cancel_all_queued : forall c i r s, ATq c s -> ATq c (cancel_all_queued i r s).
Proof. intros c i r s H. apply (ATq_frame c s); [apply calls_cancel_all_queued|apply ATP_cancel_all_queued; exact (proj1 H)|exact H]. Qed.

Ltac atq_leaf :=
  idtac;
  lazymatch goal with
  | |- ATq _ (complete_task _ _ _ _) => apply ATq_complete_task
  | |- ATq _ (cancel_all_queued _ _ _) => apply ATq_cancel_all_queued
  end.
Ltac atq_go := inv_go atq_leaf t_ATq.

Lemma ATq_exec_start : forall c a s, ATq c s -> ATq c (exec_start c a s).
Proof. intros. unfold exec_start, new_operation, wait_execution_begin, stream_iter, ret. atq_go. Qed.

Lemma ATq_ATP : forall c s, ATq c s -> ATP None s. Proof. intros c s [H _]. exact H. Qed.

Lemma SA_ATq_enter : forall c t s, SW s -> ATq c s -> SW (enter t s) /\ ATq c (enter t s).
Proof.
  intros c t s HSW [HA Hq]. destruct (SA_enter t s (conj HSW HA)) as [HSW' HA']. split; [exact HSW'|].
  split; [exact HA'|]. intros p Hp. apply Hq. rewrite <- (calls_enter t s). exact Hp.
Qed.

Lemma ATP_terminate_fold : forall p l s waits,
  ATP None s -> ATP None (fst (fold_left (fun (acc : state * list (nat * nat)) w =>
        let '(s, waits) := acc in
        if matches w p then
          let s := mark_terminating w s in
          match k_task (get_worker s w) with
          | Some tk => (s, waits ++ [(tk, t_gen (get_task s tk))])
          | None => (if k_wait (get_worker s w) then wake_up w s else s, waits)
          end
        else (s, waits)) l (s, waits))).
Proof.
  intros p l s waits H.
  match goal with |- ATP None (fst (fold_left ?g ?l ?a)) => apply (fold_left_pres (fun acc => ATP None (fst acc)) g l) end;
    [|exact H].
  intros [s1 w1] w H1. cbn [fst] in *. unfold mark_terminating, wake_up. atp_go1.
Qed.

Lemma calls_terminate_fold : forall p l s waits,
  s_calls (fst (fold_left (fun (acc : state * list (nat * nat)) w =>
        let '(s, waits) := acc in
        if matches w p then
          let s := mark_terminating w s in
          match k_task (get_worker s w) with
          | Some tk => (s, waits ++ [(tk, t_gen (get_task s tk))])
          | None => (if k_wait (get_worker s w) then wake_up w s else s, waits)
          end
        else (s, waits)) l (s, waits))) = s_calls s.
Proof.
  intros p l. induction l as [|w l IH]; intros s waits; cbn [fold_left fst]; [reflexivity|].
  destruct (matches w p); [|apply IH]. cbv zeta.
  destruct (k_task (get_worker (mark_terminating w s) w)).
  - rewrite IH. unfold mark_terminating. apply calls_upd_worker.
  - rewrite IH. destruct (k_wait _); [|unfold mark_terminating; apply calls_upd_worker].
    assert (H : keeps_calls (s_calls s) (wake_up w (mark_terminating w s))); [|exact H].
    assert (H0 : keeps_calls (s_calls s) s) by reflexivity. unfold mark_terminating. fr_go (keeps_calls (s_calls s)) t_kc.
Qed.

Lemma ATP_step_core : forall e s,
  (is_start e = true -> aget Nat.eqb (ev_call e) (s_calls s) = None) -> SW s -> ATP None s -> ATP None (step_core e s).
Proof.
  intros e s Hfresh HSW HA.
  assert (Hq0 : forall c, aget Nat.eqb c (s_calls s) = None -> ATq c s) by (intros c Hc; split; [exact HA|intros p Hp; congruence]).
  destruct e; cbn [is_start ev_call] in Hfresh; unfold step_core.
  - apply (ATq_ATP c). apply ATq_exec_start. apply (SA_ATq_enter c t s HSW). apply Hq0. auto.
  - destruct (SA_ATq_enter c t s HSW (Hq0 c (Hfresh eq_refl))) as [_ H1]. set (s1 := enter t s) in *. clearbody s1.
    apply (ATq_ATP c). unfold ret. atq_go.
  - destruct (SA_enter t s (conj HSW HA)) as [HSW1 HA1]. apply ATP_sync_start; [rewrite calls_enter; auto|assumption|assumption].
  - destruct (SA_ATq_enter c t s HSW (Hq0 c (Hfresh eq_refl))) as [_ H1]. set (s1 := enter t s) in *. clearbody s1.
    apply (ATq_ATP c). unfold kill_lookup, ret. atq_go.
  - destruct (SA_ATq_enter c t s HSW (Hq0 c (Hfresh eq_refl))) as [_ H1]. set (s1 := enter t s) in *. clearbody s1.
    apply (ATq_ATP c). unfold ret. atq_go.
  - destruct (SA_ATq_enter c t s HSW (Hq0 c (Hfresh eq_refl))) as [_ H1]. set (s1 := enter t s) in *. clearbody s1.
    apply (ATq_ATP c). unfold ret, wake_up. atq_go.
  - destruct (SA_ATq_enter c t s HSW (Hq0 c (Hfresh eq_refl))) as [_ H1]. set (s1 := enter t s) in *. clearbody s1.
    apply (ATq_ATP c). unfold ret. atq_go.
  - destruct (SA_ATq_enter c t s HSW (Hq0 c (Hfresh eq_refl))) as [_ H1]. set (s1 := enter t s) in *. clearbody s1.
    cbv zeta. match goal with |- ATP None (match ?x with _ => _ end) => rewrite (surjective_pairing x) end. cbv beta iota.
    apply (ATq_ATP c). apply ATq_setcall; [reflexivity|].
    match goal with |- ATq c (fst ?e) => apply (ATq_frame c s1); [apply calls_terminate_fold|apply ATP_terminate_fold; exact (proj1 H1)|exact H1] end.
  - destruct (_ || _); [apply (ATq_ATP c); unfold ret; specialize (Hq0 c (Hfresh eq_refl)); atq_go|]. cbv zeta.
    destruct (SA_ATq_enter c t s HSW (Hq0 c (Hfresh eq_refl))) as [_ H1]. set (s1 := enter t s) in *. clearbody s1.
    apply (ATq_ATP c). unfold ret, add_scq, add_pq. atq_go.
  - destruct (SA_ATq_enter c t s HSW (Hq0 c (Hfresh eq_refl))) as [_ H1]. set (s1 := enter t s) in *. clearbody s1.
    apply (ATq_ATP c). unfold ret. atq_go.
  - (* EEnter *)
    cbv zeta. destruct (negb (at_gate s (get_call s c))) eqn:Eg; [exact HA|]. apply negb_false_iff in Eg.
    destruct (SA_enter t s (conj HSW HA)) as [He HAe].
    rewrite get_call_aget in *. destruct (aget Nat.eqb c (s_calls s)) as [p|] eqn:Ep; [|exact HAe].
    assert (Hpe : aget Nat.eqb c (s_calls (enter t s)) = Some p) by (rewrite calls_enter; exact Ep).
    assert (Hplain : sync_of p = None -> ATq c (enter t s)).
    { intro Hs. split; [exact HAe|]. intros p' Hp'. rewrite Hpe in Hp'. inversion Hp'; subst. exact Hs. }
    assert (Hown : forall w, sync_of p = Some w -> own c w (enter t s)).
    { intros w Hs p' w' Hp' Hs'. rewrite Hpe in Hp'. inversion Hp'; subst. congruence. }
    assert (HAw : forall w, ATP (Some w) (enter t s)) by (intro w; destruct HAe as [Hp|Ha]; [left; exact Hp|right; apply AT_weaken; exact Ha]).
    destruct p; try exact HAe;
      try (specialize (Hplain eq_refl); set (s1 := enter t s) in *; clearbody s1; apply (ATq_ATP c);
           unfold stream_iter, stream_return, kill_lookup, wait_execution_begin, stream_iter, ret; atq_go; fail).
    + (* PSyncDrained *)
      apply ATP_sync_loop. split; [|split; [apply Hown; reflexivity|apply HAw]].
      eapply Ctx_of_named; [exact He|exact Hpe|reflexivity|].
      destruct He as [_ [_ [_ [_ [_ [B3 _]]]]]]. eapply B3; [exact Hpe|reflexivity].
    + (* PSyncQueued *)
      cbn [at_gate] in Eg. apply negb_true_iff in Eg.
      assert (Hc : ATC c w (enter t s)).
      { split; [|split; [apply Hown; reflexivity|apply HAw]]. eapply Ctx_of_named; [exact He|exact Hpe|reflexivity|]. apply SWK_enter; [exact HSW|exact Eg]. }
      destruct (k_task (get_worker (enter t s) w)); [apply ATP_sync_return_exec|apply ATP_sync_loop]; exact Hc.
    + (* PSyncCancelled *)
      apply ATP_sync_return_err. destruct queued.
      * split; [eapply Ctx_maybe_dequeue; [exact He|exact Hpe|reflexivity]|].
        split; [eapply own_frame; [|apply Hown; reflexivity]|].
        -- assert (H : keeps_calls (s_calls (enter t s)) (maybe_dequeue w (enter t s))); [|exact H].
           assert (H0 : keeps_calls (s_calls (enter t s)) (enter t s)) by reflexivity. set (s1 := enter t s) in *. clearbody s1. fr_go (keeps_calls (s_calls s1)) t_kc.
        -- specialize (HAw w). set (s1 := enter t s) in *. clearbody s1. unfold maybe_dequeue. atp_go1.
      * split; [|split; [apply Hown; reflexivity|apply HAw]]. eapply Ctx_of_named; [exact He|exact Hpe|reflexivity|].
        destruct He as [_ [_ [_ [_ [_ [B3 _]]]]]]. eapply B3; [exact Hpe|reflexivity].
  - (* ETimer *)
    cbv zeta. destruct (at_gate s (get_call s c)) eqn:Eg; [exact HA|].
    destruct (SA_enter t s (conj HSW HA)) as [He HAe].
    rewrite get_call_aget in *. destruct (aget Nat.eqb c (s_calls s)) as [p|] eqn:Ep; [|exact HA].
    assert (Hpe : aget Nat.eqb c (s_calls (enter t s)) = Some p) by (rewrite calls_enter; exact Ep).
    assert (Hplain : sync_of p = None -> ATq c (enter t s)).
    { intro Hs. split; [exact HAe|]. intros p' Hp'. rewrite Hpe in Hp'. inversion Hp'; subst. exact Hs. }
    assert (Hown : forall w, sync_of p = Some w -> own c w (enter t s)).
    { intros w Hs p' w' Hp' Hs'. rewrite Hpe in Hp'. inversion Hp'; subst. congruence. }
    assert (HAw : forall w, ATP (Some w) (enter t s)) by (intro w; destruct HAe as [Hp|Ha]; [left; exact Hp|right; apply AT_weaken; exact Ha]).
    destruct p; try exact HA;
      try (specialize (Hplain eq_refl); set (s1 := enter t s) in *; clearbody s1; apply (ATq_ATP c);
           unfold stream_iter; atq_go; fail).
    + apply ATP_sync_return_idle. split; [|split; [apply Hown; reflexivity|apply HAw]].
      eapply Ctx_of_named; [exact He|exact Hpe|reflexivity|].
      destruct He as [_ [_ [_ [_ [_ [B3 _]]]]]]. eapply B3; [exact Hpe|reflexivity].
    + assert (Hc : ATC c w (maybe_dequeue w (enter t s))).
      { split; [eapply Ctx_maybe_dequeue; [exact He|exact Hpe|reflexivity]|].
        split; [eapply own_frame; [|apply Hown; reflexivity]|].
        -- assert (H : keeps_calls (s_calls (enter t s)) (maybe_dequeue w (enter t s))); [|exact H].
           assert (H0 : keeps_calls (s_calls (enter t s)) (enter t s)) by reflexivity. set (s1 := enter t s) in *. clearbody s1. fr_go (keeps_calls (s_calls s1)) t_kc.
        -- specialize (HAw w). set (s1 := enter t s) in *. clearbody s1. unfold maybe_dequeue. atp_go1. }
      destruct (k_task (get_worker (maybe_dequeue w (enter t s)) w)); [apply ATP_sync_return_exec|apply ATP_sync_return_idle]; exact Hc.
  - (* ECancel *)
    cbv zeta. destruct (at_gate s (get_call s c)) eqn:Eg; [exact HA|].
    rewrite get_call_aget in *. destruct (aget Nat.eqb c (s_calls s)) as [p|] eqn:Ep; [|exact HA].
    assert (Hplain : sync_of p = None -> ATq c s).
    { intro Hs. split; [exact HA|]. intros p' Hp'. rewrite Ep in Hp'. inversion Hp'; subst. exact Hs. }
    assert (Hown : forall w, sync_of p = Some w -> own c w s).
    { intros w Hs p' w' Hp' Hs'. rewrite Ep in Hp'. inversion Hp'; subst. congruence. }
    destruct p; try exact HA;
      try (specialize (Hplain eq_refl); apply (ATq_ATP c); unfold ret; atq_go; fail).
    + destruct HA as [Hp|Ha]; [left; apply Pan_setcall; exact Hp|right].
      apply (AT_setcall_end c w); [apply Hown; reflexivity|left; reflexivity|intros w' E; inversion E; reflexivity|apply AT_weaken; exact Ha].
    + destruct HA as [Hp|Ha]; [left; apply Pan_setcall; exact Hp|right].
      apply (AT_setcall_end c w); [apply Hown; reflexivity|left; reflexivity|intros w' E; inversion E; reflexivity|apply AT_weaken; exact Ha].
Qed.

Lemma auto_fold_ATP : forall l s,
  NoDup (map fst l) -> (forall c p, In (c, p) l -> aget Nat.eqb c (s_calls s) = Some p) ->
  ATP None s -> ATP None (fold_left auto_step l s).
Proof.
  induction l as [|[c' p'] l IH]; intros s Hnd Hin HA; cbn [fold_left]; [exact HA|].
  inversion Hnd as [|? ? Hnotin Hnd']; subst. cbn [fst] in Hnotin.
  assert (Hp' : aget Nat.eqb c' (s_calls s) = Some p') by (apply Hin; left; reflexivity).
  apply IH; [exact Hnd'| |].
  - intros c p Hp. assert (Hne : c' <> c) by (intros ->; apply Hnotin; apply (in_map fst) in Hp; exact Hp).
    specialize (Hin c p (or_intror Hp)). unfold auto_step. destruct p'; try exact Hin. destruct (terminate_done s waits); [|exact Hin].
    rewrite aget_calls_ret_other by assumption. exact Hin.
  - unfold auto_step. destruct p'; try exact HA. destruct (terminate_done s waits); [|exact HA].
    apply ATP_ret_plain; [|exact HA]. intros p Hp. rewrite Hp' in Hp. inversion Hp; subst. reflexivity.
Qed.

Lemma ATP_auto_returns : forall s, calls_nodup s -> ATP None s -> ATP None (auto_returns s).
Proof.
  intros s Hnd HA. rewrite auto_returns_fold. apply auto_fold_ATP; [exact Hnd| |exact HA].
  intros c p Hp. apply (In_aget_NoDup Nat.eqb nat_eqb_eq); assumption.
Qed.

(* one event: either a panic is among the observations of the event, or every worker is attended afterwards *)
Lemma AT_step : forall s e h,
  (is_start e = true -> aget Nat.eqb (ev_call e) (s_calls s) = None) ->
  SW s -> calls_nodup s -> AT None s ->
  (exists what, In (OPanic what) (snd (step s (e, h)))) \/ AT None (fst (step s (e, h))).
Proof.
  intros s e h Hfresh HSW Hnd HA. unfold step. cbn [fst snd].
  set (s0 := s <| s_hints := h |> <| s_out := [] |>).
  assert (HSW0 : SW s0) by (eapply SW_eq; [ | | | |exact HSW]; reflexivity).
  assert (HA0 : ATP None s0) by (right; eapply AT_frame; [ | |exact HA]; reflexivity).
  assert (Hnd0 : calls_nodup s0) by exact Hnd.
  pose proof (ATP_step_core e s0 Hfresh HSW0 HA0) as H1.
  pose proof (calls_nodup_step_core e s0 Hnd0) as Hnd1.
  destruct (ATP_auto_returns _ Hnd1 H1) as [[what Hp]|Ha].
  - left. exists what. rewrite <- in_rev. exact Hp.
  - right. eapply AT_frame; [ | |exact Ha]; reflexivity.
Qed.

Definition panicked (os : list (list obs)) : Prop := exists o what, In o os /\ In (OPanic what) o.

Lemma AT_run : forall evs s U,
  keys_in U s -> fresh_calls U evs -> SW s -> calls_nodup s -> AT None s ->
  panicked (snd (run s evs)) \/ AT None (fst (run s evs)).
Proof.
  induction evs as [|[e h] evs IH]; intros s U Hk Hf HSW Hnd HA; [right; exact HA|].
  cbn [run]. destruct (step s (e, h)) as [s1 o] eqn:Es. destruct (run s1 evs) as [s2 os] eqn:Er. cbn [fst snd].
  assert (Hs1 : s1 = fst (step s (e, h))) by (rewrite Es; reflexivity).
  assert (Ho : o = snd (step s (e, h))) by (rewrite Es; reflexivity).
  cbn [fresh_calls] in Hf.
  assert (Hfresh : is_start e = true -> aget Nat.eqb (ev_call e) (s_calls s) = None).
  { intro Hs. rewrite Hs in Hf. destruct Hf as [Hnotin _].
    destruct (aget Nat.eqb (ev_call e) (s_calls s)) eqn:Eg; [|reflexivity]. exfalso. apply Hnotin. apply Hk.
    eapply aget_Some_in_keys; [exact nat_eqb_eq|exact Eg]. }
  destruct (AT_step s e h Hfresh HSW Hnd HA) as [[what Hp]|Ha1].
  - left. exists o, what. split; [left; reflexivity|rewrite Ho; exact Hp].
  - specialize (IH s1 (if is_start e then ev_call e :: U else U)). rewrite Er in IH. cbn [fst snd] in IH.
    destruct IH as [[o' [what [Hin Hp]]]|Ha2].
    + subst s1. apply keys_in_step. exact Hk.
    + destruct (is_start e); tauto.
    + subst s1. apply SW_step. exact HSW.
    + subst s1. apply calls_nodup_step. exact Hnd.
    + subst s1. exact Ha1.
    + left. exists o', what. split; [right; exact Hin|exact Hp].
    + right. exact Ha2.
Qed.

(* worker_attended: in every run whose calls are numbered freshly, either some event reported a scheduler panic,
   or in the reached state every registered worker has its removal time-out armed or is named by a parked
   Synchronize call *)
Lemma worker_attended : forall cfg t0 evs, fresh_calls [] evs ->
  let s := fst (run (init cfg t0) evs) in
  panicked (snd (run (init cfg t0) evs)) \/
  forall w, worker_exists s w = true ->
    k_cleanup (get_worker s w) <> None \/ exists c p, aget Nat.eqb c (s_calls s) = Some p /\ sync_of p = Some w.
Proof.
  intros cfg t0 evs Hf s.
  destruct (AT_run evs (init cfg t0) [] (fun c Hc => match Hc with end) Hf (SW_init cfg t0)) as [Hp|Ha].
  - unfold calls_nodup, init. cbn. constructor.
  - intros w Hw. discriminate Hw.
  - left. exact Hp.
  - right. intros w Hw. apply (Ha w Hw). discriminate.
Qed.
