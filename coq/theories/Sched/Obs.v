(* Observable state: the canonical dump produced by the verif hook
   InMemoryBuildQueue.VerifDump (via the harness) and by [observe] from a
   model state, and their comparison. *)
From VF Require Export Sched.Steps.
Open Scope Z_scope.

Record d_inv := mkDInv {
  di_path : path; di_qops : list nat; di_qchildren : list key; di_ichildren : list key;
  di_children : list key; di_first : Z; di_exec : list ((N * N) * nat);
  di_started : Z; di_completed : Z; di_idle : N; di_isync : list (N * N) }.
Record d_worker := mkDWorker {
  dw_id : N * N; dw_task : option (list nat); dw_cleanup : option Z; dw_term : bool;
  dw_last : option path; dw_wait : bool; dw_sticky : list Z }.
Record d_scq := mkDScq {
  ds_sc : N; ds_removable : bool; ds_cleanup : option Z; ds_drains : list pattern;
  ds_workers : list d_worker; ds_invs : list d_inv }.
Record d_pq := mkDPq {
  dp_key : pkey; dp_scs : list N; dp_limits : list Z; dp_maxbg : nat; dp_bgprio : Z;
  dp_scqs : list d_scq }.
Record d_op := mkDOp {
  do_name : nat; do_taskops : list nat; do_prio : Z; do_sk : skey; do_path : path;
  do_queued : bool; do_waiters : nat; do_mayexist : bool; do_cleanup : option Z;
  do_instance : list N; do_digest : N; do_action : option (bool * Z); do_qts : Z; do_suffix : list N;
  do_worker : option (N * N); do_retry : nat; do_expdur : Z; do_has_learner : bool;
  do_stage : N; do_resp : option resp }.
Record dump := mkDump {
  d_now : Z; d_pqs : list d_pq; d_ops : list d_op;
  d_inflight : list ((list N * N) * nat);   (* digest key -> smallest operation of the task *)
  d_errors : nat;                           (* structural inconsistencies reported by the hook *)
  d_gated : list nat }.                     (* calls parked at the clock gate *)

(* ---- observe ------------------------------------------------------------------- *)
Definition wid (w : wref) : N * N := (w_h w, w_t w).
Definition last_key (i : iref) : key := last (i_path i) 0%N.

Definition observe_inv (s : state) (i : iref) (v : inv) : d_inv :=
  mkDInv (i_path i) (v_qops v) (map last_key (queued_children s i)) (map last_key (idle_sync_children s i))
         (map last_key (children s i)) (v_first v) (map (fun '(w, n) => (wid w, n)) (v_exec v))
         (v_started v) (v_completed v) (v_idle v) (map wid (v_isync v)).

Definition observe_worker (s : state) (w : wref) (k : worker) : d_worker :=
  mkDWorker (wid w) (match k_task k with Some t => Some (task_opids s t) | None => None end)
            (k_cleanup k) (k_term k) (k_last k) (k_wait k) (k_sticky k).

Definition observe_scq (s : state) (k : skey) : d_scq :=
  let q := get_scq s k in
  mkDScq (sk_sc k) (q_removable q) (q_cleanup q) (q_drains q)
         (map (fun '(w, x) => observe_worker s w x) (q_workers q))
         (flat_map (fun '(i, v) => if skey_eqb (i_sk i) k then [observe_inv s i v] else []) (s_invs s)).

Definition observe_pq (s : state) (p : pq) : d_pq :=
  mkDPq (p_key p) (p_scs p) (p_limits p) (p_maxbg p) (p_bgprio p)
        (map (fun c => observe_scq s (mkSK (p_key p) c)) (p_scs p)).

Definition is_queued_op (s : state) (o : nat) : bool :=
  existsb (Nat.eqb o) (v_qops (get_inv s (o_inv (get_op s o)))) .

Definition observe_op (s : state) (o : nat) (x : oper) : d_op :=
  let t := get_task s (o_task x) in
  mkDOp o (map snd (t_ops t)) (o_prio x) (i_sk (o_inv x)) (i_path (o_inv x))
        (match t_resp t with Some _ => false | None => is_queued_op s o end)
        (o_waiters x) (o_mayexist x) (o_cleanup x)
        (t_instance t) (t_digest t) (match t_dnc t with Some b => Some (b, t_timeout t) | None => None end)
        (t_qts t) (t_suffix t) (match t_worker t with Some w => Some (wid w) | None => None end)
        (t_retry t) (t_expdur t) (match t_learner t with Some _ => true | None => false end)
        (task_stage t) (t_resp t).

Definition min_nat (l : list nat) : nat := fold_left Nat.min l (hd 0%nat l).

Definition observe (s : state) : dump :=
  mkDump (s_now s) (map (observe_pq s) (s_pqs s))
         (map (fun '(o, x) => observe_op s o x) (s_ops s))
         (map (fun '(d, t) => (d, min_nat (task_opids s t))) (s_inflight s))
         0 (gated_calls s).

(* ---- comparison (order-insensitive where Go uses maps / heaps) ------------------- *)
Definition same_set {A} (eqb : A -> A -> bool) (a b : list A) : bool :=
  Nat.eqb (List.length a) (List.length b) && forallb (fun x => existsb (eqb x) b) a
  && forallb (fun x => existsb (eqb x) a) b.
Definition nn_eqb (a b : N * N) := (fst a =? fst b)%N && (snd a =? snd b)%N.
Definition optz_eqb := opt_eqb Z.eqb.

Definition d_inv_eqb (a b : d_inv) : bool :=
  path_eqb (di_path a) (di_path b) && same_set Nat.eqb (di_qops a) (di_qops b)
  && same_set N.eqb (di_qchildren a) (di_qchildren b) && same_set N.eqb (di_ichildren a) (di_ichildren b)
  && same_set N.eqb (di_children a) (di_children b)
  (* firstQueuedOperationPriority is a cached value that is only refreshed (and
     only read) while the invocation is queued; for an idle invocation its
     stale content depends on Go's map iteration order *)
  && ((di_first a =? di_first b) || (Nat.eqb (List.length (di_qops a)) 0 && Nat.eqb (List.length (di_qchildren a)) 0))
  && same_set (fun x y => nn_eqb (fst x) (fst y) && Nat.eqb (snd x) (snd y)) (di_exec a) (di_exec b)
  && (di_started a =? di_started b) && (di_completed a =? di_completed b) && (di_idle a =? di_idle b)%N
  && list_eqb nn_eqb (di_isync a) (di_isync b).
Definition d_worker_eqb (a b : d_worker) : bool :=
  nn_eqb (dw_id a) (dw_id b) && opt_eqb (same_set Nat.eqb) (dw_task a) (dw_task b)
  && optz_eqb (dw_cleanup a) (dw_cleanup b) && Bool.eqb (dw_term a) (dw_term b)
  && opt_eqb path_eqb (dw_last a) (dw_last b) && Bool.eqb (dw_wait a) (dw_wait b)
  && list_eqb Z.eqb (dw_sticky a) (dw_sticky b).
Definition d_scq_eqb (a b : d_scq) : bool :=
  (ds_sc a =? ds_sc b)%N && Bool.eqb (ds_removable a) (ds_removable b) && optz_eqb (ds_cleanup a) (ds_cleanup b)
  && same_set pattern_eqb (ds_drains a) (ds_drains b) && same_set d_worker_eqb (ds_workers a) (ds_workers b)
  && same_set d_inv_eqb (ds_invs a) (ds_invs b).
Definition d_pq_eqb (a b : d_pq) : bool :=
  pkey_eqb (dp_key a) (dp_key b) && list_eqb N.eqb (dp_scs a) (dp_scs b) && list_eqb Z.eqb (dp_limits a) (dp_limits b)
  && Nat.eqb (dp_maxbg a) (dp_maxbg b) && (dp_bgprio a =? dp_bgprio b) && list_eqb d_scq_eqb (dp_scqs a) (dp_scqs b).
Definition d_op_eqb (a b : d_op) : bool :=
  Nat.eqb (do_name a) (do_name b) && same_set Nat.eqb (do_taskops a) (do_taskops b) && (do_prio a =? do_prio b)
  && skey_eqb (do_sk a) (do_sk b) && path_eqb (do_path a) (do_path b) && Bool.eqb (do_queued a) (do_queued b)
  && Nat.eqb (do_waiters a) (do_waiters b) && Bool.eqb (do_mayexist a) (do_mayexist b)
  && optz_eqb (do_cleanup a) (do_cleanup b) && list_eqb N.eqb (do_instance a) (do_instance b)
  && (do_digest a =? do_digest b)%N
  && opt_eqb (fun x y => Bool.eqb (fst x) (fst y) && (snd x =? snd y)) (do_action a) (do_action b)
  && (do_qts a =? do_qts b) && list_eqb N.eqb (do_suffix a) (do_suffix b)
  && opt_eqb nn_eqb (do_worker a) (do_worker b) && Nat.eqb (do_retry a) (do_retry b)
  && (do_expdur a =? do_expdur b) && Bool.eqb (do_has_learner a) (do_has_learner b)
  && (do_stage a =? do_stage b)%N && opt_eqb resp_eqb (do_resp a) (do_resp b).

(* which component differs first ("" = equal) *)
Definition dump_diff (m i : dump) : string :=
  if negb (d_now m =? d_now i) then "now"
  else if negb (same_set Nat.eqb (d_gated m) (d_gated i)) then "gated-calls"
  else if negb (same_set (fun a b => pkey_eqb (dp_key a) (dp_key b)) (d_pqs m) (d_pqs i)) then "platform-queues"
  else if negb (same_set (fun a b => Nat.eqb (do_name a) (do_name b)) (d_ops m) (d_ops i)) then "operation-names"
  else if negb (same_set d_op_eqb (d_ops m) (d_ops i)) then "operations"
  else if negb (same_set (fun a b => dkey_eqb (fst a) (fst b) && Nat.eqb (snd a) (snd b)) (d_inflight m) (d_inflight i)) then "in-flight-map"
  else if negb (same_set d_pq_eqb (d_pqs m) (d_pqs i)) then "queues-workers-invocations"
  else "".

(* ---- delta-encoded dumps ------------------------------------------------------------
   Case files carry, per event, only the parts of the implementation's dump
   that changed; [apply_delta] rebuilds the full dump from the previous one. *)
Record d_pqh := mkDPqH { dh_key : pkey; dh_scs : list N; dh_limits : list Z; dh_maxbg : nat; dh_bgprio : Z }.
Record ddelta := mkDelta {
  dd_now : Z;
  dd_pqs : list d_pqh;                 (* all platform queues (headers) *)
  dd_scqs : list (pkey * d_scq);       (* new or changed size class queues *)
  dd_ops : list d_op;                  (* new or changed operations *)
  dd_gone : list nat;                  (* operations no longer registered *)
  dd_inflight : list ((list N * N) * nat);
  dd_errors : nat;
  dd_gated : list nat }.

Definition find_prev_scq (prev : dump) (k : pkey) (sc : N) : option d_scq :=
  match find (fun p => pkey_eqb (dp_key p) k) (d_pqs prev) with
  | Some p => find (fun q => (ds_sc q =? sc)%N) (dp_scqs p)
  | None => None
  end.

Definition apply_delta (prev : dump) (dl : ddelta) : dump :=
  mkDump (dd_now dl)
    (map (fun h =>
       mkDPq (dh_key h) (dh_scs h) (dh_limits h) (dh_maxbg h) (dh_bgprio h)
         (flat_map (fun sc =>
            match find (fun '(k, q) => pkey_eqb k (dh_key h) && (ds_sc q =? sc)%N) (dd_scqs dl) with
            | Some (_, q) => [q]
            | None => match find_prev_scq prev (dh_key h) sc with Some q => [q] | None => [] end
            end) (dh_scs h))) (dd_pqs dl))
    (filter (fun o => negb (existsb (Nat.eqb (do_name o)) (dd_gone dl))
                      && negb (existsb (fun o' => Nat.eqb (do_name o) (do_name o')) (dd_ops dl))) (d_ops prev)
     ++ dd_ops dl)
    (dd_inflight dl) (dd_errors dl) (dd_gated dl).
