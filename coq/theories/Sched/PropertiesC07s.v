(* C07 (scheduler part) — the property theorems about the scheduler model, and nothing else. *)
From VF Require Import Sched.Proofs.
Open Scope Z_scope.

(* selector_linear: every Execute event calls exactly one of Select /
   Abandoned on the initial size class selector it was given (this is the
   count Spec.c07_exec checks on the implementation's ghost log) ... *)
Theorem selector_linear : forall s c a t h,
  List.length (filter (fun x => match x with OGhost GSelect | OGhost GSelAbandoned => true | _ => false end)
                      (snd (step s (EStartExecute c a t, h)))) = 1%nat.
Proof. exact selector_linear_step. Qed.
Print Assumptions selector_linear.

Theorem selector_linear_c07_exec : forall s c a t h,
  c07_exec (snd (step s (EStartExecute c a t, h))) = ""%string.
Proof. exact c07_exec_ok. Qed.
Print Assumptions selector_linear_c07_exec.

(* ... and no other event (clean-up of timed-out workers and operations,
   completions, kills, ...) ever calls a selector. *)
Theorem selector_only_at_execute : forall s e h,
  (forall c a t, e <> EStartExecute c a t) ->
  filter (fun x => match x with OGhost GSelect | OGhost GSelAbandoned => true | _ => false end)
         (snd (step s (e, h))) = [].
Proof. exact selector_only_at_execute. Qed.
Print Assumptions selector_only_at_execute.
