(* C07 (scheduler part) — the property theorems about the scheduler model, and nothing else. *)
From VF Require Import Sched.Proofs.
