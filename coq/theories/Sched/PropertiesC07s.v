(* C07 (scheduler part) — the property theorems about the scheduler model, and nothing else. *)
From VF Require Import Sched.Proofs.
Open Scope Z_scope.

(* selector_linear: every Execute event calls exactly one of Select /
   Abandoned on the initial size class selector it was given (this is the
   count Spec.c07_exec checks on the implementation's ghost log) ... *)
Theorem selector_linear : forall s c a t h,
  List.length (filter (fun x => match x with OGhost GSelect | OGhost GSelAbandoned => true | _ => false end)
                      (snd (step s (EStartExecute c a t, h)))) = 1%nat.
Proof. exact selector_linear_step. Qed.
Print Assumptions selector_linear.

Theorem selector_linear_c07_exec : forall s c a t h,
  c07_exec (snd (step s (EStartExecute c a t, h))) = ""%string.
Proof. exact c07_exec_ok. Qed.
Print Assumptions selector_linear_c07_exec.

(* ... and no other event (clean-up of timed-out workers and operations,
   completions, kills, ...) ever calls a selector. *)
Theorem selector_only_at_execute : forall s e h,
  (forall c a t, e <> EStartExecute c a t) ->
  filter (fun x => match x with OGhost GSelect | OGhost GSelAbandoned => true | _ => false end)
         (snd (step s (e, h))) = [].
Proof. exact selector_only_at_execute. Qed.
Print Assumptions selector_only_at_execute.

(* ---- the learner protocol of task.complete ---------------------------------------------------------------------------
   [term_calls s] = the Succeeded / Failed / Abandoned ghost calls recorded in the output of the current event, newest
   first; [learner_call l r by_worker] = Succeeded l if the response is a success, else Failed l (timed out?) if the
   worker reported it, else Abandoned l; [learner_next] = the learner [l_fail] hands over after a failure reported
   by the worker, nothing otherwise. *)

(* learner_linear: completing an uncompleted task that holds learner l makes exactly one terminal call on l; the only
   other terminal call is Abandoned on the background learner that a successful l handed over, made exactly when no
   background task is created for it (background learning disabled or its backlog full) *)
Theorem learner_linear : forall t r b s l p,
  t_resp (get_task s t) = None -> t_learner (get_task s t) = Some l -> get_pq s (sk_pk (task_scq s t)) = Some p ->
  let s' := complete_task t r b s in
  term_calls s' = learner_call l r b :: term_calls s \/
  exists bidx bdur btimeout bl, resp_success r = true /\ l_succ l = Some (bidx, bdur, btimeout, bl) /\
     term_calls s' = OGhost (GAbandoned (l_id bl)) :: learner_call l r b :: term_calls s.
Proof. exact learner_gets_one_call. Qed.
Print Assumptions learner_linear.

(* ... a task that is completed already, or holds no learner, causes no terminal call ... *)
Theorem no_learner_no_call : forall t r b s,
  t_resp (get_task s t) <> None \/ t_learner (get_task s t) = None ->
  term_calls (complete_task t r b s) = term_calls s.
Proof. exact no_learner_no_call. Qed.
Print Assumptions no_learner_no_call.

(* ... afterwards the task holds the learner that a failure reported by the worker hands over, and none otherwise ... *)
Theorem learner_after_complete : forall t r b s l p,
  (t < s_ntasks s)%nat ->
  t_resp (get_task s t) = None -> t_learner (get_task s t) = Some l -> get_pq s (sk_pk (task_scq s t)) = Some p ->
  t_learner (get_task (complete_task t r b s) t) = learner_next l r b.
Proof. exact learner_after_complete. Qed.
Print Assumptions learner_after_complete.

(* ... and in every reachable state (all event lists, no hypothesis) a task that has a response holds no learner:
   no learner is ever left without its terminal call by a completion, and by [no_learner_no_call] none is called twice *)
Theorem completed_has_no_learner : forall cfg t0 evs t r,
  let s := fst (run (init cfg t0) evs) in
  t_resp (get_task s t) = Some r -> t_learner (get_task s t) = None.
Proof. exact completed_has_no_learner. Qed.
Print Assumptions completed_has_no_learner.

(* retry_once_largest: a failure reported by the worker for which the learner asks for a retry (l_fail l = Some
   (d, tm, nl)) re-targets the task and every one of its operations to the largest size class of its platform queue,
   with expected duration d, timeout tm, learner nl and no response; l was told Failed.  Whether a second retry
   can follow is the learner's decision (nl's l_fail): the scheduler retries exactly when asked. *)
Theorem retry_once_largest : forall t r s l d tm nl p,
  t_resp (get_task s t) = None ->
  t_learner (get_task s t) = Some l -> l_fail l = Some (d, tm, nl) -> resp_success r = false ->
  get_pq s (sk_pk (task_scq s t)) = Some p ->
  NoDup (map snd (t_ops (get_task s t))) ->
  let lk := mkSK (sk_pk (task_scq s t)) (largest_sc p) in
  let s' := complete_task t r true s in
  t_resp (get_task s' t) = None /\ t_learner (get_task s' t) = Some nl /\
  t_expdur (get_task s' t) = d /\ t_timeout (get_task s' t) = tm /\
  t_ops (get_task s' t) = map (fun '(i, o) => (mkI lk (i_path i), o)) (t_ops (get_task s t)) /\
  (forall i o, In (i, o) (t_ops (get_task s t)) -> op_alive s o = true -> o_inv (get_op s' o) = mkI lk (i_path i)) /\
  In (OGhost (GFailed (l_id l) (r_code r =? cDEADLINE)%N)) (s_out s').
Proof. exact retry_on_largest. Qed.
Print Assumptions retry_once_largest.

(* ---- background_bounded ------------------------------------------------------------------------------------------------------
   [bg_scripts_ok evs] (ProofsBg1.v) is a predicate over the event list: every Execute event
   - does not use the invocation key path [4294967295] that the scheduler reserves for background learning
     ([x_keys a <> bgp]), and
   - carries a learner script [lrn_ok]: every learner it hands out for a background run (the learner inside a
     Succeeded answer, at any depth of the script) asks for no retry ([l_fail bl = None]).
   Outside it the state predicate is false of the model (and of the code): a client operation queued under the reserved
   key counts towards the backlog, and a background task that is retried moves into the background invocation of the
   largest size class without the backlog check.  [selectors_in_range] and the escape are those of [sched_exclusive].
   Under these hypotheses: an operation created for background learning belongs to a task that is not cacheable until
   the task completes ([ML], all runs), and the number of operations queued in the background invocation of any size
   class queue never exceeds the platform queue's maximum ([BQ]). *)
Theorem background_bounded : forall cfg t0 evs, selectors_in_range (init cfg t0) evs -> bg_scripts_ok evs ->
  panicked (snd (run (init cfg t0) evs)) \/ c07_background (observe (fst (run (init cfg t0) evs))) = ""%string.
Proof. exact background_bounded. Qed.
Print Assumptions background_bounded.

(* the model-level facts behind it *)
Theorem background_ops_not_cacheable : forall cfg t0 evs, ML (fst (run (init cfg t0) evs)).
Proof. exact ML_run. Qed.
Print Assumptions background_ops_not_cacheable.

Theorem background_learners_no_retry : forall cfg t0 evs, bg_scripts_ok evs -> BT (fst (run (init cfg t0) evs)).
Proof. exact BT_run. Qed.
Print Assumptions background_learners_no_retry.

(* the hypothesis is decidable on concrete histories; a generated history satisfies it *)
Theorem bg_scripts_okb_sound : forall evs, forallb (fun eh => ev_bg_okb (fst eh)) evs = true -> bg_scripts_ok evs.
Proof. exact bg_scripts_okb_sound. Qed.
Print Assumptions bg_scripts_okb_sound.
Example generated_history_bg_ok : bg_scripts_ok gen_evs.
Proof. exact gen_bg_scripts_ok. Qed.
Example generated_history_background_bounded : c07_background (observe (fst (run (init gen_cfg gen_t0) gen_evs))) = ""%string.
Proof.
  destruct (background_bounded gen_cfg gen_t0 gen_evs gen_selectors_in_range gen_bg_scripts_ok) as [[o [what [Ho Hp]]]|H]; [|exact H].
  exfalso. exact (gen_no_panic o what Ho Hp).
Qed.

(* ---- the monitor's learner bookkeeping on the model's own traces (e_learn, c07_learners_match) ----
   hypothesis on histories: no identifier occurs twice in the learner scripts (boolean checker below) *)
Theorem learner_ids_uniqueb_sound : forall evs, learner_ids_uniqueb evs = true -> learner_ids_unique evs.
Proof. exact learner_ids_uniqueb_sound. Qed.
Print Assumptions learner_ids_uniqueb_sound.
Example generated_history_learner_ids_unique : learner_ids_unique gen_evs.
Proof. apply learner_ids_uniqueb_sound. vm_compute. reflexivity. Qed.

(* a task that holds a learner has an action (hence, uncompleted, it lists operations) *)
Theorem learner_holder_has_action : forall cfg t0 evs, LD (fst (run (init cfg t0) evs)).
Proof. exact LD_run. Qed.
Print Assumptions learner_holder_has_action.

(* every terminal call of the model's trace finds its learner in the monitor's list, and the list has as many
   entries as the dump shows tasks holding a learner (positions 16 and 18 of p_components) *)
Theorem monitor_learners_on_model : forall cfg t0 evs,
  selectors_in_range (init cfg t0) evs -> fresh_calls [] evs -> bg_scripts_ok evs -> learner_ids_unique evs ->
  panicked (snd (run (init cfg t0) evs)) \/ trace_sub [16%nat; 18%nat] cfg t0 (model_trace cfg t0 evs) = true.
Proof. exact monitor_learners_on_model. Qed.
Print Assumptions monitor_learners_on_model.
