(* C04: no task is queued while an undrained worker of the same size class queue is parked -- on every reachable state. *)
From Coq Require Import Lia.
From VF Require Export Sched.ProofsTC5.
From VF Require Import Sched.Spec Sched.ProofsObsLink.
Open Scope Z_scope.

Lemma TC_eq : forall s s',
  s_tasks s' = s_tasks s -> s_scqs s' = s_scqs s -> s_invs s' = s_invs s -> s_pqs s' = s_pqs s -> s_calls s' = s_calls s ->
  TC [] [] s -> TC [] [] s'.
Proof.
  intros s s' E1 E2 E3 E4 E5 [HSW HR]. split; [eapply SW_frame'; eassumption|]. exact (TR_frame s s' E1 E2 E3 HR).
Qed.

Lemma TC_step : forall s eh,
  ev_sel_ok (s <| s_hints := snd eh |> <| s_out := [] |>) (fst eh) -> Cok s -> TC [] [] s ->
  (exists what, In (OPanic what) (snd (step s eh))) \/ TC [] [] (fst (step s eh)).
Proof.
  intros s eh Hev H HT. unfold step. cbn [fst snd].
  set (s0 := s <| s_hints := snd eh |> <| s_out := [] |>) in *.
  assert (H0 : Cok s0) by (eapply Cok_eq; [..|exact H]; reflexivity).
  assert (HT0 : TC [] [] s0) by (eapply TC_eq; [..|exact HT]; reflexivity).
  destruct (TCP_step_core (fst eh) s0 Hev (Cok_TOP _ H0) HT0) as [[what Hp]|H1].
  - assert (Hpan : Pan (auto_returns (step_core (fst eh) s0))).
    { apply (fr_auto_returns Pan); [intros; unfold ret; inv_go fail t_pan|exists what; exact Hp]. }
    destruct Hpan as [what' Hw']. left. exists what'. rewrite <- in_rev. exact Hw'.
  - right. set (s1 := step_core (fst eh) s0) in *. clearbody s1.
    assert (H2 : TC [] [] (auto_returns s1)) by (apply (fr_auto_returns (TC [] [])); [intros; apply TC_ret; assumption|exact H1]).
    eapply TC_eq; [..|exact H2]; reflexivity.
Qed.

Lemma TC_init : forall cfg t0, TC [] [] (init cfg t0).
Proof.
  intros cfg t0. apply TC_of; [apply SW_init|]. unfold init. split; [|split; [|split; [|split]]].
  - intros w He. unfold worker_exists, get_scq in He. cbn in He. discriminate.
  - intro a. unfold cntw, idle_at, get_inv. cbn. lia.
  - intros a t w _ Ht. unfold get_task in Ht. cbn in Ht. discriminate.
  - intros d v [].
  - intros w He. unfold worker_exists, get_scq in He. cbn in He. discriminate.
Qed.

Lemma TC_run : forall evs s, selectors_in_range s evs -> Cok s -> TC [] [] s ->
  panicked (snd (run s evs)) \/ (Cok (fst (run s evs)) /\ TC [] [] (fst (run s evs))).
Proof.
  induction evs as [|eh evs IH]; intros s Hsel H HT; [right; split; assumption|].
  cbn [run]. destruct (step s eh) as [s1 o] eqn:Es. destruct (run s1 evs) as [s2 os] eqn:Er. cbn [fst snd].
  cbn [selectors_in_range] in Hsel. destruct Hsel as [Hev Hsel]. rewrite Es in Hsel. cbn [fst] in Hsel.
  destruct (Cok_step s eh Hev H) as [[what Hp]|H1].
  - left. exists o, what. rewrite Es in Hp. split; [left; reflexivity|exact Hp].
  - destruct (TC_step s eh Hev H HT) as [[what Hp]|HT1].
    + left. exists o, what. rewrite Es in Hp. split; [left; reflexivity|exact Hp].
    + rewrite Es in H1, HT1. cbn [fst] in H1, HT1. specialize (IH s1 Hsel H1 HT1). rewrite Er in IH. cbn [fst snd] in IH.
      destruct IH as [[o' [what [Ho Hp]]]|IH]; [left; exists o', what; split; [right; exact Ho|exact Hp]|right; exact IH].
Qed.

(* ---- the state predicate of C04 ----------------------------------------------------------------------------------------------------------------------------- *)
Lemma c04_dump_ok : forall s, SW s -> NQ s -> c04_dump (observe s) = ""%string.
Proof.
  intros s HSW HNQ. pose proof (SW_St _ HSW) as [Hnds [Hwk _]]. unfold c04_dump. change (d_errors (observe s)) with 0%nat. cbn [Nat.div Nat.eqb negb].
  apply first_nonempty_all_empty. intros y Hy. apply in_map_iff in Hy. destruct Hy as [[pk q] [Ey Hin]]. subst y.
  apply in_all_scqs_observe in Hin. destruct Hin as [p [c [Hp [Hc [Epk Eq]]]]]. subst pk q. cbn [ds_sc observe_scq sk_sc].
  set (k := mkSK (p_key p) c).
  destruct (existsb (fun i => negb (Nat.eqb (List.length (di_qops i)) 0)) (ds_invs (observe_scq s k))) eqn:E1; [|reflexivity].
  destruct (existsb (fun w => dw_wait w && negb (is_drained_d (observe_scq s k) w k)) (ds_workers (observe_scq s k))) eqn:E2; [|reflexivity].
  exfalso. apply existsb_exists in E1. destruct E1 as [di [Hdi Hq]]. apply existsb_exists in E2. destruct E2 as [dw [Hdw Hw]].
  cbn [ds_invs observe_scq] in Hdi. apply in_flat_map in Hdi. destruct Hdi as [[i v] [Hiv Hdi]].
  destruct (skey_eqb (i_sk i) k) eqn:Ek; [|destruct Hdi]. destruct Hdi as [<-|[]]. apply skey_eqb_eq in Ek. cbn [di_qops observe_inv] in Hq.
  cbn [ds_workers observe_scq] in Hdw. apply in_map_iff in Hdw. destruct Hdw as [[w x] [<- Hwx]]. apply andb_true_iff in Hw. destruct Hw as [Hw _].
  cbn [dw_wait observe_worker] in Hw.
  assert (Hgs : In (k, get_scq s k) (s_scqs s)).
  { unfold get_scq in *. destruct (aget skey_eqb k (s_scqs s)) as [q0|] eqn:Eg; [apply (aget_In skey_eqb skey_eqb_eq); exact Eg|destruct Hwx]. }
  destruct (Hwk _ _ Hgs) as [Hndw Hsk].
  assert (Hwsk : w_sk w = k) by (apply Hsk; apply in_map_iff; exists (w, x); auto).
  assert (Hag : aget wref_eqb w (q_workers (get_scq s (w_sk w))) = Some x) by (rewrite Hwsk; apply (In_aget_NoDup wref_eqb wref_eqb_eq); assumption).
  assert (He : worker_exists s w = true) by (unfold worker_exists; rewrite Hag; reflexivity).
  assert (Hgw : get_worker s w = x) by (unfold get_worker; rewrite Hag; reflexivity).
  specialize (HNQ w He). rewrite Hgw in HNQ. specialize (HNQ Hw).
  assert (Hqr : is_queued s (mkI (w_sk w) []) = true); [|congruence].
  apply is_queued_iff. exists i, v. split; [exact Hiv|]. split; [rewrite Hwsk, <- Ek; apply in_chain_root|apply length_nonzero; exact Hq].
Qed.

Theorem no_queued_while_parked : forall cfg t0 evs, selectors_in_range (init cfg t0) evs ->
  panicked (snd (run (init cfg t0) evs)) \/ c04_dump (observe (fst (run (init cfg t0) evs))) = ""%string.
Proof.
  intros cfg t0 evs Hsel. destruct (TC_run evs (init cfg t0) Hsel (Cok_init cfg t0) (TC_init cfg t0)) as [Hp|[HC HT]]; [left; exact Hp|right].
  apply c04_dump_ok; [exact (TC_SW _ _ _ HT)|exact (proj2 (proj2 (proj2 (proj2 (proj2 HT)))))].
Qed.

(* ---- what else holds of every reachable state ------------------------------------------------------------------------------------------------------------ *)
Lemma tree_consistent : forall cfg t0 evs, selectors_in_range (init cfg t0) evs ->
  let s := fst (run (init cfg t0) evs) in
  panicked (snd (run (init cfg t0) evs)) \/ (KW s /\ ID s /\ EC [] s /\ QPs s /\ IPs s /\ NQ s).
Proof.
  intros cfg t0 evs Hsel. cbv zeta. destruct (TC_run evs (init cfg t0) Hsel (Cok_init cfg t0) (TC_init cfg t0)) as [Hp|[HC HT]]; [left; exact Hp|right].
  pose proof (IPs_of_TC _ _ HT) as HI. destruct HT as [_ [A [B [C [D E]]]]]. apply IDs_nil in B. auto 7.
Qed.

Lemma assign_next_finds_queued : forall w s, NoDup (map fst (s_invs s)) -> QPs s ->
  is_queued s (mkI (w_sk w) []) = true -> snd (assign_next_queued_task w s) = true.
Proof.
  intros w s Hnd HQ Hq. destruct (snd (assign_next_queued_task w s)) eqn:E; [reflexivity|].
  rewrite (assign_next_nothing_queued w s Hnd HQ E) in Hq. discriminate.
Qed.
