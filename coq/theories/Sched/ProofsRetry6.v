(* The model's retry counter and the worker a task is assigned to, over one event (model side of positions 14 / 15; independent
   of Spec.v).  A task that is assigned to worker w after the event was assigned to w before the event with the same
   counter (one more if the event counted a re-request), or its counter has just been reset: the assignment sets
   t_worker and t_retry := 0 in one primitive update, so the relation is closed under every primitive except
   "t_retry ::= S" and the generic frame lemmas apply.  With workers_tasks_inverse (k_task w = Some T <-> t_worker T = Some w
   for registered workers in reachable states) this is: a worker holds after the event the task it held before, counter
   unchanged / counted, or a task whose counter is 0 (1). *)
From Coq Require Import Lia.
From VF Require Export Sched.ProofsRetry4.
Open Scope Z_scope.

Definition TZ (s0 s : state) : Prop :=
  forall T w, t_worker (get_task s T) = Some w ->
    (t_worker (get_task s0 T) = Some w /\ t_retry (get_task s T) = t_retry (get_task s0 T)) \/ t_retry (get_task s T) = 0%nat.
Definition TS (s0 s : state) : Prop :=
  forall T w, t_worker (get_task s T) = Some w ->
    (t_worker (get_task s0 T) = Some w /\ (t_retry (get_task s T) = t_retry (get_task s0 T) \/ t_retry (get_task s T) = S (t_retry (get_task s0 T)))) \/
    t_retry (get_task s T) = 0%nat \/ t_retry (get_task s T) = 1%nat.

Lemma TZ_refl : forall s, TZ s s.
Proof. intros s T w H. left. split; [exact H|reflexivity]. Qed.
Lemma TZ_TS : forall s0 s, TZ s0 s -> TS s0 s.
Proof. intros s0 s H T w Hw. destruct (H T w Hw) as [[A B]|B]; [left; split; [exact A|left; exact B]|right; left; exact B]. Qed.

Ltac t_leaf := first [ assumption | solve [ let w := fresh "w" in let Hw := fresh "Hw" in intros w Hw; cbn in *; first [ discriminate Hw | tauto | auto ] ] ].
Ltac t_trel R :=
  intros; unfold R in *;
  let T := fresh "T" in intro T;
  match goal with H : forall (T0 : nat) (w0 : wref), _ |- _ => specialize (H T) end;
  first [ (erewrite get_task_frame; [eassumption | prim_unfold; prim_cases; reflexivity])
        | (rewrite get_task_upd_task;
           let E := fresh "E" in
           destruct (Nat.eqb T _) eqn:E;
           [ apply Nat.eqb_eq in E; subst T; cbn; t_leaf | assumption ])
        | (match goal with |- context [get_task ?s1 T] =>
             lazymatch s1 with
             | set _ _ _ =>
               let Hn := fresh "Hn" in
               match goal with Hs : context [get_task ?s2 T] |- _ =>
                 destruct (get_task_new s2 T _ (fun _ => s1) eq_refl) as [Hn|Hn]; rewrite Hn; cbn; t_leaf
               end
             end
           end) ].
Ltac t_tz := t_trel TZ.
Ltac t_ts := t_trel TS.

Lemma TS_count : forall s0 s t, TZ s0 s -> TS s0 (upd_task t (fun x => x <| t_retry ::= S |>) s).
Proof.
  intros s0 s t H T w. rewrite get_task_upd_task. destruct (Nat.eqb T t) eqn:E; [|intro Hw; exact (TZ_TS _ _ H T w Hw)].
  apply Nat.eqb_eq in E. subst T. cbn. intro Hw. destruct (H t w Hw) as [[A B]|B]; rewrite B; [left; split; [exact A|right; reflexivity]|right; right; reflexivity].
Qed.

Section Sync.
  Variable c0 : nat.
  Variable s0 : state.

  Lemma TZ_enter : forall t s, TZ s0 s -> TZ s0 (enter t s).
  Proof. intros t s H. fr_go (TZ s0) t_tz. Qed.
  Lemma TZ_complete_task : forall t r b s, TZ s0 s -> TZ s0 (complete_task t r b s).
  Proof. intros t r b s H. fr_go (TZ s0) t_tz. Qed.
  Lemma TZ_get_next_task : forall w bl pr s, TZ s0 s -> TZ s0 (get_next_task c0 w bl pr s).
  Proof. intros w bl pr s H. fr_go (TZ s0) t_tz. Qed.
  Lemma TS_sync_return_exec : forall w s, TS s0 s -> TS s0 (sync_return_exec c0 w s).
  Proof. intros w s H. fr_go (TS s0) t_ts. Qed.

  Lemma TS_get_current_or_next : forall w bl pr s, TZ s0 s -> TS s0 (get_current_or_next c0 w bl pr s).
  Proof.
    intros w bl pr s H. unfold get_current_or_next. destruct (k_task (get_worker s w)) as [t|]; [|apply TZ_TS, TZ_get_next_task; exact H].
    destruct (Nat.ltb _ _); [apply TS_sync_return_exec, TS_count; exact H|apply TZ_TS, TZ_get_next_task, TZ_complete_task; exact H].
  Qed.

  Lemma TS_sync_start : forall a s, TZ s0 s -> TS s0 (sync_start c0 a s).
  Proof.
    intros a s H. unfold sync_start. cbv zeta.
    repeat fr_destruct_head;
      first [ apply TS_get_current_or_next; fr_go (TZ s0) t_tz
            | apply TZ_TS; fr_go (TZ s0) t_tz ].
  Qed.

  Lemma TZ_step_core : forall e s, ev_call e = c0 -> is_sync e = false -> TZ s0 s -> TZ s0 (step_core e s).
  Proof.
    intros e s Hc Hs H. destruct e; cbn [ev_call] in Hc; try discriminate Hs; subst; unfold step_core; cbv zeta;
      fr_go (TZ s0) t_tz.
  Qed.
End Sync.

Lemma TS_step_core : forall s0 e s, TZ s0 s -> TS s0 (step_core e s).
Proof.
  intros s0 e s H. destruct (is_sync e) eqn:Es.
  - destruct e; try discriminate Es. unfold step_core. apply TS_sync_start. apply TZ_enter. exact H.
  - apply TZ_TS. apply (TZ_step_core (ev_call e)); [reflexivity|exact Es|exact H].
Qed.

Theorem assigned_retry_step : forall s eh, TS s (fst (step s eh)).
Proof.
  intros s eh. unfold step. cbn [fst]. unfold auto_returns.
  assert (H : TS s (step_core (fst eh) (s <| s_hints := snd eh |> <| s_out := [] |>))).
  { apply TS_step_core. assert (H0 : TZ s s) by apply TZ_refl. fr_go (TZ s) t_tz. }
  fr_go (TS s) t_ts.
Qed.

Theorem assigned_retry_step_nonsync : forall s eh, is_sync (fst eh) = false -> TZ s (fst (step s eh)).
Proof.
  intros s eh Hs. unfold step. cbn [fst]. unfold auto_returns.
  assert (H : TZ s (step_core (fst eh) (s <| s_hints := snd eh |> <| s_out := [] |>))).
  { apply (TZ_step_core (ev_call (fst eh))); [reflexivity|exact Hs|]. assert (H0 : TZ s s) by apply TZ_refl. fr_go (TZ s) t_tz. }
  fr_go (TZ s) t_tz.
Qed.
