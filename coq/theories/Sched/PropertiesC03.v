(* C03 — the property theorems about the scheduler model, and nothing else.

   live_cacheable x :  t_resp x = None /\ t_dnc x = Some false
   tkey x           :  (t_instance x, t_digest x)   (the action digest incl. instance name) *)
From VF Require Import Sched.Proofs.
Open Scope Z_scope.

(* inflight_exact: in every reachable state (all event lists, no hypothesis)
   the keys of the in-flight map are unique, every entry names an existing
   task that has no response, is cacheable and has exactly that digest, and
   every such task is registered under its digest. *)
Theorem inflight_exact : forall cfg t0 evs,
  let s := fst (run (init cfg t0) evs) in
  NoDup (map fst (s_inflight s)) /\
  (forall k t, aget dkey_eqb k (s_inflight s) = Some t ->
     exists x, aget Nat.eqb t (s_tasks s) = Some x /\ (t_resp x = None /\ t_dnc x = Some false) /\ (t_instance x, t_digest x) = k) /\
  (forall t x, aget Nat.eqb t (s_tasks s) = Some x -> (t_resp x = None /\ t_dnc x = Some false) ->
     aget dkey_eqb (t_instance x, t_digest x) (s_inflight s) = Some t).
Proof. exact inflight_exact_all. Qed.
Print Assumptions inflight_exact.

(* hence two distinct live cacheable tasks never have the same digest *)
Theorem live_cacheable_unique : forall cfg t0 evs t1 t2 x1 x2,
  let s := fst (run (init cfg t0) evs) in
  aget Nat.eqb t1 (s_tasks s) = Some x1 -> aget Nat.eqb t2 (s_tasks s) = Some x2 ->
  live_cacheable x1 -> live_cacheable x2 -> tkey x1 = tkey x2 -> t1 = t2.
Proof. exact live_cacheable_unique_all. Qed.
Print Assumptions live_cacheable_unique.

(* A duplicate request while the task is in flight creates no task, leaves
   the map alone and creates at most one operation (none when its
   invocation is already attached). *)
Theorem dup_exec_no_new_task : forall c a s t0,
  aget dkey_eqb (x_instance a, x_digest a) (s_inflight s) = Some t0 ->
  s_ntasks (exec_start c a s) = s_ntasks s /\ s_inflight (exec_start c a s) = s_inflight s /\
  (s_nops (exec_start c a s) = s_nops s \/ s_nops (exec_start c a s) = S (s_nops s)).
Proof. exact dup_exec_no_new_task. Qed.
Print Assumptions dup_exec_no_new_task.

(* An Execute request with do_not_cache set never writes the in-flight
   deduplication map (whatever else its critical section does).  NOTE: it
   does read it: see docs/areas/Sched-proofs.md. *)
Theorem exec_start_dnc_keeps_inflight : forall c a s,
  x_dnc a = true -> s_inflight (exec_start c a s) = s_inflight s.
Proof. exact exec_start_dnc_keeps_inflight. Qed.
Print Assumptions exec_start_dnc_keeps_inflight.

(* After completion (no live cacheable task with the digest remains) the map
   has no entry for the digest: the next request is routed and creates a
   fresh task (PropertiesC05.exec_routes_longest_prefix). *)
Theorem fresh_after_completion : forall cfg t0 evs k,
  let s := fst (run (init cfg t0) evs) in
  (forall t x, aget Nat.eqb t (s_tasks s) = Some x -> live_cacheable x -> tkey x <> k) ->
  aget dkey_eqb k (s_inflight s) = None.
Proof. exact fresh_after_completion_all. Qed.
Print Assumptions fresh_after_completion.

(* Referential integrity used above: in every reachable state the next task
   index and the next operation index are unused. *)
Theorem next_indices_fresh : forall cfg t0 evs,
  let s := fst (run (init cfg t0) evs) in
  aget Nat.eqb (s_ntasks s) (s_tasks s) = None /\ aget Nat.eqb (s_nops s) (s_ops s) = None.
Proof. exact next_indices_fresh_all. Qed.
Print Assumptions next_indices_fresh.

(* The monitor's state predicates of C03 hold of every observed reachable state of the model:
   c03_dump -- every live cacheable task is registered in the in-flight map under its digest, the entry names this very
   task, and no two live cacheable tasks share a digest ([no_phantom_sync]: no Synchronize uses the placeholder worker
   id; needed only to know that a registered operation is listed by its task) ... *)
Theorem c03_dump_holds : forall cfg t0 evs, no_phantom_sync evs ->
  c03_dump (observe (fst (run (init cfg t0) evs))) = ""%string.
Proof. exact c03_dump_ok. Qed.
Print Assumptions c03_dump_holds.

(* ... c03_waited -- an operation a client is waiting on has no abandonment time-out pending (calls numbered freshly). *)
Theorem c03_waited_holds : forall cfg t0 evs, fresh_calls [] evs ->
  c03_waited (observe (fst (run (init cfg t0) evs))) = ""%string.
Proof. exact c03_waited_ok. Qed.
Print Assumptions c03_waited_holds.
