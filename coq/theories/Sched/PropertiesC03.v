(* C03 — the property theorems about the scheduler model, and nothing else. *)
From VF Require Import Sched.Proofs.
Open Scope Z_scope.

(* An Execute request with do_not_cache set never writes the in-flight
   deduplication map (whatever else its critical section does). *)
Theorem exec_start_dnc_keeps_inflight : forall c a s,
  x_dnc a = true -> s_inflight (exec_start c a s) = s_inflight s.
Proof. exact exec_start_dnc_keeps_inflight. Qed.
Print Assumptions exec_start_dnc_keeps_inflight.
