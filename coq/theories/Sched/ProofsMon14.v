(* The monitor on the model's trace: e_arm, part 2.  The waiter count of a registered operation changes only by the
   stream call that is served; a stream that returns and leaves its operation without waiters arms the removal at
   "now + no-waiters timeout". *)
From Coq Require Import Lia Permutation.
From VF Require Export Sched.ProofsMon13.
From VF Require Import Sched.Spec Sched.Corr Sched.ProofsObsLink Sched.ProofsObsC01 Sched.ProofsExec Sched.ProofsLearner Sched.ProofsRoute Sched.ProofsStreams.
Open Scope Z_scope.

(* relative to the state [s0] the event starts in: every operation registered then, other than [oc], has its waiters *)
Definition WU (s0 : state) (oc : nat) (s : state) : Prop :=
  (s_nops s0 <= s_nops s)%nat /\
  forall o x0 x, aget Nat.eqb o (s_ops s0) = Some x0 -> aget Nat.eqb o (s_ops s) = Some x -> o <> oc -> o_waiters x = o_waiters x0 \/ o_waiters x <> O.

Lemma WU_frame : forall s0 oc s s', s_ops s' = s_ops s -> s_nops s' = s_nops s -> WU s0 oc s -> WU s0 oc s'.
Proof. unfold WU. intros s0 oc s s' -> ->. auto. Qed.
Lemma WU_upd_op : forall s0 oc s o f, (o = oc \/ (forall x, o_waiters (f x) = o_waiters x) \/ (forall x, o_waiters (f x) <> O)) -> WU s0 oc s -> WU s0 oc (upd_op o f s).
Proof.
  unfold WU, upd_op. intros s0 oc s o f Hf [A B]. destruct (aget Nat.eqb o (s_ops s)) as [y|] eqn:E; [|auto]. cbn. split; [exact A|].
  intros o' x0 x Ho Hx Hne. rewrite (aget_aset Nat.eqb nat_eqb_eq) in Hx. destruct (Nat.eqb o' o) eqn:Eo; [|eapply B; eassumption].
  apply Nat.eqb_eq in Eo. subst o'. inversion Hx; subst x. destruct Hf as [->|[Hf|Hf]]; [contradiction| |right; apply Hf]. rewrite Hf. eapply B; eassumption.
Qed.
Lemma WU_newop : forall s0 oc s x, (forall o x0, aget Nat.eqb o (s_ops s0) = Some x0 -> (o < s_nops s0)%nat) -> WU s0 oc s ->
  WU s0 oc (s <| s_nops ::= S |> <| s_ops ::= fun l => l ++ [(s_nops s, x)] |>).
Proof.
  unfold WU. intros s0 oc s x H0 [A B]. split; [cbn; lia|]. intros o x0 y Ho Hy Hne. cbn in Hy. rewrite (aget_app Nat.eqb) in Hy.
  destruct (aget Nat.eqb o (s_ops s)) as [y'|] eqn:E; [inversion Hy; subst; eapply B; eassumption|].
  cbn in Hy. destruct (Nat.eqb o (s_nops s)) eqn:Eo; [|discriminate]. apply Nat.eqb_eq in Eo. pose proof (H0 _ _ Ho). lia.
Qed.
Lemma WU_delop : forall s0 oc s o, NoDup (map fst (s_ops s)) -> WU s0 oc s -> WU s0 oc (s <| s_ops := adel Nat.eqb o (s_ops s) |>).
Proof.
  unfold WU. intros s0 oc s o Hnd [A B]. split; [exact A|]. intros o' x0 x Ho Hx Hne. cbn in Hx.
  destruct (Nat.eq_dec o' o) as [->|Hn]; [rewrite (aget_adel_same Nat.eqb nat_eqb_eq) in Hx by exact Hnd; discriminate|].
  rewrite (aget_adel_other Nat.eqb nat_eqb_eq) in Hx by exact Hn. eapply B; eassumption.
Qed.

Definition WUb (s0 : state) (oc : nat) (s : state) : Prop := (forall o x0, aget Nat.eqb o (s_ops s0) = Some x0 -> (o < s_nops s0)%nat) /\ WU s0 oc s.
Ltac t_WU :=
  intros;
  lazymatch goal with
  | |- WUb _ _ (upd_op _ _ _) => match goal with H : WUb _ _ _ |- _ => destruct H as [?A ?B]; split; [assumption|apply WU_upd_op; [right; first [(left; intro; reflexivity) | (right; intro; cbn; discriminate)] | assumption]] end
  | |- WUb _ _ (set s_ops (fun _ => _ ++ _) (set s_nops _ _)) => match goal with H : WUb _ _ _ |- _ => destruct H as [?A ?B]; split; [assumption|apply WU_newop; assumption] end
  | |- _ => match goal with H : WUb _ _ ?s0 |- WUb _ _ ?s1 => destruct H as [?A ?B]; split; [assumption|eapply WU_frame; [ | |eassumption]; frame_eq] end
  end.
Ltac wu_go := inv_go fail t_WU.

Lemma WUb_complete_task : forall s0 oc t r b s, WUb s0 oc s -> WUb s0 oc (complete_task t r b s).
Proof.
  intros s0 oc t r b s H. rewrite complete_task_eq2. destruct (t_resp (get_task s t)); [exact H|]. cbv zeta.
  assert (H4 : WUb s0 oc (ct_prefix t b s)) by (unfold ct_prefix; wu_go). set (s4 := ct_prefix t b s) in *. clearbody s4.
  destruct (get_pq s4 _) as [p|]; [|t_WU].
  assert (H5 : WUb s0 oc (fst (ct_learner t r b (get_task s t) p (task_scq s t) s4))).
  { unfold ct_learner. destruct (t_learner (get_task s t)) as [l|]; [|cbn [fst]; wu_go]. destruct (resp_success r).
    - cbv zeta. set (s1 := upd_task t _ (emit _ s4)). assert (H1 : WUb s0 oc s1) by (unfold s1; wu_go). clearbody s1.
      destruct (l_succ l) as [[[[bidx bdur] btimeout] bl]|]; [|exact H1]. destruct (Nat.eqb (p_maxbg p) 0); [cbn [fst]; wu_go|].
      set (s2 := get_or_create_invocation _ _ s1). assert (H2 : WUb s0 oc s2) by (unfold s2; wu_go). clearbody s2.
      destruct (Nat.leb _ _); [cbn [fst]; wu_go|]. cbv zeta.
      match goal with |- context [new_operation ?bt ?prio ?bi true ?sN] => set (sN' := sN); assert (HN : WUb s0 oc sN') by (unfold sN'; t_WU); clearbody sN' end.
      unfold new_operation. cbn [fst].
      match goal with |- WUb _ _ (schedule _ (upd_task ?bt ?f (set s_ops _ (set s_nops _ sN')))) =>
        assert (HO : WUb s0 oc (sN' <| s_nops ::= S |> <| s_ops ::= fun l0 => l0 ++ [(s_nops sN', mkOper bt (p_bgprio p) (mkI (mkSK (sk_pk (task_scq s t)) (nth bidx (p_scs p) 0%N)) [4294967295%N]) 0 true None)] |>)) by t_WU end.
      match goal with |- WUb _ _ (schedule _ (upd_task ?bt ?f ?sO)) => set (sO' := sO) in *; clearbody sO' end. wu_go.
    - destruct b; cbv zeta; [destruct (l_fail l) as [[[d tm] nl]|]|]; cbn [fst]; wu_go. }
  destruct (ct_learner t r b (get_task s t) p (task_scq s t) s4) as [s5 retry]. cbn [fst] in H5.
  unfold ct_tail, report_non_final_stage_change, maybe_start_cleanup. destruct retry as [[d tm]|]; wu_go.
Qed.

Lemma WUb_cancel_all_queued : forall s0 oc i r s, WUb s0 oc s -> WUb s0 oc (cancel_all_queued i r s).
Proof. intros s0 oc i r s H. rewrite cancel_all_queued_eq. apply cancel_go_closed; [|exact H]. intros. apply WUb_complete_task. assumption. Qed.

Ltac wu_leaf := idtac; lazymatch goal with
  | |- WUb _ _ (complete_task _ _ _ _) => apply WUb_complete_task
  | |- WUb _ _ (cancel_all_queued _ _ _) => apply WUb_cancel_all_queued
  end.
Ltac wu_go1 := inv_go wu_leaf t_WU.

Lemma WUb_operation_remove : forall s0 oc o s, G s -> WUb s0 oc s -> WUb s0 oc (operation_remove o s).
Proof.
  intros s0 oc o s HG H. unfold operation_remove. cbv zeta. pose proof (proj1 (XS_ON _ _ (G_XS _ HG))) as Hnd.
  set (t := o_task (get_op s o)).
  match goal with |- WUb _ _ (upd_task _ _ (set s_ops _ ?e)) => assert (H1 : WUb s0 oc e /\ map fst (s_ops e) = map fst (s_ops s)) end.
  { destruct (Nat.eqb (List.length (t_ops (get_task s t))) 1).
    - split; [apply WUb_complete_task; exact H|apply keys_complete_task_nb; reflexivity].
    - unfold task_stage. destruct (t_resp (get_task s t)); [destruct (t_worker (get_task s t)); (split; [exact H|reflexivity])|].
      destruct (t_worker (get_task s t)) as [w|]; cbv iota.
      + split; [wu_go|]. assert (Hk : keeps_okeys (map fst (s_ops s)) (decrement_executing (o_inv (get_op s o)) w s)); [|exact Hk]. assert (H0 : keeps_okeys (map fst (s_ops s)) s) by reflexivity. fr_go (keeps_okeys (map fst (s_ops s))) t_kok.
      + split.
        * match goal with |- WUb _ _ (fst (fold_left ?g ?l ?a)) => apply (fold_left_pres (fun acc => WUb s0 oc (fst acc)) g l) end; [|cbn [fst]; wu_go].
          intros [s1 go] j Hs1. cbn [fst] in *. destruct go; [wu_go|exact Hs1].
        * assert (H0 : keeps_okeys (map fst (s_ops s)) s) by reflexivity.
          match goal with |- map fst (s_ops (fst (fold_left ?g ?l ?a))) = _ => assert (Hk : keeps_okeys (map fst (s_ops s)) (fst (fold_left g l a))); [|exact Hk];
            apply (fold_left_pres (fun acc => keeps_okeys (map fst (s_ops s)) (fst acc)) g l) end; [|cbn [fst]; fr_go (keeps_okeys (map fst (s_ops s))) t_kok].
          intros [s1 go] j Hs1. cbn [fst] in *. destruct go; [fr_go (keeps_okeys (map fst (s_ops s))) t_kok|exact Hs1]. }
  match goal with |- WUb _ _ (upd_task _ _ (set s_ops _ ?e)) => set (s1 := e) in * end. clearbody s1. destruct H1 as [[A1 B1] Ek].
  assert (H2 : WUb s0 oc (s1 <| s_ops := adel Nat.eqb o (s_ops s1) |>)) by (split; [exact A1|apply WU_delop; [rewrite Ek; exact Hnd|exact B1]]).
  t_WU.
Qed.

Definition GWU (s0 : state) (oc : nat) (s : state) : Prop := G s /\ WUb s0 oc s.
Lemma GWU_enter : forall s0 oc t s, GWU s0 oc s -> GWU s0 oc (enter t s).
Proof.
  intros s0 oc t s H. unfold enter. destruct (s_now s <? t); [|exact H]. cbv zeta.
  apply cleanup_run_closed; [intros s1 w [A B]; split; [g_prim A|wu_go1]| |destruct H as [A B]; split; [g_prim A|wu_go1]].
  intros s1 [z ce] [HG H1] Hin. split; [apply G_run_entry; assumption|]. unfold run_entry. cbn [fst snd]. destruct ce as [o|w|k].
  - apply WUb_operation_remove; [|t_WU]. match goal with |- G (upd_op ?o' ?f s1) => assert (Hg : G (upd_op o' f s1)) by (g_prim HG); exact Hg end.
  - unfold remove_stale_worker, mark_terminating. wu_go1.
  - unfold scq_remove. wu_go1.
Qed.

(* ---- a stream returns ------------------------------------------------------------------------------------------------------------------------------------------- *)
Definition rearmed (oc : nat) (z : Z) (s : state) : Prop :=
  Pan s \/ forall x, aget Nat.eqb oc (s_ops s) = Some x -> o_waiters x = O -> o_mayexist x = false -> o_cleanup x = Some z.

Lemma stream_return_spec : forall s0 c oc code s1, WUb s0 oc s1 ->
  WUb s0 oc (stream_return c oc code s1) /\ rearmed oc (s_now s1 + cf_nowaiters (s_cfg s1)) (stream_return c oc code s1).
Proof.
  intros s0 c oc code s1 HW. pose proof HW as [H0 H]. unfold stream_return.
  destruct (o_waiters (get_op s1 oc)) as [|n] eqn:Ew.
  - split; [unfold maybe_start_cleanup; wu_go|]. left. unfold maybe_start_cleanup. assert (Hp : Pan (panic "Invalid waiters count on operation" s1)) by (eexists; left; reflexivity). inv_go fail t_pan.
  - set (s2 := upd_op oc (fun y => y <| o_waiters := n |>) s1).
    assert (H2 : WUb s0 oc s2) by (split; [exact H0|apply WU_upd_op; [left; reflexivity|exact H]]).
    split; [clearbody s2; unfold maybe_start_cleanup; wu_go|].
    unfold maybe_start_cleanup. destruct (op_alive s2 oc && Nat.eqb (o_waiters (get_op s2 oc)) 0 && negb (o_mayexist (get_op s2 oc))) eqn:Ec.
    + destruct (o_cleanup (get_op s2 oc)) eqn:Ecl.
      * left. assert (Hp : Pan (panic "Cleanup key is already in use" s2)) by (eexists; left; reflexivity). clearbody s2. inv_go fail t_pan.
      * right. intros x Hx _ _. change (s_ops (set_call c PDone (emit (ORet c code) ?X))) with (s_ops X) in Hx.
        apply andb_true_iff in Ec. destruct Ec as [Ec _]. apply andb_true_iff in Ec. destruct Ec as [Ea _].
        assert (Eg : get_op (upd_op oc (fun x0 => x0 <| o_cleanup := Some (s_now s2 + cf_nowaiters (s_cfg s2)) |>) s2) oc = x) by (unfold get_op; rewrite Hx; reflexivity).
        rewrite get_op_upd_op_same in Eg by exact Ea. subst x. cbn. unfold s2. rewrite upd_op_eq. reflexivity.
    + right. intros x Hx Hw Hm. change (s_ops (set_call c PDone (emit (ORet c code) s2))) with (s_ops s2) in Hx.
      assert (Eg : get_op s2 oc = x) by (unfold get_op; rewrite Hx; reflexivity). assert (Ea : op_alive s2 oc = true) by (unfold op_alive; rewrite Hx; reflexivity).
      rewrite Ea, Eg, Hw, Hm in Ec. discriminate.
Qed.

Lemma stream_return_now : forall c o code s, s_now (stream_return c o code s) = s_now s.
Proof.
  intros c o code s. assert (H0 : keeps_now (s_now s) s) by reflexivity. assert (H : keeps_now (s_now s) (stream_return c o code s)); [|exact H].
  unfold stream_return, maybe_start_cleanup. inv_go fail t_know.
Qed.

(* the operation whose waiter count the event may lower *)
Definition ret_op (e : event) (p0 : pc) (dflt : nat) : nat :=
  match e with
  | EEnter _ _ => match p0 with PStreamCancelled o | PStreamReturn o _ => o | _ => dflt end
  | _ => dflt
  end.

Lemma WUb_get_next_task : forall s0 oc c w b pr s, WUb s0 oc s -> WUb s0 oc (get_next_task c w b pr s).
Proof. intros. unfold get_next_task, sync_loop, assign_next_queued_task, sync_return_exec, sync_return_idle, finish_sync. wu_go1. Qed.
Lemma WUb_get_current_or_next : forall s0 oc c w b pr s, WUb s0 oc s -> WUb s0 oc (get_current_or_next c w b pr s).
Proof.
  intros s0 oc c w b pr s H. unfold get_current_or_next. destruct (k_task (get_worker s w)) as [t|]; [|apply WUb_get_next_task; exact H].
  destruct (Nat.ltb _ _); [unfold sync_return_exec, finish_sync; wu_go1|]. apply WUb_get_next_task. wu_go1.
Qed.
Lemma WUb_sync_start : forall s0 oc c a s, WUb s0 oc s -> WUb s0 oc (sync_start c a s).
Proof.
  intros s0 oc c a s H. apply sync_start_closed; try exact H; intros;
    try (apply WUb_get_current_or_next; assumption); try (apply WUb_get_next_task; assumption); try (apply WUb_complete_task; assumption);
    unfold ret, add_scq, add_pq, sync_return_err, finish_sync; wu_go1.
Qed.
Lemma WUb_exec_start : forall s0 oc c a s, WUb s0 oc s -> WUb s0 oc (exec_start c a s).
Proof.
  intros s0 oc c a s H. unfold exec_start.
  destruct (aget dkey_eqb _ _) as [t0|] eqn:Ei.
  - cbv zeta. unfold new_operation, wait_execution_begin, stream_iter. wu_go1.
  - destruct (longest_prefix_pq s _ _) as [p|]; [|unfold ret; wu_go1].
    destruct (x_sel a) as [[[idx dur] timeout] l]. cbv zeta.
    match goal with |- context [get_or_create_invocation ?k ?ks ?s3] => set (s3' := s3); assert (H3 : WUb s0 oc s3') by (unfold s3'; destruct (x_dnc a); t_WU); clearbody s3' end.
    unfold new_operation, wait_execution_begin, stream_iter. wu_go1.
Qed.
Lemma WUb_terminate_fold : forall s0 oc p l s waits,
  WUb s0 oc s -> WUb s0 oc (fst (fold_left (fun (acc : state * list (nat * nat)) w =>
        let '(s, waits) := acc in
        if matches w p then
          let s := mark_terminating w s in
          match k_task (get_worker s w) with
          | Some tk => (s, waits ++ [(tk, t_gen (get_task s tk))])
          | None => (if k_wait (get_worker s w) then wake_up w s else s, waits)
          end
        else (s, waits)) l (s, waits))).
Proof. intros s0 oc p l s waits H. apply (fr_terminate_fold (WUb s0 oc)); try (intros; t_WU); try exact H. Qed.

Lemma WUb_step_core : forall s0 e s dflt, GWU s0 (ret_op e (get_call s (ev_call e)) dflt) s ->
  let oc := ret_op e (get_call s (ev_call e)) dflt in
  WUb s0 oc (step_core e s) /\
  (oc = dflt \/ exists t, rearmed oc (s_now (enter t s) + cf_nowaiters (s_cfg (enter t s))) (step_core e s) /\ e = EEnter (ev_call e) t /\
                         s_now (step_core e s) = s_now (enter t s)).
Proof.
  intros s0 e s dflt H oc.
  assert (He : forall t, WUb s0 oc (enter t s)) by (intro t; exact (proj2 (GWU_enter s0 oc t s H))).
  destruct e; unfold step_core; cbn [ret_op ev_call] in *; try (split; [|left; reflexivity]).
  - apply WUb_exec_start. apply He.
  - pose proof (He t) as B. set (s1 := enter t s) in *. clearbody s1. cbv zeta. unfold ret, wait_execution_begin, stream_iter. wu_go1.
  - apply WUb_sync_start. apply He.
  - pose proof (He t) as B. set (s1 := enter t s) in *. clearbody s1. unfold kill_lookup, ret. wu_go1.
  - pose proof (He t) as B. set (s1 := enter t s) in *. clearbody s1. cbv zeta. unfold ret. wu_go1.
  - pose proof (He t) as B. set (s1 := enter t s) in *. clearbody s1. cbv zeta. unfold ret, wake_up. wu_go1.
  - pose proof (He t) as B. set (s1 := enter t s) in *. clearbody s1. cbv zeta. unfold ret. wu_go1.
  - cbv zeta. pose proof (He t) as B. set (s1 := enter t s) in *. clearbody s1.
    match goal with |- WUb _ _ (match ?x with _ => _ end) => rewrite (surjective_pairing x) end. cbv beta iota.
    match goal with |- WUb _ _ (set_call _ _ (fst (fold_left ?g ?l ?a))) => assert (H2 : WUb s0 oc (fst (fold_left g l a))) by (apply WUb_terminate_fold; exact B) end.
    t_WU.
  - destruct (_ || _); [destruct H as [_ B]; unfold ret; wu_go1|]. cbv zeta. pose proof (He t) as B. set (s1 := enter t s) in *. clearbody s1.
    destruct (get_pq s1 k); unfold ret, add_pq; [wu_go1|].
    match goal with |- WUb _ _ (set_call _ _ (emit _ (fold_left ?g ?l ?a))) => assert (H2 : WUb s0 oc (fold_left g l a)) end.
    { apply fold_left_pres; [intros a0 sc Ha0; unfold add_scq; wu_go1|wu_go1]. }
    wu_go1.
  - pose proof (He t) as B. unfold ret. wu_go1.
  - (* EEnter *)
    cbv zeta. pose proof (He t) as B. pose proof (proj2 H) as B0. set (s1 := enter t s) in *.
    destruct (get_call s c) eqn:Ep; cbn [ret_op at_gate negb] in *;
      try (split; [|left; reflexivity]; clearbody s1; try (destruct (negb _)); try exact B; try exact B0;
           unfold stream_iter, kill_lookup, wait_execution_begin, stream_iter, ret, sync_loop, assign_next_queued_task, sync_return_exec, sync_return_err, sync_return_idle, finish_sync, maybe_dequeue, maybe_start_cleanup; wu_go1; fail).
    + destruct (stream_return_spec s0 c o cCANCELLED s1 B) as [A1 A2]. split; [exact A1|right; exists t; split; [exact A2|split; [reflexivity|apply stream_return_now]]].
    + destruct (stream_return_spec s0 c o code s1 B) as [A1 A2]. split; [exact A1|right; exists t; split; [exact A2|split; [reflexivity|apply stream_return_now]]].
  - cbv zeta. destruct (at_gate s (get_call s c)); [exact (proj2 H)|]. pose proof (He t) as B. pose proof (proj2 H) as B0. set (s1 := enter t s) in *. clearbody s1.
    destruct (get_call s c); unfold stream_iter, sync_return_exec, sync_return_idle, finish_sync, maybe_dequeue; wu_go1.
  - cbv zeta. destruct (at_gate s (get_call s c)); [exact (proj2 H)|]. destruct H as [_ B]. destruct (get_call s c); unfold ret; wu_go1.
Qed.
