(* C01, completeness layer: an uncompleted task (one with an action: t_dnc <> None) has operations. *)
From Coq Require Import Lia.
From VF Require Export Sched.ProofsFull6.
From VF Require Import Sched.ProofsLearner.
Open Scope Z_scope.

Definition TN (ext : list nat) (s : state) : Prop :=
  forall t, (t_resp (get_task s t) <> None -> t_dnc (get_task s t) = None) /\
            (~ In t ext -> t_dnc (get_task s t) <> None -> t_ops (get_task s t) <> []).
Definition TNP (ext : list nat) (s : state) : Prop := Pan s \/ TN ext s.

Lemma TN_frame : forall ext s s', s_tasks s' = s_tasks s -> TN ext s -> TN ext s'.
Proof. unfold TN. intros ext s s' E H t. rewrite (get_task_frame _ _ _ E). apply H. Qed.
Lemma TN_weaken : forall ext t s, TN ext s -> TN (t :: ext) s.
Proof. unfold TN. intros ext t s H t'. destruct (H t') as [A B]. split; [exact A|]. intros Hn. apply B. intro Hin. apply Hn. right. exact Hin. Qed.
Lemma TN_drop : forall ext t s, (t_dnc (get_task s t) <> None -> t_ops (get_task s t) <> []) -> TN (t :: ext) s -> TN ext s.
Proof.
  unfold TN. intros ext t s Hd H t'. destruct (H t') as [A B]. split; [exact A|]. intros Hn Hdn.
  destruct (Nat.eq_dec t' t) as [->|Hne]; [apply Hd; exact Hdn|]. apply B; [|exact Hdn]. intros [E|Hin]; [congruence|contradiction].
Qed.
Lemma TN_upd_task : forall ext s t f,
  (t_resp (f (get_task s t)) <> None -> t_dnc (f (get_task s t)) = None) ->
  (~ In t ext -> t_dnc (f (get_task s t)) <> None -> t_ops (f (get_task s t)) <> []) ->
  TN ext s -> TN ext (upd_task t f s).
Proof.
  unfold TN. intros ext s t f H1 H2 H t'. rewrite get_task_upd_task. destruct (Nat.eqb t' t) eqn:E; [|apply H].
  apply Nat.eqb_eq in E. subst t'. split; [exact H1|exact H2].
Qed.
Lemma TN_newtask : forall ext s x, t_resp x = None -> TN ext s ->
  TN (s_ntasks s :: ext) (s <| s_ntasks ::= S |> <| s_tasks ::= fun l => l ++ [(s_ntasks s, x)] |>).
Proof.
  unfold TN. intros ext s x Hx H t. rewrite get_task_newtask. specialize (H t). unfold get_task in H.
  destruct (aget Nat.eqb t (s_tasks s)).
  - destruct H as [A B]. split; [exact A|]. intros Hn. apply B. intro Hin. apply Hn. right. exact Hin.
  - destruct (Nat.eqb t (s_ntasks s)) eqn:E.
    + apply Nat.eqb_eq in E. split; [rewrite Hx; congruence|]. intros Hn. exfalso. apply Hn. left. auto.
    + split; cbn; congruence.
Qed.

Ltac t_TN :=
  lazymatch goal with
  | |- TN _ (upd_task ?t _ _) =>
    match goal with H : TN _ _ |- _ =>
      apply TN_upd_task; [ first [ exact (proj1 (H t)) | (cbn; intros; reflexivity) ]
                         | first [ exact (proj2 (H t))
                                 | (cbn; let Hn := fresh in let Hd := fresh in intros Hn Hd; exfalso; apply Hd; reflexivity)
                                 | (cbn; let Hn := fresh in let Hd := fresh in let E := fresh in intros Hn Hd E; apply app_eq_nil in E; destruct E; discriminate)
                                 | (let Hn := fresh in intros Hn; exfalso; apply Hn; in_L) ]
                         | assumption ] end
  | |- _ => (eapply TN_frame; [|eassumption]); frame_eq
  end.

Ltac t_TNP :=
  intros;
  match goal with H : TNP _ _ |- _ => let Hp := fresh "Hp" in let HT := fresh "HT" in destruct H as [Hp|HT] end;
  [left; t_pan | right; t_TN].
Ltac tnp_go0 := inv_go fail t_TNP.

Lemma TNP_weaken : forall ext t s, TNP ext s -> TNP (t :: ext) s.
Proof. intros ext t s [H|H]; [left; exact H|right; apply TN_weaken; exact H]. Qed.

(* creating a task and giving it its first operation *)
Lemma TNP_new_task_op : forall ext s x prio i m,
  t_resp x = None -> TNP ext s ->
  TNP ext (fst (new_operation (s_ntasks s) prio i m (s <| s_ntasks ::= S |> <| s_tasks ::= fun l => l ++ [(s_ntasks s, x)] |>))).
Proof.
  intros ext s x prio i m Hx [Hp|H]; [left; unfold new_operation; cbn [fst]; inv_go fail t_pan|right].
  unfold new_operation. cbn [fst]. set (bt := s_ntasks s).
  apply (TN_drop ext bt).
  - intros _. rewrite get_task_upd_task, Nat.eqb_refl. cbn. intro E. apply app_eq_nil in E. destruct E; discriminate.
  - apply TN_upd_task.
    + rewrite (get_task_frame (s <| s_ntasks ::= S |> <| s_tasks ::= fun l => l ++ [(bt, x)] |>)) by reflexivity.
      cbn. pose proof (TN_newtask ext s x Hx H bt) as [A _]. exact A.
    + intros Hn. exfalso. apply Hn. left. reflexivity.
    + eapply TN_frame; [|apply TN_newtask; [exact Hx|exact H]]. reflexivity.
Qed.

Lemma TNP_ct_prefix : forall ext t b s, TNP ext s -> TNP ext (ct_prefix t b s).
Proof. intros ext t b s H. unfold ct_prefix. tnp_go0. Qed.

Lemma TNP_ct_learner : forall ext t r b x p k s, TNP ext s -> TNP ext (fst (ct_learner t r b x p k s)).
Proof.
  intros ext t r b x p k s H. unfold ct_learner.
  destruct (t_learner x) as [l|]; [|cbn [fst]; tnp_go0].
  destruct (resp_success r).
  - cbv zeta. set (s1 := upd_task t _ (emit _ s)). assert (H1 : TNP ext s1) by (unfold s1; tnp_go0). clearbody s1. clear H.
    destruct (l_succ l) as [[[[bidx bdur] btimeout] bl]|]; [|exact H1].
    destruct (Nat.eqb (p_maxbg p) 0); [cbn [fst]; tnp_go0|].
    set (s2 := get_or_create_invocation _ _ s1). assert (H2 : TNP ext s2) by (unfold s2; tnp_go0). clearbody s2. clear H1.
    destruct (Nat.leb _ _); [cbn [fst]; tnp_go0|].
    cbv zeta. unfold new_operation. cbn [fst snd].
    match goal with |- TNP ext (schedule _ (upd_task _ _ (set s_ops _ (set s_nops S (set s_tasks (fun l0 => l0 ++ [(_, ?xx)]) _))))) =>
      pose proof (TNP_new_task_op ext s2 xx (p_bgprio p) (mkI (mkSK (sk_pk k) (nth bidx (p_scs p) 0%N)) [4294967295%N]) true eq_refl H2) as H3 end.
    unfold new_operation in H3. cbn [fst] in H3.
    match type of H3 with TNP ext ?e => set (s3 := e) in * end. clearbody s3. tnp_go0.
  - destruct b; cbv zeta; [destruct (l_fail l) as [[[d tm] nl]|]|]; cbn [fst]; tnp_go0.
Qed.

Lemma TNP_ct_tail : forall t r x p k s retry, TNP [] s -> TNP [] (ct_tail t r x p k s retry).
Proof.
  intros t r x p k s retry H. unfold ct_tail. destruct retry as [[d tm]|]; [|tnp_go0]. cbv zeta.
  set (lk := mkSK (sk_pk k) (largest_sc p)). set (old := t_ops (get_task s t)).
  destruct (goc_fold_frames lk old s) as [G1 _]. set (s6 := fold_left _ old s) in *.
  assert (H6 : TNP [] s6) by (unfold s6; tnp_go0).
  assert (Eold : old = t_ops (get_task s6 t)) by (unfold old; symmetry; f_equal; apply get_task_frame; exact G1).
  clearbody s6. clear H. clearbody old. subst old.
  set (s7 := upd_task t _ s6).
  assert (H7 : TNP [] s7).
  { destruct H6 as [Hp|HT]; [left; unfold s7; t_pan|right]. unfold s7. apply TN_upd_task; [exact (proj1 (HT t))| |exact HT].
    cbn. intros Hn Hd E. apply (proj2 (HT t) Hn Hd). destruct (t_ops (get_task s6 t)); [reflexivity|discriminate]. }
  clearbody s7. fold (retarget_fold lk (t_ops (get_task s6 t)) s7).
  assert (H8 : TNP [] (retarget_fold lk (t_ops (get_task s6 t)) s7)).
  { generalize (t_ops (get_task s6 t)). intro l. revert H7. generalize s7. induction l as [|[i o] l IH]; intros a Ha; cbn [retarget_fold fold_left]; [exact Ha|].
    apply IH. t_TNP. }
  set (s8 := retarget_fold _ _ s7) in *. clearbody s8. unfold report_non_final_stage_change. tnp_go0.
Qed.

Lemma TNP_complete_task : forall t r b s, TNP [] s -> TNP [] (complete_task t r b s).
Proof.
  intros t r b s H. rewrite complete_task_eq2. destruct (t_resp (get_task s t)); [exact H|]. cbv zeta.
  pose proof (TNP_ct_prefix [] t b s H) as H4. set (s4 := ct_prefix t b s) in *. clearbody s4.
  destruct (get_pq s4 _) as [p|]; [|t_TNP].
  pose proof (TNP_ct_learner [] t r b (get_task s t) p (task_scq s t) s4 H4) as H5.
  destruct (ct_learner t r b (get_task s t) p (task_scq s t) s4) as [s5 retry]. cbn [fst] in H5. apply TNP_ct_tail. exact H5.
Qed.

Lemma TNP_cancel_all_queued : forall i r s, TNP [] s -> TNP [] (cancel_all_queued i r s).
Proof. intros i r s H. rewrite cancel_all_queued_eq. apply cancel_go_closed; [|exact H]. intros. apply TNP_complete_task. assumption. Qed.

Ltac tnp_leaf :=
  idtac;
  lazymatch goal with
  | |- TNP _ (complete_task _ _ _ _) => apply TNP_complete_task
  | |- TNP _ (cancel_all_queued _ _ _) => apply TNP_cancel_all_queued
  end.
Ltac tnp_go := inv_go tnp_leaf t_TNP.

(* after the scheduler completed a task it has a response (so no action any more), unless it panicked *)
Lemma complete_task_post_dnc : forall t r s, resp_success r = false -> TNP [] s ->
  Pan (complete_task t r false s) \/ t_dnc (get_task (complete_task t r false s) t) = None.
Proof.
  intros t r s Hr H. rewrite complete_task_eq2. destruct (t_resp (get_task s t)) eqn:Er.
  { destruct H as [Hp|HT]; [left; exact Hp|right]. apply (proj1 (HT t)). congruence. }
  cbv zeta. set (s4 := ct_prefix t false s). destruct (get_pq s4 _) as [p|]; [|left; apply Pan_panic].
  right. unfold ct_learner. rewrite Hr.
  assert (Hfin : forall s5, t_dnc (get_task (ct_tail t r (get_task s t) p (task_scq s t) s5 None) t) = None).
  { intro s5. unfold ct_tail. cbv zeta.
    match goal with |- t_dnc (get_task (fold_left ?g ?l ?a) t) = None => assert (Hk : (fun st => t_dnc (get_task st t) = None) (fold_left g l a)); [|exact Hk] end.
    apply fold_left_pres.
    - intros a o Ha. destruct (o_mayexist (get_op a o)); [|exact Ha]. unfold maybe_start_cleanup.
      destruct (_ && _); [|rewrite (get_task_frame a) by (rewrite upd_op_eq; reflexivity); exact Ha].
      destruct (o_cleanup _); [rewrite (get_task_frame a) by (cbn; rewrite upd_op_eq; reflexivity); exact Ha|].
      rewrite (get_task_frame a); [exact Ha|]. rewrite upd_op_eq. cbn. rewrite upd_op_eq. reflexivity.
    - rewrite get_task_upd_task, Nat.eqb_refl. reflexivity. }
  destruct (t_learner (get_task s t)); apply Hfin.
Qed.

Lemma TNP_operation_remove : forall o s, op_alive s o = true -> G s -> TNP [] s -> TNP [] (operation_remove o s).
Proof.
  intros o s Ha HG H. destruct H as [Hp|HT]; [left; apply Pan_operation_remove; exact Hp|].
  pose proof (G_XS _ HG) as HXS. pose proof (XS_X _ _ HXS) as HX.
  set (t := o_task (get_op s o)).
  pose proof (XO1 _ _ HX o Ha (fun F => F)) as Hlisted. change (tsk s o) with t in Hlisted.
  unfold operation_remove. cbv zeta. fold t.
  match goal with |- TNP [] (upd_task t _ (set s_ops _ ?e)) => set (s' := e) end.
  (* the last two steps *)
  assert (Hpair : forall a, TN [] a -> (t_dnc (get_task a t) <> None -> filter (fun '(_, o') => negb (Nat.eqb o o')) (t_ops (get_task a t)) <> []) ->
             TN [] (upd_task t (fun y => y <| t_ops := filter (fun '(_, o') => negb (Nat.eqb o o')) (t_ops y) |>) (a <| s_ops := adel Nat.eqb o (s_ops a) |>))).
  { intros a Ta Hc. apply TN_upd_task; [exact (proj1 (Ta t))|intros _; exact Hc|eapply TN_frame; [|exact Ta]; reflexivity]. }
  unfold s'. clear s'.
  destruct (Nat.eqb (List.length (t_ops (get_task s t))) 1) eqn:El.
  - pose proof (TNP_complete_task t (mkResp cCANCELLED 0 0) false s (or_intror HT)) as H1.
    destruct (complete_task_post_dnc t (mkResp cCANCELLED 0 0) s eq_refl (or_intror HT)) as [Hp|Hd].
    + left. set (s1 := complete_task t (mkResp cCANCELLED 0 0) false s) in *. clearbody s1. inv_go fail t_pan.
    + set (s1 := complete_task t (mkResp cCANCELLED 0 0) false s) in *. clearbody s1.
      destruct H1 as [Hp|H1]; [left; inv_go fail t_pan|right]. apply Hpair; [exact H1|]. intro Hc. congruence.
  - right. unfold task_stage.
    assert (Hrem : filter (fun '(_, o') => negb (Nat.eqb o o')) (t_ops (get_task s t)) <> []).
    { pose proof (XS_XN _ _ HXS t) as Hndt.
      destruct (t_ops (get_task s t)) as [|[i1 o1] [|[i2 o2] l]] eqn:Eo; [destruct Hlisted|cbn in El; discriminate|].
      cbn in Hndt. inversion Hndt as [|? ? Hni _]; subst. cbn [filter].
      destruct (Nat.eqb o o1) eqn:E1; cbn [negb]; [|discriminate].
      destruct (Nat.eqb o o2) eqn:E2; cbn [negb]; [|discriminate].
      apply Nat.eqb_eq in E1. apply Nat.eqb_eq in E2. subst. exfalso. apply Hni. left. reflexivity. }
    match goal with |- TN [] (upd_task t _ (set s_ops _ ?e)) => set (s' := e) end.
    assert (Hs' : s_tasks s' = s_tasks s).
    { unfold s'. destruct (t_resp (get_task s t)); [destruct (t_worker (get_task s t)); reflexivity|].
      destruct (t_worker (get_task s t)) as [w|]; cbv iota.
      - assert (Hk : keeps_tasks (s_tasks s) (decrement_executing (o_inv (get_op s o)) w s)); [|exact Hk].
        assert (H0 : keeps_tasks (s_tasks s) s) by reflexivity. fr_go (keeps_tasks (s_tasks s)) t_tasks.
      - match goal with |- s_tasks (fst (fold_left ?g ?l ?a)) = _ => apply (fold_left_pres (fun acc => s_tasks (fst acc) = s_tasks s) g l) end.
        + intros [a go] j Hacc. cbn [fst] in *. destruct go; [|exact Hacc]. unfold remove_if_empty. destruct (_ && _); exact Hacc.
        + cbn [fst]. apply rq_reads. }
    clearbody s'. apply Hpair; [eapply TN_frame; [exact Hs'|exact HT]|]. rewrite (get_task_frame _ _ _ Hs'). intros _. exact Hrem.
Qed.

Lemma GTN_run_entry : forall e s, In e (cleanup_entries s) -> G s -> TNP [] s -> TNP [] (run_entry e s).
Proof.
  intros [z ce] s Hin HG H. unfold run_entry. cbn [fst snd]. destruct ce as [o|w|k].
  - apply TNP_operation_remove; [rewrite op_alive_upd_op; eapply cleanup_entry_op_alive; exact Hin|g_prim HG|tnp_go].
  - unfold remove_stale_worker, mark_terminating. tnp_go.
  - unfold scq_remove. tnp_go.
Qed.

Lemma GTN_enter : forall t s, G s -> TNP [] s -> G (enter t s) /\ TNP [] (enter t s).
Proof.
  intros t s HG H. unfold enter. destruct (s_now s <? t); [|auto]. cbv zeta.
  apply (cleanup_run_closed (fun a => G a /\ TNP [] a)).
  - intros s1 w [A B]. split; [g_prim A|tnp_go].
  - intros s1 e [A B] Hin. split; [apply G_run_entry; assumption|apply GTN_run_entry; assumption].
  - split; [g_prim HG|tnp_go].
Qed.

Ltac tnp_leaf2 :=
  first [ tnp_leaf
        | lazymatch goal with
          | |- TNP _ (enter ?t ?s) => match goal with HG : G s |- _ => apply (proj2 (GTN_enter t s HG ltac:(assumption))) end
          end ].

Lemma TNP_get_current_or_next : forall c w b pr s, TNP [] s -> TNP [] (get_current_or_next c w b pr s).
Proof. intros. unfold get_current_or_next. tnp_go. Qed.

Lemma TNP_sync_start : forall c a s, TNP [] s -> TNP [] (sync_start c a s).
Proof.
  intros c a s H. apply sync_start_closed; try exact H; intros;
    try (apply TNP_get_current_or_next; assumption); try (apply TNP_complete_task; assumption); unfold add_scq, add_pq; tnp_go.
Qed.

Lemma TNP_exec_start : forall c a s, TNP [] s -> TNP [] (exec_start c a s).
Proof.
  intros c a s H. unfold exec_start.
  destruct (aget dkey_eqb _ _) as [t0|].
  - cbv zeta. unfold new_operation. tnp_go.
  - destruct (longest_prefix_pq s _ _) as [p|]; [|unfold ret; tnp_go].
    destruct (x_sel a) as [[[idx dur] timeout] l]. cbv zeta.
    set (s1 := emit (OGhost GSelect) s). assert (H1 : TNP [] s1) by (unfold s1; tnp_go). clearbody s1. clear H.
    set (x := mkTask [] (x_instance a) (x_digest a) (Some (x_dnc a)) timeout (s_now s1) (drop_prefix (pk_prefix (p_key p)) (x_instance a)) None 0 dur (Some l) None 0).
    set (t := s_ntasks s1).
    (* the in-flight registration and the invocation commute with what TN reads: do them on the side *)
    pose proof (TNP_new_task_op [] s1 x (x_prio a) (mkI (mkSK (p_key p) (nth idx (p_scs p) 0%N)) (x_keys a)) false eq_refl H1) as H3.
    unfold new_operation in *. cbn [fst snd] in *.
    set (sN := s1 <| s_ntasks ::= S |> <| s_tasks ::= fun ts => ts ++ [(t, x)] |>) in *.
    set (s3 := if x_dnc a then sN else sN <| s_inflight ::= aset dkey_eqb (x_instance a, x_digest a) t |>).
    set (s4 := get_or_create_invocation (mkSK (p_key p) (nth idx (p_scs p) 0%N)) (x_keys a) s3).
    assert (E4 : s_tasks s4 = s_tasks sN /\ s_nops s4 = s_nops sN /\ s_out s4 = s_out sN).
    { unfold s4. destruct (goc_frames (mkSK (p_key p) (nth idx (p_scs p) 0%N)) (x_keys a) s3) as [A [_ C]].
      destruct (get_or_create_invocation_tasks (mkSK (p_key p) (nth idx (p_scs p) 0%N)) (x_keys a) s3) as [_ [B _]].
      rewrite A, B, C. unfold s3. destruct (x_dnc a); auto. }
    destruct E4 as [Et [En Eo]]. rewrite En.
    match goal with |- TNP [] (wait_execution_begin c ?o (schedule t ?e)) => set (s5 := e) end.
    assert (H5 : TNP [] s5).
    { destruct H3 as [Hp|HT]; [left|right].
      - destruct Hp as [what Hw]. exists what. unfold s5. cbn. rewrite Eo. exact Hw.
      - intro t'. unfold s5. rewrite get_task_upd_task.
        specialize (HT t'). rewrite get_task_upd_task in HT.
        rewrite (get_task_frame sN) by (cbn; exact Et). rewrite (get_task_frame sN) in HT by reflexivity.
        rewrite (get_task_frame sN (s4 <| s_nops ::= S |> <| s_ops ::= fun l0 => l0 ++ [(s_nops sN, mkOper t (x_prio a) (mkI (mkSK (p_key p) (nth idx (p_scs p) 0%N)) (x_keys a)) 0 false None)] |>) t') by (cbn; exact Et).
        rewrite (get_task_frame sN (sN <| s_nops ::= S |> <| s_ops ::= fun l0 => l0 ++ [(s_nops sN, mkOper t (x_prio a) (mkI (mkSK (p_key p) (nth idx (p_scs p) 0%N)) (x_keys a)) 0 false None)] |>) t') in HT by reflexivity.
        exact HT. }
    clearbody s5. unfold wait_execution_begin, stream_iter. tnp_go.
Qed.

Ltac tnp_leaf3 :=
  first [ tnp_leaf
        | lazymatch goal with
          | |- TNP _ (sync_start _ _ _) => apply TNP_sync_start
          | |- TNP _ (exec_start _ _ _) => apply TNP_exec_start
          | |- TNP _ (get_current_or_next _ _ _ _ _) => apply TNP_get_current_or_next
          end ].
Ltac tnp_go3 := inv_go tnp_leaf3 t_TNP.

Lemma TNP_step_core : forall e s, G s -> TNP [] s -> TNP [] (step_core e s).
Proof.
  intros e s HG H.
  assert (He : forall t, TNP [] (enter t s)) by (intro t; exact (proj2 (GTN_enter t s HG H))).
  destruct e; unfold step_core;
    try (match goal with tt : Z |- _ => specialize (He tt); set (s1 := enter tt s) in *; clearbody s1 end;
         cbv zeta; try (destruct (negb (at_gate s (get_call s c))); [exact H|]); try (destruct (at_gate s (get_call s c)); [exact H|]);
         try (destruct (get_call s c));
         unfold kill_lookup, ret, wake_up, mark_terminating, add_scq, add_pq, stream_iter, stream_return, wait_execution_begin, stream_iter, sync_loop, sync_return_exec, sync_return_err, sync_return_idle, finish_sync, maybe_dequeue;
         tnp_go3; fail).
  - (* ECancel *)
    cbv zeta. destruct (at_gate s (get_call s c)); [exact H|]. destruct (get_call s c); unfold ret; tnp_go3.
Qed.
