(* The monitor on the model's trace: where the responses of completed tasks come from (for e_stream).
   RC: the response of every completed task is one the scheduler makes itself (a stated cause from the allowed list)
   or one a worker supplied in a Synchronize event for the digest of the task. *)
From Coq Require Import Lia Permutation.
From VF Require Export Sched.ProofsMon7.
From VF Require Import Sched.Spec Sched.Corr Sched.ProofsObsLink Sched.ProofsObsC01 Sched.ProofsExec Sched.ProofsLearner Sched.ProofsRoute Sched.ProofsInflight.
Open Scope Z_scope.

(* ---- hypotheses on histories ------------------------------------------------------------------------------------------------------------------------------------ *)
(* worker-supplied responses carry a non-zero tag (the harness numbers them); operator kill codes are CANCELLED,
   RESOURCE_EXHAUSTED or ABORTED *)
Definition ev_resp_ok (e : event) : bool :=
  match e with
  | EStartSync _ a _ => match y_state a with WCompleted _ r => negb (r_tag r =? 0)%N | _ => true end
  | EStartKill _ _ code _ | EKillQueue _ _ code _ => existsb (N.eqb code) [cCANCELLED; 8%N; 10%N]
  | _ => true
  end.
Definition causes_ok (evs : list (event * list (nat * wref))) : Prop := forall eh, In eh evs -> ev_resp_ok (fst eh) = true.
Definition causes_okb (evs : list (event * list (nat * wref))) : bool := forallb (fun eh => ev_resp_ok (fst eh)) evs.
Lemma causes_okb_sound : forall evs, causes_okb evs = true -> causes_ok evs.
Proof. intros evs H eh Hin. unfold causes_okb in H. rewrite forallb_forall in H. exact (H eh Hin). Qed.
Lemma causes_ok_prefix : forall l1 l2, causes_ok (l1 ++ l2) -> causes_ok l1.
Proof. intros l1 l2 H eh Hin. apply H. apply in_or_app. left. exact Hin. Qed.

Definition kill_code_ok (code : N) : bool := existsb (N.eqb code) [cCANCELLED; 8%N; 10%N].

(* ---- the responses of completed tasks ---------------------------------------------------------------------------------------------------------------------- *)
Definition okrb (Sp : list (N * resp)) (dg : N) (r : resp) : bool :=
  if scheduler_made r then existsb (N.eqb (r_code r)) [cUNAVAILABLE; cCANCELLED; cINTERNAL; 8%N; 10%N; 0%N]
  else existsb (fun '(dg', r') => (dg' =? dg)%N && resp_eqb r r') Sp.
Definition RC (Sp : list (N * resp)) (s : state) : Prop :=
  forall t r, t_resp (get_task s t) = Some r -> okrb Sp (t_digest (get_task s t)) r = true.

Lemma RC_frame : forall Sp s s', s_tasks s' = s_tasks s -> RC Sp s -> RC Sp s'.
Proof. unfold RC. intros Sp s s' E H t. rewrite (get_task_frame _ _ _ E). apply H. Qed.
Lemma RC_upd_task_keep : forall Sp s t f, (forall x, t_resp (f x) = t_resp x /\ t_digest (f x) = t_digest x) -> RC Sp s -> RC Sp (upd_task t f s).
Proof.
  unfold RC. intros Sp s t f Hf H t' r. rewrite get_task_upd_task. destruct (Nat.eqb t' t) eqn:E; [|apply H].
  destruct (Hf (get_task s t)) as [-> ->]. apply H.
Qed.
Lemma RC_newtask : forall Sp s x, t_resp x = None -> RC Sp s -> RC Sp (s <| s_ntasks ::= S |> <| s_tasks ::= fun l => l ++ [(s_ntasks s, x)] |>).
Proof.
  unfold RC. intros Sp s x Hx H t r. rewrite get_task_newtask. specialize (H t r). unfold get_task in H.
  destruct (aget Nat.eqb t (s_tasks s)); [exact H|]. destruct (Nat.eqb t (s_ntasks s)); [rewrite Hx; discriminate|cbn; discriminate].
Qed.
Lemma RC_resp : forall Sp s t r, okrb Sp (t_digest (get_task s t)) r = true -> RC Sp s ->
  RC Sp (upd_task t (fun x => x <| t_resp := Some r |> <| t_dnc := None |>) s).
Proof.
  unfold RC. intros Sp s t r Hr H t' r'. rewrite get_task_upd_task. destruct (Nat.eqb t' t) eqn:E; [|apply H].
  cbn. intro Er. inversion Er; subst. exact Hr.
Qed.

Ltac t_RC :=
  intros;
  lazymatch goal with
  | |- RC _ (upd_task _ _ _) => apply RC_upd_task_keep; [intro; split; reflexivity | assumption]
  | |- RC _ (set s_tasks _ (set s_ntasks _ _)) => apply RC_newtask; [reflexivity | assumption]
  | |- _ => (eapply RC_frame; [|eassumption]); frame_eq
  end.
Ltac rc_go0 := inv_go fail t_RC.

(* the digest of a task that exists does not change *)
Definition KD (t : nat) (d : N) (s : state) : Prop := t_digest (get_task s t) = d.
Ltac t_kd := intros; unfold KD in *; first [ (erewrite get_task_frame; [eassumption | frame_eq])
        | (rewrite get_task_upd_task; let E := fresh "E" in destruct (Nat.eqb _ _) eqn:E; [apply Nat.eqb_eq in E; subst; cbn; assumption | assumption]) ].

Lemma KD_ct_prefix : forall t b s d, KD t d s -> KD t d (ct_prefix t b s).
Proof. intros t b s d H. unfold ct_prefix. fr_go (KD t d) t_kd. Qed.

Lemma KD_ct_learner : forall t r b x p k s d, (t < s_ntasks s)%nat -> KD t d s -> KD t d (fst (ct_learner t r b x p k s)).
Proof.
  intros t r b x p k s d Ht H. unfold ct_learner. destruct (t_learner x) as [l|]; [|cbn [fst]; t_kd].
  destruct (resp_success r).
  - cbv zeta. set (s1 := upd_task t _ (emit _ s)). assert (H1 : KD t d s1) by (unfold s1; inv_go fail t_kd).
    assert (Hn1 : s_ntasks s1 = s_ntasks s) by reflexivity. clearbody s1.
    destruct (l_succ l) as [[[[bidx bdur] btimeout] bl]|]; [|exact H1].
    destruct (Nat.eqb (p_maxbg p) 0); [cbn [fst]; t_kd|].
    set (s2 := get_or_create_invocation _ _ s1). assert (H2 : KD t d s2) by (unfold s2; fr_go (KD t d) t_kd).
    assert (Hn2 : s_ntasks s2 = s_ntasks s) by (unfold s2; rewrite (proj2 (proj2 (get_or_create_invocation_tasks _ _ s1))); exact Hn1). clearbody s2.
    destruct (Nat.leb _ _); [cbn [fst]; t_kd|]. cbv zeta.
    match goal with |- context [new_operation ?bt ?prio ?bi true ?sN] =>
      pose proof (bg_block_reads t s2 (mkTask [] (t_instance x) (t_digest x) (Some true) btimeout (t_qts x) (t_suffix x) None 0 bdur (Some bl) None 0) prio bi ltac:(lia)) as HK end.
    cbv zeta in HK.
    match goal with |- KD t d (fst (let '(s0, _) := ?no in _)) => destruct no as [s3 o3] eqn:Eno end. cbn [fst].
    (* bg_block_reads speaks about ops/learner/resp only; read the digest directly *)
    unfold new_operation in Eno. injection Eno as <- _. unfold KD in *.
    assert (Es : forall s0, t_digest (get_task (schedule (s_ntasks s2) s0) t) = t_digest (get_task s0 t)).
    { intro s0. assert (Hk : KD t (t_digest (get_task s0 t)) (schedule (s_ntasks s2) s0)); [|exact Hk]. assert (H0 : KD t (t_digest (get_task s0 t)) s0) by reflexivity. fr_go (KD t (t_digest (get_task s0 t))) t_kd. }
    rewrite Es, get_task_upd_task. destruct (Nat.eqb t (s_ntasks s2)) eqn:E; [apply Nat.eqb_eq in E; lia|].
    rewrite (get_task_frame (s2 <| s_ntasks ::= S |> <| s_tasks ::= fun l0 => l0 ++ [(s_ntasks s2, _)] |>)) by reflexivity. rewrite get_task_newtask.
    unfold get_task in H2. destruct (aget Nat.eqb t (s_tasks s2)); [exact H2|]. rewrite E. exact H2.
  - destruct b; cbv zeta; [destruct (l_fail l) as [[[dd tm] nl]|]|]; cbn [fst]; inv_go fail t_kd.
Qed.

Lemma RC_ct_tail : forall Sp t r x p k s retry, okrb Sp (t_digest (get_task s t)) r = true -> RC Sp s -> RC Sp (ct_tail t r x p k s retry).
Proof.
  intros Sp t r x p k s retry Hr H. unfold ct_tail. destruct retry as [[d tm]|].
  - unfold report_non_final_stage_change. rc_go0.
  - cbv zeta.
    set (s6 := match aget dkey_eqb (t_instance x, t_digest x) (s_inflight s) with Some t' => _ | None => s end).
    assert (H6 : RC Sp s6 /\ get_task s6 t = get_task s t).
    { unfold s6. destruct (aget dkey_eqb _ _); [|auto]. destruct (Nat.eqb t _); [|auto]. split; [t_RC|reflexivity]. }
    clearbody s6. destruct H6 as [H6 E6].
    set (s7 := upd_task t _ s6).
    assert (H7 : RC Sp s7) by (unfold s7; apply RC_resp; [rewrite E6; exact Hr|exact H6]).
    clearbody s7. unfold maybe_start_cleanup. rc_go0.
Qed.

Lemma RC_ct_learner : forall Sp t r b x p k s, RC Sp s -> RC Sp (fst (ct_learner t r b x p k s)).
Proof.
  intros Sp t r b x p k s H. unfold ct_learner. destruct (t_learner x) as [l|]; [|cbn [fst]; rc_go0].
  destruct (resp_success r).
  - cbv zeta. set (s1 := upd_task t _ (emit _ s)). assert (H1 : RC Sp s1) by (unfold s1; rc_go0). clearbody s1.
    destruct (l_succ l) as [[[[bidx bdur] btimeout] bl]|]; [|exact H1].
    destruct (Nat.eqb (p_maxbg p) 0); [cbn [fst]; rc_go0|].
    set (s2 := get_or_create_invocation _ _ s1). assert (H2 : RC Sp s2) by (unfold s2; rc_go0). clearbody s2.
    destruct (Nat.leb _ _); [cbn [fst]; rc_go0|]. cbv zeta.
    set (xb := mkTask [] (t_instance x) (t_digest x) (Some true) btimeout (t_qts x) (t_suffix x) None 0 bdur (Some bl) None 0).
    set (sN := s2 <| s_ntasks ::= S |> <| s_tasks ::= fun l0 => l0 ++ [(s_ntasks s2, xb)] |>).
    assert (HN : RC Sp sN) by (unfold sN; apply RC_newtask; [reflexivity|exact H2]). clearbody sN.
    unfold new_operation. cbn [fst].
    match goal with |- RC _ (schedule _ (upd_task ?bt ?f ?sO)) => assert (HO : RC Sp sO) by (eapply RC_frame; [|exact HN]; reflexivity); set (sO' := sO) in *; clearbody sO' end.
    rc_go0.
  - destruct b; cbv zeta; [destruct (l_fail l) as [[[d tm] nl]|]|]; cbn [fst]; rc_go0.
Qed.

Lemma RC_complete_task : forall Sp t r b s, (t < s_ntasks s)%nat -> okrb Sp (t_digest (get_task s t)) r = true -> RC Sp s -> RC Sp (complete_task t r b s).
Proof.
  intros Sp t r b s Ht Hr H. rewrite complete_task_eq2. destruct (t_resp (get_task s t)) eqn:Er; [exact H|]. cbv zeta.
  assert (H4 : RC Sp (ct_prefix t b s)) by (unfold ct_prefix; rc_go0).
  pose proof (KD_ct_prefix t b s _ eq_refl) as K4.
  assert (Hn4 : s_ntasks (ct_prefix t b s) = s_ntasks s).
  { assert (Hk : keeps_counts (s_ntasks s) (s_nops s) (ct_prefix t b s)); [|exact (proj1 Hk)].
    assert (H0 : keeps_counts (s_ntasks s) (s_nops s) s) by (split; reflexivity). unfold ct_prefix. fr_go (keeps_counts (s_ntasks s) (s_nops s)) t_counts. }
  set (s4 := ct_prefix t b s) in *. clearbody s4.
  destruct (get_pq s4 _) as [p|]; [|t_RC].
  pose proof (RC_ct_learner Sp t r b (get_task s t) p (task_scq s t) s4 H4) as H5.
  pose proof (KD_ct_learner t r b (get_task s t) p (task_scq s t) s4 _ ltac:(lia) K4) as K5.
  destruct (ct_learner t r b (get_task s t) p (task_scq s t) s4) as [s5 retry]. cbn [fst] in *. apply RC_ct_tail; [|exact H5].
  unfold KD in K5. rewrite K5. exact Hr.
Qed.

(* ---- the kill codes parked calls carry ----------------------------------------------------------------------------------------------------------------------- *)
Definition kpc_ok (p : pc) : Prop :=
  match p with PKillLookup _ code | PKillRecheck _ code => kill_code_ok code = true | _ => True end.
Definition KC (s : state) : Prop := forall c p, aget Nat.eqb c (s_calls s) = Some p -> kpc_ok p.

Lemma KC_frame : forall s s', s_calls s' = s_calls s -> KC s -> KC s'.
Proof. unfold KC. intros s s' ->. auto. Qed.
Lemma KC_setcall : forall s c p, kpc_ok p -> KC s -> KC (set_call c p s).
Proof.
  unfold KC, set_call. intros s c p Hp H c' p'. cbn. rewrite (aget_aset Nat.eqb nat_eqb_eq). destruct (Nat.eqb c' c); [intro E; inversion E; subst; exact Hp|apply H].
Qed.
Ltac t_KC :=
  intros;
  lazymatch goal with
  | |- KC (set_call _ _ _) => apply KC_setcall; [cbn; first [exact I | assumption] | assumption]
  | |- _ => (eapply KC_frame; [|eassumption]); first [frame_eq | (prim_unfold; prim_cases; reflexivity)]
  end.
Ltac kc_leaf :=
  idtac;
  lazymatch goal with
  | |- KC (enter _ ?s) => apply (KC_frame s); [apply calls_enter|]
  | |- KC (complete_task _ _ _ ?s) => apply (KC_frame s); [apply calls_complete_task|]
  | |- KC (cancel_all_queued _ _ ?s) => apply (KC_frame s); [apply calls_cancel_all_queued|]
  end.
Ltac kc_go1 := inv_go kc_leaf t_KC.

Lemma KC_get_next_task : forall c w b pr s, KC s -> KC (get_next_task c w b pr s).
Proof. intros. unfold get_next_task, sync_loop, assign_next_queued_task, sync_return_exec, sync_return_idle, finish_sync. kc_go1. Qed.
Lemma KC_get_current_or_next : forall c w b pr s, KC s -> KC (get_current_or_next c w b pr s).
Proof.
  intros c w b pr s H. unfold get_current_or_next. destruct (k_task (get_worker s w)) as [t|]; [|apply KC_get_next_task; exact H].
  destruct (Nat.ltb _ _); [unfold sync_return_exec, finish_sync; kc_go1|]. apply KC_get_next_task. kc_go1.
Qed.
Lemma KC_sync_start : forall c a s, KC s -> KC (sync_start c a s).
Proof.
  intros c a s H. apply sync_start_closed; try exact H; intros; try (apply KC_get_current_or_next; assumption); try (apply KC_get_next_task; assumption);
    unfold ret, add_scq, add_pq, sync_return_err, finish_sync; kc_go1.
Qed.

Lemma KC_terminate_fold : forall p l s waits,
  KC s -> KC (fst (fold_left (fun (acc : state * list (nat * nat)) w =>
        let '(s, waits) := acc in
        if matches w p then
          let s := mark_terminating w s in
          match k_task (get_worker s w) with
          | Some tk => (s, waits ++ [(tk, t_gen (get_task s tk))])
          | None => (if k_wait (get_worker s w) then wake_up w s else s, waits)
          end
        else (s, waits)) l (s, waits))).
Proof. intros p l s waits H. apply (fr_terminate_fold KC); try (intros; t_KC); try exact H. Qed.

Lemma KC_step_core : forall e s, ev_resp_ok e = true -> KC s -> KC (step_core e s).
Proof.
  intros e s He H. destruct e; unfold step_core; cbn [ev_resp_ok] in He.
  - unfold exec_start, new_operation, wait_execution_begin, stream_iter, ret. kc_go1.
  - cbv zeta. unfold ret. kc_go1.
  - apply KC_sync_start. kc_go1.
  - unfold kill_lookup, ret. kc_go1.
  - cbv zeta. unfold ret. kc_go1.
  - cbv zeta. unfold ret, wake_up. kc_go1.
  - cbv zeta. unfold ret. kc_go1.
  - cbv zeta. match goal with |- KC (match ?x with _ => _ end) => rewrite (surjective_pairing x) end. cbv beta iota.
    match goal with |- KC (set_call _ _ (fst (fold_left ?g ?l ?a))) => assert (H2 : KC (fst (fold_left g l a))) by (apply KC_terminate_fold; kc_go1) end.
    t_KC.
  - destruct (_ || _); [unfold ret; kc_go1|]. cbv zeta. destruct (get_pq (enter t s) k); unfold ret, add_pq; [kc_go1|].
    match goal with |- KC (set_call _ _ (emit _ (fold_left ?g ?l ?a))) => assert (H2 : KC (fold_left g l a)) end.
    { apply fold_left_pres; [intros a0 sc Ha0; unfold add_scq; kc_go1|kc_go1]. }
    kc_go1.
  - unfold ret. kc_go1.
  - cbv zeta. destruct (negb (at_gate s (get_call s c))); [exact H|].
    assert (Hp : kpc_ok (get_call s c)) by (unfold get_call; destruct (aget Nat.eqb c (s_calls s)) as [p|] eqn:E; [exact (H c p E)|exact I]).
    assert (H1 : KC (enter t s)) by kc_go1. set (s1 := enter t s) in *. clearbody s1.
    destruct (get_call s c); try exact H1; cbn [kpc_ok] in Hp;
      try (unfold stream_iter, stream_return, kill_lookup, wait_execution_begin, stream_iter, ret, sync_loop, assign_next_queued_task, sync_return_exec, sync_return_err, sync_return_idle, finish_sync, maybe_dequeue, maybe_start_cleanup; kc_go1; fail).
  - cbv zeta. destruct (at_gate s (get_call s c)); [exact H|]. assert (H1 : KC (enter t s)) by kc_go1. set (s1 := enter t s) in *. clearbody s1.
    destruct (get_call s c); unfold stream_iter, sync_return_exec, sync_return_idle, finish_sync, maybe_dequeue; kc_go1.
  - cbv zeta. destruct (at_gate s (get_call s c)); [exact H|]. destruct (get_call s c); unfold ret; kc_go1.
Qed.

Lemma KC_step : forall s eh, ev_resp_ok (fst eh) = true -> KC s -> KC (fst (step s eh)).
Proof.
  intros s eh He H. unfold step. cbn [fst].
  assert (H0 : KC (s <| s_hints := snd eh |> <| s_out := [] |>)) by (eapply KC_frame; [|exact H]; reflexivity).
  pose proof (KC_step_core (fst eh) _ He H0) as H1. set (s1 := step_core (fst eh) _) in *. clearbody s1.
  assert (H2 : KC (auto_returns s1)) by (apply (fr_auto_returns KC); try (intros; t_KC); try (intros; unfold ret; kc_go1); try exact H1).
  eapply KC_frame; [|exact H2]; reflexivity.
Qed.

Lemma KC_run : forall cfg t0 evs, causes_ok evs -> KC (fst (run (init cfg t0) evs)).
Proof.
  intros cfg t0 evs. induction evs as [|eh evs IH] using rev_ind; intro Hc; [intros c p Hp; unfold init in Hp; cbn in Hp; discriminate|].
  rewrite run_snoc_fst. apply KC_step; [apply Hc; apply in_or_app; right; left; reflexivity|]. apply IH. exact (causes_ok_prefix _ _ Hc).
Qed.

(* ---- RC along every function ---------------------------------------------------------------------------------------------------------------------------------- *)
Lemma okrb_sched : forall Sp dg code, existsb (N.eqb code) [cUNAVAILABLE; cCANCELLED; cINTERNAL; 8%N; 10%N; 0%N] = true -> okrb Sp dg (mkResp code 0 0) = true.
Proof. intros Sp dg code H. unfold okrb, scheduler_made. cbn [r_tag r_code]. rewrite N.eqb_refl. exact H. Qed.
Lemma okrb_kill : forall Sp dg code, kill_code_ok code = true -> okrb Sp dg (mkResp code 0 0) = true.
Proof.
  intros Sp dg code H. apply okrb_sched. unfold kill_code_ok in H. cbn [existsb] in *. rewrite !orb_true_iff in H.
  destruct H as [H|[H|[H|H]]]; try discriminate; apply N.eqb_eq in H; subst; reflexivity.
Qed.
Lemma resp_eqb_refl : forall r, resp_eqb r r = true.
Proof. intros [a b c]. unfold resp_eqb. cbn. rewrite !N.eqb_refl, Z.eqb_refl. reflexivity. Qed.
Lemma okrb_worker : forall Sp dg r, (r_tag r =? 0)%N = false -> In (dg, r) Sp -> okrb Sp dg r = true.
Proof.
  intros Sp dg r Ht Hin. unfold okrb, scheduler_made. rewrite Ht. apply existsb_exists. exists (dg, r). split; [exact Hin|]. rewrite N.eqb_refl, resp_eqb_refl. reflexivity.
Qed.

Definition WRC (Sp : list (N * resp)) (s : state) : Prop := W s /\ RC Sp s.
Ltac wrc_prim H := destruct H as [HWx HMx]; split; [match type of HWx with W ?s0 => apply (W_step1 s0); [exact HWx|let HWL := fresh "HWL" in intro HWL; w_go2] end|rc_go0].

Lemma WRC_complete_task : forall Sp t r b s, (t < s_ntasks s)%nat -> okrb Sp (t_digest (get_task s t)) r = true -> WRC Sp s -> WRC Sp (complete_task t r b s).
Proof.
  intros Sp t r b s Ht Hr [A B]. split; [apply (W_of_WL_step t s _ A Ht); apply WL_complete_task; left; reflexivity|apply RC_complete_task; assumption].
Qed.

Lemma WRC_cancel_all_queued : forall Sp i r s, (forall dg, okrb Sp dg r = true) -> WRC Sp s -> WRC Sp (cancel_all_queued i r s).
Proof.
  intros Sp i r s Hr H. rewrite cancel_all_queued_eq. apply cancel_go_closed; [|exact H].
  intros s1 d v o tl H1 Hin Hq. apply WRC_complete_task; [|apply Hr|exact H1]. exact (W_pick_qop _ _ _ _ _ (proj1 H1) Hin Hq).
Qed.

Lemma RC_operation_remove : forall Sp o s, W s -> op_alive s o = true -> RC Sp s -> RC Sp (operation_remove o s).
Proof.
  intros Sp o s HW Ha H. pose proof (W_pick_op _ _ HW Ha) as Hlt. unfold operation_remove. cbv zeta.
  match goal with |- RC _ (upd_task ?t _ (set s_ops _ ?e)) => assert (H1 : RC Sp e) end.
  { destruct (Nat.eqb _ 1); [apply RC_complete_task; [exact Hlt|apply okrb_sched; reflexivity|exact H]|].
    unfold task_stage. destruct (t_resp (get_task s (o_task (get_op s o)))); [destruct (t_worker (get_task s (o_task (get_op s o)))); exact H|].
    destruct (t_worker (get_task s (o_task (get_op s o)))) as [w|]; cbv iota; [rc_go0|].
    match goal with |- RC _ (fst (fold_left ?g ?l ?a)) => apply (fold_left_pres (fun acc => RC Sp (fst acc)) g l) end; [|cbn [fst]; rc_go0].
    intros [s1 go] j Hs1. cbn [fst] in *. destruct go; [rc_go0|exact Hs1]. }
  match goal with |- RC _ (upd_task ?t _ (set s_ops _ ?e)) => set (s1 := e) in * end. clearbody s1. rc_go0.
Qed.

Lemma WRC_run_entry : forall Sp e s, In e (cleanup_entries s) -> WRC Sp s -> WRC Sp (run_entry e s).
Proof.
  intros Sp e s Hin [HW H]. split; [apply (W_step1 s); [exact HW|apply WL_run_entry; exact Hin]|].
  destruct e as [z ce]. unfold run_entry. cbn [fst snd]. destruct ce as [o|w|k].
  - apply RC_operation_remove; [apply (W_step1 s); [exact HW|intro HWL; w_go2]|rewrite op_alive_upd_op; eapply cleanup_entry_op_alive; exact Hin|rc_go0].
  - unfold remove_stale_worker, mark_terminating. cbv zeta.
    set (s1 := upd_worker w (fun k => k <| k_term := true |>) (upd_worker w (fun k => k <| k_cleanup := None |>) s)).
    assert (H1 : WRC Sp s1) by (unfold s1; split; [apply (W_step1 s); [exact HW|intro HWL; w_go2]|rc_go0]). clearbody s1.
    set (s2 := match k_task (get_worker s1 w) with None => s1 | Some t => complete_task t (mkResp cUNAVAILABLE 0 0) false s1 end).
    assert (H2 : RC Sp s2).
    { unfold s2. destruct (k_task (get_worker s1 w)) as [t|] eqn:Ek; [|exact (proj2 H1)].
      apply RC_complete_task; [exact (W_pick_worker _ _ _ (proj1 H1) Ek)|apply okrb_sched; reflexivity|exact (proj2 H1)]. }
    clearbody s2. rc_go0.
  - unfold scq_remove. cbv zeta. set (s0 := upd_scq k (fun q => q <| q_cleanup := None |>) s).
    assert (H0 : WRC Sp s0) by (unfold s0; split; [apply (W_step1 s); [exact HW|intro HWL; w_go2]|rc_go0]). clearbody s0.
    pose proof (proj2 (WRC_cancel_all_queued Sp (mkI k []) (mkResp cUNAVAILABLE 0 0) s0 (fun dg => okrb_sched Sp dg cUNAVAILABLE eq_refl) H0)) as H1.
    set (s1 := cancel_all_queued _ _ s0) in *. clearbody s1. rc_go0.
Qed.

Lemma WRC_enter : forall Sp t s, WRC Sp s -> WRC Sp (enter t s).
Proof.
  intros Sp t s H. split; [apply (W_step1 s); [exact (proj1 H)|apply WL_enter]|]. unfold enter. destruct (s_now s <? t); [|exact (proj2 H)]. cbv zeta.
  assert (Hc : WRC Sp (cleanup_run (S (List.length (s_ops (s <| s_now := t |>)) + List.length (s_scqs (s <| s_now := t |>)) + List.length (flat_map (fun '(_, q) => q_workers q) (s_scqs (s <| s_now := t |>))))) (s <| s_now := t |>))); [|exact (proj2 Hc)].
  apply cleanup_run_closed; [intros s1 w H1; wrc_prim H1 | intros; apply WRC_run_entry; assumption | wrc_prim H].
Qed.

Lemma RC_get_next_task : forall Sp c w b pr s, RC Sp s -> RC Sp (get_next_task c w b pr s).
Proof. intros. unfold get_next_task, sync_loop, assign_next_queued_task, sync_return_exec, sync_return_idle, finish_sync. rc_go0. Qed.

Lemma WRC_get_current_or_next : forall Sp c w b pr s, WRC Sp s -> WRC Sp (get_current_or_next c w b pr s).
Proof.
  intros Sp c w b pr s [HW H]. split; [apply (W_step1 s); [exact HW|apply WL_get_current_or_next]|]. unfold get_current_or_next.
  destruct (k_task (get_worker s w)) as [t|] eqn:Ek; [|apply RC_get_next_task; exact H].
  destruct (Nat.ltb _ _); [unfold sync_return_exec, finish_sync; rc_go0|].
  apply RC_get_next_task. apply RC_complete_task; [exact (W_pick_worker _ _ _ HW Ek)|apply okrb_sched; reflexivity|exact H].
Qed.

(* sync_start, exposing the reported digest to the case "the worker completed its task" *)
Lemma sync_start_closed2 (P : state -> Prop) c a :
  (forall s code, P s -> P (ret c code s)) ->
  (forall s k, P s -> P (upd_scq k (fun q => q <| q_cleanup := None |>) s)) ->
  (forall s k b, P s -> P (add_scq k b s)) ->
  (forall s k l m b, P s -> P (add_pq k l m b s)) ->
  (forall s w, P s -> P (upd_worker w (fun k => k <| k_cleanup := None |>) s)) ->
  (forall s k w n, P s -> P (upd_scq k (fun q => q <| q_workers ::= fun l => l ++ [(w, mkWorker None None false (Some []) false (repeat 0 n))] |>) s)) ->
  (forall s i, P s -> P (upd_inv i (fun v => v <| v_idle ::= N.succ |>) s)) ->
  (forall s w code, P s -> P (sync_return_err c w code s)) ->
  (forall s w b pr, P s -> P (get_current_or_next c w b pr s)) ->
  (forall s w b pr, P s -> P (get_next_task c w b pr s)) ->
  (forall s w d z, P s -> P (finish_sync c w (emit (OSync c d z) s))) ->
  (forall s t d r, P s -> y_state a = WCompleted d r -> k_task (get_worker s (y_worker a)) = Some t -> t_digest (get_task s t) = d -> P (complete_task t r true s)) ->
  forall s, P s -> P (sync_start c a s).
Proof.
  intros Hret Hdis Hscq Hpq Hkdis Hnw Hidle Herr Hcur Hnext Hnone Hcomp s H.
  unfold sync_start. cbv zeta.
  match goal with |- P (match ?R with _ => _ end) => destruct R as [s1|code1] eqn:ER end; [|apply Hret; exact H].
  assert (H1 : P s1) by (sum_cases ER; injection ER as <-; auto).
  clear ER H. revert H1. generalize s1. clear s. intros s H.
  match goal with |- P (match ?R with _ => _ end) => destruct R as [s2|code2] eqn:ER end; [|apply Hret; exact H].
  assert (H2 : P s2) by (sum_cases ER; injection ER as <-; auto).
  clear ER H. revert H2. generalize s2. clear s. intros s H.
  destruct (y_state a) as [|d|d r|] eqn:Ey; auto.
  - destruct (running_correct s (y_worker a) d); auto.
  - destruct (running_correct s (y_worker a) d) eqn:Erc; auto.
    destruct (k_task (get_worker s (y_worker a))) as [t|] eqn:Ek; [|exact H]. apply Hnext. eapply Hcomp; [exact H|reflexivity|exact Ek|].
    unfold running_correct in Erc. rewrite Ek in Erc. apply N.eqb_eq. exact Erc.
Qed.

Lemma WRC_sync_start : forall Sp c a s,
  (forall d r, y_state a = WCompleted d r -> (r_tag r =? 0)%N = false /\ In (d, r) Sp) -> WRC Sp s -> WRC Sp (sync_start c a s).
Proof.
  intros Sp c a s Hy H. apply sync_start_closed2; try exact H.
  - intros s0 code H0. unfold ret. wrc_prim H0.
  - intros s0 k H0. wrc_prim H0.
  - intros s0 k b H0. unfold add_scq. wrc_prim H0.
  - intros s0 k l m b H0. unfold add_pq. wrc_prim H0.
  - intros s0 w H0. wrc_prim H0.
  - intros s0 k w n H0. wrc_prim H0.
  - intros s0 i H0. wrc_prim H0.
  - intros s0 w code H0. unfold sync_return_err, finish_sync. wrc_prim H0.
  - intros s0 w b pr H0. apply WRC_get_current_or_next. exact H0.
  - intros s0 w b pr [A B]. split; [apply (W_step1 s0); [exact A|apply WL_get_next_task]|apply RC_get_next_task; exact B].
  - intros s0 w d z H0. unfold finish_sync. wrc_prim H0.
  - intros s0 t d r H0 Ey Hk Hd. destruct (Hy d r Ey) as [Y1 Y2]. apply WRC_complete_task; [exact (W_pick_worker _ _ _ (proj1 H0) Hk)|rewrite Hd; apply okrb_worker; assumption|exact H0].
Qed.

Lemma RC_exec_start : forall Sp c a s, RC Sp s -> RC Sp (exec_start c a s).
Proof.
  intros Sp c a s H. unfold exec_start.
  destruct (aget dkey_eqb _ _) as [t0|] eqn:Ei.
  - cbv zeta. unfold wait_execution_begin, stream_iter. rc_go0.
  - destruct (longest_prefix_pq s _ _) as [p|]; [|unfold ret; rc_go0].
    destruct (x_sel a) as [[[idx dur] timeout] l]. cbv zeta.
    set (s1 := emit (OGhost GSelect) s).
    match goal with |- context [set s_tasks (fun ts => ts ++ [(?tt, ?xx)])] => set (x := xx); set (t := tt) end.
    set (sN := s1 <| s_ntasks ::= S |> <| s_tasks ::= fun ts => ts ++ [(t, x)] |>).
    assert (HN : RC Sp sN) by (unfold sN, t; apply RC_newtask; [reflexivity|unfold s1; rc_go0]).
    set (s3 := if x_dnc a then sN else sN <| s_inflight ::= aset dkey_eqb (x_instance a, x_digest a) t |>).
    assert (H3 : RC Sp s3) by (unfold s3; destruct (x_dnc a); [exact HN|eapply RC_frame; [|exact HN]; reflexivity]).
    clearbody s3. unfold wait_execution_begin, stream_iter. rc_go0.
Qed.

Lemma RC_terminate_fold : forall Sp p l s waits,
  RC Sp s -> RC Sp (fst (fold_left (fun (acc : state * list (nat * nat)) w =>
        let '(s, waits) := acc in
        if matches w p then
          let s := mark_terminating w s in
          match k_task (get_worker s w) with
          | Some tk => (s, waits ++ [(tk, t_gen (get_task s tk))])
          | None => (if k_wait (get_worker s w) then wake_up w s else s, waits)
          end
        else (s, waits)) l (s, waits))).
Proof. intros Sp p l s waits H. apply (fr_terminate_fold (RC Sp)); try (intros; t_RC); try exact H. Qed.

Definition ev_supplied (e : event) : list (N * resp) :=
  match e with EStartSync _ a _ => match y_state a with WCompleted d r => [(d, r)] | _ => [] end | _ => [] end.

Lemma RC_step_core : forall Sp e s, ev_resp_ok e = true -> incl (ev_supplied e) Sp -> KC s -> WRC Sp s -> RC Sp (step_core e s).
Proof.
  intros Sp e s Hev Hsp HK H.
  assert (He : forall t, WRC Sp (enter t s)) by (intro t; apply WRC_enter; exact H).
  destruct e; unfold step_core; cbn [ev_resp_ok ev_supplied] in *.
  - destruct (He t) as [_ B]. apply RC_exec_start. exact B.
  - destruct (He t) as [_ B]. set (s1 := enter t s) in *. clearbody s1. cbv zeta. unfold ret. rc_go0.
  - apply (WRC_sync_start Sp c a _); [|exact (He t)]. intros d r Ey. rewrite Ey in Hev, Hsp. split; [apply negb_true_iff; exact Hev|apply Hsp; left; reflexivity].
  - destruct (He t) as [_ B]. set (s1 := enter t s) in *. clearbody s1. unfold kill_lookup, ret. rc_go0.
  - destruct (He t) as [A B]. set (s1 := enter t s) in *. clearbody s1. cbv zeta.
    destruct (negb (scq_exists s1 k)); [unfold ret; rc_go0|]. destruct (negb _); [unfold ret; rc_go0|].
    pose proof (proj2 (WRC_cancel_all_queued Sp (mkI k []) (mkResp code 0 0) s1 (fun dg => okrb_kill Sp dg code Hev) (conj A B))) as Hc. set (s2 := cancel_all_queued _ _ s1) in *. clearbody s2. unfold ret. rc_go0.
  - destruct (He t) as [_ B]. set (s1 := enter t s) in *. clearbody s1. cbv zeta. unfold ret, wake_up. rc_go0.
  - destruct (He t) as [_ B]. set (s1 := enter t s) in *. clearbody s1. cbv zeta. unfold ret. rc_go0.
  - cbv zeta. destruct (He t) as [_ B]. set (s1 := enter t s) in *. clearbody s1.
    match goal with |- RC _ (match ?x with _ => _ end) => rewrite (surjective_pairing x) end. cbv beta iota.
    match goal with |- RC _ (set_call _ _ (fst (fold_left ?g ?l ?a))) => assert (H2 : RC Sp (fst (fold_left g l a))) by (apply RC_terminate_fold; exact B) end.
    t_RC.
  - destruct (_ || _); [destruct H as [_ B]; unfold ret; rc_go0|]. cbv zeta. destruct (He t) as [_ B]. set (s1 := enter t s) in *. clearbody s1.
    destruct (get_pq s1 k); unfold ret, add_pq; [rc_go0|].
    match goal with |- RC _ (set_call _ _ (emit _ (fold_left ?g ?l ?a))) => assert (H2 : RC Sp (fold_left g l a)) end.
    { apply fold_left_pres; [intros a0 sc Ha0; unfold add_scq; rc_go0|rc_go0]. }
    rc_go0.
  - destruct (He t) as [_ B]. unfold ret. rc_go0.
  - cbv zeta. destruct (negb (at_gate s (get_call s c))); [exact (proj2 H)|]. destruct (He t) as [A B].
    assert (Hp : kpc_ok (get_call s c)) by (unfold get_call; destruct (aget Nat.eqb c (s_calls s)) as [p|] eqn:E; [exact (HK c p E)|exact I]).
    set (s1 := enter t s) in *. clearbody s1.
    destruct (get_call s c); try exact B; cbn [kpc_ok] in Hp;
      try (unfold stream_iter, stream_return, kill_lookup, wait_execution_begin, stream_iter, ret, sync_loop, assign_next_queued_task, sync_return_exec, sync_return_err, sync_return_idle, finish_sync, maybe_dequeue, maybe_start_cleanup; rc_go0; fail).
    destruct (op_alive s1 name) eqn:Ea; [|rc_go0].
    pose proof (RC_complete_task Sp (o_task (get_op s1 name)) (mkResp code 0 0) false s1 (W_pick_op _ _ A Ea) (okrb_kill Sp _ code Hp) B) as Hc.
    set (s2 := complete_task _ _ false s1) in *. clearbody s2. unfold ret. rc_go0.
  - cbv zeta. destruct (at_gate s (get_call s c)); [exact (proj2 H)|]. destruct (He t) as [_ B]. pose proof (proj2 H) as B0. set (s1 := enter t s) in *. clearbody s1.
    destruct (get_call s c); unfold stream_iter, sync_return_exec, sync_return_idle, finish_sync, maybe_dequeue; rc_go0.
  - cbv zeta. destruct (at_gate s (get_call s c)); [exact (proj2 H)|]. destruct H as [_ B]. destruct (get_call s c); unfold ret; rc_go0.
Qed.

Lemma RC_weaken : forall Sp Sp' s, incl Sp Sp' -> RC Sp s -> RC Sp' s.
Proof.
  intros Sp Sp' s Hi H t r Hr. specialize (H t r Hr). unfold okrb in *. destruct (scheduler_made r); [exact H|].
  apply existsb_exists in H. destruct H as [x [Hx Hb]]. apply existsb_exists. exists x. split; [apply Hi; exact Hx|exact Hb].
Qed.

Lemma RC_step : forall Sp s eh, ev_resp_ok (fst eh) = true -> KC s -> W s -> RC Sp s -> RC (ev_supplied (fst eh) ++ Sp) (fst (step s eh)).
Proof.
  intros Sp s eh Hev HK HW H. unfold step. cbn [fst].
  set (s0 := s <| s_hints := snd eh |> <| s_out := [] |>). set (Sp' := ev_supplied (fst eh) ++ Sp).
  assert (HW0 : W s0) by (apply (W_step1 s); [exact HW|intro HWL; eapply WL_frame; [..|exact HWL]; reflexivity]).
  assert (H0 : RC Sp' s0) by (eapply RC_frame; [|apply (RC_weaken Sp Sp'); [intros x Hx; apply in_or_app; right; exact Hx|exact H]]; reflexivity).
  assert (HK0 : KC s0) by (eapply KC_frame; [|exact HK]; reflexivity).
  pose proof (RC_step_core Sp' (fst eh) s0 Hev (fun x Hx => in_or_app _ _ x (or_introl Hx)) HK0 (conj HW0 H0)) as H1. set (s1 := step_core (fst eh) s0) in *. clearbody s1.
  assert (H2 : RC Sp' (auto_returns s1)) by (apply (fr_auto_returns (RC Sp')); try (intros; t_RC); try (intros; unfold ret; rc_go0); try exact H1).
  eapply RC_frame; [|exact H2]; reflexivity.
Qed.
