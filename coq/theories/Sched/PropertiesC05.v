(* C05 — the property theorems about the scheduler model, and nothing else. *)
From VF Require Import Sched.Proofs.
Open Scope Z_scope.

(* The platform queue chosen for a request is registered, has the request's
   platform, its instance name prefix is a prefix of the request's instance
   name, and no registered queue with that platform has a longer matching
   prefix. *)
Theorem longest_prefix_pq_sound : forall s plat inst p,
  longest_prefix_pq s plat inst = Some p ->
  In p (s_pqs s) /\ pk_plat (p_key p) = plat /\ is_prefix (pk_prefix (p_key p)) inst = true /\
  forall q, In q (s_pqs s) -> pk_plat (p_key q) = plat -> is_prefix (pk_prefix (p_key q)) inst = true ->
    (List.length (pk_prefix (p_key q)) <= List.length (pk_prefix (p_key p)))%nat.
Proof. exact longest_prefix_pq_sound. Qed.
Print Assumptions longest_prefix_pq_sound.

(* No queue is chosen only if no registered queue matches. *)
Theorem longest_prefix_pq_none : forall s plat inst,
  longest_prefix_pq s plat inst = None ->
  forall q, In q (s_pqs s) -> pk_plat (p_key q) = plat -> is_prefix (pk_prefix (p_key q)) inst = false.
Proof. exact longest_prefix_pq_none. Qed.
Print Assumptions longest_prefix_pq_none.
