(* C05 — the property theorems about the scheduler model, and nothing else. *)
From VF Require Import Sched.Proofs.
Open Scope Z_scope.

(* The platform queue chosen for a request is registered, has the request's
   platform, its instance name prefix is a prefix of the request's instance
   name, and no registered queue with that platform has a longer matching
   prefix. *)
Theorem longest_prefix_pq_sound : forall s plat inst p,
  longest_prefix_pq s plat inst = Some p ->
  In p (s_pqs s) /\ pk_plat (p_key p) = plat /\ is_prefix (pk_prefix (p_key p)) inst = true /\
  forall q, In q (s_pqs s) -> pk_plat (p_key q) = plat -> is_prefix (pk_prefix (p_key q)) inst = true ->
    (List.length (pk_prefix (p_key q)) <= List.length (pk_prefix (p_key p)))%nat.
Proof. exact longest_prefix_pq_sound. Qed.
Print Assumptions longest_prefix_pq_sound.

(* No queue is chosen only if no registered queue matches. *)
Theorem longest_prefix_pq_none : forall s plat inst,
  longest_prefix_pq s plat inst = None ->
  forall q, In q (s_pqs s) -> pk_plat (p_key q) = plat -> is_prefix (pk_prefix (p_key q)) inst = false.
Proof. exact longest_prefix_pq_none. Qed.
Print Assumptions longest_prefix_pq_none.

(* Two matching prefixes of equal length are the same prefix: the longest
   match is unique among queues with distinct keys. *)
Theorem is_prefix_same_length : forall a b l,
  is_prefix a l = true -> is_prefix b l = true -> List.length a = List.length b -> a = b.
Proof. exact is_prefix_same_length. Qed.
Print Assumptions is_prefix_same_length.

(* exec_routes_longest_prefix: an Execute request that is not deduplicated
   and for which a platform queue matches creates exactly one task (index
   s_ntasks) and one operation (index s_nops); the task sits in the size class
   queue (longest-prefix platform queue, size class selected by the
   selector), keeps the request's digest and carries the instance name minus
   the queue's prefix as suffix -- also after task.schedule handed it to a
   waiting worker or queued it.
   Hypothesis aget (s_ntasks s) (s_tasks s) = None: the next task index is
   unused (holds in every reachable state; invariant not yet proved here). *)
Theorem exec_routes_longest_prefix : forall c a s p,
  aget dkey_eqb (x_instance a, x_digest a) (s_inflight s) = None ->
  longest_prefix_pq s (x_plat a) (x_instance a) = Some p ->
  aget Nat.eqb (s_ntasks s) (s_tasks s) = None ->
  let k := mkSK (p_key p) (nth (fst (fst (fst (x_sel a)))) (p_scs p) 0%N) in
  let t := s_ntasks s in
  let s' := exec_start c a s in
  s_ntasks s' = S t /\ s_nops s' = S (s_nops s) /\
  (t_suffix (get_task s' t) = drop_prefix (pk_prefix (p_key p)) (x_instance a) /\
   t_instance (get_task s' t) = x_instance a /\ t_digest (get_task s' t) = x_digest a /\
   t_ops (get_task s' t) = [(mkI k (x_keys a), s_nops s)]) /\
  task_scq s' t = k.
Proof. exact exec_routes. Qed.
Print Assumptions exec_routes_longest_prefix.

(* the same for the Execute event of any reachable state, without hypothesis on indices *)
Theorem exec_routes_longest_prefix_reachable : forall cfg t0 evs tnow c a p,
  let s := enter tnow (fst (run (init cfg t0) evs)) in
  aget dkey_eqb (x_instance a, x_digest a) (s_inflight s) = None ->
  longest_prefix_pq s (x_plat a) (x_instance a) = Some p ->
  let k := mkSK (p_key p) (nth (fst (fst (fst (x_sel a)))) (p_scs p) 0%N) in
  let t := s_ntasks s in
  let s' := exec_start c a s in
  s_ntasks s' = S t /\ s_nops s' = S (s_nops s) /\
  (t_suffix (get_task s' t) = drop_prefix (pk_prefix (p_key p)) (x_instance a) /\
   t_instance (get_task s' t) = x_instance a /\ t_digest (get_task s' t) = x_digest a /\
   t_ops (get_task s' t) = [(mkI k (x_keys a), s_nops s)]) /\
  task_scq s' t = k.
Proof. exact exec_routes_reachable. Qed.
Print Assumptions exec_routes_longest_prefix_reachable.

(* and the suffix is what remains: prefix ++ suffix = instance name *)
Theorem drop_prefix_app : forall pre l, is_prefix pre l = true -> l = pre ++ drop_prefix pre l.
Proof. exact drop_prefix_app. Qed.
Print Assumptions drop_prefix_app.

(* reject_codes: no registered platform queue matches (and nothing to
   deduplicate against): the selector is told Abandoned, the call returns
   UNAVAILABLE while now < hard-failure time and FAILED_PRECONDITION
   afterwards, and nothing is created or queued. *)
Theorem reject_codes : forall c a s,
  aget dkey_eqb (x_instance a, x_digest a) (s_inflight s) = None ->
  longest_prefix_pq s (x_plat a) (x_instance a) = None ->
  let s' := exec_start c a s in
  s_out s' = ORet c (if s_now s <? s_hardfail s then cUNAVAILABLE else cFAILEDPRE) :: OGhost GSelAbandoned :: s_out s
  /\ s_tasks s' = s_tasks s /\ s_ntasks s' = s_ntasks s /\ s_ops s' = s_ops s /\ s_nops s' = s_nops s
  /\ s_inflight s' = s_inflight s /\ s_invs s' = s_invs s /\ s_scqs s' = s_scqs s /\ s_pqs s' = s_pqs s
  /\ get_call s' c = PDone.
Proof. exact reject_codes_exec. Qed.
Print Assumptions reject_codes.

(* the hard-failure time is start + PlatformQueueWithNoWorkersTimeout in every reachable state *)
Theorem hardfail_const : forall cfg t0 evs,
  let s := fst (run (init cfg t0) evs) in s_cfg s = cfg /\ s_hardfail s = t0 + cf_pq_noworkers cfg.
Proof. exact hardfail_const. Qed.
Print Assumptions hardfail_const.

(* A drained or terminating worker that asks for work is handed nothing: it
   parks on the undrain wake-up (blocking) or is told to be idle ... *)
Theorem drained_gets_nothing : forall c w blocking s,
  is_drained s w = true ->
  get_next_task c w blocking false s =
  if blocking then set_call c (PSyncDrained w (q_undrain (get_scq s (w_sk w)))) s else sync_return_idle c w s.
Proof. exact drained_gets_nothing. Qed.
Print Assumptions drained_gets_nothing.

(* ... undrain_eligible: once no drain matches (and it is not terminating) the same request searches the queue. *)
Theorem undrain_eligible : forall c w blocking s,
  is_drained s w = false ->
  get_next_task c w blocking false s =
  let '(s', ok) := assign_next_queued_task w s in
  if ok then sync_return_exec c w s' else if negb blocking then sync_return_idle c w s else sync_loop c w s.
Proof. exact undrained_searches. Qed.
Print Assumptions undrain_eligible.

Theorem is_drained_iff : forall s w,
  is_drained s w = true <->
  k_term (get_worker s w) = true \/ exists p, In p (q_drains (get_scq s (w_sk w))) /\ matches w p = true.
Proof. exact is_drained_iff. Qed.
Print Assumptions is_drained_iff.
