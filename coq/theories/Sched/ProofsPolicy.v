(* C04: the task a worker is handed is chosen by the documented policy. *)
From Coq Require Import Lia ZifyBool.
From VF Require Export Sched.ProofsBasic.
Open Scope Z_scope.

(* ---- the order on queued operations ---------------------------------------------------- *)
(* priority ascending, then expected duration descending, then queued time ascending *)
Lemma ops_less_irrefl : forall s a, ops_less s a a = false.
Proof. intros. unfold ops_less. rewrite !Z.ltb_irrefl. reflexivity. Qed.

Lemma ops_less_trans : forall s a b c, ops_less s a b = true -> ops_less s b c = true -> ops_less s a c = true.
Proof.
  intros s a b c. unfold ops_less.
  generalize (o_prio (get_op s a)) (o_prio (get_op s b)) (o_prio (get_op s c))
             (t_expdur (get_task s (o_task (get_op s a)))) (t_expdur (get_task s (o_task (get_op s b))))
             (t_expdur (get_task s (o_task (get_op s c))))
             (t_qts (get_task s (o_task (get_op s a)))) (t_qts (get_task s (o_task (get_op s b))))
             (t_qts (get_task s (o_task (get_op s c)))).
  intros pa pb pc da db dc qa qb qc.
  repeat match goal with |- context [?x <? ?y] => destruct (Z.ltb_spec x y) end; intros; try discriminate; try reflexivity; lia.
Qed.

Lemma ops_less_asym : forall s a b, ops_less s a b = true -> ops_less s b a = false.
Proof.
  intros s a b H. destruct (ops_less s b a) eqn:E; [|reflexivity].
  pose proof (ops_less_trans s a b a H E) as Ht. rewrite ops_less_irrefl in Ht. discriminate.
Qed.

(* a non-empty operation queue has a root, and the root is minimal *)
Lemma min_op_some : forall s l, l <> [] -> exists o, min_op s l = Some o.
Proof.
  intros s l Hne. unfold min_op.
  assert (H : minimal (ops_less s) l <> []).
  { apply minimal_nonempty; [intros; apply ops_less_irrefl | intros; eapply ops_less_trans; eassumption | exact Hne]. }
  destruct (minimal (ops_less s) l) as [|o tl]; [congruence|]. exists o. reflexivity.
Qed.

Lemma min_op_minimal : forall s l o, min_op s l = Some o ->
  In o l /\ forall o', In o' l -> ops_less s o' o = false.
Proof.
  intros s l o H. unfold min_op in H. destruct (minimal (ops_less s) l) as [|o1 tl] eqn:E; [discriminate|].
  inversion H; subst. apply minimal_sound. rewrite E. left. reflexivity.
Qed.

Lemma min_op_none : forall s l, min_op s l = None -> l = [].
Proof.
  intros s l H. destruct l as [|a l]; [reflexivity|].
  destruct (min_op_some s (a :: l)) as [o Ho]; [discriminate|]. congruence.
Qed.

(* ---- the policy, over sets of operations and children -------------------------------------- *)
(* the stickiness decision at one level: [best] is a minimal queued child *)
Definition descend (s : state) (i : iref) (lk : option path) (lim st : list Z) (r : nat) (best : iref)
  : iref * option path * list Z * list Z * nat :=
  match lk, lim with
  | Some (k0 :: krest), lim0 :: limrest =>
    let isticky := mkI (i_sk i) (i_path i ++ [k0]) in
    let best' := if is_queued s isticky && is_preferred s isticky best (s_now s <? hd 0 st + lim0)
                 then isticky else best in
    if iref_eqb best' isticky then (best', Some krest, limrest, tl st, S r) else (best', None, lim, st, r)
  | _, _ => (best, lk, lim, st, r)
  end.

Inductive policy (s : state) : iref -> option path -> list Z -> list Z -> nat -> nat * nat -> Prop :=
| pol_op : forall i lk lim st r o,
    In o (v_qops (get_inv s i)) ->
    (forall o', In o' (v_qops (get_inv s i)) -> ops_less s o' o = false) ->
    policy s i lk lim st r (o_task (get_op s o), r)
| pol_child : forall i lk lim st r best next lk' lim' st' r' res,
    v_qops (get_inv s i) = [] ->
    In best (queued_children s i) ->
    (forall c, In c (queued_children s i) -> qchildren_less s c best = false) ->
    descend s i lk lim st r best = (next, lk', lim', st', r') ->
    policy s next lk' lim' st' r' res ->
    policy s i lk lim st r res.

(* pick_minimal: every outcome of assignNextQueuedTask's search is reached by
   taking, at each invocation visited, a minimal queued operation if the
   invocation has queued operations, and otherwise descending into a minimal
   queued child, or into the worker's sticky child as [descend] allows *)
Lemma next_candidates_policy : forall fuel s i lk lim st r res,
  In res (next_candidates fuel s i lk lim st r) -> policy s i lk lim st r res.
Proof.
  induction fuel as [|fuel IH]; intros s i lk lim st r res Hin; [destruct Hin|].
  cbn [next_candidates] in Hin.
  destruct (min_op s (v_qops (get_inv s i))) as [o|] eqn:Em.
  - destruct Hin as [<-|[]]. apply min_op_minimal in Em. destruct Em. apply pol_op; assumption.
  - apply min_op_none in Em. apply in_flat_map in Hin. destruct Hin as [best [Hb Hres]].
    apply minimal_sound in Hb. destruct Hb as [Hb1 Hb2].
    destruct (descend s i lk lim st r best) as [[[[next lk'] lim'] st'] r'] eqn:Ed.
    eapply pol_child; [exact Em|exact Hb1|exact Hb2|exact Ed|].
    apply IH. unfold descend in Ed.
    destruct lk as [[|k0 krest]|]; destruct lim as [|lim0 limrest]; cbv zeta in Ed, Hres;
      try (inversion Ed; subst; exact Hres).
    match type of Ed with (if ?b then _ else _) = _ => destruct b end; inversion Ed; subst; exact Hres.
Qed.

Lemma pick_next_in : forall s w cands c, pick_next s w cands = Some c -> In c cands.
Proof.
  intros s w cands c H. unfold pick_next in H.
  assert (Hhd : forall c', hd_error cands = Some c' -> In c' cands).
  { destruct cands; cbn; intros c' Hc; inversion Hc; auto. }
  destruct (hinted_task s w) as [t|]; [|auto]. cbv zeta in H.
  set (same := filter (fun '(t', _) => Nat.eqb t t') cands) in *.
  assert (Hsame : forall c', In c' same -> In c' cands) by (intros c' Hc; unfold same in Hc; apply filter_In in Hc; tauto).
  destruct (match hinted_retained s w with Some r => find (fun '(_, r') => Nat.eqb r r') same | None => None end) as [c1|] eqn:Ep.
  - inversion H; subst. destruct (hinted_retained s w); [|discriminate]. apply find_some in Ep. apply Hsame. tauto.
  - destruct same as [|c2 tl] eqn:Es; [auto|]. inversion H; subst. apply Hsame. left. reflexivity.
Qed.

(* the worker is handed a task only through the policy, starting at the root
   of its size class queue with its last invocation and stickiness state *)
Lemma assign_next_in_policy : forall w s,
  snd (assign_next_queued_task w s) = true ->
  exists t retained,
    policy s (mkI (w_sk w) []) (k_last (get_worker s w)) (limits_of s (w_sk w)) (k_sticky (get_worker s w)) 0 (t, retained)
    /\ assign_next_queued_task w s = (assign_queued w t retained s, true).
Proof.
  intros w s H. unfold assign_next_queued_task in *. cbv zeta in *.
  destruct (pick_next s w _) as [[t r]|] eqn:Ep; [|discriminate].
  exists t, r. split; [|reflexivity]. apply pick_next_in in Ep. eapply next_candidates_policy. exact Ep.
Qed.

Lemma assign_next_none : forall w s,
  snd (assign_next_queued_task w s) = false -> assign_next_queued_task w s = (s, false).
Proof.
  intros w s H. unfold assign_next_queued_task in *. cbv zeta in *.
  destruct (pick_next s w _) as [[t r]|]; [discriminate|reflexivity].
Qed.

(* stickiness only breaks ties: the sticky child replaces a minimal child only
   when their scores are equal and the stickiness window is still open *)
Lemma sticky_only_breaks_ties : forall s i best isticky tie,
  (forall c, In c (queued_children s i) -> qchildren_less s c best = false) ->
  In isticky (queued_children s i) ->
  is_preferred s isticky best tie = true ->
  tie = true /\
  score_cmp (Z.of_nat (List.length (v_exec (get_inv s isticky))) + 1) (v_first (get_inv s isticky))
            (Z.of_nat (List.length (v_exec (get_inv s best))) + 1) (v_first (get_inv s best)) = Eq.
Proof.
  intros s i best isticky tie Hmin Hin Hp. specialize (Hmin _ Hin).
  unfold qchildren_less, is_preferred in *.
  destruct (score_cmp _ _ _ _); [auto|discriminate|discriminate].
Qed.

(* the descent keeps the minimal child unless the sticky child is queued and preferred *)
Lemma descend_cases : forall s i lk lim st r best next lk' lim' st' r',
  descend s i lk lim st r best = (next, lk', lim', st', r') ->
  (next = best /\ ((lk' = lk /\ lim' = lim /\ st' = st /\ r' = r) \/ (lk' = None /\ lim' = lim /\ st' = st /\ r' = r)
                   \/ (exists k0 krest lim0, lk = Some (k0 :: krest) /\ lim = lim0 :: lim' /\ lk' = Some krest /\ st' = tl st /\ r' = S r
                       /\ best = mkI (i_sk i) (i_path i ++ [k0]))))
  \/ (exists k0 krest lim0, lk = Some (k0 :: krest) /\ lim = lim0 :: lim' /\
        next = mkI (i_sk i) (i_path i ++ [k0]) /\ lk' = Some krest /\ st' = tl st /\ r' = S r /\
        is_queued s next = true /\ is_preferred s next best (s_now s <? hd 0 st + lim0) = true).
Proof.
  intros s i lk lim st r best next lk' lim' st' r' H. unfold descend in H.
  destruct lk as [[|k0 krest]|]; try (inversion H; subst; left; split; [reflexivity|left; auto]; fail).
  destruct lim as [|lim0 limrest]; [inversion H; subst; left; split; [reflexivity|left; auto]|].
  cbv zeta in H.
  destruct (is_queued s _ && is_preferred s _ best _) eqn:Eq.
  - rewrite (proj2 (iref_eqb_eq _ _) eq_refl) in H. inversion H; subst. right.
    apply andb_true_iff in Eq. destruct Eq. exists k0, krest, lim0. repeat split; auto.
  - destruct (iref_eqb best _) eqn:Eb; inversion H; subst; left; split; try reflexivity.
    + right. right. apply iref_eqb_eq in Eb. exists k0, krest, lim0. repeat split; auto.
    + right. left. auto.
Qed.

Lemma qchildren_less_irrefl : forall s i, qchildren_less s i i = false.
Proof.
  intros. unfold qchildren_less, is_preferred, score_cmp. rewrite !Z.ltb_irrefl, Z.compare_refl. reflexivity.
Qed.
