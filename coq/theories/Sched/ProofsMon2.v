(* The monitor on the model's trace: traces, prefixes, and the components that are predicates of the state. *)
From Coq Require Import Lia.
From VF Require Export Sched.ProofsMon1.
From VF Require Import Sched.Spec Sched.Corr Sched.ProofsObsC01 Sched.ProofsObsC03 Sched.ProofsTC6.
Open Scope Z_scope.

(* ---- the trace the model produces, and the monitor folded over a trace --------------------------------------------------------------------------------- *)
Fixpoint model_trace_from (s : state) (evs : list (event * list (nat * wref))) : list (event * list obs * dump) :=
  match evs with
  | [] => []
  | eh :: tl => (fst eh, snd (step s eh), observe (fst (step s eh))) :: model_trace_from (fst (step s eh)) tl
  end.
Definition model_trace (cfg : config) (t0 : Z) evs := model_trace_from (init cfg t0) evs.

Fixpoint trace_ok_from (cfg : config) (t0 : Z) (m : mon) (pre : dump) (tr : list (event * list obs * dump)) : bool :=
  match tr with
  | [] => true
  | (e, o, d) :: tl => String.eqb (snd (p_step cfg t0 m pre e o d)) "" && trace_ok_from cfg t0 (fst (p_step cfg t0 m pre e o d)) d tl
  end.
Definition trace_ok (cfg : config) (t0 : Z) (tr : list (event * list obs * dump)) : bool := trace_ok_from cfg t0 mon0 empty_dump tr.

(* the same fold, looking only at the components whose positions are listed *)
Fixpoint trace_sub_from (sel : list nat) (cfg : config) (t0 : Z) (m : mon) (pre : dump) (tr : list (event * list obs * dump)) : bool :=
  match tr with
  | [] => true
  | (e, o, d) :: tl =>
    forallb (fun i => String.eqb (nth i (p_components cfg t0 m pre e o d) ""%string) "") sel
    && trace_sub_from sel cfg t0 (pm_final cfg pre d e o m) d tl
  end.
Definition trace_sub (sel : list nat) (cfg : config) (t0 : Z) tr : bool := trace_sub_from sel cfg t0 mon0 empty_dump tr.

Lemma first_nonempty_empty_iff : forall l, first_nonempty l = ""%string <-> forall x, In x l -> x = ""%string.
Proof.
  induction l as [|x l IH]; cbn; [split; [intros _ y []|reflexivity]|].
  destruct x as [|a x'].
  - rewrite IH. split; [intros H y [<-|Hy]; auto|intros H y Hy; apply H; right; exact Hy].
  - split; [discriminate|]. intro H. specialize (H _ (or_introl eq_refl)). discriminate.
Qed.

Lemma trace_sub_all : forall cfg t0 tr m pre, trace_sub_from (seq 0 22) cfg t0 m pre tr = trace_ok_from cfg t0 m pre tr.
Proof.
  intros cfg t0. induction tr as [|[[e o] d] tl IH]; intros m pre; cbn [trace_sub_from trace_ok_from]; [reflexivity|].
  rewrite p_step_components. cbn [fst snd]. rewrite IH. f_equal.
  destruct (String.eqb (first_nonempty (p_components cfg t0 m pre e o d)) "") eqn:E.
  - apply String.eqb_eq in E. apply forallb_forall. intros i Hi. apply String.eqb_eq.
    rewrite first_nonempty_empty_iff in E. apply in_seq in Hi. unfold p_components in *. cbv zeta in *.
    do 22 (destruct i as [|i]; [apply E; cbn; tauto|]). lia.
  - destruct (forallb _ (seq 0 22)) eqn:F; [|reflexivity]. exfalso. rewrite forallb_forall in F.
    assert (Hx : first_nonempty (p_components cfg t0 m pre e o d) = ""%string); [|rewrite Hx in E; discriminate].
    apply first_nonempty_empty_iff. intros x Hx. apply (In_nth _ _ ""%string) in Hx. destruct Hx as [n [Hn <-]].
    apply String.eqb_eq. apply F. apply in_seq. unfold p_components in Hn. cbn in Hn. lia.
Qed.

(* ---- runs and prefixes --------------------------------------------------------------------------------------------------------------------------------------- *)
Lemma run_app : forall l1 l2 s, run s (l1 ++ l2) = (fst (run (fst (run s l1)) l2), snd (run s l1) ++ snd (run (fst (run s l1)) l2)).
Proof.
  induction l1 as [|e l1 IH]; intros l2 s; cbn [app run fst snd]; [destruct (run s l2); reflexivity|].
  destruct (step s e) as [s1 o] eqn:Es. rewrite IH. destruct (run s1 l1) as [s2 os]. cbn [fst snd]. reflexivity.
Qed.

Lemma run_snoc_fst : forall l e s, fst (run s (l ++ [e])) = fst (step (fst (run s l)) e).
Proof. intros. rewrite run_app. cbn [fst run]. destruct (step (fst (run s l)) e). reflexivity. Qed.
Lemma run_snoc_snd : forall l e s, snd (run s (l ++ [e])) = snd (run s l) ++ [snd (step (fst (run s l)) e)].
Proof. intros. rewrite run_app. cbn [snd run]. destruct (step (fst (run s l)) e). reflexivity. Qed.

Lemma selectors_in_range_app : forall l1 l2 s,
  selectors_in_range s (l1 ++ l2) <-> selectors_in_range s l1 /\ selectors_in_range (fst (run s l1)) l2.
Proof.
  induction l1 as [|e l1 IH]; intros l2 s; cbn [app selectors_in_range run fst]; [tauto|].
  rewrite IH. destruct (step s e) as [s1 o]. cbn [fst]. destruct (run s1 l1). cbn [fst]. tauto.
Qed.

Lemma fresh_calls_app : forall l1 l2 U, fresh_calls U (l1 ++ l2) -> fresh_calls U l1.
Proof.
  induction l1 as [|[e h] l1 IH]; intros l2 U H; cbn [app fresh_calls] in *; [exact I|].
  destruct (is_start e); [destruct H as [A B]; split; [exact A|eapply IH; exact B]|eapply IH; exact H].
Qed.

Lemma panicked_app : forall os1 os2, panicked (os1 ++ os2) <-> panicked os1 \/ panicked os2.
Proof.
  unfold panicked. intros os1 os2. split.
  - intros [o [what [Ho Hp]]]. apply in_app_or in Ho. destruct Ho; [left|right]; exists o, what; auto.
  - intros [[o [what [Ho Hp]]]|[o [what [Ho Hp]]]]; exists o, what; split; auto; apply in_or_app; auto.
Qed.

Lemma no_phantom_of_selectors : forall evs s, selectors_in_range s evs -> no_phantom_sync evs.
Proof.
  induction evs as [|eh evs IH]; intros s H c a t h Hin; [destruct Hin|]. cbn [selectors_in_range] in H. destruct H as [Hev H].
  destruct Hin as [E|Hin]; [|eapply IH; eassumption]. subst eh. cbn in Hev. exact (proj1 Hev).
Qed.

(* ---- the components that are predicates of the state after the event, and the panic component ---------------------------------------------------- *)
Definition sel_state : list nat := [0; 1; 6; 7; 8; 17]%nat.

Lemma pc_panic_empty : forall o, (forall what, ~ In (OPanic what) o) -> pc_panic o = ""%string.
Proof.
  intros o H. unfold pc_panic. apply first_nonempty_all_empty. intros x Hx. apply in_map_iff in Hx. destruct Hx as [y [<- Hy]].
  destruct y; try reflexivity. exfalso. exact (H _ Hy).
Qed.

Lemma classic_panic : forall o : list obs, (exists what, In (OPanic what) o) \/ (forall what, ~ In (OPanic what) o).
Proof.
  induction o as [|x o IH]; [right; intros what []|]. destruct IH as [[what H]|H]; [left; exists what; right; exact H|].
  destruct x; try (right; intros what [E|Hin]; [discriminate|exact (H what Hin)]).
  left. eexists. left. reflexivity.
Qed.

Lemma state_components_from : forall cfg t0 evs pfx m pre,
  selectors_in_range (init cfg t0) (pfx ++ evs) -> fresh_calls [] (pfx ++ evs) -> bg_scripts_ok (pfx ++ evs) ->
  ~ panicked (snd (run (init cfg t0) pfx)) ->
  panicked (snd (run (fst (run (init cfg t0) pfx)) evs)) \/
  trace_sub_from sel_state cfg t0 m pre (model_trace_from (fst (run (init cfg t0) pfx)) evs) = true.
Proof.
  intros cfg t0. induction evs as [|eh evs IH]; intros pfx m pre Hsel Hfr Hbg Hnp; [right; reflexivity|].
  set (s := fst (run (init cfg t0) pfx)) in *. cbn [model_trace_from trace_sub_from].
  assert (Eapp : pfx ++ eh :: evs = (pfx ++ [eh]) ++ evs) by (rewrite <- app_assoc; reflexivity).
  assert (Es' : fst (run (init cfg t0) (pfx ++ [eh])) = fst (step s eh)) by apply run_snoc_fst.
  assert (Eo' : snd (run (init cfg t0) (pfx ++ [eh])) = snd (run (init cfg t0) pfx) ++ [snd (step s eh)]) by apply run_snoc_snd.
  (* either this event reports a panic, or the prefix extended by it is panic-free *)
  destruct (classic_panic (snd (step s eh))) as [[what Hp]|Hno].
  { left. cbn [run]. destruct (step s eh) as [s1 o]. destruct (run s1 evs) as [s2 os]. cbn [snd] in *. exists o, what. split; [left; reflexivity|exact Hp]. }
  assert (Hnp' : ~ panicked (snd (run (init cfg t0) (pfx ++ [eh])))).
  { rewrite Eo'. intro Hp. apply panicked_app in Hp. destruct Hp as [Hp|[o [what [[<-|[]] Hw]]]]; [exact (Hnp Hp)|exact (Hno what Hw)]. }
  rewrite Eapp in Hsel, Hfr, Hbg.
  pose proof (proj1 (proj1 (selectors_in_range_app _ _ _) Hsel)) as Hsel1. pose proof (fresh_calls_app _ _ _ Hfr) as Hfr1.
  assert (Hbg1 : bg_scripts_ok (pfx ++ [eh])) by (intros e He; apply Hbg; apply in_or_app; left; exact He).
  destruct (IH (pfx ++ [eh]) (pm_final cfg pre (observe (fst (step s eh))) (fst eh) (snd (step s eh)) m) (observe (fst (step s eh))) Hsel Hfr Hbg Hnp') as [Hp|Hrest].
  { left. rewrite Es' in Hp. cbn [run]. destruct (step s eh) as [s1 o]. cbn [fst] in Hp. destruct (run s1 evs) as [s2 os]. cbn [snd] in *.
    destruct Hp as [o' [what [Ho Hw]]]. exists o', what. split; [right; exact Ho|exact Hw]. }
  right. rewrite Es' in Hrest. rewrite Hrest, andb_true_r. rewrite <- Es'.
  unfold sel_state, p_components. cbv zeta. cbn [forallb nth]. rewrite !andb_true_iff. rewrite !String.eqb_eq.
  split; [apply pc_panic_empty; exact Hno|].
  split; [destruct (sched_exclusive cfg t0 (pfx ++ [eh]) Hsel1) as [Hp|H]; [contradiction|exact H]|].
  split; [apply c03_dump_ok; exact (no_phantom_of_selectors _ _ Hsel1)|].
  split; [apply c03_waited_ok; exact Hfr1|].
  split; [destruct (no_queued_while_parked cfg t0 (pfx ++ [eh]) Hsel1) as [Hp|H]; [contradiction|exact H]|].
  split; [destruct (background_bounded cfg t0 (pfx ++ [eh]) Hsel1 Hbg1) as [Hp|H]; [contradiction|exact H]|reflexivity].
Qed.

Lemma trace_sub_app : forall sel1 sel2 cfg t0 tr m pre,
  trace_sub_from (sel1 ++ sel2) cfg t0 m pre tr = trace_sub_from sel1 cfg t0 m pre tr && trace_sub_from sel2 cfg t0 m pre tr.
Proof.
  intros sel1 sel2 cfg t0. induction tr as [|[[e o] d] tl IH]; intros m pre; cbn [trace_sub_from]; [reflexivity|].
  rewrite forallb_app, IH.
  destruct (forallb _ sel1); destruct (forallb _ sel2); destruct (trace_sub_from sel1 _ _ _ _ _); destruct (trace_sub_from sel2 _ _ _ _ _); reflexivity.
Qed.

Theorem monitor_state_components_on_model : forall cfg t0 evs,
  selectors_in_range (init cfg t0) evs -> fresh_calls [] evs -> bg_scripts_ok evs ->
  panicked (snd (run (init cfg t0) evs)) \/ trace_sub sel_state cfg t0 (model_trace cfg t0 evs) = true.
Proof.
  intros cfg t0 evs Hsel Hfr Hbg. apply (state_components_from cfg t0 evs [] mon0 empty_dump); try assumption.
  intros [o [what [[] _]]].
Qed.

(* ---- the general scheme: an invariant of (events so far, monitor state, previous dump) ------------------------------------------------------ *)
Definition good (cfg : config) (t0 : Z) (l : list (event * list (nat * wref))) : Prop :=
  selectors_in_range (init cfg t0) l /\ fresh_calls [] l /\ bg_scripts_ok l.

Lemma good_prefix : forall cfg t0 l1 l2, good cfg t0 (l1 ++ l2) -> good cfg t0 l1.
Proof.
  intros cfg t0 l1 l2 [A [B C]]. split; [exact (proj1 (proj1 (selectors_in_range_app _ _ _) A))|]. split; [exact (fresh_calls_app _ _ _ B)|].
  intros e He. apply C. apply in_or_app. left. exact He.
Qed.

Lemma trace_sub_generic : forall cfg t0 sel (Inv : list (event * list (nat * wref)) -> mon -> dump -> Prop),
  (forall pfx eh m pre, good cfg t0 (pfx ++ [eh]) -> ~ panicked (snd (run (init cfg t0) (pfx ++ [eh]))) -> Inv pfx m pre ->
     let s := fst (run (init cfg t0) pfx) in let o := snd (step s eh) in let d := observe (fst (step s eh)) in
     forallb (fun i => String.eqb (nth i (p_components cfg t0 m pre (fst eh) o d) ""%string) "") sel = true /\
     Inv (pfx ++ [eh]) (pm_final cfg pre d (fst eh) o m) d) ->
  forall evs pfx m pre, good cfg t0 (pfx ++ evs) -> ~ panicked (snd (run (init cfg t0) pfx)) -> Inv pfx m pre ->
  panicked (snd (run (fst (run (init cfg t0) pfx)) evs)) \/
  trace_sub_from sel cfg t0 m pre (model_trace_from (fst (run (init cfg t0) pfx)) evs) = true.
Proof.
  intros cfg t0 sel Inv Hstep. induction evs as [|eh evs IH]; intros pfx m pre Hg Hnp HI; [right; reflexivity|].
  set (s := fst (run (init cfg t0) pfx)) in *. cbn [model_trace_from trace_sub_from].
  assert (Eapp : pfx ++ eh :: evs = (pfx ++ [eh]) ++ evs) by (rewrite <- app_assoc; reflexivity).
  assert (Es' : fst (run (init cfg t0) (pfx ++ [eh])) = fst (step s eh)) by apply run_snoc_fst.
  assert (Eo' : snd (run (init cfg t0) (pfx ++ [eh])) = snd (run (init cfg t0) pfx) ++ [snd (step s eh)]) by apply run_snoc_snd.
  destruct (classic_panic (snd (step s eh))) as [[what Hp]|Hno].
  { left. cbn [run]. destruct (step s eh) as [s1 o]. destruct (run s1 evs) as [s2 os]. cbn [snd] in *. exists o, what. split; [left; reflexivity|exact Hp]. }
  assert (Hnp' : ~ panicked (snd (run (init cfg t0) (pfx ++ [eh])))).
  { rewrite Eo'. intro Hp. apply panicked_app in Hp. destruct Hp as [Hp|[o [what [[<-|[]] Hw]]]]; [exact (Hnp Hp)|exact (Hno what Hw)]. }
  rewrite Eapp in Hg. pose proof (good_prefix _ _ _ _ Hg) as Hg1.
  destruct (Hstep pfx eh m pre Hg1 Hnp' HI) as [Hc HI']. cbv zeta in Hc, HI'. fold s in Hc, HI'.
  destruct (IH (pfx ++ [eh]) _ _ Hg Hnp' HI') as [Hp|Hrest].
  { left. rewrite Es' in Hp. cbn [run]. destruct (step s eh) as [s1 o]. cbn [fst] in Hp. destruct (run s1 evs) as [s2 os]. cbn [snd] in *.
    destruct Hp as [o' [what [Ho Hw]]]. exists o', what. split; [right; exact Ho|exact Hw]. }
  right. rewrite Es' in Hrest. rewrite Hrest, andb_true_r. exact Hc.
Qed.
