(* The monitor on the model's trace: e_cancel.  A task that an event completes with the scheduler's own CANCELLED
   ("no waiting clients") loses the operation whose time-out fired, which was its last one: no operation that was
   registered before the event and is still registered afterwards belongs to such a task -- unless the event is an
   operator's kill. *)
From Coq Require Import Lia Permutation.
From VF Require Export Sched.ProofsMonW.
From VF Require Import Sched.Spec Sched.Corr Sched.ProofsObsLink Sched.ProofsObsC01 Sched.ProofsExec Sched.ProofsLearner Sched.ProofsRoute Sched.ProofsInflight Sched.ProofsStreams.
Open Scope Z_scope.

Definition okc (r : resp) : Prop := scheduler_made r && (r_code r =? cCANCELLED)%N = false.

Section Cancel.
  Variable s0 : state.    (* the state the event starts in *)

  (* operations registered at the start keep their task while they stay registered *)
  Definition OTk (s : state) : Prop :=
    forall o x0, aget Nat.eqb o (s_ops s0) = Some x0 -> op_alive s o = true -> o_task (get_op s o) = o_task x0.
  (* [ex]: the operation whose removal is under way *)
  Definition CCx (ex : option nat) (s : state) : Prop :=
    (s_nops s0 <= s_nops s)%nat /\ OTk s /\
    forall o x0, Some o <> ex -> aget Nat.eqb o (s_ops s0) = Some x0 -> t_resp (get_task s0 (o_task x0)) = None -> op_alive s o = true ->
      forall r, t_resp (get_task s (o_task x0)) = Some r -> okc r.

  Lemma CCx_frame : forall ex s s', s_ops s' = s_ops s -> s_nops s' = s_nops s -> s_tasks s' = s_tasks s -> CCx ex s -> CCx ex s'.
  Proof.
    unfold CCx, OTk. intros ex s s' E1 E2 E3 [A [B C]]. rewrite E2. split; [exact A|]. split.
    - intros o x0 Ho Ha. rewrite (op_alive_frame s s' o E1) in Ha. rewrite (get_op_frame s s' o E1). apply (B o x0); assumption.
    - intros o x0 Hne Ho Hr Ha r. rewrite (op_alive_frame s s' o E1) in Ha. rewrite (get_task_frame s s' (o_task x0) E3). apply (C o x0); assumption.
  Qed.

  Lemma CCx_upd_task : forall ex s t f, (forall x, t_resp (f x) = t_resp x) -> CCx ex s -> CCx ex (upd_task t f s).
  Proof.
    unfold CCx, OTk. intros ex s t f Hf [A [B C]]. rewrite upd_task_eq. split; [exact A|]. split; [exact B|].
    intros o x0 Hne Ho Hr Ha r. rewrite <- upd_task_eq. rewrite get_task_upd_task. destruct (Nat.eqb (o_task x0) t) eqn:E; [|apply (C o x0); assumption].
    apply Nat.eqb_eq in E. subst t. rewrite Hf. apply (C o x0); assumption.
  Qed.

  Lemma CCx_resp : forall ex s t r, okc r -> CCx ex s -> CCx ex (upd_task t (fun x => x <| t_resp := Some r |> <| t_dnc := None |>) s).
  Proof.
    unfold CCx, OTk. intros ex s t r Hr [A [B C]]. rewrite upd_task_eq. split; [exact A|]. split; [exact B|].
    intros o x0 Hne Ho Hr0 Ha r'. rewrite <- upd_task_eq. rewrite get_task_upd_task. destruct (Nat.eqb (o_task x0) t) eqn:E; [|apply (C o x0); assumption].
    cbn. intro Er. inversion Er; subst. exact Hr.
  Qed.

  Lemma CCx_upd_op : forall ex s o f, (forall x, o_task (f x) = o_task x) -> CCx ex s -> CCx ex (upd_op o f s).
  Proof.
    unfold CCx, OTk. intros ex s o f Hf [A [B C]]. split; [rewrite upd_op_eq; exact A|]. split.
    - intros o' x0 Ho Ha. rewrite op_alive_upd_op in Ha. destruct (Nat.eq_dec o' o) as [->|Hne].
      + rewrite get_op_upd_op_same by exact Ha. rewrite Hf. apply (B o x0); assumption.
      + rewrite get_op_upd_op_other by exact Hne. apply (B o' x0); assumption.
    - intros o' x0 Hne Ho Hr Ha r. rewrite op_alive_upd_op in Ha. rewrite (get_task_frame s) by (rewrite upd_op_eq; reflexivity). apply (C o' x0); assumption.
  Qed.

  Lemma CCx_weaken : forall ex s, CCx None s -> CCx ex s.
  Proof. unfold CCx. intros ex s [A [B C]]. split; [exact A|split; [exact B|]]. intros o x0 _. apply C. discriminate. Qed.

  Lemma CCx_delop : forall s o, NoDup (map fst (s_ops s)) -> CCx (Some o) s -> CCx None (s <| s_ops := adel Nat.eqb o (s_ops s) |>).
  Proof.
    unfold CCx, OTk. intros s o Hnd [A [B C]]. split; [exact A|].
    assert (Hal : forall o', op_alive (s <| s_ops := adel Nat.eqb o (s_ops s) |>) o' = true ->
              o' <> o /\ op_alive s o' = true /\ get_op (s <| s_ops := adel Nat.eqb o (s_ops s) |>) o' = get_op s o').
    { intros o' Ha. unfold op_alive, get_op in *. cbn in *. destruct (Nat.eq_dec o' o) as [->|Hne].
      - rewrite (aget_adel_same Nat.eqb nat_eqb_eq) in Ha by exact Hnd. discriminate.
      - rewrite (aget_adel_other Nat.eqb nat_eqb_eq) in * by exact Hne. auto. }
    split.
    - intros o' x0 Ho Ha. destruct (Hal o' Ha) as [_ [Ha' ->]]. apply (B o' x0); assumption.
    - intros o' x0 _ Ho Hr Ha r. destruct (Hal o' Ha) as [Hne [Ha' _]]. rewrite (get_task_frame s) by reflexivity. apply (C o' x0); [congruence|assumption..].
  Qed.

  Hypothesis Hops0 : forall o x0, aget Nat.eqb o (s_ops s0) = Some x0 -> (o < s_nops s0)%nat.

  Lemma CCx_newop : forall ex s x, CCx ex s -> CCx ex (s <| s_nops ::= S |> <| s_ops ::= fun l => l ++ [(s_nops s, x)] |>).
  Proof.
    unfold CCx, OTk. intros ex s x [A [B C]]. split; [cbn; lia|].
    assert (Hal : forall o' x0, aget Nat.eqb o' (s_ops s0) = Some x0 -> op_alive (s <| s_nops ::= S |> <| s_ops ::= fun l => l ++ [(s_nops s, x)] |>) o' = true ->
              op_alive s o' = true /\ get_op (s <| s_nops ::= S |> <| s_ops ::= fun l => l ++ [(s_nops s, x)] |>) o' = get_op s o').
    { intros o' x0 Ho Ha. rewrite op_alive_newop in Ha. rewrite get_op_newop. pose proof (Hops0 _ _ Ho) as Hlt.
      assert (E : Nat.eqb o' (s_nops s) = false) by (apply Nat.eqb_neq; lia). rewrite E, orb_false_r in Ha. split; [exact Ha|].
      unfold op_alive in Ha. unfold get_op. destruct (aget Nat.eqb o' (s_ops s)); [reflexivity|discriminate]. }
    split.
    - intros o' x0 Ho Ha. destruct (Hal o' x0 Ho Ha) as [Ha' ->]. apply (B o' x0); assumption.
    - intros o' x0 Hne Ho Hr Ha r. destruct (Hal o' x0 Ho Ha) as [Ha' _]. rewrite (get_task_frame s) by reflexivity. apply (C o' x0); assumption.
  Qed.

  Hypothesis Hts0 : forall o x0, aget Nat.eqb o (s_ops s0) = Some x0 -> aget Nat.eqb (o_task x0) (s_tasks s0) <> None.

  (* tasks are never forgotten *)
  Definition TPk (s : state) : Prop := forall t, aget Nat.eqb t (s_tasks s0) <> None -> aget Nat.eqb t (s_tasks s) <> None.

  Lemma CCx_newtask : forall ex s n x, TPk s -> CCx ex s -> CCx ex (s <| s_ntasks ::= S |> <| s_tasks ::= fun l => l ++ [(n, x)] |>).
  Proof.
    unfold CCx, OTk. intros ex s n x HT [A [B C]]. split; [exact A|]. split; [exact B|].
    intros o x0 Hne Ho Hr Ha r. assert (E : get_task (s <| s_ntasks ::= S |> <| s_tasks ::= fun l => l ++ [(n, x)] |>) (o_task x0) = get_task s (o_task x0)).
    { unfold get_task. cbn. rewrite (aget_app Nat.eqb). pose proof (HT _ (Hts0 _ _ Ho)) as Hp. destruct (aget Nat.eqb (o_task x0) (s_tasks s)); [reflexivity|congruence]. }
    rewrite E. apply (C o x0); assumption.
  Qed.
End Cancel.

(* ---- the bundle and its primitive steps ------------------------------------------------------------------------------------------------------------------------ *)
Definition ops0_ok (s0 : state) : Prop :=
  (forall o x0, aget Nat.eqb o (s_ops s0) = Some x0 -> (o < s_nops s0)%nat) /\
  (forall o x0, aget Nat.eqb o (s_ops s0) = Some x0 -> aget Nat.eqb (o_task x0) (s_tasks s0) <> None).
Definition CCb (s0 : state) (ex : option nat) (s : state) : Prop := ops0_ok s0 /\ TPk s0 s /\ CCx s0 ex s.

Lemma TPk_frame : forall s0 s s', s_tasks s' = s_tasks s -> TPk s0 s -> TPk s0 s'.
Proof. unfold TPk. intros s0 s s' ->. auto. Qed.
Lemma TPk_upd_task : forall s0 s t f, TPk s0 s -> TPk s0 (upd_task t f s).
Proof.
  unfold TPk, upd_task. intros s0 s t f H t' Ht'. cbn. rewrite (aget_aset Nat.eqb nat_eqb_eq). destruct (Nat.eqb t' t); [discriminate|apply H; exact Ht'].
Qed.
Lemma TPk_newtask : forall s0 s n x, TPk s0 s -> TPk s0 (s <| s_ntasks ::= S |> <| s_tasks ::= fun l => l ++ [(n, x)] |>).
Proof. unfold TPk. intros s0 s n x H t Ht. cbn. rewrite (aget_app Nat.eqb). specialize (H t Ht). destruct (aget Nat.eqb t (s_tasks s)); [discriminate|congruence]. Qed.

Lemma CCb_frame : forall s0 ex s s', s_ops s' = s_ops s -> s_nops s' = s_nops s -> s_tasks s' = s_tasks s -> CCb s0 ex s -> CCb s0 ex s'.
Proof. intros s0 ex s s' E1 E2 E3 [A [B C]]. split; [exact A|split; [eapply TPk_frame; eassumption|eapply CCx_frame; eassumption]]. Qed.
Lemma CCb_upd_task : forall s0 ex s t f, (forall x, t_resp (f x) = t_resp x) -> CCb s0 ex s -> CCb s0 ex (upd_task t f s).
Proof. intros s0 ex s t f Hf [A [B C]]. split; [exact A|split; [apply TPk_upd_task; exact B|apply CCx_upd_task; assumption]]. Qed.
Lemma CCb_resp : forall s0 ex s t r, okc r -> CCb s0 ex s -> CCb s0 ex (upd_task t (fun x => x <| t_resp := Some r |> <| t_dnc := None |>) s).
Proof. intros s0 ex s t r Hr [A [B C]]. split; [exact A|split; [apply TPk_upd_task; exact B|apply CCx_resp; assumption]]. Qed.
Lemma CCb_upd_op : forall s0 ex s o f, (forall x, o_task (f x) = o_task x) -> CCb s0 ex s -> CCb s0 ex (upd_op o f s).
Proof. intros s0 ex s o f Hf [A [B C]]. split; [exact A|split; [eapply TPk_frame; [|exact B]; rewrite upd_op_eq; reflexivity|apply CCx_upd_op; assumption]]. Qed.
Lemma CCb_newop : forall s0 ex s x, CCb s0 ex s -> CCb s0 ex (s <| s_nops ::= S |> <| s_ops ::= fun l => l ++ [(s_nops s, x)] |>).
Proof. intros s0 ex s x [A [B C]]. split; [exact A|split; [eapply TPk_frame; [|exact B]; reflexivity|apply CCx_newop; [exact (proj1 A)|exact C]]]. Qed.
Lemma CCb_newtask : forall s0 ex s n x, CCb s0 ex s -> CCb s0 ex (s <| s_ntasks ::= S |> <| s_tasks ::= fun l => l ++ [(n, x)] |>).
Proof. intros s0 ex s n x [A [B C]]. split; [exact A|split; [apply TPk_newtask; exact B|apply CCx_newtask; [exact (proj2 A)|exact B|exact C]]]. Qed.
Lemma CCb_delop : forall s0 s o, NoDup (map fst (s_ops s)) -> CCb s0 (Some o) s -> CCb s0 None (s <| s_ops := adel Nat.eqb o (s_ops s) |>).
Proof. intros s0 s o Hnd [A [B C]]. split; [exact A|split; [eapply TPk_frame; [|exact B]; reflexivity|apply CCx_delop; assumption]]. Qed.
Lemma CCb_weaken : forall s0 ex s, CCb s0 None s -> CCb s0 ex s.
Proof. intros s0 ex s [A [B C]]. split; [exact A|split; [exact B|apply CCx_weaken; exact C]]. Qed.

Ltac t_CC :=
  intros;
  lazymatch goal with
  | |- CCb _ _ (upd_task _ _ _) => apply CCb_upd_task; [intro; reflexivity | assumption]
  | |- CCb _ _ (upd_op _ _ _) => apply CCb_upd_op; [intro; reflexivity | assumption]
  | |- CCb _ _ (set s_tasks _ (set s_ntasks _ _)) => apply CCb_newtask; assumption
  | |- CCb _ _ (set s_ops (fun _ => _ ++ _) (set s_nops _ _)) => apply CCb_newop; assumption
  | |- _ => (eapply CCb_frame; [ | | |eassumption]); frame_eq
  end.
Ltac cc_go0 := inv_go fail t_CC.

Lemma CCb_ct_prefix : forall s0 ex t b s, CCb s0 ex s -> CCb s0 ex (ct_prefix t b s).
Proof. intros. unfold ct_prefix. cc_go0. Qed.

Lemma CCb_ct_learner : forall s0 ex t r b x p k s, CCb s0 ex s -> CCb s0 ex (fst (ct_learner t r b x p k s)).
Proof.
  intros s0 ex t r b x p k s H. unfold ct_learner. destruct (t_learner x) as [l|]; [|cbn [fst]; cc_go0].
  destruct (resp_success r).
  - cbv zeta. set (s1 := upd_task t _ (emit _ s)). assert (H1 : CCb s0 ex s1) by (unfold s1; cc_go0). clearbody s1.
    destruct (l_succ l) as [[[[bidx bdur] btimeout] bl]|]; [|exact H1].
    destruct (Nat.eqb (p_maxbg p) 0); [cbn [fst]; cc_go0|].
    set (s2 := get_or_create_invocation _ _ s1). assert (H2 : CCb s0 ex s2) by (unfold s2; cc_go0). clearbody s2.
    destruct (Nat.leb _ _); [cbn [fst]; cc_go0|]. cbv zeta.
    set (xb := mkTask [] (t_instance x) (t_digest x) (Some true) btimeout (t_qts x) (t_suffix x) None 0 bdur (Some bl) None 0).
    set (sN := s2 <| s_ntasks ::= S |> <| s_tasks ::= fun l0 => l0 ++ [(s_ntasks s2, xb)] |>).
    assert (HN : CCb s0 ex sN) by (unfold sN; apply CCb_newtask; exact H2). clearbody sN.
    unfold new_operation. cbn [fst].
    match goal with |- CCb _ _ (schedule _ (upd_task ?bt ?f (set s_ops _ (set s_nops _ sN)))) => assert (HO : CCb s0 ex (sN <| s_nops ::= S |> <| s_ops ::= fun l0 => l0 ++ [(s_nops sN, mkOper bt (p_bgprio p) (mkI (mkSK (sk_pk k) (nth bidx (p_scs p) 0%N)) [4294967295%N]) 0 true None)] |>)) by (apply CCb_newop; exact HN) end.
    match goal with |- CCb _ _ (schedule _ (upd_task ?bt ?f ?sO)) => set (sO' := sO) in *; clearbody sO' end.
    cc_go0.
  - destruct b; cbv zeta; [destruct (l_fail l) as [[[d tm] nl]|]|]; cbn [fst]; cc_go0.
Qed.

Lemma CCb_ct_tail : forall s0 ex t r x p k s retry, okc r -> CCb s0 ex s -> CCb s0 ex (ct_tail t r x p k s retry).
Proof.
  intros s0 ex t r x p k s retry Hr H. unfold ct_tail. destruct retry as [[d tm]|].
  - unfold report_non_final_stage_change. cc_go0.
  - cbv zeta.
    set (s6 := match aget dkey_eqb (t_instance x, t_digest x) (s_inflight s) with Some t' => _ | None => s end).
    assert (H6 : CCb s0 ex s6) by (unfold s6; destruct (aget dkey_eqb _ _); [|exact H]; destruct (Nat.eqb t _); [t_CC|exact H]).
    clearbody s6. set (s7 := upd_task t _ s6). assert (H7 : CCb s0 ex s7) by (unfold s7; apply CCb_resp; assumption).
    clearbody s7. unfold maybe_start_cleanup. cc_go0.
Qed.

Lemma CCb_complete_task : forall s0 ex t r b s, okc r -> CCb s0 ex s -> CCb s0 ex (complete_task t r b s).
Proof.
  intros s0 ex t r b s Hr H. rewrite complete_task_eq2. destruct (t_resp (get_task s t)); [exact H|]. cbv zeta.
  pose proof (CCb_ct_prefix s0 ex t b s H) as H4. set (s4 := ct_prefix t b s) in *. clearbody s4.
  destruct (get_pq s4 _) as [p|]; [|t_CC].
  pose proof (CCb_ct_learner s0 ex t r b (get_task s t) p (task_scq s t) s4 H4) as H5.
  destruct (ct_learner t r b (get_task s t) p (task_scq s t) s4) as [s5 retry]. cbn [fst] in H5. apply CCb_ct_tail; assumption.
Qed.

(* ---- the clean-up of an operation nobody waits for --------------------------------------------------------------------------------------------------- *)
Lemma keys_complete_task_nb : forall t r s, resp_success r = false -> map fst (s_ops (complete_task t r false s)) = map fst (s_ops s).
Proof.
  intros t r s Hr. assert (H0 : keeps_okeys (map fst (s_ops s)) s) by reflexivity.
  assert (H : keeps_okeys (map fst (s_ops s)) (complete_task t r false s)); [|exact H].
  rewrite complete_task_eq2. destruct (t_resp (get_task s t)); [exact H0|]. cbv zeta.
  assert (H4 : keeps_okeys (map fst (s_ops s)) (ct_prefix t false s)) by (unfold ct_prefix; fr_go (keeps_okeys (map fst (s_ops s))) t_kok).
  set (s4 := ct_prefix t false s) in *. clearbody s4.
  destruct (get_pq s4 _) as [p|]; [|t_kok]. unfold ct_learner. rewrite Hr.
  destruct (t_learner (get_task s t)); cbn [fst snd]; unfold ct_tail, maybe_start_cleanup; inv_go fail t_kok.
Qed.

Lemma CCx_resp_only : forall s0 o s t r,
  (forall o' x0, aget Nat.eqb o' (s_ops s0) = Some x0 -> o_task x0 = t -> op_alive s o' = true -> o' = o) ->
  CCx s0 (Some o) s -> CCx s0 (Some o) (upd_task t (fun x => x <| t_resp := Some r |> <| t_dnc := None |>) s).
Proof.
  unfold CCx, OTk. intros s0 o s t r Honly [A [B C]]. rewrite upd_task_eq. split; [exact A|]. split; [exact B|].
  intros o' x0 Hne Ho Hr0 Ha r'. rewrite <- upd_task_eq. rewrite get_task_upd_task. destruct (Nat.eqb (o_task x0) t) eqn:E; [|apply (C o' x0); assumption].
  apply Nat.eqb_eq in E. exfalso. apply Hne. f_equal. apply (Honly o' x0 Ho E). exact Ha.
Qed.

Lemma CCb_complete_cancel : forall s0 o t s,
  (forall o' x0, aget Nat.eqb o' (s_ops s0) = Some x0 -> o_task x0 = t -> op_alive s o' = true -> o' = o) ->
  CCb s0 (Some o) s -> CCb s0 (Some o) (complete_task t (mkResp cCANCELLED 0 0) false s).
Proof.
  intros s0 o t s Honly H. rewrite complete_task_eq2. destruct (t_resp (get_task s t)); [exact H|]. cbv zeta.
  pose proof (CCb_ct_prefix s0 (Some o) t false s H) as H4. destruct (ct_prefix_frames t false s) as [_ [Eo4 _]].
  set (s4 := ct_prefix t false s) in *. clearbody s4.
  destruct (get_pq s4 _) as [p|]; [|t_CC].
  unfold ct_learner. change (resp_success (mkResp cCANCELLED 0 0)) with false. cbv iota.
  set (s5 := fst (match t_learner (get_task s t) with Some l => (upd_task t (fun x => x <| t_learner := None |>) (emit (OGhost (GAbandoned (l_id l))) s4), None) | None => (panic "complete: task without learner" s4, @None (Z * Z)) end)).
  assert (H5 : CCb s0 (Some o) s5 /\ s_ops s5 = s_ops s4) by (unfold s5; destruct (t_learner (get_task s t)); cbn [fst]; split; try reflexivity; try (rewrite upd_task_eq; reflexivity); cc_go0).
  destruct (t_learner (get_task s t)) as [l|]; cbn [fst snd] in *; fold s5; destruct H5 as [H5 Eo5]; clearbody s5.
  all: unfold ct_tail; cbv zeta.
  all: set (s6 := match aget dkey_eqb _ (s_inflight s5) with Some t' => if Nat.eqb t t' then s5 <| s_inflight ::= adel dkey_eqb _ |> else s5 | None => s5 end).
  all: assert (H6 : CCb s0 (Some o) s6 /\ s_ops s6 = s_ops s5) by (unfold s6; destruct (aget dkey_eqb _ _); [destruct (Nat.eqb t _); [split; [t_CC|reflexivity]|auto]|auto]).
  all: destruct H6 as [[A6 [B6 C6]] Eo6]; clearbody s6.
  all: match goal with |- CCb _ _ (fold_left _ _ ?s7) => assert (H7 : CCb s0 (Some o) s7) end.
  1,3: split; [exact A6|split; [apply TPk_upd_task; exact B6|]]; apply CCx_resp_only; [|exact C6];
       intros o' x0 Ho Et Ha; apply (Honly o' x0 Ho Et); unfold op_alive in *; rewrite Eo6, Eo5, Eo4 in Ha; exact Ha.
  all: match goal with |- CCb _ _ (fold_left _ _ ?s7) => set (s7' := s7) in *; clearbody s7' end; unfold maybe_start_cleanup; cc_go0.
Qed.

Lemma okc_sched : forall code, (code =? cCANCELLED)%N = false -> okc (mkResp code 0 0).
Proof. intros code H. unfold okc, scheduler_made. cbn. rewrite H. reflexivity. Qed.
Lemma okc_tagged : forall r, (r_tag r =? 0)%N = false -> okc r.
Proof. intros r H. unfold okc, scheduler_made. rewrite H. reflexivity. Qed.

Lemma CCb_cancel_all_queued : forall s0 ex i r s, okc r -> CCb s0 ex s -> CCb s0 ex (cancel_all_queued i r s).
Proof. intros s0 ex i r s Hr H. rewrite cancel_all_queued_eq. apply cancel_go_closed; [|exact H]. intros. apply CCb_complete_task; assumption. Qed.

Lemma CCb_operation_remove : forall s0 o s, G s -> op_alive s o = true -> CCb s0 None s -> CCb s0 None (operation_remove o s).
Proof.
  intros s0 o s HG Ha H. unfold operation_remove. cbv zeta.
  pose proof (XS_X _ _ (G_XS _ HG)) as HX. pose proof (proj1 (XS_ON _ _ (G_XS _ HG))) as Hnd.
  set (t := o_task (get_op s o)).
  match goal with |- CCb _ _ (upd_task _ _ (set s_ops _ ?e)) => assert (H1 : CCb s0 (Some o) e /\ map fst (s_ops e) = map fst (s_ops s)) end.
  { destruct (Nat.eqb (List.length (t_ops (get_task s t))) 1) eqn:El.
    - split; [|apply keys_complete_task_nb; reflexivity]. apply CCb_complete_cancel; [|apply CCb_weaken; exact H].
      intros o' x0 Ho Et Ha'. destruct H as [_ [_ [_ [HOT _]]]]. pose proof (HOT o' x0 Ho Ha') as Eo'.
      pose proof (XO1 _ _ HX o' Ha' (fun F => F)) as L1. pose proof (XO1 _ _ HX o Ha (fun F => F)) as L2. unfold tsk in L1, L2. rewrite Eo', Et in L1. fold t in L2.
      apply Nat.eqb_eq in El. destruct (t_ops (get_task s t)) as [|[i1 o1] [|? ?]]; try discriminate El.
      destruct L1 as [E1|[]], L2 as [E2|[]]. inversion E1; inversion E2; subst. reflexivity.
    - unfold task_stage. destruct (t_resp (get_task s t)); [destruct (t_worker (get_task s t)); (split; [apply CCb_weaken; exact H|reflexivity])|].
      destruct (t_worker (get_task s t)) as [w|]; cbv iota.
      + pose proof (CCb_weaken s0 (Some o) s H) as Hw. split; [cc_go0|].
        assert (Hk : keeps_okeys (map fst (s_ops s)) (decrement_executing (o_inv (get_op s o)) w s)); [|exact Hk]. assert (H0 : keeps_okeys (map fst (s_ops s)) s) by reflexivity. fr_go (keeps_okeys (map fst (s_ops s))) t_kok.
      + split.
        * pose proof (CCb_weaken s0 (Some o) s H) as Hw.
          match goal with |- CCb _ _ (fst (fold_left ?g ?l ?a)) => apply (fold_left_pres (fun acc => CCb s0 (Some o) (fst acc)) g l) end; [|cbn [fst]; cc_go0].
          intros [s1 go] j Hs1. cbn [fst] in *. destruct go; [cc_go0|exact Hs1].
        * assert (H0 : keeps_okeys (map fst (s_ops s)) s) by reflexivity.
          match goal with |- map fst (s_ops (fst (fold_left ?g ?l ?a))) = _ => assert (Hk : keeps_okeys (map fst (s_ops s)) (fst (fold_left g l a))); [|exact Hk];
            apply (fold_left_pres (fun acc => keeps_okeys (map fst (s_ops s)) (fst acc)) g l) end; [|cbn [fst]; fr_go (keeps_okeys (map fst (s_ops s))) t_kok].
          intros [s1 go] j Hs1. cbn [fst] in *. destruct go; [fr_go (keeps_okeys (map fst (s_ops s))) t_kok|exact Hs1]. }
  match goal with |- CCb _ _ (upd_task _ _ (set s_ops _ ?e)) => set (s1 := e) in * end. clearbody s1. destruct H1 as [H1 Ek].
  assert (H2 : CCb s0 None (s1 <| s_ops := adel Nat.eqb o (s_ops s1) |>)) by (apply CCb_delop; [rewrite Ek; exact Hnd|exact H1]).
  t_CC.
Qed.

Definition GCC (s0 : state) (s : state) : Prop := G s /\ CCb s0 None s.

Lemma GCC_run_entry : forall s0 e s, In e (cleanup_entries s) -> GCC s0 s -> GCC s0 (run_entry e s).
Proof.
  intros s0 e s Hin [HG H]. split; [apply G_run_entry; assumption|].
  destruct e as [z ce]. unfold run_entry. cbn [fst snd]. destruct ce as [o|w|k].
  - assert (Ha : op_alive s o = true) by (eapply cleanup_entry_op_alive; exact Hin).
    apply CCb_operation_remove; [|rewrite op_alive_upd_op; exact Ha|t_CC].
    match goal with |- G (upd_op ?o' ?f s) => assert (Hg : G (upd_op o' f s)) by (g_prim HG); exact Hg end.
  - unfold remove_stale_worker, mark_terminating. cbv zeta.
    set (s1 := upd_worker w (fun k => k <| k_term := true |>) (upd_worker w (fun k => k <| k_cleanup := None |>) s)).
    assert (H1 : CCb s0 None s1) by (unfold s1; cc_go0). clearbody s1.
    set (s2 := match k_task (get_worker s1 w) with None => s1 | Some t => complete_task t (mkResp cUNAVAILABLE 0 0) false s1 end).
    assert (H2 : CCb s0 None s2) by (unfold s2; destruct (k_task (get_worker s1 w)); [apply CCb_complete_task; [apply okc_sched; reflexivity|exact H1]|exact H1]).
    clearbody s2. cc_go0.
  - unfold scq_remove. cbv zeta. set (s1 := upd_scq k (fun q => q <| q_cleanup := None |>) s).
    assert (H1 : CCb s0 None s1) by (unfold s1; cc_go0). clearbody s1.
    pose proof (CCb_cancel_all_queued s0 None (mkI k []) (mkResp cUNAVAILABLE 0 0) s1 (okc_sched cUNAVAILABLE eq_refl) H1) as H2.
    set (s2 := cancel_all_queued _ _ s1) in *. clearbody s2. cc_go0.
Qed.

Lemma GCC_enter : forall s0 t s, GCC s0 s -> GCC s0 (enter t s).
Proof.
  intros s0 t s H. unfold enter. destruct (s_now s <? t); [|exact H]. cbv zeta.
  apply cleanup_run_closed; [intros s1 w [A B]; split; [g_prim A|cc_go0] | intros; apply GCC_run_entry; assumption | destruct H as [A B]; split; [g_prim A|cc_go0]].
Qed.

Lemma CCb_get_next_task : forall s0 c w b pr s, CCb s0 None s -> CCb s0 None (get_next_task c w b pr s).
Proof. intros. unfold get_next_task, sync_loop, assign_next_queued_task, sync_return_exec, sync_return_idle, finish_sync. cc_go0. Qed.

Lemma CCb_get_current_or_next : forall s0 c w b pr s, CCb s0 None s -> CCb s0 None (get_current_or_next c w b pr s).
Proof.
  intros s0 c w b pr s H. unfold get_current_or_next. destruct (k_task (get_worker s w)) as [t|]; [|apply CCb_get_next_task; exact H].
  destruct (Nat.ltb _ _); [unfold sync_return_exec, finish_sync; cc_go0|]. apply CCb_get_next_task. apply CCb_complete_task; [apply okc_sched; reflexivity|exact H].
Qed.

Lemma CCb_sync_start : forall s0 c a s, (forall d r, y_state a = WCompleted d r -> (r_tag r =? 0)%N = false) -> CCb s0 None s -> CCb s0 None (sync_start c a s).
Proof.
  intros s0 c a s Hy H. apply sync_start_closed2; try exact H; intros;
    try (apply CCb_get_current_or_next; assumption); try (apply CCb_get_next_task; assumption);
    try (apply CCb_complete_task; [apply okc_tagged; eapply Hy; eassumption|assumption]);
    unfold ret, add_scq, add_pq, sync_return_err, finish_sync; cc_go0.
Qed.

Lemma CCb_exec_start : forall s0 c a s, CCb s0 None s -> CCb s0 None (exec_start c a s).
Proof.
  intros s0 c a s H. unfold exec_start.
  destruct (aget dkey_eqb _ _) as [t0|] eqn:Ei.
  - cbv zeta. unfold new_operation, wait_execution_begin, stream_iter. cc_go0.
  - destruct (longest_prefix_pq s _ _) as [p|]; [|unfold ret; cc_go0].
    destruct (x_sel a) as [[[idx dur] timeout] l]. cbv zeta.
    set (s1 := emit (OGhost GSelect) s).
    match goal with |- context [set s_tasks (fun ts => ts ++ [(?tt, ?xx)])] => set (x := xx); set (t := tt) end.
    set (sN := s1 <| s_ntasks ::= S |> <| s_tasks ::= fun ts => ts ++ [(t, x)] |>).
    assert (HN : CCb s0 None sN) by (unfold sN; apply CCb_newtask; unfold s1; cc_go0).
    set (s3 := if x_dnc a then sN else sN <| s_inflight ::= aset dkey_eqb (x_instance a, x_digest a) t |>).
    assert (H3 : CCb s0 None s3) by (unfold s3; destruct (x_dnc a); [exact HN|t_CC]).
    clearbody s3. unfold new_operation, wait_execution_begin, stream_iter. cc_go0.
Qed.

Lemma CCb_terminate_fold : forall s0 p l s waits,
  CCb s0 None s -> CCb s0 None (fst (fold_left (fun (acc : state * list (nat * nat)) w =>
        let '(s, waits) := acc in
        if matches w p then
          let s := mark_terminating w s in
          match k_task (get_worker s w) with
          | Some tk => (s, waits ++ [(tk, t_gen (get_task s tk))])
          | None => (if k_wait (get_worker s w) then wake_up w s else s, waits)
          end
        else (s, waits)) l (s, waits))).
Proof. intros s0 p l s waits H. apply (fr_terminate_fold (CCb s0 None)); try (intros; t_CC); try exact H. Qed.

(* the events that may complete a task with an operator's code *)
Definition kill_event (e : event) (p0 : pc) : bool :=
  match e with
  | EKillQueue _ _ _ _ => true
  | EEnter _ _ => match p0 with PKillRecheck _ _ => true | _ => false end
  | _ => false
  end.

Lemma CCb_step_core : forall s0 e s, ev_resp_ok e = true -> kill_event e (get_call s (ev_call e)) = false -> GCC s0 s -> CCb s0 None (step_core e s).
Proof.
  intros s0 e s Hev Hk H.
  assert (He : forall t, CCb s0 None (enter t s)) by (intro t; exact (proj2 (GCC_enter s0 t s H))).
  destruct e; unfold step_core; cbn [ev_resp_ok kill_event ev_call] in *; try discriminate Hk.
  - apply CCb_exec_start. apply He.
  - pose proof (He t) as B. set (s1 := enter t s) in *. clearbody s1. cbv zeta. unfold ret. cc_go0.
  - apply CCb_sync_start; [|apply He]. intros d r Ey. rewrite Ey in Hev. apply negb_true_iff. exact Hev.
  - pose proof (He t) as B. set (s1 := enter t s) in *. clearbody s1. unfold kill_lookup, ret. cc_go0.
  - pose proof (He t) as B. set (s1 := enter t s) in *. clearbody s1. cbv zeta. unfold ret, wake_up. cc_go0.
  - pose proof (He t) as B. set (s1 := enter t s) in *. clearbody s1. cbv zeta. unfold ret. cc_go0.
  - cbv zeta. pose proof (He t) as B. set (s1 := enter t s) in *. clearbody s1.
    match goal with |- CCb _ _ (match ?x with _ => _ end) => rewrite (surjective_pairing x) end. cbv beta iota.
    match goal with |- CCb _ _ (set_call _ _ (fst (fold_left ?g ?l ?a))) => assert (H2 : CCb s0 None (fst (fold_left g l a))) by (apply CCb_terminate_fold; exact B) end.
    t_CC.
  - destruct (_ || _); [destruct H as [_ B]; unfold ret; cc_go0|]. cbv zeta. pose proof (He t) as B. set (s1 := enter t s) in *. clearbody s1.
    destruct (get_pq s1 k); unfold ret, add_pq; [cc_go0|].
    match goal with |- CCb _ _ (set_call _ _ (emit _ (fold_left ?g ?l ?a))) => assert (H2 : CCb s0 None (fold_left g l a)) end.
    { apply fold_left_pres; [intros a0 sc Ha0; unfold add_scq; cc_go0|cc_go0]. }
    cc_go0.
  - pose proof (He t) as B. unfold ret. cc_go0.
  - cbv zeta. destruct (negb (at_gate s (get_call s c))); [exact (proj2 H)|]. pose proof (He t) as B. set (s1 := enter t s) in *. clearbody s1.
    destruct (get_call s c); try exact B; try discriminate Hk;
      unfold stream_iter, stream_return, kill_lookup, wait_execution_begin, stream_iter, ret, sync_loop, assign_next_queued_task, sync_return_exec, sync_return_err, sync_return_idle, finish_sync, maybe_dequeue, maybe_start_cleanup; cc_go0.
  - cbv zeta. destruct (at_gate s (get_call s c)); [exact (proj2 H)|]. pose proof (He t) as B. pose proof (proj2 H) as B0. set (s1 := enter t s) in *. clearbody s1.
    destruct (get_call s c); unfold stream_iter, sync_return_exec, sync_return_idle, finish_sync, maybe_dequeue; cc_go0.
  - cbv zeta. destruct (at_gate s (get_call s c)); [exact (proj2 H)|]. destruct H as [_ B]. destruct (get_call s c); unfold ret; cc_go0.
Qed.

(* ---- the monitor's Synchronize calls were started by Synchronize events -------------------------------------------------------------------------------- *)
Definition MPs (pfx : list (event * list (nat * wref))) (m : mon) : Prop :=
  forall c w, In (c, w) (m_syncs m) -> exists a t h, In (EStartSync c a t, h) pfx /\ y_worker a = w.

Lemma c02_obs_syncs_incl : forall post m err x y, In y (m_syncs (fst (c02_obs post (m, err) x))) -> In y (m_syncs m).
Proof.
  intros post m err x y. unfold c02_obs. destruct x; try (intro H; exact H).
  - destruct (get_stream m c) as [sm|]; [|intro H; exact H]. destruct (sm_done sm); intro H; exact H.
  - destruct (get_stream m c); cbn [fst m_syncs set]; [intro H; exact H|]. intro H. apply filter_In in H. tauto.
  - destruct (find _ (m_syncs m)) as [[c' w]|]; cbn [fst m_syncs set]; intro H; apply filter_In in H; tauto.
Qed.
Lemma c02_fold_syncs_incl : forall post o m err y, In y (m_syncs (fst (fold_left (c02_obs post) o (m, err)))) -> In y (m_syncs m).
Proof.
  intros post o. induction o as [|x o IH]; intros m err y H; cbn [fold_left] in H; [exact H|].
  destruct (c02_obs post (m, err) x) as [m1 e1] eqn:E. apply IH in H. pose proof (c02_obs_syncs_incl post m err x y) as H1. rewrite E in H1. exact (H1 H).
Qed.
Lemma pm2_syncs : forall e o m, m_syncs (pm2 e o m) = m_syncs (mon_event e m).
Proof.
  intros e o m. unfold pm2, pm1. cbv zeta. cbn [m_syncs set]. destruct e; try reflexivity.
  destruct (existsb _ o); [|reflexivity]. destruct (x_sel a) as [[[? ?] ?] ?]. reflexivity.
Qed.
Lemma mon_event_syncs : forall e m y, In y (m_syncs (mon_event e m)) -> In y (m_syncs m) \/ exists c a t, e = EStartSync c a t /\ y = (c, y_worker a).
Proof.
  intros e m y. destruct e; cbn; try (intro H; left; exact H).
  - destruct (x_sel a) as [[[? ?] ?] ?]. intro H; left; exact H.
  - destruct (y_state a); cbn; (intros [<-|H]; [right; eauto|left; exact H]).
Qed.
Lemma pm_final_syncs_incl : forall cfg pre d e o m y, In y (m_syncs (pm_final cfg pre d e o m)) -> In y (m_syncs (mon_event e m)).
Proof.
  intros cfg pre d e o m y H. destruct (pm_final_frame cfg pre d e o m) as [_ [E _]]. cbv zeta in E. rewrite E in H.
  unfold pm3 in H. apply c02_fold_syncs_incl in H. rewrite pm2_syncs in H. exact H.
Qed.
Lemma MPs_step : forall pfx e h m cfg pre d o, MPs pfx m -> MPs (pfx ++ [(e, h)]) (pm_final cfg pre d e o m).
Proof.
  intros pfx e h m cfg pre d o H c w Hin. apply pm_final_syncs_incl in Hin. destruct (mon_event_syncs e m _ Hin) as [Hm|[c' [a [t [-> E]]]]].
  - destruct (H c w Hm) as [a [t [h' [A B]]]]. exists a, t, h'. split; [apply in_or_app; left; exact A|exact B].
  - inversion E; subst. exists a, t, h. split; [apply in_or_app; right; left; reflexivity|reflexivity].
Qed.

Lemma get_stream_none_existsb : forall m c, get_stream m c = None -> existsb (fun s => Nat.eqb (sm_call s) c) (m_streams m) = false.
Proof.
  intros m c H. unfold get_stream in H. apply existsb_none. intros x Hx. destruct (Nat.eqb (sm_call x) c) eqn:E; [|reflexivity].
  exfalso. pose proof (find_none _ _ H x Hx) as Hn. cbv beta in Hn. congruence.
Qed.

(* an EEnter of a call parked in PKillRecheck is an operator's kill for the monitor too *)
Lemma kill_enter_is_kill : forall cfg t0 pfx m c n code,
  fresh_calls [] pfx -> InvS cfg t0 pfx m -> MPs pfx m ->
  get_call (fst (run (init cfg t0) pfx)) c = PKillRecheck n code ->
  negb (existsb (fun s => Nat.eqb (sm_call s) c) (m_streams m)) && negb (existsb (fun '(c', _) => Nat.eqb c c') (m_syncs m)) = true.
Proof.
  intros cfg t0 pfx m c n code Hf [HI _] HM Hp. set (s := fst (run (init cfg t0) pfx)) in *.
  assert (Ep : aget Nat.eqb c (s_calls s) = Some (PKillRecheck n code)).
  { unfold get_call in Hp. destruct (aget Nat.eqb c (s_calls s)) as [p|]; [rewrite Hp; reflexivity|discriminate]. }
  pose proof (call_view cfg t0 pfx c Hf) as V. fold s in V. rewrite Ep in V. cbn [J] in V. destruct V as [Hk _].
  specialize (HI c). rewrite Hk in HI. cbn [smi] in HI. rewrite (get_stream_none_existsb m c HI). cbn [negb andb].
  apply negb_true_iff. apply existsb_none. intros [c' w] Hin. destruct (Nat.eqb c c') eqn:E; [|reflexivity]. apply Nat.eqb_eq in E. subst c'. exfalso.
  destruct (HM c w Hin) as [a [t [h [A B]]]].
  destruct (CLS_run cfg t0 pfx Hf c _ CKill Ep eq_refl) as [e' [h' [A' [S' [C' K']]]]].
  pose proof (fresh_unique_start pfx [] _ _ _ _ Hf A A' eq_refl S' (eq_sym C')) as Ee. subst e'. discriminate K'.
Qed.

(* ---- e_cancel on one event ---------------------------------------------------------------------------------------------------------------------------------------- *)
Lemma CCb_start : forall s h, G s -> CCb s None (s <| s_hints := h |> <| s_out := [] |>).
Proof.
  intros s h HG. pose proof (XS_X _ _ (G_XS _ HG)) as HX. pose proof (G_W _ HG) as [_ [HWo _]].
  split; [split|split].
  - intros o x0 Ho. exact (proj2 (HWo o x0 (aget_In Nat.eqb nat_eqb_eq _ _ _ Ho))).
  - intros o x0 Ho Hn. assert (Ha : op_alive s o = true) by (unfold op_alive; rewrite Ho; reflexivity).
    pose proof (XO1 _ _ HX o Ha (fun F => F)) as L. unfold tsk, get_op in L. rewrite Ho in L. unfold get_task in L. rewrite Hn in L. destruct L.
  - intros t Ht. exact Ht.
  - split; [cbn; lia|]. split.
    + intros o x0 Ho _. change (get_op (s <| s_hints := h |> <| s_out := [] |>) o) with (get_op s o). unfold get_op. rewrite Ho. reflexivity.
    + intros o x0 _ Ho Hr _ r Hr'. change (get_task (s <| s_hints := h |> <| s_out := [] |>) (o_task x0)) with (get_task s (o_task x0)) in Hr'. congruence.
Qed.

Lemma find_dop_ops : forall d d' o, d_ops d = d_ops d' -> find_dop d o = find_dop d' o.
Proof. intros d d' o E. unfold find_dop. rewrite E. reflexivity. Qed.

Lemma pc_cancel_ok : forall cfg t0 pfx e h m pre,
  good cfg t0 (pfx ++ [(e, h)]) -> causes_ok (pfx ++ [(e, h)]) -> ~ panicked (snd (run (init cfg t0) (pfx ++ [(e, h)]))) ->
  InvS cfg t0 pfx m -> MPs pfx m ->
  let s := fst (run (init cfg t0) pfx) in pre_ok pre s ->
  pc_cancel pre (observe (fst (step s (e, h)))) e m = ""%string.
Proof.
  intros cfg t0 pfx e h m pre Hg Hc Hnp HI HM s Hpre. set (s' := fst (step s (e, h))).
  pose proof (good_prefix _ _ _ _ Hg) as [Hsel [Hfr _]].
  assert (Hnp0 : ~ panicked (snd (run (init cfg t0) pfx))) by (intro Hp; apply Hnp; rewrite run_snoc_snd; apply panicked_app; left; exact Hp).
  destruct (Cok_run pfx (init cfg t0) Hsel (Cok_init cfg t0)) as [Hp|HC]; [contradiction|]. fold s in HC.
  assert (HG : G s) by (destruct HC as [A [B [_ [D _]]]]; split; [exact A|split; assumption]).
  assert (Hev : ev_resp_ok e = true) by (apply (Hc (e, h)); apply in_or_app; right; left; reflexivity).
  unfold pc_cancel. cbv zeta.
  destruct (kill_event e (get_call s (ev_call e))) eqn:Hk.
  { destruct e; cbn [kill_event ev_call] in Hk; try discriminate Hk; [reflexivity|].
    destruct (get_call s c) as [| | | | | | | | | | |n code| | |] eqn:Ep; try discriminate Hk. rewrite (kill_enter_is_kill cfg t0 pfx m c n code Hfr HI HM Ep). reflexivity. }
  match goal with |- (if ?b then _ else _) = _ => destruct b; [reflexivity|] end.
  (* the event is no kill: what it completes with the scheduler's CANCELLED has lost its operations *)
  set (sa := s <| s_hints := h |> <| s_out := [] |>).
  assert (Hsa : GCC s sa) by (split; [eapply G_eq; [..|exact HG]; reflexivity|apply CCb_start; exact HG]).
  pose proof (CCb_step_core s e sa Hev Hk Hsa) as H1.
  assert (H2 : CCb s None (auto_returns (step_core e sa))) by (apply (fr_auto_returns (CCb s None)); try (intros; t_CC); try (intros; unfold ret; cc_go0); try exact H1).
  assert (H3 : CCb s None s') by (unfold s', step; cbn [fst snd]; fold sa; eapply CCb_frame; [| | |exact H2]; reflexivity).
  destruct H3 as [_ [_ [_ [HOT HCC]]]].
  pose proof (proj1 (ML_run cfg t0 (pfx ++ [(e, h)]))) as Hnd. rewrite run_snoc_fst in Hnd. fold s s' in Hnd.
  apply first_nonempty_all_empty. intros y Hy. apply in_map_iff in Hy. destruct Hy as [dop [<- Hd]].
  unfold observe in Hd. cbn [d_ops] in Hd. apply in_map_iff in Hd. destruct Hd as [[o x] [<- Hox]].
  pose proof (In_aget_NoDup Nat.eqb nat_eqb_eq _ _ _ Hnd Hox) as Ea.
  assert (Hal : op_alive s' o = true) by (unfold op_alive; rewrite Ea; reflexivity).
  assert (Eg : get_op s' o = x) by (unfold get_op; rewrite Ea; reflexivity).
  cbn [do_resp do_name observe_op]. destruct (t_resp (get_task s' (o_task x))) as [r|] eqn:Er; [|reflexivity].
  rewrite (find_dop_ops pre (observe s) o (proj1 Hpre)).
  destruct (aget Nat.eqb o (s_ops s)) as [x0|] eqn:E0; [|rewrite (find_dop_observe_none s o E0); reflexivity].
  rewrite (find_dop_observe s o x0 E0). cbn [do_resp do_waiters observe_op].
  destruct (t_resp (get_task s (o_task x0))) eqn:Er0; [reflexivity|].
  pose proof (HOT o x0 E0 Hal) as Et. rewrite Eg in Et.
  pose proof (HCC o x0 ltac:(discriminate) E0 Er0 Hal r ltac:(rewrite <- Et; exact Er)) as Hok. unfold okc in Hok. rewrite Hok. reflexivity.
Qed.

Definition InvC (cfg : config) (t0 : Z) (pfx : list (event * list (nat * wref))) (m : mon) (pre : dump) : Prop :=
  InvS cfg t0 pfx m /\ MPs pfx m /\ pre_ok pre (fst (run (init cfg t0) pfx)).

Theorem monitor_cancel_on_model : forall cfg t0 evs,
  selectors_in_range (init cfg t0) evs -> fresh_calls [] evs -> bg_scripts_ok evs -> causes_ok evs ->
  panicked (snd (run (init cfg t0) evs)) \/ trace_sub [5%nat] cfg t0 (model_trace cfg t0 evs) = true.
Proof.
  intros cfg t0 evs Hsel Hfr Hbg Hc.
  apply (trace_sub_generic2 cfg t0 [5%nat] causes_ok (InvC cfg t0) causes_ok_prefix) with (pfx := []) (m := mon0) (pre := empty_dump);
    [|split; [exact Hsel|split; assumption]|exact Hc|intros [o [what [[] _]]]|].
  - intros pfx [e h] m pre Hg Hq Hnp [HI [HM Hpre]]. cbv zeta. split.
    + cbn [forallb]. rewrite andb_true_r. apply String.eqb_eq. unfold p_components. cbv zeta. cbn [nth fst]. apply pc_cancel_ok; assumption.
    + split; [apply InvS_step; [exact (proj1 (proj2 Hg))|exact Hq|exact HI]|]. split; [apply MPs_step; exact HM|]. rewrite run_snoc_fst. split; reflexivity.
  - split; [|split; [intros c w []|apply pre_ok_init]].
    split; [intro c; cbn; reflexivity|]. intros t r Hr. unfold init, get_task in Hr. cbn in Hr. discriminate.
Qed.
