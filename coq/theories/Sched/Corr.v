(* Correspondence evaluator for the scheduler: model vs implementation,
   and the property predicates (Spec.v) on the implementation's trace. *)
From VF Require Import Common.Verdict.
From VF Require Export Sched.Obs Sched.Spec.
Open Scope Z_scope.

Definition ghost_eqb (a b : ghost) : bool :=
  match a, b with
  | GSelAbandoned, GSelAbandoned | GSelect, GSelect => true
  | GSucceeded x, GSucceeded y | GAbandoned x, GAbandoned y => (x =? y)%N
  | GFailed x t, GFailed y u => (x =? y)%N && Bool.eqb t u
  | _, _ => false
  end.
Definition desired_eqb (a b : desired) : bool :=
  match a, b with
  | DNone, DNone | DIdle, DIdle => true
  | DExec d1 c1 t1 q1 s1, DExec d2 c2 t2 q2 s2 =>
    (d1 =? d2)%N && Bool.eqb c1 c2 && (t1 =? t2) && (q1 =? q2) && list_eqb N.eqb s1 s2
  | _, _ => false
  end.
Definition obs_eqb (a b : obs) : bool :=
  match a, b with
  | OMsg c1 n1 s1 d1, OMsg c2 n2 s2 d2 => Nat.eqb c1 c2 && Nat.eqb n1 n2 && (s1 =? s2)%N && opt_eqb resp_eqb d1 d2
  | ORet c1 x1, ORet c2 x2 => Nat.eqb c1 c2 && (x1 =? x2)%N
  | OSync c1 d1 n1, OSync c2 d2 n2 => Nat.eqb c1 c2 && desired_eqb d1 d2 && (n1 =? n2)
  | OGhost g1, OGhost g2 => ghost_eqb g1 g2
  | OPanic _, OPanic _ => true
  | _, _ => false
  end.

(* Observations of one event agree: the same non-ghost observations in the
   same order, and the same set of selector/learner calls (bulk cancellation
   walks a heap array from its end: the order of those calls is not modelled). *)
Definition obs_list_eqb (a b : list obs) : bool :=
  list_eqb obs_eqb (filter (fun x => negb (is_ghost x)) a) (filter (fun x => negb (is_ghost x)) b)
  && same_set obs_eqb (filter is_ghost a) (filter is_ghost b).

Definition assignments (d : dump) : list ((N * N) * list nat) :=
  flat_map (fun '(_, q) => flat_map (fun w => match dw_task w with Some ops => [(dw_id w, ops)] | None => [] end)
                                    (ds_workers q)) (all_scqs d).

Record case := mkCase {
  c_cfg : config; c_t0 : Z;
  c_events : list (event * list (nat * wref));
  c_obs : list (list obs);     (* implementation observations per event *)
  c_dumps : list ddelta }.     (* implementation state after each event, delta-encoded *)

Definition asg_eqb (a b : (N * N) * list nat) : bool := nn_eqb (fst a) (fst b) && same_set Nat.eqb (snd a) (snd b).
Definition new_assignments (pre post : dump) : list ((N * N) * list nat) :=
  filter (fun a => negb (existsb (asg_eqb a) (assignments pre))) (assignments post).

(* Runs the model along the implementation's history.  The first step at
   which outputs or state differ is remembered as the mismatch; the run then
   continues (this is the search for a concrete failing input once the
   correspondence is broken): the model's choice of (worker, task) is the
   documented hand-out policy (theorems pick_minimal / schedule candidates),
   so an event in which the implementation newly assigns a different task to
   a worker than the policy prescribes for this history violates C04. *)
Fixpoint mism_from (i : nat) (s : state) (prev : dump) (first : verdict) (evs : list (event * list (nat * wref)))
    (obss : list (list obs)) (dumps : list ddelta) : verdict :=
  match evs, obss, dumps with
  | e :: evs', o :: obss', dl :: dumps' =>
    let d := apply_delta prev dl in
    let '(s', mo) := step s e in
    if negb (same_set asg_eqb (new_assignments (observe s) (observe s')) (new_assignments prev d))
    then VViolation i "C04:assignment-differs-from-policy"
    else
      let first' :=
        match first with
        | VOk => if negb (obs_list_eqb mo o) then VMismatch i "outputs"
                 else match dump_diff (observe s') d with
                      | EmptyString => VOk
                      | what => VMismatch i what
                      end
        | _ => first
        end in
      mism_from (S i) s' d first' evs' obss' dumps'
  | [], [], [] => first
  | _, _, _ => match first with VOk => VMismatch i "malformed case" | _ => first end
  end.

(* The monitor keeps running after a violation: the verdict lists, for every
   property (the first three characters of a kind), the first violation of
   that property as "kind@step", separated by ";" (several properties are
   decided from one scheduler run). *)
Fixpoint nat_to_string_aux (fuel n : nat) (acc : string) : string :=
  match fuel with
  | O => acc
  | S f =>
    let d := String (Ascii.ascii_of_nat (48 + Nat.modulo n 10)) EmptyString in
    match Nat.div n 10 with
    | O => (d ++ acc)%string
    | q => nat_to_string_aux f q (d ++ acc)%string
    end
  end.
Definition nat_to_string (n : nat) : string := nat_to_string_aux (S n) n "".

Definition prop_of (kind : string) : string := substring 0 3 kind.

(* every complaint of this step, the first one per property that has not complained before *)
Fixpoint note_kinds (i : nat) (kinds : list string) (seen : list string) (acc : list (nat * string))
    : list string * list (nat * string) :=
  match kinds with
  | [] => (seen, acc)
  | k :: tl =>
    match k with
    | EmptyString => note_kinds i tl seen acc
    | _ => if existsb (String.eqb (prop_of k)) seen then note_kinds i tl seen acc
           else note_kinds i tl (prop_of k :: seen) (acc ++ [(i, k)])
    end
  end.

Fixpoint viol_collect (i : nat) (cfg : config) (t0 : Z) (m : mon) (pre : dump) (seen : list string)
    (acc : list (nat * string)) (evs : list (event * list (nat * wref)))
    (obss : list (list obs)) (dumps : list ddelta) : list (nat * string) :=
  match evs, obss, dumps with
  | e :: evs', o :: obss', dl :: dumps' =>
    let d := apply_delta pre dl in
    let '(m', kinds) := p_step_all cfg t0 m pre (fst e) o d in
    let '(seen', acc') := note_kinds i kinds seen acc in
    viol_collect (S i) cfg t0 m' d seen' acc' evs' obss' dumps'
  | _, _, _ => acc
  end.

Definition viol_from (i : nat) (cfg : config) (t0 : Z) (m : mon) (pre : dump) (evs : list (event * list (nat * wref)))
    (obss : list (list obs)) (dumps : list ddelta) : verdict :=
  match viol_collect i cfg t0 m pre [] [] evs obss dumps with
  | [] => VOk
  | (st, k) :: tl =>
    VViolation st (fold_left (fun s '(st', k') => (s ++ ";" ++ k' ++ "@" ++ nat_to_string st')%string) tl
                             (k ++ "@" ++ nat_to_string st)%string)
  end.

Definition empty_dump : dump := mkDump 0 [] [] [] 0 [].

(* An assignment that differs from the policy is a C04 violation and a disagreement with the model at once. *)
Definition check_case (c : case) : verdict :=
  let v := viol_from 0 (c_cfg c) (c_t0 c) mon0 empty_dump (c_events c) (c_obs c) (c_dumps c) in
  let mm := mism_from 0 (init (c_cfg c) (c_t0 c)) empty_dump VOk (c_events c) (c_obs c) (c_dumps c) in
  match mm with
  | VViolation i _ => vcombine (vcombine v mm) (VMismatch i "assignment")
  | _ => vcombine v mm
  end.
