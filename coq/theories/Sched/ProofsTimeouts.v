(* C05 / C06: what the time-out callbacks and the retry limit do, and that a
   drained worker is handed nothing. *)
From Coq Require Import Lia.
From VF Require Export Sched.ProofsBasic.
Open Scope Z_scope.

(* retry_limit: a worker that asks again for the task it was given, after the
   configured number of such requests, makes the scheduler complete the task
   with INTERNAL and look for other work *)
Lemma retry_limit : forall c w b pr s t,
  k_task (get_worker s w) = Some t -> (cf_retry_count (s_cfg s) <= t_retry (get_task s t))%nat ->
  get_current_or_next c w b pr s = get_next_task c w b pr (complete_task t (mkResp cINTERNAL 0 0) false s).
Proof.
  intros c w b pr s t Hk Hr. unfold get_current_or_next. rewrite Hk.
  destruct (Nat.ltb (t_retry (get_task s t)) (cf_retry_count (s_cfg s))) eqn:E; [|reflexivity].
  apply Nat.ltb_lt in E. lia.
Qed.

(* ... and before that it is told to execute the same task again, the count going up by one *)
Lemma retry_below_limit : forall c w b pr s t,
  k_task (get_worker s w) = Some t -> (t_retry (get_task s t) < cf_retry_count (s_cfg s))%nat ->
  get_current_or_next c w b pr s = sync_return_exec c w (upd_task t (fun x => x <| t_retry ::= S |>) s).
Proof.
  intros c w b pr s t Hk Hr. unfold get_current_or_next. rewrite Hk.
  apply Nat.ltb_lt in Hr. rewrite Hr. reflexivity.
Qed.

(* worker_timeout: the callback of a worker's time-out marks it terminating,
   fails its task with UNAVAILABLE, forgets the worker and, when it was the
   last worker of a worker-created queue, arms the queue's time-out *)
Lemma worker_timeout_callback : forall z w s,
  run_entry (z, CE_worker w) s =
  remove_stale_worker w z (upd_worker w (fun k => k <| k_cleanup := None |>) s).
Proof. reflexivity. Qed.

Lemma remove_stale_worker_fails_task : forall w z s t,
  k_task (get_worker (mark_terminating w s) w) = Some t ->
  remove_stale_worker w z s =
  let s1 := complete_task t (mkResp cUNAVAILABLE 0 0) false (mark_terminating w s) in
  let s2 := clear_last_invocation w s1 in
  let s3 := upd_scq (w_sk w) (fun q => q <| q_workers ::= adel wref_eqb w |>) s2 in
  if Nat.eqb (List.length (q_workers (get_scq s3 (w_sk w)))) 0 && q_removable (get_scq s3 (w_sk w))
  then upd_scq (w_sk w) (fun q => q <| q_cleanup := Some (z + cf_pq_noworkers (s_cfg s3)) |>) s3
  else s3.
Proof. intros w z s t Hk. unfold remove_stale_worker. cbv zeta. rewrite Hk. reflexivity. Qed.

(* no_waiter_timeout: the callback of an operation nobody waits on removes the
   operation; if it was the task's last operation the task is cancelled *)
Lemma no_waiter_timeout_callback : forall z o s,
  run_entry (z, CE_op o) s = operation_remove o (upd_op o (fun x => x <| o_cleanup := None |>) s).
Proof. reflexivity. Qed.

Lemma operation_remove_last_cancels : forall o s,
  List.length (t_ops (get_task s (o_task (get_op s o)))) = 1%nat ->
  operation_remove o s =
  let t := o_task (get_op s o) in
  let s1 := complete_task t (mkResp cCANCELLED 0 0) false s in
  upd_task t (fun y => y <| t_ops := filter (fun '(_, o') => negb (Nat.eqb o o')) (t_ops y) |>)
    (s1 <| s_ops := adel Nat.eqb o (s_ops s1) |>).
Proof. intros o s H. unfold operation_remove. cbv zeta. rewrite H. reflexivity. Qed.

(* queue_timeout *)
Lemma queue_timeout_callback : forall z k s,
  run_entry (z, CE_scq k) s = scq_remove k (upd_scq k (fun q => q <| q_cleanup := None |>) s).
Proof. reflexivity. Qed.

(* a drained or terminating worker that asks for work is handed nothing: it
   parks on the undrain wake-up (blocking) or is told to be idle *)
Lemma drained_gets_nothing : forall c w blocking s,
  is_drained s w = true ->
  get_next_task c w blocking false s =
  if blocking then set_call c (PSyncDrained w (q_undrain (get_scq s (w_sk w)))) s else sync_return_idle c w s.
Proof.
  intros c w blocking s Hd. unfold get_next_task. rewrite Hd. cbn [negb].
  destruct blocking; cbn [negb]; [|reflexivity]. unfold sync_loop. rewrite Hd. reflexivity.
Qed.

(* undrain_eligible: once no drain matches and the worker is not terminating, the same request searches the queue *)
Lemma undrained_searches : forall c w blocking s,
  is_drained s w = false ->
  get_next_task c w blocking false s =
  let '(s', ok) := assign_next_queued_task w s in
  if ok then sync_return_exec c w s' else if negb blocking then sync_return_idle c w s else sync_loop c w s.
Proof. intros c w blocking s Hd. unfold get_next_task. rewrite Hd. reflexivity. Qed.

(* is_drained is exactly: terminating, or some drain pattern of the worker's queue matches it *)
Lemma is_drained_iff : forall s w,
  is_drained s w = true <->
  k_term (get_worker s w) = true \/ exists p, In p (q_drains (get_scq s (w_sk w))) /\ matches w p = true.
Proof.
  intros s w. unfold is_drained. rewrite orb_true_iff, existsb_exists. tauto.
Qed.
