(* The monitor on the model's trace: e_sync.  A Synchronize answer "execute" names the task the post-state assigns to
   the calling worker, uncompleted, with that task's recorded action. *)
From Coq Require Import Lia.
From VF Require Export Sched.ProofsMon4.
From VF Require Import Sched.Spec Sched.Corr Sched.ProofsObsLink Sched.ProofsObsC01 Sched.ProofsSyncOut Sched.ProofsExec Sched.ProofsLearner Sched.ProofsRoute Sched.ProofsInflight.
Open Scope Z_scope.

(* ---- an uncompleted task that lists operations has an action -------------------------------------------------------------------------------------------- *)
Definition dn_ok (x : task) : Prop := t_resp x = None -> t_ops x <> [] -> t_dnc x <> None.
Definition DN (s : state) : Prop := forall t, dn_ok (get_task s t).

Lemma dn_dummy : dn_ok dummy_task.
Proof. intros _ H. exfalso. apply H. reflexivity. Qed.
Lemma DN_frame : forall s s', s_tasks s' = s_tasks s -> DN s -> DN s'.
Proof. unfold DN. intros s s' E H t. rewrite (get_task_frame _ _ _ E). apply H. Qed.
Lemma DN_upd_task : forall s t f, dn_ok (f (get_task s t)) -> DN s -> DN (upd_task t f s).
Proof. unfold DN. intros s t f Hf H t'. rewrite get_task_upd_task. destruct (Nat.eqb t' t); [exact Hf|apply H]. Qed.
Lemma DN_newtask : forall s x, dn_ok x -> DN s -> DN (s <| s_ntasks ::= S |> <| s_tasks ::= fun l => l ++ [(s_ntasks s, x)] |>).
Proof.
  unfold DN. intros s x Hx H t. rewrite get_task_newtask. specialize (H t). unfold get_task in H.
  destruct (aget Nat.eqb t (s_tasks s)); [exact H|]. destruct (Nat.eqb t (s_ntasks s)); [exact Hx|exact dn_dummy].
Qed.

Ltac t_DN :=
  intros;
  lazymatch goal with
  | |- DN (upd_task ?t _ _) =>
    match goal with H : DN _ |- _ =>
      apply DN_upd_task;
      [ first [ exact (H t)
              | (unfold dn_ok; cbn; intro; discriminate)
              | (let Hr := fresh in let Hne := fresh in let E := fresh in
                 unfold dn_ok; cbn; intros Hr Hne; apply (H t Hr); intro E; rewrite E in Hne; exact (Hne eq_refl)) ]
      | assumption ] end
  | |- DN (set s_tasks _ (set s_ntasks _ _)) => apply DN_newtask; [unfold dn_ok; cbn; intros; discriminate | assumption]
  | |- _ => (eapply DN_frame; [|eassumption]); frame_eq
  end.
Ltac dn_go0 := inv_go fail t_DN.

Lemma DN_ct_prefix : forall t b s, DN s -> DN (ct_prefix t b s).
Proof. intros. unfold ct_prefix. dn_go0. Qed.
Lemma DN_schedule : forall t s, DN s -> DN (schedule t s).
Proof. intros. dn_go0. Qed.

Lemma DN_new_operation : forall s t prio i m, t_dnc (get_task s t) <> None -> DN s -> DN (fst (new_operation t prio i m s)).
Proof.
  intros s t prio i m Hd H. unfold new_operation. cbn [fst]. apply DN_upd_task; [|eapply DN_frame; [|exact H]; reflexivity].
  rewrite (get_task_frame s) by reflexivity. intros _ _. cbn. exact Hd.
Qed.

Lemma DN_ct_learner : forall t r b x p k s,
  aget Nat.eqb (s_ntasks s) (s_tasks s) = None -> (t < s_ntasks s)%nat -> DN s -> DN (fst (ct_learner t r b x p k s)).
Proof.
  intros t r b x p k s Hft Ht H. unfold ct_learner.
  destruct (t_learner x) as [l|]; [|cbn [fst]; dn_go0].
  destruct (resp_success r).
  - cbv zeta. set (s1 := upd_task t _ (emit _ s)). assert (H1 : DN s1) by (unfold s1; dn_go0).
    destruct (l_succ l) as [[[[bidx bdur] btimeout] bl]|]; [|exact H1].
    destruct (Nat.eqb (p_maxbg p) 0); [cbn [fst]; dn_go0|].
    set (bk := mkSK (sk_pk k) (nth bidx (p_scs p) 0%N)).
    set (s2 := get_or_create_invocation bk [4294967295%N] s1). assert (H2 : DN s2) by (unfold s2; dn_go0).
    destruct (goc_frames bk [4294967295%N] s1) as [G1 _]. destruct (get_or_create_invocation_tasks bk [4294967295%N] s1) as [_ [_ G4]]. fold s2 in G1, G4.
    assert (Hft2 : aget Nat.eqb (s_ntasks s2) (s_tasks s2) = None).
    { rewrite G4, G1. unfold s1. cbn. rewrite (aget_aset_other Nat.eqb nat_eqb_eq); [exact Hft|]. lia. }
    clearbody s2. destruct (Nat.leb _ _); [cbn [fst]; dn_go0|]. cbv zeta.
    set (xb := mkTask [] (t_instance x) (t_digest x) (Some true) btimeout (t_qts x) (t_suffix x) None 0 bdur (Some bl) None 0).
    set (sN := s2 <| s_ntasks ::= S |> <| s_tasks ::= fun l0 => l0 ++ [(s_ntasks s2, xb)] |>).
    assert (HN : DN sN) by (unfold sN; apply DN_newtask; [intros _ Hne; exfalso; apply Hne; reflexivity|exact H2]).
    assert (Eg : get_task sN (s_ntasks s2) = xb) by (unfold sN; rewrite get_task_newtask, Hft2, Nat.eqb_refl; reflexivity).
    pose proof (DN_new_operation sN (s_ntasks s2) (p_bgprio p) (mkI bk [4294967295%N]) true ltac:(rewrite Eg; discriminate) HN) as H3.
    destruct (new_operation (s_ntasks s2) (p_bgprio p) (mkI bk [4294967295%N]) true sN) as [s3 o3]. cbn [fst] in *. apply DN_schedule. exact H3.
  - destruct b; cbv zeta; [destruct (l_fail l) as [[[d tm] nl]|]|]; cbn [fst]; dn_go0.
Qed.

Lemma DN_retarget_fold : forall lk l s, DN s -> DN (retarget_fold lk l s).
Proof.
  intros lk l. induction l as [|[i o] l IH]; intros s H; cbn [retarget_fold fold_left]; [exact H|].
  fold (retarget_fold lk l (upd_op o (fun y => y <| o_inv := mkI lk (i_path i) |>) s)). apply IH. t_DN.
Qed.

Lemma DN_ct_tail : forall t r x p k s retry, DN s -> DN (ct_tail t r x p k s retry).
Proof.
  intros t r x p k s retry H. unfold ct_tail. destruct retry as [[d tm]|].
  - cbv zeta. set (lk := mkSK (sk_pk k) (largest_sc p)). set (old := t_ops (get_task s t)).
    destruct (goc_fold_frames lk old s) as [G1 _]. set (s6 := fold_left _ old s) in *.
    assert (H6 : DN s6) by (unfold s6; dn_go0).
    assert (Eold : old = t_ops (get_task s6 t)) by (unfold old; symmetry; f_equal; apply get_task_frame; exact G1).
    clearbody s6. clear H. clearbody old. subst old.
    set (s7 := upd_task t _ s6).
    assert (H7 : DN s7).
    { unfold s7. apply DN_upd_task; [|exact H6]. unfold dn_ok. cbn. intros Hr Hne. apply (H6 t Hr). intro E. rewrite E in Hne. exact (Hne eq_refl). }
    clearbody s7. fold (retarget_fold lk (t_ops (get_task s6 t)) s7).
    pose proof (DN_retarget_fold lk (t_ops (get_task s6 t)) s7 H7) as H8. set (s8 := retarget_fold _ _ s7) in *. clearbody s8.
    unfold report_non_final_stage_change. dn_go0.
  - cbv zeta. set (s0 := match aget dkey_eqb _ (s_inflight s) with Some t' => if Nat.eqb t t' then _ else s | None => s end).
    assert (H0 : DN s0) by (unfold s0; destruct (aget dkey_eqb _ _) as [t'|]; [destruct (Nat.eqb t t'); [t_DN|exact H]|exact H]).
    clearbody s0. unfold maybe_start_cleanup. dn_go0.
Qed.

Lemma DN_complete_task : forall t r b s, W s -> (t < s_ntasks s)%nat -> DN s -> DN (complete_task t r b s).
Proof.
  intros t r b s HW Ht H. rewrite complete_task_eq2. destruct (t_resp (get_task s t)); [exact H|]. cbv zeta.
  pose proof (DN_ct_prefix t b s H) as H4.
  assert (HW4 : W (ct_prefix t b s)) by (apply (W_of_WL_step t s _ HW Ht); intro HWL; unfold ct_prefix; w_go2).
  assert (Hn4 : s_ntasks (ct_prefix t b s) = s_ntasks s).
  { assert (Hk : keeps_counts (s_ntasks s) (s_nops s) (ct_prefix t b s)); [|exact (proj1 Hk)].
    assert (H0 : keeps_counts (s_ntasks s) (s_nops s) s) by (split; reflexivity). unfold ct_prefix. fr_go (keeps_counts (s_ntasks s) (s_nops s)) t_counts. }
  set (s4 := ct_prefix t b s) in *. clearbody s4.
  destruct (get_pq s4 _) as [p|]; [|t_DN].
  pose proof (DN_ct_learner t r b (get_task s t) p (task_scq s t) s4 (W_task_fresh _ HW4) ltac:(lia) H4) as H5.
  destruct (ct_learner t r b (get_task s t) p (task_scq s t) s4) as [s5 retry]. cbn [fst] in H5. apply DN_ct_tail. exact H5.
Qed.

(* ---- everything else ---------------------------------------------------------------------------------------------------------------------------------------------- *)
Definition WD (s : state) : Prop := W s /\ DN s.
Ltac wd_prim H := destruct H as [HWx HMx]; split; [match type of HWx with W ?s0 => apply (W_step1 s0); [exact HWx|let HWL := fresh "HWL" in intro HWL; w_go2] end|dn_go0].

Lemma WD_complete_task : forall t r b s, (t < s_ntasks s)%nat -> WD s -> WD (complete_task t r b s).
Proof.
  intros t r b s Ht [A B]. split; [apply (W_of_WL_step t s _ A Ht); apply WL_complete_task; left; reflexivity|apply DN_complete_task; assumption].
Qed.

Lemma WD_cancel_all_queued : forall i r s, WD s -> WD (cancel_all_queued i r s).
Proof.
  intros i r s H. rewrite cancel_all_queued_eq. apply cancel_go_closed; [|exact H].
  intros s1 d v o tl H1 Hin Hq. apply WD_complete_task; [|exact H1]. exact (W_pick_qop _ _ _ _ _ (proj1 H1) Hin Hq).
Qed.

Lemma DN_operation_remove : forall o s, W s -> op_alive s o = true -> DN s -> DN (operation_remove o s).
Proof.
  intros o s HW Ha H. pose proof (W_pick_op _ _ HW Ha) as Hlt. unfold operation_remove. cbv zeta.
  match goal with |- DN (upd_task ?t _ (set s_ops _ ?e)) => assert (H1 : DN e) end.
  { destruct (Nat.eqb _ 1); [apply DN_complete_task; [exact HW|exact Hlt|exact H]|].
    unfold task_stage. destruct (t_resp (get_task s (o_task (get_op s o)))); [destruct (t_worker (get_task s (o_task (get_op s o)))); exact H|].
    destruct (t_worker (get_task s (o_task (get_op s o)))) as [w|]; cbv iota; [dn_go0|].
    match goal with |- DN (fst (fold_left ?g ?l ?a)) => apply (fold_left_pres (fun acc => DN (fst acc)) g l) end; [|cbn [fst]; dn_go0].
    intros [s1 go] j Hs1. cbn [fst] in *. destruct go; [dn_go0|exact Hs1]. }
  match goal with |- DN (upd_task ?t _ (set s_ops _ ?e)) => set (s1 := e) in *; set (tt := t) end. clearbody s1.
  assert (H2 : DN (s1 <| s_ops := adel Nat.eqb o (s_ops s1) |>)) by (eapply DN_frame; [|exact H1]; reflexivity).
  t_DN.
Qed.

Lemma WD_run_entry : forall e s, In e (cleanup_entries s) -> WD s -> WD (run_entry e s).
Proof.
  intros e s Hin [HW H]. split; [apply (W_step1 s); [exact HW|apply WL_run_entry; exact Hin]|].
  destruct e as [z ce]. unfold run_entry. cbn [fst snd]. destruct ce as [o|w|k].
  - apply DN_operation_remove; [apply (W_step1 s); [exact HW|intro HWL; w_go2]|rewrite op_alive_upd_op; eapply cleanup_entry_op_alive; exact Hin|dn_go0].
  - unfold remove_stale_worker, mark_terminating. cbv zeta.
    set (s1 := upd_worker w (fun k => k <| k_term := true |>) (upd_worker w (fun k => k <| k_cleanup := None |>) s)).
    assert (H1 : WD s1) by (unfold s1; split; [apply (W_step1 s); [exact HW|intro HWL; w_go2]|dn_go0]). clearbody s1.
    set (s2 := match k_task (get_worker s1 w) with None => s1 | Some t => complete_task t (mkResp cUNAVAILABLE 0 0) false s1 end).
    assert (H2 : DN s2).
    { unfold s2. destruct (k_task (get_worker s1 w)) as [t|] eqn:Ek; [|exact (proj2 H1)].
      apply DN_complete_task; [exact (proj1 H1)|exact (W_pick_worker _ _ _ (proj1 H1) Ek)|exact (proj2 H1)]. }
    clearbody s2. dn_go0.
  - unfold scq_remove. cbv zeta. set (s0 := upd_scq k (fun q => q <| q_cleanup := None |>) s).
    assert (H0 : WD s0) by (unfold s0; split; [apply (W_step1 s); [exact HW|intro HWL; w_go2]|dn_go0]). clearbody s0.
    pose proof (proj2 (WD_cancel_all_queued (mkI k []) (mkResp cUNAVAILABLE 0 0) s0 H0)) as H1.
    set (s1 := cancel_all_queued _ _ s0) in *. clearbody s1. dn_go0.
Qed.

Lemma WD_enter : forall t s, WD s -> WD (enter t s).
Proof.
  intros t s H. split; [apply (W_step1 s); [exact (proj1 H)|apply WL_enter]|]. unfold enter. destruct (s_now s <? t); [|exact (proj2 H)]. cbv zeta.
  assert (Hc : WD (cleanup_run (S (List.length (s_ops (s <| s_now := t |>)) + List.length (s_scqs (s <| s_now := t |>)) + List.length (flat_map (fun '(_, q) => q_workers q) (s_scqs (s <| s_now := t |>))))) (s <| s_now := t |>))); [|exact (proj2 Hc)].
  apply cleanup_run_closed; [intros s1 w H1; wd_prim H1 | intros; apply WD_run_entry; assumption | wd_prim H].
Qed.

Lemma DN_get_next_task : forall c w b pr s, DN s -> DN (get_next_task c w b pr s).
Proof. intros. unfold get_next_task, sync_loop, assign_next_queued_task, sync_return_exec, sync_return_idle, finish_sync. dn_go0. Qed.

Lemma WD_get_current_or_next : forall c w b pr s, WD s -> WD (get_current_or_next c w b pr s).
Proof.
  intros c w b pr s [HW H]. split; [apply (W_step1 s); [exact HW|apply WL_get_current_or_next]|]. unfold get_current_or_next.
  destruct (k_task (get_worker s w)) as [t|] eqn:Ek; [|apply DN_get_next_task; exact H].
  destruct (Nat.ltb _ _); [unfold sync_return_exec, finish_sync; dn_go0|].
  apply DN_get_next_task. apply DN_complete_task; [exact HW|exact (W_pick_worker _ _ _ HW Ek)|exact H].
Qed.

Lemma WD_sync_start : forall c a s, WD s -> WD (sync_start c a s).
Proof.
  intros c a s H. apply sync_start_closed; try exact H.
  - intros s0 code H0. unfold ret. wd_prim H0.
  - intros s0 k H0. wd_prim H0.
  - intros s0 k b H0. unfold add_scq. wd_prim H0.
  - intros s0 k l m b H0. unfold add_pq. wd_prim H0.
  - intros s0 w H0. wd_prim H0.
  - intros s0 k w n H0. wd_prim H0.
  - intros s0 i H0. wd_prim H0.
  - intros s0 w code H0. unfold sync_return_err, finish_sync. wd_prim H0.
  - intros s0 w b pr H0. apply WD_get_current_or_next. exact H0.
  - intros s0 w b pr [A B]. split; [apply (W_step1 s0); [exact A|apply WL_get_next_task]|apply DN_get_next_task; exact B].
  - intros s0 w d z H0. unfold finish_sync. wd_prim H0.
  - intros s0 w t r H0 Hk. apply WD_complete_task; [exact (W_pick_worker _ _ _ (proj1 H0) Hk)|exact H0].
Qed.

Lemma DN_exec_start : forall c a s, W s -> Inf s -> DN s -> DN (exec_start c a s).
Proof.
  intros c a s HW HI H. unfold exec_start. pose proof (W_task_fresh s HW) as Hft.
  destruct (aget dkey_eqb _ _) as [t0|] eqn:Ei.
  - cbv zeta. destruct HI as [_ [I2 _]]. destruct (I2 _ _ Ei) as [x [Ex [[Hr Hd] Hk]]].
    assert (Eg : get_task s t0 = x) by (unfold get_task; rewrite Ex; reflexivity).
    set (k := task_scq (emit (OGhost GSelAbandoned) s) t0).
    set (s2 := get_or_create_invocation k (x_keys a) (emit (OGhost GSelAbandoned) s)). assert (H2 : DN s2) by (unfold s2; dn_go0).
    destruct (goc_frames k (x_keys a) (emit (OGhost GSelAbandoned) s)) as [G1 _]. fold s2 in G1.
    destruct (aget iref_eqb _ _); [unfold wait_execution_begin, stream_iter; dn_go0|].
    assert (Hd2 : t_dnc (get_task s2 t0) <> None) by (rewrite (get_task_frame (emit (OGhost GSelAbandoned) s)) by exact G1; rewrite (get_task_frame s) by reflexivity; rewrite Eg, Hd; discriminate).
    pose proof (DN_new_operation s2 t0 (x_prio a) (mkI k (x_keys a)) false Hd2 H2) as H3.
    destruct (new_operation t0 (x_prio a) (mkI k (x_keys a)) false s2) as [s3 o3]. cbn [fst] in H3. clearbody s2.
    unfold wait_execution_begin, stream_iter. dn_go0.
  - destruct (longest_prefix_pq s _ _) as [p|]; [|unfold ret; dn_go0].
    destruct (x_sel a) as [[[idx dur] timeout] l]. cbv zeta.
    set (s1 := emit (OGhost GSelect) s).
    match goal with |- context [set s_tasks (fun ts => ts ++ [(?tt, ?xx)])] => set (x := xx); set (t := tt) end.
    set (sN := s1 <| s_ntasks ::= S |> <| s_tasks ::= fun ts => ts ++ [(t, x)] |>).
    assert (HN : DN sN) by (unfold sN, t; apply DN_newtask; [intros _ Hne; exfalso; apply Hne; reflexivity|unfold s1; dn_go0]).
    set (s3 := if x_dnc a then sN else sN <| s_inflight ::= aset dkey_eqb (x_instance a, x_digest a) t |>).
    assert (H3 : DN s3 /\ s_tasks s3 = s_tasks sN) by (unfold s3; destruct (x_dnc a); [split; [exact HN|reflexivity]|split; [eapply DN_frame; [|exact HN]; reflexivity|reflexivity]]).
    destruct H3 as [H3 Et3].
    set (s4 := get_or_create_invocation (mkSK (p_key p) (nth idx (p_scs p) 0%N)) (x_keys a) s3). assert (H4 : DN s4) by (unfold s4; dn_go0).
    destruct (goc_frames (mkSK (p_key p) (nth idx (p_scs p) 0%N)) (x_keys a) s3) as [G1 _]. fold s4 in G1.
    assert (Hd4 : t_dnc (get_task s4 t) <> None).
    { rewrite (get_task_frame s3) by exact G1. rewrite (get_task_frame sN) by exact Et3. unfold sN, t. rewrite get_task_newtask.
      change (s_ntasks s1) with (s_ntasks s). change (s_tasks s1) with (s_tasks s). rewrite Hft, Nat.eqb_refl. unfold x. discriminate. }
    pose proof (DN_new_operation s4 t (x_prio a) (mkI (mkSK (p_key p) (nth idx (p_scs p) 0%N)) (x_keys a)) false Hd4 H4) as H5.
    destruct (new_operation t (x_prio a) _ false s4) as [s5 o5]. cbn [fst] in H5. clearbody s4.
    unfold wait_execution_begin, stream_iter. dn_go0.
Qed.

Lemma DN_terminate_fold : forall p l s waits,
  DN s -> DN (fst (fold_left (fun (acc : state * list (nat * nat)) w =>
        let '(s, waits) := acc in
        if matches w p then
          let s := mark_terminating w s in
          match k_task (get_worker s w) with
          | Some tk => (s, waits ++ [(tk, t_gen (get_task s tk))])
          | None => (if k_wait (get_worker s w) then wake_up w s else s, waits)
          end
        else (s, waits)) l (s, waits))).
Proof. intros p l s waits H. apply (fr_terminate_fold DN); try (intros; t_DN); try exact H. Qed.

Lemma DN_step_core : forall e s, W s -> Inf s -> DN s -> DN (step_core e s).
Proof.
  intros e s HW HI HD. assert (H : WD s) by (split; assumption).
  assert (He : forall t, WD (enter t s)) by (intro t; apply WD_enter; exact H).
  destruct e; unfold step_core.
  - destruct (He t) as [A B]. apply DN_exec_start; [exact A|apply Inf_enter; exact HI|exact B].
  - destruct (He t) as [_ B]. set (s1 := enter t s) in *. clearbody s1. cbv zeta. unfold ret. dn_go0.
  - exact (proj2 (WD_sync_start c a _ (He t))).
  - destruct (He t) as [_ B]. set (s1 := enter t s) in *. clearbody s1. unfold kill_lookup, ret. dn_go0.
  - destruct (He t) as [A B]. set (s1 := enter t s) in *. clearbody s1. cbv zeta.
    destruct (negb (scq_exists s1 k)); [unfold ret; dn_go0|]. destruct (negb _); [unfold ret; dn_go0|].
    pose proof (proj2 (WD_cancel_all_queued (mkI k []) (mkResp code 0 0) s1 (conj A B))) as Hc. set (s2 := cancel_all_queued _ _ s1) in *. clearbody s2. unfold ret. dn_go0.
  - destruct (He t) as [_ B]. set (s1 := enter t s) in *. clearbody s1. cbv zeta. unfold ret, wake_up. dn_go0.
  - destruct (He t) as [_ B]. set (s1 := enter t s) in *. clearbody s1. cbv zeta. unfold ret. dn_go0.
  - cbv zeta. destruct (He t) as [_ B]. set (s1 := enter t s) in *. clearbody s1.
    match goal with |- DN (match ?x with _ => _ end) => rewrite (surjective_pairing x) end. cbv beta iota.
    match goal with |- DN (set_call _ _ (fst (fold_left ?g ?l ?a))) => assert (H2 : DN (fst (fold_left g l a))) by (apply DN_terminate_fold; exact B) end.
    t_DN.
  - destruct (_ || _); [unfold ret; dn_go0|]. cbv zeta. destruct (He t) as [_ B]. set (s1 := enter t s) in *. clearbody s1.
    destruct (get_pq s1 k); unfold ret, add_pq; [dn_go0|].
    match goal with |- DN (set_call _ _ (emit _ (fold_left ?g ?l ?a))) => assert (H2 : DN (fold_left g l a)) end.
    { apply fold_left_pres; [intros a0 sc Ha0; unfold add_scq; dn_go0|dn_go0]. }
    dn_go0.
  - destruct (He t) as [_ B]. unfold ret. dn_go0.
  - cbv zeta. destruct (negb (at_gate s (get_call s c))); [exact HD|]. destruct (He t) as [A B]. set (s1 := enter t s) in *. clearbody s1.
    destruct (get_call s c); try exact B;
      try (unfold stream_iter, stream_return, kill_lookup, wait_execution_begin, stream_iter, ret, sync_loop, assign_next_queued_task, sync_return_exec, sync_return_err, sync_return_idle, finish_sync, maybe_dequeue, maybe_start_cleanup; dn_go0; fail).
    destruct (op_alive s1 name) eqn:Ea; [|dn_go0].
    pose proof (DN_complete_task (o_task (get_op s1 name)) (mkResp code 0 0) false s1 A (W_pick_op _ _ A Ea) B) as Hc.
    set (s2 := complete_task _ _ false s1) in *. clearbody s2. unfold ret. dn_go0.
  - cbv zeta. destruct (at_gate s (get_call s c)); [exact HD|]. destruct (He t) as [_ B]. set (s1 := enter t s) in *. clearbody s1.
    destruct (get_call s c); unfold stream_iter, sync_return_exec, sync_return_idle, finish_sync, maybe_dequeue; dn_go0.
  - cbv zeta. destruct (at_gate s (get_call s c)); [exact HD|]. destruct (get_call s c); unfold ret; dn_go0.
Qed.

Lemma DN_step : forall s eh, W s -> Inf s -> DN s -> DN (fst (step s eh)).
Proof.
  intros s eh HW HI H. unfold step. cbn [fst].
  set (s0 := s <| s_hints := snd eh |> <| s_out := [] |>).
  assert (HW0 : W s0) by (apply (W_step1 s); [exact HW|intro HWL; eapply WL_frame; [..|exact HWL]; reflexivity]).
  assert (HI0 : Inf s0) by (eapply Inf_frame; [| |exact HI]; reflexivity).
  assert (H0 : DN s0) by (eapply DN_frame; [|exact H]; reflexivity).
  pose proof (DN_step_core (fst eh) s0 HW0 HI0 H0) as H1. set (s1 := step_core (fst eh) s0) in *. clearbody s1.
  assert (H2 : DN (auto_returns s1)) by (apply (fr_auto_returns DN); try (intros; t_DN); try (intros; unfold ret; dn_go0); try exact H1).
  eapply DN_frame; [|exact H2]; reflexivity.
Qed.

Lemma DN_run : forall cfg t0 evs, DN (fst (run (init cfg t0) evs)).
Proof.
  intros cfg t0 evs.
  assert (H : forall evs s, W s /\ Inf s /\ DN s -> W (fst (run s evs)) /\ Inf (fst (run s evs)) /\ DN (fst (run s evs))).
  { induction evs0 as [|eh evs0 IH]; intros s H; [exact H|]. cbn [run]. destruct H as [A [B C]].
    assert (H1 : W (fst (step s eh)) /\ Inf (fst (step s eh)) /\ DN (fst (step s eh))) by (destruct (WI_step s eh (conj A B)) as [A1 B1]; split; [exact A1|split; [exact B1|apply DN_step; assumption]]).
    destruct (step s eh) as [s1 o]. cbn [fst] in H1. specialize (IH s1 H1). destruct (run s1 evs0) as [s2 os]. exact IH. }
  apply H. split; [apply W_init|split; [exact (proj2 (WI_init cfg t0))|]]. intro t. unfold init, get_task. cbn. exact dn_dummy.
Qed.

(* ---- the "execute" answers of a Synchronize event name the task of the calling worker ------------------------------------------------------ *)
Definition SyncW (w : wref) (s : state) : Prop :=
  forall c d z, In (OSync c d z) (s_out s) -> is_exec d = true -> exists t, k_task (get_worker s w) = Some t /\ d = exec_desired s t.

Lemma SWk_stay : forall w s, NoSX s -> SyncW w s.
Proof. intros w s H c d z Hin Hd. specialize (H _ Hin). cbn in H. congruence. Qed.

Lemma SWk_sync_return_exec : forall c w s, NoSX s -> SyncW w (sync_return_exec c w s).
Proof.
  intros c w s H. unfold sync_return_exec. destruct (k_task (get_worker s w)) as [t|] eqn:Ek.
  - set (ob := OSync c (exec_desired s t) (s_now s + cf_busy_sync (s_cfg s))).
    set (s1 := emit ob s). unfold finish_sync.
    set (s2 := match k_cleanup (get_worker s1 w) with Some _ => panic "Cleanup key is already in use" s1 | None => _ end).
    assert (F : s_tasks s2 = s_tasks s /\ k_task (get_worker s2 w) = Some t /\
                (forall o, In o (s_out s2) -> o = ob \/ is_sync_exec o = false)).
    { unfold s2. destruct (k_cleanup (get_worker s1 w)).
      - split; [reflexivity|]. split; [exact Ek|]. intros o [<-|[<-|Ho]]; [right; reflexivity|left; reflexivity|right; apply H; exact Ho].
      - split; [rewrite upd_worker_eq; reflexivity|]. split.
        + rewrite get_worker_upd_worker_ktask by reflexivity. exact Ek.
        + rewrite upd_worker_eq. intros o [<-|Ho]; [left; reflexivity|right; apply H; exact Ho]. }
    destruct F as [F1 [F2 F3]]. clearbody s2.
    intros c' d z Hin Hd. change (In (OSync c' d z) (s_out s2)) in Hin.
    destruct (F3 _ Hin) as [Heq|Hno]; [|cbn in Hno; congruence].
    unfold ob in Heq. inversion Heq; subst. exists t. split.
    + rewrite (ProofsSyncOut.get_worker_frame s2 (set_call c PDone s2) w) by reflexivity. exact F2.
    + unfold exec_desired. rewrite (get_task_frame s (set_call c PDone s2) t) by exact F1. reflexivity.
  - apply SWk_stay. unfold finish_sync. nosx_go.
Qed.

Ltac swk_base := idtac; lazymatch goal with |- SyncW _ (sync_return_exec _ _ _) => apply SWk_sync_return_exec; nosx_go end.

Lemma SWk_sync_loop : forall c w s, NoSX s -> SyncW w (sync_loop c w s).
Proof. intros c w s H. unfold sync_loop. hoare swk_base. all: apply SWk_stay; nosx_go. Qed.

Lemma SWk_get_next_task : forall c w b pr s, NoSX s -> SyncW w (get_next_task c w b pr s).
Proof.
  intros c w b pr s H. unfold get_next_task.
  hoare ltac:(first [swk_base | lazymatch goal with |- SyncW _ (sync_loop _ _ _) => apply SWk_sync_loop; nosx_go end]).
  all: apply SWk_stay; nosx_go.
Qed.

Lemma SWk_get_current_or_next : forall c w b pr s, NoSX s -> SyncW w (get_current_or_next c w b pr s).
Proof.
  intros c w b pr s H. unfold get_current_or_next.
  hoare ltac:(first [swk_base | lazymatch goal with |- SyncW _ (get_next_task _ _ _ _ _) => apply SWk_get_next_task; nosx_go end]).
  all: apply SWk_stay; nosx_go.
Qed.

Lemma SWk_sync_start : forall c a s, NoSX s -> SyncW (y_worker a) (sync_start c a s).
Proof.
  intros c a s H. unfold sync_start. cbv zeta.
  match goal with |- SyncW _ (match ?R with _ => _ end) => destruct R as [s1|code1] eqn:ER end;
    [|apply SWk_stay; nosx_go].
  assert (H1 : NoSX s1) by (sum_cases ER; injection ER as <-; unfold add_scq, add_pq; nosx_go).
  clear ER H. revert H1. generalize s1. clear s. intros s H.
  match goal with |- SyncW _ (match ?R with _ => _ end) => destruct R as [s2|code2] eqn:ER end;
    [|apply SWk_stay; nosx_go].
  assert (H2 : NoSX s2) by (sum_cases ER; injection ER as <-; nosx_go).
  clear ER H. revert H2. generalize s2. clear s. intros s H.
  hoare ltac:(first [ swk_base
    | lazymatch goal with
      | |- SyncW _ (get_next_task _ _ _ _ _) => apply SWk_get_next_task; nosx_go
      | |- SyncW _ (get_current_or_next _ _ _ _ _) => apply SWk_get_current_or_next; nosx_go
      end ]).
  all: apply SWk_stay; nosx_go.
Qed.

Lemma SyncW_ret : forall w s c code, SyncW w s -> SyncW w (ret c code s).
Proof.
  intros w s c code H c' d z Hin Hd. unfold ret, set_call, emit in Hin. cbn in Hin. destruct Hin as [Heq|Hin]; [discriminate|].
  destruct (H _ _ _ Hin Hd) as [t [Hk Hx]]. exists t. split; [exact Hk|exact Hx].
Qed.

Lemma sync_answers_caller : forall s c a t h c' d z,
  In (OSync c' d z) (snd (step s (EStartSync c a t, h))) -> is_exec d = true ->
  let s' := fst (step s (EStartSync c a t, h)) in
  exists tk, k_task (get_worker s' (y_worker a)) = Some tk /\ d = exec_desired s' tk.
Proof.
  intros s c a t h c' d z Hin Hd. unfold step in *. cbn [fst snd] in *. apply in_rev in Hin.
  set (sa := s <| s_hints := h |> <| s_out := [] |>) in *.
  assert (Ha : NoSX sa) by (intros x []).
  assert (H1 : SyncW (y_worker a) (step_core (EStartSync c a t) sa)) by (unfold step_core; apply SWk_sync_start; nosx_go).
  assert (H2 : SyncW (y_worker a) (auto_returns (step_core (EStartSync c a t) sa))).
  { apply fr_auto_returns with (P := SyncW (y_worker a)); [intros; apply SyncW_ret; assumption|exact H1]. }
  destruct (H2 _ _ _ Hin Hd) as [tk [Hk Hx]]. exists tk. split; [exact Hk|exact Hx].
Qed.

(* ---- the dump agrees --------------------------------------------------------------------------------------------------------------------------------------------- *)
Lemma c01_sync_ok : forall s w tk, C01F s -> DN s -> k_task (get_worker s w) = Some tk ->
  c01_sync (observe s) w (exec_desired s tk) = ""%string.
Proof.
  intros s w tk F HD Hk. pose proof (ktask_exists _ _ _ Hk) as He.
  pose proof (FB s F w tk He Hk) as Hw. destruct (FA s F tk w Hw) as [_ [_ [_ Hr]]]. pose proof (FMN s F tk w Hw) as Hne.
  unfold c01_sync, exec_desired. rewrite (find_dworker_of s F w He). unfold observe_worker. cbn [dw_task]. rewrite Hk. unfold task_opids.
  destruct (t_ops (get_task s tk)) as [|[i o] l] eqn:Eo; [contradiction|]. cbn [map snd].
  destruct (FO2 s F tk i o ltac:(rewrite Eo; left; reflexivity)) as [Hal [Ht _]].
  unfold op_alive in Hal. destruct (aget Nat.eqb o (s_ops s)) as [y|] eqn:Ey; [|discriminate].
  assert (Eg : get_op s o = y) by (unfold get_op; rewrite Ey; reflexivity). unfold tsk in Ht. rewrite Eg in Ht.
  rewrite (find_dop_observe s o y Ey). unfold observe_op. cbn [do_digest do_resp do_action do_qts do_suffix]. rewrite Ht, Hr, N.eqb_refl. cbn [negb].
  assert (Hd : t_dnc (get_task s tk) <> None) by (apply (HD tk Hr); rewrite Eo; discriminate).
  destruct (t_dnc (get_task s tk)) as [b|]; [|contradiction]. cbn [opt_eqb fst snd]. rewrite Bool.eqb_reflx, !Z.eqb_refl.
  rewrite (proj2 (list_eqb_N_eq _ _) eq_refl). reflexivity.
Qed.

Lemma pc_sync_ok : forall cfg t0 pfx eh m3,
  good cfg t0 (pfx ++ [eh]) -> ~ panicked (snd (run (init cfg t0) (pfx ++ [eh]))) ->
  let s := fst (run (init cfg t0) pfx) in
  pc_sync (observe (fst (step s eh))) (fst eh) (snd (step s eh)) m3 = ""%string.
Proof.
  intros cfg t0 pfx [e h] m3 Hg Hnp s. unfold pc_sync. cbn [fst]. apply first_nonempty_all_empty. intros y Hy.
  apply in_map_iff in Hy. destruct Hy as [x [<- Hx]]. destruct x as [| |c d z| |]; try reflexivity.
  destruct e as [|c' nm t|c' a t| | | | | | | | | |]; try reflexivity.
  destruct (Nat.eqb c c'); [|reflexivity].
  destruct d as [| |dg dnc tm qts sfx]; try reflexivity.
  destruct (sync_answers_caller s c' a t h c _ z Hx eq_refl) as [tk [Hk ->]].
  destruct (Cok_run (pfx ++ [(EStartSync c' a t, h)]) (init cfg t0) (proj1 Hg) (Cok_init cfg t0)) as [Hp|HC]; [contradiction|].
  rewrite run_snoc_fst in HC. fold s in HC.
  pose proof (DN_run cfg t0 (pfx ++ [(EStartSync c' a t, h)])) as HD. rewrite run_snoc_fst in HD. fold s in HD.
  apply c01_sync_ok; [apply Cok_C01F; exact HC|exact HD|exact Hk].
Qed.

Theorem monitor_sync_on_model : forall cfg t0 evs,
  selectors_in_range (init cfg t0) evs -> fresh_calls [] evs -> bg_scripts_ok evs ->
  panicked (snd (run (init cfg t0) evs)) \/ trace_sub [2%nat] cfg t0 (model_trace cfg t0 evs) = true.
Proof.
  intros cfg t0 evs Hsel Hfr Hbg.
  apply (trace_sub_generic cfg t0 [2%nat] (fun _ _ _ => True)) with (pfx := []) (m := mon0) (pre := empty_dump);
    [|split; [exact Hsel|split; assumption]|intros [o [what [[] _]]]|exact I].
  intros pfx eh m pre Hg Hnp _. cbv zeta. split; [|exact I]. cbn [forallb]. rewrite andb_true_r. apply String.eqb_eq.
  unfold p_components. cbv zeta. cbn [nth]. exact (pc_sync_ok cfg t0 pfx eh _ Hg Hnp).
Qed.
