(* C07 (scheduler part): an operation created for background learning belongs to a task that is not cacheable, and is
   listed by that task, until the task completes. *)
From Coq Require Import Lia.
From VF Require Export Sched.ProofsBg2.
From VF Require Import Sched.ProofsLearner Sched.ProofsRoute.
Open Scope Z_scope.

Definition ml_ok (s : state) (o : nat) : Prop :=
  op_alive s o = true -> o_mayexist (get_op s o) = true ->
  In o (task_opids s (o_task (get_op s o))) /\ t_dnc (get_task s (o_task (get_op s o))) = Some true.
Definition ML (s : state) : Prop := NoDup (map fst (s_ops s)) /\ forall o, ml_ok s o.

Lemma ML_frame : forall s s', s_ops s' = s_ops s -> s_tasks s' = s_tasks s -> ML s -> ML s'.
Proof.
  unfold ML, ml_ok, task_opids. intros s s' E1 E2 [A B]. split; [rewrite E1; exact A|]. intro o.
  rewrite (op_alive_frame _ _ _ E1), (get_op_frame _ _ _ E1), (get_task_frame _ _ _ E2). apply B.
Qed.

Lemma ML_upd_op : forall s o f,
  (forall x, o_task (f x) = o_task x /\ (o_mayexist (f x) = true -> o_mayexist x = true)) -> ML s -> ML (upd_op o f s).
Proof.
  unfold ML, ml_ok, task_opids. intros s o f Hf [A B]. split.
  - unfold upd_op. destruct (aget Nat.eqb o (s_ops s)); [cbn; apply (NoDup_keys_aset Nat.eqb nat_eqb_eq); exact A|exact A].
  - intro o'. rewrite op_alive_upd_op, get_op_upd_op.
    assert (Et : forall t', get_task (upd_op o f s) t' = get_task s t') by (intro; apply get_task_frame; rewrite upd_op_eq; reflexivity).
    destruct (Nat.eqb o' o && op_alive s o) eqn:E; [|rewrite !Et; apply B].
    apply andb_true_iff in E. destruct E as [E _]. apply Nat.eqb_eq in E. subst o'. destruct (Hf (get_op s o)) as [E1 E2]. rewrite E1, !Et.
    intros Ha Hm. apply B; [exact Ha|apply E2; exact Hm].
Qed.

Lemma ML_upd_task : forall s t f,
  (t_dnc (f (get_task s t)) = t_dnc (get_task s t) /\
   forall o, op_alive s o = true -> In o (map snd (t_ops (get_task s t))) -> In o (map snd (t_ops (f (get_task s t))))) ->
  ML s -> ML (upd_task t f s).
Proof.
  unfold ML, ml_ok, task_opids. intros s t f [H1 H2] [A B]. split; [rewrite upd_task_eq; exact A|]. intro o.
  rewrite (op_alive_frame s) by (rewrite upd_task_eq; reflexivity). rewrite (get_op_frame s) by (rewrite upd_task_eq; reflexivity).
  rewrite get_task_upd_task. intros Ha Hm. destruct (B o Ha Hm) as [C D].
  destruct (Nat.eqb (o_task (get_op s o)) t) eqn:E; [|auto]. apply Nat.eqb_eq in E. rewrite E in *. split; [apply H2; assumption|congruence].
Qed.

Lemma ML_newtask : forall s x, ML s -> ML (s <| s_ntasks ::= S |> <| s_tasks ::= fun l => l ++ [(s_ntasks s, x)] |>).
Proof.
  unfold ML, ml_ok, task_opids. intros s x [A B]. split; [exact A|]. intro o.
  rewrite (op_alive_frame s) by reflexivity. rewrite (get_op_frame s) by reflexivity. rewrite get_task_newtask.
  intros Ha Hm. destruct (B o Ha Hm) as [C D]. unfold get_task in C, D.
  destruct (aget Nat.eqb (o_task (get_op s o)) (s_tasks s)); [auto|cbn in D; discriminate].
Qed.

Lemma ML_newop : forall s x, aget Nat.eqb (s_nops s) (s_ops s) = None ->
  (o_mayexist x = true -> In (s_nops s) (task_opids s (o_task x)) /\ t_dnc (get_task s (o_task x)) = Some true) ->
  ML s -> ML (s <| s_nops ::= S |> <| s_ops ::= fun l => l ++ [(s_nops s, x)] |>).
Proof.
  unfold ML, ml_ok, task_opids. intros s x Hfo Hx [A B]. split.
  - cbn. rewrite map_app. cbn. apply NoDup_snoc; [apply (aget_None_notin Nat.eqb nat_eqb_eq); exact Hfo|exact A].
  - intro o. rewrite op_alive_newop, get_op_newop.
    assert (Et : forall t', get_task (s <| s_nops ::= S |> <| s_ops ::= fun l => l ++ [(s_nops s, x)] |>) t' = get_task s t') by (intro; apply get_task_frame; reflexivity).
    unfold op_alive. destruct (aget Nat.eqb o (s_ops s)) as [y|] eqn:E.
    + intros _ Hm. rewrite !Et. assert (Ey : get_op s o = y) by (unfold get_op; rewrite E; reflexivity). rewrite <- Ey in *.
      apply B; [unfold op_alive; rewrite E; reflexivity|exact Hm].
    + cbn. destruct (Nat.eqb o (s_nops s)) eqn:E2; [|discriminate]. apply Nat.eqb_eq in E2. subst o. intros _ Hm. rewrite !Et. exact (Hx Hm).
Qed.

Lemma ML_delop : forall s o, ML s -> ML (s <| s_ops := adel Nat.eqb o (s_ops s) |>).
Proof.
  unfold ML, ml_ok, task_opids. intros s o [A B]. split; [cbn; apply (NoDup_keys_adel Nat.eqb); exact A|]. intro o'.
  assert (Et : forall t', get_task (s <| s_ops := adel Nat.eqb o (s_ops s) |>) t' = get_task s t') by (intro; apply get_task_frame; reflexivity).
  unfold op_alive, get_op. cbn.
  destruct (Nat.eqb o' o) eqn:E.
  - apply Nat.eqb_eq in E. subst. rewrite (aget_adel_same Nat.eqb nat_eqb_eq) by exact A. discriminate.
  - rewrite (aget_adel_other Nat.eqb nat_eqb_eq) by (intros ->; rewrite Nat.eqb_refl in E; discriminate).
    rewrite !Et. apply B.
Qed.

Lemma ML_new_operation : forall s t prio i m,
  aget Nat.eqb (s_nops s) (s_ops s) = None -> (m = true -> t_dnc (get_task s t) = Some true) ->
  ML s -> ML (fst (new_operation t prio i m s)).
Proof.
  intros s t prio i m Hfo Hm H. unfold new_operation. cbn [fst]. set (o := s_nops s).
  set (sO := s <| s_nops ::= S |> <| s_ops ::= fun l => l ++ [(o, mkOper t prio i 0 m None)] |>).
  destruct H as [A B]. unfold ML, ml_ok, task_opids. split.
  - rewrite upd_task_eq. cbn. rewrite map_app. cbn. apply NoDup_snoc; [apply (aget_None_notin Nat.eqb nat_eqb_eq); exact Hfo|exact A].
  - intro o'. rewrite (op_alive_frame sO) by (rewrite upd_task_eq; reflexivity). rewrite (get_op_frame sO) by (rewrite upd_task_eq; reflexivity).
    unfold sO, o. rewrite op_alive_newop, get_op_newop. rewrite !get_task_upd_task.
    assert (Et : forall t', get_task sO t' = get_task s t') by (intro; apply get_task_frame; reflexivity). fold o. fold sO. rewrite !Et.
    unfold op_alive. destruct (aget Nat.eqb o' (s_ops s)) as [y|] eqn:E.
    + intros _ Hmy. assert (Ey : get_op s o' = y) by (unfold get_op; rewrite E; reflexivity). rewrite <- Ey in *.
      destruct (B o' ltac:(unfold op_alive; rewrite E; reflexivity) Hmy) as [C D].
      destruct (Nat.eqb (o_task (get_op s o')) t) eqn:E2; [|auto]. apply Nat.eqb_eq in E2. rewrite E2 in *. cbn [t_ops t_dnc set].
      split; [rewrite map_app; apply in_or_app; left; exact C|exact D].
    + cbn. destruct (Nat.eqb o' o) eqn:E2; [|discriminate]. apply Nat.eqb_eq in E2. subst o'. cbn [o_task o_mayexist]. intros _ Hmt.
      rewrite Nat.eqb_refl. cbn [t_ops t_dnc set]. split; [rewrite map_app; apply in_or_app; right; left; reflexivity|exact (Hm Hmt)].
Qed.

Ltac t_ML :=
  intros;
  lazymatch goal with
  | |- ML (upd_op _ _ _) => apply ML_upd_op; [let x := fresh "x" in intro x; split; [reflexivity | cbn; first [(intro; assumption) | discriminate]] | assumption]
  | |- ML (upd_task _ _ _) =>
    apply ML_upd_task; [split; [reflexivity | cbn; intros; first [assumption | (rewrite map_app; apply in_or_app; left; assumption) | (rewrite map_map; cbn; match goal with H : In _ (map snd ?l) |- _ => rewrite (map_ext (fun x => snd (let '(i, o) := x in (_, o))) snd) by (intros [? ?]; reflexivity); exact H end)]] | assumption]
  | |- ML (set s_tasks _ (set s_ntasks _ _)) => apply ML_newtask; assumption
  | |- ML (set s_ops (fun _ => adel Nat.eqb _ _) _) => apply ML_delop; assumption
  | |- _ => (eapply ML_frame; [| |eassumption]); frame_eq
  end.
Ltac ml_go0 := inv_go fail t_ML.

Lemma ML_ct_prefix : forall t b s, ML s -> ML (ct_prefix t b s).
Proof. intros. unfold ct_prefix. ml_go0. Qed.
Lemma ML_schedule : forall t s, ML s -> ML (schedule t s).
Proof. intros. ml_go0. Qed.

(* ---- the response: the operations of the task are handed over ------------------------------------------------------------------------------ *)
Definition clear_step (s : state) (o : nat) : state :=
  if o_mayexist (get_op s o) then maybe_start_cleanup o (upd_op o (fun y => y <| o_mayexist := false |>) s) else s.

Lemma clear_step_reads : forall s o,
  let s' := clear_step s o in
  s_tasks s' = s_tasks s /\ map fst (s_ops s') = map fst (s_ops s) /\
  (forall o', op_alive s' o' = op_alive s o') /\ (forall o', o_task (get_op s' o') = o_task (get_op s o')) /\
  (forall o', o_mayexist (get_op s' o') = true -> o_mayexist (get_op s o') = true /\ o' <> o).
Proof.
  intros s o. unfold clear_step. cbv zeta. destruct (o_mayexist (get_op s o)) eqn:Em.
  2:{ repeat split; auto. intros ->. congruence. }
  set (s1 := upd_op o (fun y => y <| o_mayexist := false |>) s).
  assert (H1 : s_tasks s1 = s_tasks s /\ map fst (s_ops s1) = map fst (s_ops s) /\ (forall o', op_alive s1 o' = op_alive s o') /\
               (forall o', o_task (get_op s1 o') = o_task (get_op s o')) /\
               (forall o', o_mayexist (get_op s1 o') = true -> o_mayexist (get_op s o') = true /\ o' <> o)).
  { split; [unfold s1; rewrite upd_op_eq; reflexivity|]. split.
    - unfold s1, upd_op. destruct (aget Nat.eqb o (s_ops s)) eqn:E; [|reflexivity]. cbn. rewrite (map_fst_aset Nat.eqb nat_eqb_eq), E. reflexivity.
    - split; [intro; unfold s1; apply op_alive_upd_op|]. split; intro o'; unfold s1; rewrite get_op_upd_op; destruct (Nat.eqb o' o && op_alive s o) eqn:E.
      + apply andb_true_iff in E. destruct E as [E _]. apply Nat.eqb_eq in E. subst. reflexivity.
      + reflexivity.
      + cbn. discriminate.
      + intro H. split; [exact H|]. intros ->. rewrite Nat.eqb_refl in E. cbn in E. unfold op_alive, get_op in *. destruct (aget Nat.eqb o (s_ops s)); [discriminate|cbn in H; discriminate]. }
  clearbody s1. destruct H1 as [A [B [C [D E]]]]. unfold maybe_start_cleanup.
  destruct (_ && _); [|auto]. destruct (o_cleanup (get_op s1 o)); [auto|].
  set (s2 := upd_op o _ s1).
  split; [unfold s2; rewrite upd_op_eq; exact A|]. split.
  - rewrite <- B. unfold s2, upd_op. destruct (aget Nat.eqb o (s_ops s1)) eqn:E1; [|reflexivity]. cbn. rewrite (map_fst_aset Nat.eqb nat_eqb_eq), E1. reflexivity.
  - split; [intro o'; unfold s2; rewrite op_alive_upd_op; apply C|]. split; intro o'; unfold s2; rewrite get_op_upd_op; destruct (Nat.eqb o' o && op_alive s1 o) eqn:E2.
    + apply andb_true_iff in E2. destruct E2 as [E2 _]. apply Nat.eqb_eq in E2. subst. cbn. apply D.
    + apply D.
    + apply andb_true_iff in E2. destruct E2 as [E2 _]. apply Nat.eqb_eq in E2. subst. cbn. apply E.
    + apply E.
Qed.

Lemma ML_final : forall t r s, ML s ->
  ML (fold_left (fun s o => if o_mayexist (get_op s o) then maybe_start_cleanup o (upd_op o (fun y => y <| o_mayexist := false |>) s) else s)
                (task_opids (upd_task t (fun x => x <| t_resp := Some r |> <| t_dnc := None |>) s) t)
                (upd_task t (fun x => x <| t_resp := Some r |> <| t_dnc := None |>) s)).
Proof.
  intros t r s [A B]. set (s1 := upd_task t _ s). change (fun s o => if o_mayexist (get_op s o) then _ else s) with clear_step.
  assert (Hl : task_opids s1 t = task_opids s t) by (unfold task_opids, s1; rewrite get_task_upd_task, Nat.eqb_refl; reflexivity).
  rewrite Hl.
  assert (Hgen : forall l a, s_tasks a = s_tasks s1 -> map fst (s_ops a) = map fst (s_ops s) -> (forall o', op_alive a o' = op_alive s o') ->
            (forall o', o_task (get_op a o') = o_task (get_op s o')) -> (forall o', o_mayexist (get_op a o') = true -> o_mayexist (get_op s o') = true) ->
            let a' := fold_left clear_step l a in
            s_tasks a' = s_tasks s1 /\ map fst (s_ops a') = map fst (s_ops s) /\ (forall o', op_alive a' o' = op_alive s o') /\
            (forall o', o_task (get_op a' o') = o_task (get_op s o')) /\
            (forall o', o_mayexist (get_op a' o') = true -> o_mayexist (get_op s o') = true /\ ~ In o' l)).
  { induction l as [|o l IH]; intros a E1 E2 E3 E4 E5; cbn [fold_left]; [repeat split; auto|].
    destruct (clear_step_reads a o) as [R1 [R2 [R3 [R4 R5]]]]. cbv zeta in *.
    destruct (IH (clear_step a o)) as [I1 [I2 [I3 [I4 I5]]]]; [congruence|congruence|intro; rewrite R3; apply E3|intro; rewrite R4; apply E4|intros o' Ho'; apply E5; exact (proj1 (R5 o' Ho'))|].
    split; [exact I1|]. split; [exact I2|]. split; [exact I3|]. split; [exact I4|].
    intros o' Ho'. destruct (I5 o' Ho') as [J1 J2]. split; [exact J1|]. intros [->|Hin]; [|contradiction].
    (* o' itself was cleared by the first step and never set again *)
    assert (Hm : forall l0 a0, o_mayexist (get_op a0 o') = false -> o_mayexist (get_op (fold_left clear_step l0 a0) o') = false).
    { induction l0 as [|o0 l0 IH0]; intros a0 H0; cbn [fold_left]; [exact H0|]. apply IH0.
      destruct (o_mayexist (get_op (clear_step a0 o0) o')) eqn:E; [|reflexivity]. destruct (clear_step_reads a0 o0) as [_ [_ [_ [_ Q]]]]. destruct (Q o' E). congruence. }
    assert (H0 : o_mayexist (get_op (clear_step a o') o') = false).
    { destruct (o_mayexist (get_op (clear_step a o') o')) eqn:E; [|reflexivity]. destruct (R5 o' E) as [_ Hne]. contradiction. }
    rewrite (Hm l _ H0) in Ho'. discriminate. }
  destruct (Hgen (task_opids s t) s1) as [I1 [I2 [I3 [I4 I5]]]]; try (unfold s1; rewrite upd_task_eq; reflexivity);
    try (intro; unfold s1; rewrite ?(op_alive_frame s), ?(get_op_frame s) by (rewrite upd_task_eq; reflexivity); auto; fail).
  cbv zeta in *. set (sf := fold_left clear_step (task_opids s t) s1) in *.
  split; [rewrite I2; exact A|]. intros o Ha Hm. unfold task_opids. rewrite I3 in Ha. rewrite I4. destruct (I5 o Hm) as [Hm0 Hnl].
  destruct (B o Ha Hm0) as [C D]. rewrite (get_task_frame _ _ _ I1). unfold s1. rewrite get_task_upd_task.
  destruct (Nat.eqb (o_task (get_op s o)) t) eqn:E; [|auto]. apply Nat.eqb_eq in E. rewrite E in C. contradiction.
Qed.

(* ---- task.complete -------------------------------------------------------------------------------------------------------------------------------------------- *)
Lemma ML_ct_learner : forall t r b x p k s,
  aget Nat.eqb (s_ntasks s) (s_tasks s) = None -> aget Nat.eqb (s_nops s) (s_ops s) = None -> (t < s_ntasks s)%nat ->
  ML s -> ML (fst (ct_learner t r b x p k s)).
Proof.
  intros t r b x p k s Hft Hfo Ht H. unfold ct_learner.
  destruct (t_learner x) as [l|]; [|cbn [fst]; ml_go0].
  destruct (resp_success r).
  - cbv zeta. set (s1 := upd_task t _ (emit _ s)). assert (H1 : ML s1) by (unfold s1; ml_go0).
    destruct (l_succ l) as [[[[bidx bdur] btimeout] bl]|]; [|exact H1].
    destruct (Nat.eqb (p_maxbg p) 0); [cbn [fst]; ml_go0|].
    set (bk := mkSK (sk_pk k) (nth bidx (p_scs p) 0%N)).
    set (s2 := get_or_create_invocation bk [4294967295%N] s1). assert (H2 : ML s2) by (unfold s2; ml_go0).
    destruct (goc_frames bk [4294967295%N] s1) as [G1 [G2 _]]. destruct (get_or_create_invocation_tasks bk [4294967295%N] s1) as [_ [G3 G4]]. fold s2 in G1, G2, G3, G4.
    assert (Hft2 : aget Nat.eqb (s_ntasks s2) (s_tasks s2) = None).
    { rewrite G4, G1. unfold s1. cbn. rewrite (aget_aset_other Nat.eqb nat_eqb_eq); [exact Hft|]. lia. }
    assert (Hfo2 : aget Nat.eqb (s_nops s2) (s_ops s2) = None) by (rewrite G3, G2; unfold s1; rewrite upd_task_eq; cbn; exact Hfo).
    clearbody s2. destruct (Nat.leb _ _); [cbn [fst]; ml_go0|]. cbv zeta.
    set (xb := mkTask [] (t_instance x) (t_digest x) (Some true) btimeout (t_qts x) (t_suffix x) None 0 bdur (Some bl) None 0).
    set (sN := s2 <| s_ntasks ::= S |> <| s_tasks ::= fun l0 => l0 ++ [(s_ntasks s2, xb)] |>).
    assert (HN : ML sN) by (unfold sN; apply ML_newtask; exact H2).
    assert (Eg : get_task sN (s_ntasks s2) = xb) by (unfold sN; rewrite get_task_newtask, Hft2, Nat.eqb_refl; reflexivity).
    pose proof (ML_new_operation sN (s_ntasks s2) (p_bgprio p) (mkI bk [4294967295%N]) true Hfo2 (fun _ => ltac:(rewrite Eg; reflexivity)) HN) as H3.
    destruct (new_operation (s_ntasks s2) (p_bgprio p) (mkI bk [4294967295%N]) true sN) as [s3 o3]. cbn [fst] in *. apply ML_schedule. exact H3.
  - destruct b; cbv zeta; [destruct (l_fail l) as [[[d tm] nl]|]|]; cbn [fst]; ml_go0.
Qed.

Lemma ML_retarget_fold : forall lk l s, ML s -> ML (retarget_fold lk l s).
Proof.
  intros lk l. induction l as [|[i o] l IH]; intros s H; cbn [retarget_fold fold_left]; [exact H|].
  fold (retarget_fold lk l (upd_op o (fun y => y <| o_inv := mkI lk (i_path i) |>) s)). apply IH. t_ML.
Qed.

Lemma ML_ct_tail : forall t r x p k s retry, ML s -> ML (ct_tail t r x p k s retry).
Proof.
  intros t r x p k s retry H. unfold ct_tail. destruct retry as [[d tm]|].
  - cbv zeta. set (lk := mkSK (sk_pk k) (largest_sc p)). set (old := t_ops (get_task s t)).
    destruct (goc_fold_frames lk old s) as [G1 _]. set (s6 := fold_left _ old s) in *.
    assert (H6 : ML s6) by (unfold s6; ml_go0).
    assert (Eold : old = t_ops (get_task s6 t)) by (unfold old; symmetry; f_equal; apply get_task_frame; exact G1).
    clearbody s6. clear H. clearbody old. subst old.
    set (s7 := upd_task t _ s6).
    assert (H7 : ML s7).
    { unfold s7. apply ML_upd_task; [|exact H6]. split; [reflexivity|]. cbn [t_ops set]. intros o _ Hin. rewrite map_map.
      rewrite (map_ext _ snd) by (intros [? ?]; reflexivity). exact Hin. }
    clearbody s7. fold (retarget_fold lk (t_ops (get_task s6 t)) s7).
    pose proof (ML_retarget_fold lk (t_ops (get_task s6 t)) s7 H7) as H8. set (s8 := retarget_fold _ _ s7) in *. clearbody s8.
    unfold report_non_final_stage_change. ml_go0.
  - cbv zeta. set (s0 := match aget dkey_eqb _ (s_inflight s) with Some t' => if Nat.eqb t t' then _ else s | None => s end).
    assert (H0 : ML s0) by (unfold s0; destruct (aget dkey_eqb _ _) as [t'|]; [destruct (Nat.eqb t t'); [t_ML|exact H]|exact H]).
    clearbody s0. apply ML_final. exact H0.
Qed.

Lemma ML_complete_task : forall t r b s, W s -> (t < s_ntasks s)%nat -> ML s -> ML (complete_task t r b s).
Proof.
  intros t r b s HW Ht H. rewrite complete_task_eq2. destruct (t_resp (get_task s t)); [exact H|]. cbv zeta.
  pose proof (ML_ct_prefix t b s H) as H4.
  assert (HW4 : W (ct_prefix t b s)) by (apply (W_of_WL_step t s _ HW Ht); intro HWL; unfold ct_prefix; w_go2).
  assert (Hn4 : s_ntasks (ct_prefix t b s) = s_ntasks s).
  { assert (Hk : keeps_counts (s_ntasks s) (s_nops s) (ct_prefix t b s)); [|exact (proj1 Hk)].
    assert (H0 : keeps_counts (s_ntasks s) (s_nops s) s) by (split; reflexivity). unfold ct_prefix. fr_go (keeps_counts (s_ntasks s) (s_nops s)) t_counts. }
  set (s4 := ct_prefix t b s) in *. clearbody s4.
  destruct (get_pq s4 _) as [p|]; [|t_ML].
  pose proof (ML_ct_learner t r b (get_task s t) p (task_scq s t) s4 (W_task_fresh _ HW4) (W_op_fresh _ HW4) ltac:(lia) H4) as H5.
  destruct (ct_learner t r b (get_task s t) p (task_scq s t) s4) as [s5 retry]. cbn [fst] in H5. apply ML_ct_tail. exact H5.
Qed.

(* ---- everything else ---------------------------------------------------------------------------------------------------------------------------------------------- *)
Definition WM (s : state) : Prop := W s /\ ML s.
Ltac wm_prim H := destruct H as [HWx HMx]; split; [match type of HWx with W ?s0 => apply (W_step1 s0); [exact HWx|let HWL := fresh "HWL" in intro HWL; w_go2] end|ml_go0].

Lemma WM_complete_task : forall t r b s, (t < s_ntasks s)%nat -> WM s -> WM (complete_task t r b s).
Proof.
  intros t r b s Ht [A B]. split; [apply (W_of_WL_step t s _ A Ht); apply WL_complete_task; left; reflexivity|apply ML_complete_task; assumption].
Qed.

Lemma WM_cancel_all_queued : forall i r s, WM s -> WM (cancel_all_queued i r s).
Proof.
  intros i r s H. rewrite cancel_all_queued_eq. apply cancel_go_closed; [|exact H].
  intros s1 d v o tl H1 Hin Hq. apply WM_complete_task; [|exact H1]. exact (W_pick_qop _ _ _ _ _ (proj1 H1) Hin Hq).
Qed.

Lemma ML_operation_remove : forall o s, W s -> op_alive s o = true -> ML s -> ML (operation_remove o s).
Proof.
  intros o s HW Ha H. pose proof (W_pick_op _ _ HW Ha) as Hlt. unfold operation_remove. cbv zeta.
  match goal with |- ML (upd_task ?t _ (set s_ops _ ?e)) => assert (H1 : ML e) end.
  { destruct (Nat.eqb _ 1); [apply ML_complete_task; [exact HW|exact Hlt|exact H]|].
    unfold task_stage. destruct (t_resp (get_task s (o_task (get_op s o)))); [destruct (t_worker (get_task s (o_task (get_op s o)))); exact H|].
    destruct (t_worker (get_task s (o_task (get_op s o)))) as [w|]; cbv iota; [ml_go0|].
    match goal with |- ML (fst (fold_left ?g ?l ?a)) => apply (fold_left_pres (fun acc => ML (fst acc)) g l) end; [|cbn [fst]; ml_go0].
    intros [s1 go] j Hs1. cbn [fst] in *. destruct go; [ml_go0|exact Hs1]. }
  match goal with |- ML (upd_task ?t _ (set s_ops _ ?e)) => set (s1 := e) in *; set (tt := t) end. clearbody s1.
  assert (H2 : ML (s1 <| s_ops := adel Nat.eqb o (s_ops s1) |>)) by (apply ML_delop; exact H1).
  apply ML_upd_task; [|exact H2]. split; [reflexivity|]. cbn [t_ops set]. intros o' Ha' Hin.
  assert (Hne : o' <> o).
  { intros ->. unfold op_alive in Ha'. cbn in Ha'. rewrite (aget_adel_same Nat.eqb nat_eqb_eq) in Ha' by exact (proj1 H1). discriminate. }
  rewrite (get_task_frame s1) in Hin |- * by reflexivity. apply in_map_iff in Hin. destruct Hin as [[i0 o0] [E Hin]]. cbn in E. subst o0.
  apply in_map_iff. exists (i0, o'). split; [reflexivity|]. apply filter_In. split; [exact Hin|]. apply negb_true_iff. apply Nat.eqb_neq. congruence.
Qed.

Lemma WM_run_entry : forall e s, In e (cleanup_entries s) -> WM s -> WM (run_entry e s).
Proof.
  intros e s Hin [HW H]. split; [apply (W_step1 s); [exact HW|apply WL_run_entry; exact Hin]|].
  destruct e as [z ce]. unfold run_entry. cbn [fst snd]. destruct ce as [o|w|k].
  - apply ML_operation_remove; [apply (W_step1 s); [exact HW|intro HWL; w_go2]|rewrite op_alive_upd_op; eapply cleanup_entry_op_alive; exact Hin|ml_go0].
  - unfold remove_stale_worker, mark_terminating. cbv zeta.
    set (s1 := upd_worker w (fun k => k <| k_term := true |>) (upd_worker w (fun k => k <| k_cleanup := None |>) s)).
    assert (H1 : WM s1) by (unfold s1; split; [apply (W_step1 s); [exact HW|intro HWL; w_go2]|ml_go0]). clearbody s1.
    set (s2 := match k_task (get_worker s1 w) with None => s1 | Some t => complete_task t (mkResp cUNAVAILABLE 0 0) false s1 end).
    assert (H2 : ML s2).
    { unfold s2. destruct (k_task (get_worker s1 w)) as [t|] eqn:Ek; [|exact (proj2 H1)].
      apply ML_complete_task; [exact (proj1 H1)|exact (W_pick_worker _ _ _ (proj1 H1) Ek)|exact (proj2 H1)]. }
    clearbody s2. ml_go0.
  - unfold scq_remove. cbv zeta. set (s0 := upd_scq k (fun q => q <| q_cleanup := None |>) s).
    assert (H0 : WM s0) by (unfold s0; split; [apply (W_step1 s); [exact HW|intro HWL; w_go2]|ml_go0]). clearbody s0.
    pose proof (proj2 (WM_cancel_all_queued (mkI k []) (mkResp cUNAVAILABLE 0 0) s0 H0)) as H1.
    set (s1 := cancel_all_queued _ _ s0) in *. clearbody s1. ml_go0.
Qed.

Lemma WM_enter : forall t s, WM s -> WM (enter t s).
Proof.
  intros t s H. split; [apply (W_step1 s); [exact (proj1 H)|apply WL_enter]|]. unfold enter. destruct (s_now s <? t); [|exact (proj2 H)]. cbv zeta.
  assert (Hc : WM (cleanup_run (S (List.length (s_ops (s <| s_now := t |>)) + List.length (s_scqs (s <| s_now := t |>)) + List.length (flat_map (fun '(_, q) => q_workers q) (s_scqs (s <| s_now := t |>))))) (s <| s_now := t |>))); [|exact (proj2 Hc)].
  apply cleanup_run_closed; [intros s1 w H1; wm_prim H1 | intros; apply WM_run_entry; assumption | wm_prim H].
Qed.

Lemma ML_get_next_task : forall c w b pr s, ML s -> ML (get_next_task c w b pr s).
Proof. intros. unfold get_next_task, sync_loop, assign_next_queued_task, sync_return_exec, sync_return_idle, finish_sync. ml_go0. Qed.

Lemma WM_get_current_or_next : forall c w b pr s, WM s -> WM (get_current_or_next c w b pr s).
Proof.
  intros c w b pr s [HW H]. split; [apply (W_step1 s); [exact HW|apply WL_get_current_or_next]|]. unfold get_current_or_next.
  destruct (k_task (get_worker s w)) as [t|] eqn:Ek; [|apply ML_get_next_task; exact H].
  destruct (Nat.ltb _ _); [unfold sync_return_exec, finish_sync; ml_go0|].
  apply ML_get_next_task. apply ML_complete_task; [exact HW|exact (W_pick_worker _ _ _ HW Ek)|exact H].
Qed.

Lemma WM_sync_start : forall c a s, WM s -> WM (sync_start c a s).
Proof.
  intros c a s H. apply sync_start_closed; try exact H.
  - intros s0 code H0. unfold ret. wm_prim H0.
  - intros s0 k H0. wm_prim H0.
  - intros s0 k b H0. unfold add_scq. wm_prim H0.
  - intros s0 k l m b H0. unfold add_pq. wm_prim H0.
  - intros s0 w H0. wm_prim H0.
  - intros s0 k w n H0. wm_prim H0.
  - intros s0 i H0. wm_prim H0.
  - intros s0 w code H0. unfold sync_return_err, finish_sync. wm_prim H0.
  - intros s0 w b pr H0. apply WM_get_current_or_next. exact H0.
  - intros s0 w b pr [A B]. split; [apply (W_step1 s0); [exact A|apply WL_get_next_task]|apply ML_get_next_task; exact B].
  - intros s0 w d z H0. unfold finish_sync. wm_prim H0.
  - intros s0 w t r H0 Hk. apply WM_complete_task; [exact (W_pick_worker _ _ _ (proj1 H0) Hk)|exact H0].
Qed.

Lemma ML_exec_start : forall c a s, W s -> ML s -> ML (exec_start c a s).
Proof.
  intros c a s HW H. unfold exec_start. pose proof (W_op_fresh s HW) as Hfo.
  destruct (aget dkey_eqb _ _) as [t0|].
  - cbv zeta. set (k := task_scq (emit (OGhost GSelAbandoned) s) t0).
    set (s2 := get_or_create_invocation k (x_keys a) (emit (OGhost GSelAbandoned) s)). assert (H2 : ML s2) by (unfold s2; ml_go0).
    destruct (goc_frames k (x_keys a) (emit (OGhost GSelAbandoned) s)) as [_ [G2 _]]. destruct (get_or_create_invocation_tasks k (x_keys a) (emit (OGhost GSelAbandoned) s)) as [_ [G3 _]]. fold s2 in G2, G3.
    destruct (aget iref_eqb _ _); [unfold wait_execution_begin, stream_iter; ml_go0|].
    assert (Hfo2 : aget Nat.eqb (s_nops s2) (s_ops s2) = None) by (rewrite G3, G2; exact Hfo).
    pose proof (ML_new_operation s2 t0 (x_prio a) (mkI k (x_keys a)) false Hfo2 ltac:(discriminate) H2) as H3.
    destruct (new_operation t0 (x_prio a) (mkI k (x_keys a)) false s2) as [s3 o3]. cbn [fst] in H3. clearbody s2.
    unfold wait_execution_begin, stream_iter. ml_go0.
  - destruct (longest_prefix_pq s _ _) as [p|]; [|unfold ret; ml_go0].
    destruct (x_sel a) as [[[idx dur] timeout] l]. cbv zeta.
    set (s1 := emit (OGhost GSelect) s).
    match goal with |- context [set s_tasks (fun ts => ts ++ [(?tt, ?xx)])] => set (x := xx); set (t := tt) end.
    set (sN := s1 <| s_ntasks ::= S |> <| s_tasks ::= fun ts => ts ++ [(t, x)] |>).
    assert (HN : ML sN) by (unfold sN, t; apply ML_newtask; unfold s1; ml_go0).
    set (s3 := if x_dnc a then sN else sN <| s_inflight ::= aset dkey_eqb (x_instance a, x_digest a) t |>).
    assert (H3 : ML s3 /\ s_ops s3 = s_ops s /\ s_nops s3 = s_nops s) by (unfold s3; destruct (x_dnc a); [split; [exact HN|split; reflexivity]|split; [eapply ML_frame; [| |exact HN]; reflexivity|split; reflexivity]]).
    destruct H3 as [H3 [Eo3 En3]]. clearbody s3.
    set (s4 := get_or_create_invocation (mkSK (p_key p) (nth idx (p_scs p) 0%N)) (x_keys a) s3). assert (H4 : ML s4) by (unfold s4; ml_go0).
    destruct (goc_frames (mkSK (p_key p) (nth idx (p_scs p) 0%N)) (x_keys a) s3) as [_ [G2 _]]. destruct (get_or_create_invocation_tasks (mkSK (p_key p) (nth idx (p_scs p) 0%N)) (x_keys a) s3) as [_ [G3 _]]. fold s4 in G2, G3.
    assert (Hfo4 : aget Nat.eqb (s_nops s4) (s_ops s4) = None) by (rewrite G3, G2, Eo3, En3; exact Hfo).
    pose proof (ML_new_operation s4 t (x_prio a) (mkI (mkSK (p_key p) (nth idx (p_scs p) 0%N)) (x_keys a)) false Hfo4 ltac:(discriminate) H4) as H5.
    destruct (new_operation t (x_prio a) _ false s4) as [s5 o5]. cbn [fst] in H5. clearbody s4.
    unfold wait_execution_begin, stream_iter. ml_go0.
Qed.

Lemma ML_terminate_fold : forall p l s waits,
  ML s -> ML (fst (fold_left (fun (acc : state * list (nat * nat)) w =>
        let '(s, waits) := acc in
        if matches w p then
          let s := mark_terminating w s in
          match k_task (get_worker s w) with
          | Some tk => (s, waits ++ [(tk, t_gen (get_task s tk))])
          | None => (if k_wait (get_worker s w) then wake_up w s else s, waits)
          end
        else (s, waits)) l (s, waits))).
Proof. intros p l s waits H. apply (fr_terminate_fold ML); try (intros; t_ML); try exact H. Qed.

Lemma WM_step_core : forall e s, WM s -> WM (step_core e s).
Proof.
  intros e s H. split; [apply (W_step1 s); [exact (proj1 H)|apply WL_step_core]|].
  assert (He : forall t, WM (enter t s)) by (intro t; apply WM_enter; exact H).
  destruct e; unfold step_core.
  - destruct (He t) as [A B]. apply ML_exec_start; assumption.
  - destruct (He t) as [_ B]. set (s1 := enter t s) in *. clearbody s1. cbv zeta. unfold ret. ml_go0.
  - exact (proj2 (WM_sync_start c a _ (He t))).
  - destruct (He t) as [_ B]. set (s1 := enter t s) in *. clearbody s1. unfold kill_lookup, ret. ml_go0.
  - destruct (He t) as [A B]. set (s1 := enter t s) in *. clearbody s1. cbv zeta.
    destruct (negb (scq_exists s1 k)); [unfold ret; ml_go0|]. destruct (negb _); [unfold ret; ml_go0|].
    pose proof (proj2 (WM_cancel_all_queued (mkI k []) (mkResp code 0 0) s1 (conj A B))) as Hc. set (s2 := cancel_all_queued _ _ s1) in *. clearbody s2. unfold ret. ml_go0.
  - destruct (He t) as [_ B]. set (s1 := enter t s) in *. clearbody s1. cbv zeta. unfold ret, wake_up. ml_go0.
  - destruct (He t) as [_ B]. set (s1 := enter t s) in *. clearbody s1. cbv zeta. unfold ret. ml_go0.
  - cbv zeta. destruct (He t) as [_ B]. set (s1 := enter t s) in *. clearbody s1.
    match goal with |- ML (match ?x with _ => _ end) => rewrite (surjective_pairing x) end. cbv beta iota.
    match goal with |- ML (set_call _ _ (fst (fold_left ?g ?l ?a))) => assert (H2 : ML (fst (fold_left g l a))) by (apply ML_terminate_fold; exact B) end.
    t_ML.
  - destruct (_ || _); [destruct H as [_ B]; unfold ret; ml_go0|]. cbv zeta. destruct (He t) as [_ B]. set (s1 := enter t s) in *. clearbody s1.
    destruct (get_pq s1 k); unfold ret, add_pq; [ml_go0|].
    match goal with |- ML (set_call _ _ (emit _ (fold_left ?g ?l ?a))) => assert (H2 : ML (fold_left g l a)) end.
    { apply fold_left_pres; [intros a0 sc Ha0; unfold add_scq; ml_go0|ml_go0]. }
    ml_go0.
  - destruct (He t) as [_ B]. unfold ret. ml_go0.
  - cbv zeta. destruct (negb (at_gate s (get_call s c))); [exact (proj2 H)|]. destruct (He t) as [A B]. set (s1 := enter t s) in *. clearbody s1.
    destruct (get_call s c); try exact B;
      try (unfold stream_iter, stream_return, kill_lookup, wait_execution_begin, stream_iter, ret, sync_loop, assign_next_queued_task, sync_return_exec, sync_return_err, sync_return_idle, finish_sync, maybe_dequeue, maybe_start_cleanup; ml_go0; fail).
    destruct (op_alive s1 name) eqn:Ea; [|ml_go0].
    pose proof (ML_complete_task (o_task (get_op s1 name)) (mkResp code 0 0) false s1 A (W_pick_op _ _ A Ea) B) as Hc.
    set (s2 := complete_task _ _ false s1) in *. clearbody s2. unfold ret. ml_go0.
  - cbv zeta. destruct (at_gate s (get_call s c)); [exact (proj2 H)|]. destruct (He t) as [_ B]. destruct H as [_ B0]. set (s1 := enter t s) in *. clearbody s1.
    destruct (get_call s c); unfold stream_iter, sync_return_exec, sync_return_idle, finish_sync, maybe_dequeue; ml_go0.
  - cbv zeta. destruct (at_gate s (get_call s c)); [exact (proj2 H)|]. destruct H as [_ B]. destruct (get_call s c); unfold ret; ml_go0.
Qed.

Lemma WM_step : forall s eh, WM s -> WM (fst (step s eh)).
Proof.
  intros s eh [HW H]. split; [apply W_step; exact HW|]. unfold step. cbn [fst].
  set (s0 := s <| s_hints := snd eh |> <| s_out := [] |>).
  assert (H0 : WM s0) by (split; [apply (W_step1 s); [exact HW|intro HWL; eapply WL_frame; [..|exact HWL]; reflexivity]|eapply ML_frame; [| |exact H]; reflexivity]).
  pose proof (proj2 (WM_step_core (fst eh) s0 H0)) as H1. set (s1 := step_core (fst eh) s0) in *. clearbody s1.
  assert (H2 : ML (auto_returns s1)) by (apply (fr_auto_returns ML); try (intros; t_ML); try (intros; unfold ret; ml_go0); try exact H1).
  eapply ML_frame; [| |exact H2]; reflexivity.
Qed.

Lemma ML_run : forall cfg t0 evs, ML (fst (run (init cfg t0) evs)).
Proof.
  intros cfg t0 evs.
  assert (H : forall evs s, WM s -> WM (fst (run s evs))).
  { induction evs0 as [|eh evs0 IH]; intros s H; [exact H|]. cbn [run]. pose proof (WM_step s eh H) as H1.
    destruct (step s eh) as [s1 o]. cbn [fst] in H1. specialize (IH s1 H1). destruct (run s1 evs0) as [s2 os]. exact IH. }
  apply H. split; [apply W_init|]. split; [constructor|]. intros o Ha. unfold op_alive, init in Ha. cbn in Ha. discriminate.
Qed.
