(* The monitor on the model's trace: two regression histories for the retry bookkeeping (positions 14 and 15).
   One platform queue with one size class, WorkerTaskRetryCount = 0.  A worker parks; Execute with a learner that asks
   for one retry on failure; the worker is told to run the task (first DExec, m_reissue[w] = (ops, 0)); it reports a
   failure; the learner asks for the retry, the task is queued again on the (same, largest) size class and the very
   Synchronize call that reported the failure is handed the task again: a second DExec for the same operation set.
   The model (like the code) resets the task's retry counter at every assignment.  An earlier Spec.v reset m_reissue only
   when the operation set changed, counted 1 > 0 and reported "C06:task-reissued-beyond-retry-limit" (and, one event
   later, "C06:task-failed-before-retry-limit"); p_step now clears m_reissue[w] when w hands in an accepted completion
   report, and accepts both traces. *)
From VF Require Export Sched.ProofsMon11.
From VF Require Import Sched.Spec Sched.Corr Sched.ProofsStreams.
Open Scope Z_scope.

Definition rw_cfg : config := mkConfig 5 10 30 10 60 0 20.
Definition rw_w : wref := mkW (mkSK (mkPK [] 0) 1) 7 8.
Definition rw_evs : list (event * list (nat * wref)) :=
  [ (ERegister 0 (mkPK [] 0) [] 0 0 [1%N] 1, []);
    (EStartSync 1 (mkSync rw_w WIdle false) 2, []);
    (EStartExecute 2 (mkExec [] 0 5 false 0 [] (0%nat, 10, 100, Learner 1 None (Some (10, 100, Learner 2 None None)))) 3, []);
    (EEnter 1 4, []);
    (EStartSync 3 (mkSync rw_w (WCompleted 5 (mkResp 2 0 9)) false) 5, []) ].

Lemma rw_hypotheses : selectors_in_range (init rw_cfg 0) rw_evs /\ fresh_calls [] rw_evs /\ bg_scripts_ok rw_evs /\ learner_ids_unique rw_evs /\ causes_ok rw_evs.
Proof.
  split; [apply selectors_in_rangeb_sound; vm_compute; reflexivity|]. split; [cbn; intuition congruence|].
  split; [apply bg_scripts_okb_sound; vm_compute; reflexivity|]. split; [apply learner_ids_uniqueb_sound; vm_compute; reflexivity|apply causes_okb_sound; vm_compute; reflexivity].
Qed.
Lemma rw_outputs : snd (run (init rw_cfg 0) rw_evs) =
  [[ORet 0 0]; []; [OGhost GSelect; OMsg 2 0 3 None]; [OSync 1 (DExec 5 false 100 3 []) 14];
   [OGhost (GFailed 1 false); OSync 3 (DExec 5 false 100 3 []) 15]].
Proof. vm_compute. reflexivity. Qed.
Lemma rw_accepted : trace_ok rw_cfg 0 (model_trace rw_cfg 0 rw_evs) = true.
Proof. vm_compute. reflexivity. Qed.

(* one more event: the worker asks again while it holds the task; with retry count 0 the model fails the task (INTERNAL)
   at once; position 15 (e_early) reads m_reissue[w] = (ops, 0) *)
Definition rw_evs2 : list (event * list (nat * wref)) := rw_evs ++ [ (EStartSync 4 (mkSync rw_w WIdle false) 6, []) ].
Lemma rw2_hypotheses : selectors_in_range (init rw_cfg 0) rw_evs2 /\ fresh_calls [] rw_evs2 /\ bg_scripts_ok rw_evs2 /\ learner_ids_unique rw_evs2 /\ causes_ok rw_evs2.
Proof.
  split; [apply selectors_in_rangeb_sound; vm_compute; reflexivity|]. split; [cbn; intuition congruence|].
  split; [apply bg_scripts_okb_sound; vm_compute; reflexivity|]. split; [apply learner_ids_uniqueb_sound; vm_compute; reflexivity|apply causes_okb_sound; vm_compute; reflexivity].
Qed.
Lemma rw2_accepted : trace_ok rw_cfg 0 (model_trace rw_cfg 0 rw_evs2) = true.
Proof. vm_compute. reflexivity. Qed.

(* ---- regression for position 15 (e_early): deduplication changes the operation set of an assigned task ----------------------------------
   Retry count 1, one size class.  A worker is told to run a task (m_reissue[w] = ([0], 0)); a second Execute of the same
   digest attaches operation 1 to the task in flight; the worker asks again: the model counts t_retry = 1 and tells it
   again; the worker asks a third time: the model has reached the limit and fails the task with INTERNAL.  An earlier
   retry_fold recognised the task by same_set of its operation list, restarted at 0 when the list became [0;1], and e_early
   then read 0 <> 1 ("C06:task-failed-before-retry-limit"); p_step now uses shares_op (a shared operation id) and accepts. *)
Definition rw3_cfg : config := mkConfig 5 10 30 10 60 1 20.
Definition rw3_evs : list (event * list (nat * wref)) :=
  [ (ERegister 0 (mkPK [] 0) [] 0 0 [1%N] 1, []);
    (EStartSync 1 (mkSync rw_w WIdle false) 2, []);
    (EStartExecute 2 (mkExec [] 0 5 false 0 [] (0%nat, 10, 100, Learner 1 None None)) 3, []);
    (EEnter 1 4, []);
    (EStartExecute 3 (mkExec [] 0 5 false 0 [9%N] (0%nat, 10, 100, Learner 2 None None)) 5, []);
    (EStartSync 4 (mkSync rw_w WIdle false) 6, []);
    (EStartSync 5 (mkSync rw_w WIdle false) 7, []) ].
Lemma rw3_hypotheses : selectors_in_range (init rw3_cfg 0) rw3_evs /\ fresh_calls [] rw3_evs /\ bg_scripts_ok rw3_evs /\ learner_ids_unique rw3_evs /\ causes_ok rw3_evs.
Proof.
  split; [apply selectors_in_rangeb_sound; vm_compute; reflexivity|]. split; [cbn; intuition congruence|].
  split; [apply bg_scripts_okb_sound; vm_compute; reflexivity|]. split; [apply learner_ids_uniqueb_sound; vm_compute; reflexivity|apply causes_okb_sound; vm_compute; reflexivity].
Qed.
Lemma rw3_outputs : snd (run (init rw3_cfg 0) rw3_evs) =
  [[ORet 0 0]; []; [OGhost GSelect; OMsg 2 0 3 None]; [OSync 1 (DExec 5 false 100 3 []) 14];
   [OGhost GSelAbandoned; OMsg 3 1 3 None]; [OSync 4 (DExec 5 false 100 3 []) 16]; [OGhost (GAbandoned 1)]].
Proof. vm_compute. reflexivity. Qed.
Lemma rw3_accepted : trace_ok rw3_cfg 0 (model_trace rw3_cfg 0 rw3_evs) = true.
Proof. vm_compute. reflexivity. Qed.

(* ---- regression for position 15 (e_early): an assignment whose delivery was cancelled ------------------------------------------------------------
   Retry count 1.  A worker parks; its Synchronize call is cancelled; before the cancelled call leaves the scheduler an
   Execute hands the still listed worker a task; the call returns CANCELLED: the worker holds the task without ever
   having been told.  The worker asks again: the model (like getCurrentOrNextTask in the code) finds a held task, counts
   t_retry = 1 and tells it; it asks once more: t_retry has reached the limit, the task is failed with INTERNAL.  An
   earlier p_step counted the answers the worker got (0 at that point) and reported "C06:task-failed-before-retry-limit";
   it now counts what the scheduler counts, the re-requests of a worker that holds a task, and accepts. *)
Definition rw4_evs : list (event * list (nat * wref)) :=
  [ (ERegister 0 (mkPK [] 0) [] 0 0 [1%N] 1, []);
    (EStartSync 1 (mkSync rw_w WIdle false) 2, []);
    (ECancel 1, []);
    (EStartExecute 2 (mkExec [] 0 5 false 0 [] (0%nat, 10, 100, Learner 1 None None)) 3, []);
    (EEnter 1 4, []);
    (EStartSync 3 (mkSync rw_w WIdle false) 5, []);
    (EStartSync 4 (mkSync rw_w WIdle false) 6, []) ].
Lemma rw4_hypotheses : selectors_in_range (init rw3_cfg 0) rw4_evs /\ fresh_calls [] rw4_evs /\ bg_scripts_ok rw4_evs /\ learner_ids_unique rw4_evs /\ causes_ok rw4_evs.
Proof.
  split; [apply selectors_in_rangeb_sound; vm_compute; reflexivity|]. split; [cbn; intuition congruence|].
  split; [apply bg_scripts_okb_sound; vm_compute; reflexivity|]. split; [apply learner_ids_uniqueb_sound; vm_compute; reflexivity|apply causes_okb_sound; vm_compute; reflexivity].
Qed.
Lemma rw4_outputs : snd (run (init rw3_cfg 0) rw4_evs) =
  [[ORet 0 0]; []; []; [OGhost GSelect; OMsg 2 0 3 None]; [ORet 1 1]; [OSync 3 (DExec 5 false 100 3 []) 15]; [OGhost (GAbandoned 1)]].
Proof. vm_compute. reflexivity. Qed.
Lemma rw4_accepted : trace_ok rw3_cfg 0 (model_trace rw3_cfg 0 rw4_evs) = true.
Proof. vm_compute. reflexivity. Qed.
