(* The retry counter of the task a registered worker holds, over one event of a run (model side of positions 14 / 15):
   assigned_retry_step (ProofsRetry6.v) read through workers_tasks_inverse (k_task w = Some T <-> t_worker T = Some w for
   registered workers, in reachable states). *)
From Coq Require Import Lia.
From VF Require Export Sched.ProofsRetry6 Sched.ProofsC01.
Open Scope Z_scope.

Lemma run_snoc_fst' : forall l e s, fst (run s (l ++ [e])) = fst (step (fst (run s l)) e).
Proof.
  induction l as [|x l IH]; intros e s; cbn [app run fst].
  - destruct (step s e) as [s1 o]. reflexivity.
  - destruct (step s x) as [s1 o]. specialize (IH e s1). destruct (run s1 (l ++ [e])) as [s2 os]. destruct (run s1 l) as [s3 os3]. exact IH.
Qed.

Lemma no_phantom_prefix : forall l1 l2, no_phantom_sync (l1 ++ l2) -> no_phantom_sync l1.
Proof. intros l1 l2 H c a t h Hin. apply (H c a t h). apply in_or_app. left. exact Hin. Qed.

Theorem held_retry_step : forall cfg t0 evs eh, no_phantom_sync (evs ++ [eh]) ->
  let s := fst (run (init cfg t0) evs) in
  let s' := fst (step s eh) in
  forall w T, worker_exists s' w = true -> k_task (get_worker s' w) = Some T ->
    t_resp (get_task s' T) = None /\
    ((worker_exists s w = true /\ k_task (get_worker s w) = Some T /\
      (t_retry (get_task s' T) = t_retry (get_task s T) \/
       (is_sync (fst eh) = true /\ t_retry (get_task s' T) = S (t_retry (get_task s T))))) \/
     t_retry (get_task s' T) = 0%nat \/
     (is_sync (fst eh) = true /\ t_retry (get_task s' T) = 1%nat)).
Proof.
  intros cfg t0 evs eh Hnp s s' w T Hex Hk.
  pose proof (workers_tasks_inverse cfg t0 (evs ++ [eh]) Hnp) as [Ha' Hb']. cbv zeta in Ha', Hb'. rewrite run_snoc_fst' in Ha', Hb'. fold s in Ha', Hb'. fold s' in Ha', Hb'.
  pose proof (workers_tasks_inverse cfg t0 evs (no_phantom_prefix _ _ Hnp)) as [Ha Hb]. cbv zeta in Ha, Hb. fold s in Ha, Hb.
  pose proof (Hb' w T Hex Hk) as Hw'. destruct (Ha' T w Hw') as [_ [_ [_ Hr']]]. split; [exact Hr'|].
  destruct (is_sync (fst eh)) eqn:Es.
  - destruct (assigned_retry_step s eh T w Hw') as [[A B]|[B|B]].
    + left. destruct (Ha T w A) as [_ [Hx [Hkk _]]]. split; [exact Hx|]. split; [exact Hkk|]. destruct B as [B|B]; [left; exact B|right; split; [reflexivity|exact B]].
    + right. left. exact B.
    + right. right. split; [reflexivity|exact B].
  - destruct (assigned_retry_step_nonsync s eh Es T w Hw') as [[A B]|B].
    + left. destruct (Ha T w A) as [_ [Hx [Hkk _]]]. split; [exact Hx|]. split; [exact Hkk|]. left. exact B.
    + right. left. exact B.
Qed.
