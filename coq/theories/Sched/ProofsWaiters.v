(* C06 (and the progress half of C02): the waiter count of an operation is
   the number of streams parked on it; an operation streams are parked on is
   registered and has no removal scheduled. *)
From Coq Require Import Lia.
From VF Require Export Sched.ProofsStreams Sched.ProofsPrims Sched.ProofsExec Sched.ProofsRoute.
Open Scope Z_scope.

Definition parked_on (p : pc) : option nat :=
  match p with
  | PStream o _ | PStreamCancelled o | PStreamReturn o _ => Some o
  | _ => None
  end.
Definition parks (o : nat) (cp : nat * pc) : bool :=
  match parked_on (snd cp) with Some o' => Nat.eqb o o' | None => false end.
Definition cnt (o : nat) (calls : list (nat * pc)) : nat := List.length (filter (parks o) calls).

Arguments cnt : simpl never.

Definition opark (p : option pc) : option nat := match p with Some x => parked_on x | None => None end.

(* ---- counting over association lists ------------------------------------------------------------ *)
Lemma cnt_aset : forall o c p l, NoDup (map fst l) ->
  (cnt o (aset Nat.eqb c p l) + (if parks o (c, match aget Nat.eqb c l with Some x => x | None => PDone end) then 1 else 0)
   = cnt o l + (if parks o (c, p) then 1 else 0))%nat.
Proof.
  intros o c p l. unfold cnt. induction l as [|[c' p'] l IH]; intro Hnd.
  - cbn. destruct (parks o (c, p)); reflexivity.
  - inversion Hnd as [|? ? Hnotin Hnd']; subst. cbn [aset aget].
    destruct (Nat.eqb c c') eqn:E.
    + apply Nat.eqb_eq in E. subst c'. cbn [filter].
      assert (E1 : parks o (c, p) = match parked_on p with Some o' => Nat.eqb o o' | None => false end) by reflexivity.
      destruct (parks o (c, p)), (parks o (c, p')); cbn [List.length]; lia.
    + cbn [filter]. specialize (IH Hnd'). destruct (parks o (c', p')); cbn [List.length]; lia.
Qed.

Lemma cnt_aset_same : forall o c p l, NoDup (map fst l) ->
  opark (aget Nat.eqb c l) = parked_on p -> cnt o (aset Nat.eqb c p l) = cnt o l.
Proof.
  intros o c p l Hnd Hp. pose proof (cnt_aset o c p l Hnd) as H.
  assert (E : parks o (c, match aget Nat.eqb c l with Some x => x | None => PDone end) = parks o (c, p)).
  { unfold parks. cbn [snd]. rewrite <- Hp. destruct (aget Nat.eqb c l); reflexivity. }
  rewrite E in H. destruct (parks o (c, p)); lia.
Qed.

Lemma cnt_zero_none : forall o l c p, cnt o l = 0%nat -> aget Nat.eqb c l = Some p -> parked_on p <> Some o.
Proof.
  intros o l c p Hc Hg Hp. apply (aget_In Nat.eqb nat_eqb_eq) in Hg.
  assert (Hin : In (c, p) (filter (parks o) l)).
  { apply filter_In. split; [exact Hg|]. unfold parks. cbn. rewrite Hp. apply Nat.eqb_refl. }
  unfold cnt in Hc. destruct (filter (parks o) l); [destruct Hin|discriminate].
Qed.

Lemma cnt_pos : forall o l c p, aget Nat.eqb c l = Some p -> parked_on p = Some o -> (0 < cnt o l)%nat.
Proof.
  intros o l c p Hg Hp. destruct (cnt o l) eqn:E; [|lia]. exfalso. exact (cnt_zero_none _ _ _ _ E Hg Hp).
Qed.

(* ---- the invariant ---------------------------------------------------------------------------------- *)
Definition V (s : state) : Prop :=
  NoDup (map fst (s_calls s)) /\
  (forall o, In o (map fst (s_ops s)) -> (o < s_nops s)%nat) /\
  NoDup (map fst (s_ops s)) /\
  (forall c p o, aget Nat.eqb c (s_calls s) = Some p -> parked_on p = Some o -> op_alive s o = true) /\
  (forall o x, aget Nat.eqb o (s_ops s) = Some x -> o_waiters x = cnt o (s_calls s)) /\
  (forall o x, aget Nat.eqb o (s_ops s) = Some x -> o_cleanup x <> None -> o_waiters x = O) /\
  (forall t x i o, aget Nat.eqb t (s_tasks s) = Some x -> In (i, o) (t_ops x) ->
     exists y, aget Nat.eqb o (s_ops s) = Some y /\ o_task y = t).

Ltac v_split := split; [|split; [|split; [|split; [|split; [|split]]]]].

Lemma V_frame : forall s s',
  s_calls s' = s_calls s -> s_ops s' = s_ops s -> s_nops s' = s_nops s -> s_tasks s' = s_tasks s -> V s -> V s'.
Proof. unfold V, op_alive. intros s s' -> -> -> ->. auto. Qed.

(* tasks *)
Lemma V_upd_task : forall s t f, (forall x, incl (t_ops (f x)) (t_ops x)) -> V s -> V (upd_task t f s).
Proof.
  intros s t f Hf [H0 [H1 [H1' [HA [HB [HC HI]]]]]]. unfold V, upd_task, op_alive in *. cbn. v_split; auto.
  intros t' x i o Ex Hin. rewrite (aget_aset Nat.eqb nat_eqb_eq) in Ex. destruct (Nat.eqb t' t) eqn:E.
  - apply Nat.eqb_eq in E. subst t'. inversion Ex; subst x. apply Hf in Hin. unfold get_task in Hin.
    destruct (aget Nat.eqb t (s_tasks s)) as [y|] eqn:Ey; [eapply HI; eassumption|destruct Hin].
  - eapply HI; eassumption.
Qed.

Lemma V_newtask : forall s x, t_ops x = [] ->
  V s -> V (s <| s_ntasks ::= S |> <| s_tasks ::= fun l => l ++ [(s_ntasks s, x)] |>).
Proof.
  intros s x Hx [H0 [H1 [H1' [HA [HB [HC HI]]]]]]. unfold V, op_alive in *. cbn. v_split; auto.
  intros t y i o Ey Hin. rewrite (aget_app Nat.eqb) in Ey. destruct (aget Nat.eqb t (s_tasks s)) as [z|] eqn:Ez.
  - inversion Ey; subst. eapply HI; eassumption.
  - cbn in Ey. destruct (Nat.eqb t (s_ntasks s)); [|discriminate]. inversion Ey; subst. rewrite Hx in Hin. destruct Hin.
Qed.

(* operations *)
Lemma V_upd_op : forall s o f,
  (forall x, o_task (f x) = o_task x /\ o_waiters (f x) = o_waiters x /\ (o_cleanup (f x) <> None -> o_cleanup x <> None)) ->
  V s -> V (upd_op o f s).
Proof.
  intros s o f Hf HV. pose proof HV as [H0 [H1 [H1' [HA [HB [HC HI]]]]]]. unfold upd_op.
  destruct (aget Nat.eqb o (s_ops s)) as [x0|] eqn:E0; [|exact HV]. unfold V, op_alive in *. cbn.
  assert (Hkeys : map fst (aset Nat.eqb o (f x0) (s_ops s)) = map fst (s_ops s)).
  { rewrite (map_fst_aset Nat.eqb nat_eqb_eq), E0. reflexivity. }
  v_split; auto.
  - rewrite Hkeys. exact H1.
  - rewrite Hkeys. exact H1'.
  - intros c p o' Hc Hp. specialize (HA _ _ _ Hc Hp). rewrite (aget_aset Nat.eqb nat_eqb_eq).
    destruct (Nat.eqb o' o); [reflexivity|exact HA].
  - intros o' x Ex. rewrite (aget_aset Nat.eqb nat_eqb_eq) in Ex. destruct (Nat.eqb o' o) eqn:E.
    + apply Nat.eqb_eq in E. subst o'. inversion Ex; subst x. destruct (Hf x0) as [_ [Hw _]]. rewrite Hw. apply HB. exact E0.
    + apply HB. exact Ex.
  - intros o' x Ex Hc. rewrite (aget_aset Nat.eqb nat_eqb_eq) in Ex. destruct (Nat.eqb o' o) eqn:E.
    + apply Nat.eqb_eq in E. subst o'. inversion Ex; subst x. destruct (Hf x0) as [_ [Hw Hcl]]. rewrite Hw.
      eapply HC; [exact E0|]. apply Hcl. exact Hc.
    + eapply HC; eassumption.
  - intros t x i o' Ex Hin. destruct (HI _ _ _ _ Ex Hin) as [y [Ey Hy]].
    rewrite (aget_aset Nat.eqb nat_eqb_eq). destruct (Nat.eqb o' o) eqn:E.
    + apply Nat.eqb_eq in E. subst o'. rewrite E0 in Ey. inversion Ey; subst y. exists (f x0). split; [reflexivity|].
      destruct (Hf x0) as [Ht _]. rewrite Ht. exact Hy.
    + exists y. auto.
Qed.

Lemma V_maybe_start_cleanup : forall s o, V s -> V (maybe_start_cleanup o s).
Proof.
  intros s o HV. unfold maybe_start_cleanup.
  destruct (op_alive s o && Nat.eqb (o_waiters (get_op s o)) 0 && negb (o_mayexist (get_op s o))) eqn:Ec; [|exact HV].
  destruct (o_cleanup (get_op s o)); [eapply V_frame; [ | | | |exact HV]; reflexivity|].
  apply andb_true_iff in Ec. destruct Ec as [Ec _]. apply andb_true_iff in Ec. destruct Ec as [Ea Ew].
  apply Nat.eqb_eq in Ew.
  pose proof HV as [H0 [H1 [H1' [HA [HB [HC HI]]]]]]. unfold upd_op. unfold op_alive, get_op in *.
  destruct (aget Nat.eqb o (s_ops s)) as [x0|] eqn:E0; [|discriminate].
  set (v := x0 <| o_cleanup := Some (s_now s + cf_nowaiters (s_cfg s)) |>).
  unfold V, op_alive. cbn.
  assert (Hkeys : map fst (aset Nat.eqb o v (s_ops s)) = map fst (s_ops s)).
  { rewrite (map_fst_aset Nat.eqb nat_eqb_eq), E0. reflexivity. }
  v_split; auto.
  - rewrite Hkeys. exact H1.
  - rewrite Hkeys. exact H1'.
  - intros c p o' Hc Hp. specialize (HA _ _ _ Hc Hp). rewrite (aget_aset Nat.eqb nat_eqb_eq).
    destruct (Nat.eqb o' o); [reflexivity|exact HA].
  - intros o' x Ex. rewrite (aget_aset Nat.eqb nat_eqb_eq) in Ex. destruct (Nat.eqb o' o) eqn:E.
    + apply Nat.eqb_eq in E. subst o'. inversion Ex; subst x. cbn. apply HB. exact E0.
    + apply HB. exact Ex.
  - intros o' x Ex Hc. rewrite (aget_aset Nat.eqb nat_eqb_eq) in Ex. destruct (Nat.eqb o' o) eqn:E.
    + inversion Ex; subst x. cbn. exact Ew.
    + eapply HC; eassumption.
  - intros t x i o' Ex Hin. destruct (HI _ _ _ _ Ex Hin) as [y [Ey Hy]].
    rewrite (aget_aset Nat.eqb nat_eqb_eq). destruct (Nat.eqb o' o) eqn:E.
    + apply Nat.eqb_eq in E. subst o'. rewrite E0 in Ey. inversion Ey; subst y. exists v. auto.
    + exists y. auto.
Qed.

Lemma V_upd_task' : forall s t f,
  incl (map snd (t_ops (f (get_task s t)))) (map snd (t_ops (get_task s t))) -> V s -> V (upd_task t f s).
Proof.
  intros s t f Hf [H0 [H1 [H1' [HA [HB [HC HI]]]]]]. unfold V, upd_task, op_alive in *. cbn. v_split; auto.
  intros t' x i o Ex Hin. rewrite (aget_aset Nat.eqb nat_eqb_eq) in Ex. destruct (Nat.eqb t' t) eqn:E.
  - apply Nat.eqb_eq in E. subst t'. inversion Ex; subst x.
    assert (Ho : In o (map snd (t_ops (get_task s t)))).
    { apply Hf. change o with (snd (i, o)). apply in_map. exact Hin. }
    apply in_map_iff in Ho. destruct Ho as [[i' o'] [Heq Hin']]. cbn in Heq. subst o'.
    unfold get_task in Hin'. destruct (aget Nat.eqb t (s_tasks s)) as [y|] eqn:Ey; [eapply HI; eassumption|destruct Hin'].
  - eapply HI; eassumption.
Qed.

Lemma V_new_operation : forall s t prio i m, V s -> V (fst (new_operation t prio i m s)).
Proof.
  intros s t prio i m [H0 [H1 [H1' [HA [HB [HC HI]]]]]]. unfold new_operation. cbn [fst].
  unfold V, upd_task, op_alive in *. cbn.
  assert (Hfresh : aget Nat.eqb (s_nops s) (s_ops s) = None).
  { apply (notin_aget_None Nat.eqb nat_eqb_eq). intro Hin. specialize (H1 _ Hin). lia. }
  v_split; auto.
  - intros o Ho. rewrite map_app in Ho. apply in_app_or in Ho. cbn in Ho. destruct Ho as [Ho|[Ho|[]]]; [specialize (H1 _ Ho)|]; lia.
  - rewrite map_app. cbn. apply NoDup_rev in H1'. rewrite <- (rev_involutive (map fst (s_ops s) ++ [s_nops s])).
    apply NoDup_rev. rewrite rev_app_distr. cbn. constructor; [|exact H1'].
    rewrite <- in_rev. intro Hin. specialize (H1 _ Hin). lia.
  - intros c p o Hc Hp. specialize (HA _ _ _ Hc Hp). rewrite (aget_app Nat.eqb).
    destruct (aget Nat.eqb o (s_ops s)); [reflexivity|discriminate].
  - intros o x Ex. rewrite (aget_app Nat.eqb) in Ex. destruct (aget Nat.eqb o (s_ops s)) as [y|] eqn:Ey.
    + inversion Ex; subst. apply HB. exact Ey.
    + cbn in Ex. destruct (Nat.eqb o (s_nops s)) eqn:E; [|discriminate]. inversion Ex; subst x. cbn.
      apply Nat.eqb_eq in E. subst o.
      assert (Hz : cnt (s_nops s) (s_calls s) = O).
      { destruct (cnt (s_nops s) (s_calls s)) eqn:Ecnt; [reflexivity|]. exfalso.
        (* somebody parked on an unregistered operation *)
        unfold cnt in Ecnt. destruct (filter (parks (s_nops s)) (s_calls s)) as [|[c p] tl] eqn:Ef; [discriminate|].
        assert (Hin : In (c, p) (filter (parks (s_nops s)) (s_calls s))) by (rewrite Ef; left; reflexivity).
        apply filter_In in Hin. destruct Hin as [Hin Hp]. unfold parks in Hp. cbn in Hp.
        destruct (parked_on p) as [o'|] eqn:Epo; [|discriminate]. apply Nat.eqb_eq in Hp. subst o'.
        apply (In_aget_NoDup Nat.eqb nat_eqb_eq _ _ _ H0) in Hin. specialize (HA _ _ _ Hin Epo). rewrite Hfresh in HA. discriminate. }
      symmetry. exact Hz.
  - intros o x Ex Hc. rewrite (aget_app Nat.eqb) in Ex. destruct (aget Nat.eqb o (s_ops s)) as [y|] eqn:Ey.
    + inversion Ex; subst. eapply HC; eassumption.
    + cbn in Ex. destruct (Nat.eqb o (s_nops s)); [|discriminate]. inversion Ex; subst x. reflexivity.
  - intros t' x i' o Ex Hin. rewrite (aget_aset Nat.eqb nat_eqb_eq) in Ex.
    assert (Hold : forall z, aget Nat.eqb t' (s_tasks s) = Some z -> In (i', o) (t_ops z) ->
              exists y, aget Nat.eqb o (s_ops s ++ [(s_nops s, mkOper t prio i 0 m None)]) = Some y /\ o_task y = t').
    { intros z Ez Hz. destruct (HI _ _ _ _ Ez Hz) as [y [Ey Hy]]. exists y. rewrite (aget_app Nat.eqb), Ey. auto. }
    destruct (Nat.eqb t' t) eqn:E.
    + apply Nat.eqb_eq in E. subst t'. inversion Ex; subst x. cbn in Hin. apply in_app_or in Hin.
      destruct Hin as [Hin|[Heq|[]]].
      * unfold get_task in Hin. cbn in Hin. destruct (aget Nat.eqb t (s_tasks s)) as [z|] eqn:Ez; [eapply Hold; eauto|destruct Hin].
      * inversion Heq; subst. eexists. rewrite (aget_app Nat.eqb), Hfresh. cbn. rewrite Nat.eqb_refl. split; reflexivity.
    + eapply Hold; eassumption.
Qed.

Lemma V_delop_pair : forall s o t,
  cnt o (s_calls s) = O -> (exists y, aget Nat.eqb o (s_ops s) = Some y /\ o_task y = t) ->
  V s ->
  V (upd_task t (fun y => y <| t_ops := filter (fun '(_, o') => negb (Nat.eqb o o')) (t_ops y) |>)
       (s <| s_ops := adel Nat.eqb o (s_ops s) |>)).
Proof.
  intros s o t Hcnt [y0 [Ey0 Hy0]] [H0 [H1 [H1' [HA [HB [HC HI]]]]]].
  unfold V, upd_task, op_alive in *. cbn.
  assert (Hother : forall o', o' <> o -> aget Nat.eqb o' (adel Nat.eqb o (s_ops s)) = aget Nat.eqb o' (s_ops s)).
  { intros o' Hne. apply (aget_adel_other Nat.eqb nat_eqb_eq). exact Hne. }
  v_split; auto.
  - intros o' Ho'. apply H1. eapply map_fst_adel_incl. exact Ho'.
  - apply (NoDup_keys_adel Nat.eqb). exact H1'.
  - intros c p o' Hc Hp. destruct (Nat.eq_dec o' o) as [->|Hne].
    + exfalso. exact (cnt_zero_none _ _ _ _ Hcnt Hc Hp).
    + rewrite Hother by exact Hne. eapply HA; eassumption.
  - intros o' x Ex. destruct (Nat.eq_dec o' o) as [->|Hne].
    + rewrite (aget_adel_same Nat.eqb nat_eqb_eq) in Ex by exact H1'. discriminate.
    + rewrite Hother in Ex by exact Hne. apply HB. exact Ex.
  - intros o' x Ex Hc. destruct (Nat.eq_dec o' o) as [->|Hne].
    + rewrite (aget_adel_same Nat.eqb nat_eqb_eq) in Ex by exact H1'. discriminate.
    + rewrite Hother in Ex by exact Hne. eapply HC; eassumption.
  - intros t' x i o' Ex Hin. rewrite (aget_aset Nat.eqb nat_eqb_eq) in Ex. destruct (Nat.eqb t' t) eqn:E.
    + apply Nat.eqb_eq in E. subst t'. inversion Ex; subst x. cbn in Hin. apply filter_In in Hin. destruct Hin as [Hin Hne].
      apply negb_true_iff in Hne. apply Nat.eqb_neq in Hne.
      unfold get_task in Hin. cbn in Hin. destruct (aget Nat.eqb t (s_tasks s)) as [z|] eqn:Ez; [|destruct Hin].
      destruct (HI _ _ _ _ Ez Hin) as [y [Ey Hy]]. exists y. rewrite Hother by auto. auto.
    + destruct (HI _ _ _ _ Ex Hin) as [y [Ey Hy]]. destruct (Nat.eq_dec o' o) as [->|Hne].
      * exfalso. rewrite Ey0 in Ey. inversion Ey; subst y. apply Nat.eqb_neq in E. congruence.
      * exists y. rewrite Hother by exact Hne. auto.
Qed.

(* ---- closure tactic ---------------------------------------------------------------------------------- *)
Ltac t_V :=
  intros;
  lazymatch goal with
  | |- V (upd_task _ _ _) => apply V_upd_task; [intros ? ?; cbn; first [auto | (let Hin := fresh "Hin" in intro Hin; apply filter_In in Hin; tauto)] | assumption]
  | |- V (upd_op _ _ _) => apply V_upd_op; [intros ?; cbn; repeat split; auto | assumption]
  | |- V (set s_tasks _ (set s_ntasks S _)) => apply V_newtask; [reflexivity | assumption]
  | |- V (set s_inflight _ (set s_tasks ?g (set s_ntasks S ?s1))) =>
    apply (V_frame (set s_tasks g (set s_ntasks S s1)));
    [reflexivity | reflexivity | reflexivity | reflexivity | apply V_newtask; [reflexivity | assumption]]
  | |- _ => (eapply V_frame; [ | | | | eassumption]); frame_eq
  end.

(* ---- internal functions ---------------------------------------------------------------------------------- *)
Lemma V_retry_prim : forall s1 s2 t d tm lk,
  s_tasks s2 = s_tasks s1 -> V s2 ->
  V (upd_task t (fun x => x <| t_expdur := d |> <| t_timeout := tm |>
                           <| t_ops := map (fun '(i, o) => (mkI lk (i_path i), o)) (t_ops (get_task s1 t)) |>) s2).
Proof.
  intros s1 s2 t d tm lk Et HV. apply V_upd_task'; [|exact HV]. cbn.
  rewrite (get_task_frame _ _ _ Et). rewrite map_map.
  replace (map (fun x : iref * nat => snd (let '(i, o) := x in (mkI lk (i_path i), o))) (t_ops (get_task s1 t)))
    with (map snd (t_ops (get_task s1 t))); [apply incl_refl|].
  apply map_ext. intros [i o]. reflexivity.
Qed.

Ltac v_leaf :=
  idtac;
  lazymatch goal with
  | |- V (maybe_start_cleanup _ _) => apply V_maybe_start_cleanup
  | |- V (fst (new_operation _ _ _ _ _)) => apply V_new_operation
  | |- V (upd_task _ (fun x => x <| t_expdur := _ |> <| t_timeout := _ |> <| t_ops := map _ (t_ops (get_task ?s1 _)) |>) ?s2) =>
    apply (V_retry_prim s1 s2);
    [ change (keeps_tasks (s_tasks s1) s2); fr_go (keeps_tasks (s_tasks s1)) t_tasks; reflexivity | ]
  end.
Ltac v_go := inv_go v_leaf t_V.

Lemma V_complete_task : forall t r b s, V s -> V (complete_task t r b s).
Proof. intros. unfold complete_task. v_go. Qed.

Lemma V_cancel_all_queued : forall i r s, V s -> V (cancel_all_queued i r s).
Proof.
  intros i r s H. rewrite cancel_all_queued_eq. apply cancel_go_closed; [|exact H].
  intros. apply V_complete_task. assumption.
Qed.

(* frames used around the removal of an operation *)
Definition NPf (o n : nat) (s : state) : Prop := cnt o (s_calls s) = n.
Lemma NPf_frame : forall o n s s', s_calls s' = s_calls s -> NPf o n s -> NPf o n s'.
Proof. unfold NPf. intros o n s s' ->. auto. Qed.
Ltac t_np := intros; (eapply NPf_frame; [|eassumption]); frame_eq.

Definition OTf (o t : nat) (s : state) : Prop := exists y, aget Nat.eqb o (s_ops s) = Some y /\ o_task y = t.
Lemma OTf_frame : forall o t s s', s_ops s' = s_ops s -> OTf o t s -> OTf o t s'.
Proof. unfold OTf. intros o t s s' ->. auto. Qed.
Lemma OTf_upd_op : forall o t s o' f, (forall x, o_task (f x) = o_task x) -> OTf o t s -> OTf o t (upd_op o' f s).
Proof.
  unfold OTf, upd_op. intros o t s o' f Hf [y [Ey Hy]]. destruct (aget Nat.eqb o' (s_ops s)) as [x|] eqn:E; [|eauto].
  cbn. rewrite (aget_aset Nat.eqb nat_eqb_eq). destruct (Nat.eqb o o') eqn:Eo; [|eauto].
  apply Nat.eqb_eq in Eo. subst o'. rewrite Ey in E. inversion E; subst x. exists (f y). rewrite Hf. auto.
Qed.
Lemma OTf_newop : forall o t s x, OTf o t s -> OTf o t (s <| s_nops ::= S |> <| s_ops ::= fun l => l ++ [(s_nops s, x)] |>).
Proof. unfold OTf. intros o t s x [y [Ey Hy]]. exists y. cbn. rewrite (aget_app Nat.eqb), Ey. auto. Qed.
Ltac t_ot :=
  intros;
  lazymatch goal with
  | |- OTf _ _ (upd_op _ _ _) => apply OTf_upd_op; [intros ?; reflexivity | assumption]
  | |- OTf _ _ (set s_ops _ (set s_nops S _)) => apply OTf_newop; assumption
  | |- _ => (eapply OTf_frame; [|eassumption]); frame_eq
  end.

Ltac v_leaf2 :=
  first [ v_leaf
        | lazymatch goal with
          | |- V (complete_task _ _ _ _) => apply V_complete_task
          | |- V (cancel_all_queued _ _ _) => apply V_cancel_all_queued
          end ].
Ltac v_go2 := inv_go v_leaf2 t_V.

Lemma V_operation_remove : forall o s, cnt o (s_calls s) = O -> op_alive s o = true -> V s -> V (operation_remove o s).
Proof.
  intros o s Hc Ha HV. unfold operation_remove. cbv zeta.
  assert (Hnp : NPf o 0 s) by exact Hc.
  assert (Hot : OTf o (o_task (get_op s o)) s).
  { unfold OTf, get_op, op_alive in *. destruct (aget Nat.eqb o (s_ops s)) as [y|]; [eauto|discriminate]. }
  match goal with |- V (upd_task ?t _ (set s_ops _ ?S1)) => apply (V_delop_pair S1 o t) end.
  - match goal with |- cnt _ (s_calls ?S1) = _ => change (NPf o 0 S1) end.
    fr_go (NPf o 0) t_np.
    all: match goal with |- NPf _ _ (fst (fold_left ?g ?l ?a)) => apply (fold_left_pres (fun acc => NPf o 0 (fst acc)) g l) end;
      [ intros [s1 go] j H1; cbn [fst] in *; destruct go; [fr_go (NPf o 0) t_np | assumption] | cbn [fst]; fr_go (NPf o 0) t_np ].
  - match goal with |- exists y, aget _ _ (s_ops ?S1) = Some y /\ _ => change (OTf o (o_task (get_op s o)) S1) end.
    inv_go fail t_ot.
    all: match goal with |- OTf _ _ (fst (fold_left ?g ?l ?a)) => apply (fold_left_pres (fun acc => OTf o (o_task (get_op s o)) (fst acc)) g l) end;
      [ intros [s1 go] j H1; cbn [fst] in *; destruct go; [inv_go fail t_ot | assumption] | cbn [fst]; inv_go fail t_ot ].
  - v_go2.
    all: match goal with |- V (fst (fold_left ?g ?l ?a)) => apply (fold_left_pres (fun acc => V (fst acc)) g l) end;
      [ intros [s1 go] j H1; cbn [fst] in *; destruct go; [v_go2 | assumption] | cbn [fst]; v_go2 ].
Qed.

Lemma cleanup_entry_op : forall s z o, In (z, CE_op o) (cleanup_entries s) ->
  exists x, In (o, x) (s_ops s) /\ o_cleanup x = Some z.
Proof.
  intros s z o Hin. unfold cleanup_entries in Hin. apply in_app_or in Hin. destruct Hin as [Hin|Hin].
  - apply in_flat_map in Hin. destruct Hin as [[o' x] [Hox Hin]].
    destruct (o_cleanup x) eqn:Ec; [|destruct Hin]. destruct Hin as [Heq|[]]. inversion Heq; subst. eauto.
  - exfalso. apply in_app_or in Hin. destruct Hin as [Hin|Hin]; apply in_flat_map in Hin; destruct Hin as [[k q] [_ Hin]].
    + apply in_flat_map in Hin. destruct Hin as [[w wk] [_ Hin]]. destruct (k_cleanup wk); [|destruct Hin].
      destruct Hin as [Heq|[]]. discriminate.
    + destruct (q_cleanup q); [|destruct Hin]. destruct Hin as [Heq|[]]. discriminate.
Qed.

Lemma V_run_entry : forall e s, In e (cleanup_entries s) -> V s -> V (run_entry e s).
Proof.
  intros [z ce] s Hin HV. unfold run_entry. cbn [fst snd]. destruct ce as [o|w|k].
  - destruct (cleanup_entry_op _ _ _ Hin) as [x [Hx Hc]].
    pose proof HV as [H0 [H1 [H1' [HA [HB [HC HI]]]]]].
    apply (In_aget_NoDup Nat.eqb nat_eqb_eq _ _ _ H1') in Hx.
    assert (Hw : o_waiters x = O) by (eapply HC; [exact Hx|rewrite Hc; discriminate]).
    assert (Hcnt : cnt o (s_calls s) = O) by (rewrite <- (HB _ _ Hx); exact Hw).
    apply V_operation_remove.
    + match goal with |- cnt _ (s_calls ?S1) = _ => change (NPf o 0 S1) end. assert (Hn : NPf o 0 s) by exact Hcnt. fr_go (NPf o 0) t_np.
    + rewrite op_alive_upd_op. unfold op_alive. rewrite Hx. reflexivity.
    + v_go2.
  - v_go2.
  - v_go2.
Qed.

Lemma V_enter : forall t s, V s -> V (enter t s).
Proof.
  intros t s H. unfold enter. destruct (s_now s <? t); [|exact H]. cbv zeta.
  apply cleanup_run_closed; [intros; t_V | intros; apply V_run_entry; assumption | v_go2].
Qed.

Ltac v_leaf3 :=
  first [ v_leaf2
        | lazymatch goal with
          | |- V (enter _ _) => apply V_enter
          end ].
Ltac v_go3 := inv_go v_leaf3 t_V.

(* ---- the sections of the calls ------------------------------------------------------------------------------ *)
Lemma alive_frame : forall s s' o, s_ops s' = s_ops s -> op_alive s' o = op_alive s o.
Proof. unfold op_alive. intros s s' o ->. reflexivity. Qed.

(* re-parking a call on the same operation (or keeping it unparked) *)
Lemma V_setcall_same : forall s c p', opark (aget Nat.eqb c (s_calls s)) = parked_on p' -> V s -> V (set_call c p' s).
Proof.
  intros s c p' Hp [H0 [H1 [H1' [HA [HB [HC HI]]]]]]. unfold V, set_call, op_alive in *. cbn. v_split; auto.
  - apply (NoDup_keys_aset Nat.eqb nat_eqb_eq). exact H0.
  - intros c' p o Hc Ho. rewrite (aget_aset Nat.eqb nat_eqb_eq) in Hc. destruct (Nat.eqb c' c) eqn:E.
    + inversion Hc; subst p. rewrite Ho in Hp. destruct (aget Nat.eqb c (s_calls s)) as [q|] eqn:Eq; [|discriminate].
      cbn in Hp. eapply HA; eassumption.
    + eapply HA; eassumption.
  - intros o x Ex. rewrite (cnt_aset_same _ _ _ _ H0 Hp). apply HB. exact Ex.
Qed.

Lemma V_emit : forall s o, V s -> V (emit o s).
Proof. intros. eapply V_frame; [ | | | |eassumption]; reflexivity. Qed.

Lemma V_ret_unparked : forall s c code, opark (aget Nat.eqb c (s_calls s)) = None -> V s -> V (ret c code s).
Proof. intros s c code Hp HV. unfold ret. apply V_setcall_same; [exact Hp|]. apply V_emit. exact HV. Qed.

Lemma V_stream_iter : forall s c o, opark (aget Nat.eqb c (s_calls s)) = Some o -> V s -> V (stream_iter c o s).
Proof.
  intros s c o Hp HV. unfold stream_iter. cbv zeta.
  destruct (t_resp (get_task s (o_task (get_op s o)))); (apply V_setcall_same; [exact Hp|apply V_emit; exact HV]).
Qed.

(* attaching a so far unparked call to a registered operation *)
Lemma V_attach : forall s c o p', parked_on p' = Some o ->
  opark (aget Nat.eqb c (s_calls s)) = None -> op_alive s o = true -> V s ->
  V (set_call c p' (upd_op o (fun y => y <| o_cleanup := None |> <| o_waiters ::= S |>) s)).
Proof.
  intros s c o p' Hp' Hp Ha [H0 [H1 [H1' [HA [HB [HC HI]]]]]]. unfold op_alive in Ha.
  destruct (aget Nat.eqb o (s_ops s)) as [x0|] eqn:E0; [|discriminate].
  unfold V, set_call, upd_op, op_alive in *. rewrite E0. cbn.
  set (v := x0 <| o_cleanup := None |> <| o_waiters ::= S |>).
  assert (Hkeys : map fst (aset Nat.eqb o v (s_ops s)) = map fst (s_ops s)).
  { rewrite (map_fst_aset Nat.eqb nat_eqb_eq), E0. reflexivity. }
  assert (Hcnt : forall o', cnt o' (aset Nat.eqb c p' (s_calls s)) = (cnt o' (s_calls s) + (if Nat.eqb o' o then 1 else 0))%nat).
  { intro o'. pose proof (cnt_aset o' c p' (s_calls s) H0) as H.
    assert (E1 : parks o' (c, match aget Nat.eqb c (s_calls s) with Some x => x | None => PDone end) = false).
    { unfold parks. cbn. destruct (aget Nat.eqb c (s_calls s)) as [q|]; cbn in Hp; [rewrite Hp|]; reflexivity. }
    assert (E2 : parks o' (c, p') = Nat.eqb o' o) by (unfold parks; cbn; rewrite Hp'; reflexivity).
    rewrite E1, E2 in H. lia. }
  v_split; auto.
  - apply (NoDup_keys_aset Nat.eqb nat_eqb_eq). exact H0.
  - rewrite Hkeys. exact H1.
  - rewrite Hkeys. exact H1'.
  - intros c' p o' Hc Ho. rewrite (aget_aset Nat.eqb nat_eqb_eq). destruct (Nat.eqb o' o) eqn:Eo; [reflexivity|].
    rewrite (aget_aset Nat.eqb nat_eqb_eq) in Hc. destruct (Nat.eqb c' c) eqn:E.
    + inversion Hc; subst p. rewrite Hp' in Ho. inversion Ho; subst. rewrite Nat.eqb_refl in Eo. discriminate.
    + eapply HA; eassumption.
  - intros o' x Ex. rewrite Hcnt. rewrite (aget_aset Nat.eqb nat_eqb_eq) in Ex. destruct (Nat.eqb o' o) eqn:Eo.
    + apply Nat.eqb_eq in Eo. subst o'. inversion Ex; subst x. cbn. rewrite (HB _ _ E0). lia.
    + rewrite (HB _ _ Ex). lia.
  - intros o' x Ex Hc. rewrite (aget_aset Nat.eqb nat_eqb_eq) in Ex. destruct (Nat.eqb o' o) eqn:Eo.
    + inversion Ex; subst x. cbn in Hc. congruence.
    + eapply HC; eassumption.
  - intros t x i o' Ex Hin. destruct (HI _ _ _ _ Ex Hin) as [y [Ey Hy]].
    rewrite (aget_aset Nat.eqb nat_eqb_eq). destruct (Nat.eqb o' o) eqn:Eo.
    + apply Nat.eqb_eq in Eo. subst o'. rewrite E0 in Ey. inversion Ey; subst y. exists v. auto.
    + exists y. auto.
Qed.

Lemma set_call_emit_comm_V : forall s c p o, V (set_call c p s) -> V (set_call c p (emit o s)).
Proof. intros. eapply V_frame; [ | | | |eassumption]; reflexivity. Qed.

Lemma V_wait_execution_begin : forall s c o,
  opark (aget Nat.eqb c (s_calls s)) = None -> op_alive s o = true -> V s -> V (wait_execution_begin c o s).
Proof.
  intros s c o Hp Ha HV. unfold wait_execution_begin, stream_iter. cbv zeta.
  destruct (t_resp (get_task _ _)); apply set_call_emit_comm_V; (apply V_attach; [reflexivity|exact Hp|exact Ha|exact HV]).
Qed.

(* a parked call leaves its operation *)
Lemma V_detach : forall s c o p', parked_on p' = None ->
  opark (aget Nat.eqb c (s_calls s)) = Some o -> V s ->
  V (set_call c p' (match o_waiters (get_op s o) with
                    | O => panic "Invalid waiters count on operation" s
                    | S n => upd_op o (fun y => y <| o_waiters := n |>) s
                    end)).
Proof.
  intros s c o p' Hp' Hp [H0 [H1 [H1' [HA [HB [HC HI]]]]]].
  destruct (aget Nat.eqb c (s_calls s)) as [q|] eqn:Eq; [|discriminate]. cbn in Hp.
  pose proof (HA _ _ _ Eq Hp) as Ha. unfold op_alive in Ha.
  destruct (aget Nat.eqb o (s_ops s)) as [x0|] eqn:E0; [|discriminate].
  pose proof (cnt_pos _ _ _ _ Eq Hp) as Hpos. pose proof (HB _ _ E0) as Hw0.
  unfold get_op. rewrite E0. destruct (o_waiters x0) as [|n] eqn:En; [lia|].
  unfold V, set_call, upd_op, op_alive in *. rewrite E0. cbn.
  set (v := x0 <| o_waiters := n |>).
  assert (Hkeys : map fst (aset Nat.eqb o v (s_ops s)) = map fst (s_ops s)).
  { rewrite (map_fst_aset Nat.eqb nat_eqb_eq), E0. reflexivity. }
  assert (Hcnt : forall o', (cnt o' (aset Nat.eqb c p' (s_calls s)) + (if Nat.eqb o' o then 1 else 0) = cnt o' (s_calls s))%nat).
  { intro o'. pose proof (cnt_aset o' c p' (s_calls s) H0) as H. rewrite Eq in H.
    assert (E1 : parks o' (c, q) = Nat.eqb o' o) by (unfold parks; cbn; rewrite Hp; reflexivity).
    assert (E2 : parks o' (c, p') = false) by (unfold parks; cbn; rewrite Hp'; reflexivity).
    rewrite E1, E2 in H. lia. }
  v_split; auto.
  - apply (NoDup_keys_aset Nat.eqb nat_eqb_eq). exact H0.
  - rewrite Hkeys. exact H1.
  - rewrite Hkeys. exact H1'.
  - intros c' p o' Hc Ho. rewrite (aget_aset Nat.eqb nat_eqb_eq). destruct (Nat.eqb o' o) eqn:Eo; [reflexivity|].
    rewrite (aget_aset Nat.eqb nat_eqb_eq) in Hc. destruct (Nat.eqb c' c) eqn:E.
    + inversion Hc; subst p. congruence.
    + eapply HA; eassumption.
  - intros o' x Ex. specialize (Hcnt o'). rewrite (aget_aset Nat.eqb nat_eqb_eq) in Ex. destruct (Nat.eqb o' o) eqn:Eo.
    + apply Nat.eqb_eq in Eo. subst o'. inversion Ex; subst x. cbn. lia.
    + rewrite (HB _ _ Ex). lia.
  - intros o' x Ex Hc. rewrite (aget_aset Nat.eqb nat_eqb_eq) in Ex. destruct (Nat.eqb o' o) eqn:Eo.
    + inversion Ex; subst x. cbn in Hc. specialize (HC _ _ E0 Hc). lia.
    + eapply HC; eassumption.
  - intros t x i o' Ex Hin. destruct (HI _ _ _ _ Ex Hin) as [y [Ey Hy]].
    rewrite (aget_aset Nat.eqb nat_eqb_eq). destruct (Nat.eqb o' o) eqn:Eo.
    + apply Nat.eqb_eq in Eo. subst o'. rewrite E0 in Ey. inversion Ey; subst y. exists v. auto.
    + exists y. auto.
Qed.

Lemma msc_ops_indep : forall o s s',
  s_ops s' = s_ops s -> s_now s' = s_now s -> s_cfg s' = s_cfg s ->
  s_ops (maybe_start_cleanup o s') = s_ops (maybe_start_cleanup o s).
Proof.
  intros o s s' E1 E2 E3. unfold maybe_start_cleanup, op_alive, get_op, upd_op. rewrite E1, E2, E3.
  destruct (aget Nat.eqb o (s_ops s)) as [x|] eqn:Ex; cbn; [|exact E1].
  destruct (Nat.eqb (o_waiters x) 0 && negb (o_mayexist x)); [|exact E1].
  destruct (o_cleanup x); cbn; [exact E1|]. rewrite ?E1, ?Ex. cbn. rewrite ?E1. reflexivity.
Qed.

Lemma msc_frame : forall o s, s_calls (maybe_start_cleanup o s) = s_calls s /\ s_nops (maybe_start_cleanup o s) = s_nops s
  /\ s_tasks (maybe_start_cleanup o s) = s_tasks s.
Proof.
  intros o s. unfold maybe_start_cleanup.
  destruct (op_alive s o && Nat.eqb (o_waiters (get_op s o)) 0 && negb (o_mayexist (get_op s o))); [|auto].
  destruct (o_cleanup (get_op s o)); [auto|]. rewrite upd_op_eq. auto.
Qed.

Lemma V_stream_return : forall s c o code,
  opark (aget Nat.eqb c (s_calls s)) = Some o -> V s -> V (stream_return c o code s).
Proof.
  intros s c o code Hp HV. unfold stream_return. cbv zeta.
  set (s1 := match o_waiters (get_op s o) with O => _ | S n => _ end).
  pose proof (V_detach s c o PDone eq_refl Hp HV) as H1. fold s1 in H1.
  apply (V_maybe_start_cleanup _ o) in H1.
  destruct (msc_frame o s1) as [F1 [F2 F3]]. destruct (msc_frame o (set_call c PDone s1)) as [G1 [G2 G3]].
  eapply V_frame; [ | | | |exact H1].
  - change (aset Nat.eqb c PDone (s_calls (maybe_start_cleanup o s1)) = s_calls (maybe_start_cleanup o (set_call c PDone s1))).
    rewrite F1, G1. reflexivity.
  - change (s_ops (maybe_start_cleanup o s1) = s_ops (maybe_start_cleanup o (set_call c PDone s1))).
    symmetry. apply msc_ops_indep; reflexivity.
  - change (s_nops (maybe_start_cleanup o s1) = s_nops (maybe_start_cleanup o (set_call c PDone s1))).
    rewrite F2, G2. reflexivity.
  - change (s_tasks (maybe_start_cleanup o s1) = s_tasks (maybe_start_cleanup o (set_call c PDone s1))).
    rewrite F3, G3. reflexivity.
Qed.

(* ---- frames of the call table -------------------------------------------------------------------------------- *)
Definition PCf (c : nat) (p : option pc) (s : state) : Prop := aget Nat.eqb c (s_calls s) = p.
Lemma PCf_frame : forall c p s s', s_calls s' = s_calls s -> PCf c p s -> PCf c p s'.
Proof. unfold PCf. intros c p s s' ->. auto. Qed.
Ltac t_pc := intros; (eapply PCf_frame; [|eassumption]); frame_eq.

Definition keeps_calls (l : list (nat * pc)) (s : state) : Prop := s_calls s = l.
Lemma keeps_calls_frame : forall l s s', s_calls s' = s_calls s -> keeps_calls l s -> keeps_calls l s'.
Proof. unfold keeps_calls. intros l s s' ->. auto. Qed.
Ltac t_kc := intros; (eapply keeps_calls_frame; [|eassumption]); frame_eq.
Ltac kc_go := match goal with |- s_calls ?e = s_calls ?s => change (keeps_calls (s_calls s) e);
  let H := fresh in assert (H : keeps_calls (s_calls s) s) by reflexivity; fr_go (keeps_calls (s_calls s)) t_kc end.

Lemma calls_enter : forall t s, s_calls (enter t s) = s_calls s. Proof. intros. kc_go. Qed.
Lemma calls_complete_task : forall t r b s, s_calls (complete_task t r b s) = s_calls s. Proof. intros. kc_go. Qed.
Lemma calls_cancel_all_queued : forall i r s, s_calls (cancel_all_queued i r s) = s_calls s. Proof. intros. kc_go. Qed.
Lemma calls_maybe_start_cleanup : forall o s, s_calls (maybe_start_cleanup o s) = s_calls s. Proof. intros. kc_go. Qed.
Lemma calls_new_operation : forall t p i m s, s_calls (fst (new_operation t p i m s)) = s_calls s. Proof. intros. kc_go. Qed.
Lemma calls_assign_next : forall w s, s_calls (fst (assign_next_queued_task w s)) = s_calls s. Proof. intros. kc_go. Qed.

(* V, and call c is not parked on an operation *)
Definition VU (c : nat) (s : state) : Prop := V s /\ opark (aget Nat.eqb c (s_calls s)) = None.

Lemma VU_lift : forall c s s', (V s -> V s') -> s_calls s' = s_calls s -> VU c s -> VU c s'.
Proof. unfold VU. intros c s s' HV Hc [H1 H2]. rewrite Hc. auto. Qed.

Lemma VU_setcall : forall c s p', parked_on p' = None -> VU c s -> VU c (set_call c p' s).
Proof.
  unfold VU. intros c s p' Hp [HV Hu]. split; [apply V_setcall_same; [rewrite Hu, Hp; reflexivity|exact HV]|].
  unfold set_call. cbn. rewrite (aget_aset_same Nat.eqb nat_eqb_eq). exact Hp.
Qed.

Ltac t_VU :=
  intros;
  lazymatch goal with
  | |- VU ?c (set_call ?c _ _) => apply VU_setcall; [reflexivity | assumption]
  | |- VU _ (?f ?s) =>
    apply (VU_lift _ s); [ let H := fresh in intro H; revert H; generalize s; t_V | frame_eq | assumption ]
  end.

Ltac vu_leaf :=
  idtac;
  lazymatch goal with
  | |- VU _ (maybe_start_cleanup ?o ?s) => apply (VU_lift _ s); [apply V_maybe_start_cleanup | apply calls_maybe_start_cleanup | ]
  | |- VU _ (fst (new_operation ?t ?p ?i ?m ?s)) => apply (VU_lift _ s); [apply V_new_operation | apply calls_new_operation | ]
  | |- VU _ (complete_task ?t ?r ?b ?s) => apply (VU_lift _ s); [apply V_complete_task | apply calls_complete_task | ]
  | |- VU _ (cancel_all_queued ?i ?r ?s) => apply (VU_lift _ s); [apply V_cancel_all_queued | apply calls_cancel_all_queued | ]
  | |- VU _ (enter ?t ?s) => apply (VU_lift _ s); [apply V_enter | apply calls_enter | ]
  end.
Ltac vu_go := inv_go vu_leaf t_VU.

Lemma VU_get_next_task : forall c w b pr s, VU c s -> VU c (get_next_task c w b pr s).
Proof. intros. unfold get_next_task. vu_go. Qed.

Lemma VU_get_current_or_next : forall c w b pr s, VU c s -> VU c (get_current_or_next c w b pr s).
Proof.
  intros. unfold get_current_or_next.
  inv_go ltac:(first [vu_leaf | lazymatch goal with |- VU _ (get_next_task _ _ _ _ _) => apply VU_get_next_task end]) t_VU.
Qed.

Ltac vu_leaf2 :=
  first [ vu_leaf
        | lazymatch goal with
          | |- VU _ (get_next_task _ _ _ _ _) => apply VU_get_next_task
          | |- VU _ (get_current_or_next _ _ _ _ _) => apply VU_get_current_or_next
          end ].
Ltac vu_go2 := inv_go vu_leaf2 t_VU.

Lemma VU_sync_start : forall c a s, VU c s -> VU c (sync_start c a s).
Proof.
  intros c a s H. apply sync_start_closed; try exact H; intros; vu_go2.
Qed.

Lemma VU_V : forall c s, VU c s -> V s.
Proof. unfold VU. tauto. Qed.

(* Execute: the call is new (not parked) *)
Lemma alive_of_OTf : forall o t s, OTf o t s -> op_alive s o = true.
Proof. unfold OTf, op_alive. intros o t s [y [Ey _]]. rewrite Ey. reflexivity. Qed.

Lemma OTf_new_operation : forall t prio i m s, V s -> OTf (s_nops s) t (fst (new_operation t prio i m s)).
Proof.
  intros t prio i m s [_ [H1 _]]. unfold OTf, new_operation, upd_task. cbn.
  rewrite (aget_app Nat.eqb), (notin_aget_None Nat.eqb nat_eqb_eq).
  - cbn. rewrite Nat.eqb_refl. eauto.
  - intro Hin. specialize (H1 _ Hin). lia.
Qed.

(* a new operation is created for the call, something internal happens, the call attaches to it *)
Lemma V_attach_new : forall c t prio i S4 (F : state -> state),
  (forall s, V s -> V (F s)) -> (forall s, s_calls (F s) = s_calls s) -> (forall s o t, OTf o t s -> OTf o t (F s)) ->
  opark (aget Nat.eqb c (s_calls S4)) = None -> V S4 ->
  V (wait_execution_begin c (s_nops S4) (F (fst (new_operation t prio i false S4)))).
Proof.
  intros c t prio i S4 F HF1 HF2 HF3 Hu HV.
  apply V_wait_execution_begin.
  - rewrite HF2, calls_new_operation. exact Hu.
  - eapply alive_of_OTf. apply HF3. apply OTf_new_operation. exact HV.
  - apply HF1. apply V_new_operation. exact HV.
Qed.

Lemma V_exec_start : forall c a s, opark (aget Nat.eqb c (s_calls s)) = None -> V s -> V (exec_start c a s).
Proof.
  intros c a s Hu HV. unfold exec_start.
  assert (Hpc : PCf c (aget Nat.eqb c (s_calls s)) s) by reflexivity.
  assert (Hside : forall S1, PCf c (aget Nat.eqb c (s_calls s)) S1 -> opark (aget Nat.eqb c (s_calls S1)) = None).
  { intros S1 H1. unfold PCf in H1. rewrite H1. exact Hu. }
  destruct (aget dkey_eqb (x_instance a, x_digest a) (s_inflight s)) as [t0|] eqn:Ei.
  - cbv zeta.
    set (S1 := get_or_create_invocation _ _ _).
    assert (HV1 : V S1) by (unfold S1; v_go3).
    assert (Hp1 : PCf c (aget Nat.eqb c (s_calls s)) S1) by (unfold S1; fr_go (PCf c (aget Nat.eqb c (s_calls s))) t_pc).
    clearbody S1.
    destruct (aget iref_eqb _ (t_ops (get_task S1 t0))) as [o|] eqn:Eo.
    + (* the invocation is attached already: its operation is registered *)
      apply V_wait_execution_begin; [apply Hside; exact Hp1| |exact HV1].
      apply (aget_In iref_eqb iref_eqb_eq) in Eo. unfold get_task in Eo.
      destruct (aget Nat.eqb t0 (s_tasks S1)) as [x|] eqn:Ex; [|destruct Eo].
      destruct HV1 as [_ [_ [_ [_ [_ [_ HI]]]]]]. destruct (HI _ _ _ _ Ex Eo) as [y [Ey _]].
      unfold op_alive. rewrite Ey. reflexivity.
    + match goal with |- V (match ?N with _ => _ end) => rewrite (surjective_pairing N) end.
      cbv beta iota. change (snd (new_operation ?t ?p ?i ?m S1)) with (s_nops S1).
      match goal with |- V (wait_execution_begin c (s_nops S1) ?E) =>
        let F := eval pattern (fst (new_operation t0 (x_prio a) (mkI (task_scq (emit (OGhost GSelAbandoned) s) t0) (x_keys a)) false S1)) in E in
        lazymatch F with ?F' _ => apply (V_attach_new c _ _ _ S1 F') end end.
      * intros; cbv beta; v_go3.
      * intros; cbv beta; kc_go.
      * intros; cbv beta; inv_go fail t_ot.
      * apply Hside; exact Hp1.
      * exact HV1.
  - destruct (longest_prefix_pq s (x_plat a) (x_instance a)) as [p|].
    + destruct (x_sel a) as [[[idx dur] timeout] l]. cbv zeta.
      match goal with |- V (match new_operation _ _ _ _ ?S with _ => _ end) => set (S4 := S) end.
      assert (HV4 : V S4) by (unfold S4; v_go3).
      assert (Hp4 : PCf c (aget Nat.eqb c (s_calls s)) S4) by (unfold S4; fr_go (PCf c (aget Nat.eqb c (s_calls s))) t_pc).
      clearbody S4.
      match goal with |- V (match ?N with _ => _ end) => rewrite (surjective_pairing N) end.
      cbv beta iota. change (snd (new_operation ?t ?p ?i ?m S4)) with (s_nops S4).
      match goal with |- V (wait_execution_begin c (s_nops S4) (schedule ?t ?E)) =>
        apply (V_attach_new c _ _ _ S4 (schedule t)) end.
      * intros; v_go3.
      * intros; kc_go.
      * intros; inv_go fail t_ot.
      * apply Hside; exact Hp4.
      * exact HV4.
    + apply V_ret_unparked; [|apply V_emit; exact HV]. exact Hu.
Qed.

Ltac vu_leaf3 :=
  first [ vu_leaf2
        | lazymatch goal with
          | |- VU _ (sync_start _ _ _) => apply VU_sync_start
          end ].
Ltac vu_go3 := inv_go vu_leaf3 t_VU.

Lemma VU_terminate_fold : forall c p l s waits,
  VU c s -> VU c (fst (fold_left (fun (acc : state * list (nat * nat)) w =>
        let '(s, waits) := acc in
        if matches w p then
          let s := mark_terminating w s in
          match k_task (get_worker s w) with
          | Some tk => (s, waits ++ [(tk, t_gen (get_task s tk))])
          | None => (if k_wait (get_worker s w) then wake_up w s else s, waits)
          end
        else (s, waits)) l (s, waits))).
Proof.
  intros c p l s waits H.
  match goal with |- VU c (fst (fold_left ?g ?l ?a)) => apply (fold_left_pres (fun acc => VU c (fst acc)) g l) end;
    [|exact H].
  intros [s1 w1] w H1. cbn [fst] in *. vu_go3.
Qed.

Lemma get_call_aget : forall s c, get_call s c = match aget Nat.eqb c (s_calls s) with Some x => x | None => PDone end.
Proof. reflexivity. Qed.

Lemma V_step_core : forall e s,
  (is_start e = true -> aget Nat.eqb (ev_call e) (s_calls s) = None) -> V s -> V (step_core e s).
Proof.
  intros e s Hfresh HV.
  assert (Hstart : is_start e = true -> VU (ev_call e) s).
  { intro Hs. split; [exact HV|]. rewrite (Hfresh Hs). reflexivity. }
  destruct e; cbn [is_start ev_call] in *; unfold step_core.
  - (* Execute *) apply V_exec_start; [rewrite calls_enter, (Hfresh eq_refl); reflexivity|apply V_enter; exact HV].
  - apply (VU_V c). specialize (Hstart eq_refl). vu_go3.
  - apply (VU_V c). specialize (Hstart eq_refl). vu_go3.
  - apply (VU_V c). specialize (Hstart eq_refl). vu_go3.
  - apply (VU_V c). specialize (Hstart eq_refl). vu_go3.
  - apply (VU_V c). specialize (Hstart eq_refl). vu_go3.
  - apply (VU_V c). specialize (Hstart eq_refl). vu_go3.
  - apply (VU_V c). specialize (Hstart eq_refl). cbv zeta.
    match goal with |- VU _ (match ?x with _ => _ end) => rewrite (surjective_pairing x) end.
    cbv beta iota. apply VU_setcall; [reflexivity|]. apply VU_terminate_fold. vu_go3.
  - apply (VU_V c). specialize (Hstart eq_refl). vu_go3.
  - apply (VU_V c). specialize (Hstart eq_refl). vu_go3.
  - (* EEnter *)
    cbv zeta. destruct (negb (at_gate s (get_call s c))); [exact HV|].
    assert (HVe : V (enter t s)) by (apply V_enter; exact HV).
    rewrite get_call_aget. destruct (aget Nat.eqb c (s_calls s)) as [p|] eqn:Ep; [|exact HVe].
    assert (Hpe : aget Nat.eqb c (s_calls (enter t s)) = Some p) by (rewrite calls_enter; exact Ep).
    destruct p; try exact HVe.
    all: try (apply (VU_V c); assert (Hu : VU c (enter t s)) by (split; [exact HVe|rewrite Hpe; reflexivity]);
              set (s1 := enter t s) in *; clearbody s1; vu_go3; fail).
    + (* PWaitRecheck *)
      destruct (op_alive (enter t s) name) eqn:Ea.
      * apply V_wait_execution_begin; [rewrite Hpe; reflexivity|exact Ea|exact HVe].
      * apply V_ret_unparked; [rewrite Hpe; reflexivity|exact HVe].
    + apply V_stream_iter; [rewrite Hpe; reflexivity|exact HVe].
    + apply V_stream_return; [rewrite Hpe; reflexivity|exact HVe].
    + apply V_stream_return; [rewrite Hpe; reflexivity|exact HVe].
  - (* ETimer *)
    cbv zeta. destruct (at_gate s (get_call s c)); [exact HV|].
    rewrite get_call_aget. destruct (aget Nat.eqb c (s_calls s)) as [p|] eqn:Ep; [|exact HV].
    assert (Hpe : aget Nat.eqb c (s_calls (enter t s)) = Some p) by (rewrite calls_enter; exact Ep).
    assert (HVe : V (enter t s)) by (apply V_enter; exact HV).
    destruct p; try exact HV.
    all: try (apply (VU_V c); assert (Hu : VU c (enter t s)) by (split; [exact HVe|rewrite Hpe; reflexivity]);
              set (s1 := enter t s) in *; clearbody s1; vu_go3; fail).
    apply V_stream_iter; [rewrite Hpe; reflexivity|exact HVe].
  - (* ECancel *)
    cbv zeta. destruct (at_gate s (get_call s c)); [exact HV|].
    rewrite get_call_aget. destruct (aget Nat.eqb c (s_calls s)) as [p|] eqn:Ep; [|exact HV].
    destruct p; try exact HV.
    all: try (apply (VU_V c); assert (Hu : VU c s) by (split; [exact HV|rewrite Ep; reflexivity]); vu_go3; fail).
    apply V_setcall_same; [rewrite Ep; reflexivity|exact HV].
Qed.

Lemma V_auto_fold : forall l s,
  NoDup (map fst l) -> (forall c p, In (c, p) l -> aget Nat.eqb c (s_calls s) = Some p) ->
  V s -> V (fold_left auto_step l s).
Proof.
  induction l as [|[c' p'] l IH]; intros s Hnd Hin HV; cbn [fold_left]; [exact HV|].
  inversion Hnd as [|? ? Hnotin Hnd']; subst. cbn [fst] in Hnotin.
  assert (Hc' : aget Nat.eqb c' (s_calls s) = Some p') by (apply Hin; left; reflexivity).
  apply IH; [exact Hnd'| |].
  - intros c p Hcp. assert (Hne : c <> c') by (intros ->; apply Hnotin; apply (in_map fst) in Hcp; exact Hcp).
    specialize (Hin c p (or_intror Hcp)). unfold auto_step. destruct p'; try exact Hin.
    destruct (terminate_done s waits); [|exact Hin]. rewrite aget_calls_ret_other by auto. exact Hin.
  - unfold auto_step. destruct p'; try exact HV. destruct (terminate_done s waits); [|exact HV].
    apply V_ret_unparked; [rewrite Hc'; reflexivity|exact HV].
Qed.

Lemma V_auto_returns : forall s, V s -> V (auto_returns s).
Proof.
  intros s HV. rewrite auto_returns_fold. pose proof HV as [H0 _]. apply V_auto_fold; [exact H0| |exact HV].
  intros c p Hin. apply (In_aget_NoDup Nat.eqb nat_eqb_eq); assumption.
Qed.

Lemma V_step : forall s e h,
  (is_start e = true -> aget Nat.eqb (ev_call e) (s_calls s) = None) -> V s -> V (fst (step s (e, h))).
Proof.
  intros s e h Hf HV. unfold step. cbn [fst snd].
  eapply V_frame; [reflexivity|reflexivity|reflexivity|reflexivity|]. apply V_auto_returns. apply V_step_core.
  - exact Hf.
  - eapply V_frame; [ | | | |exact HV]; reflexivity.
Qed.

Lemma V_init : forall cfg t0, V (init cfg t0).
Proof.
  intros. unfold V, init, op_alive. cbn. v_split; try constructor; intros; try discriminate; try contradiction.
Qed.

Lemma V_run : forall evs s U,
  keys_in U s -> fresh_calls U evs -> V s -> V (fst (run s evs)).
Proof.
  induction evs as [|[e h] evs IH]; intros s U Hk Hf HV; [exact HV|].
  cbn [run]. destruct (step s (e, h)) as [s1 o] eqn:Es. destruct (run s1 evs) as [s2 os] eqn:Er. cbn [fst].
  replace s2 with (fst (run s1 evs)) by (rewrite Er; reflexivity).
  assert (Hs1 : s1 = fst (step s (e, h))) by (rewrite Es; reflexivity).
  cbn [fresh_calls] in Hf.
  apply (IH s1 (if is_start e then ev_call e :: U else U)).
  - subst s1. apply keys_in_step. exact Hk.
  - destruct (is_start e); tauto.
  - subst s1. apply V_step; [|exact HV]. intro Hs. rewrite Hs in Hf. destruct Hf as [Hnotin _].
    destruct (aget Nat.eqb (ev_call e) (s_calls s)) eqn:Eg; [|reflexivity]. exfalso. apply Hnotin. apply Hk.
    eapply aget_Some_in_keys; [exact nat_eqb_eq|exact Eg].
Qed.

(* waiters: in every reachable state (calls numbered freshly) ... *)
Lemma waiters_all : forall cfg t0 evs, fresh_calls [] evs -> V (fst (run (init cfg t0) evs)).
Proof.
  intros cfg t0 evs Hf. apply (V_run evs (init cfg t0) []); [|exact Hf|apply V_init].
  intros c Hc. destruct Hc.
Qed.
