(* The monitor on the model's trace: e_arm (position 13). *)
From Coq Require Import Lia Permutation.
From VF Require Export Sched.ProofsMon14.
From VF Require Import Sched.Spec Sched.Corr Sched.ProofsObsLink Sched.ProofsObsC01 Sched.ProofsExec Sched.ProofsStreams Sched.ProofsWorkers Sched.ProofsLearner.
Open Scope Z_scope.

(* ---- the Synchronize answers of an event carry the event's call id ------------------------------------------------------------------------------------ *)
Definition TagS (c0 : nat) (s : state) : Prop := forall c d z, In (OSync c d z) (s_out s) -> c = c0.
Ltac t_tags := intros; unfold TagS in *; prim_unfold; prim_cases; cbn;
  first [assumption | (intros ? ? ? [?E|?Hx]; [first [discriminate ?E | (inversion E; reflexivity)] | eauto])].

Lemma tags_step : forall s e h c d z, In (OSync c d z) (snd (step s (e, h))) -> c = ev_call e.
Proof.
  intros s e h c d z Hin. unfold step in Hin. cbn [snd fst] in Hin. apply in_rev in Hin.
  set (sa := s <| s_hints := h |> <| s_out := [] |>) in *.
  assert (H1 : TagS (ev_call e) (step_core e sa)).
  { apply fr_step_core with (P := TagS (ev_call e)) (c0 := ev_call e); try (t_tags; fail); try reflexivity. intros c' d' z' []. }
  assert (H2 : TagS (ev_call e) (auto_returns (step_core e sa))).
  { apply (fr_auto_returns (TagS (ev_call e))); [|exact H1]. intros s1 c1 code H c' d' z' Hx. unfold ret, set_call, emit in Hx. cbn in Hx. destruct Hx as [E|Hx]; [discriminate|eauto]. }
  exact (H2 c d z Hin).
Qed.

Lemma kcleanup_exists : forall s w z, k_cleanup (get_worker s w) = Some z -> worker_exists s w = true.
Proof. intros s w z H. unfold get_worker, worker_exists in *. destruct (aget wref_eqb w (q_workers (get_scq s (w_sk w)))); [reflexivity|discriminate]. Qed.

Lemma Pan_panicked : forall cfg t0 pfx e h, Pan (auto_returns (step_core e ((fst (run (init cfg t0) pfx)) <| s_hints := h |> <| s_out := [] |>))) ->
  panicked (snd (run (init cfg t0) (pfx ++ [(e, h)]))).
Proof.
  intros cfg t0 pfx e h [what Hw]. rewrite run_snoc_snd. apply panicked_app. right. exists (snd (step (fst (run (init cfg t0) pfx)) (e, h))), what.
  split; [left; reflexivity|]. unfold step. cbn [snd fst]. rewrite <- in_rev. exact Hw.
Qed.

(* ---- the answers of Synchronize calls --------------------------------------------------------------------------------------------------------------------- *)
Lemma arm_sync_ok : forall cfg t0 pfx e h m c d z,
  good cfg t0 (pfx ++ [(e, h)]) -> ~ panicked (snd (run (init cfg t0) (pfx ++ [(e, h)]))) -> MPs pfx m ->
  let s := fst (run (init cfg t0) pfx) in let post := observe (fst (step s (e, h))) in
  In (OSync c d z) (snd (step s (e, h))) ->
  match find (fun '(c', _) => Nat.eqb c c') (m_syncs (mon_event e m)) with
  | Some (_, w) =>
    match find_dworker post (w_sk w) (wid w) with
    | Some k => if optz_eqb (dw_cleanup k) (Some (d_now post + cf_worker_timeout cfg)) then ""%string
                else "C06:worker-timeout-not-measured-from-last-synchronize"%string
    | None => "C06:synchronized-worker-not-registered"%string
    end
  | None => ""%string
  end = ""%string.
Proof.
  intros cfg t0 pfx e h m c d z Hg Hnp HM s post Hin. set (s' := fst (step s (e, h))) in *.
  pose proof (good_prefix _ _ _ _ Hg) as [Hsel [Hfr _]].
  assert (Hnp0 : ~ panicked (snd (run (init cfg t0) pfx))) by (intro Hp; apply Hnp; rewrite run_snoc_snd; apply panicked_app; left; exact Hp).
  destruct (Cok_run pfx (init cfg t0) Hsel (Cok_init cfg t0)) as [Hp|HC]; [contradiction|]. fold s in HC.
  destruct (Cok_run (pfx ++ [(e, h)]) (init cfg t0) (proj1 Hg) (Cok_init cfg t0)) as [Hp|HC']; [contradiction|]. rewrite run_snoc_fst in HC'. fold s s' in HC'.
  pose proof (tags_step s e h c d z Hin) as Ec.
  destruct (sync_answer_armed s e h (proj1 HC) (calls_nodup_run cfg t0 pfx) (ex_intro _ (OSync c d z) (conj Hin eq_refl))) as [w' [Hsw [Hp|Harm]]].
  { exfalso. apply Hnp. apply Pan_panicked. exact Hp. }
  fold s' in Harm.
  destruct (find (fun '(c', _) => Nat.eqb c c') (m_syncs (mon_event e m))) as [[c' w]|] eqn:Ef; [|reflexivity].
  assert (Ew : w = w').
  { pose proof (find_some _ _ Ef) as [Hfin Hfc]. apply Nat.eqb_eq in Hfc. subst c'.
    destruct e; cbn [sync_worker ev_call] in *; try discriminate Hsw.
    - inversion Hsw; subst w'. subst c. assert (Em : exists rest, m_syncs (mon_event (EStartSync c0 a t) m) = (c0, y_worker a) :: rest) by (cbn; destruct (y_state a); eexists; reflexivity).
      destruct Em as [rest Em]. rewrite Em in Ef. cbn [find] in Ef. rewrite Nat.eqb_refl in Ef. inversion Ef. reflexivity.
    - subst c. change (m_syncs (mon_event (EEnter c0 t) m)) with (m_syncs m) in Hfin. destruct (HM c0 w Hfin) as [a' [t' [h' [A B]]]].
      assert (Ep : exists p, aget Nat.eqb c0 (s_calls s) = Some p /\ pc_class p = Some (CSync w')).
      { unfold get_call in Hsw. destruct (aget Nat.eqb c0 (s_calls s)) as [p|]; [|discriminate Hsw]. exists p. split; [reflexivity|]. destruct p; try discriminate Hsw; inversion Hsw; reflexivity. }
      destruct Ep as [p [Ep Hcl]]. destruct (CLS_run cfg t0 pfx Hfr c0 p _ Ep Hcl) as [e'' [h'' [A' [S' [C' K']]]]].
      pose proof (fresh_unique_start pfx [] _ _ _ _ Hfr A A' eq_refl S' (eq_sym C')) as Ee. subst e''. cbn in K'. inversion K'. congruence.
    - subst c. change (m_syncs (mon_event (ETimer c0 t) m)) with (m_syncs m) in Hfin. destruct (HM c0 w Hfin) as [a' [t' [h' [A B]]]].
      assert (Ep : exists p, aget Nat.eqb c0 (s_calls s) = Some p /\ pc_class p = Some (CSync w')).
      { unfold get_call in Hsw. destruct (aget Nat.eqb c0 (s_calls s)) as [p|]; [|discriminate Hsw]. exists p. split; [reflexivity|]. destruct p; try discriminate Hsw; inversion Hsw; reflexivity. }
      destruct Ep as [p [Ep Hcl]]. destruct (CLS_run cfg t0 pfx Hfr c0 p _ Ep Hcl) as [e'' [h'' [A' [S' [C' K']]]]].
      pose proof (fresh_unique_start pfx [] _ _ _ _ Hfr A A' eq_refl S' (eq_sym C')) as Ee. subst e''. cbn in K'. inversion K'. congruence. }
  subst w'. unfold armed in Harm. pose proof (kcleanup_exists _ _ _ Harm) as He.
  unfold post. rewrite (find_dworker_of s' (Cok_C01F _ HC') w He). unfold observe_worker. cbn [dw_cleanup]. rewrite Harm.
  destruct (hardfail_const cfg t0 (pfx ++ [(e, h)])) as [Ecfg _]. rewrite run_snoc_fst in Ecfg. fold s s' in Ecfg. rewrite Ecfg.
  change (d_now (observe s')) with (s_now s'). unfold optz_eqb. cbn [opt_eqb]. rewrite Z.eqb_refl. reflexivity.
Qed.

(* ---- the returns of stream calls --------------------------------------------------------------------------------------------------------------------------------- *)
Lemma rearmed_auto_returns : forall oc z s, rearmed oc z s -> rearmed oc z (auto_returns s).
Proof.
  intros oc z s [Hp|H]; [left; apply (fr_auto_returns Pan); [intros; unfold ret; inv_go fail t_pan|exact Hp]|right].
  destruct (keys_auto_returns s) as [A1 _]. rewrite A1. exact H.
Qed.
Lemma WUb_auto_returns : forall s0 oc s, WUb s0 oc s -> WUb s0 oc (auto_returns s).
Proof. intros s0 oc s H. apply (fr_auto_returns (WUb s0 oc)); try (intros; t_WU); try (intros; unfold ret; wu_go); try exact H. Qed.

Lemma stream_known_kind : forall cfg t0 pfx e h m post o c, InvS cfg t0 pfx m ->
  get_stream (pm3 post e o m) c <> None -> kind_of (pfx ++ [(e, h)]) c = true.
Proof.
  intros cfg t0 pfx e h m post o c HI Hs. destruct (kind_of (pfx ++ [(e, h)]) c) eqn:Hk; [reflexivity|exfalso]. apply Hs.
  rewrite kind_of_snoc in Hk. apply orb_false_iff in Hk. destruct Hk as [Hk0 Hk1].
  unfold pm3. apply c02_fold_stream_none. rewrite (get_stream_frame _ _ c (pm2_streams e o m)). rewrite mon_event_stream.
  pose proof (proj1 HI c) as Hc0. rewrite Hk0 in Hc0. cbn [smi] in Hc0.
  destruct (stream_start e && Nat.eqb (ev_call e) c) eqn:Eb.
  - apply andb_true_iff in Eb. destruct Eb as [Eb1 Eb2]. rewrite Eb1, Eb2 in Hk1. destruct e; discriminate.
  - destruct e; try exact Hc0. destruct (Nat.eqb c0 c); [rewrite Hc0; reflexivity|exact Hc0].
Qed.

Lemma arm_ret_ok : forall cfg t0 pfx e h m pre c code,
  good cfg t0 (pfx ++ [(e, h)]) -> ~ panicked (snd (run (init cfg t0) (pfx ++ [(e, h)]))) -> InvS cfg t0 pfx m ->
  let s := fst (run (init cfg t0) pfx) in let post := observe (fst (step s (e, h))) in pre_ok pre s ->
  In (ORet c code) (snd (step s (e, h))) -> get_stream (pm3 post e (snd (step s (e, h))) m) c <> None ->
  first_nonempty (map (fun o =>
      if Nat.eqb (do_waiters o) 0 && negb (do_mayexist o) && match find_dop pre (do_name o) with Some o0 => negb (Nat.eqb (do_waiters o0) 0) | None => false end
      then (if optz_eqb (do_cleanup o) (Some (d_now post + cf_nowaiters cfg)) then ""%string else "C06:no-waiter-timeout-not-measured-from-last-waiter"%string)
      else ""%string) (d_ops post)) = ""%string.
Proof.
  intros cfg t0 pfx e h m pre c code Hg Hnp HI s post Hpre Hin Hst. set (s' := fst (step s (e, h))) in *. set (o := snd (step s (e, h))) in *.
  pose proof (good_prefix _ _ _ _ Hg) as [Hsel [Hfr _]].
  assert (Hnp0 : ~ panicked (snd (run (init cfg t0) pfx))) by (intro Hp; apply Hnp; rewrite run_snoc_snd; apply panicked_app; left; exact Hp).
  destruct (Cok_run pfx (init cfg t0) Hsel (Cok_init cfg t0)) as [Hp|HC]; [contradiction|]. fold s in HC.
  assert (HG : G s) by (destruct HC as [A [B [_ [D _]]]]; split; [exact A|split; assumption]).
  pose proof (stream_known_kind cfg t0 pfx e h m post o c HI Hst) as Hk.
  destruct (stream_facts cfg t0 pfx e h c (proj1 (proj2 Hg)) Hk) as [_ [B _]]. fold s s' o in B.
  assert (Hec : ev_call e = c).
  { destruct (Nat.eq_dec (ev_call e) c) as [E|Hnc]; [exact E|exfalso]. destruct (B Hnc) as [_ E0]. pose proof (ctag_nil_untagged c o E0 _ Hin) as Hu. rewrite tagged_self_ret in Hu. discriminate. }
  (* the waiters, relative to the state the event starts in *)
  set (sa := s <| s_hints := h |> <| s_out := [] |>). set (oc := ret_op e (get_call sa (ev_call e)) (s_nops s)).
  assert (Hops : forall o1 x0, aget Nat.eqb o1 (s_ops s) = Some x0 -> (o1 < s_nops s)%nat).
  { intros o1 x0 Ho. destruct (G_W _ HG) as [_ [HWo _]]. exact (proj2 (HWo o1 x0 (aget_In Nat.eqb nat_eqb_eq _ _ _ Ho))). }
  assert (Hsa : GWU s oc sa).
  { split; [eapply G_eq; [..|exact HG]; reflexivity|]. split; [exact Hops|]. split; [cbn; lia|]. intros o1 x0 x Ho Hx _. change (s_ops sa) with (s_ops s) in Hx. left. congruence. }
  destruct (WUb_step_core s e sa (s_nops s) Hsa) as [H1 H1r]. fold oc in H1, H1r.
  pose proof (WUb_auto_returns s oc _ H1) as H2.
  assert (H3 : WU s oc s') by (unfold s', step; cbn [fst snd]; fold sa; eapply WU_frame; [| |exact (proj2 H2)]; reflexivity).
  pose proof (proj1 (ML_run cfg t0 (pfx ++ [(e, h)]))) as Hnd. rewrite run_snoc_fst in Hnd. fold s s' in Hnd.
  destruct (hardfail_const cfg t0 (pfx ++ [(e, h)])) as [Ecfg' _]. rewrite run_snoc_fst in Ecfg'. fold s s' in Ecfg'.
  destruct (hardfail_const cfg t0 pfx) as [Ecfg _]. fold s in Ecfg.
  apply first_nonempty_all_empty. intros y Hy. apply in_map_iff in Hy. destruct Hy as [dop [<- Hd]].
  unfold post, observe in Hd. cbn [d_ops] in Hd. apply in_map_iff in Hd. destruct Hd as [[o1 x] [<- Hox]].
  pose proof (In_aget_NoDup Nat.eqb nat_eqb_eq _ _ _ Hnd Hox) as Ea.
  cbn [do_waiters do_mayexist do_name do_cleanup observe_op].
  destruct (Nat.eqb (o_waiters x) 0) eqn:Ew; [|reflexivity]. destruct (o_mayexist x) eqn:Em; [reflexivity|]. cbn [negb andb].
  rewrite (find_dop_ops pre (observe s) o1 (proj1 Hpre)).
  destruct (aget Nat.eqb o1 (s_ops s)) as [x0|] eqn:E0; [|rewrite (find_dop_observe_none s o1 E0); reflexivity].
  rewrite (find_dop_observe s o1 x0 E0). cbn [do_waiters observe_op]. destruct (Nat.eqb (o_waiters x0) 0) eqn:Ew0; [reflexivity|]. cbn [negb].
  apply Nat.eqb_eq in Ew. apply Nat.eqb_neq in Ew0.
  destruct (Nat.eq_dec o1 oc) as [Eoc|Hne].
  2:{ exfalso. destruct (proj2 H3 o1 x0 x E0 Ea Hne) as [E|E]; [congruence|contradiction]. }
  destruct H1r as [Ed|[t [Hre [Ee Hnow]]]]; [exfalso; pose proof (Hops _ _ E0); lia|].
  apply rearmed_auto_returns in Hre. destruct Hre as [Hp|Hre]; [exfalso; apply Hnp; apply Pan_panicked; exact Hp|].
  subst o1. assert (Hx : aget Nat.eqb oc (s_ops (auto_returns (step_core e sa))) = Some x) by exact Ea.
  rewrite (Hre x Hx Ew Em). change (d_now post) with (s_now s').
  assert (En : s_now s' = s_now (enter t sa)).
  { unfold s', step. cbn [fst snd]. fold sa. change (s_now (auto_returns (step_core e sa) <| s_out := [] |> <| s_hints := [] |>)) with (s_now (auto_returns (step_core e sa))).
    destruct (keys_auto_returns (step_core e sa)) as [_ [_ [_ [_ [_ [A6 _]]]]]]. rewrite A6. exact Hnow. }
  assert (Ec : s_cfg (enter t sa) = cfg).
  { assert (Hk0 : keeps_cfg cfg (s_hardfail s) (enter t sa)); [|exact (proj1 Hk0)]. assert (Hs0 : keeps_cfg cfg (s_hardfail s) sa) by (split; [exact Ecfg|reflexivity]). fr_go (keeps_cfg cfg (s_hardfail s)) t_cfg. }
  rewrite En, Ec. unfold optz_eqb. cbn [opt_eqb]. rewrite Z.eqb_refl. reflexivity.
Qed.

Lemma pc_arm_ok : forall cfg t0 pfx e h m pre,
  good cfg t0 (pfx ++ [(e, h)]) -> ~ panicked (snd (run (init cfg t0) (pfx ++ [(e, h)]))) -> InvS cfg t0 pfx m -> MPs pfx m ->
  let s := fst (run (init cfg t0) pfx) in pre_ok pre s ->
  let post := observe (fst (step s (e, h))) in let o := snd (step s (e, h)) in
  pc_arm cfg pre post e o m (pm3 post e o m) = ""%string.
Proof.
  intros cfg t0 pfx e h m pre Hg Hnp HI HM s Hpre post o. unfold pc_arm. cbv zeta. apply first_nonempty_all_empty. intros y Hy.
  apply in_map_iff in Hy. destruct Hy as [x [<- Hx]]. destruct x as [| c code | c d z | |]; try reflexivity.
  - change (find (fun s0 => Nat.eqb (sm_call s0) c) (m_streams (pm3 post e o m))) with (get_stream (pm3 post e o m) c).
    destruct (get_stream (pm3 post e o m) c) eqn:Es; [|reflexivity].
    apply (arm_ret_ok cfg t0 pfx e h m pre c code Hg Hnp HI Hpre Hx). unfold post, o, s in Es. rewrite Es. discriminate.
  - exact (arm_sync_ok cfg t0 pfx e h m c d z Hg Hnp HM Hx).
Qed.

Theorem monitor_arm_on_model : forall cfg t0 evs,
  selectors_in_range (init cfg t0) evs -> fresh_calls [] evs -> bg_scripts_ok evs -> causes_ok evs ->
  panicked (snd (run (init cfg t0) evs)) \/ trace_sub [13%nat] cfg t0 (model_trace cfg t0 evs) = true.
Proof.
  intros cfg t0 evs Hsel Hfr Hbg Hc.
  apply (trace_sub_generic2 cfg t0 [13%nat] causes_ok (InvC cfg t0) causes_ok_prefix) with (pfx := []) (m := mon0) (pre := empty_dump);
    [|split; [exact Hsel|split; assumption]|exact Hc|intros [o [what [[] _]]]|].
  - intros pfx [e h] m pre Hg Hq Hnp [HI [HM Hpre]]. cbv zeta. split.
    + cbn [forallb]. rewrite andb_true_r. apply String.eqb_eq. unfold p_components. cbv zeta. cbn [nth fst]. apply pc_arm_ok; assumption.
    + split; [apply InvS_step; [exact (proj1 (proj2 Hg))|exact Hq|exact HI]|]. split; [apply MPs_step; exact HM|]. rewrite run_snoc_fst. split; reflexivity.
  - split; [|split; [intros c w []|apply pre_ok_init]].
    split; [intro c; cbn; reflexivity|]. intros t r Hr. unfold init, get_task in Hr. cbn in Hr. discriminate.
Qed.
