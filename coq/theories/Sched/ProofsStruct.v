(* C01, structural layer: keys of the size class queue table, of the worker
   tables and of the invocation table are unique, a worker is listed only in
   the queue its id names, a queue exists exactly when its root invocation
   does, and every queue belongs to a registered platform queue that lists
   its size class. *)
From Coq Require Import Lia.
From VF Require Export Sched.ProofsRead Sched.ProofsRefs2.
Open Scope Z_scope.

Definition St (s : state) : Prop :=
  NoDup (map fst (s_scqs s)) /\
  (forall k q, In (k, q) (s_scqs s) ->
     NoDup (map fst (q_workers q)) /\ forall w, In w (map fst (q_workers q)) -> w_sk w = k) /\
  NoDup (map fst (s_invs s)) /\
  (forall k, inv_exists s (mkI k []) = scq_exists s k) /\
  (forall k, scq_exists s k = true ->
     exists p, In p (s_pqs s) /\ p_key p = sk_pk k /\ In (sk_sc k) (p_scs p)).

Ltac st_split := split; [|split; [|split; [|split]]].

Lemma St_frame : forall s s', s_scqs s' = s_scqs s -> s_invs s' = s_invs s -> s_pqs s' = s_pqs s -> St s -> St s'.
Proof. unfold St, inv_exists, scq_exists. intros s s' -> -> ->. auto. Qed.

Lemma scq_exists_in : forall s k, scq_exists s k = true -> exists q, In (k, q) (s_scqs s).
Proof.
  unfold scq_exists. intros s k H. destruct (aget skey_eqb k (s_scqs s)) as [q|] eqn:E; [|discriminate].
  exists q. apply (aget_In skey_eqb skey_eqb_eq). exact E.
Qed.

(* queue records *)
Lemma St_upd_scq : forall s k f,
  (forall q, aget skey_eqb k (s_scqs s) = Some q ->
     NoDup (map fst (q_workers q)) -> (forall w, In w (map fst (q_workers q)) -> w_sk w = k) ->
     NoDup (map fst (q_workers (f q))) /\ forall w, In w (map fst (q_workers (f q))) -> w_sk w = k) ->
  St s -> St (upd_scq k f s).
Proof.
  intros s k f Hf HS. pose proof HS as [H0 [H1 [H2 [H3 H4]]]]. unfold upd_scq.
  destruct (aget skey_eqb k (s_scqs s)) as [q0|] eqn:Eq; [|exact HS].
  pose proof (aget_In skey_eqb skey_eqb_eq _ _ _ Eq) as Hq0.
  unfold St, inv_exists, scq_exists in *. cbn. st_split; auto.
  - rewrite (map_fst_aset skey_eqb skey_eqb_eq), Eq. exact H0.
  - intros k' q Hk. apply In_aset in Hk. destruct Hk as [[-> ->]|Hk]; [|eauto].
    destruct (H1 _ _ Hq0) as [A B]. apply Hf; [reflexivity|assumption|assumption].
  - intros k'. rewrite H3. rewrite (aget_aset skey_eqb skey_eqb_eq). destruct (skey_eqb k' k) eqn:E; [|reflexivity].
    apply skey_eqb_eq in E. subst. rewrite Eq. reflexivity.
  - intros k' Hk'. apply H4. rewrite (aget_aset skey_eqb skey_eqb_eq) in Hk'. destruct (skey_eqb k' k) eqn:E; [|exact Hk'].
    apply skey_eqb_eq in E. subst. rewrite Eq. reflexivity.
Qed.

Lemma St_upd_worker : forall s w f, St s -> St (upd_worker w f s).
Proof.
  intros s w f HS. unfold upd_worker. destruct (worker_exists s w) eqn:Ee; [|exact HS].
  apply St_upd_scq; [|exact HS]. intros q _ Hn Hk. cbn.
  assert (Hkeys : map fst (aset wref_eqb w (f (get_worker s w)) (q_workers q)) = map fst (q_workers q) \/
                  map fst (aset wref_eqb w (f (get_worker s w)) (q_workers q)) = map fst (q_workers q) ++ [w]).
  { rewrite (map_fst_aset wref_eqb wref_eqb_eq). destruct (aget wref_eqb w (q_workers q)); auto. }
  destruct Hkeys as [E|E]; rewrite E.
  - split; assumption.
  - split.
    + rewrite <- E. apply (NoDup_keys_aset wref_eqb wref_eqb_eq). exact Hn.
    + intros w' Hw'. apply in_app_or in Hw'. destruct Hw' as [Hw'|[<-|[]]]; auto.
Qed.

Lemma St_upd_inv : forall s i f, St s -> St (upd_inv i f s).
Proof.
  intros s i f HS. pose proof HS as [H0 [H1 [H2 [H3 H4]]]]. unfold upd_inv.
  destruct (aget iref_eqb i (s_invs s)) as [v0|] eqn:Ei; [|exact HS].
  unfold St, inv_exists, scq_exists in *. cbn. st_split; auto.
  - rewrite (map_fst_aset iref_eqb iref_eqb_eq), Ei. exact H2.
  - intros k. rewrite <- H3. rewrite (aget_aset iref_eqb iref_eqb_eq). destruct (iref_eqb (mkI k []) i) eqn:E; [|reflexivity].
    apply iref_eqb_eq in E. subst. rewrite Ei. reflexivity.
Qed.

Lemma St_upd_pq : forall s k f, (forall p, p_key (f p) = p_key p /\ incl (p_scs p) (p_scs (f p))) -> St s -> St (upd_pq k f s).
Proof.
  intros s k f Hf [H0 [H1 [H2 [H3 H4]]]]. unfold St, upd_pq, inv_exists, scq_exists in *. cbn. st_split; auto.
  intros k' Hk'. destruct (H4 _ Hk') as [p [Hp [Hkey Hsc]]].
  exists (if pkey_eqb (p_key p) k then f p else p). split; [|destruct (pkey_eqb (p_key p) k); [destruct (Hf p) as [A B]; rewrite A; auto|auto]].
  apply in_map_iff. exists p. auto.
Qed.

Lemma St_newpq : forall s k l m b, St s -> St (s <| s_pqs ::= fun ps => ps ++ [mkPq k l m b []] |>).
Proof.
  intros s k l m b [H0 [H1 [H2 [H3 H4]]]]. unfold St, inv_exists, scq_exists in *. cbn. st_split; auto.
  intros k' Hk'. destruct (H4 _ Hk') as [p [Hp Hr]]. exists p. split; [apply in_or_app; auto|exact Hr].
Qed.

(* ---- invocation tree ------------------------------------------------------------------------------ *)
Lemma prefixes_from_nonnil : forall rest acc pp, In pp (prefixes_from acc rest) -> pp <> [].
Proof.
  induction rest as [|k rest IH]; intros acc pp H; [destruct H|].
  cbn in H. destruct H as [<-|H]; [destruct acc; discriminate|eapply IH; exact H].
Qed.

Lemma inv_exists_app : forall s i i' v,
  inv_exists (s <| s_invs ::= fun l => l ++ [(i', v)] |>) i = inv_exists s i || iref_eqb i i'.
Proof.
  intros. unfold inv_exists. cbn. rewrite (aget_app iref_eqb). destruct (aget iref_eqb i (s_invs s)); [reflexivity|].
  cbn. destruct (iref_eqb i i'); reflexivity.
Qed.

Lemma St_new_inv : forall s i z, inv_exists s i = false -> i_path i <> [] ->
  St s -> St (s <| s_invs ::= fun l => l ++ [(i, new_inv z)] |>).
Proof.
  intros s i z Hne Hp [H0 [H1 [H2 [H3 H4]]]]. unfold St. st_split; auto.
  - cbn. rewrite map_app. cbn. apply NoDup_rev in H2. rewrite <- (rev_involutive (map fst (s_invs s) ++ [i])).
    apply NoDup_rev. rewrite rev_app_distr. cbn. constructor; [|exact H2]. rewrite <- in_rev.
    unfold inv_exists in Hne. destruct (aget iref_eqb i (s_invs s)) eqn:E; [discriminate|]. apply (aget_None_notin iref_eqb iref_eqb_eq). exact E.
  - intros k. rewrite inv_exists_app. rewrite (scq_exists_frame s) by reflexivity. rewrite <- H3.
    destruct (iref_eqb (mkI k []) i) eqn:E; [|apply orb_false_r]. apply iref_eqb_eq in E. subst i. cbn in Hp. congruence.
Qed.

Lemma St_get_or_create_invocation : forall k p s, St s -> St (get_or_create_invocation k p s).
Proof.
  intros k p s H. unfold get_or_create_invocation.
  assert (Hall : forall pp, In pp (prefixes_from [] p) -> pp <> []) by (intros; eapply prefixes_from_nonnil; eassumption).
  revert s H. induction (prefixes_from [] p) as [|pp l IH]; intros s H; cbn [fold_left]; [exact H|].
  apply IH; [intros; apply Hall; right; assumption|].
  destruct (inv_exists s (mkI k pp)) eqn:E; [exact H|].
  apply St_new_inv; [exact E|cbn; apply Hall; left; reflexivity|exact H].
Qed.

Lemma St_remove_if_empty : forall i s, St s -> St (fst (remove_if_empty i s)).
Proof.
  intros i s HS. unfold remove_if_empty.
  destruct (negb (is_root i) && inv_exists s i && negb (is_active s i) && (v_idle (get_inv s i) =? 0)%N) eqn:E; [|exact HS].
  cbn [fst]. apply andb_true_iff in E. destruct E as [E _]. apply andb_true_iff in E. destruct E as [E _].
  apply andb_true_iff in E. destruct E as [Er _]. apply negb_true_iff in Er.
  destruct HS as [H0 [H1 [H2 [H3 H4]]]]. unfold St. st_split; auto.
  - cbn. apply (NoDup_keys_adel iref_eqb). exact H2.
  - intros k. rewrite (scq_exists_frame s) by reflexivity. rewrite <- H3. unfold inv_exists. cbn.
    rewrite (aget_adel_other iref_eqb iref_eqb_eq); [reflexivity|].
    intros <-. unfold is_root in Er. cbn in Er. discriminate.
Qed.

(* ---- removal and creation of queues, creation of workers ------------------------------------------ *)
Lemma scq_exists_adel : forall s k k' (f : list (iref * inv) -> list (iref * inv)), NoDup (map fst (s_scqs s)) ->
  scq_exists (s <| s_scqs := adel skey_eqb k (s_scqs s) |> <| s_invs ::= f |>) k' = if skey_eqb k' k then false else scq_exists s k'.
Proof.
  intros s k k' f Hn. unfold scq_exists. cbn. destruct (skey_eqb k' k) eqn:E.
  - apply skey_eqb_eq in E. subst. rewrite (aget_adel_same skey_eqb skey_eqb_eq) by exact Hn. reflexivity.
  - rewrite (aget_adel_other skey_eqb skey_eqb_eq); [reflexivity|]. intros ->. rewrite skey_eqb_refl in E. discriminate.
Qed.

Lemma St_scq_remove_tail : forall k s, St s ->
  St ((upd_pq (sk_pk k) (fun p => p <| p_scs := filter (fun c => negb (c =? sk_sc k)%N) (p_scs p) |>)
        (s <| s_scqs := adel skey_eqb k (s_scqs s) |>
           <| s_invs := filter (fun '(i, _) => negb (skey_eqb (i_sk i) k)) (s_invs s) |>))
      <| s_pqs ::= fun ps => filter (fun p => negb (Nat.eqb (List.length (p_scs p)) 0)) ps |>).
Proof.
  intros k s [H0 [H1 [H2 [H3 H4]]]].
  set (s2 := s <| s_scqs := adel skey_eqb k (s_scqs s) |> <| s_invs := filter (fun '(i, _) => negb (skey_eqb (i_sk i) k)) (s_invs s) |>).
  assert (Hex : forall k', scq_exists s2 k' = if skey_eqb k' k then false else scq_exists s k').
  { intro k'. apply (scq_exists_adel s k k' (fun _ => filter (fun '(i, _) => negb (skey_eqb (i_sk i) k)) (s_invs s))). exact H0. }
  unfold St. st_split.
  - cbn. apply (NoDup_keys_adel skey_eqb). exact H0.
  - cbn. intros k' q Hk. apply In_adel in Hk. eauto.
  - cbn. clear -H2. induction (s_invs s) as [|[i v] l IH]; cbn; [constructor|]. inversion H2; subst.
    destruct (negb (skey_eqb (i_sk i) k)); cbn; [|auto]. constructor; [|auto].
    intro Hin. apply H1. apply in_map_iff in Hin. destruct Hin as [[i' v'] [Heq Hin]]. cbn in Heq. subst i'.
    apply filter_In in Hin. destruct Hin as [Hin _]. apply (in_map fst) in Hin. exact Hin.
  - intros k'. change (inv_exists s2 (mkI k' []) = scq_exists s2 k'). rewrite Hex.
    unfold inv_exists, s2. cbn. destruct (skey_eqb k' k) eqn:E.
    + rewrite (aget_filter_drop iref_eqb iref_eqb_eq (fun i => negb (skey_eqb (i_sk i) k))); [reflexivity|]. cbn. rewrite E. reflexivity.
    + rewrite (aget_filter_keep iref_eqb iref_eqb_eq (fun i => negb (skey_eqb (i_sk i) k))); [apply H3|]. cbn. rewrite E. reflexivity.
  - intros k' Hk'. change (scq_exists s2 k' = true) in Hk'. rewrite Hex in Hk'.
    destruct (skey_eqb k' k) eqn:E; [discriminate|]. destruct (H4 _ Hk') as [p [Hp [Hkey Hsc]]].
    set (p' := if pkey_eqb (p_key p) (sk_pk k) then p <| p_scs := filter (fun c => negb (c =? sk_sc k)%N) (p_scs p) |> else p).
    assert (Hsc' : In (sk_sc k') (p_scs p')).
    { unfold p'. destruct (pkey_eqb (p_key p) (sk_pk k)) eqn:Ep; [|exact Hsc]. cbn. apply filter_In. split; [exact Hsc|].
      apply negb_true_iff. apply N.eqb_neq. intro Heq. apply pkey_eqb_eq in Ep.
      assert (k' = k) by (destruct k', k; cbn in *; congruence). subst. rewrite skey_eqb_refl in E. discriminate. }
    exists p'. split; [|split; [unfold p'; destruct (pkey_eqb (p_key p) (sk_pk k)); exact Hkey|exact Hsc']].
    cbn. apply filter_In. split.
    + apply in_map_iff. exists p. split; [reflexivity|exact Hp].
    + destruct (p_scs p'); [destruct Hsc'|reflexivity].
Qed.

Lemma St_add_scq : forall k b s,
  scq_exists s k = false -> (exists p, In p (s_pqs s) /\ p_key p = sk_pk k) -> St s -> St (add_scq k b s).
Proof.
  intros k b s Hne [p0 [Hp0 Hk0]] [H0 [H1 [H2 [H3 H4]]]]. unfold add_scq. cbv zeta.
  assert (Hni : inv_exists s (mkI k []) = false) by (rewrite H3; exact Hne).
  unfold St. st_split.
  - cbn. rewrite map_app. cbn. apply NoDup_rev in H0. rewrite <- (rev_involutive (map fst (s_scqs s) ++ [k])).
    apply NoDup_rev. rewrite rev_app_distr. cbn. constructor; [|exact H0]. rewrite <- in_rev.
    unfold scq_exists in Hne. destruct (aget skey_eqb k (s_scqs s)) eqn:E; [discriminate|]. apply (aget_None_notin skey_eqb skey_eqb_eq). exact E.
  - cbn. intros k' q Hk. apply in_app_or in Hk. destruct Hk as [Hk|[Heq|[]]]; [eauto|]. inversion Heq; subst. cbn. split; [constructor|intros w []].
  - cbn. rewrite map_app. cbn. apply NoDup_rev in H2. rewrite <- (rev_involutive (map fst (s_invs s) ++ [mkI k []])).
    apply NoDup_rev. rewrite rev_app_distr. cbn. constructor; [|exact H2]. rewrite <- in_rev.
    unfold inv_exists in Hni. destruct (aget iref_eqb (mkI k []) (s_invs s)) eqn:E; [discriminate|]. apply (aget_None_notin iref_eqb iref_eqb_eq). exact E.
  - intros k'. unfold inv_exists, scq_exists. cbn. rewrite (aget_app iref_eqb), (aget_app skey_eqb).
    specialize (H3 k'). unfold inv_exists, scq_exists in H3.
    destruct (aget iref_eqb (mkI k' []) (s_invs s)), (aget skey_eqb k' (s_scqs s)); try discriminate; try reflexivity.
    cbn. unfold iref_eqb, path_eqb. cbn. rewrite ?andb_true_r. destruct (skey_eqb k' k); reflexivity.
  - intros k' Hk'. unfold scq_exists in Hk'. cbn in Hk'. rewrite (aget_app skey_eqb) in Hk'.
    assert (Hcase : scq_exists s k' = true \/ k' = k).
    { unfold scq_exists. destruct (aget skey_eqb k' (s_scqs s)); [left; reflexivity|]. cbn in Hk'.
      destruct (skey_eqb k' k) eqn:E; [right; apply skey_eqb_eq; exact E|discriminate]. }
    cbn. destruct Hcase as [Hold | -> ].
    + destruct (H4 _ Hold) as [p [Hp [Hkey Hsc]]].
      exists (if pkey_eqb (p_key p) (sk_pk k) then p <| p_scs ::= insert_sorted (sk_sc k) |> else p). split; [|split].
      * apply in_map_iff. exists p. auto.
      * destruct (pkey_eqb (p_key p) (sk_pk k)); exact Hkey.
      * destruct (pkey_eqb (p_key p) (sk_pk k)); [|exact Hsc]. cbn.
        clear -Hsc. induction (p_scs p) as [|y l IH]; [destruct Hsc|]. cbn. destruct (y <? sk_sc k)%N; cbn in *; intuition.
    + exists (p0 <| p_scs ::= insert_sorted (sk_sc k) |>). split; [|split; [exact Hk0|]].
      * apply in_map_iff. exists p0. split; [|exact Hp0]. rewrite (proj2 (pkey_eqb_eq _ _) Hk0). reflexivity.
      * cbn. clear. induction (p_scs p0) as [|y l IH]; cbn; [auto|]. destruct (y <? sk_sc k)%N; cbn; auto.
Qed.

Lemma St_newworker : forall s w v,
  worker_exists s w = false -> St s ->
  St (upd_scq (w_sk w) (fun q => q <| q_workers ::= fun l => l ++ [(w, v)] |>) s).
Proof.
  intros s w v Hne HS. apply St_upd_scq; [|exact HS]. intros q Eq Hn Hk. cbn. rewrite map_app. cbn. split.
  - apply NoDup_rev in Hn. rewrite <- (rev_involutive (map fst (q_workers q) ++ [w])).
    apply NoDup_rev. rewrite rev_app_distr. cbn. constructor; [|exact Hn]. rewrite <- in_rev.
    unfold worker_exists, get_scq in Hne. rewrite Eq in Hne.
    destruct (aget wref_eqb w (q_workers q)) eqn:E; [discriminate|]. apply (aget_None_notin wref_eqb wref_eqb_eq). exact E.
  - intros w' Hw'. apply in_app_or in Hw'. destruct Hw' as [Hw'|[<-|[]]]; auto.
Qed.

(* ---- closure -------------------------------------------------------------------------------------------- *)
Lemma map_fst_adel_in {K V} (eqb : K -> K -> bool) : forall k (l : list (K * V)) x, In x (map fst (adel eqb k l)) -> In x (map fst l).
Proof. intros. eapply map_fst_adel_incl. eassumption. Qed.

Lemma NoDup_adel_keys {K V} (eqb : K -> K -> bool) : forall k (l : list (K * V)), NoDup (map fst l) -> NoDup (map fst (adel eqb k l)).
Proof. intros. apply NoDup_keys_adel. assumption. Qed.

Ltac t_St :=
  intros;
  lazymatch goal with
  | |- St (upd_inv _ _ _) => apply St_upd_inv; assumption
  | |- St (upd_worker _ _ _) => apply St_upd_worker; assumption
  | |- St (upd_scq _ _ _) =>
    apply St_upd_scq; [intros q _ Hn Hk; cbn; first
       [ (split; assumption)
       | (split; [apply NoDup_adel_keys; assumption | intros w' Hw'; apply Hk; eapply map_fst_adel_in; eassumption])
       | (destruct (existsb _ (q_drains q)); split; assumption) ] | assumption]
  | |- St (upd_pq _ (fun p => p <| p_scs ::= insert_sorted _ |>) _) =>
    apply St_upd_pq; [intros p; split; [reflexivity | cbn; intros x Hx;
       let l := fresh "l" in generalize dependent (p_scs p); intros l; induction l as [|y l IHl]; intros Hx; [destruct Hx|];
       cbn; match goal with |- In _ (if ?b then _ else _) => destruct b end; cbn in *; intuition ] | assumption]
  | |- St (set s_pqs _ _) => apply St_newpq; assumption
  | |- _ => (eapply St_frame; [ | | | eassumption]); frame_eq
  end.

Ltac st_leaf :=
  idtac;
  lazymatch goal with
  | |- St (get_or_create_invocation _ _ _) => apply St_get_or_create_invocation
  | |- St (fst (remove_if_empty _ _)) => apply St_remove_if_empty
  end.
Ltac st_go := inv_go st_leaf t_St.

Lemma St_complete_task : forall t r b s, St s -> St (complete_task t r b s).
Proof. intros. unfold complete_task, new_operation. st_go. Qed.

Lemma St_cancel_all_queued : forall i r s, St s -> St (cancel_all_queued i r s).
Proof.
  intros i r s H. rewrite cancel_all_queued_eq. apply cancel_go_closed; [|exact H].
  intros. apply St_complete_task. assumption.
Qed.

Lemma St_scq_remove : forall k s, St s -> St (scq_remove k s).
Proof.
  intros k s H. unfold scq_remove. cbv zeta.
  exact (St_scq_remove_tail k _ (St_cancel_all_queued (mkI k []) (mkResp cUNAVAILABLE 0 0) s H)).
Qed.

Ltac st_leaf2 :=
  first [ st_leaf
        | lazymatch goal with
          | |- St (complete_task _ _ _ _) => apply St_complete_task
          | |- St (cancel_all_queued _ _ _) => apply St_cancel_all_queued
          | |- St (scq_remove _ _) => apply St_scq_remove
          end ].
Ltac st_go2 := inv_go st_leaf2 t_St.

Lemma St_operation_remove : forall o s, St s -> St (operation_remove o s).
Proof.
  intros o s H. unfold operation_remove. st_go2.
  all: match goal with |- St (fst (fold_left ?g ?l ?a)) => apply (fold_left_pres (fun acc => St (fst acc)) g l) end;
    [ intros [s1 go] j H1; cbn [fst] in *; destruct go; [st_go2 | assumption] | cbn [fst]; st_go2 ].
Qed.

Lemma St_run_entry : forall e s, St s -> St (run_entry e s).
Proof.
  intros [z ce] s H. unfold run_entry. cbn [fst snd]. destruct ce as [o|w|k].
  - apply St_operation_remove. st_go2.
  - st_go2.
  - st_go2.
Qed.

Lemma St_enter : forall t s, St s -> St (enter t s).
Proof.
  intros t s H. unfold enter. destruct (s_now s <? t); [|exact H]. cbv zeta.
  apply cleanup_run_closed; [intros; t_St | intros; apply St_run_entry; assumption | st_go2].
Qed.

(* ---- the RPC sections ------------------------------------------------------------------------------------ *)
Ltac st_leaf3 :=
  first [ st_leaf2
        | lazymatch goal with
          | |- St (enter _ _) => apply St_enter
          end ].
Ltac st_go3 := inv_go st_leaf3 t_St.

Lemma get_pq_some_in : forall s k p, get_pq s k = Some p -> In p (s_pqs s) /\ p_key p = k.
Proof.
  intros s k p H. unfold get_pq in H. apply find_some in H. destruct H as [H1 H2]. apply pkey_eqb_eq in H2. auto.
Qed.

Lemma scq_exists_add_scq : forall k b s k', scq_exists (add_scq k b s) k' = scq_exists s k' || skey_eqb k' k.
Proof.
  intros. unfold add_scq, scq_exists. cbn. rewrite (aget_app skey_eqb). destruct (aget skey_eqb k' (s_scqs s)); [reflexivity|].
  cbn. destruct (skey_eqb k' k); reflexivity.
Qed.

Lemma St_get_next_task : forall c w b pr s, St s -> St (get_next_task c w b pr s).
Proof. intros. unfold get_next_task. st_go3. Qed.
Lemma St_get_current_or_next : forall c w b pr s, St s -> St (get_current_or_next c w b pr s).
Proof.
  intros. unfold get_current_or_next.
  inv_go ltac:(first [st_leaf3 | lazymatch goal with |- St (get_next_task _ _ _ _ _) => apply St_get_next_task end]) t_St.
Qed.

Lemma St_sync_start : forall c a s, St s -> St (sync_start c a s).
Proof.
  intros c a s H. unfold sync_start. cbv zeta.
  match goal with |- St (match ?R with _ => _ end) => destruct R as [s1|code1] eqn:ER end; [|st_go3].
  assert (H1 : St s1).
  { destruct (scq_exists s (w_sk (y_worker a))) eqn:Ee.
    - injection ER as <-. st_go3.
    - destruct (get_pq s (sk_pk (w_sk (y_worker a)))) as [p|] eqn:Ep.
      + sum_cases ER. injection ER as <-. apply get_pq_some_in in Ep. destruct Ep as [Ep1 Ep2].
        apply St_add_scq; [exact Ee|exists p; auto|exact H].
      + injection ER as <-. apply St_add_scq.
        * exact Ee.
        * unfold add_pq. cbn. eexists. split; [apply in_or_app; right; left; reflexivity|reflexivity].
        * unfold add_pq. st_go3. }
  clear ER H. revert H1. generalize s1. clear s. intros s H.
  match goal with |- St (match ?R with _ => _ end) => destruct R as [s2|code2] eqn:ER end; [|st_go3].
  assert (H2 : St s2).
  { destruct (worker_exists s (y_worker a)) eqn:Ee.
    - sum_cases ER. injection ER as <-. st_go3.
    - injection ER as <-. apply St_upd_inv. apply St_newworker; assumption. }
  clear ER H. revert H2. generalize s2. clear s. intros s H.
  inv_go ltac:(first [st_leaf3 | lazymatch goal with
     | |- St (get_next_task _ _ _ _ _) => apply St_get_next_task
     | |- St (get_current_or_next _ _ _ _ _) => apply St_get_current_or_next end]) t_St.
Qed.

Lemma sorted_strict_cons : forall x l, sorted_strict (x :: l) = true -> sorted_strict l = true /\ forall y, In y l -> (x < y)%N.
Proof.
  intros x l. revert x. induction l as [|y l IH]; intros x H; [split; [reflexivity|intros ? []]|].
  cbn in H. apply andb_true_iff in H. destruct H as [Hxy Hl]. apply N.ltb_lt in Hxy.
  destruct (IH y Hl) as [A B]. split; [exact Hl|]. intros z [<-|Hz]; [exact Hxy|]. specialize (B z Hz). lia.
Qed.

Lemma St_register_fold : forall k scs s,
  sorted_strict scs = true -> St s -> (exists p, In p (s_pqs s) /\ p_key p = k) ->
  (forall sc, In sc scs -> scq_exists s (mkSK k sc) = false) ->
  St (fold_left (fun s sc => add_scq (mkSK k sc) false s) scs s).
Proof.
  intros k scs. induction scs as [|sc scs IH]; intros s Hs HS Hp Hn; cbn [fold_left]; [exact HS|].
  destruct (sorted_strict_cons _ _ Hs) as [Hs' Hlt]. apply IH.
  - exact Hs'.
  - apply St_add_scq; [apply Hn; left; reflexivity|exact Hp|exact HS].
  - destruct Hp as [p [Hp1 Hp2]]. unfold add_scq, upd_pq. cbn.
    exists (if pkey_eqb (p_key p) k then p <| p_scs ::= insert_sorted sc |> else p). split.
    + apply in_map_iff. exists p. auto.
    + destruct (pkey_eqb (p_key p) k); exact Hp2.
  - intros sc' Hsc'. rewrite scq_exists_add_scq. rewrite (Hn sc' (or_intror Hsc')). cbn.
    unfold skey_eqb. cbn. specialize (Hlt sc' Hsc'). destruct (N.eqb_spec sc' sc); [lia|]. apply andb_false_r.
Qed.

Lemma St_terminate_fold : forall p l s waits,
  St s -> St (fst (fold_left (fun (acc : state * list (nat * nat)) w =>
        let '(s, waits) := acc in
        if matches w p then
          let s := mark_terminating w s in
          match k_task (get_worker s w) with
          | Some tk => (s, waits ++ [(tk, t_gen (get_task s tk))])
          | None => (if k_wait (get_worker s w) then wake_up w s else s, waits)
          end
        else (s, waits)) l (s, waits))).
Proof.
  intros p l s waits H.
  match goal with |- St (fst (fold_left ?g ?l ?a)) => apply (fold_left_pres (fun acc => St (fst acc)) g l) end;
    [|exact H].
  intros [s1 w1] w H1. cbn [fst] in *. st_go3.
Qed.

Lemma St_step_core : forall e s, St s -> St (step_core e s).
Proof.
  intros e s H. destruct e; unfold step_core.
  - unfold exec_start, new_operation. st_go3.
  - st_go3.
  - apply St_sync_start. apply St_enter. exact H.
  - st_go3.
  - st_go3.
  - st_go3.
  - st_go3.
  - cbv zeta. match goal with |- St (match ?x with _ => _ end) => rewrite (surjective_pairing x) end.
    cbv beta iota. match goal with |- St (set_call ?c ?p ?s1) => assert (Hs : St s1); [|t_St] end.
    apply St_terminate_fold. apply St_enter. exact H.
  - (* Register *)
    destruct (_ || _) eqn:Ev; [st_go3|]. cbv zeta.
    assert (He : St (enter t s)) by (apply St_enter; exact H). set (s1 := enter t s) in *. clearbody s1.
    destruct (get_pq s1 k) as [p|] eqn:Ep; [st_go3|].
    match goal with |- St (ret _ _ ?S2) => assert (H2 : St S2); [|st_go3] end.
    apply orb_false_iff in Ev. destruct Ev as [Ev _]. apply orb_false_iff in Ev. destruct Ev as [_ Ev].
    apply negb_false_iff in Ev.
    apply St_register_fold; [exact Ev|unfold add_pq; st_go3| |].
    + unfold add_pq. cbn. eexists. split; [apply in_or_app; right; left; reflexivity|reflexivity].
    + intros sc Hsc. rewrite (scq_exists_frame s1) by reflexivity.
      destruct (scq_exists s1 (mkSK k sc)) eqn:Ee; [|reflexivity]. exfalso.
      destruct He as [_ [_ [_ [_ H4]]]]. destruct (H4 _ Ee) as [p [Hp [Hk _]]]. cbn in Hk.
      unfold get_pq in Ep. apply (find_none _ _ Ep) in Hp. rewrite (proj2 (pkey_eqb_eq _ _) Hk) in Hp. discriminate.
  - st_go3.
  - inv_go ltac:(first [st_leaf3 | lazymatch goal with
      | |- St (get_current_or_next _ _ _ _ _) => apply St_get_current_or_next end]) t_St.
  - st_go3.
  - st_go3.
Qed.

Lemma St_step : forall s eh, St s -> St (fst (step s eh)).
Proof.
  intros s eh H. unfold step. cbn [fst]. eapply St_frame; [reflexivity|reflexivity|reflexivity|].
  apply fr_auto_returns with (P := St); [intros; st_go3|]. apply St_step_core.
  eapply St_frame; [ | | |exact H]; reflexivity.
Qed.

Lemma St_init : forall cfg t0, St (init cfg t0).
Proof.
  intros. unfold St, init, inv_exists, scq_exists. cbn. st_split; try constructor; intros; try discriminate; try contradiction; reflexivity.
Qed.

Lemma St_run : forall cfg t0 evs, St (fst (run (init cfg t0) evs)).
Proof. intros. apply (run_inv evs (init cfg t0) St); [intros; apply St_step; assumption|apply St_init]. Qed.
