(* The monitor on the model's trace: the kind of a parked call is the kind of the event that started it
   (stream / Synchronize of a given worker / kill / terminate / single-section). *)
From Coq Require Import Lia Permutation.
From VF Require Export Sched.ProofsMon10.
From VF Require Import Sched.Spec Sched.Corr Sched.ProofsObsLink Sched.ProofsExec Sched.ProofsStreams Sched.ProofsWaiters.
Open Scope Z_scope.

Inductive cclass := CStream | CSync (w : wref) | CKill | CTerm | CSimple.

Definition pc_class (p : pc) : option cclass :=
  match p with
  | PExecStart _ | PWaitStart _ | PWaitRecheck _ | PStream _ _ | PStreamCancelled _ | PStreamReturn _ _ => Some CStream
  | PSyncStart a => Some (CSync (y_worker a))
  | PSyncDrained w _ | PSyncQueued w | PSyncCancelled w _ => Some (CSync w)
  | PKillLookup _ _ | PKillRecheck _ _ => Some CKill
  | PTerminate _ => Some CTerm
  | PSimple => Some CSimple
  | PDone => None
  end.
Definition ev_class (e : event) : cclass :=
  match e with
  | EStartExecute _ _ _ | EStartWait _ _ _ => CStream
  | EStartSync _ a _ => CSync (y_worker a)
  | EStartKill _ _ _ _ => CKill
  | EStartTerminate _ _ _ => CTerm
  | _ => CSimple
  end.

(* the program point of call c0 is done or of class K *)
Definition CL (c0 : nat) (K : cclass) (s : state) : Prop :=
  forall p, aget Nat.eqb c0 (s_calls s) = Some p -> pc_class p = None \/ pc_class p = Some K.

Lemma CL_frame : forall c0 K s s', s_calls s' = s_calls s -> CL c0 K s -> CL c0 K s'.
Proof. unfold CL. intros c0 K s s' ->. auto. Qed.
Lemma CL_setcall : forall c0 K s p, (pc_class p = None \/ pc_class p = Some K) -> CL c0 K s -> CL c0 K (set_call c0 p s).
Proof. unfold CL, set_call. intros c0 K s p Hp H p'. cbn. rewrite (aget_aset_same Nat.eqb nat_eqb_eq). intro E. inversion E; subst. exact Hp. Qed.
Ltac t_CL :=
  intros;
  lazymatch goal with
  | |- CL _ _ (set_call _ _ _) => apply CL_setcall; [cbn; auto | assumption]
  | |- _ => (eapply CL_frame; [|eassumption]); first [frame_eq | (prim_unfold; prim_cases; reflexivity)]
  end.
Ltac cl_leaf :=
  idtac;
  lazymatch goal with
  | |- CL _ _ (enter _ ?s) => apply (CL_frame _ _ s); [apply calls_enter|]
  | |- CL _ _ (complete_task _ _ _ ?s) => apply (CL_frame _ _ s); [apply calls_complete_task|]
  | |- CL _ _ (cancel_all_queued _ _ ?s) => apply (CL_frame _ _ s); [apply calls_cancel_all_queued|]
  end.
Ltac cl_go1 := inv_go cl_leaf t_CL.

Lemma CL_get_next_task : forall c w b pr s, CL c (CSync w) s -> CL c (CSync w) (get_next_task c w b pr s).
Proof. intros. unfold get_next_task, sync_loop, assign_next_queued_task, sync_return_exec, sync_return_idle, finish_sync. cl_go1. Qed.
Lemma CL_get_current_or_next : forall c w b pr s, CL c (CSync w) s -> CL c (CSync w) (get_current_or_next c w b pr s).
Proof.
  intros c w b pr s H. unfold get_current_or_next. destruct (k_task (get_worker s w)) as [t|]; [|apply CL_get_next_task; exact H].
  destruct (Nat.ltb _ _); [unfold sync_return_exec, finish_sync; cl_go1|]. apply CL_get_next_task. cl_go1.
Qed.
Lemma CL_sync_start : forall c a s, CL c (CSync (y_worker a)) s -> CL c (CSync (y_worker a)) (sync_start c a s).
Proof.
  intros c a s H. unfold sync_start. cbv zeta.
  match goal with |- CL _ _ (match ?R with _ => _ end) => destruct R as [s1|code1] eqn:ER end; [|unfold ret; cl_go1].
  assert (H1 : CL c (CSync (y_worker a)) s1) by (sum_cases ER; injection ER as <-; unfold add_scq, add_pq; cl_go1).
  clear ER H. revert H1. generalize s1. clear s. intros s H.
  match goal with |- CL _ _ (match ?R with _ => _ end) => destruct R as [s2|code2] eqn:ER end; [|unfold ret; cl_go1].
  assert (H2 : CL c (CSync (y_worker a)) s2) by (sum_cases ER; injection ER as <-; cl_go1).
  clear ER H. revert H2. generalize s2. clear s. intros s H.
  destruct (y_state a) as [|d|d r|]; try (destruct (running_correct s (y_worker a) d)); try (destruct (k_task (get_worker s (y_worker a))) as [t|]);
    try exact H; try (apply CL_get_current_or_next; exact H); try apply CL_get_next_task; unfold sync_return_err, finish_sync; cl_go1.
Qed.

Lemma CL_terminate_fold : forall c0 K p l s waits,
  CL c0 K s -> CL c0 K (fst (fold_left (fun (acc : state * list (nat * nat)) w =>
        let '(s, waits) := acc in
        if matches w p then
          let s := mark_terminating w s in
          match k_task (get_worker s w) with
          | Some tk => (s, waits ++ [(tk, t_gen (get_task s tk))])
          | None => (if k_wait (get_worker s w) then wake_up w s else s, waits)
          end
        else (s, waits)) l (s, waits))).
Proof. intros c0 K p l s waits H. apply (fr_terminate_fold (CL c0 K)); try (intros; t_CL); try exact H. Qed.

Lemma CL_step_core : forall e s K, (is_start e = true -> K = ev_class e) -> CL (ev_call e) K s -> CL (ev_call e) K (step_core e s).
Proof.
  intros e s K HK H. destruct e; cbn [ev_call is_start ev_class] in *; try (rewrite (HK eq_refl) in *; clear HK); unfold step_core.
  - unfold exec_start, new_operation, wait_execution_begin, stream_iter, ret. cl_go1.
  - cbv zeta. unfold ret. cl_go1.
  - apply CL_sync_start. cl_go1.
  - unfold kill_lookup, ret. cl_go1.
  - cbv zeta. unfold ret. cl_go1.
  - cbv zeta. unfold ret, wake_up. cl_go1.
  - cbv zeta. unfold ret. cl_go1.
  - cbv zeta. match goal with |- CL _ _ (match ?x with _ => _ end) => rewrite (surjective_pairing x) end. cbv beta iota.
    match goal with |- CL _ _ (set_call _ _ (fst (fold_left ?g ?l ?a))) => assert (H2 : CL c CTerm (fst (fold_left g l a))) by (apply CL_terminate_fold; cl_go1) end.
    t_CL.
  - destruct (_ || _); [unfold ret; cl_go1|]. cbv zeta. destruct (get_pq (enter t s) k); unfold ret, add_pq; [cl_go1|].
    match goal with |- CL _ _ (set_call _ _ (emit _ (fold_left ?g ?l ?a))) => assert (H2 : CL c CSimple (fold_left g l a)) end.
    { apply fold_left_pres; [intros a0 sc Ha0; unfold add_scq; cl_go1|cl_go1]. }
    cl_go1.
  - unfold ret. cl_go1.
  - cbv zeta. destruct (negb (at_gate s (get_call s c))); [exact H|].
    assert (Hp : pc_class (get_call s c) = None \/ pc_class (get_call s c) = Some K) by (unfold get_call; destruct (aget Nat.eqb c (s_calls s)) as [p|] eqn:E; [exact (H p E)|left; reflexivity]).
    assert (H1 : CL c K (enter t s)) by cl_go1. set (s1 := enter t s) in *. clearbody s1.
    destruct (get_call s c); try exact H1; cbn [pc_class] in Hp; (destruct Hp as [Hp|Hp]; [discriminate Hp|]); injection Hp as <-;
      try (unfold stream_iter, stream_return, kill_lookup, wait_execution_begin, stream_iter, ret, sync_return_err, finish_sync, maybe_dequeue, maybe_start_cleanup; cl_go1; fail).
  - cbv zeta. destruct (at_gate s (get_call s c)); [exact H|].
    assert (Hp : pc_class (get_call s c) = None \/ pc_class (get_call s c) = Some K) by (unfold get_call; destruct (aget Nat.eqb c (s_calls s)) as [p|] eqn:E; [exact (H p E)|left; reflexivity]).
    destruct (get_call s c); try exact H; cbn [pc_class] in Hp; (destruct Hp as [Hp|Hp]; [discriminate Hp|]); injection Hp as <-;
      unfold stream_iter, sync_return_exec, sync_return_idle, finish_sync, maybe_dequeue; cl_go1.
  - cbv zeta. destruct (at_gate s (get_call s c)); [exact H|].
    assert (Hp : pc_class (get_call s c) = None \/ pc_class (get_call s c) = Some K) by (unfold get_call; destruct (aget Nat.eqb c (s_calls s)) as [p|] eqn:E; [exact (H p E)|left; reflexivity]).
    destruct (get_call s c); try exact H; cbn [pc_class] in Hp; (destruct Hp as [Hp|Hp]; [discriminate Hp|]); injection Hp as <-; unfold ret; cl_go1.
Qed.

(* ---- over a run: a parked call was started by an event of its class ---------------------------------------------------------------------------------------- *)
Definition CLS (pfx : list (event * list (nat * wref))) (s : state) : Prop :=
  forall c p K, aget Nat.eqb c (s_calls s) = Some p -> pc_class p = Some K ->
    exists e h, In (e, h) pfx /\ is_start e = true /\ ev_call e = c /\ ev_class e = K.

Lemma auto_returns_pc : forall s c p, aget Nat.eqb c (s_calls (auto_returns s)) = Some p -> aget Nat.eqb c (s_calls s) = Some p \/ p = PDone.
Proof.
  intros s c. apply (fr_auto_returns (fun s' => forall p, aget Nat.eqb c (s_calls s') = Some p -> aget Nat.eqb c (s_calls s) = Some p \/ p = PDone)); [|auto].
  intros s0 c' code H p. unfold ret, set_call, emit. cbn. rewrite (aget_aset Nat.eqb nat_eqb_eq). destruct (Nat.eqb c c'); [intro E; inversion E; auto|apply H].
Qed.

Lemma step_core_other_call : forall e s c, ev_call e <> c -> aget Nat.eqb c (s_calls (step_core e s)) = aget Nat.eqb c (s_calls s).
Proof.
  intros e s c Hne.
  assert (H : At c (aget Nat.eqb c (s_calls s)) (ctag c (s_out s)) (step_core e s)); [|exact (proj1 H)].
  apply fr_step_core with (P := At c (aget Nat.eqb c (s_calls s)) (ctag c (s_out s))) (c0 := ev_call e); try (t_at_other; fail); try reflexivity; try assumption.
  split; reflexivity.
Qed.

Lemma CLS_step : forall pfx s e h, fresh_calls [] (pfx ++ [(e, h)]) -> (forall c, In c (map fst (s_calls s)) -> started pfx c) ->
  CLS pfx s -> CLS (pfx ++ [(e, h)]) (fst (step s (e, h))).
Proof.
  intros pfx s e h Hf Hkeys H c p K Hp HK. unfold step in Hp. cbn [fst snd] in Hp.
  set (sa := s <| s_hints := h |> <| s_out := [] |>) in *.
  change (s_calls (auto_returns (step_core e sa) <| s_out := [] |> <| s_hints := [] |>)) with (s_calls (auto_returns (step_core e sa))) in Hp.
  destruct (auto_returns_pc _ _ _ Hp) as [Hp1 | ->]; [|discriminate HK].
  assert (Hold : forall p0, aget Nat.eqb c (s_calls s) = Some p0 -> pc_class p0 = Some K ->
            exists e' h', In (e', h') (pfx ++ [(e, h)]) /\ is_start e' = true /\ ev_call e' = c /\ ev_class e' = K).
  { intros p0 E0 K0. destruct (H c p0 K E0 K0) as [e' [h' [A B]]]. exists e', h'. split; [apply in_or_app; left; exact A|exact B]. }
  destruct (Nat.eq_dec (ev_call e) c) as [Hec|Hnc].
  2:{ rewrite (step_core_other_call e sa c Hnc) in Hp1. exact (Hold p Hp1 HK). }
  subst c. destruct (is_start e) eqn:Es.
  - (* the event starts the call *)
    assert (H0 : CL (ev_call e) (ev_class e) sa).
    { intros p0 E0. exfalso. destruct (fresh_snoc_not_started pfx [] e h Hf Es) as [_ Hns]. apply Hns. apply Hkeys.
      eapply aget_Some_in_keys; [exact nat_eqb_eq|exact E0]. }
    destruct (CL_step_core e sa (ev_class e) (fun _ => eq_refl) H0 p Hp1) as [E|E]; [congruence|]. rewrite HK in E. inversion E; subst K.
    exists e, h. split; [apply in_or_app; right; left; reflexivity|auto].
  - (* the call goes on *)
    destruct (aget Nat.eqb (ev_call e) (s_calls s)) as [p0|] eqn:E0.
    + destruct (pc_class p0) as [K0|] eqn:EK0.
      * assert (H0 : CL (ev_call e) K0 sa) by (intros p1 E1; change (s_calls sa) with (s_calls s) in E1; rewrite E0 in E1; inversion E1; subst; right; exact EK0).
        destruct (CL_step_core e sa K0 (fun X => ltac:(congruence)) H0 p Hp1) as [E|E]; [congruence|]. rewrite HK in E. inversion E; subst K0. exact (Hold p0 eq_refl EK0).
      * exfalso. assert (H0 : forall K', CL (ev_call e) K' sa) by (intros K' p1 E1; change (s_calls sa) with (s_calls s) in E1; rewrite E0 in E1; inversion E1; subst; left; exact EK0).
        destruct (CL_step_core e sa CStream (fun X => ltac:(congruence)) (H0 _) p Hp1) as [E|E]; [congruence|].
        destruct (CL_step_core e sa CKill (fun X => ltac:(congruence)) (H0 _) p Hp1) as [E'|E']; congruence.
    + exfalso. assert (H0 : forall K', CL (ev_call e) K' sa) by (intros K' p1 E1; change (s_calls sa) with (s_calls s) in E1; rewrite E0 in E1; discriminate).
      destruct (CL_step_core e sa CStream (fun X => ltac:(congruence)) (H0 _) p Hp1) as [E|E]; [congruence|].
      destruct (CL_step_core e sa CKill (fun X => ltac:(congruence)) (H0 _) p Hp1) as [E'|E']; congruence.
Qed.

Lemma CLS_run : forall cfg t0 evs, fresh_calls [] evs -> CLS evs (fst (run (init cfg t0) evs)).
Proof.
  intros cfg t0 evs. induction evs as [|[e h] evs IH] using rev_ind; intro Hf; [intros c p K Hp; unfold init in Hp; cbn in Hp; discriminate|].
  rewrite run_snoc_fst. apply CLS_step; [exact Hf|apply run_keys|apply IH; exact (fresh_calls_app _ _ _ Hf)].
Qed.

(* a call is started by one event *)
Lemma fresh_unique_start : forall evs U e1 h1 e2 h2, fresh_calls U evs -> In (e1, h1) evs -> In (e2, h2) evs ->
  is_start e1 = true -> is_start e2 = true -> ev_call e1 = ev_call e2 -> e1 = e2.
Proof.
  induction evs as [|[e0 h0] evs IH]; intros U e1 h1 e2 h2 Hf H1 H2 S1 S2 Ec; [destruct H1|]. cbn [fresh_calls] in Hf.
  destruct H1 as [E1|H1], H2 as [E2|H2].
  - inversion E1; inversion E2; subst. reflexivity.
  - inversion E1; subst. rewrite S1 in Hf. destruct Hf as [_ Hf]. exfalso. apply (fresh_notin _ _ _ _ Hf H2 S2). left. exact Ec.
  - inversion E2; subst. rewrite S2 in Hf. destruct Hf as [_ Hf]. exfalso. apply (fresh_notin _ _ _ _ Hf H1 S1). left. symmetry. exact Ec.
  - destruct (is_start e0); [destruct Hf as [_ Hf]|]; eapply IH; eassumption.
Qed.
