(* C06: every registered operation nobody waits on, and whose existence a
   client knows of, has its removal scheduled. *)
From Coq Require Import Lia.
From VF Require Export Sched.ProofsEnabled.
Open Scope Z_scope.

(* the operations in [ex] are exempt (they are in the middle of a critical section) *)
Definition Dx (ex : list nat) (s : state) : Prop :=
  forall o x, aget Nat.eqb o (s_ops s) = Some x -> ~ In o ex ->
    o_waiters x = O -> o_mayexist x = false -> o_cleanup x <> None.

Lemma Dx_frame : forall ex s s', s_ops s' = s_ops s -> Dx ex s -> Dx ex s'.
Proof. unfold Dx. intros ex s s' E H o x. rewrite E. apply (H o x). Qed.

Lemma Dx_weaken : forall ex o s, Dx ex s -> Dx (o :: ex) s.
Proof. unfold Dx. intros ex o s H o' x Ex Hn Hw Hm. apply (H o' x Ex); [|exact Hw|exact Hm]. intro Hin. apply Hn. right. exact Hin. Qed.

(* an update that neither disarms nor turns an operation into one that must be armed *)
Lemma Dx_upd_op : forall ex s o f,
  (forall x, o_waiters (f x) = O -> o_mayexist (f x) = false ->
     (o_waiters x = O /\ o_mayexist x = false /\ (o_cleanup x <> None -> o_cleanup (f x) <> None)) \/ o_cleanup (f x) <> None \/ In o ex) ->
  Dx ex s -> Dx ex (upd_op o f s).
Proof.
  unfold Dx, upd_op. intros ex s o f Hf H. destruct (aget Nat.eqb o (s_ops s)) as [x0|] eqn:E0; [|exact H]. cbn.
  intros o' x Ex Hn Hw Hm. rewrite (aget_aset Nat.eqb nat_eqb_eq) in Ex. destruct (Nat.eqb o' o) eqn:E.
  - apply Nat.eqb_eq in E. subst o'. inversion Ex; subst x. destruct (Hf x0 Hw Hm) as [[A [B C]]|[C|C]].
    + apply C. exact (H o x0 E0 Hn A B).
    + exact C.
    + contradiction.
  - exact (H o' x Ex Hn Hw Hm).
Qed.

Lemma Dx_newop : forall ex s t prio i m,
  (m = true \/ In (s_nops s) ex) -> Dx ex s ->
  Dx ex (s <| s_nops ::= S |> <| s_ops ::= fun l => l ++ [(s_nops s, mkOper t prio i 0 m None)] |>).
Proof.
  unfold Dx. intros ex s t prio i m Hm H. cbn. intros o x Ex Hn Hw Hmm. rewrite (aget_app Nat.eqb) in Ex.
  destruct (aget Nat.eqb o (s_ops s)) as [y|] eqn:Ey.
  - inversion Ex; subst y. exact (H o x Ey Hn Hw Hmm).
  - cbn in Ex. destruct (Nat.eqb o (s_nops s)) eqn:E; [|discriminate]. inversion Ex; subst x. cbn in Hmm.
    apply Nat.eqb_eq in E. subst o. destruct Hm as [->|Hin]; [discriminate|contradiction].
Qed.

Lemma Dx_delop : forall ex s o, Dx (o :: ex) s -> NoDup (map fst (s_ops s)) -> Dx ex (s <| s_ops := adel Nat.eqb o (s_ops s) |>).
Proof.
  unfold Dx. intros ex s o H Hnd. intros o' x Ex Hn Hw Hm.
  change (aget Nat.eqb o' (adel Nat.eqb o (s_ops s)) = Some x) in Ex. destruct (Nat.eq_dec o' o) as [->|Hne].
  - rewrite (aget_adel_same Nat.eqb nat_eqb_eq) in Ex by exact Hnd. discriminate.
  - rewrite (aget_adel_other Nat.eqb nat_eqb_eq) in Ex by exact Hne. apply (H o' x Ex); [|exact Hw|exact Hm]. intros [Heq|Hin]; [congruence|contradiction].
Qed.

(* the hand-over of a background operation: mayexist := false, then arm *)
Lemma Dx_handed : forall ex s o,
  Dx ex s -> Dx ex (maybe_start_cleanup o (upd_op o (fun y => y <| o_mayexist := false |>) s)).
Proof.
  intros ex s o H. unfold maybe_start_cleanup.
  set (s1 := upd_op o (fun y => y <| o_mayexist := false |>) s).
  (* s1 violates the property at most at o *)
  assert (H1 : Dx (o :: ex) s1).
  { unfold s1. apply Dx_upd_op; [|apply Dx_weaken; exact H]. intros x _ _. right. right. left. reflexivity. }
  destruct (op_alive s1 o && Nat.eqb (o_waiters (get_op s1 o)) 0 && negb (o_mayexist (get_op s1 o))) eqn:Ec.
  - apply andb_true_iff in Ec. destruct Ec as [Ec Em]. apply andb_true_iff in Ec. destruct Ec as [Ea Ew].
    destruct (o_cleanup (get_op s1 o)) as [z|] eqn:Ez.
    + (* already armed (reported as a panic) *)
      intros o' x Ex Hn Hw Hm. change (aget Nat.eqb o' (s_ops s1) = Some x) in Ex. destruct (Nat.eq_dec o' o) as [->|Hne].
      * unfold get_op in Ez. rewrite Ex in Ez. rewrite Ez. discriminate.
      * apply (H1 o' x Ex); [|exact Hw|exact Hm]. intros [Heq|Hin]; [congruence|contradiction].
    + unfold Dx, upd_op. unfold op_alive in Ea. destruct (aget Nat.eqb o (s_ops s1)) as [x1|] eqn:E1; [|discriminate]. cbn.
      intros o' x Ex Hn Hw Hm. rewrite (aget_aset Nat.eqb nat_eqb_eq) in Ex. destruct (Nat.eqb o' o) eqn:E.
      * inversion Ex; subst x. cbn. discriminate.
      * apply Nat.eqb_neq in E. apply (H1 o' x Ex); [|exact Hw|exact Hm]. intros [Heq|Hin]; [congruence|contradiction].
  - (* not armed: then o has waiters, is not registered, or ... mayexist is false now, so it has waiters or is gone *)
    intros o' x Ex Hn Hw Hm. destruct (Nat.eq_dec o' o) as [->|Hne].
    + exfalso. unfold op_alive, get_op in Ec. rewrite Ex in Ec. rewrite Hw, Hm in Ec. discriminate.
    + apply (H1 o' x Ex); [|exact Hw|exact Hm]. intros [Heq|Hin]; [congruence|contradiction].
Qed.

Lemma Dx_maybe_start_cleanup : forall ex s o, Dx ex s -> Dx ex (maybe_start_cleanup o s).
Proof.
  intros ex s o H. unfold maybe_start_cleanup.
  destruct (op_alive s o && Nat.eqb (o_waiters (get_op s o)) 0 && negb (o_mayexist (get_op s o))); [|exact H].
  destruct (o_cleanup (get_op s o)); [eapply Dx_frame; [reflexivity|exact H]|].
  apply Dx_upd_op; [|exact H]. intros x _ _. right. left. cbn. discriminate.
Qed.

Ltac t_D :=
  intros;
  lazymatch goal with
  | |- Dx _ (upd_op _ _ _) =>
    apply Dx_upd_op; [intros ? ? ?; cbn in *; first [left; repeat split; (assumption || (intro; assumption) || auto) | right; left; discriminate | (exfalso; lia)] | assumption]
  | |- Dx _ (set s_ops _ (set s_nops S _)) => apply Dx_newop; [first [left; reflexivity | right; auto with datatypes] | assumption]
  | |- _ => (eapply Dx_frame; [|eassumption]); frame_eq
  end.

Ltac d_leaf :=
  idtac;
  lazymatch goal with
  | |- Dx _ (maybe_start_cleanup _ (upd_op _ (fun y => y <| o_mayexist := false |>) _)) => apply Dx_handed
  | |- Dx _ (maybe_start_cleanup _ _) => apply Dx_maybe_start_cleanup
  end.
Ltac d_go := inv_go d_leaf t_D.

Lemma Dx_complete_task : forall ex t r b s, Dx ex s -> Dx ex (complete_task t r b s).
Proof. intros. unfold complete_task, new_operation. d_go. Qed.

Lemma Dx_cancel_all_queued : forall ex i r s, Dx ex s -> Dx ex (cancel_all_queued i r s).
Proof.
  intros ex i r s H. rewrite cancel_all_queued_eq. apply cancel_go_closed; [|exact H].
  intros. apply Dx_complete_task. assumption.
Qed.

Ltac d_leaf2 :=
  first [ d_leaf
        | lazymatch goal with
          | |- Dx _ (complete_task _ _ _ _) => apply Dx_complete_task
          | |- Dx _ (cancel_all_queued _ _ _) => apply Dx_cancel_all_queued
          end ].
Ltac d_go2 := inv_go d_leaf2 t_D.

(* operation.remove: the operation itself is exempt until it is dropped *)
Lemma Dx_operation_remove : forall ex o s,
  V s -> Dx (o :: ex) s -> Dx ex (operation_remove o s).
Proof.
  intros ex o s HV H. unfold operation_remove. cbv zeta.
  match goal with |- Dx ex (upd_task ?t ?f (set s_ops _ ?S1)) =>
    assert (H1 : Dx (o :: ex) S1 /\ V S1) end.
  { split.
    - d_go2.
      all: match goal with |- Dx _ (fst (fold_left ?g ?l ?a)) => apply (fold_left_pres (fun acc => Dx (o :: ex) (fst acc)) g l) end;
        [ intros [s1 go] j H1; cbn [fst] in *; destruct go; [d_go2 | assumption] | cbn [fst]; d_go2 ].
    - v_go2.
      all: match goal with |- V (fst (fold_left ?g ?l ?a)) => apply (fold_left_pres (fun acc => V (fst acc)) g l) end;
        [ intros [s1 go] j H1; cbn [fst] in *; destruct go; [v_go2 | assumption] | cbn [fst]; v_go2 ]. }
  destruct H1 as [A [_ [_ [B _]]]]. eapply Dx_frame; [reflexivity|]. apply Dx_delop; assumption.
Qed.

Lemma Dx_run_entry : forall ex e s, V s -> Dx ex s -> Dx ex (run_entry e s).
Proof.
  intros ex [z ce] s HV H. unfold run_entry. cbn [fst snd]. destruct ce as [o|w|k].
  - apply Dx_operation_remove; [v_go2|].
    apply Dx_upd_op; [|apply Dx_weaken; exact H]. intros x _ _. right. right. left. reflexivity.
  - d_go2.
  - d_go2.
Qed.

Lemma VD_enter : forall ex t s, V s -> Dx ex s -> Dx ex (enter t s).
Proof.
  intros ex t s HV H. unfold enter. destruct (s_now s <? t); [|exact H]. cbv zeta.
  apply (cleanup_run_closed (fun s' => V s' /\ Dx ex s')).
  - intros s1 w [A B]. split; [t_V|t_D].
  - intros s1 e [A B] Hin. split; [apply V_run_entry; assumption|apply Dx_run_entry; assumption].
  - split; [t_V|t_D].
Qed.

(* ---- the sections of the calls ---------------------------------------------------------------------------- *)
Lemma Dx_restore : forall ex s o, Dx (o :: ex) s -> Dx ex (maybe_start_cleanup o s).
Proof.
  intros ex s1 o H1. unfold maybe_start_cleanup.
  destruct (op_alive s1 o && Nat.eqb (o_waiters (get_op s1 o)) 0 && negb (o_mayexist (get_op s1 o))) eqn:Ec.
  - apply andb_true_iff in Ec. destruct Ec as [Ec Em]. apply andb_true_iff in Ec. destruct Ec as [Ea Ew].
    destruct (o_cleanup (get_op s1 o)) as [z|] eqn:Ez.
    + intros o' x Ex Hn Hw Hm. change (aget Nat.eqb o' (s_ops s1) = Some x) in Ex. destruct (Nat.eq_dec o' o) as [->|Hne].
      * unfold get_op in Ez. rewrite Ex in Ez. rewrite Ez. discriminate.
      * apply (H1 o' x Ex); [|exact Hw|exact Hm]. intros [Heq|Hin]; [congruence|contradiction].
    + unfold Dx, upd_op. unfold op_alive in Ea. destruct (aget Nat.eqb o (s_ops s1)) as [x1|] eqn:E1; [|discriminate]. cbn.
      intros o' x Ex Hn Hw Hm. rewrite (aget_aset Nat.eqb nat_eqb_eq) in Ex. destruct (Nat.eqb o' o) eqn:E.
      * inversion Ex; subst x. cbn. discriminate.
      * apply Nat.eqb_neq in E. apply (H1 o' x Ex); [|exact Hw|exact Hm]. intros [Heq|Hin]; [congruence|contradiction].
  - intros o' x Ex Hn Hw Hm. destruct (Nat.eq_dec o' o) as [->|Hne].
    + exfalso. unfold op_alive, get_op in Ec. rewrite Ex in Ec. rewrite Hw, Hm in Ec. discriminate.
    + apply (H1 o' x Ex); [|exact Hw|exact Hm]. intros [Heq|Hin]; [congruence|contradiction].
Qed.

Lemma Dx_stream_return : forall ex c o code s, Dx ex s -> Dx ex (stream_return c o code s).
Proof.
  intros ex c o code s H. unfold stream_return. cbv zeta.
  eapply Dx_frame; [reflexivity|]. apply Dx_restore.
  destruct (o_waiters (get_op s o)); [eapply Dx_frame; [reflexivity|apply Dx_weaken; exact H]|].
  apply Dx_upd_op; [|apply Dx_weaken; exact H]. intros x _ _. right. right. left. reflexivity.
Qed.

Lemma Dx_wait_execution_begin : forall ex c o s, Dx (o :: ex) s -> Dx ex (wait_execution_begin c o s).
Proof.
  intros ex c o s H. unfold wait_execution_begin, stream_iter. cbv zeta.
  assert (H1 : Dx ex (upd_op o (fun y => y <| o_cleanup := None |> <| o_waiters ::= S |>) s)).
  { unfold Dx, upd_op. destruct (aget Nat.eqb o (s_ops s)) as [x0|] eqn:E0.
    - cbn. intros o' x Ex Hn Hw Hm. rewrite (aget_aset Nat.eqb nat_eqb_eq) in Ex. destruct (Nat.eqb o' o) eqn:E.
      + inversion Ex; subst x. cbn in Hw. discriminate.
      + apply Nat.eqb_neq in E. apply (H o' x Ex); [|exact Hw|exact Hm]. intros [Heq|Hin]; [congruence|contradiction].
    - intros o' x Ex Hn Hw Hm. destruct (Nat.eq_dec o' o) as [->|Hne]; [congruence|].
      apply (H o' x Ex); [|exact Hw|exact Hm]. intros [Heq|Hin]; [congruence|contradiction]. }
  destruct (t_resp (get_task _ _)); (eapply Dx_frame; [reflexivity|exact H1]).
Qed.

Ltac d_leaf3 :=
  first [ d_leaf2
        | lazymatch goal with
          | |- Dx _ (stream_return _ _ _ _) => apply Dx_stream_return
          | |- Dx ?ex (wait_execution_begin _ ?o _) => apply Dx_wait_execution_begin; apply Dx_weaken
          end ].
Ltac d_go3 := inv_go d_leaf3 t_D.

Lemma Dx_exec_start : forall c a s, Dx [] s -> Dx [] (exec_start c a s).
Proof.
  intros c a s H. unfold exec_start.
  destruct (aget dkey_eqb (x_instance a, x_digest a) (s_inflight s)) as [t0|] eqn:Ei.
  - cbv zeta. set (S1 := get_or_create_invocation _ _ _).
    assert (H1 : Dx [] S1) by (unfold S1; d_go3). clearbody S1.
    destruct (aget iref_eqb _ (t_ops (get_task S1 t0))) as [o|]; [d_go3|].
    match goal with |- Dx _ (match ?N with _ => _ end) => rewrite (surjective_pairing N) end.
    cbv beta iota. change (snd (new_operation ?t ?p ?i ?m S1)) with (s_nops S1).
    apply Dx_wait_execution_begin.
    assert (H2 : Dx [s_nops S1] (fst (new_operation t0 (x_prio a) (mkI (task_scq (emit (OGhost GSelAbandoned) s) t0) (x_keys a)) false S1))).
    { unfold new_operation. cbn [fst]. apply Dx_weaken with (o := s_nops S1) in H1.
      match goal with |- Dx _ (upd_task _ _ _) => eapply Dx_frame; [reflexivity|] end.
      apply Dx_newop; [right; left; reflexivity|exact H1]. }
    d_go3.
  - destruct (longest_prefix_pq s (x_plat a) (x_instance a)) as [p|]; [|d_go3].
    destruct (x_sel a) as [[[idx dur] timeout] l]. cbv zeta.
    match goal with |- Dx _ (match new_operation _ _ _ _ ?S with _ => _ end) => set (S4 := S) end.
    assert (H4 : Dx [] S4) by (unfold S4; d_go3). clearbody S4.
    match goal with |- Dx _ (match ?N with _ => _ end) => rewrite (surjective_pairing N) end.
    cbv beta iota. change (snd (new_operation ?t ?p ?i ?m S4)) with (s_nops S4).
    apply Dx_wait_execution_begin.
    match goal with |- Dx _ (schedule ?t (fst (new_operation ?t ?pr ?i ?m S4))) =>
      assert (H2 : Dx [s_nops S4] (fst (new_operation t pr i m S4))) end.
    { unfold new_operation. cbn [fst]. apply Dx_weaken with (o := s_nops S4) in H4.
      match goal with |- Dx _ (upd_task _ _ _) => eapply Dx_frame; [reflexivity|] end.
      apply Dx_newop; [right; left; reflexivity|exact H4]. }
    d_go3.
Qed.

Lemma Dx_get_current_or_next : forall c w b pr s, Dx [] s -> Dx [] (get_current_or_next c w b pr s).
Proof. intros. unfold get_current_or_next. d_go3. Qed.

Lemma Dx_sync_start : forall c a s, Dx [] s -> Dx [] (sync_start c a s).
Proof.
  intros c a s H. apply sync_start_closed; try exact H; intros;
    try (apply Dx_get_current_or_next; assumption); try (apply Dx_complete_task; assumption); d_go3.
Qed.

Ltac d_leaf4 :=
  first [ d_leaf3
        | lazymatch goal with
          | |- Dx _ (sync_start _ _ _) => apply Dx_sync_start
          | |- Dx _ (exec_start _ _ _) => apply Dx_exec_start
          | |- Dx _ (get_current_or_next _ _ _ _ _) => apply Dx_get_current_or_next
          end ].
Ltac d_go4 := inv_go d_leaf4 t_D.

Lemma Dx_terminate_fold : forall p l s waits,
  Dx [] s -> Dx [] (fst (fold_left (fun (acc : state * list (nat * nat)) w =>
        let '(s, waits) := acc in
        if matches w p then
          let s := mark_terminating w s in
          match k_task (get_worker s w) with
          | Some tk => (s, waits ++ [(tk, t_gen (get_task s tk))])
          | None => (if k_wait (get_worker s w) then wake_up w s else s, waits)
          end
        else (s, waits)) l (s, waits))).
Proof.
  intros p l s waits H.
  match goal with |- Dx [] (fst (fold_left ?g ?l ?a)) => apply (fold_left_pres (fun acc => Dx [] (fst acc)) g l) end;
    [|exact H].
  intros [s1 w1] w H1. cbn [fst] in *. d_go4.
Qed.

Lemma Dx_step_core : forall e s, V s -> Dx [] s -> Dx [] (step_core e s).
Proof.
  intros e s HV H.
  assert (He : forall t, Dx [] (enter t s)) by (intro; apply VD_enter; assumption).
  destruct e; unfold step_core; cbv zeta;
    try (specialize (He t); set (s1 := enter t s) in *; clearbody s1).
  - d_go4.
  - d_go4.
  - d_go4.
  - d_go4.
  - d_go4.
  - d_go4.
  - d_go4.
  - match goal with |- Dx _ (match ?x with _ => _ end) => rewrite (surjective_pairing x) end.
    cbv beta iota. eapply Dx_frame; [reflexivity|]. apply Dx_terminate_fold. exact He.
  - d_go4.
  - d_go4.
  - destruct (negb (at_gate s (get_call s c))); [exact H|]. destruct (get_call s c); d_go4.
  - destruct (at_gate s (get_call s c)); [exact H|]. destruct (get_call s c); try exact H; d_go4.
  - d_go4.
Qed.

Lemma Dx_auto_returns : forall s, Dx [] s -> Dx [] (auto_returns s).
Proof. intros s H. apply fr_auto_returns with (P := Dx []); [intros; eapply Dx_frame; [reflexivity|eassumption]|exact H]. Qed.

Definition VD (s : state) : Prop := V s /\ Dx [] s.

Lemma VD_step : forall s e h,
  (is_start e = true -> aget Nat.eqb (ev_call e) (s_calls s) = None) -> VD s -> VD (fst (step s (e, h))).
Proof.
  intros s e h Hf [HV HD]. split; [apply V_step; assumption|].
  unfold step. cbn [fst snd]. eapply Dx_frame; [reflexivity|]. apply Dx_auto_returns. apply Dx_step_core.
  - eapply V_frame; [ | | | |exact HV]; reflexivity.
  - eapply Dx_frame; [reflexivity|exact HD].
Qed.

Lemma VD_run : forall evs s U,
  keys_in U s -> fresh_calls U evs -> VD s -> VD (fst (run s evs)).
Proof.
  induction evs as [|[e h] evs IH]; intros s U Hk Hf HV; [exact HV|].
  cbn [run]. destruct (step s (e, h)) as [s1 o] eqn:Es. destruct (run s1 evs) as [s2 os] eqn:Er. cbn [fst].
  replace s2 with (fst (run s1 evs)) by (rewrite Er; reflexivity).
  assert (Hs1 : s1 = fst (step s (e, h))) by (rewrite Es; reflexivity).
  cbn [fresh_calls] in Hf.
  apply (IH s1 (if is_start e then ev_call e :: U else U)).
  - subst s1. apply keys_in_step. exact Hk.
  - destruct (is_start e); tauto.
  - subst s1. apply VD_step; [|exact HV]. intro Hs. rewrite Hs in Hf. destruct Hf as [Hnotin _].
    destruct (aget Nat.eqb (ev_call e) (s_calls s)) eqn:Eg; [|reflexivity]. exfalso. apply Hnotin. apply Hk.
    eapply aget_Some_in_keys; [exact nat_eqb_eq|exact Eg].
Qed.

(* armed_when_unwaited: the first check of Spec.c06_dump, on every reachable state *)
Lemma armed_when_unwaited_all : forall cfg t0 evs o x,
  fresh_calls [] evs -> let s := fst (run (init cfg t0) evs) in
  aget Nat.eqb o (s_ops s) = Some x -> o_waiters x = O -> o_mayexist x = false -> o_cleanup x <> None.
Proof.
  intros cfg t0 evs o x Hf s Ex Hw Hm.
  assert (H : VD s).
  { apply (VD_run evs (init cfg t0) []); [intros c Hc; destruct Hc|exact Hf|].
    split; [apply V_init|]. intros o' x' Ex'. discriminate. }
  destruct H as [_ HD]. apply (HD o x Ex); [intros []|exact Hw|exact Hm].
Qed.
