(* Referential integrity, continued: the RPC sections, events, runs. *)
From Coq Require Import Lia.
From VF Require Export Sched.ProofsRefs.
Open Scope Z_scope.

Lemma run_inv : forall evs s, forall P : state -> Prop,
  (forall s eh, P s -> P (fst (step s eh))) -> P s -> P (fst (run s evs)).
Proof.
  induction evs as [|eh evs IH]; intros s P Hstep H; [exact H|].
  cbn [run]. destruct (step s eh) as [s1 o] eqn:Es. destruct (run s1 evs) as [s2 os] eqn:Er. cbn [fst].
  replace s2 with (fst (run s1 evs)) by (rewrite Er; reflexivity). apply IH; [exact Hstep|].
  replace s1 with (fst (step s eh)) by (rewrite Es; reflexivity). apply Hstep. exact H.
Qed.

(* ---- the RPC sections ------------------------------------------------------------------------------------ *)
Lemma WL_exec_start : forall L c a s, WL L s -> WL L (exec_start c a s).
Proof.
  intros L c a s H. unfold exec_start, new_operation.
  destruct (aget dkey_eqb (x_instance a, x_digest a) (s_inflight s)) as [t0|] eqn:Ei.
  - pose proof (W_pick_inflight _ _ _ (WL_W _ _ H) Ei) as Ht.
    apply (WL_tail L _ t0). apply (WL_cons _ _ _ H) in Ht. clear H. w_go2.
  - w_go2.
Qed.

Lemma WL_get_next_task : forall L c w b pr s, WL L s -> WL L (get_next_task c w b pr s).
Proof. intros. unfold get_next_task. inv_go ltac:(first [w_leaf2 | lazymatch goal with |- WL _ (fst (assign_next_queued_task _ _)) => apply WL_assign_next_queued_task end]) t_W. Qed.

Lemma WL_get_current_or_next : forall L c w b pr s, WL L s -> WL L (get_current_or_next c w b pr s).
Proof.
  intros L c w b pr s H. unfold get_current_or_next.
  destruct (k_task (get_worker s w)) as [t|] eqn:Ek; [|apply WL_get_next_task; exact H].
  pose proof (W_pick_worker _ _ _ (WL_W _ _ H) Ek) as Ht.
  apply (WL_tail L _ t). apply (WL_cons _ _ _ H) in Ht. clear H.
  inv_go ltac:(first [w_leaf2 | lazymatch goal with |- WL _ (get_next_task _ _ _ _ _) => apply WL_get_next_task end]) t_W.
Qed.

Ltac sum_cases2 H :=
  repeat (match type of H with
          | (match ?y with _ => _ end) = _ => head_disc y ltac:(fun z => destruct z eqn:?)
          end);
  try discriminate H.

Lemma WL_sync_start : forall L c a s, WL L s -> WL L (sync_start c a s).
Proof.
  intros L c a s H. unfold sync_start. cbv zeta.
  match goal with |- WL _ (match ?R with _ => _ end) => destruct R as [s1|code1] eqn:ER end; [|w_go2].
  assert (H1 : WL L s1).
  { sum_cases2 ER; injection ER as <-; unfold add_scq, add_pq; w_go2. }
  clear ER H. revert H1. generalize s1. clear s. intros s H.
  match goal with |- WL _ (match ?R with _ => _ end) => destruct R as [s2|code2] eqn:ER end; [|w_go2].
  assert (H2 : WL L s2).
  { sum_cases2 ER; injection ER as <-; w_go2. }
  clear ER H. revert H2. generalize s2. clear s. intros s H.
  destruct (y_state a) as [|d|d r|].
  - apply WL_get_current_or_next. exact H.
  - inv_go ltac:(first [w_leaf2 | lazymatch goal with |- WL _ (get_current_or_next _ _ _ _ _) => apply WL_get_current_or_next end]) t_W.
  - destruct (running_correct s (y_worker a) d); [|apply WL_get_current_or_next; exact H].
    destruct (k_task (get_worker s (y_worker a))) as [t|] eqn:Ek; [|exact H].
    pose proof (W_pick_worker _ _ _ (WL_W _ _ H) Ek) as Ht.
    apply WL_get_next_task. apply (WL_tail L _ t). apply WL_complete_task; [left; reflexivity|]. apply WL_cons; assumption.
  - w_go2.
Qed.

Lemma WL_ret : forall L c code s, WL L s -> WL L (ret c code s).
Proof. intros. w_go2. Qed.
Lemma WL_stream_iter : forall L c o s, WL L s -> WL L (stream_iter c o s).
Proof. intros. w_go2. Qed.
Lemma WL_wait_execution_begin : forall L c o s, WL L s -> WL L (wait_execution_begin c o s).
Proof. intros. w_go2. Qed.
Lemma WL_stream_return : forall L c o code s, WL L s -> WL L (stream_return c o code s).
Proof. intros. w_go2. Qed.
Lemma WL_sync_return_exec : forall L c w s, WL L s -> WL L (sync_return_exec c w s).
Proof. intros. w_go2. Qed.
Lemma WL_sync_return_idle : forall L c w s, WL L s -> WL L (sync_return_idle c w s).
Proof. intros. w_go2. Qed.
Lemma WL_sync_return_err : forall L c w code s, WL L s -> WL L (sync_return_err c w code s).
Proof. intros. w_go2. Qed.
Lemma WL_kill_lookup : forall L c n code s, WL L s -> WL L (kill_lookup c n code s).
Proof. intros. w_go2. Qed.
Lemma WL_maybe_dequeue : forall L w s, WL L s -> WL L (maybe_dequeue w s).
Proof. intros. w_go2. Qed.
Lemma WL_wake_up : forall L w s, WL L s -> WL L (wake_up w s).
Proof. intros. w_go2. Qed.
Lemma WL_mark_terminating : forall L w s, WL L s -> WL L (mark_terminating w s).
Proof. intros. w_go2. Qed.

Ltac w_leaf3 :=
  first [ w_leaf2
        | lazymatch goal with
          | |- WL _ (enter _ _) => apply WL_enter
          | |- WL _ (cancel_all_queued _ _ _) => apply WL_cancel_all_queued
          | |- WL _ (fst (assign_next_queued_task _ _)) => apply WL_assign_next_queued_task
          | |- WL _ (get_next_task _ _ _ _ _) => apply WL_get_next_task
          | |- WL _ (get_current_or_next _ _ _ _ _) => apply WL_get_current_or_next
          | |- WL _ (exec_start _ _ _) => apply WL_exec_start
          | |- WL _ (sync_start _ _ _) => apply WL_sync_start
          | |- WL _ (ret _ _ _) => apply WL_ret
          | |- WL _ (stream_iter _ _ _) => apply WL_stream_iter
          | |- WL _ (wait_execution_begin _ _ _) => apply WL_wait_execution_begin
          | |- WL _ (stream_return _ _ _ _) => apply WL_stream_return
          | |- WL _ (sync_return_exec _ _ _) => apply WL_sync_return_exec
          | |- WL _ (sync_return_idle _ _ _) => apply WL_sync_return_idle
          | |- WL _ (sync_return_err _ _ _ _) => apply WL_sync_return_err
          | |- WL _ (kill_lookup _ _ _ _) => apply WL_kill_lookup
          | |- WL _ (maybe_dequeue _ _) => apply WL_maybe_dequeue
          | |- WL _ (wake_up _ _) => apply WL_wake_up
          | |- WL _ (mark_terminating _ _) => apply WL_mark_terminating
          end ].
Ltac w_go3 := inv_go w_leaf3 t_W.

Lemma WL_sync_loop : forall L c w s, WL L s -> WL L (sync_loop c w s).
Proof. intros. unfold sync_loop. w_go3. Qed.

Ltac w_leaf4 := first [ w_leaf3 | lazymatch goal with |- WL _ (sync_loop _ _ _) => apply WL_sync_loop end ].
Ltac w_go4 := inv_go w_leaf4 t_W.

Lemma WL_terminate_fold : forall L p l s waits,
  WL L s -> WL L (fst (fold_left (fun (acc : state * list (nat * nat)) w =>
        let '(s, waits) := acc in
        if matches w p then
          let s := mark_terminating w s in
          match k_task (get_worker s w) with
          | Some tk => (s, waits ++ [(tk, t_gen (get_task s tk))])
          | None => (if k_wait (get_worker s w) then wake_up w s else s, waits)
          end
        else (s, waits)) l (s, waits))).
Proof.
  intros L p l s waits H.
  match goal with |- WL L (fst (fold_left ?g ?l ?a)) => apply (fold_left_pres (fun acc => WL L (fst acc)) g l) end;
    [|exact H].
  intros [s1 w1] w H1. cbn [fst] in *. w_go4.
Qed.

Lemma WL_step_core : forall L e s, WL L s -> WL L (step_core e s).
Proof.
  intros L e s H. destruct e; unfold step_core.
  - w_go4.
  - w_go4.
  - w_go4.
  - w_go4.
  - w_go4.
  - w_go4.
  - w_go4.
  - (* TerminateWorkers *)
    cbv zeta. match goal with |- WL _ (match ?x with _ => _ end) => rewrite (surjective_pairing x) end.
    cbv beta iota. match goal with |- WL _ (set_call ?c ?p ?s1) => assert (Hs : WL L s1); [|t_W] end.
    apply WL_terminate_fold. w_go4.
  - w_go4.
  - w_go4.
  - (* EEnter: KillOperations completes a task picked from the state *)
    cbv zeta. destruct (negb (at_gate s (get_call s c))); [exact H|].
    assert (He : WL L (enter t s)) by (apply WL_enter; exact H).
    set (s1 := enter t s) in *. clearbody s1.
    destruct (get_call s c); try exact He.
    all: lazymatch goal with
         | |- WL _ (if op_alive _ _ then ret _ _ (complete_task _ _ _ _) else _) => idtac
         | |- _ => w_go4
         end.
    destruct (op_alive s1 name) eqn:Ea; [|w_go4].
    pose proof (W_pick_op _ _ (WL_W _ _ He) Ea) as Ht.
    apply WL_ret.
    apply (WL_tail L _ (o_task (get_op s1 name))). apply WL_complete_task; [left; reflexivity|]. apply WL_cons; assumption.
  - w_go4.
  - w_go4.
Qed.

Lemma WL_auto_returns : forall L s, WL L s -> WL L (auto_returns s).
Proof. intros L s H. apply fr_auto_returns with (P := WL L); [intros; apply WL_ret; assumption|exact H]. Qed.

Lemma W_step : forall s eh, W s -> W (fst (step s eh)).
Proof.
  intros s eh H. apply (WL_W []). unfold step. cbn [fst].
  assert (H0 : WL [] (s <| s_hints := snd eh |> <| s_out := [] |>)) by (eapply WL_frame; [ | | | | | | | apply WL_of_W; exact H]; reflexivity).
  eapply WL_frame; [ | | | | | | | apply WL_auto_returns; apply WL_step_core; exact H0]; reflexivity.
Qed.

Lemma W_init : forall cfg t0, W (init cfg t0).
Proof.
  intros. unfold W, init. cbn. split; [|split; [|split; [|split]]].
  - intros t [].
  - intros o x [].
  - intros k t [].
  - intros k q w wk t [].
  - intros i v [].
Qed.

(* in every reachable state ... *)
Lemma W_run : forall cfg t0 evs, W (fst (run (init cfg t0) evs)).
Proof.
  intros. apply (run_inv evs (init cfg t0) W); [intros; apply W_step; assumption|apply W_init].
Qed.

(* ... the next task index and the next operation index are unused *)
Lemma W_task_fresh : forall s, W s -> aget Nat.eqb (s_ntasks s) (s_tasks s) = None.
Proof.
  intros s [H1 _]. apply (notin_aget_None Nat.eqb nat_eqb_eq). intro Hin. specialize (H1 _ Hin). lia.
Qed.

Lemma W_op_fresh : forall s, W s -> aget Nat.eqb (s_nops s) (s_ops s) = None.
Proof.
  intros s [_ [H2 _]]. destruct (aget Nat.eqb (s_nops s) (s_ops s)) as [x|] eqn:E; [|reflexivity].
  apply (aget_In Nat.eqb nat_eqb_eq) in E. destruct (H2 _ _ E). lia.
Qed.
