(* The monitor on the model's trace: the components proved so far, as one statement.  sel_proved lists their
   positions in p_components; when it reaches all nineteen, trace_sub_all turns the statement into trace_ok. *)
From VF Require Export Sched.ProofsMon16.
From VF Require Import Sched.Spec Sched.Corr.
Open Scope Z_scope.

Definition sel_proved : list nat := sel_state ++ [2%nat] ++ [3%nat] ++ [5%nat] ++ [9%nat] ++ [12%nat] ++ [13%nat] ++ [16%nat; 18%nat] ++ [19%nat].

Theorem monitor_components_on_model : forall cfg t0 evs,
  selectors_in_range (init cfg t0) evs -> fresh_calls [] evs -> bg_scripts_ok evs -> learner_ids_unique evs -> causes_ok evs ->
  panicked (snd (run (init cfg t0) evs)) \/ trace_sub sel_proved cfg t0 (model_trace cfg t0 evs) = true.
Proof.
  intros cfg t0 evs Hsel Hfr Hbg Hu Hca.
  destruct (monitor_state_components_on_model cfg t0 evs Hsel Hfr Hbg) as [Hp|H1]; [left; exact Hp|].
  destruct (monitor_sync_on_model cfg t0 evs Hsel Hfr Hbg) as [Hp|H0]; [left; exact Hp|].
  destruct (monitor_stream_on_model cfg t0 evs Hsel Hfr Hbg Hca) as [Hp|H5]; [left; exact Hp|].
  destruct (monitor_cancel_on_model cfg t0 evs Hsel Hfr Hbg Hca) as [Hp|H6]; [left; exact Hp|].
  destruct (monitor_exec_on_model cfg t0 evs Hsel Hfr Hbg) as [Hp|H2]; [left; exact Hp|].
  destruct (monitor_c06_final_on_model cfg t0 evs Hsel Hfr Hbg) as [Hp|H3]; [left; exact Hp|].
  destruct (monitor_arm_on_model cfg t0 evs Hsel Hfr Hbg Hca) as [Hp|H7]; [left; exact Hp|].
  destruct (monitor_learners_on_model cfg t0 evs Hsel Hfr Hbg Hu) as [Hp|H4]; [left; exact Hp|].
  destruct (monitor_gone_on_model cfg t0 evs Hsel Hfr Hbg Hca) as [Hp|H8]; [left; exact Hp|].
  right. unfold sel_proved, trace_sub in *. rewrite !trace_sub_app, H0, H1, H2, H3, H4, H5, H6, H7, H8. reflexivity.
Qed.
