(* C04, tree consistency: the functions of the invocation tree and of the workers. *)
From Coq Require Import Lia.
From VF Require Export Sched.ProofsTC1.
Open Scope Z_scope.

(* the idle counter with slack: the invocations in [rem] count one worker more than is registered *)
Definition IDs (rem : list iref) (s : state) : Prop :=
  forall a, (cntw s a + (if inb a rem then 1 else 0) <= idle_at s a)%nat.
Lemma IDs_nil : forall s, IDs [] s <-> ID s.
Proof. unfold IDs, ID. intro s. split; intros H a; specialize (H a); cbn in *; lia. Qed.
Lemma IDs_frame : forall rem s s', s_scqs s' = s_scqs s -> s_invs s' = s_invs s -> IDs rem s -> IDs rem s'.
Proof. unfold IDs. intros rem s s' E1 E2 H a. rewrite (cntw_frame _ _ _ E1), (idle_at_frame _ _ _ E2). apply H. Qed.
Lemma IDs_upd_worker : forall rem s w f, (forall k, k_last (f k) = k_last k) -> IDs rem s -> IDs rem (upd_worker w f s).
Proof.
  unfold IDs. intros rem s w f Hf H a. rewrite (cntw_upd_worker_keep _ _ _ _ Hf).
  rewrite (idle_at_frame s) by (rewrite upd_worker_eq; reflexivity). apply H.
Qed.
Lemma IDs_upd_scq : forall rem s k f, (forall q, q_workers (f q) = q_workers q) -> IDs rem s -> IDs rem (upd_scq k f s).
Proof.
  unfold IDs. intros rem s k f Hf H a. rewrite (cntw_upd_scq_keep _ _ _ _ Hf).
  rewrite (idle_at_frame s) by (rewrite upd_scq_eq; reflexivity). apply H.
Qed.
Lemma IDs_upd_inv : forall rem s i f, (forall v, v_idle (f v) = v_idle v) -> IDs rem s -> IDs rem (upd_inv i f s).
Proof.
  unfold IDs. intros rem s i f Hf H a. rewrite (idle_at_upd_inv_keep _ _ _ _ Hf).
  rewrite (cntw_frame s) by (rewrite upd_inv_eq; reflexivity). apply H.
Qed.
Lemma IDs_invs_new : forall rem s i z, IDs rem s -> IDs rem (s <| s_invs ::= fun l => l ++ [(i, new_inv z)] |>).
Proof. unfold IDs. intros rem s i z H a. rewrite idle_at_invs_new. rewrite (cntw_frame s) by reflexivity. apply H. Qed.

Ltac t_IDs :=
  intros;
  lazymatch goal with
  | |- IDs _ (upd_worker _ _ _) => apply IDs_upd_worker; [intro; reflexivity | assumption]
  | |- IDs _ (upd_scq _ _ _) => apply IDs_upd_scq; [let q := fresh "q" in intro q; first [reflexivity | (destruct (existsb _ (q_drains q)); reflexivity)] | assumption]
  | |- IDs _ (upd_inv _ _ _) => (try match goal with Hf : inv_upd _ |- _ => destruct Hf end); apply IDs_upd_inv; [intro; reflexivity | assumption]
  | |- IDs _ (set s_invs (fun l => l ++ [(_, new_inv _)]) _) => apply IDs_invs_new; assumption
  | |- _ => (eapply IDs_frame; [| |eassumption]); frame_eq
  end.

(* ---- the bundle ------------------------------------------------------------------------------------------------------------------ *)
Definition TC (rem : list iref) (ext : list nat) (s : state) : Prop :=
  SW s /\ KW s /\ IDs rem s /\ EC ext s /\ QPs s /\ NQ s.

Lemma TC_SW : forall rem ext s, TC rem ext s -> SW s. Proof. unfold TC. tauto. Qed.
Lemma TC_weaken : forall rem ext t s, TC rem ext s -> TC rem (t :: ext) s.
Proof. intros rem ext t s [A [B [C [D E]]]]. split; [exact A|]. split; [exact B|]. split; [exact C|]. split; [apply EC_weaken; exact D|exact E]. Qed.
Lemma TC_drop : forall rem ext t s, t_worker (get_task s t) = None -> TC rem (t :: ext) s -> TC rem ext s.
Proof. intros rem ext t s Hw [A [B [C [D E]]]]. split; [exact A|]. split; [exact B|]. split; [exact C|]. split; [eapply EC_drop; eassumption|exact E]. Qed.

Ltac t_KW' := intros; (try match goal with Hf : inv_upd _ |- _ => destruct Hf end); t_KW.
Ltac t_EC' :=
  intros;
  lazymatch goal with
  | |- EC _ (upd_inv _ _ _) =>
    (try match goal with Hf : inv_upd _ |- _ => destruct Hf end);
    apply EC_upd_inv; [intros; cbn; first [apply Nat.le_refl | apply exec_incr_mono] | assumption]
  | |- _ => t_EC
  end.
Ltac t_QP' := intros; (try match goal with Hf : inv_upd _ |- _ => destruct Hf end); t_QP.
Ltac t_NQ' := intros; (try match goal with Hf : inv_upd _ |- _ => destruct Hf end); t_NQ.

Ltac t_TC :=
  intros;
  match goal with H : TC _ _ _ |- _ =>
    let HSW := fresh "HSW" in let HKW := fresh "HKW" in let HID := fresh "HID" in let HEC := fresh "HEC" in
    let HQP := fresh "HQP" in let HNQ := fresh "HNQ" in destruct H as [HSW [HKW [HID [HEC [HQP HNQ]]]]] end;
  split; [t_SW' | split; [t_KW' | split; [t_IDs | split; [t_EC' | split; [t_QP' | t_NQ']]]]].
Ltac tc_go0 := inv_go fail t_TC.

(* sanity: plain updates *)
Lemma TC_emit : forall rem ext s x, TC rem ext s -> TC rem ext (emit x s).
Proof. intros. tc_go0. Qed.
Lemma TC_K_task : forall rem ext s w t, TC rem ext s -> TC rem ext (upd_worker w (fun k => k <| k_task := t |>) s).
Proof. intros. tc_go0. Qed.
Lemma TC_T_gen : forall rem ext s t, TC rem ext s -> TC rem ext (upd_task t (fun x => x <| t_gen ::= S |>) s).
Proof. intros. tc_go0. Qed.
Lemma TC_incr : forall rem ext s i w z, TC rem ext s -> TC rem ext (upd_inv i (fun v => v <| v_exec ::= exec_incr w |> <| v_started := z |>) s).
Proof. intros. tc_go0. Qed.
Lemma TC_deq : forall rem ext s i o, TC rem ext s -> TC rem ext (upd_inv i (fun v => v <| v_qops ::= remove_nat o |>) s).
Proof. intros. tc_go0. Qed.
Lemma TC_setcall : forall rem ext s c, TC rem ext s -> TC rem ext (set_call c PDone s).
Proof. intros. tc_go0. Qed.

(* ---- removeIfEmpty ------------------------------------------------------------------------------------------------------------------- *)
Lemma In_adel {K V} (eqb : K -> K -> bool) : forall k (l : list (K * V)) x, In x (adel eqb k l) -> In x l.
Proof.
  intros k. induction l as [|[k2 v2] l IH]; cbn; intros x H; [exact H|].
  destruct (eqb k k2); [right; exact H|]. destruct H as [H|H]; [left; exact H|right; apply IH; exact H].
Qed.

Lemma inv_exists_adel : forall s i a, a <> i -> inv_exists (s <| s_invs := adel iref_eqb i (s_invs s) |>) a = inv_exists s a.
Proof. intros s i a Hne. unfold inv_exists. cbn. rewrite (aget_adel_other iref_eqb iref_eqb_eq) by exact Hne. reflexivity. Qed.

Lemma active_exec_empty : forall s i, is_active s i = false -> v_exec (get_inv s i) = [] /\ is_queued s i = false.
Proof.
  intros s i H. unfold is_active in H. apply orb_false_iff in H. destruct H as [H1 H2]. split; [|exact H1].
  destruct (v_exec (get_inv s i)); [reflexivity|discriminate].
Qed.

Lemma TC_remove_if_empty : forall rem ext i s, TC rem ext s -> TC rem ext (fst (remove_if_empty i s)).
Proof.
  intros rem ext i s H. unfold remove_if_empty.
  destruct (negb (is_root i) && inv_exists s i && negb (is_active s i) && (v_idle (get_inv s i) =? 0)%N) eqn:Eg; cbn [fst]; [|exact H].
  apply andb_true_iff in Eg. destruct Eg as [Eg Eidle]. apply andb_true_iff in Eg. destruct Eg as [Eg Eact]. apply andb_true_iff in Eg. destruct Eg as [Eroot Eex].
  apply N.eqb_eq in Eidle. apply negb_true_iff in Eact. destruct (active_exec_empty _ _ Eact) as [Eexec Eq].
  destruct H as [HSW [HKW [HID [HEC [HQP HNQ]]]]].
  pose proof (SW_St _ HSW) as [_ [_ [Hnd _]]].
  set (s' := s <| s_invs := adel iref_eqb i (s_invs s) |>).
  assert (Hgi : forall a, get_inv s' a = if iref_eqb a i then dummy_inv else get_inv s a) by (intro; apply get_inv_adel; exact Hnd).
  assert (Hidle0 : idle_at s i = 0%nat) by (unfold idle_at; rewrite Eidle; reflexivity).
  split.
  { pose proof (SW_remove_if_empty i s HSW) as H'. unfold remove_if_empty in H'. rewrite Eroot, Eex, Eact, Eidle in H'. exact H'. }
  split; [|split; [|split; [|split]]].
  - (* KW *) intros w He Hw. destruct (HKW w He Hw) as [p [A B]]. exists p. split; [exact A|]. rewrite Hgi.
    destruct (iref_eqb (last_iref w p) i) eqn:E; [|exact B]. exfalso. apply iref_eqb_eq in E.
    pose proof (cntw_ge_one s w p (last_iref w p) He A (in_chain_self _)) as Hc. specialize (HID (last_iref w p)). rewrite E in *. lia.
  - (* IDs *) intro a. rewrite (cntw_frame s) by reflexivity. unfold idle_at. rewrite Hgi. specialize (HID a).
    destruct (iref_eqb a i) eqn:E; [|exact HID]. apply iref_eqb_eq in E. subst a. cbn. lia.
  - (* EC *) intros a t w Hn Ht. specialize (HEC a t w Hn Ht). unfold ecount in *. rewrite Hgi.
    destruct (iref_eqb a i) eqn:E; [|exact HEC]. apply iref_eqb_eq in E. subst a. rewrite Eexec in HEC. cbn in *. exact HEC.
  - (* QPs *) intros d v Hin Hq. cbn in Hin. apply In_adel in Hin. pose proof (HQP d v Hin Hq) as Hae. intros a Ha.
    assert (Hne : a <> i).
    { intros ->. assert (Hqi : is_queued s i = true) by (apply is_queued_iff; exists d, v; auto). congruence. }
    unfold s'. rewrite inv_exists_adel by exact Hne. apply Hae. exact Ha.
  - (* NQ *) intros w He Hw. specialize (HNQ w He Hw). destruct (is_queued s' (mkI (w_sk w) [])) eqn:E; [|reflexivity].
    apply is_queued_iff in E. destruct E as [d [v [Hin [Hc Hq]]]]. cbn in Hin. apply In_adel in Hin.
    assert (Hqs : is_queued s (mkI (w_sk w) []) = true) by (apply is_queued_iff; exists d, v; auto). congruence.
Qed.

(* ---- getOrCreateInvocation ------------------------------------------------------------------------------------------------------------ *)
Lemma TC_get_or_create_invocation : forall rem ext k p s, TC rem ext s -> TC rem ext (get_or_create_invocation k p s).
Proof.
  intros rem ext k p s [HSW [HKW [HID [HEC [HQP HNQ]]]]].
  split; [apply SW_get_or_create_invocation; exact HSW|].
  unfold get_or_create_invocation.
  apply (fold_left_pres (fun a => KW a /\ IDs rem a /\ EC ext a /\ QPs a /\ NQ a)); [|tauto].
  intros a pp [A [B [C [D E]]]]. destruct (inv_exists a (mkI k pp)); [tauto|].
  split; [t_KW|split; [t_IDs|split; [t_EC|split; [t_QP|t_NQ]]]].
Qed.

Ltac tc_leaf0 :=
  idtac;
  lazymatch goal with
  | |- TC _ _ (get_or_create_invocation _ _ _) => apply TC_get_or_create_invocation
  | |- TC _ _ (fst (remove_if_empty _ _)) => apply TC_remove_if_empty
  end.
Ltac tc_go1 := inv_go tc_leaf0 t_TC.

Lemma TC_increment_executing : forall rem ext i w s, TC rem ext s -> TC rem ext (increment_executing i w s).
Proof. intros. tc_go1. Qed.
Lemma TC_remove_queued : forall rem ext o s, TC rem ext s -> TC rem ext (remove_queued_from_invocation o s).
Proof. intros. tc_go1. Qed.
Lemma TC_update_first_priority : forall rem ext i s, TC rem ext s -> TC rem ext (update_first_priority i s).
Proof. intros. tc_go1. Qed.

(* ---- decrementExecutingWorkersCount --------------------------------------------------------------------------------------------------- *)
Definition free_worker (ext : list nat) (w : wref) (s : state) : Prop :=
  forall t, ~ In t ext -> t_worker (get_task s t) <> Some w.
Lemma free_worker_frame : forall ext w s s', s_tasks s' = s_tasks s -> free_worker ext w s -> free_worker ext w s'.
Proof. unfold free_worker. intros ext w s s' E H t. rewrite (get_task_frame _ _ _ E). apply H. Qed.

Lemma EC_upd_inv_other : forall ext s i f w,
  (forall w', w' <> w -> (xcnt (v_exec (get_inv s i)) w' <= xcnt (v_exec (f (get_inv s i))) w')%nat) ->
  free_worker ext w s -> EC ext s -> EC ext (upd_inv i f s).
Proof.
  unfold EC. intros ext s i f w Hf Hfree H a t w' Hn. rewrite (get_task_frame s) by (rewrite upd_inv_eq; reflexivity). intro Ht.
  specialize (H a t w' Hn Ht). rewrite ecount_xcnt in *. rewrite get_inv_upd_inv.
  destruct (iref_eqb a i && inv_exists s i) eqn:E; [|exact H].
  apply andb_true_iff in E. destruct E as [E _]. apply iref_eqb_eq in E. subst.
  assert (Hne : w' <> w) by (intros ->; exact (Hfree t Hn Ht)). specialize (Hf w' Hne). lia.
Qed.

Lemma xcnt_adel_other : forall l w w', w' <> w -> xcnt (adel wref_eqb w l) w' = xcnt l w'.
Proof. intros l w w' H. unfold xcnt. rewrite (aget_adel_other wref_eqb wref_eqb_eq) by exact H. reflexivity. Qed.
Lemma xcnt_aset_other : forall l w n w', w' <> w -> xcnt (aset wref_eqb w n l) w' = xcnt l w'.
Proof. intros l w n w' H. unfold xcnt. rewrite (aget_aset_other wref_eqb wref_eqb_eq) by exact H. reflexivity. Qed.

Lemma TC_decrement_executing : forall rem ext i w s,
  free_worker ext w s -> TC rem ext s -> TC rem ext (decrement_executing i w s).
Proof.
  intros rem ext i w s Hfree H. unfold decrement_executing.
  apply (fold_left_pres (fun a => TC rem ext a /\ s_tasks a = s_tasks s)); [|split; [exact H|reflexivity]].
  intros a j [Ha Et]. cbv zeta.
  destruct (aget wref_eqb w (v_exec (get_inv a j))) as [[|n]|] eqn:Eg; try (split; [tc_go1|exact Et]).
  set (ex := match n with O => adel wref_eqb w (v_exec (get_inv a j)) | S _ => aset wref_eqb w n (v_exec (get_inv a j)) end).
  assert (H1 : TC rem ext (upd_inv j (fun v => v <| v_exec := ex |> <| v_completed := s_now a |>) a)).
  { destruct Ha as [HSW [HKW [HID [HEC [HQP HNQ]]]]].
    split; [t_SW'|]. split; [t_KW|]. split; [t_IDs|]. split; [|split; [t_QP|t_NQ]].
    apply (EC_upd_inv_other ext a j _ w); [| |exact HEC].
    - intros w' Hne. cbn. unfold ex. destruct n; [rewrite xcnt_adel_other by exact Hne|rewrite xcnt_aset_other by exact Hne]; apply Nat.le_refl.
    - eapply free_worker_frame; [exact Et|exact Hfree]. }
  assert (E1 : s_tasks (upd_inv j (fun v => v <| v_exec := ex |> <| v_completed := s_now a |>) a) = s_tasks s) by (rewrite upd_inv_eq; exact Et).
  destruct (is_root j); [split; assumption|]. split; [apply TC_remove_if_empty; exact H1|].
  unfold remove_if_empty. destruct (_ && _); cbn [fst]; exact E1.
Qed.

(* ---- setLastInvocation / clearLastInvocations ------------------------------------------------------------------------------------------- *)
Lemma KW_upd_worker_nowait : forall s w f, k_wait (f (get_worker s w)) = false -> KW s -> KW (upd_worker w f s).
Proof.
  unfold KW. intros s w f Hf H w'. rewrite worker_exists_upd_worker, get_worker_upd_worker.
  assert (Hi : forall j, get_inv (upd_worker w f s) j = get_inv s j) by (intro; apply get_inv_frame; rewrite upd_worker_eq; reflexivity).
  destruct (wref_eqb w' w && worker_exists s w) eqn:E.
  - intros _ Hw. congruence.
  - intros He Hw. destruct (H w' He Hw) as [p [A B]]. exists p. rewrite Hi. auto.
Qed.

Lemma idle_at_upd_inv : forall s i f a,
  idle_at (upd_inv i f s) a = if iref_eqb a i && inv_exists s i then N.to_nat (v_idle (f (get_inv s i))) else idle_at s a.
Proof. intros. unfold idle_at. rewrite get_inv_upd_inv. destruct (iref_eqb a i && inv_exists s i); reflexivity. Qed.

Lemma idle_fold_succ : forall l s a, NoDup l ->
  idle_at (fold_left (fun s j => upd_inv j (fun v => v <| v_idle ::= N.succ |>) s) l s) a
  = (idle_at s a + (if inb a l && inv_exists s a then 1 else 0))%nat.
Proof.
  induction l as [|x l IH]; intros s a Hnd; cbn [fold_left]; [cbn; lia|].
  inversion Hnd as [|? ? Hx Hnd']; subst. rewrite (IH _ a Hnd'). rewrite inv_exists_upd_inv, idle_at_upd_inv.
  unfold inb. cbn [existsb]. fold (inb a l).
  destruct (iref_eqb a x) eqn:E.
  - apply iref_eqb_eq in E. subst a. assert (Hn : inb x l = false) by (apply inb_false; exact Hx). rewrite Hn. cbn [orb andb].
    destruct (inv_exists s x) eqn:Ee; cbn [andb]; [|lia]. cbn. unfold idle_at. rewrite N2Nat.inj_succ. lia.
  - cbn [orb andb]. lia.
Qed.

Lemma TC_set_last_invocation : forall ext w p s,
  (worker_exists s w = true -> anc_exist s (last_iref w p)) ->
  TC [] ext s -> TC [] ext (set_last_invocation w p s).
Proof.
  intros ext w p s Hae H. pose proof (SW_set_last_invocation w p s (TC_SW _ _ _ H)) as HSW'.
  unfold set_last_invocation in *. cbv zeta in *. destruct (is_phantom w); [exact H|].
  destruct (k_last (get_worker s w)) eqn:El; [tc_go1|].
  destruct H as [HSW [HKW [HID [HEC [HQP HNQ]]]]].
  assert (Hnw : k_wait (get_worker s w) = false).
  { destruct (worker_exists s w) eqn:He.
    - destruct (k_wait (get_worker s w)) eqn:Ew; [|reflexivity]. destruct (HKW w He Ew) as [p0 [A _]]. congruence.
    - unfold worker_exists, get_worker in *. destruct (aget wref_eqb w (q_workers (get_scq s (w_sk w)))); [discriminate|reflexivity]. }
  set (s1 := upd_worker w (fun k => k <| k_last := Some p |>) s) in *.
  assert (H1 : KW s1 /\ EC ext s1 /\ QPs s1 /\ NQ s1).
  { split; [apply KW_upd_worker_nowait; [exact Hnw|exact HKW]|]. unfold s1. split; [t_EC|split; [t_QP|t_NQ]]. }
  split; [exact HSW'|].
  assert (Hfold : forall l a0, KW a0 /\ EC ext a0 /\ QPs a0 /\ NQ a0 ->
            let a1 := fold_left (fun s j => upd_inv j (fun v => v <| v_idle ::= N.succ |>) s) l a0 in KW a1 /\ EC ext a1 /\ QPs a1 /\ NQ a1).
  { intros l a0 Ha0. cbv zeta. apply (fold_left_pres (fun a => KW a /\ EC ext a /\ QPs a /\ NQ a)); [|exact Ha0].
    intros a j [A [B [C D]]]. split; [t_KW|split; [t_EC|split; [t_QP|t_NQ]]]. }
  destruct (Hfold (chain (last_iref w p)) s1 H1) as [A [B [C D]]].
  split; [exact A|]. split; [|split; [exact B|split; [exact C|exact D]]].
  (* the counters *)
  intro a. cbn [inb existsb]. rewrite Nat.add_0_r. rewrite idle_fold_succ by apply chain_NoDup.
  rewrite (cntw_frame s1).
  2:{ apply (fold_left_pres (fun a' => s_scqs a' = s_scqs s1)); [|reflexivity]. intros a' j Ha'. rewrite scqs_upd_inv. exact Ha'. }
  specialize (HID a). cbn [inb existsb] in HID. rewrite Nat.add_0_r in HID.
  assert (Hi1 : idle_at s1 a = idle_at s a) by (apply idle_at_frame; unfold s1; rewrite upd_worker_eq; reflexivity).
  assert (He1 : inv_exists s1 a = inv_exists s a) by (apply inv_exists_frame; unfold s1; rewrite upd_worker_eq; reflexivity).
  rewrite Hi1, He1.
  destruct (worker_exists s w) eqn:He.
  - pose proof (cntw_upd_worker s w (fun k => k <| k_last := Some p |>) a He) as Hc. change (upd_worker w (fun k => k <| k_last := Some p |>) s) with s1 in Hc.
    unfold touch in Hc. cbn [fst snd k_last set] in Hc. rewrite El in Hc.
    destruct (inb a (chain (last_iref w p))) eqn:Ein; cbn [andb]; [|lia].
    apply inb_In in Ein. rewrite (Hae eq_refl a Ein). lia.
  - assert (E : s1 = s) by (unfold s1, upd_worker; rewrite He; reflexivity). rewrite E. lia.
Qed.

(* the decrementing loop does not look at the queue table *)
Definition clear_step (s : state) (j : iref) : state :=
  let v := get_inv s j in
  if (v_idle v =? 0)%N then panic "Invalid workers count" s
  else fst (remove_if_empty j (upd_inv j (fun v => v <| v_idle ::= N.pred |>) s)).

Lemma clear_step_scqs : forall s j Q, clear_step (s <| s_scqs := Q |>) j = (clear_step s j) <| s_scqs := Q |>.
Proof.
  intros s j Q. unfold clear_step. cbv zeta.
  change (get_inv (s <| s_scqs := Q |>) j) with (get_inv s j).
  destruct (v_idle (get_inv s j) =? 0)%N; [destruct s; reflexivity|].
  assert (E : upd_inv j (fun v => v <| v_idle ::= N.pred |>) (s <| s_scqs := Q |>) = (upd_inv j (fun v => v <| v_idle ::= N.pred |>) s) <| s_scqs := Q |>).
  { unfold upd_inv. change (s_invs (s <| s_scqs := Q |>)) with (s_invs s). destruct (aget iref_eqb j (s_invs s)); destruct s; reflexivity. }
  rewrite E. set (s1 := upd_inv j _ s). unfold remove_if_empty.
  change (inv_exists (s1 <| s_scqs := Q |>) j) with (inv_exists s1 j).
  change (is_active (s1 <| s_scqs := Q |>) j) with (is_active s1 j).
  change (get_inv (s1 <| s_scqs := Q |>) j) with (get_inv s1 j).
  destruct (_ && _); cbn [fst]; destruct s1; reflexivity.
Qed.

Lemma clear_fold_scqs : forall l s Q, fold_left clear_step l (s <| s_scqs := Q |>) = (fold_left clear_step l s) <| s_scqs := Q |>.
Proof. induction l as [|x l IH]; intros s Q; cbn [fold_left]; [reflexivity|]. rewrite clear_step_scqs. apply IH. Qed.

Lemma upd_worker_scqs_only : forall w f s X, s_scqs X = s_scqs s -> upd_worker w f X = X <| s_scqs := s_scqs (upd_worker w f s) |>.
Proof.
  intros w f s X E. unfold upd_worker, worker_exists, get_worker, get_scq, upd_scq. rewrite E.
  destruct (aget skey_eqb (w_sk w) (s_scqs s)) as [q|]; cbn.
  - destruct (aget wref_eqb w (q_workers q)); cbn; [reflexivity|rewrite <- E; destruct X; reflexivity].
  - rewrite <- E. destruct X; reflexivity.
Qed.

Lemma clear_fold_commute : forall w f l s,
  upd_worker w f (fold_left clear_step l s) = fold_left clear_step l (upd_worker w f s).
Proof.
  intros w f l s.
  assert (Es : s_scqs (fold_left clear_step l s) = s_scqs s).
  { apply (fold_left_pres (fun a => s_scqs a = s_scqs s)); [|reflexivity]. intros a j Ha. unfold clear_step. cbv zeta.
    destruct (v_idle (get_inv a j) =? 0)%N; [exact Ha|]. unfold remove_if_empty. destruct (_ && _); cbn [fst]; [cbn|]; rewrite scqs_upd_inv; exact Ha. }
  rewrite (upd_worker_scqs_only w f s _ Es). rewrite <- clear_fold_scqs. f_equal. symmetry. apply upd_worker_eq.
Qed.

Lemma TC_clear_fold : forall l ext s, NoDup l -> TC l ext s -> TC [] ext (fold_left clear_step l s).
Proof.
  induction l as [|x l IH]; intros ext s Hnd H; cbn [fold_left]; [exact H|].
  inversion Hnd as [|? ? Hx Hnd']; subst. apply IH; [exact Hnd'|].
  unfold clear_step. cbv zeta.
  pose proof H as [HSW [HKW [HID [HEC [HQP HNQ]]]]].
  assert (Hslack : (cntw s x + 1 <= idle_at s x)%nat).
  { specialize (HID x). unfold inb in HID. cbn [existsb] in HID. rewrite iref_eqb_refl in HID. exact HID. }
  destruct (v_idle (get_inv s x) =? 0)%N eqn:Ez.
  { exfalso. apply N.eqb_eq in Ez. unfold idle_at in Hslack. rewrite Ez in Hslack. cbn in Hslack. lia. }
  apply TC_remove_if_empty.
  split; [t_SW'|]. split; [t_KW|]. split; [|split; [t_EC|split; [t_QP|t_NQ]]].
  intro a. rewrite (cntw_frame s) by (rewrite upd_inv_eq; reflexivity). rewrite idle_at_upd_inv. specialize (HID a).
  unfold inb in HID. cbn [existsb] in HID. fold (inb a l) in HID.
  destruct (iref_eqb a x) eqn:E.
  - apply iref_eqb_eq in E. subst a. assert (Hn : inb x l = false) by (apply inb_false; exact Hx). rewrite Hn. cbn [orb] in HID.
    destruct (inv_exists s x) eqn:Ee; cbn [andb].
    + cbn. unfold idle_at in *. rewrite N2Nat.inj_pred. lia.
    + lia.
  - cbn [orb andb] in *. exact HID.
Qed.

Lemma TC_clear_last_invocation : forall ext w s, TC [] ext s -> TC [] ext (clear_last_invocation w s).
Proof.
  intros ext w s H. unfold clear_last_invocation. cbv zeta.
  destruct (is_phantom w); [exact H|].
  destruct (k_wait (get_worker s w)) eqn:Ew; [tc_go1|].
  destruct (k_last (get_worker s w)) as [p|] eqn:El; [|exact H].
  change (fold_left _ (chain (last_iref w p)) s) with (fold_left clear_step (chain (last_iref w p)) s).
  rewrite clear_fold_commute. apply TC_clear_fold; [apply chain_NoDup|].
  assert (He : worker_exists s w = true).
  { unfold worker_exists, get_worker in *. destruct (aget wref_eqb w (q_workers (get_scq s (w_sk w)))); [reflexivity|discriminate]. }
  pose proof H as [HSW [HKW [HID [HEC [HQP HNQ]]]]].
  split.
  { destruct HSW as [HS HW]. split; [apply St_upd_worker; exact HS|].
    pose proof HW as [A2 [A3 [B1 [B5 [B3 [X8 [X8n E7]]]]]]].
    apply WP_upd_worker_gen; [| | | | |exact HW]; cbn.
    - intros _. exact Ew.
    - intros [c [p' [Hc Hs]]]. eapply A2; eassumption.
    - rewrite Ew. discriminate.
    - intros _. exact Ew.
    - intros i Hin. exfalso. destruct (X8 _ _ Hin) as [_ [E2 _]]. congruence. }
  split; [apply KW_upd_worker_nowait; [exact Ew|exact HKW]|].
  split; [|split; [t_EC|split; [t_QP|t_NQ]]].
  intro a. rewrite (idle_at_frame s) by (rewrite upd_worker_eq; reflexivity).
  pose proof (cntw_upd_worker s w (fun k => k <| k_last := None |>) a He) as Hc.
  unfold touch in Hc. cbn [fst snd k_last set] in Hc. rewrite El in Hc. specialize (HID a). cbn [inb existsb] in HID.
  destruct (inb a (chain (last_iref w p))); lia.
Qed.

(* ---- dequeue ------------------------------------------------------------------------------------------------------------------------------ *)
Lemma swap_remove_keeps : forall w l x, In x l -> x <> w -> In x (swap_remove w l).
Proof.
  intros w l x Hx Hne. destruct (in_dec wref_eq_dec w l) as [Hw|Hw].
  - pose proof (swap_remove_perm w l Hw) as Hp. apply (Permutation.Permutation_in _ Hp) in Hx. destruct Hx as [E|Hx]; [congruence|exact Hx].
  - rewrite swap_remove_notin by exact Hw. exact Hx.
Qed.

Lemma TC_dequeue_worker : forall rem ext w s, TC rem ext s -> TC rem ext (dequeue_worker w s).
Proof.
  intros rem ext w s H. pose proof (SW_dequeue_worker w s (TC_SW _ _ _ H)) as HSW'. unfold dequeue_worker in *.
  destruct (k_last (get_worker s w)) as [p|] eqn:El; [|tc_go1].
  destruct H as [HSW [HKW [HID [HEC [HQP HNQ]]]]]. split; [exact HSW'|].
  set (s1 := upd_inv (last_iref w p) (fun v => v <| v_isync ::= swap_remove w |>) s) in *.
  assert (H1 : IDs rem s1 /\ EC ext s1 /\ QPs s1 /\ NQ s1) by (unfold s1; split; [t_IDs|split; [t_EC|split; [t_QP|t_NQ]]]).
  destruct H1 as [HID1 [HEC1 [HQP1 HNQ1]]].
  split; [|split; [t_IDs|split; [t_EC|split; [t_QP|t_NQ]]]].
  intros w' He Hw. rewrite worker_exists_upd_worker in He. rewrite get_worker_upd_worker in Hw |- *.
  assert (Hex1 : forall x, worker_exists s1 x = worker_exists s x) by (intro; apply worker_exists_frame; apply scqs_upd_inv).
  assert (Hgw1 : forall x, get_worker s1 x = get_worker s x) by (intro; apply get_worker_frame'; apply scqs_upd_inv).
  rewrite Hex1 in *. rewrite !Hgw1 in *.
  destruct (wref_eqb w' w && worker_exists s w) eqn:E; [cbn in Hw; discriminate|].
  assert (Hne : w' <> w).
  { intros ->. rewrite wref_eqb_refl, He in E. discriminate. }
  destruct (HKW w' He Hw) as [p' [A B]]. exists p'. split; [exact A|].
  rewrite (get_inv_frame s1) by (rewrite upd_worker_eq; reflexivity). unfold s1. rewrite get_inv_upd_inv.
  destruct (iref_eqb (last_iref w' p') (last_iref w p) && inv_exists s (last_iref w p)) eqn:E2; [|exact B].
  apply andb_true_iff in E2. destruct E2 as [E2 _]. apply iref_eqb_eq in E2. rewrite <- E2. cbn. apply swap_remove_keeps; assumption.
Qed.

(* ---- incrementExecutingWorkersCount: what it adds --------------------------------------------------------------------------------------- *)
Lemma ecount_upd_inv : forall s i f a w,
  ecount (upd_inv i f s) a w = if iref_eqb a i && inv_exists s i then xcnt (v_exec (f (get_inv s i))) w else ecount s a w.
Proof. intros. rewrite ecount_xcnt, get_inv_upd_inv. destruct (iref_eqb a i && inv_exists s i); reflexivity. Qed.

Lemma ecount_incr_chain : forall l w z s a w', NoDup l ->
  ecount (fold_left (fun s j => upd_inv j (fun v => v <| v_exec ::= exec_incr w |> <| v_started := z s |>) s) l s) a w'
  = (ecount s a w' + (if wref_eqb w' w && (inb a l && inv_exists s a) then 1 else 0))%nat.
Proof.
  induction l as [|x l IH]; intros w z s a w' Hnd; cbn [fold_left]; [cbn; rewrite andb_false_r; lia|].
  inversion Hnd as [|? ? Hx Hnd']; subst. rewrite (IH _ _ _ a w' Hnd'). rewrite inv_exists_upd_inv, ecount_upd_inv.
  unfold inb. cbn [existsb]. fold (inb a l).
  destruct (iref_eqb a x) eqn:E.
  - apply iref_eqb_eq in E. subst a. assert (Hn : inb x l = false) by (apply inb_false; exact Hx). rewrite Hn. cbn [orb andb].
    destruct (inv_exists s x) eqn:Ee; cbn [andb]; [|rewrite andb_false_r; lia]. cbn [v_exec set]. rewrite xcnt_exec_incr, <- ecount_xcnt.
    rewrite andb_false_r, andb_true_r. destruct (wref_eqb w' w); lia.
  - cbn [orb andb]. lia.
Qed.

Lemma ecount_increment : forall i w s a w',
  ecount (increment_executing i w s) a w' = (ecount s a w' + (if wref_eqb w' w && (inb a (chain i) && inv_exists s a) then 1 else 0))%nat.
Proof. intros. unfold increment_executing. apply (ecount_incr_chain (chain i) w s_now). apply chain_NoDup. Qed.

Lemma inv_exists_increment : forall i w s a, inv_exists (increment_executing i w s) a = inv_exists s a.
Proof.
  intros i w s a. unfold increment_executing. apply (fold_left_pres (fun s' => inv_exists s' a = inv_exists s a)); [|reflexivity].
  intros a' j Ha'. rewrite inv_exists_upd_inv. exact Ha'.
Qed.

Lemma ecount_incr_fold : forall l w s a, (forall i, In i l -> anc_exist s i) ->
  (ecount s a w + flen (fun i => inb a (chain i)) l <= ecount (fold_left (fun s i => increment_executing i w s) l s) a w)%nat.
Proof.
  induction l as [|i l IH]; intros w s a Hae; cbn [fold_left]; [unfold flen; cbn; lia|].
  assert (Hae' : forall i', In i' l -> anc_exist (increment_executing i w s) i').
  { intros i' Hi' x Hx. rewrite inv_exists_increment. apply (Hae i' (or_intror Hi')). exact Hx. }
  specialize (IH w (increment_executing i w s) a Hae'). rewrite ecount_increment in IH. rewrite wref_eqb_refl in IH. cbn [andb] in IH.
  unfold flen in *. cbn [filter]. destruct (inb a (chain i)) eqn:Ein; cbn [andb List.length] in *; [|lia].
  apply inb_In in Ein. rewrite (Hae i (or_introl eq_refl) a Ein) in IH. lia.
Qed.

Lemma flen_map : forall {A B} (g : A -> B) (P : B -> bool) l, flen P (map g l) = flen (fun x => P (g x)) l.
Proof. intros A B g P. induction l as [|x l IH]; [reflexivity|]. unfold flen in *. cbn. destruct (P (g x)); cbn; rewrite IH; reflexivity. Qed.

(* ---- assignUnqueuedTask ------------------------------------------------------------------------------------------------------------------ *)
Ltac tc_leaf1 :=
  first [ tc_leaf0
        | lazymatch goal with
          | |- TC _ _ (clear_last_invocation _ _) => apply TC_clear_last_invocation
          | |- TC _ _ (dequeue_worker _ _) => apply TC_dequeue_worker
          | |- TC _ _ (increment_executing _ _ _) => apply TC_increment_executing
          end ].
Ltac tc_go2 := inv_go tc_leaf1 t_TC.

Lemma TC_incr_fold : forall rem ext l w s, TC rem ext s -> TC rem ext (fold_left (fun s i => increment_executing i w s) l s).
Proof. intros rem ext l w s H. apply fold_left_pres; [|exact H]. intros. apply TC_increment_executing. assumption. Qed.

Lemma incr_fold_tasks : forall l w s, s_tasks (fold_left (fun s i => increment_executing i w s) l s) = s_tasks s.
Proof.
  intros l w s. apply (fold_left_pres (fun s' => s_tasks s' = s_tasks s)); [|reflexivity].
  intros a i Ha. unfold increment_executing. apply (fold_left_pres (fun s' => s_tasks s' = s_tasks s)); [|exact Ha].
  intros a' j Ha'. rewrite upd_inv_eq. exact Ha'.
Qed.

(* the task becomes the worker's; its counters are established when its invocations exist *)
Lemma TC_assign_unqueued : forall ext w t r s,
  (forall i o, In (i, o) (t_ops (get_task s t)) -> anc_exist s i) ->
  TC [] ext s -> TC [] ext (assign_unqueued w t r s).
Proof.
  intros ext w t r s Hae H. unfold assign_unqueued. cbv zeta.
  destruct (negb (is_phantom w) && _); [tc_go2|].
  destruct (t_worker (get_task s t)) eqn:Etw; [tc_go2|].
  set (s1 := upd_worker w (fun k => k <| k_task := Some t |>) s).
  set (s2 := upd_task t (fun x => x <| t_worker := Some w |> <| t_retry := 0%nat |>) s1).
  assert (H2 : TC [] (t :: ext) s2).
  { apply TC_weaken with (t := t) in H. unfold s2, s1. destruct H as [HSW [HKW [HID [HEC [HQP HNQ]]]]].
    assert (H1 : SW s1 /\ KW s1 /\ IDs [] s1 /\ EC (t :: ext) s1 /\ QPs s1 /\ NQ s1) by (unfold s1; split; [t_SW'|split; [t_KW|split; [t_IDs|split; [t_EC|split; [t_QP|t_NQ]]]]]).
    fold s1. destruct H1 as [A [B [C [D [E F]]]]]. split; [t_SW'|split; [t_KW|split; [t_IDs|split; [t_EC|split; [t_QP|t_NQ]]]]]. }
  assert (Eops2 : get_task s2 t = (get_task s t) <| t_worker := Some w |> <| t_retry := 0%nat |>).
  { unfold s2. rewrite get_task_upd_task, Nat.eqb_refl. rewrite (get_task_frame s) by (unfold s1; rewrite upd_worker_eq; reflexivity). reflexivity. }
  assert (Einv : task_invs s2 t = map fst (t_ops (get_task s t))) by (unfold task_invs; rewrite Eops2; reflexivity).
  rewrite Einv.
  set (s3 := fold_left (fun s i => increment_executing i w s) (map fst (t_ops (get_task s t))) s2).
  assert (H3 : TC [] ext s3).
  { pose proof (TC_incr_fold [] (t :: ext) (map fst (t_ops (get_task s t))) w s2 H2) as H3. fold s3 in H3.
    destruct H3 as [A [B [C [D E]]]]. split; [exact A|]. split; [exact B|]. split; [exact C|]. split; [|exact E].
    intros a t' w' Hn Ht'. destruct (Nat.eq_dec t' t) as [->|Hne]; [|apply D; [intros [E1|Hin]; [congruence|contradiction]|exact Ht']].
    assert (Et3 : get_task s3 t = get_task s2 t) by (apply get_task_frame; apply incr_fold_tasks).
    rewrite Et3, Eops2 in *. cbn [t_worker t_ops set] in *. injection Ht' as <-.
    assert (Hae2 : forall i, In i (map fst (t_ops (get_task s t))) -> anc_exist s2 i).
    { intros i Hi. apply in_map_iff in Hi. destruct Hi as [[i0 o] [<- Hin]]. intros x Hx. unfold s2, s1.
      rewrite (inv_exists_frame s) by (rewrite upd_task_eq; cbn; rewrite upd_worker_eq; reflexivity). exact (Hae i0 o Hin x Hx). }
    pose proof (ecount_incr_fold (map fst (t_ops (get_task s t))) w s2 a Hae2) as Hc. fold s3 in Hc.
    rewrite flen_map in Hc. unfold cnto. lia. }
  clearbody s3. tc_go2.
Qed.

(* without that knowledge, the task stays exempt *)
Lemma TC_assign_unqueued_ext : forall ext w t r s, TC [] ext s -> TC [] (t :: ext) (assign_unqueued w t r s).
Proof.
  intros ext w t r s H. apply TC_weaken with (t := t) in H. unfold assign_unqueued. cbv zeta.
  destruct (negb (is_phantom w) && _); [tc_go2|].
  destruct (t_worker (get_task s t)) eqn:Etw; [tc_go2|].
  match goal with |- TC _ _ (upd_worker _ _ (clear_last_invocation _ (fold_left _ ?l ?s2))) =>
    assert (H2 : TC [] (t :: ext) s2); [|generalize l; intro l0; pose proof (TC_incr_fold [] (t :: ext) l0 w s2 H2) as H3; set (s3 := fold_left _ l0 s2) in *; clearbody s3; tc_go2] end.
  destruct H as [HSW [HKW [HID [HEC [HQP HNQ]]]]].
  set (s1 := upd_worker w (fun k => k <| k_task := Some t |>) s).
  assert (H1 : SW s1 /\ KW s1 /\ IDs [] s1 /\ EC (t :: ext) s1 /\ QPs s1 /\ NQ s1) by (unfold s1; split; [t_SW'|split; [t_KW|split; [t_IDs|split; [t_EC|split; [t_QP|t_NQ]]]]]).
  destruct H1 as [A [B [C [D [E F]]]]]. split; [t_SW'|split; [t_KW|split; [t_IDs|split; [t_EC|split; [t_QP|t_NQ]]]]].
Qed.

Lemma TC_assign_queued : forall ext w t r s,
  (forall i o, In (i, o) (t_ops (get_task s t)) -> anc_exist s i) ->
  TC [] ext s -> TC [] ext (assign_queued w t r s).
Proof.
  intros ext w t r s Hae H. unfold assign_queued. cbv zeta.
  pose proof (TC_assign_unqueued ext w t r s Hae H) as H1. set (s1 := assign_unqueued w t r s) in *. clearbody s1.
  apply TC_T_gen. apply fold_left_pres; [|exact H1]. intros. apply TC_remove_queued. assumption.
Qed.
Lemma TC_assign_queued_ext : forall ext w t r s, TC [] ext s -> TC [] (t :: ext) (assign_queued w t r s).
Proof.
  intros ext w t r s H. unfold assign_queued. cbv zeta.
  pose proof (TC_assign_unqueued_ext ext w t r s H) as H1. set (s1 := assign_unqueued w t r s) in *. clearbody s1.
  apply TC_T_gen. apply fold_left_pres; [|exact H1]. intros. apply TC_remove_queued. assumption.
Qed.

(* ---- invocations with parked workers exist with their ancestors --------------------------------------------------------------------- *)
Lemma IPs_of_TC : forall ext s, TC [] ext s -> IPs s.
Proof.
  intros ext s [HSW [_ [HID _]]] d v Hin Hv a Ha.
  pose proof (SW_St _ HSW) as [_ [_ [Hnd _]]]. pose proof (SW_WP _ HSW) as [_ [_ [_ [_ [_ [X8 _]]]]]].
  destruct (in_invs_get s d v Hnd Hin) as [Eg _].
  destruct v as [qo fi ex st co idl isy]. cbn in Hv. destruct isy as [|w isy]; [contradiction|].
  assert (Hw : In w (v_isync (get_inv s d))) by (rewrite Eg; left; reflexivity).
  destruct (X8 d w Hw) as [He [_ [Hl Hk]]].
  assert (Ed : last_iref w (i_path d) = d) by (destruct d; unfold last_iref; cbn in *; rewrite Hk; reflexivity).
  pose proof (cntw_ge_one s w (i_path d) a He Hl) as Hc. rewrite Ed in Hc. specialize (Hc Ha).
  specialize (HID a). cbn [inb existsb] in HID.
  unfold inv_exists. unfold idle_at, get_inv in HID. destruct (aget iref_eqb a (s_invs s)); [reflexivity|cbn in HID; lia].
Qed.

(* ---- enqueue ---------------------------------------------------------------------------------------------------------------------------------- *)
Lemma QPs_upd_inv_grow : forall s i f, (inv_exists s i = true -> anc_exist s i) -> QPs s -> QPs (upd_inv i f s).
Proof.
  unfold QPs. intros s i f Hae H d v Hin Hq.
  apply (anc_exist_mono s); [intros a Ha; rewrite inv_exists_upd_inv; exact Ha|].
  apply in_upd_inv in Hin. destruct Hin as [Hin|[-> [He _]]]; [exact (H d v Hin Hq)|exact (Hae He)].
Qed.

Lemma NQ_upd_inv_grow : forall s i f,
  (inv_exists s i = true -> forall w, worker_exists s w = true -> k_wait (get_worker s w) = true -> w_sk w <> i_sk i) ->
  NQ s -> NQ (upd_inv i f s).
Proof.
  unfold NQ. intros s i f Hnw H w. rewrite (worker_exists_frame s) by apply scqs_upd_inv. rewrite (get_worker_frame' s) by apply scqs_upd_inv.
  intros He Hw. specialize (H w He Hw). destruct (is_queued (upd_inv i f s) (mkI (w_sk w) [])) eqn:E; [|reflexivity]. exfalso.
  apply is_queued_iff in E. destruct E as [d [v [Hin [Hc Hq]]]]. apply in_upd_inv in Hin. destruct Hin as [Hin|[-> [Hex _]]].
  - assert (Hqs : is_queued s (mkI (w_sk w) []) = true) by (apply is_queued_iff; exists d, v; auto). congruence.
  - apply (Hnw Hex w He Hw). destruct i as [ik ip]. apply in_chain in Hc. cbn in *. exact (proj1 Hc).
Qed.

Lemma TC_enqueue : forall rem ext o s,
  (inv_exists s (o_inv (get_op s o)) = true ->
     anc_exist s (o_inv (get_op s o)) /\
     forall w, worker_exists s w = true -> k_wait (get_worker s w) = true -> w_sk w <> i_sk (o_inv (get_op s o))) ->
  TC rem ext s -> TC rem ext (enqueue o s).
Proof.
  intros rem ext o s Hi H. unfold enqueue. cbv zeta. set (i := o_inv (get_op s o)) in *.
  apply fold_left_pres; [intros; apply TC_update_first_priority; assumption|].
  destruct H as [HSW [HKW [HID [HEC [HQP HNQ]]]]].
  split; [t_SW'|split; [t_KW|split; [t_IDs|split; [t_EC|split]]]].
  - apply QPs_upd_inv_grow; [intro He; exact (proj1 (Hi He))|exact HQP].
  - apply NQ_upd_inv_grow; [intro He; exact (proj2 (Hi He))|exact HNQ].
Qed.

(* ---- task.schedule --------------------------------------------------------------------------------------------------------------------------- *)
Lemma no_waiting_of_no_cands : forall ext s invs k,
  TC [] ext s -> invs <> [] -> (forall i, In i invs -> i_sk i = k) ->
  schedule_candidates (S (max_depth invs)) s invs = [] ->
  forall w, worker_exists s w = true -> k_wait (get_worker s w) = true -> w_sk w <> k.
Proof.
  intros ext s invs k H Hne Hk Hc w He Hw Esk.
  pose proof (IPs_of_TC _ _ H) as HI. destruct H as [HSW [HKW _]]. pose proof (SW_St _ HSW) as [_ [_ [Hnd _]]].
  destruct (HKW w He Hw) as [p [Hl Hin]]. set (d := last_iref w p) in *.
  assert (Hex : inv_exists s d = true).
  { unfold inv_exists. unfold get_inv in Hin. destruct (aget iref_eqb d (s_invs s)); [reflexivity|destruct Hin]. }
  apply (schedule_candidates_nonempty (S (max_depth invs)) s invs k Hnd HI Hne Hk); [|lia|exact Hc].
  apply has_idle_sync_iff. exists d, (get_inv s d). split; [apply inv_exists_in; exact Hex|]. split.
  - rewrite <- Esk. change (w_sk w) with (i_sk d). apply in_chain_root.
  - intro E. rewrite E in Hin. destruct Hin.
Qed.

Lemma TC_schedule : forall ext t s k,
  (forall i o, In (i, o) (t_ops (get_task s t)) -> anc_exist s i /\ o_inv (get_op s o) = i /\ i_sk i = k) ->
  TC [] ext s -> TC [] ext (schedule t s).
Proof.
  intros ext t s k Hops H. unfold schedule. cbv zeta.
  destruct (pick_worker s t _) as [w|] eqn:Ep.
  - apply TC_assign_unqueued; [|unfold wake_up; apply TC_dequeue_worker; exact H].
    intros i o Hin a Ha. unfold wake_up, dequeue_worker in *.
    assert (Et : forall s', s' = match k_last (get_worker s w) with Some p => upd_worker w (fun k0 => k0 <| k_wait := false |>) (upd_inv (last_iref w p) (fun v => v <| v_isync ::= swap_remove w |>) s) | None => panic "dequeue of a worker without last invocation" s end ->
               s_tasks s' = s_tasks s /\ forall x, inv_exists s' x = inv_exists s x).
    { intros s' ->. destruct (k_last (get_worker s w)); [|split; [reflexivity|intro; reflexivity]].
      split; [rewrite upd_worker_eq; cbn; rewrite upd_inv_eq; reflexivity|].
      intro x. rewrite (inv_exists_frame (upd_inv _ _ s)) by (rewrite upd_worker_eq; reflexivity). apply inv_exists_upd_inv. }
    destruct (Et _ eq_refl) as [E1 E2]. rewrite (get_task_frame _ _ _ E1) in Hin. rewrite E2. exact (proj1 (Hops i o Hin) a Ha).
  - (* nobody to hand the task to: nobody waits in this size class queue *)
    assert (Hc : t_ops (get_task s t) <> [] -> schedule_candidates (S (max_depth (task_invs s t))) s (task_invs s t) = []).
    { intros _. destruct (schedule_candidates _ s (task_invs s t)) eqn:Ec; [reflexivity|]. exfalso.
      pose proof (pick_worker_some s t (w :: l)) as Hp. rewrite Ep in Hp. apply Hp; [discriminate|reflexivity]. }
    assert (Hnw : t_ops (get_task s t) <> [] -> forall w, worker_exists s w = true -> k_wait (get_worker s w) = true -> w_sk w <> k).
    { intros Hne. apply (no_waiting_of_no_cands ext s (task_invs s t) k H); [unfold task_invs; destruct (t_ops (get_task s t)); [contradiction|discriminate]| |exact (Hc Hne)].
      intros i Hi. unfold task_invs in Hi. apply in_map_iff in Hi. destruct Hi as [[i0 o] [<- Hin]]. exact (proj2 (proj2 (Hops i0 o Hin))). }
    unfold task_opids.
    assert (Hgen : forall l a, (forall o, In o l -> exists i, In (i, o) (t_ops (get_task s t))) ->
              TC [] ext a -> s_ops a = s_ops s -> s_scqs a = s_scqs s -> (forall x, inv_exists a x = inv_exists s x) ->
              TC [] ext (fold_left (fun s o => enqueue o s) l a)).
    { induction l as [|o l IH]; intros a Hl Ha Eo Es Ei; cbn [fold_left]; [exact Ha|].
      destruct (Hl o (or_introl eq_refl)) as [i Hin]. destruct (Hops i o Hin) as [Hae [Hoi Hsk]].
      destruct (enqueue_reads o a) as [R1 [R2 _]]. destruct (enqueue_reads2 o a) as [_ [_ R3]].
      apply IH; [intros o' Ho'; apply Hl; right; exact Ho'| |congruence| |intro x; rewrite R3; apply Ei].
      - apply TC_enqueue; [|exact Ha]. rewrite (get_op_frame _ _ _ Eo), Hoi. intros _. split.
        + intros x Hx. rewrite Ei. exact (Hae x Hx).
        + intros w He Hw. rewrite (worker_exists_frame _ _ _ Es) in He. rewrite (get_worker_frame' _ _ _ Es) in Hw. rewrite Hsk.
          apply Hnw; [intro E; rewrite E in Hin; destruct Hin|exact He|exact Hw].
      - unfold enqueue. cbv zeta. rewrite <- Es.
        apply (fold_left_pres (fun s' => s_scqs s' = s_scqs a)); [|apply scqs_upd_inv].
        intros a' j Ha'. unfold update_first_priority. cbv zeta. destruct (min_op a' _); [rewrite scqs_upd_inv; exact Ha'|].
        destruct (minimal _ _); [exact Ha'|rewrite scqs_upd_inv; exact Ha']. }
    apply Hgen; [|exact H|reflexivity|reflexivity|reflexivity].
    intros o Ho. apply in_map_iff in Ho. destruct Ho as [[i o'] [<- Hin]]. exists i. exact Hin.
Qed.
