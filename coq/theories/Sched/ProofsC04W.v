(* C04: a run after which the order on the children holding idle workers is cyclic.

   [ichildren_less] (the code's idleSynchronizingWorkersChildrenHeap.Less) is not transitive: an invocation with neither
   executing nor idle-synchronizing workers of its own (it is in the heap because a descendant has one) ties with every
   sibling on the utilisation products and is ordered against them by lastOperationCompletion only.  With siblings
   a, b, z where a is before b by utilisation, b before z and z before a by completion time, every child has a
   predecessor and [minimal] is empty.  The code takes heap element 0, which always exists; [descend_idle] therefore
   falls back to all children when there is no minimal one (before that repair of the model this run ended with a task
   queued while three workers were parked). *)
From VF Require Import Sched.Corr Sched.Spec.
From VF Require Export Sched.ProofsFull8.
Open Scope Z_scope.

Definition c04w_K : skey := mkSK (mkPK [] 1%N) 2%N.
Definition c04w_wk (n : N) : wref := mkW c04w_K n 0%N.
Definition c04w_cfg : config := mkConfig 5000 60000 30000 10000 5000 0%nat 60000.
Definition c04w_ex (c : nat) (dg : N) (keys : list N) (lid : N) (t : Z) : event * list (nat * wref) :=
  (EStartExecute c (mkExec [] 1%N dg false 0 keys (0%nat, 1000, 100000, Learner lid None None)) t, []).
Definition c04w_sy (c : nat) (w : N) (st : wstate) (t : Z) : event * list (nat * wref) :=
  (EStartSync c (mkSync (c04w_wk w) st false) t, []).
Definition c04w_pre : list (event * list (nat * wref)) :=
  [ (ERegister 0%nat (mkPK [] 1%N) [1000; 2000; 3000] 1%nat (-3) [2%N] 1000, []);
    (* four workers park at the root invocation *)
    c04w_sy 1 1 WIdle 1001; c04w_sy 2 2 WIdle 1002; c04w_sy 3 3 WIdle 1003; c04w_sy 4 4 WIdle 1004;
    c04w_ex 5 11 [2%N] 1 1005;        (* invocation b = [2]:   assigned to worker 1 *)
    c04w_ex 6 12 [3%N; 9%N] 2 1006;   (* below z = [3]:        assigned to worker 4 *)
    c04w_ex 7 13 [1%N] 3 1007;        (* invocation a = [1]:   assigned to worker 3 *)
    c04w_ex 8 14 [2%N] 4 1008;        (* invocation b again:   assigned to worker 2, keeps executing *)
    (EEnter 1%nat 1009, []); (EEnter 2%nat 1010, []); (EEnter 3%nat 1011, []); (EEnter 4%nat 1012, []);
    (* completions in the order b, z, a; each worker then parks at the invocation it last worked for *)
    c04w_sy 9 1 (WCompleted 11 (mkResp 0%N 0 1%N)) 1020;
    c04w_sy 10 4 (WCompleted 12 (mkResp 0%N 0 2%N)) 1030;
    c04w_sy 11 3 (WCompleted 13 (mkResp 0%N 0 3%N)) 1040 ].
(* a task of an unrelated invocation arrives *)
Definition c04w_evs := c04w_pre ++ [c04w_ex 12 15 [7%N] 5 1050].

Lemma c04w_fresh : fresh_calls [] c04w_evs.
Proof. cbn. repeat split; intros H; repeat (destruct H as [H|H]; [discriminate|]); exact H. Qed.

Lemma c04w_in_range : selectors_in_range (init c04w_cfg 1000) c04w_evs.
Proof. apply selectors_in_rangeb_sound. vm_compute. reflexivity. Qed.

Lemma c04w_no_panic : forall o what, In o (snd (run (init c04w_cfg 1000) c04w_evs)) -> ~ In (OPanic what) o.
Proof.
  assert (H : forallb (fun o => forallb (fun x => match x with OPanic _ => false | _ => true end) o) (snd (run (init c04w_cfg 1000) c04w_evs)) = true) by (vm_compute; reflexivity).
  intros o what Ho Hp. rewrite forallb_forall in H. specialize (H o Ho). rewrite forallb_forall in H. specialize (H _ Hp). discriminate.
Qed.

(* before the last event: three children of the root hold idle workers, each has a predecessor *)
Lemma c04w_cycle :
  let s := fst (run (init c04w_cfg 1000) c04w_pre) in
  let a := mkI c04w_K [1%N] in let b := mkI c04w_K [2%N] in let z := mkI c04w_K [3%N] in
  idle_sync_children s (mkI c04w_K []) = [b; z; a] /\
  ichildren_less s a b = true /\ ichildren_less s b z = true /\ ichildren_less s z a = true /\
  minimal (ichildren_less s) (idle_sync_children s (mkI c04w_K [])) = [].
Proof. vm_compute. repeat split. Qed.

Lemma c04w_served :
  c04_dump (observe (fst (run (init c04w_cfg 1000) c04w_evs))) = ""%string.
Proof. vm_compute. reflexivity. Qed.

Lemma c04w_no_phantom : no_phantom_sync c04w_evs.
Proof.
  intros c a t h H. cbn in H.
  repeat (destruct H as [H|H]; [first [discriminate H | inversion H; subst; reflexivity]|]). destruct H.
Qed.
