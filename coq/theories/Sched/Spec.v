(* Properties C01-C07 (scheduler part) as decidable predicates over the
   observable dump and the per-event observations.  [p_step] is evaluated by
   Corr.v on the implementation's trace (threading the small monitor state
   [mon]) and is what the theorems in Properties.v are about. *)
From VF Require Export Sched.Obs.
Open Scope string_scope.
Open Scope list_scope.
Open Scope Z_scope.

(* ---- monitor state: what an observer of the RPC traffic remembers ------------- *)
Record stream_mon := mkSM { sm_call : nat; sm_stage : N; sm_done : bool; sm_cancelled : bool }.
#[export] Instance eta_sm : Settable _ := settable! mkSM <sm_call; sm_stage; sm_done; sm_cancelled>.
Record mon := mkMon {
  m_streams : list stream_mon;                 (* Execute / WaitExecution calls seen *)
  m_syncs : list (nat * wref);                 (* Synchronize calls that have not returned *)
  m_supplied : list (N * resp);                (* (digest, response) handed in by workers *)
  m_learners : list (N * learner);             (* learners that are owed a terminal call *)
  m_live : list nat;                           (* calls that have not returned *)
  m_lastsync : list (wref * Z);                (* when each worker's latest Synchronize call returned *)
  m_reissue : list (wref * (list nat * nat));   (* per worker: the task it holds and how often it has re-requested it since the assignment *)
  m_terms : list (nat * list (wref * list nat)) }. (* TerminateWorkers calls: the (worker, task) pairs each waits for *)
#[export] Instance eta_mon : Settable _ := settable! mkMon <m_streams; m_syncs; m_supplied; m_learners; m_live; m_lastsync; m_reissue; m_terms>.
Definition mon0 : mon := mkMon [] [] [] [] [] [] [] [].

(* ---- helpers on dumps -------------------------------------------------------------- *)
Definition all_scqs (d : dump) : list (pkey * d_scq) :=
  flat_map (fun p => map (fun q => (dp_key p, q)) (dp_scqs p)) (d_pqs d).
Definition find_scq (d : dump) (k : skey) : option d_scq :=
  match find (fun '(pk, q) => pkey_eqb pk (sk_pk k) && (ds_sc q =? sk_sc k)%N) (all_scqs d) with
  | Some (_, q) => Some q
  | None => None
  end.
Definition find_dworker (d : dump) (k : skey) (w : N * N) : option d_worker :=
  match find_scq d k with
  | Some q => find (fun x => nn_eqb (dw_id x) w) (ds_workers q)
  | None => None
  end.
Definition find_dop (d : dump) (o : nat) : option d_op := find (fun x => Nat.eqb (do_name x) o) (d_ops d).
Definition find_dinv (q : d_scq) (p : path) : option d_inv := find (fun i => path_eqb (di_path i) p) (ds_invs q).
Definition dkey_of (o : d_op) : list N * N := (do_instance o, do_digest o).
(* operation names are never reused and an operation belongs to one task for ever, while the set of operations of a
   task changes as duplicates attach and abandoned ones are removed: two operation lists name the same task iff they
   share an operation *)
Definition shares_op (a b : list nat) : bool := existsb (fun o => existsb (Nat.eqb o) a) b.
Definition same_task (a b : d_op) : bool := same_set Nat.eqb (do_taskops a) (do_taskops b).
Definition is_drained_d (q : d_scq) (w : d_worker) (k : skey) : bool :=
  dw_term w || existsb (matches (mkW k (fst (dw_id w)) (snd (dw_id w)))) (ds_drains q).

(* ---- C01: every task is held by exactly one queue or one worker ---------------------- *)
Definition c01_op (d : dump) (o : d_op) : string :=
  match do_resp o with
  | Some _ => if do_queued o then "C01:completed-still-queued"
              else match do_worker o with Some _ => "C01:completed-still-assigned" | None => "" end
  | None =>
    match do_worker o with
    | Some w =>
      if do_queued o then "C01:queued-and-assigned" else
      match find_dworker d (do_sk o) w with
      | Some x => match dw_task x with
                  | Some ops => if same_set Nat.eqb ops (do_taskops o) then "" else "C01:worker-runs-another-task"
                  | None => "C01:assigned-worker-has-no-task"
                  end
      | None => "C01:assigned-to-unknown-worker"
      end
    | None =>
      if negb (do_queued o) then "C01:neither-queued-nor-assigned" else
      match find_scq d (do_sk o) with
      | Some q => match find_dinv q (do_path o) with
                  | Some i => if existsb (Nat.eqb (do_name o)) (di_qops i) then "" else "C01:queued-op-not-in-queue"
                  | None => "C01:queued-op-invocation-missing"
                  end
      | None => "C01:queued-in-unknown-queue"
      end
    end
  end.

Fixpoint first_nonempty (l : list string) : string :=
  match l with
  | [] => ""
  | EmptyString :: tl => first_nonempty tl
  | s :: _ => s
  end.

Definition c01_tasks_uniform (d : dump) : string :=
  first_nonempty (map (fun a =>
    if forallb (fun b => negb (existsb (Nat.eqb (do_name b)) (do_taskops a))
                         || (opt_eqb nn_eqb (do_worker a) (do_worker b) && (do_stage a =? do_stage b)%N
                             && skey_eqb (do_sk a) (do_sk b) && same_task a b)) (d_ops d)
    then "" else "C01:operations-of-one-task-disagree") (d_ops d)).

Definition c01_workers (d : dump) : string :=
  first_nonempty (map (fun '(pk, q) =>
    first_nonempty (map (fun w =>
      match dw_task w with
      | None => ""
      | Some ops =>
        if forallb (fun o => match find_dop d o with
                             | Some x => opt_eqb nn_eqb (do_worker x) (Some (dw_id w)) && skey_eqb (do_sk x) (mkSK pk (ds_sc q))
                                         && match do_resp x with None => true | Some _ => false end
                             | None => false
                             end) ops && negb (Nat.eqb (List.length ops) 0)
        then "" else "C01:worker-task-mismatch"
      end) (ds_workers q))) (all_scqs d)).

Fixpoint nodup_nat (l : list nat) : bool :=
  match l with
  | [] => true
  | x :: tl => negb (existsb (Nat.eqb x) tl) && nodup_nat tl
  end.

(* every queue entry refers to a registered, queued operation of that queue; no operation twice *)
Definition c01_queues (d : dump) : string :=
  let entries := flat_map (fun '(pk, q) => flat_map (fun i => map (fun o => (mkSK pk (ds_sc q), di_path i, o)) (di_qops i)) (ds_invs q)) (all_scqs d) in
  if negb (forallb (fun '(k, p, o) => match find_dop d o with
                                      | Some x => do_queued x && skey_eqb (do_sk x) k && path_eqb (do_path x) p
                                      | None => false
                                      end) entries) then "C01:stale-queue-entry"
  else if negb (nodup_nat (map snd entries)) then "C01:operation-queued-twice"
  else "".

Definition c01_dump (d : dump) : string :=
  if negb (Nat.eqb (Nat.modulo (d_errors d) 1000) 0) then "C01:structure"
  else first_nonempty (map (c01_op d) (d_ops d) ++ [c01_tasks_uniform d; c01_workers d; c01_queues d]).

(* a Synchronize response only tells a worker to execute its currently assigned, uncompleted task *)
Definition c01_sync (post : dump) (w : wref) (x : desired) : string :=
  match x with
  | DExec dg dnc tm qts sfx =>
    match find_dworker post (w_sk w) (wid w) with
    | Some k =>
      match dw_task k with
      | Some (o :: _) =>
        match find_dop post o with
        | Some y =>
          if negb ((do_digest y =? dg)%N) then "C01:told-to-run-unassigned-task"
          else match do_resp y with
               | Some _ => "C01:told-to-run-completed-task"
               | None => if opt_eqb (fun a b => Bool.eqb (fst a) (fst b) && (snd a =? snd b)) (do_action y) (Some (dnc, tm))
                            && (do_qts y =? qts) && list_eqb N.eqb (do_suffix y) sfx
                         then "" else "C01:desired-state-differs-from-task"
               end
        | None => "C01:told-to-run-unknown-task"
        end
      | _ => "C01:told-to-run-without-assignment"
      end
    | None => "C01:response-to-unknown-worker"
    end
  | _ => ""
  end.

(* ---- C03: in-flight deduplication ---------------------------------------------------- *)
Definition live_cacheable (o : d_op) : bool :=
  match do_resp o, do_action o with
  | None, Some (false, _) => true
  | _, _ => false
  end.
Definition c03_dump (d : dump) : string :=
  first_nonempty (map (fun o =>
    if live_cacheable o then
      (* registered under its digest, and the entry is this very task *)
      match find (fun '(k, _) => dkey_eqb k (dkey_of o)) (d_inflight d) with
      | Some (_, first) => if existsb (Nat.eqb first) (do_taskops o) then "" else "C03:in-flight-entry-names-another-task"
      | None => "C03:live-cacheable-task-not-in-flight-map"
      end
    else "") (d_ops d)
  ++ map (fun o =>
    if live_cacheable o && existsb (fun o' => live_cacheable o' && dkey_eqb (dkey_of o) (dkey_of o') && negb (same_task o o')) (d_ops d)
    then "C03:two-live-tasks-for-one-digest" else "") (d_ops d)).

(* a client leaving does not disturb the others: an operation that a client
   is waiting on has no abandonment (no-waiter) timeout pending *)
Definition c03_waited (d : dump) : string :=
  first_nonempty (map (fun o =>
    if negb (Nat.eqb (do_waiters o) 0) && match do_cleanup o with Some _ => true | None => false end
    then "C03:operation-with-waiter-keeps-abandonment-timeout" else "") (d_ops d)).

(* do_not_cache requests are never merged: the operation created for one stands alone *)
Definition c03_exec (pre post : dump) (a : exec_args) : string :=
  if x_dnc a then
    match filter (fun o => negb (existsb (fun o' => Nat.eqb (do_name o) (do_name o')) (d_ops pre))
                           && dkey_eqb (dkey_of o) (x_instance a, x_digest a)
                           && match do_action o with Some (true, _) => negb (do_mayexist o) | _ => false end) (d_ops post) with
    | o :: _ => if Nat.eqb (List.length (do_taskops o)) 1 then "" else "C03:do-not-cache-request-merged"
    | [] => ""
    end
  else "".

(* ---- C04 (state part): no task queued while an undrained worker of its queue waits;
   the hook found every invocation heap in heap order (d_errors counts 1000 per
   heap-order violation: a key changed without the heap being fixed) ----- *)
Definition c04_dump (d : dump) : string :=
  if negb (Nat.eqb (Nat.div (d_errors d) 1000) 0) then "C04:heap-order-violated" else
  first_nonempty (map (fun '(pk, q) =>
    let k := mkSK pk (ds_sc q) in
    if existsb (fun i => negb (Nat.eqb (List.length (di_qops i)) 0)) (ds_invs q)
       && existsb (fun w => dw_wait w && negb (is_drained_d q w k)) (ds_workers q)
    then "C04:task-queued-while-worker-waits" else "") (all_scqs d)).

(* ---- C05: routing ------------------------------------------------------------------------ *)
Definition longest_prefix_d (d : dump) (plat : N) (inst : list N) : option d_pq :=
  fold_left (fun best p =>
    if (pk_plat (dp_key p) =? plat)%N && is_prefix (pk_prefix (dp_key p)) inst then
      match best with
      | Some b => if Nat.ltb (List.length (pk_prefix (dp_key b))) (List.length (pk_prefix (dp_key p))) then Some p else best
      | None => Some p
      end
    else best) (d_pqs d) None.

Definition new_ops (pre post : dump) : list d_op :=
  filter (fun o => negb (existsb (fun o' => Nat.eqb (do_name o) (do_name o')) (d_ops pre))) (d_ops post).

Definition c05_exec (cfg : config) (t0 : Z) (pre post : dump) (c : nat) (a : exec_args) (o : list obs) : string :=
  let created := filter (fun x => negb (do_mayexist x)) (new_ops pre post) in
  let deduplicated := existsb (fun x => dkey_eqb (dkey_of x) (x_instance a, x_digest a)
                                     && negb (Nat.eqb (List.length (do_taskops x)) 1)) created
                      || (existsb (fun '(k, _) => dkey_eqb k (x_instance a, x_digest a)) (d_inflight pre)
                          && match created with [] => true | _ => false end) in
  if deduplicated then "" else
  match longest_prefix_d post (x_plat a) (x_instance a) with
  | None =>
    (* no queue: rejected, nothing created *)
    match created with
    | _ :: _ => "C05:queued-without-matching-platform-queue"
    | [] =>
      let want := if d_now post <? t0 + cf_pq_noworkers cfg then cUNAVAILABLE else cFAILEDPRE in
      if existsb (fun x => match x with ORet c' code => Nat.eqb c c' && (code =? want)%N | _ => false end) o
      then "" else "C05:wrong-rejection-code"
    end
  | Some p =>
    match created with
    | x :: _ =>
      let '(idx, _, _, _) := x_sel a in
      if negb (pkey_eqb (sk_pk (do_sk x)) (dp_key p)) then "C05:not-longest-prefix-queue"
      else if negb ((sk_sc (do_sk x) =? nth idx (dp_scs p) 0)%N) then "C05:wrong-size-class"
      else if negb (list_eqb N.eqb (do_suffix x) (drop_prefix (pk_prefix (dp_key p)) (x_instance a))) then "C05:wrong-instance-name-suffix"
      else ""
    | [] => ""
    end
  end.

(* a worker that is drained or terminating in the pre-state receives no new task *)
Definition c05_assign (pre post : dump) : string :=
  first_nonempty (map (fun '(pk, q) =>
    let k := mkSK pk (ds_sc q) in
    first_nonempty (map (fun w =>
      match dw_task w, find_scq pre k with
      | Some ops, Some q0 =>
        match find (fun x => nn_eqb (dw_id x) (dw_id w)) (ds_workers q0) with
        | Some w0 =>
          let had := match dw_task w0 with Some ops0 => same_set Nat.eqb ops0 ops || existsb (fun o => existsb (Nat.eqb o) ops0) ops | None => false end in
          (* a worker whose timeout lapsed within this event was removed and
             registered anew: the old record says nothing about the new one *)
          let expired := match dw_cleanup w0 with Some t => t <=? d_now post | None => false end in
          if negb had && negb expired && is_drained_d q0 w0 k then "C05:drained-worker-received-task" else ""
        | None => ""
        end
      | _, _ => ""
      end) (ds_workers q))) (all_scqs post)).

(* ---- C06: everything unattended has a timeout armed ------------------------------------------ *)
Definition c06_dump (m : mon) (d : dump) : string :=
  first_nonempty (
    map (fun o => if Nat.eqb (do_waiters o) 0 && negb (do_mayexist o)
                     && match do_cleanup o with None => true | Some _ => false end
                  then "C06:operation-without-waiters-has-no-timeout" else "") (d_ops d)
    ++ flat_map (fun '(pk, q) =>
         (if ds_removable q && Nat.eqb (List.length (ds_workers q)) 0
             && match ds_cleanup q with None => true | Some _ => false end
          then ["C06:workerless-queue-has-no-timeout"] else [])
         ++ (if negb (Nat.eqb (List.length (ds_workers q)) 0)
                && match ds_cleanup q with Some _ => true | None => false end
             then ["C06:queue-removal-armed-while-it-has-workers"] else [])
         ++ map (fun w =>
              match dw_cleanup w with
              | Some _ => ""
              | None => if existsb (fun '(_, w') => wref_eqb w' (mkW (mkSK pk (ds_sc q)) (fst (dw_id w)) (snd (dw_id w)))) (m_syncs m)
                        then "" else "C06:worker-without-synchronize-call-has-no-timeout"
              end) (ds_workers q)
         ++ map (fun i =>
              match di_path i with
              | [] => ""
              | _ => if Nat.eqb (List.length (di_qops i)) 0 && Nat.eqb (List.length (di_exec i)) 0
                        && (di_idle i =? 0)%N && Nat.eqb (List.length (di_qchildren i)) 0
                     then "C06:empty-invocation-retained" else ""
              end) (ds_invs q)) (all_scqs d)).

(* after everybody left and no timeout is pending, nothing created on their behalf remains *)
Definition c06_final (m : mon) (d : dump) : string :=
  let pending := existsb (fun o => match do_cleanup o with Some _ => true | None => false end) (d_ops d)
                 || existsb (fun '(_, q) => match ds_cleanup q with Some _ => true | None => false end
                                            || existsb (fun w => match dw_cleanup w with Some _ => true | None => false end) (ds_workers q))
                            (all_scqs d) in
  if negb (Nat.eqb (List.length (m_live m)) 0) || pending then "" else
  if existsb (fun o => negb (do_mayexist o)) (d_ops d) then "C06:operation-leaked"
  else if existsb (fun '(_, q) => negb (Nat.eqb (List.length (ds_workers q)) 0)) (all_scqs d) then "C06:worker-leaked"
  else if existsb (fun '(_, q) => ds_removable q) (all_scqs d) then "C06:dynamic-queue-leaked"
  else "".

(* ---- C07 (scheduler part): selector / learner protocol, background learning ------------------- *)
Definition is_ghost (o : obs) : bool := match o with OGhost _ => true | _ => false end.
Definition c07_exec (o : list obs) : string :=
  let n := List.length (filter (fun x => match x with OGhost GSelect | OGhost GSelAbandoned => true | _ => false end) o) in
  if Nat.eqb n 1 then "" else "C07:selector-not-called-exactly-once".

Definition learner_eqb_id (a : N) (x : N * learner) : bool := (a =? fst x)%N.
Definition remove_learner (l : N) (ls : list (N * learner)) := filter (fun x => negb (learner_eqb_id l x)) ls.

(* fold the ghost calls of one event over the set of learners owed a terminal call *)
Definition c07_ghost (acc : list (N * learner) * string) (o : obs) : list (N * learner) * string :=
  let '(ls, err) := acc in
  match o with
  | OGhost (GSucceeded l) =>
    match find (learner_eqb_id l) ls with
    | Some (_, x) => (match l_succ x with Some (_, _, _, b) => (l_id b, b) :: remove_learner l ls | None => remove_learner l ls end, err)
    | None => (ls, if String.eqb err "" then "C07:terminal-call-on-finished-learner" else err)
    end
  | OGhost (GFailed l _) =>
    match find (learner_eqb_id l) ls with
    | Some (_, x) => (match l_fail x with Some (_, _, b) => (l_id b, b) :: remove_learner l ls | None => remove_learner l ls end, err)
    | None => (ls, if String.eqb err "" then "C07:terminal-call-on-finished-learner" else err)
    end
  | OGhost (GAbandoned l) =>
    match find (learner_eqb_id l) ls with
    | Some _ => (remove_learner l ls, err)
    | None => (ls, if String.eqb err "" then "C07:terminal-call-on-finished-learner" else err)
    end
  | _ => acc
  end.

(* ---- C05: a retry after a failure runs on the largest size class --------------------------------------- *)
(* a worker's completion report is accepted and the task's learner (the one the ghost observation names) asks for a
   retry: every operation of that task that is still in flight now belongs to the largest size class of its platform queue *)
Definition c05_retry (ls : list (N * learner)) (pre post : dump) (e : event) (o : list obs) : string :=
  match e with
  | EStartSync _ a _ =>
    match y_state a, find_dworker pre (w_sk (y_worker a)) (wid (y_worker a)) with
    | WCompleted _ _, Some k =>
      match dw_task k with
      | Some ops =>
        let asked := existsb (fun x => match x with
                                       | OGhost (GFailed l _) =>
                                         match find (learner_eqb_id l) ls with
                                         | Some (_, y) => match l_fail y with Some _ => true | None => false end
                                         | None => false
                                         end
                                       | _ => false
                                       end) o in
        if asked then
          first_nonempty (map (fun x =>
            if existsb (Nat.eqb (do_name x)) ops && match do_resp x with None => true | Some _ => false end then
              match find (fun p => pkey_eqb (dp_key p) (sk_pk (do_sk x))) (d_pqs post) with
              | Some p => if (sk_sc (do_sk x) =? last (dp_scs p) 0)%N then "" else "C05:retry-not-on-largest-size-class"
              | None => ""
              end
            else "") (d_ops post))
        else ""
      | None => ""
      end
    | _, _ => ""
    end
  | _ => ""
  end.

Definition c07_background (d : dump) : string :=
  first_nonempty (
    map (fun o => if do_mayexist o && negb (match do_action o with Some (true, _) => true | _ => false end)
                  then "C07:background-learning-task-cacheable" else "") (d_ops d)
    ++ flat_map (fun p => map (fun q =>
         match find_dinv q [4294967295%N] with
         | Some i => if Nat.ltb (dp_maxbg p) (List.length (di_qops i)) then "C07:background-backlog-exceeds-maximum" else ""
         | None => ""
         end) (dp_scqs p)) (d_pqs d)).

(* number of learners owed a call = number of live tasks holding one *)
Definition c07_learners_match (m : mon) (d : dump) : string :=
  let tasks_with := filter (fun o => do_has_learner o && Nat.eqb (do_name o) (fold_left Nat.min (do_taskops o) (do_name o))) (d_ops d) in
  if Nat.eqb (List.length (m_learners m)) (List.length tasks_with) then "" else "C07:learner-without-terminal-call".

(* ---- C02: streams ------------------------------------------------------------------------------ *)
Definition upd_stream (c : nat) (f : stream_mon -> stream_mon) (m : mon) : mon :=
  m <| m_streams := map (fun s => if Nat.eqb (sm_call s) c then f s else s) (m_streams m) |>.
Definition get_stream (m : mon) (c : nat) : option stream_mon := find (fun s => Nat.eqb (sm_call s) c) (m_streams m).

Definition scheduler_made (r : resp) : bool :=
  (r_tag r =? 0)%N.

(* ---- C06: TerminateWorkers ------------------------------------------------------------------------ *)
(* the workers a TerminateWorkers call with pattern [p] waits for: those it matches that hold a task *)
Definition term_waits (p : pattern) (d : dump) : list (wref * list nat) :=
  flat_map (fun '(pk, q) =>
    flat_map (fun k => let w := mkW (mkSK pk (ds_sc q)) (fst (dw_id k)) (snd (dw_id k)) in
                       match dw_task k with
                       | Some ops => if matches w p then [(w, ops)] else []
                       | None => []
                       end) (ds_workers q)) (all_scqs d).
(* the task keeps its identity while its operation set changes: follow it *)
Definition term_track (d : dump) (x : wref * list nat) : wref * list nat :=
  match find_dworker d (w_sk (fst x)) (wid (fst x)) with
  | Some k => match dw_task k with
              | Some ops' => if shares_op (snd x) ops' then (fst x, ops') else x
              | None => x
              end
  | None => x
  end.
(* the wait is over once the worker no longer executes that task *)
Definition term_over (d : dump) (x : wref * list nat) : bool :=
  match find_dworker d (w_sk (fst x)) (wid (fst x)) with
  | Some k => match dw_task k with
              | Some ops' => negb (shares_op (snd x) ops')
                             || negb (existsb (fun o => existsb (Nat.eqb (do_name o)) ops'
                                                        && match do_resp o with None => true | Some _ => false end) (d_ops d))
              | None => true
              end
  | None => true
  end.

Definition c02_obs (post : dump) (acc : mon * string) (o : obs) : mon * string :=
  let '(m, err) := acc in
  let fail (e : string) := (m, if String.eqb err "" then e else err) in
  match o with
  | OMsg c name stage done =>
    match get_stream m c with
    | None => fail "C02:message-on-unknown-stream"
    | Some s =>
      if sm_done s then fail "C02:message-after-done" else
      let e1 := if (stage <? sm_stage s)%N && negb ((sm_stage s =? 3)%N && (stage =? 2)%N)
                then "C02:stage-went-backwards" else "" in
      let e2 := match done with
                | Some r =>
                  if negb (stage =? 4)%N then "C02:done-without-completed-stage" else
                  match find_dop post name with
                  | Some x => if opt_eqb resp_eqb (do_resp x) (Some r) then
                                (if scheduler_made r
                                 then (if existsb (N.eqb (r_code r)) [cUNAVAILABLE; cCANCELLED; cINTERNAL; 8%N; 10%N; 0%N] then "" else "C02:scheduler-made-unknown-cause")
                                 else (if existsb (fun '(dg, r') => (dg =? do_digest x)%N && resp_eqb r r') (m_supplied m)
                                       then "" else "C02:response-not-supplied-by-a-worker"))
                              else "C02:done-differs-from-recorded-response"
                  | None => ""   (* operation already collected *)
                  end
                | None => if (stage =? 4)%N then "C02:completed-without-done"
                          else match find_dop post name with
                               | Some _ => ""
                               | None => "C02:progress-message-for-unregistered-operation"
                               end
                end in
      let m' := upd_stream c (fun s => s <| sm_stage := stage |> <| sm_done := match done with Some _ => true | None => false end |>) m in
      (m', if String.eqb err "" then first_nonempty [e1; e2] else err)
    end
  | ORet c code =>
    match get_stream m c with
    | Some s =>
      let e := if (code =? 0)%N && negb (sm_done s) then "C02:stream-ended-ok-without-done"
               else if negb (code =? 0)%N && sm_done s && negb (sm_cancelled s) then "C02:error-after-done"
               else if negb (code =? 0)%N && negb (sm_cancelled s) && negb (sm_done s)
                       && negb (existsb (N.eqb code) [cNOTFOUND; cUNAVAILABLE; cFAILEDPRE])
               then "C02:uncancelled-stream-ended-without-done" else "" in
      (m <| m_live ::= remove_nat c |>, if String.eqb err "" then e else err)
    | None => (m <| m_live ::= remove_nat c |> <| m_syncs ::= filter (fun '(c', _) => negb (Nat.eqb c c')) |>, err)
    end
  | OSync c _ _ =>
    let m := match find (fun '(c', _) => Nat.eqb c c') (m_syncs m) with
             | Some (_, w) => m <| m_lastsync := aset wref_eqb w (d_now post) (m_lastsync m) |>
             | None => m
             end in
    (m <| m_live ::= remove_nat c |> <| m_syncs ::= filter (fun '(c', _) => negb (Nat.eqb c c')) |>, err)
  | _ => acc
  end.

(* ---- the per-event predicate --------------------------------------------------------------------- *)
Definition mon_event (e : event) (m : mon) : mon :=
  match e with
  | EStartExecute c a _ =>
    let '(_, _, _, l) := x_sel a in
    m <| m_streams ::= cons (mkSM c 0 false false) |> <| m_live ::= cons c |>
  | EStartWait c _ _ => m <| m_streams ::= cons (mkSM c 0 false false) |> <| m_live ::= cons c |>
  | EStartSync c a _ =>
    let m := m <| m_syncs ::= cons (c, y_worker a) |> <| m_live ::= cons c |> in
    match y_state a with
    | WCompleted dg r => m <| m_supplied ::= cons (dg, r) |>
    | _ => m
    end
  | EStartKill c _ _ _ | EKillQueue c _ _ _ | EAddDrain c _ _ _ | ERemoveDrain c _ _ _
  | EStartTerminate c _ _ | ERegister c _ _ _ _ _ _ | ETick c _ => m <| m_live ::= cons c |>
  | ECancel c => upd_stream c (fun s => s <| sm_cancelled := true |>) m
  | _ => m
  end.

(* [sel] decides what is reported of the components: the first complaint ([p_step], the predicate of the theorems) or all
   of them ([p_step_all], used by Corr.v so that a complaint of one property does not hide another property's) *)
Definition p_gen {A : Type} (sel : list string -> A) (cfg : config) (t0 : Z) (m : mon) (pre : dump) (e : event) (o : list obs) (post : dump) : mon * A :=
  let m0 := m in
  let m := mon_event e m in
  (* learners: a Select hands out the scripted learner *)
  let m := match e with
           | EStartExecute _ a _ =>
             if existsb (fun x => match x with OGhost GSelect => true | _ => false end) o
             then let '(_, _, _, l) := x_sel a in m <| m_learners ::= cons (l_id l, l) |> else m
           | _ => m
           end in
  let e_retry_sc := c05_retry (m_learners m) pre post e o in
  let '(ls, e_learn) := fold_left c07_ghost o (m_learners m, ""%string) in
  let m := m <| m_learners := ls |> in
  (* C02: a stream its client did not cancel is a waiting client: the operation it is attached to is not collected under
     it, so a done message for an operation that is gone cannot state "cancelled for lack of waiting clients" *)
  let e_gone := first_nonempty (map (fun x =>
                  match x with
                  | OMsg c name _ (Some r) =>
                    match get_stream m c, find_dop post name with
                    | Some s, None => if scheduler_made r && (r_code r =? cCANCELLED)%N && negb (sm_cancelled s) && negb (sm_done s)
                                      then "C02:cancelled-for-lack-of-waiters-while-a-client-waited" else ""
                    | _, _ => ""
                    end
                  | _ => ""
                  end) o) in
  let '(m, e_stream) := fold_left (c02_obs post) o (m, ""%string) in
  let e_sync := first_nonempty (map (fun x =>
                  match x with
                  | OSync c dsr _ =>
                    match e with
                    | EStartSync c' a _ => if Nat.eqb c c' then c01_sync post (y_worker a) dsr else ""
                    | _ => match find (fun '(c', _) => Nat.eqb c c') (m_syncs (mon_event e m)) with
                           | _ => ""
                           end
                    end
                  | _ => ""
                  end) o) in
  (* C06: timeouts are measured from the moment the party was last heard of *)
  let syncs_before := m_syncs (mon_event e m0) in
  let e_arm := first_nonempty (map (fun x =>
                 match x with
                 | OSync c _ _ =>
                   match find (fun '(c', _) => Nat.eqb c c') syncs_before with
                   | Some (_, w) =>
                     match find_dworker post (w_sk w) (wid w) with
                     | Some k => if optz_eqb (dw_cleanup k) (Some (d_now post + cf_worker_timeout cfg)) then ""
                                 else "C06:worker-timeout-not-measured-from-last-synchronize"
                     | None => "C06:synchronized-worker-not-registered"
                     end
                   | None => ""
                   end
                 | ORet c _ =>
                   match find (fun s => Nat.eqb (sm_call s) c) (m_streams m) with
                   | Some _ =>
                     first_nonempty (map (fun o =>
                       if Nat.eqb (do_waiters o) 0 && negb (do_mayexist o)
                          && match find_dop pre (do_name o) with
                             | Some o0 => negb (Nat.eqb (do_waiters o0) 0)
                             | None => false
                             end
                       then (if optz_eqb (do_cleanup o) (Some (d_now post + cf_nowaiters cfg)) then ""
                             else "C06:no-waiter-timeout-not-measured-from-last-waiter")
                       else "") (d_ops post))
                   | None => ""
                   end
                 | _ => ""
                 end) o) in
  (* C02: "worker disappeared" is only a stated cause if the worker really was silent for the worker timeout *)
  let e_lost := first_nonempty (map (fun o =>
                  match do_resp o, find_dop pre (do_name o) with
                  | Some r, Some o0 =>
                    match do_resp o0, do_worker o0 with
                    | None, Some wk =>
                      if scheduler_made r && (r_code r =? cUNAVAILABLE)%N then
                        let w := mkW (do_sk o0) (fst wk) (snd wk) in
                        match aget wref_eqb w (m_lastsync m0) with
                        | Some t => if existsb (fun '(_, w') => wref_eqb w w') (m_syncs m0) || (d_now post <? t + cf_worker_timeout cfg)
                                    then "C02:worker-declared-lost-before-its-timeout" else ""
                        | None => ""
                        end
                      else ""
                    | _, _ => ""
                    end
                  | _, _ => ""
                  end) (d_ops post)) in
  (* C02: "no waiting clients" is only a stated cause if nobody was waiting on the task's last operation *)
  let is_kill := match e with
                 | EStartKill _ _ _ _ | EKillQueue _ _ _ _ => true
                 | EEnter c _ => negb (existsb (fun s => Nat.eqb (sm_call s) c) (m_streams m0))
                                 && negb (existsb (fun '(c', _) => Nat.eqb c c') (m_syncs m0))
                 | _ => false
                 end in
  let e_cancel := if is_kill then "" else first_nonempty (map (fun o =>
                  match do_resp o, find_dop pre (do_name o) with
                  | Some r, Some o0 =>
                    match do_resp o0 with
                    | None => if scheduler_made r && (r_code r =? cCANCELLED)%N && negb (Nat.eqb (do_waiters o0) 0)
                              then "C02:cancelled-for-lack-of-waiters-while-a-client-waited" else ""
                    | Some _ => ""
                    end
                  | _, _ => ""
                  end) (d_ops post)) in
  (* a panic inside the scheduler (its "impossible state" assertions) or a wedged scheduler *)
  let e_panic := first_nonempty (map (fun x =>
                   match x with
                   | OPanic what => if String.eqb what "hang" then "C06:calls-blocked-forever" else "C01:scheduler-panicked"
                   | _ => ""
                   end) o) in
  (* C06: a task its worker keeps re-requesting is failed after the configured number of retries.  A re-request is a new
     Synchronize call of a worker that holds a task (pre dump) and does not report that task (idle, or another digest).
     The first cf_retry_count re-requests since the assignment are answered by telling the worker again; the next one
     fails the task with INTERNAL.  [rereq]: the worker, the operations of its task, the re-requests before this one. *)
  (* a completion report the scheduler accepts (it names the task the worker holds) ends that assignment: whatever the
     worker is told next is a fresh assignment (retryCount = 0), also when a retry on the same size class hands it the
     very same task *)
  let m := match e with
           | EStartSync _ a _ =>
             match y_state a, find_dworker pre (w_sk (y_worker a)) (wid (y_worker a)) with
             | WCompleted d _, Some k =>
               match dw_task k with
               | Some ops0 =>
                 if existsb (fun o => existsb (Nat.eqb (do_name o)) ops0 && (do_digest o =? d)%N) (d_ops pre)
                 then m <| m_reissue := adel wref_eqb (y_worker a) (m_reissue m) |> else m
               | None => m
               end
             | _, _ => m
             end
           | _ => m
           end in
  let rereq : option (wref * list nat * nat) :=
    match e with
    | EStartSync _ a _ =>
      let w := y_worker a in
      match find_dworker pre (w_sk w) (wid w) with
      | Some k =>
        match dw_task k with
        | Some ops =>
          let names_task (d : N) := existsb (fun o => existsb (Nat.eqb (do_name o)) ops && (do_digest o =? d)%N) (d_ops pre) in
          let correct := match y_state a with
                         | WExecuting d => names_task d
                         | WCompleted d _ => names_task d
                         | WIdle => false
                         | WNoState => true
                         end in
          if correct then None
          else Some (w, ops, match aget wref_eqb w (m_reissue m) with
                             | Some (ops0, n0) => if shares_op ops0 ops then n0 else O
                             | None => O
                             end)
        | None => None
        end
      | None => None
      end
    | _ => None
    end in
  let '(m, e_retry) :=
    match rereq, e with
    | Some (w, ops, n), EStartSync c _ _ =>
      let told := existsb (fun x => match x with OSync c' (DExec _ _ _ _ _) _ => Nat.eqb c c' | _ => false end) o in
      match find_dworker post (w_sk w) (wid w) with
      | Some k =>
        match dw_task k with
        | Some ops' =>
          if told && shares_op ops ops'
          then (m <| m_reissue := aset wref_eqb w (ops', S n) (m_reissue m) |>,
                if Nat.leb (cf_retry_count cfg) n then "C06:task-reissued-beyond-retry-limit" else ""%string)
          else (m, ""%string)
        | None => (m, ""%string)
        end
      | None => (m, ""%string)
      end
    | _, _ => (m, ""%string)
    end in
  (* the task keeps its identity while its operation set changes (duplicates attach, abandoned operations are
     collected): follow every entry through the post dump; an entry whose worker no longer holds the task is dropped *)
  let m := m <| m_reissue := flat_map (fun '(w, (ops0, n)) =>
                               match find_dworker post (w_sk w) (wid w) with
                               | Some k => match dw_task k with
                                           | Some ops' => if shares_op ops0 ops' then [(w, (ops', n))] else []
                                           | None => []
                                           end
                               | None => []
                               end) (m_reissue m) |> in
  (* C06/C02: "retry limit reached" is a stated cause only at the re-request after the configured number of them *)
  let e_early := first_nonempty (map (fun o1 =>
                  match do_resp o1, find_dop pre (do_name o1) with
                  | Some r, Some o0 =>
                    match do_resp o0 with
                    | None =>
                      if scheduler_made r && (r_code r =? cINTERNAL)%N then
                        match rereq with
                        | Some (_, ops, n) =>
                          if existsb (Nat.eqb (do_name o1)) ops && Nat.eqb n (cf_retry_count cfg) then ""
                          else "C06:task-failed-before-retry-limit"
                        | None => "C06:task-failed-before-retry-limit"
                        end
                      else ""
                    | Some _ => ""
                    end
                  | _, _ => ""
                  end) (d_ops post)) in
  (* C06: a TerminateWorkers call returns once none of the workers it waits for executes the task it held at the call *)
  let m := match e with
           | EStartTerminate c pat _ => m <| m_terms ::= cons (c, term_waits pat post) |>
           | _ => m
           end in
  let m := m <| m_terms := map (fun '(c, ws) => (c, map (term_track post) ws))
                               (filter (fun '(c, _) => existsb (Nat.eqb c) (m_live m)) (m_terms m)) |> in
  let e_term := first_nonempty (map (fun '(c, ws) => if forallb (term_over post) ws
                                                     then "C06:terminate-workers-not-woken" else ""%string) (m_terms m)) in
  let e_exec := match e with
                | EStartExecute c a _ => first_nonempty [c07_exec o; c03_exec pre post a; c05_exec cfg t0 pre post c a o]
                | _ => ""
                end in
  (m, sel [e_panic; c01_dump post; e_sync; e_stream; e_lost; e_cancel; c03_dump post; c03_waited post; c04_dump post; e_exec; c05_assign pre post;
                      c06_dump m post; c06_final m post; e_arm; e_retry; e_early; e_learn; c07_background post; c07_learners_match m post; e_gone; e_term; e_retry_sc]).

Definition p_step (cfg : config) (t0 : Z) (m : mon) (pre : dump) (e : event) (o : list obs) (post : dump) : mon * string :=
  p_gen first_nonempty cfg t0 m pre e o post.
Definition p_step_all (cfg : config) (t0 : Z) (m : mon) (pre : dump) (e : event) (o : list obs) (post : dump) : mon * list string :=
  p_gen (fun l => l) cfg t0 m pre e o post.

