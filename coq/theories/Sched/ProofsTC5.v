(* C04, tree consistency: the sections of Synchronize and Execute; runs. *)
From Coq Require Import Lia.
From VF Require Export Sched.ProofsTC4.
From VF Require Import Sched.ProofsLearner Sched.ProofsRoute Sched.ProofsPolicy Sched.ProofsInflight.
Open Scope Z_scope.

Ltac t_TR :=
  intros;
  match goal with H : TR _ |- _ =>
    let HKW := fresh "HKW" in let HID := fresh "HID" in let HEC := fresh "HEC" in
    let HQP := fresh "HQP" in let HNQ := fresh "HNQ" in destruct H as [HKW [HID [HEC [HQP HNQ]]]] end;
  split; [t_KW' | split; [t_IDs | split; [t_EC' | split; [t_QP' | t_NQ']]]].
Ltac tr_go := inv_go fail t_TR.

Lemma Pan_mono_out : forall s s', (forall x, In x (s_out s) -> In x (s_out s')) -> Pan s -> Pan s'.
Proof. intros s s' H [what Hw]. exists what. apply H. exact Hw. Qed.

(* ---- the returns of a Synchronize call ------------------------------------------------------------------------------------------------------------ *)
Lemma TC_sync_return_exec : forall c w s, Ctx c w s -> TC [] [] s -> TC [] [] (sync_return_exec c w s).
Proof.
  intros c w s HC H. apply TC_of; [apply (H_sync_return_exec c w); exact HC|]. apply TC_TR in H.
  unfold sync_return_exec, finish_sync. tr_go.
Qed.
Lemma TC_sync_return_idle : forall c w s, Ctx c w s -> TC [] [] s -> TC [] [] (sync_return_idle c w s).
Proof.
  intros c w s HC H. apply TC_of; [apply (H_sync_return_idle c w); exact HC|]. apply TC_TR in H.
  unfold sync_return_idle, finish_sync. tr_go.
Qed.
Lemma TC_sync_return_err : forall c w code s, Ctx c w s -> TC [] [] s -> TC [] [] (sync_return_err c w code s).
Proof.
  intros c w code s HC H. apply TC_of; [apply (H_sync_return_err c w); exact HC|]. apply TC_TR in H.
  unfold sync_return_err, finish_sync. tr_go.
Qed.
Lemma TC_sync_none : forall c w d z s, Ctx c w s -> TC [] [] s -> TC [] [] (finish_sync c w (emit (OSync c d z) s)).
Proof.
  intros c w d z s HC H. apply TC_of; [apply (H_sync_none c w); exact HC|]. apply TC_TR in H. unfold finish_sync. tr_go.
Qed.

(* ---- assignNextQueuedTask ---------------------------------------------------------------------------------------------------------------------------- *)
(* all invocations of a task one of whose operations is queued exist with their ancestors *)
Lemma AE_of_queued : forall s j o, X [] s -> CQ [] s -> QPs s -> NoDup (map fst (s_invs s)) ->
  In o (v_qops (get_inv s j)) ->
  forall i' o', In (i', o') (t_ops (get_task s (o_task (get_op s o)))) -> anc_exist s i'.
Proof.
  intros s j o HX HC HQ Hnd Hq i' o' Hin.
  destruct (XQ _ _ HX _ _ Hq) as [Ha Hi].
  assert (Hqd : queued s o) by (unfold queued; rewrite Hi; exact Hq).
  pose proof (XL _ _ HX o Ha (fun F => F) Hqd) as Hidle.
  destruct (XO2 _ _ HX _ i' o' (fun F => F) Hin) as [Ha' [Ht' Hi']].
  assert (Hq' : queued s o') by (apply HC; [exact Ha'|intros []|rewrite Ht'; exact Hidle]).
  unfold queued in Hq'. rewrite Hi' in Hq'.
  assert (Hex : inv_exists s i' = true).
  { unfold inv_exists. unfold get_inv in Hq'. destruct (aget iref_eqb i' (s_invs s)); [reflexivity|destruct Hq']. }
  apply (HQ i' (get_inv s i')); [apply inv_exists_in; exact Hex|]. intro E. rewrite E in Hq'. destruct Hq'.
Qed.

Lemma TC_assign_next : forall w s, FI s -> TC [] [] s ->
  Pan (fst (assign_next_queued_task w s)) \/ TC [] [] (fst (assign_next_queued_task w s)).
Proof.
  intros w s HFI H. unfold assign_next_queued_task. cbv zeta.
  destruct (pick_next s w _) as [[t r]|] eqn:Ep; cbn [fst]; [|right; exact H].
  destruct (NX_CM _ _ (FI_NX _ HFI)) as [Hp|[HCQ _]].
  { left. unfold assign_queued, assign_unqueued, report_non_final_stage_change. inv_go fail t_pan. }
  right. apply pick_next_in in Ep. apply next_candidates_policy in Ep. apply policy_queued in Ep. destruct Ep as [j [o [Hq Ht]]]. cbn [fst] in Ht.
  pose proof (XS_X _ _ (NX_XS _ _ (FI_NX _ HFI))) as HX. pose proof (SW_St _ (FI_SW _ HFI)) as [_ [_ [Hnd _]]].
  apply TC_assign_queued; [|exact H]. rewrite <- Ht. apply (AE_of_queued s j o HX HCQ (proj1 (proj2 (proj2 (proj2 (proj2 H))))) Hnd Hq).
Qed.

(* ---- parking ------------------------------------------------------------------------------------------------------------------------------------------- *)
Lemma TC_park : forall c w p s,
  Ctx c w s -> k_last (get_worker s w) = Some p -> is_queued s (mkI (w_sk w) []) = false ->
  TC [] [] s ->
  TC [] [] (set_call c (PSyncQueued w) (upd_inv (last_iref w p) (fun v => v <| v_isync ::= fun l => l ++ [w] |>) (upd_worker w (fun k => k <| k_wait := true |>) s))).
Proof.
  intros c w p s [HSW [Hex [Hcl [Hkw Hon]]]] Hl Hq H.
  apply TC_of; [apply SW_park_queued; assumption|].
  destruct H as [_ [HKW [HID [HEC [HQP HNQ]]]]].
  set (s1 := upd_worker w (fun k => k <| k_wait := true |>) s).
  set (s2 := upd_inv (last_iref w p) (fun v => v <| v_isync ::= fun l => l ++ [w] |>) s1).
  assert (Hinv : inv_exists s (last_iref w p) = true).
  { pose proof (cntw_ge_one s w p (last_iref w p) Hex Hl (in_chain_self _)) as Hc. specialize (HID (last_iref w p)). cbn [inb existsb] in HID.
    unfold inv_exists. unfold idle_at, get_inv in HID. destruct (aget iref_eqb (last_iref w p) (s_invs s)); [reflexivity|cbn in HID; lia]. }
  assert (Hgw : forall w', get_worker s1 w' = if wref_eqb w' w then (get_worker s w) <| k_wait := true |> else get_worker s w').
  { intro w'. unfold s1. rewrite get_worker_upd_worker, Hex, andb_true_r. reflexivity. }
  assert (H2 : TR s2).
  { assert (H1 : IDs [] s1 /\ EC [] s1 /\ QPs s1) by (unfold s1; split; [t_IDs|split; [t_EC|t_QP]]). destruct H1 as [HID1 [HEC1 HQP1]].
    split; [|split; [unfold s2; t_IDs|split; [unfold s2; t_EC|split; [unfold s2; t_QP|]]]].
    - intros w' He' Hw'. unfold s2 in He', Hw' |- *. rewrite (worker_exists_frame s1) in He' by apply scqs_upd_inv.
      rewrite (get_worker_frame' s1) in Hw' |- * by apply scqs_upd_inv. unfold s1 in He'. rewrite worker_exists_upd_worker in He'.
      rewrite Hgw in Hw' |- *.
      assert (Hgi : forall x, get_inv (upd_inv (last_iref w p) (fun v => v <| v_isync ::= fun l => l ++ [w] |>) s1) x
                    = if iref_eqb x (last_iref w p) then (get_inv s (last_iref w p)) <| v_isync ::= fun l => l ++ [w] |> else get_inv s x).
      { intro x. rewrite get_inv_upd_inv. rewrite (inv_exists_frame s) by (unfold s1; rewrite upd_worker_eq; reflexivity).
        rewrite Hinv, andb_true_r. rewrite !(get_inv_frame s s1) by (unfold s1; rewrite upd_worker_eq; reflexivity). reflexivity. }
      destruct (wref_eqb w' w) eqn:E.
      + apply wref_eqb_eq in E. subst w'. exists p. cbn [k_last set]. split; [exact Hl|]. rewrite Hgi, iref_eqb_refl. cbn. apply in_or_app. right. left. reflexivity.
      + destruct (HKW w' He' Hw') as [p' [A B]]. exists p'. split; [exact A|]. rewrite Hgi.
        destruct (iref_eqb (last_iref w' p') (last_iref w p)) eqn:E2; [|exact B].
        apply iref_eqb_eq in E2. rewrite E2 in B. cbn. apply in_or_app. left. exact B.
    - intros w' He' Hw'. unfold s2 in He', Hw'. rewrite (worker_exists_frame s1) in He' by apply scqs_upd_inv.
      rewrite (get_worker_frame' s1) in Hw' by apply scqs_upd_inv. unfold s1 in He'. rewrite worker_exists_upd_worker in He'. rewrite Hgw in Hw'.
      destruct (is_queued s2 (mkI (w_sk w') [])) eqn:E1; [|reflexivity]. exfalso.
      unfold s2 in E1. apply is_queued_upd_inv in E1; [|cbn; auto]. rewrite (is_queued_frame s) in E1 by (unfold s1; rewrite upd_worker_eq; reflexivity).
      destruct (wref_eqb w' w) eqn:E; [apply wref_eqb_eq in E; subst w'; congruence|rewrite (HNQ w' He' Hw') in E1; discriminate]. }
  destruct H2 as [A [B [C [D E]]]]. split; [t_KW|split; [t_IDs|split; [t_EC|split; [t_QP|t_NQ]]]].
Qed.

(* ---- the blocking loop ------------------------------------------------------------------------------------------------------------------------------- *)
Definition TCP (s : state) : Prop := Pan s \/ TC [] [] s.

Lemma Pan_sync_return_exec : forall c w s, Pan s -> Pan (sync_return_exec c w s).
Proof. intros c w s H. unfold sync_return_exec, finish_sync. inv_go fail t_pan. Qed.
Lemma Pan_sync_return_idle : forall c w s, Pan s -> Pan (sync_return_idle c w s).
Proof. intros c w s H. unfold sync_return_idle, finish_sync. inv_go fail t_pan. Qed.
Lemma Pan_sync_return_err : forall c w code s, Pan s -> Pan (sync_return_err c w code s).
Proof. intros c w code s H. unfold sync_return_err, finish_sync. inv_go fail t_pan. Qed.

Lemma TCP_sync_loop : forall c w s, FC c w s -> TC [] [] s -> TCP (sync_loop c w s).
Proof.
  intros c w s HF H. pose proof (proj1 HF) as HC. unfold sync_loop.
  destruct (is_drained s w).
  { right. destruct HC as [A [B [C [D E]]]]. apply TC_of; [apply (SW_setcall_sync s c _ w); auto|]. apply TC_TR in H. tr_go. }
  pose proof (FC_assign_next c w s HF) as HF1. pose proof (TC_assign_next w s (FC_FI _ _ _ HF) H) as H1.
  pose proof (assign_next_nothing_queued w s (proj1 (proj2 (proj2 (SW_St _ (Ctx_SW _ _ _ HC))))) (proj1 (proj2 (proj2 (proj2 (proj2 H))))) ) as Hnone.
  rewrite (surjective_pairing (assign_next_queued_task w s)). destruct (snd (assign_next_queued_task w s)).
  - destruct H1 as [Hp|H1]; [left; apply Pan_sync_return_exec; exact Hp|right; apply TC_sync_return_exec; [exact (proj1 HF1)|exact H1]].
  - cbv zeta. destruct (k_wait (get_worker s w)); [right; tc_go2|].
    destruct (k_last (get_worker s w)) as [p|] eqn:El; [|right; tc_go2].
    right. apply TC_park; [exact HC|exact El|apply Hnone; reflexivity|exact H].
Qed.

Lemma TCP_get_next_task : forall c w b pr s, FC c w s -> TC [] [] s -> TCP (get_next_task c w b pr s).
Proof.
  intros c w b pr s HF H. pose proof (proj1 HF) as HC. unfold get_next_task.
  destruct pr; [right; apply TC_sync_return_idle; assumption|]. cbv zeta.
  destruct (is_drained s w).
  - cbn [negb]. destruct (negb b); [right; apply TC_sync_return_idle; assumption|apply TCP_sync_loop; assumption].
  - pose proof (FC_assign_next c w s HF) as HF1. pose proof (TC_assign_next w s (FC_FI _ _ _ HF) H) as H1.
    rewrite (surjective_pairing (assign_next_queued_task w s)). destruct (snd (assign_next_queued_task w s)).
    + destruct H1 as [Hp|H1]; [left; apply Pan_sync_return_exec; exact Hp|right; apply TC_sync_return_exec; [exact (proj1 HF1)|exact H1]].
    + destruct (negb b); [right; apply TC_sync_return_idle; assumption|apply TCP_sync_loop; assumption].
Qed.

Lemma Pan_get_next_task : forall c w b pr s, Pan s -> Pan (get_next_task c w b pr s).
Proof. intros c w b pr s H. unfold get_next_task, sync_loop, assign_next_queued_task, sync_return_exec, sync_return_idle, finish_sync. inv_go fail t_pan. Qed.

Lemma TCP_get_current_or_next : forall c w b pr s, FC c w s -> TC [] [] s -> TCP (get_current_or_next c w b pr s).
Proof.
  intros c w b pr s HF H. unfold get_current_or_next.
  destruct (k_task (get_worker s w)) as [t|] eqn:Ek; [|apply TCP_get_next_task; assumption].
  pose proof (W_pick_worker _ _ _ (proj1 (proj2 HF)) Ek) as Ht.
  destruct (Nat.ltb _ _).
  - right. apply TC_sync_return_exec; [pose proof (proj1 HF) as HC; ctx_go|tc_go2].
  - apply TCP_get_next_task; [apply FC_complete_task_nb; [reflexivity|exact Ht|exact HF]|].
    apply TC_complete_task_nb; [exact (FI_G _ (FC_FI _ _ _ HF))|exact Ht|reflexivity|exact H].
Qed.

(* ---- a worker reports the completion of its task -------------------------------------------------------------------------------------------------- *)
Lemma common_prefix_prefix : forall a b, exists r, a = common_prefix a b ++ r.
Proof.
  induction a as [|x a IH]; intro b; [exists []; reflexivity|]. destruct b as [|y b]; [exists (x :: a); reflexivity|]. cbn.
  destruct (x =? y)%N; [|exists (x :: a); reflexivity]. destruct (IH b) as [r Hr]. exists r. cbn. rewrite <- Hr. reflexivity.
Qed.
Lemma lowest_common_prefix : forall i l, exists r, i_path i = lowest_common (i :: l) ++ r.
Proof.
  intros i l. cbn [lowest_common].
  assert (H : forall l p, exists r, p = fold_left (fun p j => common_prefix p (i_path j)) l p ++ r).
  { induction l0 as [|j l0 IH]; intro p; cbn [fold_left]; [exists []; rewrite app_nil_r; reflexivity|].
    destruct (IH (common_prefix p (i_path j))) as [r Hr]. destruct (common_prefix_prefix p (i_path j)) as [r' Hr'].
    exists (r ++ r'). rewrite app_assoc, <- Hr. exact Hr'. }
  apply H.
Qed.

Lemma executing_invs_exist : forall s t w i o, TC [] [] s -> t_worker (get_task s t) = Some w ->
  In (i, o) (t_ops (get_task s t)) -> anc_exist s i.
Proof.
  intros s t w i o H Hw Hin a Ha. destruct H as [_ [_ [_ [HEC _]]]]. specialize (HEC a t w (fun F => F) Hw).
  assert (Hc : (1 <= cnto a (t_ops (get_task s t)))%nat).
  { unfold cnto. rewrite flen_asum. pose proof (asum_in (fun x => if inb a (chain (fst x)) then 1%nat else 0%nat) i o _ Hin) as H1. cbv beta in H1. cbn [fst] in H1.
    assert (E : inb a (chain i) = true) by (apply inb_In; exact Ha). rewrite E in H1. exact H1. }
  unfold inv_exists. unfold ecount, get_inv in HEC. destruct (aget iref_eqb a (s_invs s)); [reflexivity|cbn in HEC; lia].
Qed.

Lemma TC_complete_by_worker : forall c w t r s,
  FC c w s -> k_task (get_worker s w) = Some t -> BG w r s -> TC [] [] s -> TC [] [] (complete_task t r true s).
Proof.
  intros c w t r s HF Hk Hbg H. pose proof (FC_FI _ _ _ HF) as HFI. pose proof (FI_NX _ HFI) as HNX.
  pose proof (XS_X _ _ (NX_XS _ _ HNX)) as HX. pose proof (NX_TK _ _ HNX) as HTK. pose proof (FI_Sp _ HFI) as HSp.
  pose proof (W_pick_worker _ _ _ (FI_W _ HFI) Hk) as Ht.
  pose proof (XB _ _ HX w t (ktask_exists _ _ _ Hk) Hk (fun F => F)) as Hw.
  destruct (XA _ _ HX t w (fun F => F) Hw) as [Hph [Hex _]]. destruct (HTK t) as [_ [K2 K3]]. specialize (K3 w Hw Hph).
  destruct (t_ops (get_task s t)) as [|[i0 o0] l0] eqn:Eo; [congruence|].
  assert (Hk0 : task_scq s t = w_sk w) by (unfold task_scq; rewrite Eo; apply (K2 w i0 o0 Hw); left; reflexivity).
  assert (Hse : scq_exists s (task_scq s t) = true) by (rewrite Hk0; apply worker_exists_scq; exact Hex).
  destruct (XS_St _ _ (NX_XS _ _ HNX)) as [_ [_ [_ [_ S5]]]]. destruct (S5 _ Hse) as [p' [Hp' [Hk' Hc']]].
  pose proof (Sp_get_pq s p' HSp Hp') as Egp. rewrite Hk' in Egp.
  apply TC_complete_task; [exact (FI_W _ HFI)|exact Ht|apply XAh_of_X; exact HX| | | |exact H].
  - intros w' Hw' _. assert (w' = w) by congruence. subst w'.
    assert (Hae0 : anc_exist s i0) by (apply (executing_invs_exist s t w i0 o0 H Hw); rewrite Eo; left; reflexivity).
    intros a Ha. apply Hae0. eapply in_chain_trans; [exact Ha|].
    unfold task_invs. rewrite Eo. cbn [map fst]. destruct (lowest_common_prefix i0 (map fst l0)) as [r0 Hr0].
    destruct i0 as [k0 p0]. apply in_chain. cbn in *. split; [|exists r0; exact Hr0].
    symmetry. apply (K2 w (mkI k0 p0) o0 Hw). left. reflexivity.
  - intros l bidx bdur btm bl p El Er Es Ep. rewrite Egp in Ep. injection Ep as <-.
    pose proof (Hbg Er t l bidx bdur btm bl p' Hk El Es Egp) as Hlt.
    destruct HSp as [_ [_ S3]]. rewrite <- Hk'. apply (S3 p' _ Hp'). apply nth_In. exact Hlt.
  - intros _ _ p Ep. rewrite Egp in Ep. injection Ep as <-. split; [|split].
    + intros i o Hin. exact (proj1 (XO2 _ _ HX t i o (fun F => F) Hin)).
    + exact (XS_XN _ _ (NX_XS _ _ HNX) t).
    + destruct HSp as [_ [_ S3]]. rewrite <- Hk'. apply (S3 p' _ Hp'). unfold largest_sc. apply last_in. intro E. rewrite E in Hc'. destruct Hc'.
Qed.

(* ---- registration: a new size class queue, a new worker ------------------------------------------------------------------------------------------ *)
Lemma TR_scqs_new : forall k b s, scq_exists s k = false -> TR s ->
  TR (s <| s_scqs ::= fun l => l ++ [(k, mkScq b None [] 0 [])] |>).
Proof.
  intros k b s Hne [HKW [HID [HEC [HQP HNQ]]]]. set (s' := s <| s_scqs ::= _ |>).
  assert (Hq : forall k', q_workers (get_scq s' k') = q_workers (get_scq s k')).
  { intro k'. unfold s', get_scq. cbn. rewrite (aget_app skey_eqb). destruct (aget skey_eqb k' (s_scqs s)); [reflexivity|].
    cbn. destruct (skey_eqb k' k); reflexivity. }
  assert (Hw : forall w, get_worker s' w = get_worker s w) by (intro w; unfold get_worker; rewrite Hq; reflexivity).
  assert (Hex : forall w, worker_exists s' w = worker_exists s w) by (intro w; unfold worker_exists; rewrite Hq; reflexivity).
  split; [|split; [|split; [|split]]].
  - intros w He Hwt. rewrite Hex in He. rewrite Hw in Hwt |- *. exact (HKW w He Hwt).
  - intro a. rewrite (idle_at_frame s) by reflexivity. unfold cntw, s'. cbn [s_scqs set]. rewrite asum_app. unfold qcnt at 2. cbn. specialize (HID a). unfold cntw in HID. unfold flen. cbn. lia.
  - eapply EC_frame; [| |exact HEC]; reflexivity.
  - eapply QPs_frame; [|exact HQP]; reflexivity.
  - intros w He Hwt. rewrite Hex in He. rewrite Hw in Hwt. rewrite (is_queued_frame s) by reflexivity. exact (HNQ w He Hwt).
Qed.

Lemma TR_invs_new : forall i z s, TR s -> TR (s <| s_invs ::= fun l => l ++ [(i, new_inv z)] |>).
Proof. intros i z s H. t_TR. Qed.

Lemma TR_add_scq : forall k b s, scq_exists s k = false -> TR s -> TR (add_scq k b s).
Proof.
  intros k b s Hne H. unfold add_scq. cbv zeta. apply TR_invs_new. apply TR_scqs_new; [exact Hne|].
  eapply TR_frame; [| | |exact H]; reflexivity.
Qed.

Lemma TR_newworker : forall w v s,
  k_wait v = false -> k_last v = Some [] -> scq_exists s (w_sk w) = true -> worker_exists s w = false -> St s -> TR s ->
  TR (upd_inv (mkI (w_sk w) []) (fun x => x <| v_idle ::= N.succ |>) (upd_scq (w_sk w) (fun q => q <| q_workers ::= fun l => l ++ [(w, v)] |>) s)).
Proof.
  intros w v s Hv1 Hv2 Hse Hne HS [HKW [HID [HEC [HQP HNQ]]]]. set (s1 := upd_scq (w_sk w) _ s).
  assert (Hroot : inv_exists s (mkI (w_sk w) []) = true) by (apply (root_exists _ _ HS); exact Hse).
  assert (Hgw : forall w', get_worker s1 w' = if wref_eqb w' w then v else get_worker s w').
  { intro w'. destruct (wref_eqb w' w) eqn:E; [apply wref_eqb_eq in E; subst; apply get_worker_newworker_aux; assumption|].
    unfold s1, get_worker. rewrite get_scq_upd_scq. destruct (skey_eqb (w_sk w') (w_sk w) && scq_exists s (w_sk w)) eqn:E2; [|reflexivity].
    apply andb_true_iff in E2. destruct E2 as [E2 _]. apply skey_eqb_eq in E2. cbn. rewrite (aget_app wref_eqb). rewrite <- E2.
    destruct (aget wref_eqb w' (q_workers (get_scq s (w_sk w')))); [reflexivity|]. cbn. rewrite E. reflexivity. }
  assert (Hex : forall w', worker_exists s1 w' = true -> w' = w \/ worker_exists s w' = true) by (intro; apply worker_exists_newworker_inv).
  assert (Hi1 : forall j, get_inv s1 j = get_inv s j) by (intro; apply get_inv_frame; apply invs_upd_scq).
  assert (H1 : KW s1 /\ EC [] s1 /\ QPs s1 /\ NQ s1).
  { split; [|split; [eapply EC_frame; [| |exact HEC]; [unfold s1; rewrite upd_scq_eq; reflexivity|apply invs_upd_scq]|split; [eapply QPs_frame; [|exact HQP]; apply invs_upd_scq|]]].
    - intros w' He Hw. rewrite Hgw in Hw |- *. destruct (wref_eqb w' w) eqn:E; [congruence|].
      destruct (Hex w' He) as [->|He']; [rewrite wref_eqb_refl in E; discriminate|]. destruct (HKW w' He' Hw) as [p [A B]]. exists p. rewrite Hi1. auto.
    - intros w' He Hw. rewrite Hgw in Hw. rewrite (is_queued_frame s) by apply invs_upd_scq. destruct (wref_eqb w' w) eqn:E; [congruence|].
      destruct (Hex w' He) as [->|He']; [rewrite wref_eqb_refl in E; discriminate|]. exact (HNQ w' He' Hw). }
  destruct H1 as [A [B [C D]]]. split; [t_KW|split; [|split; [t_EC|split; [t_QP|t_NQ]]]].
  intro a. cbn [inb existsb]. rewrite Nat.add_0_r. rewrite (cntw_frame s1) by apply scqs_upd_inv. rewrite idle_at_upd_inv.
  rewrite (inv_exists_frame s) by apply invs_upd_scq. rewrite Hroot, andb_true_r. rewrite Hi1. rewrite (idle_at_frame s s1 a) by apply invs_upd_scq.
  pose proof (cntw_upd_scq s (w_sk w) (fun q => q <| q_workers ::= fun l => l ++ [(w, v)] |>) a Hse) as Hc. cbn [q_workers set] in Hc.
  rewrite !flen_asum, asum_app in Hc. cbv beta in Hc. specialize (HID a). cbn [inb existsb] in HID. rewrite Nat.add_0_r in HID.
  unfold touch in Hc. cbn [fst snd] in Hc. rewrite Hv2 in Hc. unfold last_iref in Hc. rewrite chain_root in Hc. unfold inb in Hc. cbn [existsb] in Hc. rewrite orb_false_r in Hc.
  unfold s1. destruct (iref_eqb a (mkI (w_sk w) [])) eqn:E.
  - apply iref_eqb_eq in E. subst a. cbn [v_idle set]. unfold idle_at in *. rewrite N2Nat.inj_succ. lia.
  - unfold idle_at in *. lia.
Qed.

(* ---- Synchronize: first section ----------------------------------------------------------------------------------------------------------------------- *)
Lemma TC_ret : forall c code s, TC [] [] s -> TC [] [] (ret c code s).
Proof. intros. unfold ret. tc_go2. Qed.

Lemma TCP_sync_start : forall c a s,
  is_phantom (y_worker a) = false ->
  (forall d r, y_state a = WCompleted d r -> BG (y_worker a) r s) ->
  FI s -> TC [] [] s -> TCP (sync_start c a s).
Proof.
  intros c a s Hph Hbg H HT. unfold sync_start. cbv zeta. set (w := y_worker a) in *. set (k := w_sk w).
  match goal with |- TCP (match ?R with _ => _ end) => destruct R as [s1|code1] eqn:ER end; [|right; apply TC_ret; exact HT].
  assert (H1 : FI s1 /\ scq_exists s1 k = true /\ q_cleanup (get_scq s1 k) = None /\ (forall d r, y_state a = WCompleted d r -> BG w r s1) /\ TC [] [] s1).
  { destruct (scq_exists s k) eqn:Ee.
    - injection ER as <-. split; [fi_prim H|]. split; [rewrite scq_exists_upd_scq; exact Ee|].
      split; [rewrite get_scq_upd_scq, skey_eqb_refl, Ee; reflexivity|]. split; [|tc_go2].
      intros d r E. eapply BG_frame; [ | | |exact (Hbg d r E)].
      + rewrite get_worker_upd_scq_keep by reflexivity. reflexivity.
      + rewrite upd_scq_eq. reflexivity.
      + rewrite upd_scq_eq. reflexivity.
    - assert (Hwn : forall b s0, scq_exists s0 k = false -> k_task (get_worker (add_scq k b s0) w) = None).
      { intros b s0 He0. unfold get_worker. fold k. rewrite get_scq_add_scq_new by exact He0. reflexivity. }
      destruct H as [HSW [HW [HSp HNX]]]. destruct (get_pq s (sk_pk k)) as [p|] eqn:Ep.
      + sum_cases ER. injection ER as <-. apply get_pq_some_in in Ep. destruct Ep as [Ep1 Ep2].
        assert (HSW' : SW (add_scq k true s)) by (apply SW_add_scq; [exact Ee|exists p; auto|exact HSW]).
        split; [|split; [rewrite scq_exists_add_scq, skey_eqb_refl; apply orb_true_r|split; [rewrite get_scq_add_scq_new by exact Ee; reflexivity|split; [intros d r _; apply BG_none; apply Hwn; exact Ee|]]]].
        * split; [exact HSW'|]. split; [w_of_wl HW; unfold add_scq; w_go2|]. split; [apply Sp_add_scq; assumption|apply NX_add_scq; [exact Ee|exists p; auto|exact HNX]].
        * apply TC_of; [exact HSW'|apply TR_add_scq; [exact Ee|exact (TC_TR _ HT)]].
      + injection ER as <-.
        assert (Hp : SW (add_pq (sk_pk k) [] 0 0 s)) by (unfold add_pq; destruct HSW as [HS HWP]; split; [t_St|eapply WP_frame; [ | | |exact HWP]; reflexivity]).
        assert (Hpq : exists p, In p (s_pqs (add_pq (sk_pk k) [] 0 0 s)) /\ p_key p = sk_pk k).
        { unfold add_pq. cbn. eexists. split; [apply in_or_app; right; left; reflexivity|reflexivity]. }
        assert (HSW' : SW (add_scq k true (add_pq (sk_pk k) [] 0 0 s))) by (apply SW_add_scq; [exact Ee|exact Hpq|exact Hp]).
        split; [|split; [rewrite scq_exists_add_scq, skey_eqb_refl; apply orb_true_r|split; [rewrite get_scq_add_scq_new by exact Ee; reflexivity|split; [intros d r _; apply BG_none; apply Hwn; exact Ee|]]]].
        * split; [exact HSW'|]. split; [w_of_wl HW; unfold add_scq, add_pq; w_go2|].
          split; [apply Sp_add_scq; [exact Ee|apply Sp_add_pq; assumption]|apply NX_add_scq; [exact Ee|exact Hpq|apply NX_add_pq; exact HNX]].
        * apply TC_of; [exact HSW'|apply TR_add_scq; [exact Ee|]]. eapply TR_frame; [| | |exact (TC_TR _ HT)]; reflexivity. }
  clear ER H Hbg HT. destruct H1 as [H [Hse [Hqc [Hbg HT]]]]. revert H Hse Hqc Hbg HT. generalize s1. clear s. intros s H Hse Hqc Hbg HT.
  match goal with |- TCP (match ?R with _ => _ end) => destruct R as [s2|code2] eqn:ER end; [|right; apply TC_ret; exact HT].
  assert (H2 : FC c w s2 /\ (forall d r, y_state a = WCompleted d r -> BG w r s2) /\ TC [] [] s2).
  { destruct H as [HSW [HW [HSp HNX]]]. destruct (worker_exists s w) eqn:Ee.
    - destruct (k_cleanup (get_worker s w)) eqn:Ec; [|discriminate]. injection ER as <-.
      pose proof (SW_WP _ HSW) as [A2 [_ [B1 _]]].
      split; [|split; [|tc_go2]].
      + split; [|split; [w_of_wl HW; w_go2|split; [sp_go|nx_go1]]].
        unfold Ctx. split; [sw_go2|]. split; [rewrite worker_exists_upd_worker; exact Ee|].
        rewrite get_worker_upd_worker, wref_eqb_refl, Ee. cbn. split; [reflexivity|]. split; [apply B1; congruence|].
        intros c' p Hc Hs. exfalso. rewrite calls_upd_worker in Hc. destruct (A2 _ _ _ Hc Hs) as [_ E]. congruence.
      + intros d r E. eapply BG_frame; [ | | |exact (Hbg d r E)].
        * rewrite get_worker_upd_worker, wref_eqb_refl, Ee. reflexivity.
        * rewrite upd_worker_eq. reflexivity.
        * rewrite upd_worker_eq. reflexivity.
    - injection ER as <-. pose proof (SW_WP _ HSW) as [A2 _].
      set (s2 := upd_scq k _ s).
      assert (Hs2 : SW s2).
      { destruct HSW as [HS HWP]. split; [apply St_newworker; assumption|apply WP_newworker; assumption]. }
      assert (HX2 : XS [] s2) by (apply XS_newworker; [exact Ee|exact Hph|exact (NX_XS _ _ HNX)]).
      assert (HN2 : NX [] s2) by (split; [exact HX2|]; destruct HNX as [_ [B C]]; unfold s2; split; [t_TK|t_CM]).
      assert (HW2 : W s2) by (w_of_wl HW; unfold s2; w_go2).
      assert (HSp2 : Sp s2) by (unfold s2; sp_go).
      assert (Hex2 : worker_exists s2 w = true) by (apply worker_exists_newworker; exact Hse).
      assert (Hg2 : get_worker s2 w = mkWorker None None false (Some []) false (repeat 0 (List.length (limits_of s k)))).
      { apply get_worker_newworker_aux; assumption. }
      assert (HCtx : Ctx c w (upd_inv (mkI k []) (fun v => v <| v_idle ::= N.succ |>) s2)).
      { unfold Ctx. split; [sw_go2|]. split; [rewrite (worker_exists_frame s2) by apply scqs_upd_inv; exact Hex2|].
        rewrite (get_worker_frame' s2) by apply scqs_upd_inv. rewrite Hg2. cbn. split; [reflexivity|]. split; [reflexivity|].
        intros c' p Hc Hs. exfalso. rewrite calls_upd_inv in Hc. unfold s2 in Hc. rewrite calls_upd_scq in Hc.
        destruct (A2 _ _ _ Hc Hs) as [E _]. congruence. }
      clear HNX HW HSp. split; [|split].
      + split; [exact HCtx|]. split; [w_of_wl HW2; w_go2|split; [clearbody s2; sp_go|clearbody s2; nx_go1]].
      + intros d r _. apply BG_none. rewrite (get_worker_frame' s2) by apply scqs_upd_inv. rewrite Hg2. reflexivity.
      + apply TC_of; [exact (Ctx_SW _ _ _ HCtx)|]. unfold s2, k. apply TR_newworker; [reflexivity|reflexivity|exact Hse|exact Ee|exact (SW_St _ HSW)|exact (TC_TR _ HT)]. }
  clear ER H Hse Hqc Hbg HT. destruct H2 as [H [Hbg HT]]. revert H Hbg HT. generalize s2. clear s. intros s H Hbg HT. unfold k in *. clear k.
  destruct (y_state a) as [|d|d r|] eqn:Ey.
  - apply TCP_get_current_or_next; assumption.
  - destruct (running_correct s w d); [|apply TCP_get_current_or_next; assumption].
    right. apply TC_sync_none; [exact (proj1 H)|exact HT].
  - destruct (running_correct s w d); [|apply TCP_get_current_or_next; assumption].
    destruct (k_task (get_worker s w)) as [t|] eqn:Ek; [|right; exact HT].
    pose proof (W_pick_worker _ _ _ (proj1 (proj2 H)) Ek) as Ht.
    pose proof (FC_FI _ _ _ H) as HFI.
    assert (HFI' : FI (complete_task t r true s)).
    { apply FI_complete_task; [exact Ht| | |exact HFI].
      - intros _. pose proof (XS_X _ _ (NX_XS _ _ (FI_NX _ HFI))) as HX.
        rewrite (XB _ _ HX w t (ktask_exists _ _ _ Ek) Ek (fun F => F)). discriminate.
      - intros l bidx bdur btm bl p Hl Hs Hr Hp. eapply (Hbg d r eq_refl Hr); eassumption. }
    apply TCP_get_next_task.
    + destruct HFI' as [_ [B [C D]]]. split; [apply Ctx_complete_task; exact (proj1 H)|]. split; [exact B|]. split; assumption.
    + apply (TC_complete_by_worker c w t r s H Ek (Hbg d r eq_refl) HT).
  - right. apply TC_sync_return_err; [exact (proj1 H)|exact HT].
Qed.

(* ---- Execute ----------------------------------------------------------------------------------------------------------------------------------------------- *)
Lemma TC_wait_execution_begin : forall c o s, TC [] [] s -> TC [] [] (wait_execution_begin c o s).
Proof. intros. unfold wait_execution_begin, stream_iter. tc_go2. Qed.

Lemma TC_newtask : forall s x, t_worker x = None -> TC [] [] s ->
  TC [] [] (s <| s_ntasks ::= S |> <| s_tasks ::= fun l => l ++ [(s_ntasks s, x)] |>).
Proof.
  intros s x Hx [HSW [HKW [HID [HEC [HQP HNQ]]]]]. split; [eapply SW_frame'; [| | | |exact HSW]; reflexivity|].
  split; [eapply KW_frame; [| |exact HKW]; reflexivity|]. split; [eapply IDs_frame; [| |exact HID]; reflexivity|].
  split; [apply EC_newtask; assumption|]. split; [eapply QPs_frame; [|exact HQP]; reflexivity|eapply NQ_frame; [| |exact HNQ]; reflexivity].
Qed.

Lemma TC_exec_new : forall c a p s,
  (fst (fst (fst (x_sel a))) < List.length (p_scs p))%nat -> In p (s_pqs s) ->
  FI s -> TC [] [] s ->
  let s1 := emit (OGhost GSelect) s in
  TC [] [] (let '(idx, dur, timeout, l) := x_sel a in
      let k := mkSK (p_key p) (nth idx (p_scs p) 0%N) in
      let t := s_ntasks s1 in
      let s := s1 <| s_ntasks ::= S |>
                 <| s_tasks ::= fun ts => ts ++ [(t, mkTask [] (x_instance a) (x_digest a) (Some (x_dnc a)) timeout (s_now s1)
                                                        (drop_prefix (pk_prefix (p_key p)) (x_instance a))
                                                        None 0 dur (Some l) None 0)] |> in
      let s := if x_dnc a then s else s <| s_inflight ::= aset dkey_eqb (x_instance a, x_digest a) t |> in
      let s := get_or_create_invocation k (x_keys a) s in
      let '(s, o) := new_operation t (x_prio a) (mkI k (x_keys a)) false s in
      wait_execution_begin c o (schedule t s)).
Proof.
  intros c a p s Hidx Hp H HT s1. destruct (x_sel a) as [[[idx dur] timeout] l]. cbn [fst] in Hidx. cbv zeta.
  assert (Hk : scq_exists s (mkSK (p_key p) (nth idx (p_scs p) 0%N)) = true).
  { destruct (FI_Sp _ H) as [_ [_ S3]]. apply (S3 p); [exact Hp|apply nth_In; exact Hidx]. }
  set (k := mkSK (p_key p) (nth idx (p_scs p) 0%N)) in *.
  assert (Hroot : inv_exists s (mkI k []) = true) by (apply (root_exists _ _ (SW_St _ (FI_SW _ H))); exact Hk).
  pose proof (W_task_fresh s (FI_W _ H)) as Hft. pose proof (W_op_fresh s (FI_W _ H)) as Hfo.
  assert (H1 : TC [] [] s1) by (unfold s1; tc_go2).
  set (t := s_ntasks s1).
  set (x := mkTask [] (x_instance a) (x_digest a) (Some (x_dnc a)) timeout (s_now s1) (drop_prefix (pk_prefix (p_key p)) (x_instance a)) None 0 dur (Some l) None 0).
  set (s2 := s1 <| s_ntasks ::= S |> <| s_tasks ::= fun ts => ts ++ [(t, x)] |>).
  assert (H2 : TC [] [] s2) by (apply TC_newtask; [reflexivity|exact H1]).
  assert (Hx : get_task s2 t = x) by (unfold s2, t; rewrite get_task_newtask; change (s_tasks s1) with (s_tasks s); change (s_ntasks s1) with (s_ntasks s); rewrite Hft, Nat.eqb_refl; reflexivity).
  set (s3 := if x_dnc a then s2 else s2 <| s_inflight ::= aset dkey_eqb (x_instance a, x_digest a) t |>).
  assert (H3 : TC [] [] s3 /\ get_task s3 t = x /\ s_invs s3 = s_invs s /\ s_ops s3 = s_ops s /\ s_nops s3 = s_nops s).
  { unfold s3. destruct (x_dnc a); [split; [exact H2|split; [exact Hx|split; [reflexivity|split; reflexivity]]]|]. split; [tc_go2|split; [exact Hx|split; [reflexivity|split; reflexivity]]]. }
  destruct H3 as [H3 [Hx3 [Ei3 [Eo3 En3]]]]. clearbody s3.
  set (s4 := get_or_create_invocation k (x_keys a) s3).
  assert (H4 : TC [] [] s4) by (apply TC_get_or_create_invocation; exact H3).
  destruct (goc_frames k (x_keys a) s3) as [G1 [G2 _]]. destruct (get_or_create_invocation_tasks k (x_keys a) s3) as [_ [G3 _]]. fold s4 in G1, G2, G3.
  assert (Hae4 : anc_exist s4 (mkI k (x_keys a))) by (apply goc_anc_exist; unfold inv_exists in *; rewrite Ei3; exact Hroot).
  unfold new_operation. cbv iota beta.
  match goal with |- TC [] [] (wait_execution_begin c ?o (schedule t ?e)) => set (s5 := e); set (o5 := o) end.
  assert (Et5 : get_task s5 t = x <| t_ops := [(mkI k (x_keys a), o5)] |>).
  { unfold s5. rewrite get_task_upd_task, Nat.eqb_refl. rewrite (get_task_frame s4) by reflexivity. rewrite (get_task_frame _ _ _ G1), Hx3. reflexivity. }
  assert (H5 : TC [] [] s5).
  { destruct H4 as [HSW [HKW [HID [HEC [HQP HNQ]]]]]. unfold s5.
    split; [eapply SW_frame'; [| | | |exact HSW]; reflexivity|]. split; [eapply KW_frame; [| |exact HKW]; reflexivity|].
    split; [eapply IDs_frame; [| |exact HID]; reflexivity|]. split; [|split; [eapply QPs_frame; [|exact HQP]; reflexivity|eapply NQ_frame; [| |exact HNQ]; reflexivity]].
    apply EC_upd_task; [|eapply EC_frame; [| |exact HEC]; reflexivity]. right. left.
    rewrite (get_task_frame s4) by reflexivity. rewrite (get_task_frame _ _ _ G1), Hx3. reflexivity. }
  assert (Eop5 : get_op s5 o5 = mkOper t (x_prio a) (mkI k (x_keys a)) 0 false None).
  { unfold s5, o5. rewrite (get_op_frame (s4 <| s_nops ::= S |> <| s_ops ::= fun l0 => l0 ++ [(s_nops s4, mkOper t (x_prio a) (mkI k (x_keys a)) 0 false None)] |>)) by reflexivity.
    rewrite get_op_newop. rewrite G2, Eo3, G3, En3, Hfo, Nat.eqb_refl. reflexivity. }
  apply TC_wait_execution_begin. apply (TC_schedule [] t s5 k); [|exact H5].
  intros i o Hin. rewrite Et5 in Hin. cbn in Hin. destruct Hin as [E|[]]. inversion E; subst i o.
  split; [|split; [rewrite Eop5; reflexivity|reflexivity]].
  apply (anc_exist_mono s4); [intros a0 Ha0; exact Ha0|exact Hae4].
Qed.

Lemma goc_scqs : forall k p s, s_scqs (get_or_create_invocation k p s) = s_scqs s.
Proof.
  intros k p s. unfold get_or_create_invocation. apply (fold_left_pres (fun s' => s_scqs s' = s_scqs s)); [|reflexivity].
  intros a pp Ha. destruct (inv_exists a (mkI k pp)); exact Ha.
Qed.

Lemma Pan_exec_start : forall c a s, Pan s -> Pan (exec_start c a s).
Proof. intros c a s H. unfold exec_start, new_operation, wait_execution_begin, stream_iter, ret. inv_go fail t_pan. Qed.

Lemma cnto_app : forall a ops i o, cnto a (ops ++ [(i, o)]) = (cnto a ops + (if inb a (chain i) then 1 else 0))%nat.
Proof.
  intros a ops i o. unfold cnto, flen. rewrite filter_app, app_length. cbn [filter fst]. destruct (inb a (chain i)); cbn; lia.
Qed.

Lemma TCP_exec_dedup : forall c a t0 s,
  aget dkey_eqb (x_instance a, x_digest a) (s_inflight s) = Some t0 ->
  FI s -> TNP [] s -> Inf s -> TC [] [] s -> TCP (exec_start c a s).
Proof.
  intros c a t0 s Ei H HT HI HTC.
  destruct (FI_NX _ H) as [HXS [HTK HCM]].
  destruct HCM as [Hp|[HC HM]]; [left; apply Pan_exec_start; exact Hp|]. destruct HT as [Hp|HTN]; [left; apply Pan_exec_start; exact Hp|right].
  unfold exec_start. rewrite Ei. cbv zeta.
  pose proof (XS_X _ _ HXS) as HX. pose proof (SW_St _ (FI_SW _ H)) as HSt.
  destruct HI as [_ [I2 _]]. destruct (I2 _ _ Ei) as [x [Ex [[Hr Hd] _]]].
  assert (Eg : get_task s t0 = x) by (unfold get_task; rewrite Ex; reflexivity).
  assert (Hne : t_ops (get_task s t0) <> []) by (apply (proj2 (HTN t0)); [intros []|rewrite Eg, Hd; discriminate]).
  set (s1 := emit (OGhost GSelAbandoned) s).
  change (task_scq s1 t0) with (task_scq s t0). set (k := task_scq s t0).
  assert (Hsk : forall i' o', In (i', o') (t_ops (get_task s t0)) -> i_sk i' = k).
  { intros i' o' Hin. unfold k. symmetry. eapply task_scq_first; [exact HTK|exact Hin]. }
  (* the size class queue of the task exists; if the task is queued nobody waits there *)
  assert (Hk : scq_exists s k = true /\
               (t_worker (get_task s t0) = None -> forall w, worker_exists s w = true -> k_wait (get_worker s w) = true -> w_sk w <> k)).
  { destruct (t_ops (get_task s t0)) as [|[i0 o0] l0] eqn:Eo; [congruence|].
    assert (Hin : In (i0, o0) (t_ops (get_task s t0))) by (rewrite Eo; left; reflexivity).
    assert (Ek : i_sk i0 = k) by (apply (Hsk i0 o0); left; reflexivity).
    destruct (XO2 _ _ HX t0 i0 o0 (fun F => F) Hin) as [Ha [Ht Hi]].
    destruct (t_worker (get_task s t0)) as [w|] eqn:Ew.
    - split; [|discriminate]. destruct (XA _ _ HX t0 w (fun F => F) Ew) as [_ [He _]]. destruct (HTK t0) as [_ [K2 _]].
      rewrite <- Ek, (K2 w i0 o0 Ew Hin). apply worker_exists_scq. exact He.
    - assert (Hq : queued s o0) by (apply HC; [exact Ha|intros []|unfold idle_live; rewrite Ht, Ew, Eg; auto]).
      unfold queued in Hq. rewrite Hi in Hq.
      assert (Hex0 : inv_exists s i0 = true) by (unfold inv_exists; unfold get_inv in Hq; destruct (aget iref_eqb i0 (s_invs s)); [reflexivity|destruct Hq]).
      split; [rewrite <- Ek; apply (HM i0 (get_inv s i0)); apply inv_exists_in; exact Hex0|].
      intros _ w He Hw Esk. destruct HTC as [_ [_ [_ [_ [_ HNQ]]]]]. specialize (HNQ w He Hw).
      assert (Hqr : is_queued s (mkI (w_sk w) []) = true); [|congruence].
      apply is_queued_iff. exists i0, (get_inv s i0). split; [apply inv_exists_in; exact Hex0|]. split; [|intro E; rewrite E in Hq; destruct Hq].
      rewrite Esk, <- Ek. apply in_chain_root. }
  destruct Hk as [Hse Hnw].
  assert (Hroot : inv_exists s (mkI k []) = true) by (apply (root_exists _ _ HSt); exact Hse).
  assert (H1 : TC [] [] s1) by (unfold s1; tc_go2).
  set (s2 := get_or_create_invocation k (x_keys a) s1).
  assert (H2 : TC [] [] s2) by (apply TC_get_or_create_invocation; exact H1).
  destruct (goc_frames k (x_keys a) s1) as [G1 [G2 _]]. destruct (get_or_create_invocation_tasks k (x_keys a) s1) as [_ [G3 _]]. fold s2 in G1, G2, G3.
  assert (Hae2 : anc_exist s2 (mkI k (x_keys a))) by (apply goc_anc_exist; exact Hroot).
  assert (Et2 : get_task s2 t0 = get_task s t0) by (rewrite (get_task_frame _ _ _ G1); reflexivity).
  destruct (aget iref_eqb (mkI k (x_keys a)) (t_ops (get_task s2 t0))) as [o|]; [apply TC_wait_execution_begin; exact H2|].
  set (i := mkI k (x_keys a)) in *. set (o := s_nops s2).
  pose proof (W_op_fresh s (FI_W _ H)) as Hfo.
  unfold new_operation. cbv iota beta. fold o.
  match goal with |- TC [] [] (wait_execution_begin c o (match task_stage (get_task ?e t0) with _ => _ end)) => set (s3 := e) end.
  assert (Et3 : get_task s3 t0 = (get_task s t0) <| t_ops ::= fun l => l ++ [(i, o)] |>).
  { unfold s3. rewrite get_task_upd_task, Nat.eqb_refl. rewrite (get_task_frame s2) by reflexivity. rewrite Et2. reflexivity. }
  assert (Eop3 : get_op s3 o = mkOper t0 (x_prio a) i 0 false None).
  { unfold s3, o. rewrite (get_op_frame (s2 <| s_nops ::= S |> <| s_ops ::= fun l0 => l0 ++ [(s_nops s2, mkOper t0 (x_prio a) i 0 false None)] |>)) by reflexivity.
    rewrite get_op_newop. rewrite G2, G3. change (s_ops s1) with (s_ops s). change (s_nops s1) with (s_nops s). rewrite Hfo, Nat.eqb_refl. reflexivity. }
  assert (H3 : TC [] [t0] s3).
  { apply TC_weaken with (t := t0) in H2. destruct H2 as [HSW [HKW [HID [HEC [HQP HNQ]]]]]. unfold s3.
    split; [eapply SW_frame'; [| | | |exact HSW]; reflexivity|]. split; [eapply KW_frame; [| |exact HKW]; reflexivity|].
    split; [eapply IDs_frame; [| |exact HID]; reflexivity|]. split; [|split; [eapply QPs_frame; [|exact HQP]; reflexivity|eapply NQ_frame; [| |exact HNQ]; reflexivity]].
    apply EC_upd_task; [left; left; reflexivity|eapply EC_frame; [| |exact HEC]; reflexivity]. }
  assert (Ei3 : forall a0, inv_exists s3 a0 = inv_exists s2 a0) by (intro; reflexivity).
  apply TC_wait_execution_begin. unfold task_stage. rewrite Et3. cbn [t_resp t_worker set]. rewrite Eg, Hr. rewrite <- Eg.
  destruct (t_worker (get_task s t0)) as [w|] eqn:Ew; cbv iota.
  - (* the task is executing: the new operation is counted *)
    pose proof (TC_increment_executing [] [t0] i w s3 H3) as H4. destruct H4 as [A [B [C [D E]]]].
    split; [exact A|]. split; [exact B|]. split; [exact C|]. split; [|exact E].
    intros a0 t' w' _ Ht'. destruct (Nat.eq_dec t' t0) as [->|Hne']; [|apply D; [intros [E1|[]]; congruence|exact Ht']].
    assert (Et4 : get_task (increment_executing i w s3) t0 = get_task s3 t0).
    { apply get_task_frame. unfold increment_executing. apply (fold_left_pres (fun s' => s_tasks s' = s_tasks s3)); [|reflexivity].
      intros a' j Ha'. rewrite upd_inv_eq. exact Ha'. }
    rewrite Et4, Et3 in Ht' |- *. cbn [t_worker t_ops set] in Ht' |- *. assert (w' = w) by congruence. subst w'.
    rewrite cnto_app, ecount_increment, wref_eqb_refl. cbn [andb].
    destruct HTC as [_ [_ [_ [HEC0 _]]]]. specialize (HEC0 a0 t0 w (fun F => F) Ew).
    assert (Ec3 : ecount s3 a0 w = ecount s a0 w).
    { unfold ecount. rewrite (get_inv_frame s2 s3) by reflexivity. unfold s2.
      (* new invocations have no executing workers *)
      assert (Hg : forall l s0, v_exec (get_inv (fold_left (fun s pp => if inv_exists s (mkI k pp) then s else s <| s_invs ::= fun l => l ++ [(mkI k pp, new_inv (s_now s))] |>) l s0) a0) = v_exec (get_inv s0 a0)).
      { induction l as [|pp l IH]; intro s0; cbn [fold_left]; [reflexivity|]. rewrite IH. destruct (inv_exists s0 (mkI k pp)); [reflexivity|].
        unfold get_inv. cbn. rewrite (aget_app iref_eqb). destruct (aget iref_eqb a0 (s_invs s0)); [reflexivity|]. cbn. destruct (iref_eqb a0 (mkI k pp)); reflexivity. }
      unfold get_or_create_invocation. rewrite Hg. reflexivity. }
    rewrite Ec3. destruct (inb a0 (chain i)) eqn:Ein; cbn [andb]; [|lia]. apply inb_In in Ein. rewrite Ei3, (Hae2 a0 Ein). lia.
  - (* the task is queued: so is the new operation *)
    apply (TC_drop [] [] t0); [|].
    + destruct (enqueue_reads o s3) as [_ [E2 _]]. rewrite (get_task_frame _ _ _ E2), Et3. cbn. exact Ew.
    + apply TC_enqueue; [|exact H3]. rewrite Eop3. cbn [o_inv]. intros _. split.
      * intros a0 Ha0. rewrite Ei3. exact (Hae2 a0 Ha0).
      * intros w He Hw. cbn [i_sk i]. apply (Hnw eq_refl w); [|].
        -- rewrite <- He. symmetry. apply worker_exists_frame. unfold s3. rewrite upd_task_eq. cbn. unfold s2. rewrite goc_scqs. reflexivity.
        -- rewrite <- Hw. f_equal. symmetry. apply get_worker_frame'. unfold s3. rewrite upd_task_eq. cbn. unfold s2. rewrite goc_scqs. reflexivity.
Qed.

Lemma TCP_exec_start : forall c a s,
  (forall p, longest_prefix_pq s (x_plat a) (x_instance a) = Some p -> (fst (fst (fst (x_sel a))) < List.length (p_scs p))%nat) ->
  FI s -> TNP [] s -> Inf s -> TC [] [] s -> TCP (exec_start c a s).
Proof.
  intros c a s Hsel H HT HI HTC.
  destruct (aget dkey_eqb (x_instance a, x_digest a) (s_inflight s)) as [t0|] eqn:Ei; [apply (TCP_exec_dedup c a t0); assumption|].
  right. unfold exec_start. rewrite Ei.
  destruct (longest_prefix_pq s (x_plat a) (x_instance a)) as [p|] eqn:Ep.
  - apply TC_exec_new; [apply Hsel; reflexivity| |exact H|exact HTC]. destruct (longest_prefix_pq_sound _ _ _ _ Ep) as [Hp _]. exact Hp.
  - apply TC_ret. tc_go2.
Qed.

(* ---- events ------------------------------------------------------------------------------------------------------------------------------------------------ *)
Ltac tr_leaf :=
  idtac;
  lazymatch goal with
  | |- TR (dequeue_worker _ _) => apply TC_TR; apply TC_dequeue_worker; assumption
  | |- TR (wake_up _ _) => apply TC_TR; unfold wake_up; apply TC_dequeue_worker; assumption
  end.
Ltac tr_go1 := inv_go tr_leaf t_TR.

Lemma TR_register_fold : forall k scs s,
  sorted_strict scs = true -> (forall sc, In sc scs -> scq_exists s (mkSK k sc) = false) -> TR s ->
  TR (fold_left (fun s sc => add_scq (mkSK k sc) false s) scs s).
Proof.
  intros k scs. induction scs as [|sc scs IH]; intros s Hs Hn H; cbn [fold_left]; [exact H|].
  destruct (sorted_strict_cons _ _ Hs) as [Hs' Hlt].
  apply IH; [exact Hs'| |apply TR_add_scq; [apply Hn; left; reflexivity|exact H]].
  intros sc' Hin. rewrite scq_exists_add_scq. rewrite (Hn sc' (or_intror Hin)). cbn.
  destruct (skey_eqb (mkSK k sc') (mkSK k sc)) eqn:E; [|reflexivity]. apply skey_eqb_eq in E. inversion E; subst.
  specialize (Hlt sc Hin). lia.
Qed.

Lemma TC_wake_fold : forall p (l : list (wref * worker)) s,
  TC [] [] s -> TC [] [] (fold_left (fun s '(w, _) => if k_wait (get_worker s w) && matches w p then wake_up w s else s) l s).
Proof.
  intros p l s H. apply fold_left_pres; [|exact H]. intros a [w kw] Ha. destruct (_ && _); [unfold wake_up; apply TC_dequeue_worker; exact Ha|exact Ha].
Qed.

Lemma TCP_step_core : forall e s, ev_sel_ok s e -> TOP s -> TC [] [] s -> TCP (step_core e s).
Proof.
  intros e s Hev HT HTC. pose proof HT as [H [HTN HI]].
  assert (HSWf : SW (step_core e s)) by (apply SW_step_core; exact (FI_SW _ H)).
  assert (HFT : forall t, FT (enter t s)) by (intro t; apply FT_enter; split; assumption).
  assert (Hfin : TR (step_core e s) -> TCP (step_core e s)) by (intro HR; right; apply TC_of; assumption).
  destruct e; cbn [ev_sel_ok] in Hev; unfold step_core in *.
  - (* Execute *) destruct (TOP_enter t s HT) as [A [B C]]. apply TCP_exec_start; try assumption. exact (proj2 (HFT t)).
  - (* WaitExecution *) apply Hfin. destruct (HFT t) as [_ He]. apply TC_TR in He. set (s1 := enter t s) in *. clearbody s1. cbv zeta. unfold ret. tr_go1.
  - (* Synchronize *) destruct Hev as [Hph Hbg]. destruct (HFT t) as [A B]. apply TCP_sync_start; assumption.
  - apply Hfin. destruct (HFT t) as [_ He]. apply TC_TR in He. set (s1 := enter t s) in *. clearbody s1. unfold kill_lookup, ret. tr_go1.
  - (* kill a queue *)
    apply Hfin. destruct (HFT t) as [HFe He]. set (s1 := enter t s) in *. clearbody s1. cbv zeta.
    destruct (negb (scq_exists s1 k)); [apply TC_TR in He; unfold ret; tr_go1|]. destruct (negb _); [apply TC_TR in He; unfold ret; tr_go1|].
    pose proof (proj2 (GT_cancel_all_queued (mkI k []) (mkResp code 0 0) s1 (kill_not_success _ Hev) (FT_GT _ (conj HFe He)))) as Hc.
    apply TC_TR in Hc. unfold ret. tr_go1.
  - (* add a drain *)
    apply Hfin. destruct (HFT t) as [_ He]. set (s1 := enter t s) in *. clearbody s1. cbv zeta.
    destruct (negb (scq_exists s1 k)); [apply TC_TR in He; unfold ret; tr_go1|].
    set (s2 := upd_scq k _ s1). assert (H2 : TC [] [] s2) by (unfold s2; tc_go2). clearbody s2.
    pose proof (TC_wake_fold p (q_workers (get_scq s2 k)) s2 H2) as H3. apply TC_TR in H3. unfold ret. tr_go1.
  - apply Hfin. destruct (HFT t) as [_ He]. apply TC_TR in He. set (s1 := enter t s) in *. clearbody s1. cbv zeta. unfold ret. tr_go1.
  - (* terminate *)
    apply Hfin. cbv zeta. destruct (HFT t) as [_ He]. set (s1 := enter t s) in *. clearbody s1.
    match goal with |- TR (match ?x with _ => _ end) => rewrite (surjective_pairing x) end. cbv beta iota.
    match goal with |- TR (set_call _ _ (fst (fold_left ?g ?l ?a))) => assert (H2 : TC [] [] (fst (fold_left g l a))) end.
    { match goal with |- TC [] [] (fst (fold_left ?g ?l ?a)) => apply (fold_left_pres (fun acc => TC [] [] (fst acc)) g l) end; [|exact He].
      intros [s2 w2] w H2. cbn [fst] in *. unfold mark_terminating, wake_up. tc_go2. }
    apply TC_TR in H2. tr_go1.
  - (* register *)
    apply Hfin. destruct (_ || _) eqn:Ev; [apply TC_TR in HTC; unfold ret; tr_go1|]. cbv zeta.
    destruct (HFT t) as [HFe He]. set (s1 := enter t s) in *. clearbody s1.
    destruct (get_pq s1 k) as [p|] eqn:Ep; [apply TC_TR in He; unfold ret; tr_go1|].
    apply orb_false_iff in Ev. destruct Ev as [Ev _]. apply orb_false_iff in Ev. destruct Ev as [_ Ev]. apply negb_false_iff in Ev.
    assert (HR : TR (fold_left (fun s sc => add_scq (mkSK k sc) false s) scs (add_pq k limits maxbg bgprio s1))).
    { apply TR_register_fold; [exact Ev| |eapply TR_frame; [| | |exact (TC_TR _ He)]; reflexivity].
      intros sc Hsc. rewrite (scq_exists_frame s1) by reflexivity.
      destruct (scq_exists s1 (mkSK k sc)) eqn:Ee; [|reflexivity]. exfalso.
      destruct (FI_SW _ HFe) as [[_ [_ [_ [_ H4]]]] _]. destruct (H4 _ Ee) as [p [Hp [Hk _]]]. cbn in Hk.
      unfold get_pq in Ep. apply (find_none _ _ Ep) in Hp. rewrite (proj2 (pkey_eqb_eq _ _) Hk) in Hp. discriminate. }
    unfold ret. tr_go1.
  - apply Hfin. destruct (HFT t) as [_ He]. apply TC_TR in He. unfold ret. tr_go1.
  - (* EEnter *)
    cbv zeta in *. destruct (negb (at_gate s (get_call s c))) eqn:Eg; [right; exact HTC|]. apply negb_false_iff in Eg.
    destruct (HFT t) as [HFe He].
    rewrite get_call_aget in *. destruct (aget Nat.eqb c (s_calls s)) as [p|] eqn:Ep; [|right; exact He].
    assert (Hpe : aget Nat.eqb c (s_calls (enter t s)) = Some p) by (rewrite calls_enter; exact Ep).
    destruct p; try (right; exact He);
      try (apply Hfin; pose proof (TC_TR _ He) as HRe; set (s1 := enter t s) in *; clearbody s1; unfold stream_iter, stream_return, kill_lookup, wait_execution_begin, stream_iter, ret; tr_go1; fail).
    + (* PSyncDrained *)
      apply TCP_sync_loop; [|exact He]. destruct HFe as [HSWe [HWe [HSpe HNXe]]]. split; [|auto].
      eapply Ctx_of_named; [exact HSWe|exact Hpe|reflexivity|].
      destruct HSWe as [_ [_ [_ [_ [_ [B3 _]]]]]]. eapply B3; [exact Hpe|reflexivity].
    + (* PSyncQueued *)
      cbn [at_gate] in Eg. apply negb_true_iff in Eg.
      assert (Hc : FC c w (enter t s)).
      { destruct HFe as [HSWe [HWe [HSpe HNXe]]]. split; [|auto]. eapply Ctx_of_named; [exact HSWe|exact Hpe|reflexivity|]. apply SWK_enter; [exact (FI_SW _ H)|exact Eg]. }
      destruct (k_task (get_worker (enter t s) w)); [right; apply TC_sync_return_exec; [exact (proj1 Hc)|exact He]|apply TCP_sync_loop; assumption].
    + (* PKillRecheck *)
      apply Hfin. set (s1 := enter t s) in *. clearbody s1.
      match goal with |- TR (if op_alive s1 ?n then _ else _) => destruct (op_alive s1 n) eqn:Ea end; [|apply TC_TR in He; unfold kill_lookup; tr_go1].
      pose proof (TC_complete_task_nb [] (o_task (get_op s1 name)) (mkResp code 0 0) s1 (FI_G _ HFe) (W_pick_op _ _ (FI_W _ HFe) Ea) (kill_not_success _ (Hev _ _ eq_refl)) He) as Hc.
      apply TC_TR in Hc. unfold ret. tr_go1.
  - (* ETimer *)
    cbv zeta in *. destruct (at_gate s (get_call s c)) eqn:Eg; [right; exact HTC|]. apply Hfin.
    destruct (HFT t) as [_ He]. set (s1 := enter t s) in *. clearbody s1.
    destruct (get_call s c); try (apply TC_TR in HTC; exact HTC); try (apply TC_TR in He; unfold stream_iter, sync_return_idle, finish_sync; tr_go1; fail).
    (* PSyncQueued: the worker stops waiting *)
    unfold maybe_dequeue. destruct (k_wait (get_worker s1 w)).
    + pose proof (TC_dequeue_worker [] [] w s1 He) as Hd. apply TC_TR in Hd. set (s2 := dequeue_worker w s1) in *. clearbody s2.
      unfold sync_return_exec, sync_return_idle, finish_sync. tr_go1.
    + apply TC_TR in He. unfold sync_return_exec, sync_return_idle, finish_sync. tr_go1.
  - (* ECancel *)
    cbv zeta in *. destruct (at_gate s (get_call s c)) eqn:Eg; [right; exact HTC|]. apply Hfin. apply TC_TR in HTC.
    destruct (get_call s c); tr_go1.
Qed.
