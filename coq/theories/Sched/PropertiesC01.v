(* C01 — the property theorems about the scheduler model, and nothing else. *)
From VF Require Import Sched.Proofs.
Open Scope Z_scope.

(* COMPLETED is absorbing for task.complete: completing a task that already
   has a response changes nothing (no second response, no worker change,
   no output) ... *)
Theorem completed_absorbing : forall s t r0 r b,
  t_resp (get_task s t) = Some r0 -> complete_task t r b s = s.
Proof. exact completed_absorbing. Qed.
Print Assumptions completed_absorbing.

(* ... and over every run from every state: once a task has a response, every
   later state records the same response (no event list, whatever the hints,
   ever changes or clears it). *)
Theorem completed_absorbing_run : forall evs s t r,
  t_resp (get_task s t) = Some r -> t_resp (get_task (fst (run s evs)) t) = Some r.
Proof. exact completed_absorbing_run. Qed.
Print Assumptions completed_absorbing_run.

(* sync_tells_assigned: whenever an event makes a Synchronize call answer
   "execute", some worker is assigned a task in the state the event leaves
   behind and the answer is exactly that task's desired state (digest,
   do_not_cache, timeout, queued timestamp, instance name suffix).  For every
   state and event (no reachability hypothesis). *)
Theorem sync_tells_assigned : forall s eh c dg dnc tm qts sfx z,
  In (OSync c (DExec dg dnc tm qts sfx) z) (snd (step s eh)) ->
  let s' := fst (step s eh) in
  exists w t, k_task (get_worker s' w) = Some t /\ exec_desired s' t = DExec dg dnc tm qts sfx.
Proof. exact sync_tells_assigned_step. Qed.
Print Assumptions sync_tells_assigned.

(* ---- the exclusivity invariant, for every reachable state ----------------------------------------------------
   Hypothesis [no_phantom_sync evs]: no Synchronize event of the run comes from a worker whose id hash is
   4294967295, the value the model uses for "no worker" while task.complete detaches a queued task
   (the Go code uses a nil worker there; the harness never generates that id). *)

(* worker and task pointers are mutually inverse: a task's worker is registered, is not the placeholder,
   runs that task, and the task has no response; a registered worker's task points back to it *)
Theorem workers_tasks_inverse : forall cfg t0 evs, no_phantom_sync evs ->
  let s := fst (run (init cfg t0) evs) in
  (forall t w, t_worker (get_task s t) = Some w ->
     is_phantom w = false /\ worker_exists s w = true /\ k_task (get_worker s w) = Some t /\ t_resp (get_task s t) = None) /\
  (forall w t, worker_exists s w = true -> k_task (get_worker s w) = Some t -> t_worker (get_task s t) = Some w).
Proof. exact workers_tasks_inverse. Qed.
Print Assumptions workers_tasks_inverse.

(* every queue entry is a registered operation of exactly that invocation whose task has neither worker
   nor response; no invocation lists an operation twice and invocation keys are unique, so no operation
   is queued twice anywhere *)
Theorem queued_ops_sane : forall cfg t0 evs, no_phantom_sync evs ->
  let s := fst (run (init cfg t0) evs) in
  (forall i o, In o (v_qops (get_inv s i)) ->
     op_alive s o = true /\ o_inv (get_op s o) = i /\
     t_worker (get_task s (o_task (get_op s o))) = None /\ t_resp (get_task s (o_task (get_op s o))) = None) /\
  (forall i, NoDup (v_qops (get_inv s i))) /\
  NoDup (map fst (s_invs s)).
Proof. exact queued_ops_sane. Qed.
Print Assumptions queued_ops_sane.

(* a registered operation is listed by its task under its invocation, a task lists only registered
   operations of its own under their invocation, and none twice *)
Theorem ops_tasks_inverse : forall cfg t0 evs, no_phantom_sync evs ->
  let s := fst (run (init cfg t0) evs) in
  (forall o, op_alive s o = true -> In (o_inv (get_op s o), o) (t_ops (get_task s (o_task (get_op s o))))) /\
  (forall t i o, In (i, o) (t_ops (get_task s t)) -> op_alive s o = true /\ o_task (get_op s o) = t /\ o_inv (get_op s o) = i) /\
  (forall t, NoDup (map snd (t_ops (get_task s t)))).
Proof. exact ops_tasks_inverse. Qed.
Print Assumptions ops_tasks_inverse.

(* a completed task is held by nobody: it has no worker, no registered worker runs it, none of its
   operations is in a queue *)
Theorem completed_task_released : forall cfg t0 evs, no_phantom_sync evs ->
  let s := fst (run (init cfg t0) evs) in
  forall t r, t_resp (get_task s t) = Some r ->
    t_worker (get_task s t) = None /\
    (forall w, worker_exists s w = true -> k_task (get_worker s w) <> Some t) /\
    (forall i o, In o (v_qops (get_inv s i)) -> o_task (get_op s o) <> t).
Proof. exact completed_task_released. Qed.
Print Assumptions completed_task_released.

(* no_start_after_complete: whenever an event of a run makes a Synchronize call answer "execute",
   the answer describes a task that is assigned to a registered worker (pointers both ways) and
   has no response *)
Theorem no_start_after_complete : forall cfg t0 evs eh c dg dnc tm qts sfx z,
  no_phantom_sync (evs ++ [eh]) ->
  let s := fst (run (init cfg t0) evs) in
  In (OSync c (DExec dg dnc tm qts sfx) z) (snd (step s eh)) ->
  let s' := fst (step s eh) in
  exists w t, worker_exists s' w = true /\ k_task (get_worker s' w) = Some t /\ t_worker (get_task s' t) = Some w /\
              exec_desired s' t = DExec dg dnc tm qts sfx /\ t_resp (get_task s' t) = None.
Proof. exact no_start_after_complete. Qed.
Print Assumptions no_start_after_complete.

(* the tables, for every run without hypothesis: unique size-class-queue keys; unique worker keys in each
   queue and a worker is listed only in the queue its id names; unique invocation keys; a queue has a root
   invocation and vice versa; every size class queue has its platform queue, which lists its size class *)
Theorem tables_structure : forall cfg t0 evs,
  let s := fst (run (init cfg t0) evs) in
  NoDup (map fst (s_scqs s)) /\
  (forall k q, In (k, q) (s_scqs s) -> NoDup (map fst (q_workers q)) /\ forall w, In w (map fst (q_workers q)) -> w_sk w = k) /\
  NoDup (map fst (s_invs s)) /\
  (forall k, inv_exists s (mkI k []) = scq_exists s k) /\
  (forall k, scq_exists s k = true -> exists p, In p (s_pqs s) /\ p_key p = sk_pk k /\ In (sk_sc k) (p_scs p)).
Proof. exact tables_structure. Qed.
Print Assumptions tables_structure.

(* the worker protocol, for every run without hypothesis: a parked Synchronize call names a registered
   worker whose removal is not armed, and no two calls name the same worker; the idle list of an
   invocation holds registered waiting workers of that queue whose last invocation it is, none twice;
   a queue whose removal is armed has no workers *)
Theorem parked_workers : forall cfg t0 evs,
  let s := fst (run (init cfg t0) evs) in
  (forall c p w, aget Nat.eqb c (s_calls s) = Some p -> sync_of p = Some w -> worker_exists s w = true /\ k_cleanup (get_worker s w) = None) /\
  (forall c c' p p' w, aget Nat.eqb c (s_calls s) = Some p -> aget Nat.eqb c' (s_calls s) = Some p' -> sync_of p = Some w -> sync_of p' = Some w -> c = c') /\
  (forall i w, In w (v_isync (get_inv s i)) ->
     worker_exists s w = true /\ k_wait (get_worker s w) = true /\ k_last (get_worker s w) = Some (i_path i) /\ w_sk w = i_sk i) /\
  (forall i, NoDup (v_isync (get_inv s i))) /\
  (forall k, q_cleanup (get_scq s k) <> None -> q_workers (get_scq s k) = []).
Proof. exact parked_workers. Qed.
Print Assumptions parked_workers.

(* the hypothesis is satisfiable by runs that do synchronize workers (and the conclusion is about a state
   with an assigned task): see the example run of PropertiesC02.v for a run with a worker *)
Example no_phantom_sync_example :
  no_phantom_sync [(EStartSync 1 (mkSync (mkW (mkSK (mkPK [] 0) 0) 7 7) WIdle false) 0, [])].
Proof. intros c a t h [Heq|[]]. inversion Heq; subst. reflexivity. Qed.

(* ---- sched_exclusive: the state predicate of C01 on every reachable state --------------------------------------------
   [selectors_in_range s evs] (ProofsFull8.v) is a predicate over the run: every event is judged in the state it is
   applied to (with its scheduling hints installed, as [step] does):
   - Execute: the size class index the selector answers is below the number of size classes of the platform queue
     the request is routed to (looked up after the clean-up that starts the call, as the scheduler does);
   - Synchronize: the worker id is not the "no worker" placeholder, and a task reported as completed successfully has
     a learner whose background size class index (if any) is below the number of size classes of its platform queue;
   - KillOperations never carries status OK.
   Outside this hypothesis the model is a totalisation ([nth idx scs 0], a kill that "succeeds"): the Go code would
   fail with an index out of range; that analyzers never answer such an index is the ISC area's choice_in_range.
   [panicked os]: some event of the run reported a scheduler panic (an observation the monitor flags by itself);
   a panic in assignUnqueued / task.complete leaves a task detached, so nothing is claimed after one.
   Conclusion: Spec.c01_dump of the observed state is "" -- every registered operation is consistent (completed:
   neither queued nor assigned; assigned: not queued, its worker is registered in the operation's size class queue and
   runs exactly this task; otherwise queued in the invocation it names, which exists in an existing queue), all
   operations of a task agree, every worker's task points back to it with operations in the worker's queue and no
   response, every queue entry is a registered queued operation of that invocation, and no operation is queued twice. *)
Theorem sched_exclusive : forall cfg t0 evs, selectors_in_range (init cfg t0) evs ->
  panicked (snd (run (init cfg t0) evs)) \/ c01_dump (observe (fst (run (init cfg t0) evs))) = ""%string.
Proof. exact sched_exclusive. Qed.
Print Assumptions sched_exclusive.

(* the platform queue structure, for every run without hypothesis: platform queue keys are unique, their size class
   lists have no duplicates, and every size class a platform queue lists has its size class queue *)
Theorem platform_queues_structure : forall cfg t0 evs,
  let s := fst (run (init cfg t0) evs) in
  NoDup (map p_key (s_pqs s)) /\
  (forall p, In p (s_pqs s) -> NoDup (p_scs p)) /\
  (forall p c, In p (s_pqs s) -> In c (p_scs p) -> scq_exists s (mkSK (p_key p) c) = true).
Proof. exact Sp_run. Qed.
Print Assumptions platform_queues_structure.

(* Non-vacuity: a history generated by the harness on the real InMemoryBuildQueue (103 events; ProofsFullEx.v holds
   its configuration, start time and events as printed into the case file) satisfies the hypothesis, reports no
   panic, and therefore its final state satisfies c01_dump. *)
Example generated_history_in_range : selectors_in_range (init gen_cfg gen_t0) gen_evs.
Proof. exact gen_selectors_in_range. Qed.
Example generated_history_exclusive : c01_dump (observe (fst (run (init gen_cfg gen_t0) gen_evs))) = ""%string.
Proof.
  destruct (sched_exclusive gen_cfg gen_t0 gen_evs gen_selectors_in_range) as [[o [what [Ho Hp]]]|H]; [|exact H].
  exfalso. exact (gen_no_panic o what Ho Hp).
Qed.

(* ---- the monitor of Spec.v on the model's own traces ------------------------------------------------------------------------
   [model_trace cfg t0 evs] (ProofsMon2.v) is the list of (event, observations, observed state) triples the model produces
   for the event list; [trace_ok] folds the very [Spec.p_step] over such a list, starting from [mon0] and the empty dump,
   exactly as Corr.check_case does with the implementation's trace.  [p_step] reports the first non-empty of nineteen
   components ([p_components], ProofsMon1.v, with [p_step_components]: p_step = (pm_final .., first_nonempty (p_components ..)));
   [trace_sub sel] is the same fold looking only at the components whose positions are in [sel]
   ([trace_sub_all]: all twenty-two positions give [trace_ok]; [trace_sub_app]: selections combine).
   Proved so far: the panic component and the five state predicates, positions [sel_state] = 0 (e_panic), 1 (c01_dump),
   6 (c03_dump), 7 (c03_waited), 8 (c04_dump), 17 (c07_background). *)
Theorem p_step_components : forall cfg t0 m pre e o post,
  p_step cfg t0 m pre e o post = (pm_final cfg pre post e o m, first_nonempty (p_components cfg t0 m pre e o post)).
Proof. exact p_step_components. Qed.
Print Assumptions p_step_components.

Theorem trace_sub_all : forall cfg t0 tr m pre, trace_sub_from (seq 0 22) cfg t0 m pre tr = trace_ok_from cfg t0 m pre tr.
Proof. exact trace_sub_all. Qed.
Print Assumptions trace_sub_all.

Theorem monitor_state_components_on_model : forall cfg t0 evs,
  selectors_in_range (init cfg t0) evs -> fresh_calls [] evs -> bg_scripts_ok evs ->
  panicked (snd (run (init cfg t0) evs)) \/ trace_sub sel_state cfg t0 (model_trace cfg t0 evs) = true.
Proof. exact monitor_state_components_on_model. Qed.
Print Assumptions monitor_state_components_on_model.

(* e_exec (position 9: c07_exec, c03_exec, c05_exec on the model's own Execute steps) and c06_final (position 12) *)
Theorem monitor_exec_on_model : forall cfg t0 evs,
  selectors_in_range (init cfg t0) evs -> fresh_calls [] evs -> bg_scripts_ok evs ->
  panicked (snd (run (init cfg t0) evs)) \/ trace_sub [9%nat] cfg t0 (model_trace cfg t0 evs) = true.
Proof. exact monitor_exec_on_model. Qed.
Print Assumptions monitor_exec_on_model.

Theorem monitor_c06_final_on_model : forall cfg t0 evs,
  selectors_in_range (init cfg t0) evs -> fresh_calls [] evs -> bg_scripts_ok evs ->
  panicked (snd (run (init cfg t0) evs)) \/ trace_sub [12%nat] cfg t0 (model_trace cfg t0 evs) = true.
Proof. exact monitor_c06_final_on_model. Qed.
Print Assumptions monitor_c06_final_on_model.

(* e_sync (position 2): an "execute" answer names the task the post-state assigns to the calling worker, uncompleted,
   with the action the dump shows; rests on DN: an uncompleted task that lists operations has an action *)
Theorem uncompleted_task_has_action : forall cfg t0 evs, DN (fst (run (init cfg t0) evs)).
Proof. exact DN_run. Qed.
Print Assumptions uncompleted_task_has_action.

Theorem monitor_sync_on_model : forall cfg t0 evs,
  selectors_in_range (init cfg t0) evs -> fresh_calls [] evs -> bg_scripts_ok evs ->
  panicked (snd (run (init cfg t0) evs)) \/ trace_sub [2%nat] cfg t0 (model_trace cfg t0 evs) = true.
Proof. exact monitor_sync_on_model. Qed.
Print Assumptions monitor_sync_on_model.

(* all components proved so far, in one statement; sel_proved names their positions in p_components *)
Theorem monitor_components_on_model : forall cfg t0 evs,
  selectors_in_range (init cfg t0) evs -> fresh_calls [] evs -> bg_scripts_ok evs -> learner_ids_unique evs -> causes_ok evs ->
  panicked (snd (run (init cfg t0) evs)) \/ trace_sub sel_proved cfg t0 (model_trace cfg t0 evs) = true.
Proof. exact monitor_components_on_model. Qed.
Print Assumptions monitor_components_on_model.

(* the whole monitor (all nineteen components) accepts the model's trace of the generated history, and of the history
   with the cyclic order on idle children (by computation) *)
Example generated_history_trace_ok : trace_ok gen_cfg gen_t0 (model_trace gen_cfg gen_t0 gen_evs) = true.
Proof. vm_compute. reflexivity. Qed.
Example cyclic_history_trace_ok : trace_ok c04w_cfg 1000 (model_trace c04w_cfg 1000 c04w_evs) = true.
Proof. vm_compute. reflexivity. Qed.
