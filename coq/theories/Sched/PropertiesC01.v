(* C01 — the property theorems about the scheduler model, and nothing else. *)
From VF Require Import Sched.Proofs.
Open Scope Z_scope.

(* COMPLETED is absorbing for task.complete: completing a task that already
   has a response changes nothing (no second response, no worker change,
   no output). *)
Theorem completed_absorbing : forall s t r0 r b,
  t_resp (get_task s t) = Some r0 -> complete_task t r b s = s.
Proof. exact completed_absorbing. Qed.
Print Assumptions completed_absorbing.
