(* C01 — the property theorems about the scheduler model, and nothing else. *)
From VF Require Import Sched.Proofs.
Open Scope Z_scope.

(* COMPLETED is absorbing for task.complete: completing a task that already
   has a response changes nothing (no second response, no worker change,
   no output) ... *)
Theorem completed_absorbing : forall s t r0 r b,
  t_resp (get_task s t) = Some r0 -> complete_task t r b s = s.
Proof. exact completed_absorbing. Qed.
Print Assumptions completed_absorbing.

(* ... and over every run from every state: once a task has a response, every
   later state records the same response (no event list, whatever the hints,
   ever changes or clears it). *)
Theorem completed_absorbing_run : forall evs s t r,
  t_resp (get_task s t) = Some r -> t_resp (get_task (fst (run s evs)) t) = Some r.
Proof. exact completed_absorbing_run. Qed.
Print Assumptions completed_absorbing_run.

(* sync_tells_assigned: whenever an event makes a Synchronize call answer
   "execute", some worker is assigned a task in the state the event leaves
   behind and the answer is exactly that task's desired state (digest,
   do_not_cache, timeout, queued timestamp, instance name suffix).  For every
   state and event (no reachability hypothesis). *)
Theorem sync_tells_assigned : forall s eh c dg dnc tm qts sfx z,
  In (OSync c (DExec dg dnc tm qts sfx) z) (snd (step s eh)) ->
  let s' := fst (step s eh) in
  exists w t, k_task (get_worker s' w) = Some t /\ exec_desired s' t = DExec dg dnc tm qts sfx.
Proof. exact sync_tells_assigned_step. Qed.
Print Assumptions sync_tells_assigned.

(* NOT PROVED (docs/areas/Sched-proofs.md):
   Theorem sched_exclusive : forall cfg t0 evs, fresh_calls [] evs -> c01_dump (observe (fst (run (init cfg t0) evs))) = ""
     (t_worker t = Some w <-> k_task w = Some t; queued operations are registered, their task has no worker
      and no response, no operation queued twice);
   Theorem no_start_after_complete (the task named by sync_tells_assigned has no response). *)
