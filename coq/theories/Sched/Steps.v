(* Events of the scheduler model: one event = one harness action = one
   critical section of one RPC goroutine (see DESIGN.md §2). *)
From VF Require Export Sched.Model.
Open Scope Z_scope.

Inductive event :=
| EStartExecute (c : nat) (a : exec_args) (t : Z)
| EStartWait (c : nat) (name : nat) (t : Z)
| EStartSync (c : nat) (a : sync_args) (t : Z)
| EStartKill (c : nat) (name : nat) (code : N) (t : Z)
| EKillQueue (c : nat) (k : skey) (code : N) (t : Z)
| EAddDrain (c : nat) (k : skey) (p : pattern) (t : Z)
| ERemoveDrain (c : nat) (k : skey) (p : pattern) (t : Z)
| EStartTerminate (c : nat) (p : pattern) (t : Z)
| ERegister (c : nat) (k : pkey) (limits : list Z) (maxbg : nat) (bgprio : Z) (scs : list N) (t : Z)
| ETick (c : nat) (t : Z)            (* any read-only RPC: only runs enter() *)
| EEnter (c : nat) (t : Z)           (* release a call parked at the clock gate; clock reads t *)
| ETimer (c : nat) (t : Z)           (* fire the call's timer with value t *)
| ECancel (c : nat).                 (* cancel the call's context *)

(* ---- is a parked call at the clock gate (its wake-up condition holds)? ----- *)
Definition chan_closed (s : state) (t gen : nat) : bool :=
  let x := get_task s t in
  negb (Nat.eqb (t_gen x) gen) || match t_resp x with Some _ => true | None => false end.

Definition at_gate (s : state) (p : pc) : bool :=
  match p with
  | PStream o gen => chan_closed s (o_task (get_op s o)) gen
  | PStreamCancelled _ | PStreamReturn _ _ | PWaitRecheck _ | PKillLookup _ _ | PKillRecheck _ _ => true
  | PSyncDrained w gen => negb (Nat.eqb (q_undrain (get_scq s (w_sk w))) gen)
  | PSyncQueued w => negb (k_wait (get_worker s w))
  | PSyncCancelled _ _ => true
  | _ => false
  end.

Definition gated_calls (s : state) : list nat :=
  map fst (filter (fun '(_, p) => at_gate s p) (s_calls s)).

(* ---- streams (operation.waitExecution) ---------------------------------------- *)
Definition stream_iter (c o : nat) (s : state) : state :=
  let x := get_task s (o_task (get_op s o)) in
  let s := emit (OMsg c o (task_stage x) (t_resp x)) s in
  match t_resp x with
  | Some _ => set_call c (PStreamReturn o cOK) s
  | None => set_call c (PStream o (t_gen x)) s
  end.

Definition wait_execution_begin (c o : nat) (s : state) : state :=
  let s := upd_op o (fun y => y <| o_cleanup := None |> <| o_waiters ::= S |>) s in
  stream_iter c o s.

Definition stream_return (c o : nat) (code : N) (s : state) : state :=
  let s := match o_waiters (get_op s o) with
           | O => panic "Invalid waiters count on operation" s
           | S n => upd_op o (fun y => y <| o_waiters := n |>) s
           end in
  let s := maybe_start_cleanup o s in
  set_call c PDone (emit (ORet c code) s).

Definition ret (c : nat) (code : N) (s : state) : state := set_call c PDone (emit (ORet c code) s).

(* ---- Execute ------------------------------------------------------------------- *)
Fixpoint drop_prefix (pre l : list N) : list N :=
  match pre, l with
  | _ :: p', _ :: l' => drop_prefix p' l'
  | _, _ => l
  end.

Definition longest_prefix_pq (s : state) (plat : N) (inst : list N) : option pq :=
  fold_left (fun best p =>
    if (pk_plat (p_key p) =? plat)%N && is_prefix (pk_prefix (p_key p)) inst then
      match best with
      | Some b => if Nat.ltb (List.length (pk_prefix (p_key b))) (List.length (pk_prefix (p_key p))) then Some p else best
      | None => Some p
      end
    else best) (s_pqs s) None.

Definition exec_start (c : nat) (a : exec_args) (s : state) : state :=
  match aget dkey_eqb (x_instance a, x_digest a) (s_inflight s) with
  | Some t0 =>
    let s := emit (OGhost GSelAbandoned) s in
    let k := task_scq s t0 in
    let s := get_or_create_invocation k (x_keys a) s in
    let i := mkI k (x_keys a) in
    match aget iref_eqb i (t_ops (get_task s t0)) with
    | Some o => wait_execution_begin c o s
    | None =>
      let '(s, o) := new_operation t0 (x_prio a) i false s in
      let s := match task_stage (get_task s t0) with
               | 2%N => enqueue o s
               | 3%N => match t_worker (get_task s t0) with
                        | Some w => increment_executing i w s
                        | None => s
                        end
               | _ => panic "Task in unexpected stage" s
               end in
      wait_execution_begin c o s
    end
  | None =>
    match longest_prefix_pq s (x_plat a) (x_instance a) with
    | None =>
      ret c (if s_now s <? s_hardfail s then cUNAVAILABLE else cFAILEDPRE) (emit (OGhost GSelAbandoned) s)
    | Some p =>
      let s := emit (OGhost GSelect) s in
      let '(idx, dur, timeout, l) := x_sel a in
      let k := mkSK (p_key p) (nth idx (p_scs p) 0%N) in
      let t := s_ntasks s in
      let s := s <| s_ntasks ::= S |>
                 <| s_tasks ::= fun ts => ts ++ [(t, mkTask [] (x_instance a) (x_digest a) (Some (x_dnc a)) timeout (s_now s)
                                                        (drop_prefix (pk_prefix (p_key p)) (x_instance a))
                                                        None 0 dur (Some l) None 0)] |> in
      let s := if x_dnc a then s else s <| s_inflight ::= aset dkey_eqb (x_instance a, x_digest a) t |> in
      let s := get_or_create_invocation k (x_keys a) s in
      let '(s, o) := new_operation t (x_prio a) (mkI k (x_keys a)) false s in
      wait_execution_begin c o (schedule t s)
    end
  end.

(* ---- Synchronize ---------------------------------------------------------------- *)
Definition finish_sync (c : nat) (w : wref) (s : state) : state :=
  let s := match k_cleanup (get_worker s w) with
           | Some _ => panic "Cleanup key is already in use" s
           | None => upd_worker w (fun k => k <| k_cleanup := Some (s_now s + cf_worker_timeout (s_cfg s)) |>) s
           end in
  set_call c PDone s.

Definition exec_desired (s : state) (t : nat) : desired :=
  let x := get_task s t in
  DExec (t_digest x) (match t_dnc x with Some b => b | None => false end) (t_timeout x) (t_qts x) (t_suffix x).

Definition sync_return_exec (c : nat) (w : wref) (s : state) : state :=
  match k_task (get_worker s w) with
  | Some t => finish_sync c w (emit (OSync c (exec_desired s t) (s_now s + cf_busy_sync (s_cfg s))) s)
  | None => finish_sync c w (panic "executing response without task" s)
  end.
Definition sync_return_idle (c : nat) (w : wref) (s : state) : state :=
  finish_sync c w (emit (OSync c DIdle (s_now s)) s).
Definition sync_return_err (c : nat) (w : wref) (code : N) (s : state) : state :=
  finish_sync c w (emit (ORet c code) s).

(* the blocking loop of getNextTask, entered with the lock held *)
Definition sync_loop (c : nat) (w : wref) (s : state) : state :=
  if is_drained s w then set_call c (PSyncDrained w (q_undrain (get_scq s (w_sk w)))) s
  else
    let '(s', ok) := assign_next_queued_task w s in
    if ok then sync_return_exec c w s'
    else
      let k := get_worker s w in
      if k_wait k then panic "Worker is already queued" s else
      match k_last k with
      | Some p =>
        let s := upd_worker w (fun k => k <| k_wait := true |>) s in
        let s := upd_inv (last_iref w p) (fun v => v <| v_isync ::= fun l => l ++ [w] |>) s in
        set_call c (PSyncQueued w) s
      | None => panic "parking a worker without last invocation" s
      end.

Definition get_next_task (c : nat) (w : wref) (blocking prefer : bool) (s : state) : state :=
  if prefer then sync_return_idle c w s else
  let drained := is_drained s w in
  let '(s', ok) := if drained then (s, false) else assign_next_queued_task w s in
  if ok then sync_return_exec c w s'
  else if negb blocking then sync_return_idle c w s
  else sync_loop c w s.

Definition get_current_or_next (c : nat) (w : wref) (blocking prefer : bool) (s : state) : state :=
  match k_task (get_worker s w) with
  | Some t =>
    if Nat.ltb (t_retry (get_task s t)) (cf_retry_count (s_cfg s)) then
      let s := upd_task t (fun x => x <| t_retry ::= S |>) s in
      sync_return_exec c w s
    else get_next_task c w blocking prefer (complete_task t (mkResp cINTERNAL 0 0) false s)
  | None => get_next_task c w blocking prefer s
  end.

Definition running_correct (s : state) (w : wref) (d : N) : bool :=
  match k_task (get_worker s w) with
  | Some t => (t_digest (get_task s t) =? d)%N
  | None => false
  end.

Fixpoint insert_sorted (x : N) (l : list N) : list N :=
  match l with
  | [] => [x]
  | y :: tl => if (y <? x)%N then y :: insert_sorted x tl else x :: l
  end.

Definition add_scq (k : skey) (removable : bool) (s : state) : state :=
  let s := upd_pq (sk_pk k) (fun p => p <| p_scs ::= insert_sorted (sk_sc k) |>) s in
  s <| s_scqs ::= fun l => l ++ [(k, mkScq removable None [] 0 [])] |>
    <| s_invs ::= fun l => l ++ [(mkI k [], new_inv 0)] |>.

Definition add_pq (k : pkey) (limits : list Z) (maxbg : nat) (bgprio : Z) (s : state) : state :=
  s <| s_pqs ::= fun l => l ++ [mkPq k limits maxbg bgprio []] |>.

Definition scq_exists (s : state) (k : skey) : bool :=
  match aget skey_eqb k (s_scqs s) with Some _ => true | None => false end.

Definition sync_start (c : nat) (a : sync_args) (s : state) : state :=
  let w := y_worker a in
  let k := w_sk w in
  (* find or create the size class queue *)
  let r : state + N :=
    if scq_exists s k then inl (upd_scq k (fun q => q <| q_cleanup := None |>) s)
    else match get_pq s (sk_pk k) with
         | Some p =>
           let maxk := mkSK (sk_pk k) (largest_sc p) in
           if q_removable (get_scq s maxk) then inr cINVALID
           else if (largest_sc p <? sk_sc k)%N then inr cINVALID
           else if (0 <? largest_sc p)%N && (sk_sc k <? 1)%N then inr cINVALID
           else inl (add_scq k true s)
         | None => inl (add_scq k true (add_pq (sk_pk k) [] 0 0 s))
         end in
  match r with
  | inr code => ret c code s
  | inl s =>
    let r2 : state + N :=
      if worker_exists s w then
        match k_cleanup (get_worker s w) with
        | None => inr cEXHAUSTED
        | Some _ => inl (upd_worker w (fun k => k <| k_cleanup := None |>) s)
        end
      else
        let nl := List.length (limits_of s k) in
        let s := upd_scq k (fun q => q <| q_workers ::= fun l => l ++ [(w, mkWorker None None false (Some []) false (repeat 0 nl))] |>) s in
        inl (upd_inv (mkI k []) (fun v => v <| v_idle ::= N.succ |>) s) in
    match r2 with
    | inr code => ret c code s
    | inl s =>
      match y_state a with
      | WNoState => sync_return_err c w cINVALID s
      | WIdle => get_current_or_next c w true (y_prefer_idle a) s
      | WExecuting d =>
        if running_correct s w d
        then finish_sync c w (emit (OSync c DNone (s_now s + cf_busy_sync (s_cfg s))) s)
        else get_current_or_next c w false (y_prefer_idle a) s
      | WCompleted d r =>
        if running_correct s w d
        then match k_task (get_worker s w) with
             | Some t => get_next_task c w true (y_prefer_idle a) (complete_task t r true s)
             | None => s
             end
        else get_current_or_next c w true (y_prefer_idle a) s
      end
    end
  end.

(* ---- operator calls --------------------------------------------------------------- *)
Definition kill_lookup (c name : nat) (code : N) (s : state) : state :=
  if op_alive s name then set_call c (PKillRecheck name code) s else ret c cNOTFOUND s.

Definition all_workers (s : state) : list wref := flat_map (fun '(_, q) => map fst (q_workers q)) (s_scqs s).

Definition sorted_strict (l : list N) : bool :=
  (fix go (l : list N) : bool :=
     match l with
     | x :: ((y :: _) as tl) => (x <? y)%N && go tl
     | _ => true
     end) l.

Definition terminate_done (s : state) (waits : list (nat * nat)) : bool :=
  forallb (fun '(t, g) => chan_closed s t g) waits.

(* TerminateWorkers calls return by themselves once everything they wait for completed *)
Definition auto_returns (s : state) : state :=
  fold_left (fun s '(c, p) =>
    match p with
    | PTerminate waits => if terminate_done s waits then ret c cOK s else s
    | _ => s
    end) (s_calls s) s.

Definition step_core (e : event) (s : state) : state :=
  match e with
  | EStartExecute c a t => exec_start c a (enter t s)
  | EStartWait c name t =>
    let s := enter t s in
    if op_alive s name then set_call c (PWaitRecheck name) s else ret c cNOTFOUND s
  | EStartSync c a t => sync_start c a (enter t s)
  | EStartKill c name code t => kill_lookup c name code (enter t s)
  | EKillQueue c k code t =>
    let s := enter t s in
    if negb (scq_exists s k) then ret c cNOTFOUND s
    else if negb (Nat.eqb (List.length (q_workers (get_scq s k))) 0) then ret c cFAILEDPRE s
    else ret c cOK (cancel_all_queued (mkI k []) (mkResp code 0 0) s)
  | EAddDrain c k p t =>
    let s := enter t s in
    if negb (scq_exists s k) then ret c cNOTFOUND s else
    let s := upd_scq k (fun q => if existsb (pattern_eqb p) (q_drains q) then q else q <| q_drains ::= fun l => l ++ [p] |>) s in
    let s := fold_left (fun s '(w, _) =>
                if k_wait (get_worker s w) && matches w p then wake_up w s else s)
              (q_workers (get_scq s k)) s in
    ret c cOK s
  | ERemoveDrain c k p t =>
    let s := enter t s in
    if negb (scq_exists s k) then ret c cNOTFOUND s else
    ret c cOK (upd_scq k (fun q => q <| q_drains ::= filter (fun p' => negb (pattern_eqb p p')) |> <| q_undrain ::= S |>) s)
  | EStartTerminate c p t =>
    let s := enter t s in
    let '(s, waits) := fold_left (fun (acc : state * list (nat * nat)) w =>
        let '(s, waits) := acc in
        if matches w p then
          let s := mark_terminating w s in
          match k_task (get_worker s w) with
          | Some tk => (s, waits ++ [(tk, t_gen (get_task s tk))])
          | None => (if k_wait (get_worker s w) then wake_up w s else s, waits)
          end
        else (s, waits)) (all_workers s) (s, []) in
    set_call c (PTerminate waits) s
  | ERegister c k limits maxbg bgprio scs t =>
    if Nat.eqb (List.length scs) 0 || negb (sorted_strict scs)
       || (Nat.ltb 1 (List.length scs) && (hd 0%N scs =? 0)%N)
    then ret c cINVALID s else
    let s := enter t s in
    match get_pq s k with
    | Some _ => ret c cALREADY s
    | None => ret c cOK (fold_left (fun s sc => add_scq (mkSK k sc) false s) scs (add_pq k limits maxbg bgprio s))
    end
  | ETick c t => ret c cOK (enter t s)
  | EEnter c t =>
    let p := get_call s c in
    if negb (at_gate s p) then s else
    let s := enter t s in
    match p with
    | PStream o _ => stream_iter c o s
    | PStreamCancelled o => stream_return c o cCANCELLED s
    | PStreamReturn o code => stream_return c o code s
    | PWaitRecheck name => if op_alive s name then wait_execution_begin c name s else ret c cNOTFOUND s
    | PKillLookup name code => kill_lookup c name code s
    | PKillRecheck name code =>
      if op_alive s name
      then ret c cOK (complete_task (o_task (get_op s name)) (mkResp code 0 0) false s)
      else set_call c (PKillLookup name code) s
    | PSyncDrained w _ => sync_loop c w s
    | PSyncQueued w =>
      match k_task (get_worker s w) with
      | Some _ => sync_return_exec c w s
      | None => sync_loop c w s
      end
    | PSyncCancelled w queued =>
      sync_return_err c w cCANCELLED (if queued then maybe_dequeue w s else s)
    | _ => s
    end
  | ETimer c t =>
    let p := get_call s c in
    if at_gate s p then s else
    match p with
    | PStream o _ => stream_iter c o (enter t s)
    | PSyncDrained w _ => sync_return_idle c w (enter t s)
    | PSyncQueued w =>
      let s := maybe_dequeue w (enter t s) in
      match k_task (get_worker s w) with
      | Some _ => sync_return_exec c w s
      | None => sync_return_idle c w s
      end
    | _ => s
    end
  | ECancel c =>
    let p := get_call s c in
    if at_gate s p then s else
    match p with
    | PStream o _ => set_call c (PStreamCancelled o) s
    | PSyncDrained w _ => set_call c (PSyncCancelled w false) s
    | PSyncQueued w => set_call c (PSyncCancelled w true) s
    | PTerminate _ => ret c cCANCELLED s
    | _ => s
    end
  end.

Definition step (s : state) (eh : event * list (nat * wref)) : state * list obs :=
  let s := s <| s_hints := snd eh |> <| s_out := [] |> in
  let s := auto_returns (step_core (fst eh) s) in
  (s <| s_out := [] |> <| s_hints := [] |>, rev (s_out s)).

Fixpoint run (s : state) (evs : list (event * list (nat * wref))) : state * list (list obs) :=
  match evs with
  | [] => (s, [])
  | e :: tl => let '(s1, o) := step s e in
               let '(s2, os) := run s1 tl in (s2, o :: os)
  end.
