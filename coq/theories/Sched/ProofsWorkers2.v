(* C01, worker protocol layer, continued: the sections of Synchronize calls, events, runs. *)
From Coq Require Import Lia.
From VF Require Export Sched.ProofsWorkers.
Open Scope Z_scope.

Lemma SW_eq : forall s s', s_calls s' = s_calls s -> s_scqs s' = s_scqs s -> s_invs s' = s_invs s -> s_pqs s' = s_pqs s -> SW s -> SW s'.
Proof. intros s s' E1 E2 E3 E4 [HS HW]. split; [eapply St_frame; eassumption|eapply WP_frame; eassumption]. Qed.

Lemma drained_sync : forall p w, drained_of p = Some w -> sync_of p = Some w.
Proof. intros p w H. destruct p; try discriminate; cbn in *; [exact H|destruct queued; [discriminate|exact H]]. Qed.

Lemma WP_isync_add : forall s i w,
  worker_exists s w = true -> k_wait (get_worker s w) = true -> k_last (get_worker s w) = Some (i_path i) -> w_sk w = i_sk i ->
  ~ In w (v_isync (get_inv s i)) ->
  WP s -> WP (upd_inv i (fun v => v <| v_isync ::= fun l => l ++ [w] |>) s).
Proof.
  intros s i w Hex Hkw Hl Hsk Hni [A2 [A3 [B1 [B5 [B3 [X8 [X8n E7]]]]]]].
  set (s' := upd_inv i _ s).
  assert (Hw : forall w', get_worker s' w' = get_worker s w') by (intro; apply get_worker_frame'; apply scqs_upd_inv).
  assert (Hex' : forall w', worker_exists s' w' = worker_exists s w') by (intro; apply worker_exists_frame; apply scqs_upd_inv).
  assert (Hq : forall k, get_scq s' k = get_scq s k) by (intro; apply get_scq_frame; apply scqs_upd_inv).
  assert (Hcalls : s_calls s' = s_calls s) by apply calls_upd_inv.
  assert (Hi : forall i', v_isync (get_inv s' i') = v_isync (get_inv s i') \/ (i' = i /\ v_isync (get_inv s' i') = v_isync (get_inv s i) ++ [w])).
  { intro i'. unfold s'. rewrite get_inv_upd_inv. destruct (iref_eqb i' i && inv_exists s i) eqn:E; [|auto].
    apply andb_true_iff in E. destruct E as [E _]. apply iref_eqb_eq in E. subst. right. auto. }
  unfold WP. rewrite Hcalls. wp_split.
  - intros c p w' Hc Hs. rewrite Hex', Hw. eapply A2; eassumption.
  - exact A3.
  - intro w'. rewrite Hw. apply B1.
  - intro w'. rewrite Hw. apply B5.
  - intros c p w' Hc Hd. rewrite Hw. eapply B3; eassumption.
  - intros i' w' Hin. rewrite Hex', Hw. destruct (Hi i') as [E|[-> E]]; rewrite E in Hin; [apply (X8 i'); exact Hin|].
    apply in_app_or in Hin. destruct Hin as [Hin|[<-|[]]]; [apply (X8 i); exact Hin|auto].
  - intro i'. destruct (Hi i') as [E|[-> E]]; rewrite E; [apply X8n|].
    pose proof (X8n i) as Hnd. rewrite <- (rev_involutive (v_isync (get_inv s i) ++ [w])). apply NoDup_rev.
    rewrite rev_app_distr. cbn. constructor; [rewrite <- in_rev; exact Hni|apply NoDup_rev; exact Hnd].
  - intro k. rewrite Hq. apply E7.
Qed.

Lemma SW_finish_sync : forall s c w,
  k_wait (get_worker s w) = false -> only_names c w s -> SW s -> SW (finish_sync c w s).
Proof.
  intros s c w Hkw Hon H.
  set (s0 := set_call c PDone s).
  assert (H0 : SW s0) by (apply SW_setcall_plain; [reflexivity|exact H]).
  assert (Hun : forall c' p, aget Nat.eqb c' (s_calls s0) = Some p -> sync_of p <> Some w).
  { intros c' p Hc Hs. unfold s0, set_call in Hc. cbn in Hc. rewrite (aget_aset Nat.eqb nat_eqb_eq) in Hc.
    destruct (Nat.eqb c' c) eqn:E; [inversion Hc; subst; discriminate|].
    apply Nat.eqb_neq in E. apply E. eapply Hon; eassumption. }
  set (s1 := match k_cleanup (get_worker s0 w) with
             | Some _ => panic "Cleanup key is already in use" s0
             | None => upd_worker w (fun k => k <| k_cleanup := Some (s_now s0 + cf_worker_timeout (s_cfg s0)) |>) s0
             end).
  assert (H1 : SW s1).
  { unfold s1. destruct (k_cleanup (get_worker s0 w)) eqn:Ec; [eapply SW_eq; [ | | | |exact H0]; reflexivity|].
    destruct H0 as [HS0 HW0]. split; [apply St_upd_worker; exact HS0|].
    pose proof HW0 as [A2 [A3 [B1 [B5 [B3 [X8 [X8n E7]]]]]]].
    apply WP_upd_worker_gen; [| | | | |exact HW0]; cbn.
    - intros _. exact Hkw.
    - intros [c' [p [Hc Hs]]]. exfalso. exact (Hun _ _ Hc Hs).
    - change (get_worker s0 w) with (get_worker s w). rewrite Hkw. discriminate.
    - intros _. exact Hkw.
    - intros i Hin. exfalso. destruct (X8 _ _ Hin) as [_ [E2 _]]. change (get_worker s0 w) with (get_worker s w) in E2. congruence. }
  eapply SW_eq; [ | | | |exact H1]; unfold finish_sync, s1, s0.
  - change (get_worker (set_call c PDone s) w) with (get_worker s w).
    destruct (k_cleanup (get_worker s w)); [reflexivity|]. cbn. rewrite !calls_upd_worker. reflexivity.
  - change (get_worker (set_call c PDone s) w) with (get_worker s w).
    destruct (k_cleanup (get_worker s w)); [reflexivity|]. cbn.
    unfold upd_worker. change (worker_exists (set_call c PDone s) w) with (worker_exists s w).
    destruct (worker_exists s w); [|reflexivity]. unfold upd_scq. cbn. destruct (aget skey_eqb (w_sk w) (s_scqs s)); reflexivity.
  - change (get_worker (set_call c PDone s) w) with (get_worker s w).
    destruct (k_cleanup (get_worker s w)); [reflexivity|]. cbn. rewrite !invs_upd_worker. reflexivity.
  - change (get_worker (set_call c PDone s) w) with (get_worker s w).
    destruct (k_cleanup (get_worker s w)); [reflexivity|]. cbn. rewrite (upd_worker_eq w _ (set_call c PDone s)). rewrite (upd_worker_eq w _ s). reflexivity.
Qed.

(* parking a Synchronize call on the worker's wake-up channel *)
Lemma SW_park_queued : forall s c w p,
  worker_exists s w = true -> k_cleanup (get_worker s w) = None -> k_wait (get_worker s w) = false ->
  k_last (get_worker s w) = Some p -> only_names c w s -> SW s ->
  SW (set_call c (PSyncQueued w)
        (upd_inv (last_iref w p) (fun v => v <| v_isync ::= fun l => l ++ [w] |>)
           (upd_worker w (fun k => k <| k_wait := true |>) s))).
Proof.
  intros s c w p Hex Hcn Hkw Hl Hon H.
  set (s0 := set_call c (PSyncQueued w) s).
  assert (H0 : SW s0) by (apply (SW_setcall_sync s c (PSyncQueued w) w); [reflexivity|exact Hex|exact Hcn|discriminate|exact Hon|exact H]).
  set (s1 := upd_worker w (fun k => k <| k_wait := true |>) s0).
  assert (H1 : SW s1).
  { destruct H0 as [HS0 HW0]. split; [apply St_upd_worker; exact HS0|].
    pose proof HW0 as [A2 [A3 [B1 [B5 [B3 [X8 [X8n E7]]]]]]].
    apply WP_upd_worker_gen; [| | | | |exact HW0]; change (get_worker s0 w) with (get_worker s w); cbn.
    - rewrite Hcn. congruence.
    - intros _. exact Hcn.
    - rewrite Hl. discriminate.
    - intros [c' [p' [Hc Hd]]]. exfalso. pose proof (drained_sync _ _ Hd) as Hs.
      unfold s0, set_call in Hc. cbn in Hc. rewrite (aget_aset Nat.eqb nat_eqb_eq) in Hc.
      destruct (Nat.eqb c' c) eqn:E; [inversion Hc; subst; discriminate|].
      apply Nat.eqb_neq in E. apply E. eapply Hon; eassumption.
    - intros i Hin. exfalso. destruct (X8 _ _ Hin) as [_ [E2 _]]. change (get_worker s0 w) with (get_worker s w) in E2. congruence. }
  assert (Hg1 : get_worker s1 w = (get_worker s w) <| k_wait := true |>).
  { unfold s1. rewrite get_worker_upd_worker, wref_eqb_refl. change (worker_exists s0 w) with (worker_exists s w). rewrite Hex. reflexivity. }
  set (s2 := upd_inv (last_iref w p) (fun v => v <| v_isync ::= fun l => l ++ [w] |>) s1).
  assert (H2 : SW s2).
  { destruct H1 as [HS1 HW1]. split; [apply St_upd_inv; exact HS1|].
    apply WP_isync_add; [| | | | |exact HW1].
    - unfold s1. rewrite worker_exists_upd_worker. exact Hex.
    - rewrite Hg1. reflexivity.
    - rewrite Hg1. cbn. exact Hl.
    - reflexivity.
    - intro Hin. destruct HW1 as [_ [_ [_ [_ [_ [X8 _]]]]]].
      (* in s0 (before the flag was set) nobody not waiting is listed *)
      destruct H0 as [_ [_ [_ [_ [_ [_ [X80 _]]]]]]].
      assert (Hin0 : In w (v_isync (get_inv s0 (last_iref w p)))).
      { unfold s1 in Hin. rewrite (get_inv_frame s0) in Hin by apply invs_upd_worker. exact Hin. }
      destruct (X80 _ _ Hin0) as [_ [E2 _]]. change (get_worker s0 w) with (get_worker s w) in E2. congruence. }
  eapply SW_eq; [ | | | |exact H2]; unfold s2, s1, s0.
  - cbn. rewrite !calls_upd_inv, !calls_upd_worker. reflexivity.
  - cbn. rewrite !scqs_upd_inv. unfold upd_worker. change (worker_exists (set_call c (PSyncQueued w) s) w) with (worker_exists s w).
    destruct (worker_exists s w); [|reflexivity]. unfold upd_scq. cbn. destruct (aget skey_eqb (w_sk w) (s_scqs s)); reflexivity.
  - cbn. unfold upd_inv. rewrite !invs_upd_worker. cbn. destruct (aget iref_eqb (last_iref w p) (s_invs s)); cbn; rewrite ?invs_upd_worker; reflexivity.
  - cbn. rewrite (upd_inv_eq _ _ (upd_worker w _ s)). rewrite (upd_inv_eq _ _ (upd_worker w _ (set_call c (PSyncQueued w) s))). cbn.
    rewrite (upd_worker_eq w _ s). rewrite (upd_worker_eq w _ (set_call c (PSyncQueued w) s)). reflexivity.
Qed.

(* ---- the context of a Synchronize section: the worker is registered, not armed, not waiting,
        and named by this call at most ------------------------------------------------------------ *)
Definition Ctx (c : nat) (w : wref) (s : state) : Prop :=
  SW s /\ worker_exists s w = true /\ k_cleanup (get_worker s w) = None /\ k_wait (get_worker s w) = false /\ only_names c w s.

Definition WF (w : wref) (s : state) : Prop :=
  worker_exists s w = true /\ k_cleanup (get_worker s w) = None /\ k_wait (get_worker s w) = false.

Lemma WF_frame : forall w s s', s_scqs s' = s_scqs s -> WF w s -> WF w s'.
Proof. unfold WF. intros w s s' E H. rewrite (worker_exists_frame _ _ _ E), (get_worker_frame' _ _ _ E). exact H. Qed.
Lemma WF_upd_worker : forall w s w' f,
  (forall k, (k_cleanup k = None -> k_cleanup (f k) = None) /\ (k_wait k = false -> k_wait (f k) = false)) ->
  WF w s -> WF w (upd_worker w' f s).
Proof.
  unfold WF. intros w s w' f Hf [H1 [H2 H3]]. rewrite worker_exists_upd_worker, get_worker_upd_worker.
  destruct (wref_eqb w w' && worker_exists s w') eqn:E; [|auto].
  apply andb_true_iff in E. destruct E as [E _]. apply wref_eqb_eq in E. subst. destruct (Hf (get_worker s w')). auto.
Qed.
Lemma WF_upd_scq : forall w s k f, (forall q, q_workers (f q) = q_workers q) -> WF w s -> WF w (upd_scq k f s).
Proof.
  unfold WF. intros w s k f Hf H. rewrite worker_exists_upd_scq_keep, get_worker_upd_scq_keep by exact Hf. exact H.
Qed.
Ltac t_wf :=
  intros;
  lazymatch goal with
  | |- WF _ (upd_worker _ _ _) =>
    apply WF_upd_worker; [let k := fresh "k" in intros k; split; let Hx := fresh "Hx" in intros Hx; first [exact Hx | reflexivity] | assumption]
  | |- WF _ (upd_scq _ _ _) => apply WF_upd_scq; [let q := fresh "q" in intros q; first [reflexivity | (destruct (existsb _ (q_drains q)); reflexivity)] | assumption]
  | |- _ => (eapply WF_frame; [|eassumption]); frame_eq
  end.
Ltac wf_go := inv_go fail t_wf.

Lemma only_names_frame : forall c w s s', s_calls s' = s_calls s -> only_names c w s -> only_names c w s'.
Proof. unfold only_names. intros c w s s' ->. auto. Qed.

Lemma Ctx_intro : forall c w s s', SW s' -> WF w s' -> s_calls s' = s_calls s -> only_names c w s -> Ctx c w s'.
Proof.
  intros c w s s' H1 [A [B C]] E H. unfold Ctx. split; [exact H1|]. split; [exact A|]. split; [exact B|]. split; [exact C|].
  eapply only_names_frame; eassumption.
Qed.

Lemma Ctx_parts : forall c w s, Ctx c w s -> SW s /\ WF w s /\ only_names c w s.
Proof. unfold Ctx, WF. intros c w s [A [B [C [D E]]]]. split; [exact A|]. split; [|exact E]. auto. Qed.

(* lifting the closure of SW under an internal function to Ctx *)
Ltac ctx_lift lem :=
  let H := fresh "Hctx" in
  intro H; apply Ctx_parts in H;
  let HSW := fresh "HSW" in let HWF := fresh "HWF" in let HON := fresh "HON" in
  destruct H as [HSW [HWF HON]];
  match type of HSW with SW ?s0 =>
    apply (Ctx_intro _ _ s0); [apply lem; exact HSW | wf_go | kc_go | exact HON] end.

Lemma Ctx_complete_task : forall c w t r b s, Ctx c w s -> Ctx c w (complete_task t r b s).
Proof. intros c w t r b s. ctx_lift SW_complete_task. Qed.

Lemma Ctx_cancel_all_queued : forall c w i r s, Ctx c w s -> Ctx c w (cancel_all_queued i r s).
Proof.
  intros c w i r s H. rewrite cancel_all_queued_eq. apply cancel_go_closed; [|exact H].
  intros. apply Ctx_complete_task. assumption.
Qed.
Lemma Ctx_clear_last_invocation : forall c w w' s, Ctx c w s -> Ctx c w (clear_last_invocation w' s).
Proof. intros c w w' s. ctx_lift SW_clear_last_invocation. Qed.
Lemma Ctx_set_last_invocation : forall c w w' p s, Ctx c w s -> Ctx c w (set_last_invocation w' p s).
Proof. intros c w w' p s. ctx_lift SW_set_last_invocation. Qed.
Lemma Ctx_dequeue_worker : forall c w w' s, Ctx c w s -> Ctx c w (dequeue_worker w' s).
Proof. intros c w w' s. ctx_lift SW_dequeue_worker. Qed.
Lemma Ctx_get_or_create_invocation : forall c w k p s, Ctx c w s -> Ctx c w (get_or_create_invocation k p s).
Proof. intros c w k p s. ctx_lift SW_get_or_create_invocation. Qed.
Lemma Ctx_remove_if_empty : forall c w i s, Ctx c w s -> Ctx c w (fst (remove_if_empty i s)).
Proof. intros c w i s. ctx_lift SW_remove_if_empty. Qed.

Ltac t_Ctx :=
  intros;
  match goal with H : Ctx _ _ ?s0 |- Ctx _ _ _ =>
    apply Ctx_parts in H;
    let HSW := fresh "HSW" in let HWF := fresh "HWF" in let HON := fresh "HON" in
    destruct H as [HSW [HWF HON]];
    apply (Ctx_intro _ _ s0); [ t_SW | t_wf | frame_eq | exact HON ]
  end.

Ltac ctx_leaf :=
  idtac;
  lazymatch goal with
  | |- Ctx _ _ (complete_task _ _ _ _) => apply Ctx_complete_task
  | |- Ctx _ _ (cancel_all_queued _ _ _) => apply Ctx_cancel_all_queued
  | |- Ctx _ _ (clear_last_invocation _ _) => apply Ctx_clear_last_invocation
  | |- Ctx _ _ (set_last_invocation _ _ _) => apply Ctx_set_last_invocation
  | |- Ctx _ _ (dequeue_worker _ _) => apply Ctx_dequeue_worker
  | |- Ctx _ _ (get_or_create_invocation _ _ _) => apply Ctx_get_or_create_invocation
  | |- Ctx _ _ (fst (remove_if_empty _ _)) => apply Ctx_remove_if_empty
  end.
Ltac ctx_go := inv_go ctx_leaf t_Ctx.

Lemma Ctx_SW : forall c w s, Ctx c w s -> SW s.
Proof. unfold Ctx. tauto. Qed.

Lemma H_finish_sync : forall c w s, Ctx c w s -> SW (finish_sync c w s).
Proof. intros c w s [A [B [C [D E]]]]. apply SW_finish_sync; assumption. Qed.

Lemma H_sync_return_exec : forall c w s, Ctx c w s -> SW (sync_return_exec c w s).
Proof. intros c w s H. unfold sync_return_exec. destruct (k_task (get_worker s w)); apply H_finish_sync; ctx_go. Qed.
Lemma H_sync_return_idle : forall c w s, Ctx c w s -> SW (sync_return_idle c w s).
Proof. intros c w s H. unfold sync_return_idle. apply H_finish_sync. ctx_go. Qed.
Lemma H_sync_return_err : forall c w code s, Ctx c w s -> SW (sync_return_err c w code s).
Proof. intros c w code s H. unfold sync_return_err. apply H_finish_sync. ctx_go. Qed.
Lemma H_sync_none : forall c w d z s, Ctx c w s -> SW (finish_sync c w (emit (OSync c d z) s)).
Proof. intros c w d z s H. apply H_finish_sync. ctx_go. Qed.
Lemma H_ret : forall c w code s, Ctx c w s -> SW (ret c code s).
Proof. intros c w code s H. unfold ret. apply SW_setcall_plain; [reflexivity|]. apply (Ctx_SW c w). ctx_go. Qed.

Lemma Ctx_assign_next : forall c w w' s, Ctx c w s -> Ctx c w (fst (assign_next_queued_task w' s)).
Proof. intros. ctx_go. Qed.

Ltac h_base c w :=
  idtac;
  lazymatch goal with
  | |- SW (sync_return_exec _ _ _) => apply (H_sync_return_exec c w)
  | |- SW (sync_return_idle _ _ _) => apply (H_sync_return_idle c w)
  | |- SW (sync_return_err _ _ _ _) => apply (H_sync_return_err c w)
  | |- SW (finish_sync _ _ (emit (OSync _ _ _) _)) => apply (H_sync_none c w)
  | |- SW (ret _ _ _) => apply (H_ret c w)
  end; ctx_go.

Lemma H_sync_loop : forall c w s, Ctx c w s -> SW (sync_loop c w s).
Proof.
  intros c w s H. unfold sync_loop.
  destruct (is_drained s w).
  - destruct H as [A [B [C [D E]]]]. apply (SW_setcall_sync s c _ w); auto.
  - rewrite (surjective_pairing (assign_next_queued_task w s)). destruct (snd (assign_next_queued_task w s)).
    + apply (H_sync_return_exec c w). apply Ctx_assign_next. exact H.
    + cbv zeta. destruct (k_wait (get_worker s w)); [apply (Ctx_SW c w); ctx_go|].
      destruct (k_last (get_worker s w)) as [p|] eqn:El; [|apply (Ctx_SW c w); ctx_go].
      destruct H as [A [B [C [D E]]]]. apply SW_park_queued; assumption.
Qed.

Lemma H_get_next_task : forall c w b pr s, Ctx c w s -> SW (get_next_task c w b pr s).
Proof.
  intros c w b pr s H. unfold get_next_task.
  destruct pr; [apply (H_sync_return_idle c w); exact H|]. cbv zeta.
  destruct (is_drained s w).
  - cbn [negb]. destruct (negb b); [apply (H_sync_return_idle c w); exact H|apply H_sync_loop; exact H].
  - rewrite (surjective_pairing (assign_next_queued_task w s)). destruct (snd (assign_next_queued_task w s)).
    + apply (H_sync_return_exec c w). apply Ctx_assign_next. exact H.
    + destruct (negb b); [apply (H_sync_return_idle c w); exact H|apply H_sync_loop; exact H].
Qed.

Lemma H_get_current_or_next : forall c w b pr s, Ctx c w s -> SW (get_current_or_next c w b pr s).
Proof.
  intros c w b pr s H. unfold get_current_or_next.
  destruct (k_task (get_worker s w)) as [t|]; [|apply H_get_next_task; exact H].
  destruct (Nat.ltb _ _).
  - apply (H_sync_return_exec c w). ctx_go.
  - apply H_get_next_task. apply Ctx_complete_task. exact H.
Qed.

Lemma worker_exists_newworker : forall s w v, scq_exists s (w_sk w) = true ->
  worker_exists (upd_scq (w_sk w) (fun q => q <| q_workers ::= fun l => l ++ [(w, v)] |>) s) w = true.
Proof.
  intros s w v Hs. unfold worker_exists. rewrite get_scq_upd_scq, skey_eqb_refl, Hs. cbn. rewrite (aget_app wref_eqb).
  destruct (aget wref_eqb w (q_workers (get_scq s (w_sk w)))); [reflexivity|]. cbn. rewrite wref_eqb_refl. reflexivity.
Qed.

Lemma get_worker_newworker_aux : forall s w v, scq_exists s (w_sk w) = true -> worker_exists s w = false ->
  get_worker (upd_scq (w_sk w) (fun q => q <| q_workers ::= fun l => l ++ [(w, v)] |>) s) w = v.
Proof.
  intros s w v Hs Hne. unfold get_worker. rewrite get_scq_upd_scq, skey_eqb_refl, Hs. cbn. rewrite (aget_app wref_eqb).
  unfold worker_exists in Hne. destruct (aget wref_eqb w (q_workers (get_scq s (w_sk w)))); [discriminate|]. cbn. rewrite wref_eqb_refl. reflexivity.
Qed.

(* ---- a new worker ------------------------------------------------------------------------------------------- *)
Lemma WP_newworker : forall s w n,
  worker_exists s w = false -> q_cleanup (get_scq s (w_sk w)) = None ->
  WP s ->
  WP (upd_scq (w_sk w) (fun q => q <| q_workers ::= fun l => l ++ [(w, mkWorker None None false (Some []) false (repeat 0 n))] |>) s).
Proof.
  intros s w n Hne Hqc [A2 [A3 [B1 [B5 [B3 [X8 [X8n E7]]]]]]].
  set (v := mkWorker None None false (Some []) false (repeat 0 n)).
  set (s' := upd_scq (w_sk w) _ s).
  assert (Hgw : forall w', get_worker s' w' = get_worker s w' \/ (w' = w /\ get_worker s' w' = v)).
  { intro w'. destruct (wref_eq_dec w' w) as [->|Hne'].
    - destruct (scq_exists s (w_sk w)) eqn:Es.
      + right. split; [reflexivity|]. apply (get_worker_newworker_aux s w v Es Hne).
      + left. unfold s', upd_scq. unfold scq_exists in Es. destruct (aget skey_eqb (w_sk w) (s_scqs s)); [discriminate|reflexivity].
    - left. unfold s', get_worker. rewrite get_scq_upd_scq.
      destruct (skey_eqb (w_sk w') (w_sk w) && scq_exists s (w_sk w)) eqn:E; [|reflexivity].
      apply andb_true_iff in E. destruct E as [E _]. apply skey_eqb_eq in E. cbn. rewrite (aget_app wref_eqb). rewrite E.
      destruct (aget wref_eqb w' (q_workers (get_scq s (w_sk w)))); [reflexivity|]. cbn.
      rewrite (eqb_false_of wref_eqb wref_eqb_eq _ _ Hne'). reflexivity. }
  assert (Hex : forall w', worker_exists s w' = true -> worker_exists s' w' = true).
  { intros w' H. unfold s', worker_exists in *. rewrite get_scq_upd_scq.
    destruct (skey_eqb (w_sk w') (w_sk w) && scq_exists s (w_sk w)) eqn:E; [|exact H].
    apply andb_true_iff in E. destruct E as [E _]. apply skey_eqb_eq in E. cbn. rewrite (aget_app wref_eqb).
    rewrite <- E. destruct (aget wref_eqb w' (q_workers (get_scq s (w_sk w')))); [reflexivity|discriminate]. }
  assert (Hfield : forall w', (k_cleanup (get_worker s' w') = k_cleanup (get_worker s w') /\ k_wait (get_worker s' w') = k_wait (get_worker s w')
                               /\ k_last (get_worker s' w') = k_last (get_worker s w')) \/ (w' = w /\ get_worker s' w' = v)).
  { intro w'. destruct (Hgw w') as [E|E]; [left; rewrite E; auto|right; exact E]. }
  assert (Hcalls : s_calls s' = s_calls s) by apply calls_upd_scq.
  assert (Hinv : forall i, get_inv s' i = get_inv s i) by (intro; apply get_inv_frame; apply invs_upd_scq).
  unfold WP. rewrite Hcalls. wp_split.
  - intros c p w' Hc Hs. destruct (A2 _ _ _ Hc Hs) as [E1 E2]. split; [apply Hex; exact E1|].
    destruct (Hfield w') as [[Hk _]|[-> Hv]]; [rewrite Hk; exact E2|rewrite Hv; reflexivity].
  - exact A3.
  - intros w' Hc. destruct (Hfield w') as [[Hk [Hw _]]|[-> Hv]]; [rewrite Hw; apply B1; rewrite <- Hk; exact Hc|rewrite Hv; reflexivity].
  - intros w' Hw. destruct (Hfield w') as [[_ [Hw' Hl]]|[-> Hv]]; [rewrite Hl; apply B5; rewrite <- Hw'; exact Hw|rewrite Hv; discriminate].
  - intros c p w' Hc Hd. destruct (Hfield w') as [[_ [Hw' _]]|[-> Hv]]; [rewrite Hw'; eapply B3; eassumption|rewrite Hv; reflexivity].
  - intros i w' Hin. rewrite Hinv in Hin. destruct (X8 _ _ Hin) as [E1 [E2 [E3 E4]]].
    destruct (Hfield w') as [[_ [Hw' Hl]]|[-> Hv]]; [rewrite Hw', Hl; auto using Hex|congruence].
  - intro i. rewrite Hinv. apply X8n.
  - intros k Hc. unfold s' in *. rewrite get_scq_upd_scq in *.
    destruct (skey_eqb k (w_sk w) && scq_exists s (w_sk w)) eqn:E; [|apply E7; exact Hc].
    apply andb_true_iff in E. destruct E as [E _]. apply skey_eqb_eq in E. subst k. cbn in Hc. congruence.
Qed.


Lemma SW_add_scq : forall k b s, scq_exists s k = false -> (exists p, In p (s_pqs s) /\ p_key p = sk_pk k) -> SW s -> SW (add_scq k b s).
Proof.
  intros k b s Hne Hp [HS HW]. split; [apply St_add_scq; assumption|].
  unfold add_scq. apply WP_newscq. eapply WP_frame; [ | | |exact HW]; reflexivity.
Qed.

Lemma get_scq_add_scq_new : forall k b s, scq_exists s k = false -> get_scq (add_scq k b s) k = mkScq b None [] 0 [].
Proof.
  intros k b s Hne. unfold add_scq. rewrite get_scq_app. change (scq_exists (upd_pq _ _ s) k) with (scq_exists s k).
  rewrite Hne, skey_eqb_refl. reflexivity.
Qed.

Lemma H_sync_start : forall c a s, SW s -> SW (sync_start c a s).
Proof.
  intros c a s H. unfold sync_start. cbv zeta. set (w := y_worker a). set (k := w_sk w).
  match goal with |- SW (match ?R with _ => _ end) => destruct R as [s1|code1] eqn:ER end;
    [|unfold ret; apply SW_setcall_plain; [reflexivity|sw_go2]].
  assert (H1 : SW s1 /\ scq_exists s1 k = true /\ q_cleanup (get_scq s1 k) = None).
  { destruct (scq_exists s k) eqn:Ee.
    - injection ER as <-. split; [sw_go2|]. split; [rewrite scq_exists_upd_scq; exact Ee|].
      rewrite get_scq_upd_scq, skey_eqb_refl, Ee. reflexivity.
    - destruct (get_pq s (sk_pk k)) as [p|] eqn:Ep.
      + sum_cases ER. injection ER as <-. apply get_pq_some_in in Ep. destruct Ep as [Ep1 Ep2].
        split; [apply SW_add_scq; [exact Ee|exists p; auto|exact H]|]. split; [rewrite scq_exists_add_scq, skey_eqb_refl; apply orb_true_r|].
        rewrite get_scq_add_scq_new by exact Ee. reflexivity.
      + injection ER as <-.
        assert (Hp : SW (add_pq (sk_pk k) [] 0 0 s)) by (unfold add_pq; destruct H as [HS HW]; split; [t_St|eapply WP_frame; [ | | |exact HW]; reflexivity]).
        split; [apply SW_add_scq; [exact Ee| |exact Hp]|].
        * unfold add_pq. cbn. eexists. split; [apply in_or_app; right; left; reflexivity|reflexivity].
        * split; [rewrite scq_exists_add_scq, skey_eqb_refl; apply orb_true_r|].
          rewrite get_scq_add_scq_new by exact Ee. reflexivity. }
  clear ER H. destruct H1 as [H [Hse Hqc]]. revert H Hse Hqc. generalize s1. clear s. intros s H Hse Hqc.
  match goal with |- SW (match ?R with _ => _ end) => destruct R as [s2|code2] eqn:ER end;
    [|unfold ret; apply SW_setcall_plain; [reflexivity|sw_go2]].
  assert (H2 : Ctx c w s2).
  { destruct (worker_exists s w) eqn:Ee.
    - destruct (k_cleanup (get_worker s w)) eqn:Ec; [|discriminate]. injection ER as <-.
      pose proof (SW_WP _ H) as [A2 [_ [B1 _]]].
      unfold Ctx. split; [sw_go2|]. split; [rewrite worker_exists_upd_worker; exact Ee|].
      rewrite get_worker_upd_worker, wref_eqb_refl, Ee. cbn. split; [reflexivity|]. split; [apply B1; congruence|].
      intros c' p Hc Hs. exfalso. rewrite calls_upd_worker in Hc. destruct (A2 _ _ _ Hc Hs) as [_ E]. congruence.
    - injection ER as <-. pose proof (SW_WP _ H) as [A2 _].
      set (s2 := upd_scq k _ s).
      assert (Hs2 : SW s2).
      { destruct H as [HS HW]. split; [apply St_newworker; assumption|apply WP_newworker; assumption]. }
      assert (Hex2 : worker_exists s2 w = true) by (apply worker_exists_newworker; exact Hse).
      assert (Hg2 : get_worker s2 w = mkWorker None None false (Some []) false (repeat 0 (List.length (limits_of s k)))).
      { apply get_worker_newworker_aux; assumption. }
      unfold Ctx. split; [sw_go2|]. split; [rewrite (worker_exists_frame s2) by apply scqs_upd_inv; exact Hex2|].
      rewrite (get_worker_frame' s2) by apply scqs_upd_inv. rewrite Hg2. cbn. split; [reflexivity|]. split; [reflexivity|].
      intros c' p Hc Hs. exfalso. rewrite calls_upd_inv in Hc. unfold s2 in Hc. rewrite calls_upd_scq in Hc.
      destruct (A2 _ _ _ Hc Hs) as [E _]. congruence. }
  clear ER H Hse Hqc. revert H2. generalize s2. clear s. intros s H. unfold k, w in *. clear k w.
  destruct (y_state a) as [|d|d r|].
  - apply H_get_current_or_next. exact H.
  - destruct (running_correct s (y_worker a) d); [apply (H_sync_none c (y_worker a)); exact H|apply H_get_current_or_next; exact H].
  - destruct (running_correct s (y_worker a) d); [|apply H_get_current_or_next; exact H].
    destruct (k_task (get_worker s (y_worker a))) as [t|]; [|apply (Ctx_SW c (y_worker a)); exact H].
    apply H_get_next_task. apply Ctx_complete_task. exact H.
  - apply (H_sync_return_err c (y_worker a)). exact H.
Qed.
