(* C01: COMPLETED is absorbing -- a recorded response never changes again,
   over every event and every run. *)
From Coq Require Import Lia.
From VF Require Export Sched.ProofsEnabled.
Open Scope Z_scope.

Ltac r_leaf2 :=
  first [ r_leaf
        | lazymatch goal with
          | |- Rf _ _ (enter _ _) => apply Rf_enter
          | |- Rf ?tt ?r (set s_inflight _ ?s1) => apply (Rf_frame tt r s1); [reflexivity|]
          end ].
Ltac r_go2 := inv_go r_leaf2 t_R.

Lemma Rf_get_current_or_next : forall tt r c w b pr s, Rf tt r s -> Rf tt r (get_current_or_next c w b pr s).
Proof. intros. unfold get_current_or_next. r_go2. Qed.

Lemma Rf_sync_start : forall tt r c a s, Rf tt r s -> Rf tt r (sync_start c a s).
Proof.
  intros tt r c a s H. apply sync_start_closed; try exact H; intros;
    try (apply Rf_get_current_or_next; assumption); try (apply Rf_complete_task; assumption); r_go2.
Qed.

Lemma Rf_step_core : forall tt r e s, Rf tt r s -> Rf tt r (step_core e s).
Proof.
  intros tt r e s H. destruct e; unfold step_core.
  - unfold exec_start, new_operation. r_go2.
  - r_go2.
  - apply Rf_sync_start. apply Rf_enter. exact H.
  - r_go2.
  - r_go2.
  - r_go2.
  - r_go2.
  - cbv zeta. match goal with |- Rf _ _ (match ?x with _ => _ end) => rewrite (surjective_pairing x) end.
    cbv beta iota. r_go2.
  - r_go2.
  - r_go2.
  - inv_go ltac:(first [r_leaf2 | lazymatch goal with
       | |- Rf _ _ (get_current_or_next _ _ _ _ _) => apply Rf_get_current_or_next end]) t_R.
  - r_go2.
  - r_go2.
Qed.

Lemma Rf_step : forall tt r s eh, Rf tt r s -> Rf tt r (fst (step s eh)).
Proof.
  intros tt r s eh H. unfold step. cbn [fst].
  eapply Rf_frame; [reflexivity|]. apply fr_auto_returns with (P := Rf tt r); [intros; r_go2|].
  apply Rf_step_core. eapply Rf_frame; [reflexivity|exact H].
Qed.

(* once a task has a response, every later state of every run records the same response *)
Lemma completed_absorbing_run : forall evs s t r,
  t_resp (get_task s t) = Some r -> t_resp (get_task (fst (run s evs)) t) = Some r.
Proof.
  intros evs s t r H. apply (run_fst_snoc evs s (Rf t r)); [intros; apply Rf_step; assumption|exact H].
Qed.
