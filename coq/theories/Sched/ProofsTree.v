(* C04: the invocation tree -- ancestors, children, depth. *)
From Coq Require Import Lia.
From VF Require Export Sched.ProofsBasic Sched.ProofsAssoc.
Open Scope Z_scope.

(* ---- prefixes --------------------------------------------------------------------------------------------------------- *)
Lemma is_prefix_app : forall a r, is_prefix a (a ++ r) = true.
Proof. induction a as [|x a IH]; intro r; cbn; [reflexivity|]. rewrite N.eqb_refl. apply IH. Qed.
Lemma is_prefix_iff : forall a b, is_prefix a b = true <-> exists r, b = a ++ r.
Proof.
  intros a b. split.
  - intro H. exists (drop_prefix a b). apply drop_prefix_app. exact H.
  - intros [r ->]. apply is_prefix_app.
Qed.

(* ---- the chain of ancestors ---------------------------------------------------------------------------------------------- *)
Lemma chain_root : forall k, chain (mkI k []) = [mkI k []].
Proof. reflexivity. Qed.
Lemma chain_snoc : forall k q x, chain (mkI k (q ++ [x])) = mkI k (q ++ [x]) :: chain (mkI k q).
Proof.
  intros k q x. unfold chain. cbn [i_sk i_path]. rewrite app_length. cbn [List.length]. rewrite Nat.add_1_r. cbn [chain_up].
  destruct (q ++ [x]) eqn:E; [destruct q; discriminate|]. rewrite <- E. unfold parent_path. rewrite removelast_last. reflexivity.
Qed.

Lemma in_chain : forall k p a, In a (chain (mkI k p)) <-> i_sk a = k /\ exists r, p = i_path a ++ r.
Proof.
  intros k p. induction p as [|x q IH] using rev_ind; intro a.
  - rewrite chain_root. cbn. split.
    + intros [<-|[]]. cbn. split; [reflexivity|exists []; reflexivity].
    + intros [Hk [r Hr]]. left. destruct a as [ak ap]. cbn in *. symmetry in Hr. apply app_eq_nil in Hr. destruct Hr. subst. reflexivity.
  - rewrite chain_snoc. cbn [In]. rewrite IH. split.
    + intros [<-|[Hk [r Hr]]]; cbn; [split; [reflexivity|exists []; rewrite app_nil_r; reflexivity]|].
      split; [exact Hk|]. exists (r ++ [x]). rewrite Hr, app_assoc. reflexivity.
    + intros [Hk [r Hr]]. destruct r as [|y r'] using rev_ind.
      * left. rewrite app_nil_r in Hr. destruct a as [ak ap]. cbn in *. subst. reflexivity.
      * right. split; [exact Hk|]. exists r'. rewrite app_assoc in Hr. apply app_inj_tail in Hr. tauto.
Qed.

Lemma in_chain_self : forall d, In d (chain d).
Proof. intros [k p]. apply in_chain. cbn. split; [reflexivity|exists []; rewrite app_nil_r; reflexivity]. Qed.
Lemma in_chain_root : forall d, In (mkI (i_sk d) []) (chain d).
Proof. intros [k p]. apply in_chain. cbn. split; [reflexivity|exists p; reflexivity]. Qed.
Lemma in_chain_trans : forall a b d, In a (chain b) -> In b (chain d) -> In a (chain d).
Proof.
  intros a [bk bp] [dk dp] H1 H2. apply in_chain in H1. apply in_chain in H2. apply in_chain. cbn in *.
  destruct H1 as [K1 [r1 E1]]. destruct H2 as [K2 [r2 E2]]. split; [congruence|]. exists (r1 ++ r2). rewrite E2, E1, app_assoc. reflexivity.
Qed.

Lemma in_chain_desc : forall a d, In a (chain d) <-> descendant_or_self a d = true.
Proof.
  intros a [k p]. rewrite in_chain. unfold descendant_or_self. cbn. rewrite andb_true_iff, skey_eqb_eq, is_prefix_iff. tauto.
Qed.

Lemma chain_length : forall d a, In a (chain d) -> (List.length (i_path a) <= List.length (i_path d))%nat.
Proof. intros [k p] a H. apply in_chain in H. destruct H as [_ [r ->]]. cbn. rewrite app_length. lia. Qed.

Lemma chain_NoDup : forall d, NoDup (chain d).
Proof.
  intros [k p]. induction p as [|x q IH] using rev_ind; [rewrite chain_root; constructor; [intros []|constructor]|].
  rewrite chain_snoc. constructor; [|exact IH]. intro H. apply chain_length in H. cbn in H. rewrite app_length in H. cbn in H. lia.
Qed.

Lemma chain_len : forall d, List.length (chain d) = S (List.length (i_path d)).
Proof.
  intros [k p]. induction p as [|x q IH] using rev_ind; [reflexivity|]. rewrite chain_snoc. cbn [List.length]. rewrite IH. cbn. rewrite app_length. cbn. lia.
Qed.

(* the child of [h] on the way down to a strict descendant [d] *)
Lemma child_towards : forall h d, In h (chain d) -> h <> d ->
  exists k0, let c := mkI (i_sk h) (i_path h ++ [k0]) in
    In c (chain d) /\ is_child_of h c = true.
Proof.
  intros [hk hp] [dk dp] H Hne. apply in_chain in H. cbn in H. destruct H as [Hk [r Hr]]. subst hk.
  destruct r as [|k0 r]; [exfalso; apply Hne; rewrite app_nil_r in Hr; subst; reflexivity|].
  exists k0. cbn. split.
  - apply in_chain. cbn. split; [reflexivity|]. exists r. rewrite Hr, <- app_assoc. reflexivity.
  - unfold is_child_of, is_root, parent_path. cbn. rewrite removelast_last.
    assert (E : skey_eqb dk dk = true) by (apply skey_eqb_eq; reflexivity). rewrite E.
    assert (E2 : path_eqb hp hp = true) by (apply list_eqb_N_eq; reflexivity). rewrite E2.
    destruct (hp ++ [k0]) eqn:E3; [destruct hp; discriminate|reflexivity].
Qed.

Lemma is_child_of_spec : forall h c, is_child_of h c = true ->
  i_sk c = i_sk h /\ exists k0, i_path c = i_path h ++ [k0].
Proof.
  intros [hk hp] [ck cp]. unfold is_child_of, is_root, parent_path. cbn. intro H.
  apply andb_true_iff in H. destruct H as [H H3]. apply andb_true_iff in H. destruct H as [H1 H2].
  apply skey_eqb_eq in H1. apply list_eqb_N_eq in H3. subst. split; [reflexivity|].
  destruct cp as [|x cp] using rev_ind; [discriminate|]. exists x. rewrite removelast_last. reflexivity.
Qed.

Lemma child_depth : forall h c, is_child_of h c = true -> List.length (i_path c) = S (List.length (i_path h)).
Proof. intros h c H. destruct (is_child_of_spec _ _ H) as [_ [k0 E]]. rewrite E, app_length. cbn. lia. Qed.

Lemma child_in_chain : forall h c d, is_child_of h c = true -> In c (chain d) -> In h (chain d).
Proof.
  intros h c d H Hc. destruct (is_child_of_spec _ _ H) as [Hk [k0 E]]. eapply in_chain_trans; [|exact Hc].
  destruct c as [ck cp]. cbn in *. subst. apply in_chain. split; [reflexivity|exists [k0]; reflexivity].
Qed.

(* ---- depth of the invocations that exist with all their ancestors -------------------------------------------------------------- *)
Definition anc_exist (s : state) (d : iref) : Prop := forall a, In a (chain d) -> inv_exists s a = true.

Lemma inv_exists_key : forall s i, inv_exists s i = true -> In i (map fst (s_invs s)).
Proof.
  unfold inv_exists. intros s i H. destruct (aget iref_eqb i (s_invs s)) as [v|] eqn:E; [|discriminate].
  apply (aget_In iref_eqb iref_eqb_eq) in E. apply in_map_iff. exists (i, v). auto.
Qed.
Lemma inv_exists_in : forall s i, inv_exists s i = true -> In (i, get_inv s i) (s_invs s).
Proof.
  unfold inv_exists, get_inv. intros s i H. destruct (aget iref_eqb i (s_invs s)) as [v|] eqn:E; [|discriminate].
  apply (aget_In iref_eqb iref_eqb_eq) in E. exact E.
Qed.
Lemma in_invs_get : forall s i v, NoDup (map fst (s_invs s)) -> In (i, v) (s_invs s) -> get_inv s i = v /\ inv_exists s i = true.
Proof.
  intros s i v Hnd Hin. unfold get_inv, inv_exists. rewrite (In_aget_NoDup iref_eqb iref_eqb_eq _ _ _ Hnd Hin). auto.
Qed.

Lemma depth_bound : forall s d, NoDup (map fst (s_invs s)) -> anc_exist s d ->
  (List.length (i_path d) < List.length (s_invs s))%nat.
Proof.
  intros s d Hnd H.
  assert (Hl : (List.length (chain d) <= List.length (map fst (s_invs s)))%nat).
  { apply NoDup_incl_length; [apply chain_NoDup|]. intros a Ha. apply inv_exists_key. apply H. exact Ha. }
  rewrite chain_len, map_length in Hl. lia.
Qed.

(* ---- max_depth --------------------------------------------------------------------------------------------------------------- *)
Lemma max_depth_le : forall l n, (max_depth l <= n)%nat <-> forall i, In i l -> (List.length (i_path i) <= n)%nat.
Proof.
  intros l n. unfold max_depth.
  assert (H : forall l m, (fold_left (fun m i => Nat.max m (List.length (i_path i))) l m <= n)%nat <->
                          (m <= n)%nat /\ forall i, In i l -> (List.length (i_path i) <= n)%nat).
  { induction l0 as [|x l0 IH]; intro m; cbn [fold_left].
    - split; [intro; split; [assumption|intros i []]|tauto].
    - rewrite IH. split.
      + intros [A B]. split; [lia|]. intros i [<-|Hi]; [lia|auto].
      + intros [A B]. split; [|intros i Hi; apply B; right; exact Hi]. specialize (B x (or_introl eq_refl)). lia. }
  rewrite H. split; [tauto|]. intro A. split; [lia|exact A].
Qed.
