(* C03: the in-flight deduplication map holds exactly the live cacheable tasks. *)
From Coq Require Import Lia.
From VF Require Export Sched.ProofsRefs2 Sched.ProofsExec Sched.ProofsRoute.
Open Scope Z_scope.

Definition live_cacheable (x : task) : Prop := t_resp x = None /\ t_dnc x = Some false.
Definition tkey (x : task) : list N * N := (t_instance x, t_digest x).

Definition Inf (s : state) : Prop :=
  NoDup (map fst (s_inflight s)) /\
  (forall k t, aget dkey_eqb k (s_inflight s) = Some t ->
     exists x, aget Nat.eqb t (s_tasks s) = Some x /\ live_cacheable x /\ tkey x = k) /\
  (forall t x, aget Nat.eqb t (s_tasks s) = Some x -> live_cacheable x ->
     aget dkey_eqb (tkey x) (s_inflight s) = Some t).

(* distinct live cacheable tasks have distinct digests *)
Lemma Inf_unique : forall s t1 t2 x1 x2, Inf s ->
  aget Nat.eqb t1 (s_tasks s) = Some x1 -> aget Nat.eqb t2 (s_tasks s) = Some x2 ->
  live_cacheable x1 -> live_cacheable x2 -> tkey x1 = tkey x2 -> t1 = t2.
Proof.
  intros s t1 t2 x1 x2 [_ [_ H3]] E1 E2 L1 L2 Hk.
  pose proof (H3 _ _ E1 L1) as A1. pose proof (H3 _ _ E2 L2) as A2. rewrite Hk in A1. congruence.
Qed.

Lemma Inf_frame : forall s s', s_tasks s' = s_tasks s -> s_inflight s' = s_inflight s -> Inf s -> Inf s'.
Proof. unfold Inf. intros s s' -> ->. auto. Qed.

Definition harmless (f : task -> task) : Prop :=
  forall x, t_resp (f x) = t_resp x /\ t_dnc (f x) = t_dnc x /\ t_instance (f x) = t_instance x /\ t_digest (f x) = t_digest x.

Lemma dummy_not_live : ~ live_cacheable dummy_task.
Proof. intros [_ H]. discriminate. Qed.

Lemma Inf_upd_task : forall s t f, harmless f -> Inf s -> Inf (upd_task t f s).
Proof.
  intros s t f Hf [H1 [H2 H3]]. unfold Inf, upd_task. cbn. split; [exact H1|].
  assert (Hlive : forall x, live_cacheable (f x) <-> live_cacheable x).
  { intro x. destruct (Hf x) as [A [B _]]. unfold live_cacheable. rewrite A, B. tauto. }
  assert (Hkey : forall x, tkey (f x) = tkey x).
  { intro x. destruct (Hf x) as [_ [_ [C D]]]. unfold tkey. rewrite C, D. reflexivity. }
  split.
  - intros k t' Hk. destruct (H2 _ _ Hk) as [x [Ex [Lx Kx]]].
    rewrite (aget_aset Nat.eqb nat_eqb_eq). destruct (Nat.eqb t' t) eqn:E.
    + apply Nat.eqb_eq in E. subst t'. unfold get_task. rewrite Ex. exists (f x).
      split; [reflexivity|]. split; [apply Hlive; exact Lx|]. rewrite Hkey. exact Kx.
    + exists x. auto.
  - intros t' x Ex Lx. rewrite (aget_aset Nat.eqb nat_eqb_eq) in Ex. destruct (Nat.eqb t' t) eqn:E.
    + apply Nat.eqb_eq in E. subst t'. inversion Ex; subst x. rewrite Hkey. apply (proj1 (Hlive _)) in Lx.
      unfold get_task in *. revert Lx. destruct (aget Nat.eqb t (s_tasks s)) as [y|] eqn:Ey; intro Lx.
      * apply H3; assumption.
      * exfalso. exact (dummy_not_live Lx).
    + apply H3; assumption.
Qed.

Lemma Inf_newtask : forall s x, ~ live_cacheable x ->
  Inf s -> Inf (s <| s_ntasks ::= S |> <| s_tasks ::= fun l => l ++ [(s_ntasks s, x)] |>).
Proof.
  intros s x Hx [H1 [H2 H3]]. unfold Inf. cbn. split; [exact H1|]. split.
  - intros k t Hk. destruct (H2 _ _ Hk) as [y [Ey [Ly Ky]]]. exists y. rewrite (aget_app Nat.eqb), Ey. auto.
  - intros t y Ey Ly. rewrite (aget_app Nat.eqb) in Ey. destruct (aget Nat.eqb t (s_tasks s)) as [z|] eqn:Ez.
    + inversion Ey; subst. apply H3; assumption.
    + cbn in Ey. destruct (Nat.eqb t (s_ntasks s)); [|discriminate]. inversion Ey; subst. contradiction.
Qed.

(* ---- the critical pair of task.complete ----------------------------------------------------- *)
Lemma Inf_complete_pair : forall s t r k,
  Inf s -> tkey (get_task s t) = k ->
  Inf (upd_task t (fun x => x <| t_resp := Some r |> <| t_dnc := None |>)
        (match aget dkey_eqb k (s_inflight s) with
         | Some t' => if Nat.eqb t t' then s <| s_inflight ::= adel dkey_eqb k |> else s
         | None => s
         end)).
Proof.
  intros s t r k [H1 [H2 H3]] Hk.
  set (f := fun x : task => x <| t_resp := Some r |> <| t_dnc := None |>).
  assert (Hnl : forall x, ~ live_cacheable (f x)) by (intros x [A _]; discriminate).
  (* general shape: tasks := aset t (f (get_task s t)), inflight := l' *)
  assert (Hgen : forall l', NoDup (map fst l') ->
     (forall k' t', aget dkey_eqb k' l' = Some t' -> aget dkey_eqb k' (s_inflight s) = Some t' /\ t' <> t) ->
     (forall t' x, t' <> t -> aget Nat.eqb t' (s_tasks s) = Some x -> live_cacheable x -> aget dkey_eqb (tkey x) l' = Some t') ->
     forall s', s_tasks s' = s_tasks s -> s_inflight s' = l' -> Inf (upd_task t f s')).
  { intros l' Hnd Hsub Hsup s' Et Ei. unfold Inf, upd_task. cbn. rewrite Ei. split; [exact Hnd|]. split.
    - intros k' t' Hk'. destruct (Hsub _ _ Hk') as [Hold Hne]. destruct (H2 _ _ Hold) as [x [Ex [Lx Kx]]].
      exists x. rewrite (aget_aset_other Nat.eqb nat_eqb_eq) by exact Hne. rewrite Et. auto.
    - intros t' x Ex Lx. rewrite (aget_aset Nat.eqb nat_eqb_eq) in Ex. destruct (Nat.eqb t' t) eqn:E.
      + inversion Ex; subst x. exfalso. exact (Hnl _ Lx).
      + rewrite Et in Ex. apply Nat.eqb_neq in E. apply Hsup; assumption. }
  destruct (aget dkey_eqb k (s_inflight s)) as [t'|] eqn:Ek.
  - destruct (Nat.eqb t t') eqn:Et.
    + apply Nat.eqb_eq in Et. subst t'.
      apply (Hgen (adel dkey_eqb k (s_inflight s))); try reflexivity.
      * apply (NoDup_keys_adel dkey_eqb). exact H1.
      * intros k' t' Hk'. destruct (dkey_eqb k' k) eqn:Ekk.
        -- apply dkey_eqb_eq in Ekk. subst k'. rewrite (aget_adel_same dkey_eqb dkey_eqb_eq) in Hk' by exact H1. discriminate.
        -- assert (Hne : k' <> k) by (intros ->; rewrite (proj2 (dkey_eqb_eq k k) eq_refl) in Ekk; discriminate).
           rewrite (aget_adel_other dkey_eqb dkey_eqb_eq) in Hk' by exact Hne. split; [exact Hk'|].
           intros ->. destruct (H2 _ _ Hk') as [x [Ex [Lx Kx]]]. destruct (H2 _ _ Ek) as [y [Ey [Ly Ky]]]. congruence.
      * intros t' x Hne Ex Lx. pose proof (H3 _ _ Ex Lx) as Hreg.
        assert (Hkne : tkey x <> k) by (intros Heq; rewrite Heq in Hreg; congruence).
        rewrite (aget_adel_other dkey_eqb dkey_eqb_eq) by exact Hkne. exact Hreg.
    + apply Nat.eqb_neq in Et.
      (* the entry under k belongs to another task, so t is not a live cacheable task *)
      assert (Hnot : forall x, aget Nat.eqb t (s_tasks s) = Some x -> ~ live_cacheable x).
      { intros x Ex Lx. pose proof (H3 _ _ Ex Lx) as Hreg. unfold get_task in Hk. rewrite Ex in Hk. rewrite Hk in Hreg. congruence. }
      apply (Hgen (s_inflight s)); try reflexivity; [exact H1| |].
      * intros k' t'' Hk'. split; [exact Hk'|]. intros ->. destruct (H2 _ _ Hk') as [x [Ex [Lx _]]]. exact (Hnot _ Ex Lx).
      * intros t'' x _ Ex Lx. apply H3; assumption.
  - assert (Hnot : forall x, aget Nat.eqb t (s_tasks s) = Some x -> ~ live_cacheable x).
    { intros x Ex Lx. pose proof (H3 _ _ Ex Lx) as Hreg. unfold get_task in Hk. rewrite Ex in Hk. rewrite Hk in Hreg. congruence. }
    apply (Hgen (s_inflight s)); try reflexivity; [exact H1| |].
    + intros k' t'' Hk'. split; [exact Hk'|]. intros ->. destruct (H2 _ _ Hk') as [x [Ex [Lx _]]]. exact (Hnot _ Ex Lx).
    + intros t'' x _ Ex Lx. apply H3; assumption.
Qed.

(* ---- closure ------------------------------------------------------------------------------------ *)
Definition InfT (t : nat) (k : list N * N) (s : state) : Prop := Inf s /\ tkey (get_task s t) = k.

Lemma InfT_Inf : forall t k s, InfT t k s -> Inf s.
Proof. unfold InfT. tauto. Qed.

Lemma InfT_frame : forall t k s s', s_tasks s' = s_tasks s -> s_inflight s' = s_inflight s -> InfT t k s -> InfT t k s'.
Proof.
  unfold InfT. intros t k s s' E1 E2 [H1 H2]. split; [eapply Inf_frame; eassumption|].
  rewrite (get_task_frame _ _ _ E1). exact H2.
Qed.

Lemma InfT_upd_task : forall t k s t' f, harmless f -> InfT t k s -> InfT t k (upd_task t' f s).
Proof.
  unfold InfT. intros t k s t' f Hf [H1 H2]. split; [apply Inf_upd_task; assumption|].
  rewrite get_task_upd_task. destruct (Nat.eqb t t') eqn:E; [|exact H2].
  apply Nat.eqb_eq in E. subst t'. destruct (Hf (get_task s t)) as [_ [_ [C D]]]. unfold tkey in *. rewrite C, D. exact H2.
Qed.

Lemma InfT_newtask : forall t k s x, ~ live_cacheable x -> tkey x = k ->
  InfT t k s -> InfT t k (s <| s_ntasks ::= S |> <| s_tasks ::= fun l => l ++ [(s_ntasks s, x)] |>).
Proof.
  unfold InfT. intros t k s x Hx Hk [H1 H2]. split; [apply Inf_newtask; assumption|].
  unfold get_task in *. cbn. rewrite (aget_app Nat.eqb). destruct (aget Nat.eqb t (s_tasks s)); [exact H2|].
  cbn. destruct (Nat.eqb t (s_ntasks s)); assumption.
Qed.

Lemma InfT_pair : forall t k s r,
  InfT t k s ->
  InfT t k (upd_task t (fun x => x <| t_resp := Some r |> <| t_dnc := None |>)
        (match aget dkey_eqb k (s_inflight s) with
         | Some t' => if Nat.eqb t t' then s <| s_inflight ::= adel dkey_eqb k |> else s
         | None => s
         end)).
Proof.
  unfold InfT. intros t k s r [H1 H2]. split; [apply Inf_complete_pair; assumption|].
  rewrite get_task_upd_task, Nat.eqb_refl.
  match goal with |- tkey (set _ _ (set _ _ (get_task ?s' t))) = k => replace (get_task s' t) with (get_task s t) end.
  - exact H2.
  - apply get_task_frame. destruct (aget dkey_eqb k (s_inflight s)) as [t'|]; [destruct (Nat.eqb t t')|]; reflexivity.
Qed.

Ltac t_harmless := intros ?; cbn; repeat split; reflexivity.

Ltac t_InfT :=
  intros;
  lazymatch goal with
  | |- InfT _ _ (upd_task _ _ _) => apply InfT_upd_task; [t_harmless | assumption]
  | |- InfT _ _ (set s_tasks _ (set s_ntasks S _)) =>
    apply InfT_newtask; [intros [_ Hd]; discriminate Hd | reflexivity | assumption]
  | |- _ => (eapply InfT_frame; [ | | eassumption]); prim_unfold; prim_cases; reflexivity
  end.

Ltac inf_leaf :=
  idtac;
  lazymatch goal with
  | |- InfT _ _ (upd_task _ (fun x => x <| t_resp := Some _ |> <| t_dnc := None |>) _) => apply InfT_pair
  | |- InfT ?t ?k (set s_ops _ (set s_nops S ?s1)) => apply (InfT_frame t k s1); [reflexivity | reflexivity | ]
  | |- InfT _ _ (set s_tasks _ (set s_ntasks S _)) =>
    apply InfT_newtask; [intros [_ Hd]; discriminate Hd | reflexivity | ]
  end.

Lemma Inf_complete_task : forall t r b s, Inf s -> Inf (complete_task t r b s).
Proof.
  intros t r b s H.
  apply (InfT_Inf t (t_instance (get_task s t), t_digest (get_task s t))).
  assert (H0 : InfT t (t_instance (get_task s t), t_digest (get_task s t)) s) by (split; [exact H|reflexivity]).
  clear H. unfold complete_task. inv_go inf_leaf t_InfT.
Qed.

(* ---- all other functions ----------------------------------------------------------------------------- *)
Lemma Inf_upd_task' : forall s t f, harmless f -> Inf s -> Inf (upd_task t f s).
Proof. exact Inf_upd_task. Qed.

Ltac t_Inf :=
  intros;
  lazymatch goal with
  | |- Inf (upd_task _ _ _) => apply Inf_upd_task; [t_harmless | assumption]
  | |- Inf (set s_tasks _ (set s_ntasks S _)) => apply Inf_newtask; [intros [_ Hd]; discriminate Hd | assumption]
  | |- _ => (eapply Inf_frame; [ | | eassumption]); prim_unfold; prim_cases; reflexivity
  end.

Lemma Inf_cancel_all_queued : forall i r s, Inf s -> Inf (cancel_all_queued i r s).
Proof.
  intros i r s H. rewrite cancel_all_queued_eq. apply cancel_go_closed; [|exact H].
  intros. apply Inf_complete_task. assumption.
Qed.

Ltac inf_leaf2 :=
  idtac;
  lazymatch goal with
  | |- Inf (complete_task _ _ _ _) => apply Inf_complete_task
  | |- Inf (cancel_all_queued _ _ _) => apply Inf_cancel_all_queued
  | |- Inf (set s_ops _ (set s_nops S ?s1)) => apply (Inf_frame s1); [reflexivity | reflexivity | ]
  end.
Ltac inf_go := inv_go inf_leaf2 t_Inf.

Lemma Inf_operation_remove : forall o s, Inf s -> Inf (operation_remove o s).
Proof.
  intros o s H. unfold operation_remove. inf_go.
  all: match goal with |- Inf (fst (fold_left ?g ?l ?a)) => apply (fold_left_pres (fun acc => Inf (fst acc)) g l) end;
    [ intros [s1 go] j H1; cbn [fst] in *; destruct go; [inf_go | assumption] | cbn [fst]; inf_go ].
Qed.

Lemma Inf_run_entry : forall e s, Inf s -> Inf (run_entry e s).
Proof.
  intros [z ce] s H. unfold run_entry. cbn [fst snd]. destruct ce as [o|w|k].
  - apply Inf_operation_remove. inf_go.
  - inf_go.
  - inf_go.
Qed.

Lemma Inf_enter : forall t s, Inf s -> Inf (enter t s).
Proof.
  intros t s H. unfold enter. destruct (s_now s <? t); [|exact H]. cbv zeta.
  apply cleanup_run_closed; [intros; t_Inf | intros; apply Inf_run_entry; assumption | inf_go].
Qed.

Lemma Inf_newtask_cacheable : forall s x,
  aget Nat.eqb (s_ntasks s) (s_tasks s) = None -> live_cacheable x ->
  aget dkey_eqb (tkey x) (s_inflight s) = None -> Inf s ->
  Inf (s <| s_ntasks ::= S |> <| s_tasks ::= fun l => l ++ [(s_ntasks s, x)] |>
         <| s_inflight ::= aset dkey_eqb (tkey x) (s_ntasks s) |>).
Proof.
  intros s x Hfresh Lx Hk [H1 [H2 H3]]. unfold Inf. cbn. split; [|split].
  - apply (NoDup_keys_aset dkey_eqb dkey_eqb_eq). exact H1.
  - intros k t Hkt. rewrite (aget_aset dkey_eqb dkey_eqb_eq) in Hkt. destruct (dkey_eqb k (tkey x)) eqn:E.
    + apply dkey_eqb_eq in E. inversion Hkt; subst. exists x. rewrite (aget_app Nat.eqb), Hfresh. cbn.
      rewrite Nat.eqb_refl. auto.
    + destruct (H2 _ _ Hkt) as [y [Ey [Ly Ky]]]. exists y. rewrite (aget_app Nat.eqb), Ey. auto.
  - intros t y Ey Ly. rewrite (aget_app Nat.eqb) in Ey. destruct (aget Nat.eqb t (s_tasks s)) as [z|] eqn:Ez.
    + inversion Ey; subst z. pose proof (H3 _ _ Ez Ly) as Hreg.
      assert (Hne : tkey y <> tkey x) by (intro Heq; rewrite Heq in Hreg; congruence).
      rewrite (aget_aset_other dkey_eqb dkey_eqb_eq) by exact Hne. exact Hreg.
    + cbn in Ey. destruct (Nat.eqb t (s_ntasks s)) eqn:En; [|discriminate]. inversion Ey; subst y.
      apply Nat.eqb_eq in En. subst t. apply (aget_aset_same dkey_eqb dkey_eqb_eq).
Qed.

Lemma Inf_exec_start : forall c a s, W s -> Inf s -> Inf (exec_start c a s).
Proof.
  intros c a s HW H. unfold exec_start, new_operation.
  destruct (aget dkey_eqb (x_instance a, x_digest a) (s_inflight s)) as [t0|] eqn:Ei; [inf_go|].
  destruct (longest_prefix_pq s (x_plat a) (x_instance a)) as [p|]; [|inf_go].
  destruct (x_sel a) as [[[idx dur] timeout] l]. cbv zeta.
  destruct (x_dnc a) eqn:Ed.
  - inf_go.
  - inv_go ltac:(first [ inf_leaf2
      | lazymatch goal with |- Inf (set s_inflight (aset _ _ _) (set s_tasks _ (set s_ntasks S _))) =>
          apply (Inf_newtask_cacheable (emit (OGhost GSelect) s)
                   (mkTask [] (x_instance a) (x_digest a) (Some false) timeout (s_now s)
                      (drop_prefix (pk_prefix (p_key p)) (x_instance a)) None 0 dur (Some l) None 0));
          [ apply W_task_fresh; exact HW | split; reflexivity | exact Ei | ] end ]) t_Inf.
Qed.

Ltac inf_leaf3 :=
  first [ inf_leaf2
        | lazymatch goal with
          | |- Inf (enter _ _) => apply Inf_enter
          end ].
Ltac inf_go3 := inv_go inf_leaf3 t_Inf.

Lemma Inf_get_current_or_next : forall c w b pr s, Inf s -> Inf (get_current_or_next c w b pr s).
Proof. intros. unfold get_current_or_next. inf_go3. Qed.

Lemma Inf_sync_start : forall c a s, Inf s -> Inf (sync_start c a s).
Proof.
  intros c a s H. apply sync_start_closed; try exact H; intros;
    try (apply Inf_get_current_or_next; assumption); try (apply Inf_complete_task; assumption); inf_go3.
Qed.

Lemma Inf_step_core : forall e s, W s -> Inf s -> Inf (step_core e s).
Proof.
  intros e s HW H. destruct e; unfold step_core.
  - apply Inf_exec_start; [apply (WL_W []); apply WL_enter; apply WL_of_W; exact HW|apply Inf_enter; exact H].
  - inf_go3.
  - apply Inf_sync_start. apply Inf_enter. exact H.
  - inf_go3.
  - inf_go3.
  - inf_go3.
  - inf_go3.
  - cbv zeta. match goal with |- Inf (match ?x with _ => _ end) => rewrite (surjective_pairing x) end.
    cbv beta iota. inf_go3.
  - inf_go3.
  - inf_go3.
  - inv_go ltac:(first [inf_leaf3 | lazymatch goal with
                                    | |- Inf (get_current_or_next _ _ _ _ _) => apply Inf_get_current_or_next
                                    end]) t_Inf.
  - inf_go3.
  - inf_go3.
Qed.

Definition WI (s : state) : Prop := W s /\ Inf s.

Lemma WI_step : forall s eh, WI s -> WI (fst (step s eh)).
Proof.
  intros s eh [HW HI]. split; [apply W_step; exact HW|].
  unfold step. cbn [fst].
  assert (HW0 : W (s <| s_hints := snd eh |> <| s_out := [] |>)).
  { apply (WL_W []). eapply WL_frame; [ | | | | | | | apply WL_of_W; exact HW]; reflexivity. }
  assert (HI0 : Inf (s <| s_hints := snd eh |> <| s_out := [] |>)) by (eapply Inf_frame; [ | |exact HI]; reflexivity).
  eapply Inf_frame; [reflexivity|reflexivity|].
  apply fr_auto_returns with (P := Inf); [intros; inf_go3|]. apply Inf_step_core; assumption.
Qed.

Lemma WI_init : forall cfg t0, WI (init cfg t0).
Proof.
  intros. split; [apply W_init|]. unfold Inf, init. cbn. split; [constructor|]. split; intros; discriminate.
Qed.

(* inflight_exact: in every reachable state the in-flight map holds exactly the live cacheable tasks *)
Lemma inflight_exact_all : forall cfg t0 evs, Inf (fst (run (init cfg t0) evs)).
Proof.
  intros. apply (run_inv evs (init cfg t0) WI); [intros; apply WI_step; assumption|apply WI_init].
Qed.

(* ---- corollaries ------------------------------------------------------------------------------------------ *)
(* a request whose digest is in flight creates no task and at most one operation,
   and leaves the map alone *)
Definition keeps_nt (n : nat) (l : list ((list N * N) * nat)) (s : state) : Prop := s_ntasks s = n /\ s_inflight s = l.
Ltac t_nt := intros; unfold keeps_nt in *; prim_unfold; prim_cases; cbn; assumption.
Definition keeps_no (m : nat) (s : state) : Prop := s_nops s = m.
Ltac t_no := intros; unfold keeps_no in *; prim_unfold; prim_cases; cbn; assumption.

Lemma dup_exec_no_new_task : forall c a s t0,
  aget dkey_eqb (x_instance a, x_digest a) (s_inflight s) = Some t0 ->
  s_ntasks (exec_start c a s) = s_ntasks s /\ s_inflight (exec_start c a s) = s_inflight s /\
  (s_nops (exec_start c a s) = s_nops s \/ s_nops (exec_start c a s) = S (s_nops s)).
Proof.
  intros c a s t0 Ei.
  assert (H1 : keeps_nt (s_ntasks s) (s_inflight s) (exec_start c a s)).
  { assert (H0 : keeps_nt (s_ntasks s) (s_inflight s) s) by (split; reflexivity).
    unfold exec_start, new_operation. rewrite Ei. fr_go (keeps_nt (s_ntasks s) (s_inflight s)) t_nt. }
  destruct H1 as [A B]. split; [exact A|]. split; [exact B|].
  unfold exec_start, new_operation. rewrite Ei. cbv zeta.
  match goal with |- context [match ?x with Some o => _ | None => _ end] => destruct x as [o|] end.
  - left. change (keeps_no (s_nops s) (wait_execution_begin c o (get_or_create_invocation (task_scq (emit (OGhost GSelAbandoned) s) t0) (x_keys a) (emit (OGhost GSelAbandoned) s)))).
    assert (H0 : keeps_no (s_nops s) s) by reflexivity.
    fr_go (keeps_no (s_nops s)) t_no.
  - right.
    match goal with |- s_nops ?e = ?m => change (keeps_no m e) end.
    fr_go (keeps_no (S (s_nops s))) t_no.
    all: unfold keeps_no; cbn;
      match goal with |- S (s_nops (get_or_create_invocation ?k ?p ?s0)) = _ =>
        destruct (get_or_create_invocation_tasks k p s0) as [_ [E _]]; rewrite E; reflexivity end.
Qed.

(* when no live cacheable task has the digest, the map has no entry for it: the next request starts afresh *)
Lemma Inf_absent : forall s k, Inf s ->
  (forall t x, aget Nat.eqb t (s_tasks s) = Some x -> live_cacheable x -> tkey x <> k) ->
  aget dkey_eqb k (s_inflight s) = None.
Proof.
  intros s k [_ [H2 _]] Hno. destruct (aget dkey_eqb k (s_inflight s)) as [t|] eqn:E; [|reflexivity].
  destruct (H2 _ _ E) as [x [Ex [Lx Kx]]]. exfalso. exact (Hno _ _ Ex Lx Kx).
Qed.

(* a completed task is no longer in the map (whoever completed it) *)
Lemma Inf_completed_not_in_map : forall s k t x, Inf s ->
  aget dkey_eqb k (s_inflight s) = Some t -> aget Nat.eqb t (s_tasks s) = Some x -> t_resp x = None /\ t_dnc x = Some false.
Proof.
  intros s k t x [_ [H2 _]] Ek Ex. destruct (H2 _ _ Ek) as [y [Ey [Ly _]]]. rewrite Ex in Ey. inversion Ey; subst. exact Ly.
Qed.

(* exec_routes without the freshness hypothesis, in reachable states *)
Lemma exec_routes_reachable : forall cfg t0 evs tnow c a p,
  let s := enter tnow (fst (run (init cfg t0) evs)) in
  aget dkey_eqb (x_instance a, x_digest a) (s_inflight s) = None ->
  longest_prefix_pq s (x_plat a) (x_instance a) = Some p ->
  let k := mkSK (p_key p) (nth (fst (fst (fst (x_sel a)))) (p_scs p) 0%N) in
  let t := s_ntasks s in
  let s' := exec_start c a s in
  s_ntasks s' = S t /\ s_nops s' = S (s_nops s) /\
  routed (drop_prefix (pk_prefix (p_key p)) (x_instance a)) (x_instance a) (x_digest a)
         [(mkI k (x_keys a), s_nops s)] (get_task s' t) /\
  task_scq s' t = k.
Proof.
  intros cfg t0 evs tnow c a p s H1 H2. apply exec_routes; [exact H1|exact H2|].
  apply W_task_fresh. apply (WL_W []). apply WL_enter. apply WL_of_W. apply W_run.
Qed.

Lemma live_cacheable_unique_all : forall cfg t0 evs t1 t2 x1 x2,
  let s := fst (run (init cfg t0) evs) in
  aget Nat.eqb t1 (s_tasks s) = Some x1 -> aget Nat.eqb t2 (s_tasks s) = Some x2 ->
  live_cacheable x1 -> live_cacheable x2 -> tkey x1 = tkey x2 -> t1 = t2.
Proof. intros cfg t0 evs t1 t2 x1 x2. exact (Inf_unique _ t1 t2 x1 x2 (inflight_exact_all cfg t0 evs)). Qed.

Lemma fresh_after_completion_all : forall cfg t0 evs k,
  let s := fst (run (init cfg t0) evs) in
  (forall t x, aget Nat.eqb t (s_tasks s) = Some x -> live_cacheable x -> tkey x <> k) ->
  aget dkey_eqb k (s_inflight s) = None.
Proof. intros cfg t0 evs k. exact (Inf_absent _ k (inflight_exact_all cfg t0 evs)). Qed.

Lemma next_indices_fresh_all : forall cfg t0 evs,
  let s := fst (run (init cfg t0) evs) in
  aget Nat.eqb (s_ntasks s) (s_tasks s) = None /\ aget Nat.eqb (s_nops s) (s_ops s) = None.
Proof. intros cfg t0 evs. split; [apply W_task_fresh|apply W_op_fresh]; apply W_run. Qed.
