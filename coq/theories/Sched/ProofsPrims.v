(* Each primitive update changes one component of the state: equations that
   make "the other components are unchanged" a matter of computation. *)
From VF Require Export Sched.ProofsInv.
Open Scope Z_scope.

Lemma upd_task_eq : forall t f s, upd_task t f s = s <| s_tasks := s_tasks (upd_task t f s) |>.
Proof. reflexivity. Qed.
Lemma upd_op_eq : forall o f s, upd_op o f s = s <| s_ops := s_ops (upd_op o f s) |>.
Proof. intros. unfold upd_op. destruct (aget Nat.eqb o (s_ops s)); [reflexivity|destruct s; reflexivity]. Qed.
Lemma upd_inv_eq : forall i f s, upd_inv i f s = s <| s_invs := s_invs (upd_inv i f s) |>.
Proof. intros. unfold upd_inv. destruct (aget iref_eqb i (s_invs s)); [reflexivity|destruct s; reflexivity]. Qed.
Lemma upd_scq_eq : forall k f s, upd_scq k f s = s <| s_scqs := s_scqs (upd_scq k f s) |>.
Proof. intros. unfold upd_scq. destruct (aget skey_eqb k (s_scqs s)); [reflexivity|destruct s; reflexivity]. Qed.
Lemma upd_worker_eq : forall w f s, upd_worker w f s = s <| s_scqs := s_scqs (upd_worker w f s) |>.
Proof.
  intros. unfold upd_worker. destruct (worker_exists s w); [apply upd_scq_eq|destruct s; reflexivity].
Qed.
Lemma upd_pq_eq : forall k f s, upd_pq k f s = s <| s_pqs := s_pqs (upd_pq k f s) |>.
Proof. reflexivity. Qed.
Lemma emit_eq : forall o s, emit o s = s <| s_out := o :: s_out s |>.
Proof. reflexivity. Qed.
Lemma panic_eq : forall w s, panic w s = s <| s_out := OPanic w :: s_out s |>.
Proof. reflexivity. Qed.
Lemma set_call_eq : forall c p s, set_call c p s = s <| s_calls := aset Nat.eqb c p (s_calls s) |>.
Proof. reflexivity. Qed.

(* solves  proj (prim s) = proj s  when the primitive does not touch the component *)
Ltac frame_eq :=
  first [ reflexivity
        | (rewrite upd_inv_eq; reflexivity)
        | (rewrite upd_worker_eq; reflexivity)
        | (rewrite upd_scq_eq; reflexivity)
        | (rewrite upd_op_eq; reflexivity)
        | (rewrite upd_task_eq; reflexivity) ].
