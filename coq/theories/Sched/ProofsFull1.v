(* C01, completeness layer: the invariants needed for Spec.c01_dump beyond the sound half of exclusivity.
   TK: all operations of a task live in one size class queue, that of its worker; an assigned task has operations.
   Sp: platform queue keys are unique, their size class lists duplicate-free, every listed size class queue exists.
   MI: every invocation belongs to an existing size class queue.
   CQ: every registered operation of an idle uncompleted task (outside its critical section) is queued.
   MI and CQ are kept up to scheduler panics only ([CM]). *)
From Coq Require Import Lia.
From VF Require Export Sched.ProofsAttended.
From VF Require Import Sched.ProofsObsLink.
Open Scope Z_scope.

(* ---- TK ------------------------------------------------------------------------------------------------------------ *)
Definition tk_ok (x : task) : Prop :=
  (forall i o i' o', In (i, o) (t_ops x) -> In (i', o') (t_ops x) -> i_sk i = i_sk i') /\
  (forall w i o, t_worker x = Some w -> In (i, o) (t_ops x) -> i_sk i = w_sk w) /\
  (forall w, t_worker x = Some w -> is_phantom w = false -> t_ops x <> []).
Definition TK (s : state) : Prop := forall t, tk_ok (get_task s t).

Lemma tk_dummy : tk_ok dummy_task.
Proof. unfold tk_ok, dummy_task. cbn. repeat split; intros; try contradiction; discriminate. Qed.

Lemma TK_frame : forall s s', s_tasks s' = s_tasks s -> TK s -> TK s'.
Proof. unfold TK. intros s s' E H t. rewrite (get_task_frame _ _ _ E). apply H. Qed.
Lemma TK_upd_task : forall s t f, tk_ok (f (get_task s t)) -> TK s -> TK (upd_task t f s).
Proof. unfold TK. intros s t f Hf H t'. rewrite get_task_upd_task. destruct (Nat.eqb t' t); [exact Hf|apply H]. Qed.
Lemma TK_newtask : forall s x, tk_ok x -> TK s -> TK (s <| s_ntasks ::= S |> <| s_tasks ::= fun l => l ++ [(s_ntasks s, x)] |>).
Proof.
  unfold TK. intros s x Hx H t. rewrite get_task_newtask. specialize (H t). unfold get_task in H.
  destruct (aget Nat.eqb t (s_tasks s)); [exact H|]. destruct (Nat.eqb t (s_ntasks s)); [exact Hx|exact tk_dummy].
Qed.

Lemma tk_keep : forall x y, t_worker y = t_worker x -> t_ops y = t_ops x -> tk_ok x -> tk_ok y.
Proof. unfold tk_ok. intros x y -> ->. auto. Qed.
Lemma tk_unassign : forall x, tk_ok x -> tk_ok (x <| t_worker := None |>).
Proof. unfold tk_ok. intros x [K1 _]. cbn. split; [exact K1|]. split; intros; discriminate. Qed.
Lemma tk_assign : forall x w,
  (forall i o, In (i, o) (t_ops x) -> i_sk i = w_sk w) -> (is_phantom w = false -> t_ops x <> []) ->
  tk_ok x -> tk_ok (x <| t_worker := Some w |> <| t_retry := O |>).
Proof.
  unfold tk_ok. intros x w H1 H2 [K1 _]. cbn. split; [exact K1|]. split.
  - intros w' i o E. inversion E; subst. apply H1.
  - intros w' E. inversion E; subst. exact H2.
Qed.
Lemma tk_addop : forall x i o,
  (forall i' o', In (i', o') (t_ops x) -> i_sk i' = i_sk i) -> (forall w, t_worker x = Some w -> i_sk i = w_sk w) ->
  tk_ok x -> tk_ok (x <| t_ops ::= fun l => l ++ [(i, o)] |>).
Proof.
  unfold tk_ok. intros x i o H1 H2 [K1 [K2 K3]]. cbn. split; [|split].
  - intros i1 o1 i2 o2 Ha Hb. apply in_app_or in Ha. apply in_app_or in Hb.
    destruct Ha as [Ha|[Ha|[]]], Hb as [Hb|[Hb|[]]]; try (inversion Ha; subst); try (inversion Hb; subst); eauto.
    symmetry. eauto.
  - intros w i1 o1 Ew Ha. apply in_app_or in Ha. destruct Ha as [Ha|[Ha|[]]]; [eauto|inversion Ha; subst; auto].
  - intros w Ew Hp. destruct (t_ops x); discriminate.
Qed.
Lemma tk_retry : forall x d tm lk (old : list (iref * nat)),
  t_worker x = None ->
  tk_ok (x <| t_expdur := d |> <| t_timeout := tm |> <| t_ops := map (fun '(i, o) => (mkI lk (i_path i), o)) old |>).
Proof.
  unfold tk_ok. intros x d tm lk old Hw. cbn. split; [|split; intros; congruence].
  intros i o i' o' Ha Hb. apply in_map_iff in Ha. apply in_map_iff in Hb.
  destruct Ha as [[i0 o0] [Ea _]], Hb as [[i1 o1] [Eb _]]. inversion Ea; inversion Eb; subst. reflexivity.
Qed.
Lemma tk_delop : forall x o,
  (forall w, t_worker x = Some w -> is_phantom w = false -> filter (fun '(_, o') => negb (Nat.eqb o o')) (t_ops x) <> []) ->
  tk_ok x -> tk_ok (x <| t_ops := filter (fun '(_, o') => negb (Nat.eqb o o')) (t_ops x) |>).
Proof.
  unfold tk_ok. intros x o H [K1 [K2 _]]. cbn. split; [|split; [|exact H]].
  - intros i1 o1 i2 o2 Ha Hb. apply filter_In in Ha. apply filter_In in Hb. destruct Ha, Hb. eauto.
  - intros w i1 o1 Ew Ha. apply filter_In in Ha. destruct Ha. eauto.
Qed.

Ltac t_TK :=
  intros;
  lazymatch goal with
  | |- TK (upd_task _ _ _) =>
    apply TK_upd_task; [|assumption];
    match goal with H : TK _ |- _ =>
      first [ (eapply tk_keep; [ | | apply H]; reflexivity)
            | (apply tk_unassign; apply H) ] end
  | |- TK (set s_tasks _ (set s_ntasks S _)) =>
    apply TK_newtask; [unfold tk_ok; cbn; repeat split; intros; try contradiction; discriminate | assumption]
  | |- _ => (eapply TK_frame; [|eassumption]); frame_eq
  end.

(* ---- Sp -------------------------------------------------------------------------------------------------------------- *)
Definition Sp (s : state) : Prop :=
  NoDup (map p_key (s_pqs s)) /\
  (forall p, In p (s_pqs s) -> NoDup (p_scs p)) /\
  (forall p c, In p (s_pqs s) -> In c (p_scs p) -> scq_exists s (mkSK (p_key p) c) = true).

Lemma Sp_frame : forall s s', s_pqs s' = s_pqs s -> (forall k, scq_exists s' k = scq_exists s k) -> Sp s -> Sp s'.
Proof. unfold Sp. intros s s' E1 E2 [A [B C]]. rewrite E1. split; [exact A|]. split; [exact B|]. intros p c Hp Hc. rewrite E2. apply C; assumption. Qed.

Lemma Sp_frame_scqs : forall s s', s_pqs s' = s_pqs s -> s_scqs s' = s_scqs s -> Sp s -> Sp s'.
Proof. intros s s' E1 E2. apply Sp_frame; [exact E1|]. intro k. unfold scq_exists. rewrite E2. reflexivity. Qed.

Ltac t_Sp :=
  intros;
  lazymatch goal with
  | |- Sp (upd_worker _ _ _) => (eapply Sp_frame; [ | |eassumption]); [rewrite upd_worker_eq; reflexivity | intro; apply scq_exists_upd_worker]
  | |- Sp (upd_scq _ _ _) => (eapply Sp_frame; [ | |eassumption]); [rewrite upd_scq_eq; reflexivity | intro; apply scq_exists_upd_scq]
  | |- _ => (eapply Sp_frame_scqs; [ | |eassumption]); frame_eq
  end.

Lemma get_pq_in : forall s k p, get_pq s k = Some p -> In p (s_pqs s) /\ p_key p = k.
Proof. intros s k p H. unfold get_pq in H. apply find_some in H. destruct H as [H1 H2]. apply pkey_eqb_eq in H2. auto. Qed.

Lemma Sp_get_pq : forall s p, Sp s -> In p (s_pqs s) -> get_pq s (p_key p) = Some p.
Proof.
  intros s p [Hnd _] Hp. unfold get_pq. induction (s_pqs s) as [|q l IH]; [destruct Hp|]. cbn in *. inversion Hnd as [|? ? Hni Hnd']; subst.
  destruct Hp as [->|Hp]; [rewrite (proj2 (pkey_eqb_eq _ _) eq_refl); reflexivity|].
  destruct (pkey_eqb (p_key q) (p_key p)) eqn:E; [|apply IH; assumption].
  apply pkey_eqb_eq in E. exfalso. apply Hni. rewrite E. apply in_map. exact Hp.
Qed.

Lemma insert_sorted_in : forall c x l, In x (insert_sorted c l) <-> x = c \/ In x l.
Proof.
  intros c x l. induction l as [|y l IH]; cbn; [split; [intros [H|[]]; auto|intros [H|[]]; auto]|]. destruct (y <? c)%N; cbn; [rewrite IH|]; intuition congruence.
Qed.
Lemma insert_sorted_nodup : forall c l, ~ In c l -> NoDup l -> NoDup (insert_sorted c l).
Proof.
  intros c l. induction l as [|y l IH]; intros Hn Hd; cbn; [constructor; [intros []|constructor]|].
  inversion Hd as [|? ? Hny Hd']; subst. destruct (y <? c)%N.
  - constructor; [|apply IH; [intro; apply Hn; right; assumption|exact Hd']]. rewrite insert_sorted_in. intros [->|H]; [apply Hn; left; reflexivity|contradiction].
  - constructor; [exact Hn|exact Hd].
Qed.

Lemma Sp_add_pq : forall k l m b s, get_pq s k = None -> Sp s -> Sp (add_pq k l m b s).
Proof.
  intros k l m b s Hn [A [B C]]. unfold add_pq, Sp. cbn. split; [|split].
  - rewrite map_app. cbn. rewrite <- (rev_involutive (map p_key (s_pqs s) ++ [k])). apply NoDup_rev. rewrite rev_app_distr. cbn.
    constructor; [|apply NoDup_rev; exact A]. rewrite <- in_rev. intro Hin. apply in_map_iff in Hin. destruct Hin as [p [E Hp]].
    unfold get_pq in Hn. apply (find_none _ _ Hn) in Hp. rewrite E, (proj2 (pkey_eqb_eq _ _) eq_refl) in Hp. discriminate.
  - intros p Hp. apply in_app_or in Hp. destruct Hp as [Hp|[<-|[]]]; [auto|constructor].
  - intros p c Hp Hc. apply in_app_or in Hp. destruct Hp as [Hp|[<-|[]]]; [apply (C p c Hp Hc)|destruct Hc].
Qed.

Lemma Sp_add_scq : forall k b s, scq_exists s k = false -> Sp s -> Sp (add_scq k b s).
Proof.
  intros k b s Hne [A [B C]]. unfold add_scq. cbv zeta. unfold Sp.
  assert (Hex : forall k', scq_exists (upd_pq (sk_pk k) (fun p => p <| p_scs ::= insert_sorted (sk_sc k) |>) s
                  <| s_scqs ::= fun l => l ++ [(k, mkScq b None [] 0 [])] |> <| s_invs ::= fun l => l ++ [(mkI k [], new_inv 0)] |>) k'
                = scq_exists s k' || skey_eqb k' k).
  { intro k'. unfold scq_exists. cbn. rewrite (aget_app skey_eqb). destruct (aget skey_eqb k' (s_scqs s)); [reflexivity|]. cbn. destruct (skey_eqb k' k); reflexivity. }
  cbn [s_pqs set upd_pq]. unfold upd_pq. cbn [s_pqs set]. split; [|split].
  - rewrite map_map. erewrite map_ext; [exact A|]. intro p. destruct (pkey_eqb (p_key p) (sk_pk k)); reflexivity.
  - intros p' Hp'. apply in_map_iff in Hp'. destruct Hp' as [p [E Hp]]. subst p'.
    destruct (pkey_eqb (p_key p) (sk_pk k)) eqn:Ek; [|auto]. cbn. apply insert_sorted_nodup; [|auto].
    intro Hin. apply pkey_eqb_eq in Ek. pose proof (C p _ Hp Hin) as Hc. rewrite Ek, skey_eta in Hc. congruence.
  - intros p' c Hp' Hc. rewrite Hex. apply in_map_iff in Hp'. destruct Hp' as [p [E Hp]]. subst p'.
    destruct (pkey_eqb (p_key p) (sk_pk k)) eqn:Ek.
    + cbn in Hc. apply insert_sorted_in in Hc. cbn [p_key set]. destruct Hc as [->|Hc].
      * apply pkey_eqb_eq in Ek. rewrite Ek, skey_eta, (proj2 (skey_eqb_eq _ _) eq_refl). apply orb_true_r.
      * rewrite (C p c Hp Hc). reflexivity.
    + rewrite (C p c Hp Hc). reflexivity.
Qed.

Lemma Sp_scq_remove_tail : forall k s, NoDup (map fst (s_scqs s)) -> Sp s ->
  Sp ((upd_pq (sk_pk k) (fun p => p <| p_scs := filter (fun c => negb (c =? sk_sc k)%N) (p_scs p) |>)
        (s <| s_scqs := adel skey_eqb k (s_scqs s) |>
           <| s_invs := filter (fun '(i, _) => negb (skey_eqb (i_sk i) k)) (s_invs s) |>))
      <| s_pqs ::= fun ps => filter (fun p => negb (Nat.eqb (List.length (p_scs p)) 0)) ps |>).
Proof.
  intros k s Hnd [A [B C]].
  set (s2 := s <| s_scqs := adel skey_eqb k (s_scqs s) |> <| s_invs := filter (fun '(i, _) => negb (skey_eqb (i_sk i) k)) (s_invs s) |>).
  assert (Hex : forall k', scq_exists s2 k' = if skey_eqb k' k then false else scq_exists s k').
  { intro k'. apply (scq_exists_adel s k k' (fun _ => filter (fun '(i, _) => negb (skey_eqb (i_sk i) k)) (s_invs s))). exact Hnd. }
  unfold Sp. cbn [s_pqs set upd_pq]. unfold upd_pq. cbn [s_pqs set].
  change (s_pqs s2) with (s_pqs s).
  set (g := fun p : pq => if pkey_eqb (p_key p) (sk_pk k) then p <| p_scs := filter (fun c => negb (c =? sk_sc k)%N) (p_scs p) |> else p).
  assert (Hkey : forall p, p_key (g p) = p_key p) by (intro p; unfold g; destruct (pkey_eqb (p_key p) (sk_pk k)); reflexivity).
  split; [|split].
  - assert (H : NoDup (map p_key (map g (s_pqs s)))) by (rewrite map_map; erewrite map_ext; [exact A|exact Hkey]).
    revert H. generalize (map g (s_pqs s)). intro l. induction l as [|p l IH]; intro H; cbn; [constructor|]. cbn in H. inversion H; subst.
    destruct (negb _); cbn; [constructor; [|auto]|auto].
    intro Hin. apply H2. apply in_map_iff in Hin. destruct Hin as [q [E Hq]]. apply filter_In in Hq. apply in_map_iff. exists q. tauto.
  - intros p' Hp'. apply filter_In in Hp'. destruct Hp' as [Hp' _]. apply in_map_iff in Hp'. destruct Hp' as [p [E Hp]]. subst p'.
    unfold g. destruct (pkey_eqb (p_key p) (sk_pk k)); [cbn; apply NoDup_filter; auto|auto].
  - intros p' c Hp' Hc. apply filter_In in Hp'. destruct Hp' as [Hp' _]. apply in_map_iff in Hp'. destruct Hp' as [p [E Hp]]. subst p'.
    rewrite Hkey.
    assert (Hc0 : In c (p_scs p) /\ (p_key p = sk_pk k -> c <> sk_sc k)).
    { unfold g in Hc. destruct (pkey_eqb (p_key p) (sk_pk k)) eqn:Ek.
      - cbn in Hc. apply filter_In in Hc. destruct Hc as [Hc Hn]. split; [exact Hc|]. intros _. apply negb_true_iff in Hn. apply N.eqb_neq in Hn. exact Hn.
      - split; [exact Hc|]. intro E. rewrite E, (proj2 (pkey_eqb_eq _ _) eq_refl) in Ek. discriminate. }
    destruct Hc0 as [Hc0 Hne].
    match goal with |- scq_exists ?st ?kk = true => change (scq_exists st kk) with (scq_exists s2 kk) end.
    rewrite Hex. destruct (skey_eqb (mkSK (p_key p) c) k) eqn:E; [|apply C; assumption].
    apply skey_eqb_eq in E. subst k. cbn in Hne. exfalso. apply Hne; reflexivity.
Qed.

(* ---- MI -------------------------------------------------------------------------------------------------------------- *)
Definition MI (s : state) : Prop := forall i v, In (i, v) (s_invs s) -> scq_exists s (i_sk i) = true.

Lemma MI_frame : forall s s', s_invs s' = s_invs s -> (forall k, scq_exists s' k = scq_exists s k) -> MI s -> MI s'.
Proof. unfold MI. intros s s' E1 E2 H i v. rewrite E1, E2. apply H. Qed.
Lemma MI_upd_inv : forall s i f, MI s -> MI (upd_inv i f s).
Proof.
  unfold MI, upd_inv. intros s i f H j v. destruct (aget iref_eqb i (s_invs s)) as [x|] eqn:E; [|apply H]. cbn.
  intro Hin. apply In_aset in Hin. destruct Hin as [[-> ->]|Hin]; [|eapply H; exact Hin].
  apply (aget_In iref_eqb iref_eqb_eq) in E. eapply H. exact E.
Qed.
Lemma MI_invs_new : forall s i z, scq_exists s (i_sk i) = true -> MI s -> MI (s <| s_invs ::= fun l => l ++ [(i, new_inv z)] |>).
Proof.
  unfold MI. intros s i z He H j v. cbn. intro Hin. apply in_app_or in Hin. destruct Hin as [Hin|[Heq|[]]]; [eapply H; exact Hin|].
  inversion Heq; subst. exact He.
Qed.
Lemma MI_invs_del : forall s i, MI s -> MI (s <| s_invs := adel iref_eqb i (s_invs s) |>).
Proof. unfold MI. intros s i H j v. cbn. intro Hin. apply In_adel in Hin. eapply H. exact Hin. Qed.
Lemma MI_newscq : forall s k b, MI s ->
  MI (s <| s_scqs ::= fun l => l ++ [(k, mkScq b None [] 0 [])] |> <| s_invs ::= fun l => l ++ [(mkI k [], new_inv 0)] |>).
Proof.
  unfold MI. intros s k b H j v. cbn. intro Hin.
  assert (Hex : forall k', scq_exists (s <| s_scqs ::= fun l => l ++ [(k, mkScq b None [] 0 [])] |> <| s_invs ::= fun l => l ++ [(mkI k [], new_inv 0)] |>) k'
                = scq_exists s k' || skey_eqb k' k).
  { intro k'. unfold scq_exists. cbn. rewrite (aget_app skey_eqb). destruct (aget skey_eqb k' (s_scqs s)); [reflexivity|]. cbn. destruct (skey_eqb k' k); reflexivity. }
  rewrite Hex. apply in_app_or in Hin. destruct Hin as [Hin|[Heq|[]]]; [rewrite (H _ _ Hin); reflexivity|].
  inversion Heq; subst. cbn. rewrite (proj2 (skey_eqb_eq _ _) eq_refl). apply orb_true_r.
Qed.
Lemma MI_delscq : forall s k, NoDup (map fst (s_scqs s)) -> MI s ->
  MI (s <| s_scqs := adel skey_eqb k (s_scqs s) |> <| s_invs := filter (fun '(i, _) => negb (skey_eqb (i_sk i) k)) (s_invs s) |>).
Proof.
  unfold MI. intros s k Hnd H j v. cbn. intro Hin. apply filter_In in Hin. destruct Hin as [Hin Hne].
  rewrite (scq_exists_adel s k (i_sk j) (fun _ => filter (fun '(i, _) => negb (skey_eqb (i_sk i) k)) (s_invs s)) Hnd).
  apply negb_true_iff in Hne. rewrite Hne. eapply H. exact Hin.
Qed.

Ltac t_MI :=
  intros;
  lazymatch goal with
  | |- MI (upd_inv _ _ _) => apply MI_upd_inv; assumption
  | |- MI (set s_invs (fun _ => adel iref_eqb _ _) _) => apply MI_invs_del; assumption
  | |- MI (set s_invs _ (set s_scqs (fun l => l ++ _) _)) => apply MI_newscq; assumption
  | |- MI (upd_worker _ _ _) => (eapply MI_frame; [ | |eassumption]); [apply invs_upd_worker | intro; apply scq_exists_upd_worker]
  | |- MI (upd_scq _ _ _) => (eapply MI_frame; [ | |eassumption]); [apply invs_upd_scq | intro; apply scq_exists_upd_scq]
  | |- _ => (eapply MI_frame; [ | |eassumption]); [frame_eq | intro; unfold scq_exists; first [reflexivity | (rewrite upd_inv_eq; reflexivity) | (rewrite upd_task_eq; reflexivity) | (rewrite upd_op_eq; reflexivity)]]
  end.

(* ---- CQ -------------------------------------------------------------------------------------------------------------- *)
Definition CQ (ext : list nat) (s : state) : Prop :=
  forall o, op_alive s o = true -> ~ In (tsk s o) ext -> idle_live s (tsk s o) -> queued s o.

Lemma CQ_weaken : forall ext t s, CQ ext s -> CQ (t :: ext) s.
Proof. unfold CQ. intros ext t s H o Ha Hn. apply H; [exact Ha|]. intro Hin. apply Hn. right. exact Hin. Qed.

Lemma CQ_transfer : forall ext s s',
  (forall o, op_alive s' o = true -> ~ In (tsk s' o) ext -> idle_live s' (tsk s' o) ->
     op_alive s o = true /\ ~ In (tsk s o) ext /\ idle_live s (tsk s o) /\ (queued s o -> queued s' o)) ->
  CQ ext s -> CQ ext s'.
Proof. unfold CQ. intros ext s s' Ht H o Ha Hn Hi. destruct (Ht o Ha Hn Hi) as [A [B [C D]]]. apply D. apply H; assumption. Qed.

Lemma CQ_frame : forall ext s s', s_tasks s' = s_tasks s -> s_ops s' = s_ops s -> s_invs s' = s_invs s -> CQ ext s -> CQ ext s'.
Proof.
  intros ext s s' E1 E2 E3. apply CQ_transfer. intros o. unfold tsk, idle_live, queued.
  rewrite (op_alive_frame _ _ _ E2), (get_op_frame _ _ _ E2), (get_task_frame _ _ _ E1), (get_inv_frame _ _ _ E3). auto.
Qed.

(* task updates: inside the critical section anything goes; outside, the task must not become idle *)
Lemma CQ_upd_task : forall ext s t f,
  (In t ext \/ (t_worker (f (get_task s t)) = None -> t_resp (f (get_task s t)) = None ->
                t_worker (get_task s t) = None /\ t_resp (get_task s t) = None)) ->
  CQ ext s -> CQ ext (upd_task t f s).
Proof.
  intros ext s t f Hf. apply CQ_transfer. intros o. unfold tsk, idle_live, queued.
  rewrite (op_alive_frame (upd_task t f s) s) by reflexivity. rewrite (get_op_frame s (upd_task t f s)) by reflexivity.
  rewrite (get_inv_frame s (upd_task t f s)) by reflexivity. rewrite get_task_upd_task.
  intros Ha Hn [Hw Hr]. split; [exact Ha|]. split; [exact Hn|]. split; [|auto].
  destruct (Nat.eqb (o_task (get_op s o)) t) eqn:E; [|auto]. apply Nat.eqb_eq in E. rewrite E in *.
  destruct Hf as [Hf|Hf]; [contradiction|apply Hf; assumption].
Qed.

Lemma CQ_newtask : forall ext s x, CQ ext s -> CQ (s_ntasks s :: ext) (s <| s_ntasks ::= S |> <| s_tasks ::= fun l => l ++ [(s_ntasks s, x)] |>).
Proof.
  unfold CQ. intros ext s x H o Ha Hn Hi.
  set (s' := s <| s_ntasks ::= S |> <| s_tasks ::= fun l => l ++ [(s_ntasks s, x)] |>) in *.
  change (op_alive s' o) with (op_alive s o) in Ha. change (tsk s' o) with (tsk s o) in *. change (queued s' o) with (queued s o).
  assert (Hne : tsk s o <> s_ntasks s /\ ~ In (tsk s o) ext) by (split; [intros E; apply Hn; left; auto|intros Hin; apply Hn; right; exact Hin]).
  destruct Hne as [Hne Hn']. apply H; [exact Ha|exact Hn'|].
  unfold idle_live in *. unfold s' in Hi. rewrite get_task_newtask in Hi. unfold get_task.
  destruct (aget Nat.eqb (tsk s o) (s_tasks s)); [exact Hi|]. cbn. auto.
Qed.

Lemma CQ_upd_op_keep : forall ext s o f, (forall y, o_task (f y) = o_task y /\ o_inv (f y) = o_inv y) -> CQ ext s -> CQ ext (upd_op o f s).
Proof.
  intros ext s o f Hf. apply CQ_transfer. intros o'. unfold tsk, idle_live, queued.
  assert (Hgo : o_task (get_op (upd_op o f s) o') = o_task (get_op s o') /\ o_inv (get_op (upd_op o f s) o') = o_inv (get_op s o')).
  { rewrite get_op_upd_op. destruct (Nat.eqb o' o && op_alive s o) eqn:E; [|auto]. apply andb_true_iff in E. destruct E as [E _]. apply Nat.eqb_eq in E. subst. apply Hf. }
  destruct Hgo as [-> ->]. rewrite op_alive_upd_op.
  rewrite (get_task_frame s (upd_op o f s)) by (rewrite upd_op_eq; reflexivity).
  rewrite (get_inv_frame s (upd_op o f s)) by (rewrite upd_op_eq; reflexivity). auto.
Qed.

Lemma CQ_newop : forall ext s t prio i m, In t ext -> op_alive s (s_nops s) = false -> CQ ext s ->
  CQ ext (s <| s_nops ::= S |> <| s_ops ::= fun l => l ++ [(s_nops s, mkOper t prio i 0 m None)] |>).
Proof.
  intros ext s t prio i m Hin Hfr. apply CQ_transfer. intros o Ha Hn Hi.
  set (s' := s <| s_nops ::= S |> <| s_ops ::= _ |>) in *.
  unfold s' in Ha. rewrite op_alive_newop in Ha.
  assert (Hg : get_op s' o = match aget Nat.eqb o (s_ops s) with Some y => y | None => if Nat.eqb o (s_nops s) then mkOper t prio i 0 m None else dummy_oper end) by apply get_op_newop.
  destruct (op_alive s o) eqn:Eo.
  - assert (E : get_op s' o = get_op s o) by (rewrite Hg; unfold op_alive, get_op in *; destruct (aget Nat.eqb o (s_ops s)); [reflexivity|discriminate]).
    unfold tsk, idle_live, queued in *. rewrite E in *. auto.
  - exfalso. cbn in Ha. apply Hn. unfold tsk. rewrite Hg. unfold op_alive in Eo. destruct (aget Nat.eqb o (s_ops s)); [discriminate|]. rewrite Ha. exact Hin.
Qed.

Lemma CQ_delop : forall ext s o, NoDup (map fst (s_ops s)) -> CQ ext s -> CQ ext (s <| s_ops := adel Nat.eqb o (s_ops s) |>).
Proof.
  intros ext s o Hnd. apply CQ_transfer. intros o' Ha Hn Hi. set (s' := s <| s_ops := _ |>) in *.
  assert (Hne : o' <> o).
  { intros ->. unfold op_alive, s' in Ha. cbn in Ha. rewrite (aget_adel_same Nat.eqb nat_eqb_eq) in Ha by exact Hnd. discriminate. }
  assert (E : get_op s' o' = get_op s o' /\ op_alive s' o' = op_alive s o').
  { unfold s', get_op, op_alive. cbn. rewrite (aget_adel_other Nat.eqb nat_eqb_eq) by exact Hne. auto. }
  destruct E as [E1 E2]. unfold tsk, idle_live, queued in *. rewrite E1 in *. rewrite E2 in Ha. auto.
Qed.

Lemma CQ_upd_op_ext : forall ext s o f, In (tsk s o) ext -> (forall y, o_task (f y) = o_task y) -> CQ ext s -> CQ ext (upd_op o f s).
Proof.
  intros ext s o f Hin Hf. apply CQ_transfer. intros o' Ha Hn Hi. rewrite op_alive_upd_op in Ha.
  assert (Ht : tsk (upd_op o f s) o' = tsk s o').
  { unfold tsk. rewrite get_op_upd_op. destruct (Nat.eqb o' o && op_alive s o) eqn:E; [|reflexivity].
    apply andb_true_iff in E. destruct E as [E _]. apply Nat.eqb_eq in E. subst. apply Hf. }
  rewrite Ht in Hn, Hi. assert (Hne : o' <> o) by (intros ->; contradiction).
  assert (Eg : get_op (upd_op o f s) o' = get_op s o').
  { rewrite get_op_upd_op. destruct (Nat.eqb o' o) eqn:E; [apply Nat.eqb_eq in E; contradiction|reflexivity]. }
  unfold idle_live, queued in *. rewrite Eg. rewrite (get_task_frame s (upd_op o f s)) in Hi by (rewrite upd_op_eq; reflexivity).
  rewrite (get_inv_frame s (upd_op o f s)) by (rewrite upd_op_eq; reflexivity). auto.
Qed.

(* invocation updates that do not take an operation out of a queue *)
Lemma CQ_upd_inv_grow : forall ext s i f, (forall v x, In x (v_qops v) -> In x (v_qops (f v))) -> CQ ext s -> CQ ext (upd_inv i f s).
Proof.
  intros ext s i f Hf. apply CQ_transfer. intros o. unfold tsk, idle_live, queued.
  rewrite (op_alive_frame s (upd_inv i f s)) by (rewrite upd_inv_eq; reflexivity).
  rewrite (get_op_frame s (upd_inv i f s)) by (rewrite upd_inv_eq; reflexivity).
  rewrite (get_task_frame s (upd_inv i f s)) by (rewrite upd_inv_eq; reflexivity).
  intros Ha Hn Hi. split; [exact Ha|]. split; [exact Hn|]. split; [exact Hi|].
  rewrite get_inv_upd_inv. destruct (iref_eqb (o_inv (get_op s o)) i && inv_exists s i) eqn:E; [|auto].
  apply andb_true_iff in E. destruct E as [E _]. apply iref_eqb_eq in E. rewrite E. apply Hf.
Qed.

(* taking [o] out of its queue: its task is in its critical section, or not idle *)
Lemma CQ_deq : forall ext s i o, (In (tsk s o) ext \/ ~ idle_live s (tsk s o)) -> CQ ext s ->
  CQ ext (upd_inv i (fun v => v <| v_qops ::= remove_nat o |>) s).
Proof.
  intros ext s i o Ho. apply CQ_transfer. intros o'. unfold tsk, idle_live, queued.
  set (s' := upd_inv i _ s).
  rewrite (op_alive_frame s s') by (unfold s'; rewrite upd_inv_eq; reflexivity).
  rewrite (get_op_frame s s') by (unfold s'; rewrite upd_inv_eq; reflexivity).
  rewrite (get_task_frame s s') by (unfold s'; rewrite upd_inv_eq; reflexivity).
  intros Ha Hn Hi. split; [exact Ha|]. split; [exact Hn|]. split; [exact Hi|].
  unfold s'. rewrite get_inv_upd_inv. destruct (iref_eqb (o_inv (get_op s o')) i && inv_exists s i) eqn:E; [|auto].
  apply andb_true_iff in E. destruct E as [E _]. apply iref_eqb_eq in E. rewrite E. cbn. intro Hq.
  unfold remove_nat. apply filter_In. split; [exact Hq|]. apply negb_true_iff. apply Nat.eqb_neq. intros ->.
  unfold tsk, idle_live in Ho. destruct Ho as [Ho|Ho]; [contradiction|apply Ho; exact Hi].
Qed.

Lemma CQ_invs_new : forall ext s i z, CQ ext s -> CQ ext (s <| s_invs ::= fun l => l ++ [(i, new_inv z)] |>).
Proof.
  intros ext s i z. apply CQ_transfer. intros o Ha Hn Hi. split; [exact Ha|]. split; [exact Hn|]. split; [exact Hi|].
  unfold queued, get_inv. cbn. change (get_op (s <| s_invs ::= fun l => l ++ [(i, new_inv z)] |>) o) with (get_op s o).
  rewrite (aget_app iref_eqb). destruct (aget iref_eqb (o_inv (get_op s o)) (s_invs s)); [auto|intros []].
Qed.

Lemma CQ_invs_del : forall ext s i, NoDup (map fst (s_invs s)) -> v_qops (get_inv s i) = [] -> CQ ext s ->
  CQ ext (s <| s_invs := adel iref_eqb i (s_invs s) |>).
Proof.
  intros ext s i Hnd He. apply CQ_transfer. intros o Ha Hn Hi. split; [exact Ha|]. split; [exact Hn|]. split; [exact Hi|].
  unfold queued. change (get_op (s <| s_invs := adel iref_eqb i (s_invs s) |>) o) with (get_op s o).
  rewrite get_inv_adel by exact Hnd. destruct (iref_eqb (o_inv (get_op s o)) i) eqn:E; [|auto].
  apply iref_eqb_eq in E. rewrite E, He. intros [].
Qed.

Lemma CQ_newscq : forall ext s k b, CQ ext s ->
  CQ ext (s <| s_scqs ::= fun l => l ++ [(k, mkScq b None [] 0 [])] |> <| s_invs ::= fun l => l ++ [(mkI k [], new_inv 0)] |>).
Proof.
  intros ext s k b. apply CQ_transfer. intros o Ha Hn Hi. split; [exact Ha|]. split; [exact Hn|]. split; [exact Hi|].
  set (s' := s <| s_scqs ::= _ |> <| s_invs ::= _ |>). change (queued s' o) with (In o (v_qops (get_inv s' (o_inv (get_op s o))))).
  unfold queued, get_inv, s'. cbn. rewrite (aget_app iref_eqb). destruct (aget iref_eqb (o_inv (get_op s o)) (s_invs s)); [auto|cbn; intros []].
Qed.

Lemma CQ_delscq : forall ext s k, (forall i, i_sk i = k -> v_qops (get_inv s i) = []) -> CQ ext s ->
  CQ ext (s <| s_scqs := adel skey_eqb k (s_scqs s) |> <| s_invs := filter (fun '(i, _) => negb (skey_eqb (i_sk i) k)) (s_invs s) |>).
Proof.
  intros ext s k He. apply CQ_transfer. intros o Ha Hn Hi. split; [exact Ha|]. split; [exact Hn|]. split; [exact Hi|].
  set (s' := s <| s_scqs := _ |> <| s_invs := _ |>). change (queued s' o) with (In o (v_qops (get_inv s' (o_inv (get_op s o))))).
  unfold queued. set (jj := o_inv (get_op s o)).
  destruct (skey_eqb (i_sk jj) k) eqn:E.
  - apply skey_eqb_eq in E. rewrite (He jj E). intros [].
  - unfold get_inv, s'. cbn. rewrite (aget_filter_keep iref_eqb iref_eqb_eq (fun i => negb (skey_eqb (i_sk i) k))); [auto|]. cbn. rewrite E. reflexivity.
Qed.
