(* Reading a component of the state after a primitive update. *)
From Coq Require Import Lia.
From VF Require Export Sched.ProofsPrims Sched.ProofsExec.
Open Scope Z_scope.

Lemma eqb_refl_of {K} (eqb : K -> K -> bool) (H : forall a b, eqb a b = true <-> a = b) : forall a, eqb a a = true.
Proof. intro a. apply H. reflexivity. Qed.
Definition wref_eqb_refl := eqb_refl_of wref_eqb wref_eqb_eq.
Definition skey_eqb_refl := eqb_refl_of skey_eqb skey_eqb_eq.
Definition iref_eqb_refl := eqb_refl_of iref_eqb iref_eqb_eq.

Lemma eqb_false_of {K} (eqb : K -> K -> bool) (H : forall a b, eqb a b = true <-> a = b) : forall a b, a <> b -> eqb a b = false.
Proof. intros a b Hne. destruct (eqb a b) eqn:E; [apply H in E; contradiction|reflexivity]. Qed.

(* ---- aget on filtered / appended lists ------------------------------------------------- *)
Lemma aget_filter_keep {K V} (eqb : K -> K -> bool) (eqb_eq : forall a b, eqb a b = true <-> a = b) (keep : K -> bool) :
  forall k (l : list (K * V)), keep k = true -> aget eqb k (filter (fun '(k', _) => keep k') l) = aget eqb k l.
Proof.
  intros k l Hk. induction l as [|[k' v] l IH]; cbn; [reflexivity|].
  destruct (keep k') eqn:E; cbn.
  - destruct (eqb k k'); auto.
  - destruct (eqb k k') eqn:Ek; [apply eqb_eq in Ek; subst; congruence|exact IH].
Qed.

Lemma aget_filter_drop {K V} (eqb : K -> K -> bool) (eqb_eq : forall a b, eqb a b = true <-> a = b) (keep : K -> bool) :
  forall k (l : list (K * V)), keep k = false -> aget eqb k (filter (fun '(k', _) => keep k') l) = None.
Proof.
  intros k l Hk. induction l as [|[k' v] l IH]; cbn; [reflexivity|].
  destruct (keep k') eqn:E; cbn; [|exact IH].
  destruct (eqb k k') eqn:Ek; [apply eqb_eq in Ek; subst; congruence|exact IH].
Qed.

(* ---- size class queues and workers --------------------------------------------------------- *)
Lemma get_scq_frame : forall s s' k, s_scqs s' = s_scqs s -> get_scq s' k = get_scq s k.
Proof. unfold get_scq. intros s s' k ->. reflexivity. Qed.
Lemma scq_exists_frame : forall s s' k, s_scqs s' = s_scqs s -> scq_exists s' k = scq_exists s k.
Proof. unfold scq_exists. intros s s' k ->. reflexivity. Qed.
Lemma get_worker_frame' : forall s s' w, s_scqs s' = s_scqs s -> get_worker s' w = get_worker s w.
Proof. unfold get_worker, get_scq. intros s s' w ->. reflexivity. Qed.
Lemma worker_exists_frame : forall s s' w, s_scqs s' = s_scqs s -> worker_exists s' w = worker_exists s w.
Proof. unfold worker_exists, get_scq. intros s s' w ->. reflexivity. Qed.

Lemma get_scq_upd_scq : forall s k k' f,
  get_scq (upd_scq k' f s) k = if skey_eqb k k' && scq_exists s k' then f (get_scq s k') else get_scq s k.
Proof.
  intros s k k' f. unfold upd_scq, scq_exists, get_scq at 1.
  destruct (aget skey_eqb k' (s_scqs s)) as [x|] eqn:E; cbn.
  - rewrite (aget_aset skey_eqb skey_eqb_eq). destruct (skey_eqb k k') eqn:Ek; cbn; [|reflexivity].
    unfold get_scq. rewrite E. reflexivity.
  - rewrite andb_false_r. reflexivity.
Qed.

Lemma scq_exists_upd_scq : forall s k k' f, scq_exists (upd_scq k' f s) k = scq_exists s k.
Proof.
  intros s k k' f. unfold upd_scq, scq_exists. destruct (aget skey_eqb k' (s_scqs s)) as [x|] eqn:E; [|reflexivity]. cbn.
  rewrite (aget_aset skey_eqb skey_eqb_eq). destruct (skey_eqb k k') eqn:Ek; [|reflexivity].
  apply skey_eqb_eq in Ek. subst. rewrite E. reflexivity.
Qed.

Lemma get_worker_upd_worker : forall s w w' f,
  get_worker (upd_worker w' f s) w = if wref_eqb w w' && worker_exists s w' then f (get_worker s w') else get_worker s w.
Proof.
  intros s w w' f. unfold upd_worker. destruct (worker_exists s w') eqn:Ee; [|rewrite andb_false_r; reflexivity].
  rewrite andb_true_r. unfold get_worker at 1. rewrite get_scq_upd_scq.
  assert (Hs : scq_exists s (w_sk w') = true).
  { unfold worker_exists, get_scq, scq_exists in *. destruct (aget skey_eqb (w_sk w') (s_scqs s)); [reflexivity|discriminate]. }
  rewrite Hs, andb_true_r. destruct (skey_eqb (w_sk w) (w_sk w')) eqn:Ek.
  - cbn. rewrite (aget_aset wref_eqb wref_eqb_eq). destruct (wref_eqb w w') eqn:Ew; [reflexivity|].
    apply skey_eqb_eq in Ek. unfold get_worker. rewrite Ek. reflexivity.
  - destruct (wref_eqb w w') eqn:Ew; [apply wref_eqb_eq in Ew; subst; rewrite skey_eqb_refl in Ek; discriminate|reflexivity].
Qed.

Lemma worker_exists_upd_worker : forall s w w' f, worker_exists (upd_worker w' f s) w = worker_exists s w.
Proof.
  intros s w w' f. unfold upd_worker. destruct (worker_exists s w') eqn:Ee; [|reflexivity].
  assert (Hs : scq_exists s (w_sk w') = true).
  { unfold worker_exists, get_scq, scq_exists in *. destruct (aget skey_eqb (w_sk w') (s_scqs s)); [reflexivity|discriminate]. }
  unfold worker_exists at 1. rewrite get_scq_upd_scq, Hs, andb_true_r.
  destruct (skey_eqb (w_sk w) (w_sk w')) eqn:Ek; [|reflexivity]. cbn.
  rewrite (aget_aset wref_eqb wref_eqb_eq). destruct (wref_eqb w w') eqn:Ew.
  - apply wref_eqb_eq in Ew. subst. rewrite Ee. reflexivity.
  - apply skey_eqb_eq in Ek. unfold worker_exists. rewrite Ek. reflexivity.
Qed.

(* the other fields of a queue record are not touched by worker updates *)
Lemma get_scq_upd_worker : forall s w f k,
  let q' := get_scq (upd_worker w f s) k in let q := get_scq s k in
  q_removable q' = q_removable q /\ q_cleanup q' = q_cleanup q /\ q_drains q' = q_drains q /\ q_undrain q' = q_undrain q
  /\ map fst (q_workers q') = map fst (q_workers q).
Proof.
  intros s w f k. cbv zeta. unfold upd_worker. destruct (worker_exists s w) eqn:Ee; [|auto 6].
  rewrite get_scq_upd_scq. destruct (skey_eqb k (w_sk w) && scq_exists s (w_sk w)) eqn:E; [|auto 6].
  apply andb_true_iff in E. destruct E as [Ek _]. apply skey_eqb_eq in Ek. subst k. cbn. repeat split.
  rewrite (map_fst_aset wref_eqb wref_eqb_eq). unfold worker_exists in Ee.
  destruct (aget wref_eqb w (q_workers (get_scq s (w_sk w)))); [reflexivity|discriminate].
Qed.

Lemma scq_exists_upd_worker : forall s w f k, scq_exists (upd_worker w f s) k = scq_exists s k.
Proof. intros. unfold upd_worker. destruct (worker_exists s w); [apply scq_exists_upd_scq|reflexivity]. Qed.

(* queue updates that keep the worker list *)
Lemma get_worker_upd_scq_keep : forall s k f w, (forall q, q_workers (f q) = q_workers q) ->
  get_worker (upd_scq k f s) w = get_worker s w.
Proof.
  intros s k f w Hf. unfold get_worker. rewrite get_scq_upd_scq.
  destruct (skey_eqb (w_sk w) k && scq_exists s k) eqn:E; [|reflexivity].
  apply andb_true_iff in E. destruct E as [Ek _]. apply skey_eqb_eq in Ek. subst k. rewrite Hf. reflexivity.
Qed.
Lemma worker_exists_upd_scq_keep : forall s k f w, (forall q, q_workers (f q) = q_workers q) ->
  worker_exists (upd_scq k f s) w = worker_exists s w.
Proof.
  intros s k f w Hf. unfold worker_exists. rewrite get_scq_upd_scq.
  destruct (skey_eqb (w_sk w) k && scq_exists s k) eqn:E; [|reflexivity].
  apply andb_true_iff in E. destruct E as [Ek _]. apply skey_eqb_eq in Ek. subst k. rewrite Hf. reflexivity.
Qed.

(* ---- invocations -------------------------------------------------------------------------------- *)
Lemma get_inv_frame : forall s s' i, s_invs s' = s_invs s -> get_inv s' i = get_inv s i.
Proof. unfold get_inv. intros s s' i ->. reflexivity. Qed.
Lemma inv_exists_frame : forall s s' i, s_invs s' = s_invs s -> inv_exists s' i = inv_exists s i.
Proof. unfold inv_exists. intros s s' i ->. reflexivity. Qed.

Lemma get_inv_upd_inv : forall s i i' f,
  get_inv (upd_inv i' f s) i = if iref_eqb i i' && inv_exists s i' then f (get_inv s i') else get_inv s i.
Proof.
  intros s i i' f. unfold upd_inv, inv_exists, get_inv at 1.
  destruct (aget iref_eqb i' (s_invs s)) as [x|] eqn:E; cbn.
  - rewrite (aget_aset iref_eqb iref_eqb_eq). destruct (iref_eqb i i') eqn:Ek; cbn; [|reflexivity].
    unfold get_inv. rewrite E. reflexivity.
  - rewrite andb_false_r. reflexivity.
Qed.
Lemma inv_exists_upd_inv : forall s i i' f, inv_exists (upd_inv i' f s) i = inv_exists s i.
Proof.
  intros s i i' f. unfold upd_inv, inv_exists. destruct (aget iref_eqb i' (s_invs s)) as [x|] eqn:E; [|reflexivity]. cbn.
  rewrite (aget_aset iref_eqb iref_eqb_eq). destruct (iref_eqb i i') eqn:Ek; [|reflexivity].
  apply iref_eqb_eq in Ek. subst. rewrite E. reflexivity.
Qed.

(* ---- operations ------------------------------------------------------------------------------------ *)
Lemma op_alive_frame : forall s s' o, s_ops s' = s_ops s -> op_alive s' o = op_alive s o.
Proof. unfold op_alive. intros s s' o ->. reflexivity. Qed.
Lemma get_op_upd_op : forall s o o' f,
  get_op (upd_op o' f s) o = if Nat.eqb o o' && op_alive s o' then f (get_op s o') else get_op s o.
Proof.
  intros s o o' f. destruct (Nat.eqb o o') eqn:E; cbn.
  - apply Nat.eqb_eq in E. subst. destruct (op_alive s o') eqn:Ea; [apply get_op_upd_op_same; exact Ea|].
    unfold upd_op, op_alive in *. destruct (aget Nat.eqb o' (s_ops s)); [discriminate|reflexivity].
  - apply get_op_upd_op_other. apply Nat.eqb_neq. exact E.
Qed.
