(* C05 / C07 at Execute: the selector is called exactly once, a new task goes
   to the size class queue of the longest matching prefix, rejections. *)
From Coq Require Import Lia.
From VF Require Export Sched.ProofsFoot.
Open Scope Z_scope.

(* ---- reading tasks after updates -------------------------------------------------------- *)
Lemma get_task_frame : forall s s' t, s_tasks s' = s_tasks s -> get_task s' t = get_task s t.
Proof. unfold get_task. intros s s' t ->. reflexivity. Qed.

Lemma get_task_upd_task : forall s t t' f,
  get_task (upd_task t' f s) t = if Nat.eqb t t' then f (get_task s t') else get_task s t.
Proof.
  intros s t t' f. unfold upd_task, get_task at 1. cbn.
  rewrite (aget_aset Nat.eqb nat_eqb_eq). destruct (Nat.eqb t t'); reflexivity.
Qed.

Lemma get_op_frame : forall s s' o, s_ops s' = s_ops s -> get_op s' o = get_op s o.
Proof. unfold get_op. intros s s' o ->. reflexivity. Qed.

(* ---- the selector ghosts ------------------------------------------------------------------- *)
Definition is_selector (o : obs) : bool :=
  match o with OGhost GSelect | OGhost GSelAbandoned => true | _ => false end.
Definition nsel (n : nat) (s : state) : Prop := List.length (filter is_selector (s_out s)) = n.

Lemma nsel_frame : forall n s s', s_out s' = s_out s -> nsel n s -> nsel n s'.
Proof. unfold nsel. intros n s s' ->. auto. Qed.
Lemma nsel_emit_other : forall n s o, is_selector o = false -> nsel n s -> nsel n (emit o s).
Proof. unfold nsel, emit. intros n s o Ho H. cbn. rewrite Ho. exact H. Qed.
Lemma nsel_emit_sel : forall n s o, is_selector o = true -> nsel n s -> nsel (S n) (emit o s).
Proof. unfold nsel, emit. intros n s o Ho H. cbn. rewrite Ho. cbn. rewrite H. reflexivity. Qed.

Ltac t_nsel :=
  intros;
  first [ (eapply nsel_frame; [ | eassumption]; prim_unfold; prim_cases; reflexivity)
        | (apply nsel_emit_other; [reflexivity | assumption]) ].
Ltac nsel_go := fr_go (nsel 0) t_nsel.

Lemma nsel_ret : forall n s c code, nsel n s -> nsel n (ret c code s).
Proof. intros. unfold ret. nsel_go. Qed.

Lemma nsel_exec_start : forall c a s, nsel 0 s -> nsel 1 (exec_start c a s).
Proof.
  intros c a s H. unfold exec_start, new_operation.
  nsel_go; (apply nsel_emit_sel; [reflexivity|]); nsel_go.
Qed.

Lemma nsel_auto_returns : forall n s, nsel n s -> nsel n (auto_returns s).
Proof. intros n s H. apply fr_auto_returns with (P := nsel n); [intros; apply nsel_ret; assumption|exact H]. Qed.

(* selector_linear: an Execute event calls exactly one of Select / Abandoned on its selector *)
Lemma selector_linear_step : forall s c a t h,
  List.length (filter is_selector (snd (step s (EStartExecute c a t, h)))) = 1%nat.
Proof.
  intros s c a t h. unfold step. cbn [fst snd step_core].
  set (sa := s <| s_hints := h |> <| s_out := [] |>).
  assert (H0 : nsel 0 sa) by reflexivity.
  assert (H1 : nsel 1 (auto_returns (exec_start c a (enter t sa)))).
  { apply nsel_auto_returns. apply nsel_exec_start. nsel_go. }
  unfold nsel in H1. rewrite <- H1.
  generalize (s_out (auto_returns (exec_start c a (enter t sa)))) as l. intro l.
  induction l as [|x l IH]; cbn; [reflexivity|].
  rewrite filter_app, app_length, IH. cbn. destruct (is_selector x); cbn; lia.
Qed.

(* ... and no other event calls a selector *)
Lemma selector_only_at_execute : forall s e h,
  (forall c a t, e <> EStartExecute c a t) ->
  filter is_selector (snd (step s (e, h))) = [].
Proof.
  intros s e h Hne. unfold step. cbn [fst snd].
  set (sa := s <| s_hints := h |> <| s_out := [] |>).
  assert (H0 : nsel 0 sa) by reflexivity.
  assert (H1 : nsel 0 (auto_returns (step_core e sa))).
  { apply nsel_auto_returns. destruct e; unfold step_core; try (nsel_go; fail).
    exfalso. eapply Hne. reflexivity. }
  unfold nsel in H1.
  assert (Hl : List.length (filter is_selector (rev (s_out (auto_returns (step_core e sa))))) = 0%nat).
  { rewrite <- H1. generalize (s_out (auto_returns (step_core e sa))) as l. intro l.
    induction l as [|x l IH]; cbn; [reflexivity|].
    rewrite filter_app, app_length, IH. cbn. destruct (is_selector x); cbn; lia. }
  apply length_zero_iff_nil. exact Hl.
Qed.

(* ---- rejection ---------------------------------------------------------------------------------- *)
Lemma exec_start_reject : forall c a s,
  aget dkey_eqb (x_instance a, x_digest a) (s_inflight s) = None ->
  longest_prefix_pq s (x_plat a) (x_instance a) = None ->
  exec_start c a s = ret c (if s_now s <? s_hardfail s then cUNAVAILABLE else cFAILEDPRE) (emit (OGhost GSelAbandoned) s).
Proof. intros c a s H1 H2. unfold exec_start. rewrite H1, H2. reflexivity. Qed.

(* reject_codes: no registered platform queue matches: the request is not
   queued anywhere (tasks, operations, in-flight map, queues untouched), the
   selector is told Abandoned and the call returns UNAVAILABLE during the
   start-up grace period, FAILED_PRECONDITION afterwards *)
Lemma reject_codes_exec : forall c a s,
  aget dkey_eqb (x_instance a, x_digest a) (s_inflight s) = None ->
  longest_prefix_pq s (x_plat a) (x_instance a) = None ->
  let s' := exec_start c a s in
  s_out s' = ORet c (if s_now s <? s_hardfail s then cUNAVAILABLE else cFAILEDPRE) :: OGhost GSelAbandoned :: s_out s
  /\ s_tasks s' = s_tasks s /\ s_ntasks s' = s_ntasks s /\ s_ops s' = s_ops s /\ s_nops s' = s_nops s
  /\ s_inflight s' = s_inflight s /\ s_invs s' = s_invs s /\ s_scqs s' = s_scqs s /\ s_pqs s' = s_pqs s
  /\ get_call s' c = PDone.
Proof.
  intros c a s H1 H2 s'. unfold s'. rewrite exec_start_reject by assumption.
  unfold ret, set_call, emit, get_call. cbn. rewrite (aget_aset_same Nat.eqb nat_eqb_eq). repeat split; reflexivity.
Qed.

(* configuration and hard-failure time never change *)
Definition keeps_cfg (cfg : config) (hf : Z) (s : state) : Prop := s_cfg s = cfg /\ s_hardfail s = hf.
Ltac t_cfg := intros; unfold keeps_cfg in *; prim_unfold; prim_cases; cbn; assumption.

Lemma keeps_cfg_step : forall cfg hf s eh, keeps_cfg cfg hf s -> keeps_cfg cfg hf (fst (step s eh)).
Proof.
  intros cfg hf s eh H.
  apply fr_step with (P := keeps_cfg cfg hf) (c0 := ev_call (fst eh)); try (t_cfg; fail); try reflexivity; try assumption.
Qed.

Lemma run_fst_snoc : forall evs s, forall P : state -> Prop,
  (forall s eh, P s -> P (fst (step s eh))) -> P s -> P (fst (run s evs)).
Proof.
  induction evs as [|eh evs IH]; intros s P Hstep H; [exact H|].
  cbn [run]. destruct (step s eh) as [s1 o] eqn:Es. destruct (run s1 evs) as [s2 os] eqn:Er. cbn [fst].
  replace s2 with (fst (run s1 evs)) by (rewrite Er; reflexivity). apply IH; [exact Hstep|].
  replace s1 with (fst (step s eh)) by (rewrite Es; reflexivity). apply Hstep. exact H.
Qed.

Lemma hardfail_const : forall cfg t0 evs,
  let s := fst (run (init cfg t0) evs) in s_cfg s = cfg /\ s_hardfail s = t0 + cf_pq_noworkers cfg.
Proof.
  intros cfg t0 evs. apply (run_fst_snoc evs (init cfg t0) (keeps_cfg cfg (t0 + cf_pq_noworkers cfg))).
  - intros. apply keeps_cfg_step. assumption.
  - split; reflexivity.
Qed.
