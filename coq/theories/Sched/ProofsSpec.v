(* Links between the theorems about the model and the monitor predicates of
   Spec.v (the predicates Corr.v evaluates on implementation traces). *)
From Coq Require Import Lia.
From VF Require Export Sched.Spec.
From VF Require Import Sched.ProofsExec.
Open Scope Z_scope.

Lemma c07_exec_ok : forall s c a t h,
  c07_exec (snd (step s (EStartExecute c a t, h))) = ""%string.
Proof.
  intros. pose proof (selector_linear_step s c a t h) as H. unfold c07_exec.
  replace (List.length (filter _ (snd (step s (EStartExecute c a t, h))))) with 1%nat by (symmetry; exact H).
  reflexivity.
Qed.
