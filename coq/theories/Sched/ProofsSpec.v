(* Links between the theorems about the model and the monitor predicates of
   Spec.v (the predicates Corr.v evaluates on implementation traces). *)
From Coq Require Import Lia.
From VF Require Export Sched.Spec.
From VF Require Import Sched.ProofsExec.
Open Scope Z_scope.

Lemma c07_exec_ok : forall s c a t h,
  c07_exec (snd (step s (EStartExecute c a t, h))) = ""%string.
Proof.
  intros. pose proof (selector_linear_step s c a t h) as H. unfold c07_exec.
  replace (List.length (filter _ (snd (step s (EStartExecute c a t, h))))) with 1%nat by (symmetry; exact H).
  reflexivity.
Qed.

From VF Require Import Sched.ProofsArmed.

(* the operation part of Spec.c06_dump never fires on a reachable model state *)
Lemma c06_ops_ok : forall cfg t0 evs, fresh_calls [] evs ->
  let s := fst (run (init cfg t0) evs) in
  forallb (fun o => negb (Nat.eqb (do_waiters o) 0 && negb (do_mayexist o)
                          && match do_cleanup o with None => true | Some _ => false end))
          (d_ops (observe s)) = true.
Proof.
  intros cfg t0 evs Hf s. apply forallb_forall. intros d Hd. unfold observe in Hd. cbn [d_ops] in Hd.
  apply in_map_iff in Hd. destruct Hd as [[o x] [Hd Hin]]. subst d. unfold observe_op. cbn.
  destruct (waiters_all cfg t0 evs Hf) as [_ [_ [Hnd _]]].
  apply (In_aget_NoDup Nat.eqb nat_eqb_eq _ _ _ Hnd) in Hin.
  destruct (Nat.eqb (o_waiters x) 0) eqn:Ew; [|reflexivity]. apply Nat.eqb_eq in Ew.
  destruct (o_mayexist x) eqn:Em; [reflexivity|]. cbn.
  pose proof (armed_when_unwaited_all cfg t0 evs o x Hf Hin Ew Em) as Hc.
  destruct (o_cleanup x); [reflexivity|congruence].
Qed.
