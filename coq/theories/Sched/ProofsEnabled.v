(* C02 done_enabled: a stream parked on an operation whose task is completed
   is at the gate, and waking it sends the done message. *)
From Coq Require Import Lia.
From VF Require Export Sched.ProofsWaiters.
Open Scope Z_scope.

(* ---- a completed task stays completed (with the same response) ------------------------------------ *)
Definition Rf (tt : nat) (r : resp) (s : state) : Prop := t_resp (get_task s tt) = Some r.

Lemma Rf_frame : forall tt r s s', s_tasks s' = s_tasks s -> Rf tt r s -> Rf tt r s'.
Proof. unfold Rf. intros tt r s s' E H. rewrite (get_task_frame _ _ _ E). exact H. Qed.

Lemma Rf_upd_task : forall tt r s t f, (t <> tt \/ forall x, t_resp (f x) = t_resp x) -> Rf tt r s -> Rf tt r (upd_task t f s).
Proof.
  unfold Rf. intros tt r s t f Hf H. rewrite get_task_upd_task. destruct (Nat.eqb tt t) eqn:E; [|exact H].
  apply Nat.eqb_eq in E. subst t. destruct Hf as [Hne|Hf]; [congruence|]. rewrite Hf. exact H.
Qed.

Lemma Rf_newtask : forall tt r s x,
  Rf tt r s -> Rf tt r (s <| s_ntasks ::= S |> <| s_tasks ::= fun l => l ++ [(s_ntasks s, x)] |>).
Proof.
  unfold Rf, get_task. intros tt r s x H. cbn. rewrite (aget_app Nat.eqb).
  destruct (aget Nat.eqb tt (s_tasks s)); [exact H|discriminate].
Qed.

Ltac t_R :=
  intros;
  lazymatch goal with
  | |- Rf _ _ (upd_task _ _ _) => apply Rf_upd_task; [first [left; assumption | right; intros ?; reflexivity] | assumption]
  | |- Rf _ _ (set s_tasks _ (set s_ntasks S _)) => apply Rf_newtask; assumption
  | |- _ => (eapply Rf_frame; [|eassumption]); frame_eq
  end.

Ltac r_leaf0 :=
  idtac;
  lazymatch goal with
  | |- Rf ?tt ?r (set s_ops _ (set s_nops S ?s1)) => apply (Rf_frame tt r s1); [reflexivity|]
  end.

Lemma Rf_complete_task : forall tt r t' r' b s, Rf tt r s -> Rf tt r (complete_task t' r' b s).
Proof.
  intros tt r t' r' b s H. destruct (Nat.eq_dec t' tt) as [->|Hne].
  - unfold Rf in H. rewrite (completed_absorbing _ _ _ _ _ H). exact H.
  - unfold complete_task. inv_go r_leaf0 t_R.
Qed.

Lemma Rf_cancel_all_queued : forall tt r i r' s, Rf tt r s -> Rf tt r (cancel_all_queued i r' s).
Proof.
  intros tt r i r' s H. rewrite cancel_all_queued_eq. apply cancel_go_closed; [|exact H].
  intros. apply Rf_complete_task. assumption.
Qed.

Ltac r_leaf :=
  first [ r_leaf0
        | lazymatch goal with
          | |- Rf _ _ (complete_task _ _ _ _) => apply Rf_complete_task
          | |- Rf _ _ (cancel_all_queued _ _ _) => apply Rf_cancel_all_queued
          end ].
Ltac r_go := inv_go r_leaf t_R.

Lemma Rf_operation_remove : forall tt r o s, Rf tt r s -> Rf tt r (operation_remove o s).
Proof.
  intros tt r o s H. unfold operation_remove. r_go.
  all: match goal with |- Rf _ _ (fst (fold_left ?g ?l ?a)) => apply (fold_left_pres (fun acc => Rf tt r (fst acc)) g l) end;
    [ intros [s1 go] j H1; cbn [fst] in *; destruct go; [r_go | assumption] | cbn [fst]; r_go ].
Qed.

Lemma Rf_enter : forall tt r t s, Rf tt r s -> Rf tt r (enter t s).
Proof.
  intros tt r t s H. unfold enter. destruct (s_now s <? t); [|exact H]. cbv zeta.
  apply cleanup_run_closed; [intros; t_R| |r_go].
  intros s1 [z ce] H1 _. unfold run_entry. cbn [fst snd]. destruct ce; [apply Rf_operation_remove|..]; r_go.
Qed.

(* ---- an operation somebody waits on stays registered, with the same task ------------------------------ *)
Definition Qo (o tt n : nat) (s : state) : Prop :=
  exists y, aget Nat.eqb o (s_ops s) = Some y /\ o_task y = tt /\ o_waiters y = n.

Lemma Qo_frame : forall o tt n s s', s_ops s' = s_ops s -> Qo o tt n s -> Qo o tt n s'.
Proof. unfold Qo. intros o tt n s s' ->. auto. Qed.
Lemma Qo_upd_op : forall o tt n s o' f, (forall x, o_task (f x) = o_task x /\ o_waiters (f x) = o_waiters x) ->
  Qo o tt n s -> Qo o tt n (upd_op o' f s).
Proof.
  unfold Qo, upd_op. intros o tt n s o' f Hf [y [Ey [Hy Hw]]]. destruct (aget Nat.eqb o' (s_ops s)) as [x|] eqn:E; [|eauto].
  cbn. rewrite (aget_aset Nat.eqb nat_eqb_eq). destruct (Nat.eqb o o') eqn:Eo; [|eauto].
  apply Nat.eqb_eq in Eo. subst o'. rewrite Ey in E. inversion E; subst x. exists (f y). destruct (Hf y) as [A B]. rewrite A, B. auto.
Qed.
Lemma Qo_newop : forall o tt n s x, Qo o tt n s -> Qo o tt n (s <| s_nops ::= S |> <| s_ops ::= fun l => l ++ [(s_nops s, x)] |>).
Proof. unfold Qo. intros o tt n s x [y [Ey Hy]]. exists y. cbn. rewrite (aget_app Nat.eqb), Ey. auto. Qed.
Lemma Qo_delop : forall o tt n s o', o' <> o -> Qo o tt n s -> Qo o tt n (s <| s_ops := adel Nat.eqb o' (s_ops s) |>).
Proof.
  unfold Qo. intros o tt n s o' Hne [y [Ey Hy]]. exists y. cbn. rewrite (aget_adel_other Nat.eqb nat_eqb_eq) by auto. auto.
Qed.

Ltac t_Q :=
  intros;
  lazymatch goal with
  | |- Qo _ _ _ (upd_op _ _ _) => apply Qo_upd_op; [intros ?; split; reflexivity | assumption]
  | |- Qo _ _ _ (set s_ops _ (set s_nops S _)) => apply Qo_newop; assumption
  | |- Qo _ _ _ (set s_ops (fun _ => adel Nat.eqb _ _) _) => apply Qo_delop; [assumption | assumption]
  | |- _ => (eapply Qo_frame; [|eassumption]); frame_eq
  end.
Ltac q_go := inv_go fail t_Q.

Lemma Qo_operation_remove : forall o tt n o' s, o' <> o -> Qo o tt n s -> Qo o tt n (operation_remove o' s).
Proof.
  intros o tt n o' s Hne H. unfold operation_remove. q_go.
  all: match goal with |- Qo _ _ _ (fst (fold_left ?g ?l ?a)) => apply (fold_left_pres (fun acc => Qo o tt n (fst acc)) g l) end;
    [ intros [s1 go] j H1; cbn [fst] in *; destruct go; [q_go | assumption] | cbn [fst]; q_go ].
Qed.

Lemma VQ_enter : forall o tt n t s, V s -> Qo o tt (S n) s -> V (enter t s) /\ Qo o tt (S n) (enter t s).
Proof.
  intros o tt n t s HV HQ. unfold enter. destruct (s_now s <? t); [|auto]. cbv zeta.
  apply (cleanup_run_closed (fun s' => V s' /\ Qo o tt (S n) s')).
  - intros s1 w [A B]. split; [t_V|t_Q].
  - intros s1 [z ce] [A B] Hin. split; [apply V_run_entry; assumption|].
    unfold run_entry. cbn [fst snd]. destruct ce as [o'|w|k]; [|q_go|q_go].
    destruct (Nat.eq_dec o' o) as [->|Hne].
    + (* the operation has waiters, so no removal is scheduled for it *)
      exfalso. destruct (cleanup_entry_op _ _ _ Hin) as [x [Hx Hc]].
      destruct A as [_ [_ [H1' [_ [_ [HC _]]]]]]. apply (In_aget_NoDup Nat.eqb nat_eqb_eq _ _ _ H1') in Hx.
      destruct B as [y [Ey [_ Hw]]]. rewrite Ey in Hx. inversion Hx; subst y.
      assert (Hz : o_waiters x = O) by (eapply HC; [exact Ey|rewrite Hc; discriminate]). lia.
    + apply Qo_operation_remove; [exact Hne|]. q_go.
  - split; [t_V|t_Q].
Qed.

(* ---- done_enabled ------------------------------------------------------------------------------------------ *)
Lemma done_enabled_step : forall s c o g r t h,
  V s -> get_call s c = PStream o g ->
  t_resp (get_task s (o_task (get_op s o))) = Some r ->
  at_gate s (PStream o g) = true /\
  In (OMsg c o 4 (Some r)) (snd (step s (EEnter c t, h))) /\
  get_call (fst (step s (EEnter c t, h))) c = PStreamReturn o cOK.
Proof.
  intros s c o g r t h HV Hc Hr.
  split; [unfold at_gate, chan_closed; rewrite Hr; apply orb_true_r|].
  (* the operation is registered, somebody (this call) waits on it *)
  assert (Hpc : aget Nat.eqb c (s_calls s) = Some (PStream o g)).
  { unfold get_call in Hc. destruct (aget Nat.eqb c (s_calls s)); [congruence|discriminate]. }
  pose proof HV as [H0 [H1 [H1' [HA [HB [HC HI]]]]]].
  pose proof (HA _ _ _ Hpc eq_refl) as Ha. unfold op_alive in Ha.
  destruct (aget Nat.eqb o (s_ops s)) as [y|] eqn:Ey; [|discriminate].
  pose proof (cnt_pos _ _ _ _ Hpc eq_refl) as Hpos. rewrite <- (HB _ _ Ey) in Hpos.
  destruct (o_waiters y) as [|n] eqn:En; [lia|].
  assert (Hgo : o_task (get_op s o) = o_task y) by (unfold get_op; rewrite Ey; reflexivity).
  rewrite Hgo in Hr.
  set (sa := s <| s_hints := h |> <| s_out := [] |>).
  assert (HVa : V sa) by (eapply V_frame; [ | | | |exact HV]; reflexivity).
  assert (HQa : Qo o (o_task y) (S n) sa) by (exists y; cbn; auto).
  assert (HRa : Rf (o_task y) r sa) by exact Hr.
  destruct (VQ_enter o (o_task y) n t sa HVa HQa) as [HV1 [y1 [Ey1 [Ht1 _]]]].
  pose proof (Rf_enter (o_task y) r t sa HRa) as HR1.
  assert (Hcore : step_core (EEnter c t) sa = stream_iter c o (enter t sa)).
  { unfold step_core. cbv zeta. change (get_call sa c) with (get_call s c). rewrite Hc.
    change (at_gate sa (PStream o g)) with (at_gate s (PStream o g)).
    unfold at_gate, chan_closed. unfold get_op. rewrite Ey. rewrite Hr. rewrite orb_true_r. reflexivity. }
  assert (Hiter : stream_iter c o (enter t sa)
                  = set_call c (PStreamReturn o cOK) (emit (OMsg c o 4 (Some r)) (enter t sa))).
  { apply stream_iter_done. unfold get_op. rewrite Ey1, Ht1. exact HR1. }
  unfold step. cbn [fst snd]. fold sa. rewrite Hcore, Hiter.
  set (s2 := set_call c (PStreamReturn o cOK) (emit (OMsg c o 4 (Some r)) (enter t sa))).
  (* the returns of TerminateWorkers calls only add observations and touch other calls *)
  assert (Hauto : In (OMsg c o 4 (Some r)) (s_out (auto_returns s2)) /\
                  aget Nat.eqb c (s_calls (auto_returns s2)) = Some (PStreamReturn o cOK)).
  { rewrite auto_returns_fold.
    assert (Hgen : forall l s', (forall p, In (c, p) l -> p = PStreamReturn o cOK) ->
               In (OMsg c o 4 (Some r)) (s_out s') -> aget Nat.eqb c (s_calls s') = Some (PStreamReturn o cOK) ->
               In (OMsg c o 4 (Some r)) (s_out (fold_left auto_step l s')) /\
               aget Nat.eqb c (s_calls (fold_left auto_step l s')) = Some (PStreamReturn o cOK)).
    { induction l as [|[c' p'] l IH]; intros s' Hl Hin Hg; cbn [fold_left]; [auto|].
      apply IH; [intros p Hp; apply Hl; right; exact Hp| |].
      - unfold auto_step. destruct p'; try exact Hin. destruct (terminate_done s' waits); [|exact Hin].
        unfold ret, set_call, emit. cbn. right. exact Hin.
      - unfold auto_step. destruct p' eqn:Ep'; try exact Hg. destruct (terminate_done s' waits); [|exact Hg].
        assert (Hne : c' <> c). { intros ->. specialize (Hl _ (or_introl eq_refl)). discriminate. }
        rewrite aget_calls_ret_other by exact Hne. exact Hg. }
    apply Hgen.
    - intros p Hp. assert (Hnd : NoDup (map fst (s_calls s2))).
      { unfold s2, set_call. cbn. apply (NoDup_keys_aset Nat.eqb nat_eqb_eq). destruct HV1 as [Hx _]. exact Hx. }
      apply (In_aget_NoDup Nat.eqb nat_eqb_eq _ _ _ Hnd) in Hp. unfold s2, set_call in Hp. cbn in Hp.
      rewrite (aget_aset_same Nat.eqb nat_eqb_eq) in Hp. congruence.
    - unfold s2, set_call, emit. cbn. left. reflexivity.
    - unfold s2, set_call. cbn. apply (aget_aset_same Nat.eqb nat_eqb_eq). }
  destruct Hauto as [Hin Hg]. split; [apply (proj1 (in_rev _ _)); exact Hin|].
  assert (E : forall s', get_call (s' <| s_out := [] |> <| s_hints := [] |>) c = get_call s' c) by reflexivity.
  rewrite E. unfold get_call. rewrite Hg. reflexivity.
Qed.

Lemma done_enabled_all : forall cfg t0 evs c o g r t h,
  fresh_calls [] evs ->
  let s := fst (run (init cfg t0) evs) in
  get_call s c = PStream o g ->
  t_resp (get_task s (o_task (get_op s o))) = Some r ->
  at_gate s (PStream o g) = true /\
  In (OMsg c o 4 (Some r)) (snd (step s (EEnter c t, h))) /\
  get_call (fst (step s (EEnter c t, h))) c = PStreamReturn o cOK.
Proof. intros cfg t0 evs c o g r t h Hf s. apply done_enabled_step. apply waiters_all. exact Hf. Qed.

(* ---- timeouts fire: after the clean-up loop nothing overdue is left ---------------------------------------- *)
Lemma earliest_min : forall l e, earliest l = Some e -> forall e', In e' l -> fst e <= fst e'.
Proof.
  intros l e. unfold earliest.
  assert (H : forall (l' : list (Z * centry)) acc, fold_left (fun acc e => match acc with None => Some e
                  | Some a => if fst e <? fst a then Some e else acc end) l' acc = Some e ->
            (forall a, acc = Some a -> fst e <= fst a) /\ forall e', In e' l' -> fst e <= fst e').
  { induction l' as [|x l' IH]; intros acc Hf; cbn in Hf.
    - subst acc. split; [intros a Ha; inversion Ha; lia|intros e' []].
    - apply IH in Hf. destruct Hf as [Hacc Hl']. split.
      + intros a Ha. subst acc. destruct (fst x <? fst a) eqn:E.
        * specialize (Hacc _ eq_refl). apply Z.ltb_lt in E. lia.
        * apply Hacc. reflexivity.
      + intros e' [<-|Hin]; [|auto]. destruct acc as [a|].
        * destruct (fst x <? fst a) eqn:E; [apply Hacc; reflexivity|].
          specialize (Hacc _ eq_refl). apply Z.ltb_ge in E. lia.
        * apply Hacc. reflexivity. }
  intros Hf. apply (H l None Hf).
Qed.

Lemma earliest_none : forall l, earliest l = None -> l = [].
Proof.
  intros [|x l] H; [reflexivity|]. exfalso. unfold earliest in H. cbn in H.
  assert (Hs : forall (l' : list (Z * centry)) (a : Z * centry), fold_left (fun acc e => match acc with None => Some e
                  | Some a => if fst e <? fst a then Some e else acc end) l' (Some a) <> None).
  { induction l' as [|y l' IH]; intros a; cbn; [discriminate|]. destruct (fst y <? fst a); apply IH. }
  exact (Hs _ _ H).
Qed.

Definition fuel_panic : obs := OPanic "cleanup: out of fuel".

Lemma cleanup_run_done : forall n s,
  In fuel_panic (s_out (cleanup_run n s)) \/
  forall e, In e (cleanup_entries (cleanup_run n s)) -> s_now (cleanup_run n s) < fst e.
Proof.
  induction n as [|n IH]; intros s; cbn [cleanup_run].
  - left. unfold panic, emit. cbn. left. reflexivity.
  - destruct (earliest (cleanup_entries s)) as [e|] eqn:Ee.
    + destruct (fst e <=? s_now s) eqn:El; [apply IH|].
      right. intros e' He'. apply Z.leb_gt in El. pose proof (earliest_min _ _ Ee _ He'). lia.
    + right. apply earliest_none in Ee. rewrite Ee. intros e' [].
Qed.

(* after any critical section that read the clock as t > now: every time-out that is
   still armed lies in the future (or the model ran out of fuel, which it reports) *)
Lemma enter_fires_all_overdue : forall t s, s_now s < t ->
  In fuel_panic (s_out (enter t s)) \/
  (forall e, In e (cleanup_entries (enter t s)) -> s_now (enter t s) < fst e).
Proof.
  intros t s Hlt. unfold enter. apply Z.ltb_lt in Hlt. rewrite Hlt. cbv zeta. apply cleanup_run_done.
Qed.

(* the statements of the waiter invariant, one by one *)
Lemma waiters_count_all : forall cfg t0 evs o x,
  fresh_calls [] evs -> let s := fst (run (init cfg t0) evs) in
  aget Nat.eqb o (s_ops s) = Some x -> o_waiters x = cnt o (s_calls s).
Proof. intros cfg t0 evs o x Hf s. destruct (waiters_all cfg t0 evs Hf) as [_ [_ [_ [_ [HB _]]]]]. apply HB. Qed.

Lemma parked_alive_all : forall cfg t0 evs c p o,
  fresh_calls [] evs -> let s := fst (run (init cfg t0) evs) in
  aget Nat.eqb c (s_calls s) = Some p -> parked_on p = Some o -> op_alive s o = true.
Proof. intros cfg t0 evs c p o Hf s. destruct (waiters_all cfg t0 evs Hf) as [_ [_ [_ [HA _]]]]. apply HA. Qed.

Lemma armed_only_unwaited_all : forall cfg t0 evs o x,
  fresh_calls [] evs -> let s := fst (run (init cfg t0) evs) in
  aget Nat.eqb o (s_ops s) = Some x -> o_cleanup x <> None -> o_waiters x = O.
Proof. intros cfg t0 evs o x Hf s. destruct (waiters_all cfg t0 evs Hf) as [_ [_ [_ [_ [_ [HC _]]]]]]. apply HC. Qed.

Lemma task_ops_registered_all : forall cfg t0 evs t x i o,
  fresh_calls [] evs -> let s := fst (run (init cfg t0) evs) in
  aget Nat.eqb t (s_tasks s) = Some x -> In (i, o) (t_ops x) ->
  exists y, aget Nat.eqb o (s_ops s) = Some y /\ o_task y = t.
Proof. intros cfg t0 evs t x i o Hf s. destruct (waiters_all cfg t0 evs Hf) as [_ [_ [_ [_ [_ [_ HI]]]]]]. apply HI. Qed.
