(* C01, completeness layer: events, runs, and Spec.c01_dump on reachable states. *)
From Coq Require Import Lia.
From VF Require Export Sched.ProofsFull7.
From VF Require Import Sched.Spec Sched.ProofsLearner Sched.ProofsEnabled Sched.ProofsInflight Sched.ProofsObsC01.
Open Scope Z_scope.

(* ---- the hypothesis on selector answers -------------------------------------------------------------------------------- *)
(* what event [e], applied in state [s], must satisfy:
   - Execute: the size class index the selector answers is below the number of size classes of the platform queue the
     request is routed to (looked up, as the scheduler does, after the clean-up that starts the call);
   - Synchronize: the worker id is not the placeholder; a task reported as completed successfully has a learner whose
     background size class index (if any) is below the number of size classes of the task's platform queue;
   - operator kills do not carry the status OK (a kill with OK would count as a success for the learner). *)
Definition ev_sel_ok (s : state) (e : event) : Prop :=
  match e with
  | EStartExecute c a t =>
    forall p, longest_prefix_pq (enter t s) (x_plat a) (x_instance a) = Some p -> (fst (fst (fst (x_sel a))) < List.length (p_scs p))%nat
  | EStartSync c a t =>
    is_phantom (y_worker a) = false /\ forall d r, y_state a = WCompleted d r -> BG (y_worker a) r (enter t s)
  | EKillQueue c k code t => code <> 0%N
  | EEnter c t => forall name code, get_call s c = PKillRecheck name code -> code <> 0%N
  | _ => True
  end.

(* along a run: each event is judged in the state it is applied to (with its scheduling hints installed, as [step] does) *)
Fixpoint selectors_in_range (s : state) (evs : list (event * list (nat * wref))) : Prop :=
  match evs with
  | [] => True
  | eh :: tl => ev_sel_ok (s <| s_hints := snd eh |> <| s_out := [] |>) (fst eh) /\ selectors_in_range (fst (step s eh)) tl
  end.

Lemma kill_not_success : forall code, code <> 0%N -> resp_success (mkResp code 0 0) = false.
Proof. intros code H. unfold resp_success. cbn. destruct (N.eqb_spec code 0); [contradiction|reflexivity]. Qed.

Lemma FI_register_fold : forall k scs s,
  sorted_strict scs = true -> FI s -> (exists p, In p (s_pqs s) /\ p_key p = k) ->
  (forall sc, In sc scs -> scq_exists s (mkSK k sc) = false) ->
  FI (fold_left (fun s sc => add_scq (mkSK k sc) false s) scs s).
Proof.
  intros k scs. induction scs as [|sc scs IH]; intros s Hs H Hp Hn; cbn [fold_left]; [exact H|].
  destruct (sorted_strict_cons _ _ Hs) as [Hs' Hlt].
  assert (He : scq_exists s (mkSK k sc) = false) by (apply Hn; left; reflexivity).
  apply IH; [exact Hs'| | |].
  - destruct H as [HSW [HW [HSp HNX]]]. split; [apply SW_add_scq; [exact He|exact Hp|exact HSW]|].
    split; [apply (WL_W []); apply WL_of_W in HW; unfold add_scq; w_go2|]. split; [apply Sp_add_scq; assumption|apply NX_add_scq; assumption].
  - destruct Hp as [p [Hp Hk]]. unfold add_scq, upd_pq. cbn.
    exists (if pkey_eqb (p_key p) k then p <| p_scs ::= insert_sorted sc |> else p). split; [apply in_map_iff; exists p; auto|destruct (pkey_eqb (p_key p) k); exact Hk].
  - intros sc' Hin. rewrite scq_exists_add_scq. rewrite (Hn sc' (or_intror Hin)). cbn.
    destruct (skey_eqb (mkSK k sc') (mkSK k sc)) eqn:E; [|reflexivity]. apply skey_eqb_eq in E. inversion E; subst.
    specialize (Hlt sc Hin). lia.
Qed.

Lemma FI_terminate_fold : forall p l s waits,
  FI s -> FI (fst (fold_left (fun (acc : state * list (nat * nat)) w =>
        let '(s, waits) := acc in
        if matches w p then
          let s := mark_terminating w s in
          match k_task (get_worker s w) with
          | Some tk => (s, waits ++ [(tk, t_gen (get_task s tk))])
          | None => (if k_wait (get_worker s w) then wake_up w s else s, waits)
          end
        else (s, waits)) l (s, waits))).
Proof.
  intros p l s waits H.
  match goal with |- FI (fst (fold_left ?g ?l ?a)) => apply (fold_left_pres (fun acc => FI (fst acc)) g l) end; [|exact H].
  intros [s1 w1] w H1. cbn [fst] in *. unfold mark_terminating, wake_up.
  destruct (matches w p); [|exact H1]. cbv zeta.
  destruct (k_task (get_worker (upd_worker w (fun k => k <| k_term := true |>) s1) w)); cbn [fst]; [fi_prim H1|].
  destruct (k_wait _); fi_prim H1.
Qed.

(* ---- events -------------------------------------------------------------------------------------------------------------- *)
Definition TOP (s : state) : Prop := FI s /\ TNP [] s /\ Inf s.

Lemma TOP_enter : forall t s, TOP s -> TOP (enter t s).
Proof.
  intros t s [A [B C]]. split; [apply FI_enter; exact A|]. split; [exact (proj2 (GTN_enter t s (FI_G _ A) B))|apply Inf_enter; exact C].
Qed.

Lemma NX_ret : forall c code s, NX [] s -> NX [] (ret c code s).
Proof. intros c code s H. unfold ret. nx_go1. Qed.

Ltac nx_leaf2 :=
  first [ nx_leaf1
        | lazymatch goal with
          | |- NX _ (wait_execution_begin _ _ _) => apply NX_wait_execution_begin
          | |- NX _ (ret _ _ _) => apply NX_ret
          end ].
Ltac nx_go2 := inv_go nx_leaf2 t_NX.

Lemma NX_step_core : forall e s, ev_sel_ok s e -> TOP s -> NX [] (step_core e s).
Proof.
  intros e s Hev HT. pose proof HT as [H [HTN HI]].
  destruct e; cbn [ev_sel_ok] in Hev; unfold step_core.
  - (* Execute *) destruct (TOP_enter t s HT) as [A [B C]]. apply FI_NX. apply F_exec_start; assumption.
  - pose proof (FI_NX _ (FI_enter t s H)) as He. set (s1 := enter t s) in *. clearbody s1. nx_go2.
  - (* Synchronize *) destruct Hev as [Hph Hbg]. apply FI_NX. apply F_sync_start; [exact Hph|exact Hbg|apply FI_enter; exact H].
  - pose proof (FI_NX _ (FI_enter t s H)) as He. set (s1 := enter t s) in *. clearbody s1. unfold kill_lookup. nx_go2.
  - (* kill a queue *)
    pose proof (FI_enter t s H) as He. set (s1 := enter t s) in *. clearbody s1. cbv zeta.
    destruct (negb (scq_exists s1 k)); [apply NX_ret; exact (FI_NX _ He)|]. destruct (negb _); apply NX_ret; [exact (FI_NX _ He)|].
    apply FI_NX. apply FI_cancel_all_queued; [apply kill_not_success; exact Hev|exact He].
  - pose proof (FI_NX _ (FI_enter t s H)) as He. set (s1 := enter t s) in *. clearbody s1. unfold wake_up. nx_go2.
  - pose proof (FI_NX _ (FI_enter t s H)) as He. set (s1 := enter t s) in *. clearbody s1. nx_go2.
  - (* terminate *)
    cbv zeta. pose proof (FI_NX _ (FI_enter t s H)) as He. set (s1 := enter t s) in *. clearbody s1.
    match goal with |- NX [] (match ?x with _ => _ end) => rewrite (surjective_pairing x) end. cbv beta iota.
    match goal with |- NX [] (set_call _ _ (fst (fold_left ?g ?l ?a))) => assert (H2 : NX [] (fst (fold_left g l a))) end.
    { match goal with |- NX [] (fst (fold_left ?g ?l ?a)) => apply (fold_left_pres (fun acc => NX [] (fst acc)) g l) end; [|exact He].
      intros [s2 w2] w H2. cbn [fst] in *. unfold mark_terminating, wake_up. nx_go2. }
    nx_go2.
  - (* register *)
    destruct (_ || _) eqn:Ev; [apply NX_ret; exact (FI_NX _ H)|]. cbv zeta.
    pose proof (FI_enter t s H) as He. set (s1 := enter t s) in *. clearbody s1.
    destruct (get_pq s1 k) as [p|] eqn:Ep; [apply NX_ret; exact (FI_NX _ He)|]. apply NX_ret. apply FI_NX.
    apply orb_false_iff in Ev. destruct Ev as [Ev _]. apply orb_false_iff in Ev. destruct Ev as [_ Ev]. apply negb_false_iff in Ev.
    apply FI_register_fold; [exact Ev| | |].
    + destruct He as [HSW [HW [HSp HNX]]]. split; [unfold add_pq; destruct HSW as [HS HWP]; split; [t_St|eapply WP_frame; [ | | |exact HWP]; reflexivity]|].
      split; [apply (WL_W []); apply WL_of_W in HW; unfold add_pq; w_go2|]. split; [apply Sp_add_pq; assumption|apply NX_add_pq; exact HNX].
    + unfold add_pq. cbn. eexists. split; [apply in_or_app; right; left; reflexivity|reflexivity].
    + intros sc Hsc. rewrite (scq_exists_frame s1) by reflexivity.
      destruct (scq_exists s1 (mkSK k sc)) eqn:Ee; [|reflexivity]. exfalso.
      destruct (FI_SW _ He) as [[_ [_ [_ [_ H4]]]] _]. destruct (H4 _ Ee) as [p [Hp [Hk _]]]. cbn in Hk.
      unfold get_pq in Ep. apply (find_none _ _ Ep) in Hp. rewrite (proj2 (pkey_eqb_eq _ _) Hk) in Hp. discriminate.
  - apply NX_ret. apply FI_NX. apply FI_enter. exact H.
  - (* EEnter *)
    cbv zeta. destruct (negb (at_gate s (get_call s c))) eqn:Eg; [exact (FI_NX _ H)|]. apply negb_false_iff in Eg.
    pose proof (FI_enter t s H) as He.
    rewrite get_call_aget in *. destruct (aget Nat.eqb c (s_calls s)) as [p|] eqn:Ep; [|exact (FI_NX _ He)].
    assert (Hpe : aget Nat.eqb c (s_calls (enter t s)) = Some p) by (rewrite calls_enter; exact Ep).
    destruct p; try exact (FI_NX _ He);
      try (pose proof (FI_NX _ He) as HNe; set (s1 := enter t s) in *; clearbody s1; unfold stream_iter, stream_return, kill_lookup; nx_go2; fail).
    + (* PSyncDrained *)
      apply FI_NX. apply F_sync_loop. destruct He as [HSWe [HWe [HSpe HNXe]]]. split; [|auto].
      eapply Ctx_of_named; [exact HSWe|exact Hpe|reflexivity|].
      destruct HSWe as [_ [_ [_ [_ [_ [B3 _]]]]]]. eapply B3; [exact Hpe|reflexivity].
    + (* PSyncQueued *)
      cbn [at_gate] in Eg. apply negb_true_iff in Eg.
      assert (Hc : FC c w (enter t s)).
      { destruct He as [HSWe [HWe [HSpe HNXe]]]. split; [|auto]. eapply Ctx_of_named; [exact HSWe|exact Hpe|reflexivity|]. apply SWK_enter; [exact (FI_SW _ H)|exact Eg]. }
      apply FI_NX. destruct (k_task (get_worker (enter t s) w)); [apply F_sync_return_exec|apply F_sync_loop]; exact Hc.
    + (* PKillRecheck *)
      set (s1 := enter t s) in *. clearbody s1.
      match goal with |- NX [] (if op_alive s1 ?n then _ else _) => destruct (op_alive s1 n) eqn:Ea end; [|pose proof (FI_NX _ He) as HNe; nx_go2].
      apply NX_ret. apply FI_NX. apply FI_complete_task_nb; [apply kill_not_success; eapply Hev; reflexivity|exact (W_pick_op _ _ (FI_W _ He) Ea)|exact He].
  - (* ETimer *)
    cbv zeta. destruct (at_gate s (get_call s c)) eqn:Eg; [exact (FI_NX _ H)|].
    pose proof (FI_NX _ (FI_enter t s H)) as HNe. pose proof (FI_NX _ H) as HN. set (s1 := enter t s) in *. clearbody s1.
    destruct (get_call s c); unfold stream_iter, sync_return_exec, sync_return_idle, finish_sync, maybe_dequeue; nx_go2.
  - (* ECancel *)
    cbv zeta. destruct (at_gate s (get_call s c)) eqn:Eg; [exact (FI_NX _ H)|]. pose proof (FI_NX _ H) as HN.
    destruct (get_call s c); nx_go2.
Qed.

(* ---- runs ------------------------------------------------------------------------------------------------------------------ *)
Definition Cok (s : state) : Prop :=
  SW s /\ W s /\ Sp s /\ XS [] s /\ TK s /\ Inf s /\ CQ [] s /\ MI s /\ TN [] s.

Lemma Cok_eq : forall s s',
  s_tasks s' = s_tasks s -> s_ntasks s' = s_ntasks s -> s_ops s' = s_ops s -> s_nops s' = s_nops s -> s_inflight s' = s_inflight s ->
  s_scqs s' = s_scqs s -> s_invs s' = s_invs s -> s_pqs s' = s_pqs s -> s_calls s' = s_calls s -> Cok s -> Cok s'.
Proof.
  intros s s' E1 E2 E3 E4 E5 E6 E7 E8 E9 [A [B [C [D [E [F [G1 [G2 G3]]]]]]]].
  assert (HG : G s') by (eapply G_eq; [exact E1|exact E2|exact E3|exact E4|exact E5|exact E6|exact E7|exact E8|exact E9|]; split; [exact A|split; [exact B|exact D]]).
  destruct HG as [A' [B' D']]. split; [exact A'|]. split; [exact B'|]. split; [eapply Sp_frame_scqs; eassumption|]. split; [exact D'|].
  split; [eapply TK_frame; eassumption|]. split; [eapply Inf_frame; eassumption|]. split; [eapply CQ_frame; eassumption|].
  split; [eapply MI_frame; [exact E7|intro k; unfold scq_exists; rewrite E6; reflexivity|exact G2]|eapply TN_frame; eassumption].
Qed.

Lemma Cok_TOP : forall s, Cok s -> TOP s.
Proof.
  intros s [A [B [C [D [E [F [G1 [G2 G3]]]]]]]]. split; [|split; [right; exact G3|exact F]].
  split; [exact A|]. split; [exact B|]. split; [exact C|]. split; [exact D|]. split; [exact E|right; split; assumption].
Qed.

Lemma Cok_step : forall s eh,
  ev_sel_ok (s <| s_hints := snd eh |> <| s_out := [] |>) (fst eh) -> Cok s ->
  (exists what, In (OPanic what) (snd (step s eh))) \/ Cok (fst (step s eh)).
Proof.
  intros s eh Hev H. unfold step. cbn [fst snd].
  set (s0 := s <| s_hints := snd eh |> <| s_out := [] |>) in *.
  assert (H0 : Cok s0) by (eapply Cok_eq; [..|exact H]; reflexivity).
  pose proof (Cok_TOP _ H0) as HT0. pose proof HT0 as [HFI0 [HTN0 HI0]].
  assert (HG1 : G (step_core (fst eh) s0)).
  { apply G_step_core; [|exact (FI_G _ HFI0)]. destruct (fst eh); cbn; auto. cbn in Hev. tauto. }
  assert (H1 : FI (step_core (fst eh) s0)) by (apply FI_intro; [exact HG1|apply Sp_step_core; [exact (FI_SW _ HFI0)|exact (FI_Sp _ HFI0)]|apply NX_step_core; assumption]).
  assert (HT1 : TNP [] (step_core (fst eh) s0)) by (apply TNP_step_core; [exact (FI_G _ HFI0)|exact HTN0]).
  assert (HI1 : Inf (step_core (fst eh) s0)) by (apply Inf_step_core; [exact (FI_W _ HFI0)|exact HI0]).
  set (s1 := step_core (fst eh) s0) in *. clearbody s1.
  assert (H2 : FI (auto_returns s1)) by (apply (fr_auto_returns FI); [intros; apply FI_ret; assumption|exact H1]).
  assert (HT2 : TNP [] (auto_returns s1)) by (apply (fr_auto_returns (TNP [])); [intros; unfold ret; tnp_go|exact HT1]).
  assert (HI2 : Inf (auto_returns s1)).
  { apply (fr_auto_returns Inf); [|exact HI1]. intros a c code Ha. eapply Inf_frame; [| |exact Ha]; reflexivity. }
  set (s2 := auto_returns s1) in *. clearbody s2.
  destruct H2 as [A [B [C [D [E CM2]]]]].
  destruct CM2 as [[what Hp]|[HC HM]]; [left; exists what; rewrite <- in_rev; exact Hp|].
  destruct HT2 as [[what Hp]|HTN2]; [left; exists what; rewrite <- in_rev; exact Hp|].
  right. eapply Cok_eq; [..|split; [exact A|split; [exact B|split; [exact C|split; [exact D|split; [exact E|split; [exact HI2|split; [exact HC|split; [exact HM|exact HTN2]]]]]]]]]; reflexivity.
Qed.

Lemma Cok_init : forall cfg t0, Cok (init cfg t0).
Proof.
  intros cfg t0. split; [apply SW_init|]. split; [apply W_init|]. split; [apply Sp_init|]. split; [apply XS_init|].
  split; [intro t; unfold init, get_task; cbn; exact tk_dummy|].
  split; [unfold Inf, init; cbn; split; [constructor|split; intros; discriminate]|].
  split; [intros o Ha; unfold op_alive, init in Ha; cbn in Ha; discriminate|].
  split; [intros i v []|]. intro t. unfold init, get_task. cbn. split; congruence.
Qed.

Lemma Cok_run : forall evs s, selectors_in_range s evs -> Cok s ->
  panicked (snd (run s evs)) \/ Cok (fst (run s evs)).
Proof.
  induction evs as [|eh evs IH]; intros s Hsel H; [right; exact H|].
  cbn [run]. destruct (step s eh) as [s1 o] eqn:Es. destruct (run s1 evs) as [s2 os] eqn:Er. cbn [fst snd].
  cbn [selectors_in_range] in Hsel. destruct Hsel as [Hev Hsel]. rewrite Es in Hsel. cbn [fst] in Hsel.
  destruct (Cok_step s eh Hev H) as [[what Hp]|H1].
  - left. exists o, what. rewrite Es in Hp. split; [left; reflexivity|exact Hp].
  - rewrite Es in H1. cbn [fst] in H1. specialize (IH s1 Hsel H1). rewrite Er in IH. cbn [fst snd] in IH.
    destruct IH as [[o' [what [Hin Hp]]]|H2]; [left; exists o', what; split; [right; exact Hin|exact Hp]|right; exact H2].
Qed.

(* ---- the facts c01_dump needs, and the theorem ----------------------------------------------------------------------------- *)
Lemma Cok_C01F : forall s, Cok s -> C01F s.
Proof.
  intros s [HSW [HW [[S1 [S2 S3]] [HXS [HTK [HI [HC [HM HTN]]]]]]]].
  pose proof (XS_X _ _ HXS) as HX. destruct (XS_St _ _ HXS) as [T0 [T1 [T2 [T3 T4]]]]. destruct (XS_ON _ _ HXS) as [O1 _].
  constructor.
  - exact O1.
  - exact T2.
  - exact T0.
  - exact T1.
  - exact T4.
  - exact S1.
  - exact S2.
  - intros t w. apply (XA _ _ HX). intros [].
  - intros w t He Hk. apply (XB _ _ HX); auto.
  - apply (XQ _ _ HX).
  - apply (XQn _ _ HX).
  - intros o Ha Hq. apply (XL _ _ HX o Ha (fun F => F) Hq).
  - intros o Ha Hi. apply (HC o Ha (fun F => F) Hi).
  - intros o Ha. apply (XO1 _ _ HX o Ha). intros [].
  - intros t i o Hin. apply (XO2 _ _ HX t i o (fun F => F) Hin).
  - intros t. apply (proj1 (HTK t)).
  - intros t w i o. apply (proj1 (proj2 (HTK t))).
  - intros t w Ew. destruct (XA _ _ HX t w (fun F => F) Ew) as [Hph _]. apply (proj2 (proj2 (HTK t)) w Ew Hph).
  - intros i Hi. unfold inv_exists in Hi. destruct (aget iref_eqb i (s_invs s)) as [v|] eqn:E; [|discriminate].
    apply (aget_In iref_eqb iref_eqb_eq) in E. exact (HM _ _ E).
Qed.

(* sched_exclusive: over every run in which the selector answers are in range (and no scheduler panic was observed),
   the state predicate Spec.c01_dump holds of the observed state *)
Lemma sched_exclusive : forall cfg t0 evs, selectors_in_range (init cfg t0) evs ->
  panicked (snd (run (init cfg t0) evs)) \/ c01_dump (observe (fst (run (init cfg t0) evs))) = ""%string.
Proof.
  intros cfg t0 evs Hsel. destruct (Cok_run evs (init cfg t0) Hsel (Cok_init cfg t0)) as [Hp|H]; [left; exact Hp|right].
  apply c01_dump_ok. apply Cok_C01F. exact H.
Qed.

(* ---- a decision procedure for the hypothesis (for concrete histories) ------------------------------------------------------ *)
Definition ev_sel_okb (s : state) (e : event) : bool :=
  match e with
  | EStartExecute c a t =>
    match longest_prefix_pq (enter t s) (x_plat a) (x_instance a) with
    | Some p => Nat.ltb (fst (fst (fst (x_sel a)))) (List.length (p_scs p))
    | None => true
    end
  | EStartSync c a t =>
    negb (is_phantom (y_worker a)) &&
    match y_state a with
    | WCompleted d r =>
      if resp_success r then
        let s1 := enter t s in
        match k_task (get_worker s1 (y_worker a)) with
        | Some tk =>
          match t_learner (get_task s1 tk) with
          | Some l =>
            match l_succ l with
            | Some (bidx, _, _, _) =>
              match get_pq s1 (sk_pk (task_scq s1 tk)) with
              | Some p => Nat.ltb bidx (List.length (p_scs p))
              | None => true
              end
            | None => true
            end
          | None => true
          end
        | None => true
        end
      else true
    | _ => true
    end
  | EKillQueue c k code t => negb (code =? 0)%N
  | EEnter c t => match get_call s c with PKillRecheck _ code => negb (code =? 0)%N | _ => true end
  | _ => true
  end.

Lemma ev_sel_okb_sound : forall s e, ev_sel_okb s e = true -> ev_sel_ok s e.
Proof.
  intros s e H. destruct e; cbn [ev_sel_okb ev_sel_ok] in *; auto.
  - intros p Ep. rewrite Ep in H. apply Nat.ltb_lt. exact H.
  - apply andb_true_iff in H. destruct H as [H1 H2]. split; [apply negb_true_iff; exact H1|].
    intros d r Ey. rewrite Ey in H2. unfold BG. intros Hr tk l bidx bdur btm bl p Hk Hl Hs Hp.
    rewrite Hr in H2. cbv zeta in H2. rewrite Hk, Hl, Hs, Hp in H2. apply Nat.ltb_lt. exact H2.
  - apply negb_true_iff in H. apply N.eqb_neq. exact H.
  - intros name code Ec. rewrite Ec in H. apply negb_true_iff in H. apply N.eqb_neq. exact H.
Qed.

Fixpoint selectors_in_rangeb (s : state) (evs : list (event * list (nat * wref))) : bool :=
  match evs with
  | [] => true
  | eh :: tl => ev_sel_okb (s <| s_hints := snd eh |> <| s_out := [] |>) (fst eh) && selectors_in_rangeb (fst (step s eh)) tl
  end.

Lemma selectors_in_rangeb_sound : forall evs s, selectors_in_rangeb s evs = true -> selectors_in_range s evs.
Proof.
  induction evs as [|eh evs IH]; intros s H; cbn in *; [exact I|].
  apply andb_true_iff in H. destruct H as [H1 H2]. split; [apply ev_sel_okb_sound; exact H1|apply IH; exact H2].
Qed.
