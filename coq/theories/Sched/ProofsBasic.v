(* First facts about single functions of the scheduler model: selection of
   minima, routing to the longest prefix, completion is absorbing, what one
   iteration of a stream does, arming of the no-waiter timeout. *)
From Coq Require Import Lia.
From VF Require Export Sched.ProofsAssoc.
Open Scope Z_scope.

(* ---- minimal ------------------------------------------------------------------- *)
Lemma minimal_sound {A} (less : A -> A -> bool) (l : list A) (x : A) :
  In x (minimal less l) -> In x l /\ forall y, In y l -> less y x = false.
Proof.
  unfold minimal. rewrite filter_In. intros [Hin Hall]. split; [exact Hin|].
  intros y Hy. rewrite forallb_forall in Hall. specialize (Hall y Hy).
  destruct (less y x); [discriminate | reflexivity].
Qed.

Lemma minimal_complete {A} (less : A -> A -> bool) (l : list A) (x : A) :
  In x l -> (forall y, In y l -> less y x = false) -> In x (minimal less l).
Proof.
  intros Hin Hall. unfold minimal. rewrite filter_In. split; [exact Hin|].
  rewrite forallb_forall. intros y Hy. rewrite (Hall y Hy). reflexivity.
Qed.

Lemma minimal_incl {A} (less : A -> A -> bool) (l : list A) : incl (minimal less l) l.
Proof. intros x H. apply minimal_sound in H. tauto. Qed.

(* a strict partial order on the elements of a non-empty list has a minimal element *)
Lemma minimal_exists {A} (less : A -> A -> bool) (l : list A) :
  (forall x, In x l -> less x x = false) ->
  (forall x y z, In x l -> In y l -> In z l -> less x y = true -> less y z = true -> less x z = true) ->
  forall l', incl l' l -> l' <> [] -> exists m, In m l' /\ forall y, In y l' -> less y m = false.
Proof.
  intros Hirr Htr. induction l' as [|a l' IH]; intros Hincl Hne; [congruence|].
  assert (Ha : In a l) by (apply Hincl; cbn; auto).
  assert (Hincl' : incl l' l) by (intros z Hz; apply Hincl; cbn; auto).
  destruct l' as [|b l''].
  - exists a. split; [cbn; auto|]. intros y [<-|[]]. apply Hirr. assumption.
  - destruct (IH Hincl') as [m [Hm Hmin]]; [congruence|].
    destruct (less a m) eqn:Eam.
    + exists a. split; [cbn; auto|]. intros y [<-|Hy]; [apply Hirr; assumption|].
      destruct (less y a) eqn:Eya; [|reflexivity].
      rewrite <- (Hmin y Hy). symmetry. apply (Htr y a m); auto.
    + exists m. split; [right; exact Hm|]. intros y [<-|Hy]; auto.
Qed.

Lemma minimal_nonempty {A} (less : A -> A -> bool) (l : list A) :
  (forall x, In x l -> less x x = false) ->
  (forall x y z, In x l -> In y l -> In z l -> less x y = true -> less y z = true -> less x z = true) ->
  l <> [] -> minimal less l <> [].
Proof.
  intros Hirr Htr Hne.
  destruct (minimal_exists less l Hirr Htr l (incl_refl l) Hne) as [m [Hm Hmin]].
  intro Hnil. pose proof (minimal_complete less l m Hm Hmin) as Hin. rewrite Hnil in Hin. destruct Hin.
Qed.

(* ---- longest prefix --------------------------------------------------------------- *)
Definition pq_matches (plat : N) (inst : list N) (p : pq) : Prop :=
  pk_plat (p_key p) = plat /\ is_prefix (pk_prefix (p_key p)) inst = true.

Definition lp_step (plat : N) (inst : list N) (best : option pq) (p : pq) : option pq :=
  if (pk_plat (p_key p) =? plat)%N && is_prefix (pk_prefix (p_key p)) inst then
    match best with
    | Some b => if Nat.ltb (List.length (pk_prefix (p_key b))) (List.length (pk_prefix (p_key p))) then Some p else best
    | None => Some p
    end
  else best.

Definition lp_inv (plat : N) (inst : list N) (seen : list pq) (best : option pq) : Prop :=
  match best with
  | None => forall q, In q seen -> ~ pq_matches plat inst q
  | Some b => In b seen /\ pq_matches plat inst b /\
              forall q, In q seen -> pq_matches plat inst q ->
                (List.length (pk_prefix (p_key q)) <= List.length (pk_prefix (p_key b)))%nat
  end.

Lemma lp_fold : forall plat inst l seen best,
  lp_inv plat inst seen best -> lp_inv plat inst (seen ++ l) (fold_left (lp_step plat inst) l best).
Proof.
  induction l as [|p l IH]; intros seen best H; cbn.
  - rewrite app_nil_r. exact H.
  - replace (seen ++ p :: l) with ((seen ++ [p]) ++ l) by (rewrite <- app_assoc; reflexivity).
    apply IH. unfold lp_step.
    destruct ((pk_plat (p_key p) =? plat)%N && is_prefix (pk_prefix (p_key p)) inst) eqn:Em.
    + apply andb_true_iff in Em. destruct Em as [E1 E2]. apply N.eqb_eq in E1.
      assert (Hp : pq_matches plat inst p) by (split; assumption).
      destruct best as [b|]; cbn in H.
      * destruct H as [Hb [Hmb Hmax]].
        destruct (Nat.ltb _ _) eqn:El; cbn.
        -- apply Nat.ltb_lt in El. split; [apply in_or_app; cbn; auto|]. split; [exact Hp|].
           intros q Hq Hmq. apply in_app_or in Hq. destruct Hq as [Hq|[<-|[]]]; [|lia].
           specialize (Hmax q Hq Hmq). lia.
        -- apply Nat.ltb_ge in El. split; [apply in_or_app; auto|]. split; [exact Hmb|].
           intros q Hq Hmq. apply in_app_or in Hq. destruct Hq as [Hq|[<-|[]]]; [auto|lia].
      * cbn. split; [apply in_or_app; cbn; auto|]. split; [exact Hp|].
        intros q Hq Hmq. apply in_app_or in Hq. destruct Hq as [Hq|[<-|[]]]; [|lia].
        exfalso. exact (H q Hq Hmq).
    + assert (Hp : ~ pq_matches plat inst p).
      { intros [H1 H2]. rewrite H1, N.eqb_refl, H2 in Em. discriminate. }
      destruct best as [b|]; cbn in *.
      * destruct H as [Hb [Hmb Hmax]]. split; [apply in_or_app; auto|]. split; [exact Hmb|].
        intros q Hq Hmq. apply in_app_or in Hq. destruct Hq as [Hq|[<-|[]]]; [auto|contradiction].
      * intros q Hq. apply in_app_or in Hq. destruct Hq as [Hq|[<-|[]]]; auto.
Qed.

Lemma longest_prefix_pq_inv : forall s plat inst,
  lp_inv plat inst (s_pqs s) (longest_prefix_pq s plat inst).
Proof.
  intros. unfold longest_prefix_pq. change (s_pqs s) with ([] ++ s_pqs s) at 1.
  apply (lp_fold plat inst (s_pqs s) [] None). cbn. intros q [].
Qed.

(* the queue chosen is registered, has the platform of the request, its
   instance name prefix is a prefix of the request's instance name, and no
   registered queue with that platform has a longer matching prefix *)
Lemma longest_prefix_pq_sound : forall s plat inst p,
  longest_prefix_pq s plat inst = Some p ->
  In p (s_pqs s) /\ pk_plat (p_key p) = plat /\ is_prefix (pk_prefix (p_key p)) inst = true /\
  forall q, In q (s_pqs s) -> pk_plat (p_key q) = plat -> is_prefix (pk_prefix (p_key q)) inst = true ->
    (List.length (pk_prefix (p_key q)) <= List.length (pk_prefix (p_key p)))%nat.
Proof.
  intros s plat inst p H. pose proof (longest_prefix_pq_inv s plat inst) as Hi. rewrite H in Hi.
  destruct Hi as [H1 [[H2 H3] H4]]. repeat split; auto. intros q Hq Hp Hx. apply H4; [assumption|split; assumption].
Qed.

Lemma longest_prefix_pq_none : forall s plat inst,
  longest_prefix_pq s plat inst = None ->
  forall q, In q (s_pqs s) -> pk_plat (p_key q) = plat -> is_prefix (pk_prefix (p_key q)) inst = false.
Proof.
  intros s plat inst H q Hq Hp. pose proof (longest_prefix_pq_inv s plat inst) as Hi. rewrite H in Hi.
  destruct (is_prefix (pk_prefix (p_key q)) inst) eqn:E; auto. exfalso. apply (Hi q Hq). split; assumption.
Qed.

(* prefixes of one list with equal length are equal: with distinct keys the longest match is unique *)
Lemma is_prefix_same_length : forall a b l,
  is_prefix a l = true -> is_prefix b l = true -> List.length a = List.length b -> a = b.
Proof.
  induction a as [|x a IH]; destruct b as [|y b]; cbn; intros l Ha Hb Hl; try discriminate; auto.
  destruct l as [|z l]; [discriminate|].
  apply andb_true_iff in Ha. apply andb_true_iff in Hb. destruct Ha as [Ha1 Ha2], Hb as [Hb1 Hb2].
  apply N.eqb_eq in Ha1. apply N.eqb_eq in Hb1. subst. f_equal. apply (IH b l); auto.
Qed.

Lemma drop_prefix_app : forall pre l, is_prefix pre l = true -> l = pre ++ drop_prefix pre l.
Proof.
  induction pre as [|x pre IH]; intros l H; cbn in *; auto.
  destruct l as [|y l]; [discriminate|].
  apply andb_true_iff in H. destruct H as [H1 H2]. apply N.eqb_eq in H1. subst. cbn. f_equal. apply IH. assumption.
Qed.

(* ---- completion is absorbing -------------------------------------------------------- *)
Lemma completed_absorbing : forall s t r0 r b,
  t_resp (get_task s t) = Some r0 -> complete_task t r b s = s.
Proof. intros s t r0 r b H. unfold complete_task. rewrite H. reflexivity. Qed.

(* ---- one iteration of operation.waitExecution ------------------------------------------ *)
Lemma stream_iter_done : forall c o s r,
  t_resp (get_task s (o_task (get_op s o))) = Some r ->
  stream_iter c o s = set_call c (PStreamReturn o cOK) (emit (OMsg c o 4 (Some r)) s).
Proof. intros c o s r H. unfold stream_iter, task_stage. rewrite H. reflexivity. Qed.

Lemma stream_iter_not_done : forall c o s,
  t_resp (get_task s (o_task (get_op s o))) = None ->
  let x := get_task s (o_task (get_op s o)) in
  stream_iter c o s = set_call c (PStream o (t_gen x)) (emit (OMsg c o (task_stage x) None) s)
  /\ task_stage x <> 4%N.
Proof.
  intros c o s H x. unfold stream_iter. fold x.
  assert (Hx : t_resp x = None) by exact H. rewrite Hx. split; [reflexivity|].
  unfold task_stage. rewrite Hx. destruct (t_worker x); discriminate.
Qed.

(* ---- operations: reading after an update ------------------------------------------------- *)
Lemma get_op_upd_op_same : forall s o f, op_alive s o = true -> get_op (upd_op o f s) o = f (get_op s o).
Proof.
  intros s o f H. unfold op_alive in H. unfold upd_op, get_op.
  destruct (aget Nat.eqb o (s_ops s)) eqn:E; [|discriminate].
  cbn. rewrite (aget_aset_same Nat.eqb nat_eqb_eq). reflexivity.
Qed.

Lemma get_op_upd_op_other : forall s o o' f, o <> o' -> get_op (upd_op o' f s) o = get_op s o.
Proof.
  intros s o o' f H. unfold upd_op, get_op.
  destruct (aget Nat.eqb o' (s_ops s)) eqn:E; [|reflexivity].
  cbn. rewrite (aget_aset_other Nat.eqb nat_eqb_eq) by assumption. reflexivity.
Qed.

Lemma op_alive_upd_op : forall s o o' f, op_alive (upd_op o' f s) o = op_alive s o.
Proof.
  intros s o o' f. unfold upd_op, op_alive.
  destruct (aget Nat.eqb o' (s_ops s)) eqn:E; [|reflexivity].
  cbn. rewrite (aget_aset Nat.eqb nat_eqb_eq). destruct (Nat.eqb o o') eqn:E2; [|reflexivity].
  apply Nat.eqb_eq in E2. subst. rewrite E. reflexivity.
Qed.

(* ---- the no-waiter timeout is armed ---------------------------------------------------------- *)
(* operation.maybeStartCleanup on a registered operation nobody waits on and
   whose task was handed to a client: the removal is scheduled at
   now + OperationWithNoWaitersTimeout, nothing is reported *)
Lemma maybe_start_cleanup_arms : forall s o,
  op_alive s o = true -> o_waiters (get_op s o) = O -> o_mayexist (get_op s o) = false ->
  o_cleanup (get_op s o) = None ->
  o_cleanup (get_op (maybe_start_cleanup o s) o) = Some (s_now s + cf_nowaiters (s_cfg s))
  /\ s_out (maybe_start_cleanup o s) = s_out s.
Proof.
  intros s o Ha Hw Hm Hc. unfold maybe_start_cleanup. rewrite Ha, Hw, Hm, Hc. cbn [Nat.eqb negb andb].
  rewrite get_op_upd_op_same by assumption. split; [reflexivity|].
  unfold upd_op. destruct (aget Nat.eqb o (s_ops s)); reflexivity.
Qed.

(* ... and in every other case the cleanup time of every operation is as before, or a panic is reported *)
Lemma maybe_start_cleanup_keeps : forall s o,
  (o_waiters (get_op s o) <> O \/ o_mayexist (get_op s o) = true \/ op_alive s o = false) ->
  maybe_start_cleanup o s = s.
Proof.
  intros s o H. unfold maybe_start_cleanup.
  destruct (op_alive s o); [|reflexivity]. cbn [andb].
  destruct H as [H|[H|H]]; [| |discriminate].
  - destruct (o_waiters (get_op s o)); [congruence|reflexivity].
  - rewrite H. rewrite andb_false_r. reflexivity.
Qed.
