(* C07 (scheduler part): retry on the largest size class; the learner protocol of task.complete. *)
From Coq Require Import Lia.
From VF Require Export Sched.ProofsC01.
Open Scope Z_scope.

(* ---- frames ------------------------------------------------------------------------------------------------------ *)
(* the fields of task [t] that only the learner / retry / response steps of task.complete change *)
Definition TKeep (t : nat) (x0 : task) (s : state) : Prop :=
  t_ops (get_task s t) = t_ops x0 /\ t_learner (get_task s t) = t_learner x0 /\ t_resp (get_task s t) = t_resp x0 /\
  t_expdur (get_task s t) = t_expdur x0 /\ t_timeout (get_task s t) = t_timeout x0.

Ltac t_tk :=
  intros; unfold TKeep in *;
  first [ (erewrite get_task_frame; [eassumption | frame_eq])
        | (rewrite get_task_upd_task; let E := fresh "E" in destruct (Nat.eqb _ _) eqn:E; [apply Nat.eqb_eq in E; subst; cbn; assumption | assumption]) ].

Definition keeps_ops (l : list (nat * oper)) (s : state) : Prop := s_ops s = l.
Ltac t_ko := intros; unfold keeps_ops in *; first [assumption | (rewrite upd_inv_eq; assumption) | (rewrite upd_task_eq; assumption) | (rewrite upd_worker_eq; assumption) | (rewrite upd_scq_eq; assumption) | (cbn; assumption) ].
Definition keeps_pqs (l : list pq) (s : state) : Prop := s_pqs s = l.
Ltac t_kp := intros; unfold keeps_pqs in *; first [assumption | (rewrite upd_inv_eq; assumption) | (rewrite upd_task_eq; assumption) | (rewrite upd_op_eq; assumption) | (rewrite upd_worker_eq; assumption) | (rewrite upd_scq_eq; assumption) | (cbn; assumption) ].

(* the part of task.complete before the learner is consulted *)
Definition ct_prefix (t : nat) (b : bool) (s : state) : state :=
  let k := task_scq s t in
  let s1 := match t_worker (get_task s t) with
            | None => assign_queued (phantom_worker k) t 0 s
            | Some w => if b then set_last_invocation w (lowest_common (task_invs s t)) s else set_last_invocation w [] s
            end in
  let w := match t_worker (get_task s1 t) with Some w => w | None => phantom_worker k end in
  let s2 := fold_left (fun s i => decrement_executing i w s) (task_invs s1 t) s1 in
  upd_task t (fun x => x <| t_worker := None |>) (upd_worker w (fun k => k <| k_task := None |>) s2).

Lemma ct_prefix_frames : forall t b s,
  TKeep t (get_task s t) (ct_prefix t b s) /\ s_ops (ct_prefix t b s) = s_ops s /\ s_pqs (ct_prefix t b s) = s_pqs s.
Proof.
  intros t b s.
  assert (H1 : TKeep t (get_task s t) s) by (unfold TKeep; auto).
  assert (H2 : keeps_ops (s_ops s) s) by reflexivity.
  assert (H3 : keeps_pqs (s_pqs s) s) by reflexivity.
  split; [|split].
  - unfold ct_prefix. fr_go (TKeep t (get_task s t)) t_tk.
  - assert (H : keeps_ops (s_ops s) (ct_prefix t b s)); [|exact H]. unfold ct_prefix. fr_go (keeps_ops (s_ops s)) t_ko.
  - assert (H : keeps_pqs (s_pqs s) (ct_prefix t b s)); [|exact H]. unfold ct_prefix. fr_go (keeps_pqs (s_pqs s)) t_kp.
Qed.

Lemma complete_task_eq2 : forall t r b s,
  complete_task t r b s =
  match t_resp (get_task s t) with
  | Some _ => s
  | None =>
    let s4 := ct_prefix t b s in
    match get_pq s4 (sk_pk (task_scq s t)) with
    | None => panic "complete: platform queue missing" s4
    | Some p => let '(s5, retry) := ct_learner t r b (get_task s t) p (task_scq s t) s4 in ct_tail t r (get_task s t) p (task_scq s t) s5 retry
    end
  end.
Proof. reflexivity. Qed.

Lemma schedule_frames : forall t x0 t' s,
  TKeep t x0 s -> TKeep t x0 (schedule t' s) /\ s_ops (schedule t' s) = s_ops s.
Proof.
  intros t x0 t' s H. split; [fr_go (TKeep t x0) t_tk|].
  assert (H2 : keeps_ops (s_ops s) s) by reflexivity.
  assert (H3 : keeps_ops (s_ops s) (schedule t' s)); [|exact H3]. fr_go (keeps_ops (s_ops s)) t_ko.
Qed.

Lemma goc_frames : forall k p s,
  s_tasks (get_or_create_invocation k p s) = s_tasks s /\ s_ops (get_or_create_invocation k p s) = s_ops s /\
  s_out (get_or_create_invocation k p s) = s_out s.
Proof.
  intros k p s. unfold get_or_create_invocation. generalize (prefixes_from [] p). intro pl. revert s.
  induction pl as [|pp pl IH]; intro s; cbn [fold_left]; [auto|].
  destruct (IH (if inv_exists s (mkI k pp) then s else s <| s_invs ::= fun l => l ++ [(mkI k pp, new_inv (s_now s))] |>)) as [E1 [E2 E3]].
  rewrite E1, E2, E3. destruct (inv_exists s (mkI k pp)); auto.
Qed.

Lemma goc_fold_frames : forall lk (l : list (iref * nat)) s,
  let s' := fold_left (fun s '(i, _) => get_or_create_invocation lk (i_path i) s) l s in
  s_tasks s' = s_tasks s /\ s_ops s' = s_ops s /\ s_out s' = s_out s.
Proof.
  intros lk l. induction l as [|[i o] l IH]; intro s; cbn [fold_left]; [auto|].
  destruct (IH (get_or_create_invocation lk (i_path i) s)) as [E1 [E2 E3]]. cbv zeta in *. rewrite E1, E2, E3.
  apply goc_frames.
Qed.

Definition out_has (x : obs) (s : state) : Prop := In x (s_out s).
Ltac t_oh := intros; unfold out_has in *; first [assumption | (rewrite upd_inv_eq; assumption) | (rewrite upd_task_eq; assumption) | (rewrite upd_op_eq; assumption) | (rewrite upd_worker_eq; assumption) | (rewrite upd_scq_eq; assumption) | (cbn; right; assumption) | (cbn; assumption)].

Lemma retarget_out : forall lk l s, s_out (retarget_fold lk l s) = s_out s.
Proof.
  intros lk l. induction l as [|[i o] l IH]; intro s; cbn [retarget_fold fold_left]; [reflexivity|].
  fold (retarget_fold lk l (upd_op o (fun y => y <| o_inv := mkI lk (i_path i) |>) s)). rewrite IH. rewrite upd_op_eq. reflexivity.
Qed.

(* ---- retry on the largest size class ----------------------------------------------------------------------------------- *)
(* A failure reported by the worker, for which the learner asks for a retry, moves the task with all its
   operations to the largest size class of its platform queue, with the learner the old one handed over,
   the expected duration and timeout it returned, and without a response; the old learner was told Failed. *)
Lemma retry_on_largest : forall t r s l d tm nl p,
  t_resp (get_task s t) = None ->
  t_learner (get_task s t) = Some l -> l_fail l = Some (d, tm, nl) -> resp_success r = false ->
  get_pq s (sk_pk (task_scq s t)) = Some p ->
  NoDup (map snd (t_ops (get_task s t))) ->
  let lk := mkSK (sk_pk (task_scq s t)) (largest_sc p) in
  let s' := complete_task t r true s in
  t_resp (get_task s' t) = None /\ t_learner (get_task s' t) = Some nl /\
  t_expdur (get_task s' t) = d /\ t_timeout (get_task s' t) = tm /\
  t_ops (get_task s' t) = map (fun '(i, o) => (mkI lk (i_path i), o)) (t_ops (get_task s t)) /\
  (forall i o, In (i, o) (t_ops (get_task s t)) -> op_alive s o = true -> o_inv (get_op s' o) = mkI lk (i_path i)) /\
  In (OGhost (GFailed (l_id l) (r_code r =? cDEADLINE)%N)) (s_out s').
Proof.
  intros t r s l d tm nl p Hr Hl Hf Hs Hp Hnd lk s'. unfold s'. rewrite complete_task_eq2, Hr. cbv zeta.
  destruct (ct_prefix_frames t true s) as [[K1 [K2 [K3 [K4 K5]]]] [Eo Ep]].
  set (s4 := ct_prefix t true s) in *.
  assert (Eq : get_pq s4 (sk_pk (task_scq s t)) = Some p) by (unfold get_pq; rewrite Ep; exact Hp). rewrite Eq.
  unfold ct_learner. rewrite Hl, Hs, Hf. cbv zeta.
  set (s5 := upd_task t (fun x => x <| t_learner := Some nl |>) (emit (OGhost (GFailed (l_id l) (r_code r =? cDEADLINE)%N)) s4)).
  assert (Et5 : get_task s5 t = (get_task s4 t) <| t_learner := Some nl |>) by (unfold s5; rewrite get_task_upd_task, Nat.eqb_refl; reflexivity).
  unfold ct_tail. cbv zeta. fold lk.
  assert (Eold : t_ops (get_task s5 t) = t_ops (get_task s t)) by (rewrite Et5; cbn; exact K1).
  rewrite Eold. set (old := t_ops (get_task s t)) in *.
  destruct (goc_fold_frames lk old s5) as [G1 [G2 G3]]. set (s6 := fold_left _ old s5) in *.
  set (s7 := upd_task t _ s6).
  fold (retarget_fold lk old s7). destruct (retarget_reads lk old s7 Hnd) as [R1 [R2 [R3 [R4 [R5 [R6 [R7 R8]]]]]]].
  set (s8 := retarget_fold lk old s7) in *.
  assert (Et8 : get_task s8 t = (get_task s4 t) <| t_learner := Some nl |> <| t_expdur := d |> <| t_timeout := tm |>
                                  <| t_ops := map (fun '(i, o) => (mkI lk (i_path i), o)) old |>).
  { rewrite (get_task_frame _ _ _ R1). unfold s7. rewrite get_task_upd_task, Nat.eqb_refl.
    rewrite (get_task_frame _ _ _ G1), Et5. reflexivity. }
  destruct (schedule_frames t (get_task s8 t) t s8) as [[S1 [S2 [S3 [S4 S5]]]] So]; [unfold TKeep; auto|].
  set (s9 := schedule t s8) in *.
  assert (Et10 : forall s10, s10 = report_non_final_stage_change t s9 -> get_task s10 t = (get_task s9 t) <| t_gen ::= S |>).
  { intros s10 ->. unfold report_non_final_stage_change. rewrite get_task_upd_task, Nat.eqb_refl. reflexivity. }
  rewrite (Et10 _ eq_refl). cbn [t_resp t_learner t_expdur t_timeout t_ops set].
  rewrite S1, S2, S3, S4, S5, Et8. cbn.
  split; [rewrite K3; exact Hr|]. split; [reflexivity|]. split; [reflexivity|]. split; [reflexivity|]. split; [reflexivity|]. split.
  - intros i o Hin Ha. rewrite (get_op_frame s9) by reflexivity. rewrite (get_op_frame s8 s9) by exact So.
    apply (R7 i o Hin). unfold s7. rewrite (op_alive_frame s6) by reflexivity. rewrite (op_alive_frame s5 s6) by exact G2.
    rewrite (op_alive_frame s4 s5) by reflexivity. rewrite (op_alive_frame s s4) by exact Eo. exact Ha.
  - assert (Hout : In (OGhost (GFailed (l_id l) (r_code r =? cDEADLINE)%N)) (s_out s8)).
    { (* nothing between the ghost call and here writes the output *)
      assert (E8 : s_out s8 = s_out s7) by apply retarget_out.
      rewrite E8. unfold s7. cbn. rewrite G3. unfold s5. cbn. left. reflexivity. }
    (* the output only grows *)
    assert (Hgrow : forall x, In x (s_out s8) -> In x (s_out (report_non_final_stage_change t s9))).
    { intros x Hx. unfold report_non_final_stage_change. cbn. unfold s9.
      assert (H0 : out_has x s8) by exact Hx.
      assert (H : out_has x (schedule t s8)); [|exact H].
      fr_go (out_has x) t_oh. }
    apply Hgrow. exact Hout.
Qed.

(* ---- a completed task holds no learner ------------------------------------------------------------------------------- *)
Definition LN (s : state) : Prop := forall t, t_resp (get_task s t) <> None -> t_learner (get_task s t) = None.

Lemma LN_frame : forall s s', s_tasks s' = s_tasks s -> LN s -> LN s'.
Proof. unfold LN. intros s s' E H t. rewrite (get_task_frame _ _ _ E). apply H. Qed.
Lemma LN_upd_task : forall s t f,
  (t_resp (f (get_task s t)) <> None -> t_learner (f (get_task s t)) = None) -> LN s -> LN (upd_task t f s).
Proof.
  unfold LN. intros s t f Hf H t'. rewrite get_task_upd_task. destruct (Nat.eqb t' t) eqn:E; [exact Hf|apply H].
Qed.
Lemma LN_upd_task_keep : forall s t f, (forall x, t_resp (f x) = t_resp x /\ t_learner (f x) = t_learner x) -> LN s -> LN (upd_task t f s).
Proof. intros s t f Hf H. apply LN_upd_task; [|exact H]. destruct (Hf (get_task s t)) as [-> ->]. apply H. Qed.
Lemma LN_newtask : forall s x, t_resp x = None -> LN s -> LN (s <| s_ntasks ::= S |> <| s_tasks ::= fun l => l ++ [(s_ntasks s, x)] |>).
Proof.
  unfold LN. intros s x Hx H t. rewrite get_task_newtask. specialize (H t). unfold get_task in H.
  destruct (aget Nat.eqb t (s_tasks s)); [exact H|]. destruct (Nat.eqb t (s_ntasks s)); [rewrite Hx; congruence|cbn; congruence].
Qed.

Ltac t_LN :=
  intros;
  lazymatch goal with
  | |- LN (upd_task _ _ _) => apply LN_upd_task_keep; [intros ?; split; reflexivity | assumption]
  | |- LN (set s_tasks _ (set s_ntasks S _)) => apply LN_newtask; [first [reflexivity | assumption] | assumption]
  | |- _ => (eapply LN_frame; [|eassumption]); frame_eq
  end.

(* a task that holds a learner was created (its index is below the counter) *)
Definition TL (s : state) : Prop := forall t, t_learner (get_task s t) <> None -> (t < s_ntasks s)%nat.

Lemma TL_frame : forall s s', s_tasks s' = s_tasks s -> s_ntasks s' = s_ntasks s -> TL s -> TL s'.
Proof. unfold TL. intros s s' E1 E2 H t. rewrite (get_task_frame _ _ _ E1), E2. apply H. Qed.
Lemma TL_upd_task : forall s t f,
  (t_learner (f (get_task s t)) <> None -> (t < s_ntasks s)%nat) -> TL s -> TL (upd_task t f s).
Proof.
  unfold TL. intros s t f Hf H t'. rewrite get_task_upd_task. change (s_ntasks (upd_task t f s)) with (s_ntasks s).
  destruct (Nat.eqb t' t) eqn:E; [apply Nat.eqb_eq in E; subst; exact Hf|apply H].
Qed.
Lemma TL_upd_task_keep : forall s t f, (forall x, t_learner (f x) = t_learner x) -> TL s -> TL (upd_task t f s).
Proof. intros s t f Hf H. apply TL_upd_task; [|exact H]. rewrite Hf. apply H. Qed.
Lemma TL_newtask : forall s x, TL s -> TL (s <| s_ntasks ::= S |> <| s_tasks ::= fun l => l ++ [(s_ntasks s, x)] |>).
Proof.
  unfold TL. intros s x H t. rewrite get_task_newtask. cbn. specialize (H t). unfold get_task in H.
  destruct (aget Nat.eqb t (s_tasks s)); [intro Hl; specialize (H Hl); lia|].
  destruct (Nat.eqb t (s_ntasks s)) eqn:E; [apply Nat.eqb_eq in E; lia|cbn; congruence].
Qed.

Definition LN2 (s : state) : Prop := LN s /\ TL s.

Ltac t_TL :=
  lazymatch goal with
  | |- TL (upd_task _ _ _) => apply TL_upd_task_keep; [intros ?; reflexivity | assumption]
  | |- TL (set s_tasks _ (set s_ntasks S _)) => apply TL_newtask; assumption
  | |- _ => (eapply TL_frame; [ | | eassumption]); frame_eq
  end.

Ltac t_LN2 :=
  intros;
  match goal with H : LN2 _ |- _ => let H1 := fresh "HLN" in let H2 := fresh "HTL" in destruct H as [H1 H2] end;
  split; [t_LN | t_TL].

Ltac ln_leaf0 :=
  idtac;
  lazymatch goal with
  | |- LN2 (set s_ops _ (set s_nops S ?s1)) => let H := fresh in assert (H : LN2 s1); [|destruct H; split; [eapply LN_frame; [|eassumption]; reflexivity|eapply TL_frame; [ | |eassumption]; reflexivity]]
  | |- LN2 (set s_inflight _ ?s1) => let H := fresh in assert (H : LN2 s1); [|destruct H; split; [eapply LN_frame; [|eassumption]; reflexivity|eapply TL_frame; [ | |eassumption]; reflexivity]]
  end.
Ltac ln_go0 := inv_go ln_leaf0 t_LN2.

Lemma LN2_ct_prefix : forall t b s, LN2 s -> LN2 (ct_prefix t b s).
Proof. intros t b s H. unfold ct_prefix. ln_go0. Qed.

Lemma get_task_emit : forall o s t, get_task (emit o s) t = get_task s t. Proof. reflexivity. Qed.

(* reading task [t] after the background task was created next to it *)
Lemma bg_block_reads : forall t s x prio bi,
  (t < s_ntasks s)%nat ->
  let bt := s_ntasks s in
  let sN := s <| s_ntasks ::= S |> <| s_tasks ::= fun l => l ++ [(bt, x)] |> in
  TKeep t (get_task s t) (schedule bt (fst (new_operation bt prio bi true sN))).
Proof.
  intros t s x prio bi Hlt bt sN. apply schedule_frames. unfold new_operation. cbn [fst]. unfold TKeep.
  rewrite get_task_upd_task. destruct (Nat.eqb t bt) eqn:E; [apply Nat.eqb_eq in E; unfold bt in E; lia|].
  rewrite (get_task_frame sN) by reflexivity. unfold sN, bt. rewrite get_task_newtask. unfold get_task.
  destruct (aget Nat.eqb t (s_tasks s)); [auto|]. destruct (Nat.eqb t (s_ntasks s)) eqn:E2; [apply Nat.eqb_eq in E2; lia|auto].
Qed.

Lemma LN2_bg_block : forall s x prio bi,
  t_resp x = None -> LN2 s ->
  let bt := s_ntasks s in
  let sN := s <| s_ntasks ::= S |> <| s_tasks ::= fun l => l ++ [(bt, x)] |> in
  LN2 (schedule bt (fst (new_operation bt prio bi true sN))).
Proof. intros s x prio bi Hx H bt sN. unfold sN, bt, new_operation. cbn [fst]. ln_go0. Qed.

(* after the learner block: the invariant, the response is still missing, and if no retry is asked for the learner is gone *)
Lemma LN2_ct_learner : forall t r b x p k s,
  LN2 s -> t_resp (get_task s t) = None -> t_learner (get_task s t) = t_learner x ->
  let sr := ct_learner t r b x p k s in
  LN2 (fst sr) /\ t_resp (get_task (fst sr) t) = None /\ t_ops (get_task (fst sr) t) = t_ops (get_task s t) /\
  (snd sr = None -> t_learner (get_task (fst sr) t) = None).
Proof.
  intros t r b x p k s H Hr Hl sr. unfold sr. clear sr.
  assert (Hlt : t_learner x <> None -> (t < s_ntasks s)%nat) by (intro Hx; apply (proj2 H); congruence).
  assert (Hset : forall (s0 : state) lr, LN2 s0 -> t_resp (get_task s0 t) = None -> (lr <> None -> (t < s_ntasks s0)%nat) ->
            LN2 (upd_task t (fun x => x <| t_learner := lr |>) s0) /\ t_resp (get_task (upd_task t (fun x => x <| t_learner := lr |>) s0) t) = None
            /\ t_ops (get_task (upd_task t (fun x => x <| t_learner := lr |>) s0) t) = t_ops (get_task s0 t)
            /\ t_learner (get_task (upd_task t (fun x => x <| t_learner := lr |>) s0) t) = lr).
  { intros s0 lr [H0 H0'] Hr0 Hlr. split; [split; [apply LN_upd_task; [cbn; congruence|exact H0]|apply TL_upd_task; [cbn; exact Hlr|exact H0']]|].
    rewrite get_task_upd_task, Nat.eqb_refl. cbn. auto. }
  unfold ct_learner. destruct (t_learner x) as [l|] eqn:El.
  - specialize (Hlt ltac:(discriminate)). destruct (resp_success r).
    + cbv zeta. destruct (Hset (emit (OGhost (GSucceeded (l_id l))) s) None) as [A [B [C D]]]; [t_LN2|exact Hr|congruence|].
      change (get_task (emit (OGhost (GSucceeded (l_id l))) s) t) with (get_task s t) in C.
      assert (Hlt5 : (t < s_ntasks (upd_task t (fun x => x <| t_learner := None |>) (emit (OGhost (GSucceeded (l_id l))) s)))%nat) by exact Hlt.
      set (s5 := upd_task t _ (emit _ s)) in *. clearbody s5.
      destruct (l_succ l) as [[[[bidx bdur] btimeout] bl]|]; [|cbn [fst snd]; auto].
      destruct (Nat.eqb (p_maxbg p) 0); [cbn [fst snd]; split; [t_LN2|rewrite get_task_emit; auto]|].
      assert (Hg : forall k pth, LN2 (get_or_create_invocation k pth s5) /\ get_task (get_or_create_invocation k pth s5) t = get_task s5 t
                  /\ s_ntasks (get_or_create_invocation k pth s5) = s_ntasks s5).
      { intros k' pth. split; [ln_go0|]. split; [apply get_task_frame; apply goc_frames|apply get_or_create_invocation_tasks]. }
      destruct (Hg (mkSK (sk_pk k) (nth bidx (p_scs p) 0%N)) [4294967295%N]) as [A6 [E6 N6]].
      set (s6 := get_or_create_invocation _ _ s5) in *. clearbody s6.
      destruct (Nat.leb _ _); [cbn [fst snd]; split; [t_LN2|rewrite get_task_emit, E6; auto]|].
      assert (Hlt6 : (t < s_ntasks s6)%nat) by lia.
      match goal with |- context [new_operation ?bt ?prio ?bi true ?sN] =>
        pose proof (bg_block_reads t s6 (mkTask [] (t_instance x) (t_digest x) (Some true) btimeout (t_qts x) (t_suffix x) None 0 bdur (Some bl) None 0) prio bi Hlt6) as [T1 [T2 [T3 _]]];
        pose proof (LN2_bg_block s6 (mkTask [] (t_instance x) (t_digest x) (Some true) btimeout (t_qts x) (t_suffix x) None 0 bdur (Some bl) None 0) prio bi eq_refl A6) as A8
      end.
      cbv zeta in T1, T2, T3, A8. unfold new_operation in *. cbn [fst snd] in *.
      split; [exact A8|]. rewrite T1, T2, T3, E6. auto.
    + destruct b; cbv zeta.
      * destruct (l_fail l) as [[[d tm] nl]|]; cbn [fst snd].
        -- destruct (Hset (emit (OGhost (GFailed (l_id l) (r_code r =? cDEADLINE)%N)) s) (Some nl)) as [A [B [C D]]]; [t_LN2|exact Hr|intros _; exact Hlt|].
           split; [exact A|]. split; [exact B|]. split; [exact C|discriminate].
        -- destruct (Hset (emit (OGhost (GFailed (l_id l) (r_code r =? cDEADLINE)%N)) s) None) as [A [B [C D]]]; [t_LN2|exact Hr|congruence|]. auto.
      * cbn [fst snd]. destruct (Hset (emit (OGhost (GAbandoned (l_id l))) s) None) as [A [B [C D]]]; [t_LN2|exact Hr|congruence|]. auto.
  - cbn [fst snd]. split; [t_LN2|]. split; [exact Hr|]. split; [reflexivity|]. intros _. exact Hl.
Qed.

Lemma LN2_ct_tail : forall t r x p k s retry,
  LN2 s -> t_resp (get_task s t) = None -> (retry = None -> t_learner (get_task s t) = None) ->
  LN2 (ct_tail t r x p k s retry).
Proof.
  intros t r x p k s retry H Hr Hl. unfold ct_tail. destruct retry as [[d tm]|].
  - cbv zeta. set (old := t_ops (get_task s t)).
    set (s6 := fold_left _ old s).
    assert (H6 : LN2 s6) by (unfold s6; ln_go0). clearbody s6.
    match goal with |- LN2 (report_non_final_stage_change t (schedule t (fold_left ?g old ?e))) => set (s7 := e); fold (retarget_fold (mkSK (sk_pk k) (largest_sc p)) old s7) end.
    assert (H7 : LN2 s7) by (unfold s7; ln_go0). clearbody s7.
    assert (H8 : LN2 (retarget_fold (mkSK (sk_pk k) (largest_sc p)) old s7)).
    { generalize old. intro l. revert s7 H7. induction l as [|[i o] l IH]; intros s7 H7; cbn [retarget_fold fold_left]; [exact H7|].
      apply IH. t_LN2. }
    set (s8 := retarget_fold _ old s7) in *. clearbody s8. unfold report_non_final_stage_change. ln_go0.
  - cbv zeta.
    set (s6 := match aget dkey_eqb (t_instance x, t_digest x) (s_inflight s) with Some t' => _ | None => s end).
    assert (H6 : LN2 s6 /\ get_task s6 t = get_task s t).
    { unfold s6. destruct (aget dkey_eqb _ _); [|auto]. destruct (Nat.eqb t _); [|auto]. split; [ln_go0|reflexivity]. }
    clearbody s6. destruct H6 as [[H6 H6'] E6].
    set (s7 := upd_task t _ s6).
    assert (H7 : LN2 s7).
    { unfold s7. split; [apply LN_upd_task; [cbn; intros _; rewrite E6; apply Hl; reflexivity|exact H6]|t_TL]. }
    clearbody s7. ln_go0.
Qed.

Lemma LN2_complete_task : forall t r b s, LN2 s -> LN2 (complete_task t r b s).
Proof.
  intros t r b s H. rewrite complete_task_eq2. destruct (t_resp (get_task s t)) eqn:Er; [exact H|]. cbv zeta.
  pose proof (LN2_ct_prefix t b s H) as H4. destruct (ct_prefix_frames t b s) as [[K1 [K2 [K3 _]]] _].
  set (s4 := ct_prefix t b s) in *. clearbody s4. rewrite Er in K3.
  destruct (get_pq s4 _) as [p|]; [|t_LN2].
  destruct (LN2_ct_learner t r b (get_task s t) p (task_scq s t) s4 H4 K3 K2) as [A [B [_ D]]].
  destruct (ct_learner t r b (get_task s t) p (task_scq s t) s4) as [s5 retry]. cbn [fst snd] in *.
  apply LN2_ct_tail; assumption.
Qed.

Lemma LN2_cancel_all_queued : forall i r s, LN2 s -> LN2 (cancel_all_queued i r s).
Proof.
  intros i r s H. rewrite cancel_all_queued_eq. apply cancel_go_closed; [|exact H].
  intros. apply LN2_complete_task. assumption.
Qed.

Ltac ln_leaf :=
  first [ ln_leaf0
        | lazymatch goal with
          | |- LN2 (complete_task _ _ _ _) => apply LN2_complete_task
          | |- LN2 (cancel_all_queued _ _ _) => apply LN2_cancel_all_queued
          end ].
Ltac ln_go := inv_go ln_leaf t_LN2.

Lemma LN2_operation_remove : forall o s, LN2 s -> LN2 (operation_remove o s).
Proof.
  intros o s H. unfold operation_remove. ln_go.
  all: match goal with |- LN2 (fst (fold_left ?g ?l ?a)) => apply (fold_left_pres (fun acc => LN2 (fst acc)) g l) end;
    [ intros [s1 go] j H1; cbn [fst] in *; destruct go; [ln_go | assumption] | cbn [fst]; ln_go ].
Qed.

Lemma LN2_enter : forall t s, LN2 s -> LN2 (enter t s).
Proof.
  intros t s H. unfold enter. destruct (s_now s <? t); [|exact H]. cbv zeta.
  apply cleanup_run_closed; [intros; t_LN2| |ln_go].
  intros s1 [z ce] H1 _. unfold run_entry. cbn [fst snd]. destruct ce; [apply LN2_operation_remove|..]; ln_go.
Qed.

Ltac ln_leaf2 :=
  first [ ln_leaf
        | lazymatch goal with
          | |- LN2 (enter _ _) => apply LN2_enter
          end ].
Ltac ln_go2 := inv_go ln_leaf2 t_LN2.

Lemma LN2_get_current_or_next : forall c w b pr s, LN2 s -> LN2 (get_current_or_next c w b pr s).
Proof. intros. unfold get_current_or_next. ln_go2. Qed.

Lemma LN2_sync_start : forall c a s, LN2 s -> LN2 (sync_start c a s).
Proof.
  intros c a s H. apply sync_start_closed; try exact H; intros;
    try (apply LN2_get_current_or_next; assumption); try (apply LN2_complete_task; assumption); ln_go2.
Qed.

Lemma LN2_step_core : forall e s, LN2 s -> LN2 (step_core e s).
Proof.
  intros e s H. destruct e; unfold step_core.
  - unfold exec_start, new_operation. ln_go2.
  - ln_go2.
  - apply LN2_sync_start. apply LN2_enter. exact H.
  - ln_go2.
  - ln_go2.
  - ln_go2.
  - ln_go2.
  - cbv zeta. match goal with |- LN2 (match ?x with _ => _ end) => rewrite (surjective_pairing x) end.
    cbv beta iota. ln_go2.
  - ln_go2.
  - ln_go2.
  - inv_go ltac:(first [ln_leaf2 | lazymatch goal with
       | |- LN2 (get_current_or_next _ _ _ _ _) => apply LN2_get_current_or_next end]) t_LN2.
  - ln_go2.
  - ln_go2.
Qed.

Lemma LN2_step : forall s eh, LN2 s -> LN2 (fst (step s eh)).
Proof.
  intros s eh H. unfold step. cbn [fst].
  assert (H0 : LN2 (s <| s_hints := snd eh |> <| s_out := [] |>)) by (destruct H; split; [eapply LN_frame; [|eassumption]; reflexivity|eapply TL_frame; [ | |eassumption]; reflexivity]).
  assert (H1 : LN2 (auto_returns (step_core (fst eh) (s <| s_hints := snd eh |> <| s_out := [] |>)))).
  { apply (fr_auto_returns LN2); [intros; unfold ret; ln_go2|]. apply LN2_step_core. exact H0. }
  destruct H1; split; [eapply LN_frame; [|eassumption]; reflexivity|eapply TL_frame; [ | |eassumption]; reflexivity].
Qed.

Lemma LN2_init : forall cfg t0, LN2 (init cfg t0).
Proof. intros. split; intros t; unfold init, get_task; cbn; congruence. Qed.

(* completed_has_no_learner: in every reachable state a task with a response holds no learner
   (every learner handed out was given its terminal call before its task completed) *)
Lemma completed_has_no_learner : forall cfg t0 evs t r,
  let s := fst (run (init cfg t0) evs) in
  t_resp (get_task s t) = Some r -> t_learner (get_task s t) = None.
Proof.
  intros cfg t0 evs t r s Hr.
  assert (H : LN2 s) by (apply (run_fst_snoc evs (init cfg t0) LN2); [intros; apply LN2_step; assumption|apply LN2_init]).
  apply (proj1 H). congruence.
Qed.

(* ---- the terminal calls a learner receives ---------------------------------------------------------------------------- *)
Definition is_terminal (o : obs) : bool :=
  match o with OGhost (GSucceeded _) | OGhost (GFailed _ _) | OGhost (GAbandoned _) => true | _ => false end.
Definition term_calls (s : state) : list obs := filter is_terminal (s_out s).
Definition GH (g : list obs) (s : state) : Prop := term_calls s = g.
Ltac t_gh := intros; unfold GH, term_calls in *;
  first [assumption | (rewrite upd_inv_eq; assumption) | (rewrite upd_task_eq; assumption) | (rewrite upd_op_eq; assumption)
        | (rewrite upd_worker_eq; assumption) | (rewrite upd_scq_eq; assumption) | (cbn; assumption)].

Lemma GH_ct_prefix : forall t b s, term_calls (ct_prefix t b s) = term_calls s.
Proof. intros t b s. assert (H : GH (term_calls s) s) by reflexivity. assert (H1 : GH (term_calls s) (ct_prefix t b s)); [|exact H1]. unfold ct_prefix. fr_go (GH (term_calls s)) t_gh. Qed.

Lemma GH_schedule : forall t s, term_calls (schedule t s) = term_calls s.
Proof. intros t s. assert (H : GH (term_calls s) s) by reflexivity. assert (H1 : GH (term_calls s) (schedule t s)); [|exact H1]. fr_go (GH (term_calls s)) t_gh. Qed.

Lemma GH_ct_tail : forall t r x p k s retry, term_calls (ct_tail t r x p k s retry) = term_calls s.
Proof.
  intros t r x p k s retry. assert (H : GH (term_calls s) s) by reflexivity.
  assert (H1 : GH (term_calls s) (ct_tail t r x p k s retry)); [|exact H1]. unfold ct_tail.
  destruct retry as [[d tm]|]; fr_go (GH (term_calls s)) t_gh.
Qed.

(* the call the learner of a task receives when the task is completed with [r] (by its worker or not) *)
Definition learner_call (l : learner) (r : resp) (by_worker : bool) : obs :=
  if resp_success r then OGhost (GSucceeded (l_id l))
  else if by_worker then OGhost (GFailed (l_id l) (r_code r =? cDEADLINE)%N)
  else OGhost (GAbandoned (l_id l)).

(* the learner the task holds afterwards *)
Definition learner_next (l : learner) (r : resp) (by_worker : bool) : option learner :=
  if resp_success r then None
  else if by_worker then match l_fail l with Some (_, _, nl) => Some nl | None => None end
  else None.

Lemma ct_learner_calls : forall t r b x p k s l,
  t_learner x = Some l ->
  let sr := ct_learner t r b x p k s in
  term_calls (fst sr) = learner_call l r b :: term_calls s \/
  exists bidx bdur btimeout bl, resp_success r = true /\ l_succ l = Some (bidx, bdur, btimeout, bl) /\
     term_calls (fst sr) = OGhost (GAbandoned (l_id bl)) :: learner_call l r b :: term_calls s.
Proof.
  intros t r b x p k s l El sr. unfold sr, ct_learner, learner_call. rewrite El. clear sr.
  destruct (resp_success r) eqn:Es.
  - cbv zeta. set (s5 := upd_task t _ (emit _ s)).
    assert (E5 : term_calls s5 = OGhost (GSucceeded (l_id l)) :: term_calls s) by reflexivity. clearbody s5.
    destruct (l_succ l) as [[[[bidx bdur] btimeout] bl]|] eqn:Esu; [|left; exact E5].
    destruct (Nat.eqb (p_maxbg p) 0).
    { right. exists bidx, bdur, btimeout, bl. split; [reflexivity|]. split; [reflexivity|]. cbn [fst]. unfold term_calls in *. cbn. rewrite E5. reflexivity. }
    set (s6 := get_or_create_invocation _ _ s5).
    assert (E6 : term_calls s6 = term_calls s5) by (unfold term_calls, s6; f_equal; apply goc_frames). clearbody s6.
    destruct (Nat.leb _ _).
    { right. exists bidx, bdur, btimeout, bl. split; [reflexivity|]. split; [reflexivity|]. cbn [fst]. unfold term_calls in *. cbn. rewrite E6, E5. reflexivity. }
    left. unfold new_operation. cbn [fst]. rewrite GH_schedule. unfold term_calls in *. cbn. rewrite E6, E5. reflexivity.
  - destruct b; cbv zeta.
    + destruct (l_fail l) as [[[d tm] nl]|]; cbn [fst]; left; reflexivity.
    + cbn [fst]. left. reflexivity.
Qed.

(* learner_linear, at task.complete: the learner held by an uncompleted task receives exactly one terminal call
   -- Succeeded / Failed / Abandoned as the response and its origin say -- and the only other terminal call made
   is the Abandoned of the background learner a successful learner hands over, when no background task is created *)
Lemma learner_gets_one_call : forall t r b s l p,
  t_resp (get_task s t) = None -> t_learner (get_task s t) = Some l -> get_pq s (sk_pk (task_scq s t)) = Some p ->
  let s' := complete_task t r b s in
  term_calls s' = learner_call l r b :: term_calls s \/
  exists bidx bdur btimeout bl, resp_success r = true /\ l_succ l = Some (bidx, bdur, btimeout, bl) /\
     term_calls s' = OGhost (GAbandoned (l_id bl)) :: learner_call l r b :: term_calls s.
Proof.
  intros t r b s l p Hr Hl Hp s'. unfold s'. rewrite complete_task_eq2, Hr. cbv zeta.
  destruct (ct_prefix_frames t b s) as [_ [_ Ep]]. pose proof (GH_ct_prefix t b s) as E4.
  set (s4 := ct_prefix t b s) in *. clearbody s4.
  assert (Eq : get_pq s4 (sk_pk (task_scq s t)) = Some p) by (unfold get_pq; rewrite Ep; exact Hp). rewrite Eq.
  pose proof (ct_learner_calls t r b (get_task s t) p (task_scq s t) s4 l Hl) as Hc. cbv zeta in Hc.
  destruct (ct_learner t r b (get_task s t) p (task_scq s t) s4) as [s5 retry]. cbn [fst] in Hc.
  rewrite GH_ct_tail. rewrite E4 in Hc. exact Hc.
Qed.

(* no terminal call without a learner to call: completed tasks and tasks without learner *)
Lemma no_learner_no_call : forall t r b s,
  t_resp (get_task s t) <> None \/ t_learner (get_task s t) = None ->
  term_calls (complete_task t r b s) = term_calls s.
Proof.
  intros t r b s H. rewrite complete_task_eq2. destruct (t_resp (get_task s t)) eqn:Er; [reflexivity|].
  destruct H as [H|Hl]; [congruence|]. cbv zeta. pose proof (GH_ct_prefix t b s) as E4.
  set (s4 := ct_prefix t b s) in *. clearbody s4. destruct (get_pq s4 _) as [p|]; [|exact E4].
  unfold ct_learner. rewrite Hl. rewrite GH_ct_tail. exact E4.
Qed.

Definition TLk (t : nat) (lr : option learner) (s : state) : Prop := t_learner (get_task s t) = lr.
Ltac t_tlk := intros; unfold TLk in *; first [ (erewrite get_task_frame; [eassumption | frame_eq])
        | (rewrite get_task_upd_task; let E := fresh "E" in destruct (Nat.eqb _ _) eqn:E; [apply Nat.eqb_eq in E; subst; cbn; assumption | assumption]) ].

(* the learner held afterwards: the successor after a failure reported by the worker, none otherwise *)
Lemma learner_after_complete : forall t r b s l p,
  (t < s_ntasks s)%nat ->
  t_resp (get_task s t) = None -> t_learner (get_task s t) = Some l -> get_pq s (sk_pk (task_scq s t)) = Some p ->
  t_learner (get_task (complete_task t r b s) t) = learner_next l r b.
Proof.
  intros t r b s l p Hlt Hr Hl Hp. rewrite complete_task_eq2, Hr. cbv zeta.
  destruct (ct_prefix_frames t b s) as [[K1 [K2 [K3 _]]] [_ Ep]].
  assert (Hlt4 : (t < s_ntasks (ct_prefix t b s))%nat).
  { assert (Hk : keeps_counts (s_ntasks s) (s_nops s) (ct_prefix t b s)).
    { assert (H0 : keeps_counts (s_ntasks s) (s_nops s) s) by (split; reflexivity). unfold ct_prefix. fr_go (keeps_counts (s_ntasks s) (s_nops s)) t_counts. }
    destruct Hk as [Hk _]. rewrite Hk. exact Hlt. }
  set (s4 := ct_prefix t b s) in *. clearbody s4.
  assert (Eq : get_pq s4 (sk_pk (task_scq s t)) = Some p) by (unfold get_pq; rewrite Ep; exact Hp). rewrite Eq.
  (* the learner block *)
  assert (H5 : let sr := ct_learner t r b (get_task s t) p (task_scq s t) s4 in
               t_learner (get_task (fst sr) t) = learner_next l r b /\ t_resp (get_task (fst sr) t) = None).
  { unfold ct_learner, learner_next. rewrite Hl. rewrite Hr in K3.
    assert (Hset : forall (s0 : state) lr, t_resp (get_task s0 t) = None ->
              t_learner (get_task (upd_task t (fun x => x <| t_learner := lr |>) s0) t) = lr /\
              t_resp (get_task (upd_task t (fun x => x <| t_learner := lr |>) s0) t) = None).
    { intros s0 lr Hr0. rewrite get_task_upd_task, Nat.eqb_refl. cbn. auto. }
    destruct (resp_success r).
    - cbv zeta. destruct (Hset (emit (OGhost (GSucceeded (l_id l))) s4) None K3) as [A B].
      assert (Hlt5 : (t < s_ntasks (upd_task t (fun x => x <| t_learner := None |>) (emit (OGhost (GSucceeded (l_id l))) s4)))%nat) by exact Hlt4.
      set (s5 := upd_task t _ (emit _ s4)) in *. clearbody s5.
      destruct (l_succ l) as [[[[bidx bdur] btimeout] bl]|]; [|cbn [fst]; auto].
      destruct (Nat.eqb (p_maxbg p) 0); [cbn [fst]; rewrite get_task_emit; auto|].
      set (s6 := get_or_create_invocation _ _ s5).
      assert (E6 : get_task s6 t = get_task s5 t) by (apply get_task_frame; apply goc_frames).
      assert (N6 : s_ntasks s6 = s_ntasks s5) by apply get_or_create_invocation_tasks. clearbody s6.
      destruct (Nat.leb _ _); [cbn [fst]; rewrite get_task_emit, E6; auto|].
      assert (Hlt6 : (t < s_ntasks s6)%nat) by lia.
      match goal with |- context [new_operation ?bt ?prio ?bi true ?sN] =>
        pose proof (bg_block_reads t s6 (mkTask [] (t_instance (get_task s t)) (t_digest (get_task s t)) (Some true) btimeout (t_qts (get_task s t)) (t_suffix (get_task s t)) None 0 bdur (Some bl) None 0) prio bi Hlt6) as [_ [T2 [T3 _]]]
      end.
      cbv zeta in T2, T3. unfold new_operation in *. cbn [fst snd] in *. rewrite T2, T3, E6. auto.
    - destruct b; cbv zeta.
      + destruct (l_fail l) as [[[d tm] nl]|]; cbn [fst]; apply Hset; exact K3.
      + cbn [fst]. apply Hset. exact K3. }
  cbv zeta in H5. destruct (ct_learner t r b (get_task s t) p (task_scq s t) s4) as [s5 retry]. cbn [fst] in H5. destruct H5 as [A B].
  (* the tail keeps the learner *)
  assert (Ht : forall x0 : task, TKeep t x0 s5 -> t_learner (get_task (ct_tail t r (get_task s t) p (task_scq s t) s5 retry) t) = t_learner x0).
  { intros x0 Hx. unfold ct_tail. destruct retry as [[d tm]|]; cbv zeta.
    - set (old := t_ops (get_task s5 t)).
      destruct (goc_fold_frames (mkSK (sk_pk (task_scq s t)) (largest_sc p)) old s5) as [G1 _]. set (s6 := fold_left _ old s5) in *.
      match goal with |- context [schedule t (fold_left ?g old ?e)] => set (s7 := e); fold (retarget_fold (mkSK (sk_pk (task_scq s t)) (largest_sc p)) old s7) end.
      assert (E8 : s_tasks (retarget_fold (mkSK (sk_pk (task_scq s t)) (largest_sc p)) old s7) = s_tasks s7).
      { generalize old. intro l0. generalize s7. induction l0 as [|[i o] l0 IH]; intro sx; cbn [retarget_fold fold_left]; [reflexivity|].
        fold (retarget_fold (mkSK (sk_pk (task_scq s t)) (largest_sc p)) l0 (upd_op o (fun y => y <| o_inv := mkI (mkSK (sk_pk (task_scq s t)) (largest_sc p)) (i_path i) |>) sx)).
        rewrite IH. rewrite upd_op_eq. reflexivity. }
      set (s8 := retarget_fold _ old s7) in *.
      destruct (schedule_frames t (get_task s8 t) t s8) as [[_ [S2 _]] _]; [unfold TKeep; auto|].
      unfold report_non_final_stage_change. rewrite get_task_upd_task, Nat.eqb_refl. cbn. rewrite S2.
      rewrite (get_task_frame _ _ _ E8). unfold s7. rewrite get_task_upd_task, Nat.eqb_refl. cbn.
      rewrite (get_task_frame _ _ _ G1). apply Hx.
    - assert (Hk : TKeep t x0 s5) by exact Hx. clear Hx.
      destruct Hk as [_ [Hk _]].
      assert (H0 : TLk t (t_learner x0) s5) by exact Hk.
      match goal with |- t_learner (get_task ?e t) = _ => assert (Hl5 : TLk t (t_learner x0) e); [|exact Hl5] end.
      fr_go (TLk t (t_learner x0)) t_tlk. }
  rewrite (Ht (get_task s5 t)); [exact A|unfold TKeep; auto].
Qed.
