(* C01, completeness layer: the platform queue structure Sp over all runs. *)
From Coq Require Import Lia.
From VF Require Export Sched.ProofsFull1.
Open Scope Z_scope.

Ltac sp_go0 := inv_go fail t_Sp.

Lemma Sp_complete_task : forall t r b s, Sp s -> Sp (complete_task t r b s).
Proof. intros. unfold complete_task, new_operation. sp_go0. Qed.
Lemma Sp_cancel_all_queued : forall i r s, Sp s -> Sp (cancel_all_queued i r s).
Proof. intros i r s H. rewrite cancel_all_queued_eq. apply cancel_go_closed; [|exact H]. intros. apply Sp_complete_task. assumption. Qed.

Ltac sp_leaf :=
  idtac;
  lazymatch goal with
  | |- Sp (complete_task _ _ _ _) => apply Sp_complete_task
  | |- Sp (cancel_all_queued _ _ _) => apply Sp_cancel_all_queued
  end.
Ltac sp_go := inv_go sp_leaf t_Sp.

Lemma Sp_operation_remove : forall o s, Sp s -> Sp (operation_remove o s).
Proof.
  intros o s H. unfold operation_remove. sp_go.
  all: match goal with |- Sp (fst (fold_left ?g ?l ?a)) => apply (fold_left_pres (fun acc => Sp (fst acc)) g l) end;
    [ intros [s1 go] j H1; cbn [fst] in *; destruct go; [sp_go | assumption] | cbn [fst]; sp_go ].
Qed.

Definition SSp (s : state) : Prop := SW s /\ Sp s.

Lemma SSp_scq_remove : forall k s, q_workers (get_scq s k) = [] -> SSp s -> SSp (scq_remove k s).
Proof.
  intros k s Hnw [HSW H]. split; [apply SW_scq_remove; assumption|]. unfold scq_remove. cbv zeta.
  set (s1 := cancel_all_queued (mkI k []) (mkResp cUNAVAILABLE 0 0) s).
  assert (H1 : SW s1 /\ Sp s1) by (split; [apply SW_cancel_all_queued; exact HSW|apply Sp_cancel_all_queued; exact H]).
  clearbody s1. destruct H1 as [[[Hnd _] _] H1]. apply Sp_scq_remove_tail; assumption.
Qed.

Lemma SSp_run_entry : forall e s, In e (cleanup_entries s) -> SSp s -> SSp (run_entry e s).
Proof.
  intros [z ce] s Hin [HSW H]. pose proof (SW_run_entry (z, ce) s Hin HSW) as HSW'. unfold run_entry in *. cbn [fst snd] in *. destruct ce as [o|w|k].
  - split; [exact HSW'|]. apply Sp_operation_remove. sp_go.
  - split; [exact HSW'|]. unfold remove_stale_worker, mark_terminating. sp_go.
  - pose proof (cleanup_entry_scq s z k (SW_St _ HSW) Hin) as Hc.
    pose proof (SW_WP _ HSW) as [_ [_ [_ [_ [_ [_ [_ E7]]]]]]].
    apply SSp_scq_remove; [|split; [sw_go2|sp_go]].
    assert (Hn : NWf k s) by (apply E7; congruence). change (NWf k (upd_scq k (fun q => q <| q_cleanup := None |>) s)). t_nw.
Qed.

Lemma SSp_enter : forall t s, SSp s -> SSp (enter t s).
Proof.
  intros t s H. unfold enter. destruct (s_now s <? t); [|exact H]. cbv zeta.
  apply cleanup_run_closed; [intros s1 w [A B]; split; [t_SW|sp_go] | intros; apply SSp_run_entry; assumption | destruct H as [A B]; split; [sw_go2|sp_go]].
Qed.

Lemma Sp_enter : forall t s, SW s -> Sp s -> Sp (enter t s).
Proof. intros t s A B. exact (proj2 (SSp_enter t s (conj A B))). Qed.

Lemma Sp_sync_start : forall c a s, Sp s -> Sp (sync_start c a s).
Proof.
  intros c a s H. unfold sync_start. cbv zeta. set (w := y_worker a). set (k := w_sk w).
  match goal with |- Sp (match ?R with _ => _ end) => destruct R as [s1|code1] eqn:ER end; [|unfold ret; sp_go].
  assert (H1 : Sp s1).
  { destruct (scq_exists s k) eqn:Ee.
    - injection ER as <-. sp_go.
    - destruct (get_pq s (sk_pk k)) as [p|] eqn:Ep.
      + sum_cases ER. injection ER as <-. apply Sp_add_scq; assumption.
      + injection ER as <-. apply Sp_add_scq; [exact Ee|apply Sp_add_pq; assumption]. }
  clear ER H. unfold ret. sp_go.
Qed.

Lemma Sp_register_fold : forall k scs s,
  sorted_strict scs = true -> Sp s -> (forall sc, In sc scs -> scq_exists s (mkSK k sc) = false) ->
  Sp (fold_left (fun s sc => add_scq (mkSK k sc) false s) scs s).
Proof.
  intros k scs. induction scs as [|sc scs IH]; intros s Hs H Hn; cbn [fold_left]; [exact H|].
  destruct (sorted_strict_cons _ _ Hs) as [Hs' Hlt]. apply IH; [exact Hs'|apply Sp_add_scq; [apply Hn; left; reflexivity|exact H]|].
  intros sc' Hin. rewrite scq_exists_add_scq. rewrite (Hn sc' (or_intror Hin)). cbn.
  destruct (skey_eqb (mkSK k sc') (mkSK k sc)) eqn:E; [|reflexivity]. apply skey_eqb_eq in E. inversion E; subst.
  specialize (Hlt sc Hin). lia.
Qed.

Ltac sp_leaf2 := first [ sp_leaf | lazymatch goal with |- Sp (sync_start _ _ _) => apply Sp_sync_start end ].
Ltac sp_go2 := inv_go sp_leaf2 t_Sp.

Lemma Sp_step_core : forall e s, SW s -> Sp s -> Sp (step_core e s).
Proof.
  intros e s HSW H.
  assert (He : forall t, Sp (enter t s)) by (intro t; apply Sp_enter; assumption).
  destruct e; unfold step_core;
    try (specialize (He t); set (s1 := enter t s) in *; clearbody s1; unfold exec_start, new_operation, kill_lookup, ret, wake_up, mark_terminating; sp_go2; fail).
  - (* ERegister *)
    destruct (_ || _) eqn:Ev; [unfold ret; sp_go2|]. cbv zeta.
    pose proof (SW_enter t s HSW) as HSWe. specialize (He t). set (s1 := enter t s) in *. clearbody s1.
    destruct (get_pq s1 k) as [p|] eqn:Ep; [unfold ret; sp_go2|].
    unfold ret.
    match goal with |- Sp (set_call _ _ (emit _ ?S2)) => assert (H2 : Sp S2); [|sp_go2] end.
    apply orb_false_iff in Ev. destruct Ev as [Ev _]. apply orb_false_iff in Ev. destruct Ev as [_ Ev].
    apply negb_false_iff in Ev.
    apply Sp_register_fold; [exact Ev|apply Sp_add_pq; assumption|].
    intros sc Hsc. rewrite (scq_exists_frame s1) by reflexivity.
    destruct (scq_exists s1 (mkSK k sc)) eqn:Ee; [|reflexivity]. exfalso.
    destruct HSWe as [[_ [_ [_ [_ H4]]]] _]. destruct (H4 _ Ee) as [p [Hp [Hk _]]]. cbn in Hk.
    unfold get_pq in Ep. apply (find_none _ _ Ep) in Hp. rewrite (proj2 (pkey_eqb_eq _ _) Hk) in Hp. discriminate.
  - cbv zeta. destruct (at_gate s (get_call s c)); [exact H|]. destruct (get_call s c); unfold ret; sp_go2.
Qed.

Lemma Sp_step : forall s eh, SW s -> Sp s -> Sp (fst (step s eh)).
Proof.
  intros s eh HSW H. unfold step. cbn [fst].
  set (s0 := s <| s_hints := snd eh |> <| s_out := [] |>).
  assert (HSW0 : SW s0) by (eapply SW_eq; [ | | | |exact HSW]; reflexivity).
  assert (H0 : Sp s0) by (eapply Sp_frame_scqs; [ | |exact H]; reflexivity).
  assert (H1 : Sp (auto_returns (step_core (fst eh) s0))).
  { apply (fr_auto_returns Sp); [intros; unfold ret; sp_go2|]. apply Sp_step_core; assumption. }
  eapply Sp_frame_scqs; [ | |exact H1]; reflexivity.
Qed.

Lemma Sp_init : forall cfg t0, Sp (init cfg t0).
Proof. intros. unfold Sp, init. cbn. split; [constructor|]. split; [intros p []|intros p c []]. Qed.

Lemma Sp_run : forall cfg t0 evs, Sp (fst (run (init cfg t0) evs)).
Proof.
  intros cfg t0 evs.
  assert (H : SW (fst (run (init cfg t0) evs)) /\ Sp (fst (run (init cfg t0) evs))).
  { apply (run_fst_snoc evs (init cfg t0) (fun s => SW s /\ Sp s)); [|split; [apply SW_init|apply Sp_init]].
    intros s eh [A B]. split; [apply SW_step; exact A|apply Sp_step; assumption]. }
  exact (proj2 H).
Qed.
