(* C01, worker protocol layer: Synchronize calls and the workers they name,
   the lists of idle synchronizing workers, armed time-outs. *)
From Coq Require Import Lia.
From VF Require Export Sched.ProofsStruct Sched.ProofsStreams Sched.ProofsWaiters.
Open Scope Z_scope.

Definition sync_of (p : pc) : option wref :=
  match p with PSyncDrained w _ | PSyncQueued w | PSyncCancelled w _ => Some w | _ => None end.
Definition drained_of (p : pc) : option wref :=
  match p with PSyncDrained w _ | PSyncCancelled w false => Some w | _ => None end.
Definition osync (p : option pc) : option wref := match p with Some x => sync_of x | None => None end.

Definition WP (s : state) : Prop :=
  (forall c p w, aget Nat.eqb c (s_calls s) = Some p -> sync_of p = Some w ->
     worker_exists s w = true /\ k_cleanup (get_worker s w) = None) /\
  (forall c c' p p' w, aget Nat.eqb c (s_calls s) = Some p -> aget Nat.eqb c' (s_calls s) = Some p' ->
     sync_of p = Some w -> sync_of p' = Some w -> c = c') /\
  (forall w, k_cleanup (get_worker s w) <> None -> k_wait (get_worker s w) = false) /\
  (forall w, k_wait (get_worker s w) = true -> k_last (get_worker s w) <> None) /\
  (forall c p w, aget Nat.eqb c (s_calls s) = Some p -> drained_of p = Some w -> k_wait (get_worker s w) = false) /\
  (forall i w, In w (v_isync (get_inv s i)) ->
     worker_exists s w = true /\ k_wait (get_worker s w) = true /\ k_last (get_worker s w) = Some (i_path i) /\ w_sk w = i_sk i) /\
  (forall i, NoDup (v_isync (get_inv s i))) /\
  (forall k, q_cleanup (get_scq s k) <> None -> q_workers (get_scq s k) = []).

Ltac wp_split := split; [|split; [|split; [|split; [|split; [|split; [|split]]]]]].

Lemma WP_frame : forall s s', s_calls s' = s_calls s -> s_scqs s' = s_scqs s -> s_invs s' = s_invs s -> WP s -> WP s'.
Proof.
  unfold WP, worker_exists, get_worker, get_scq, get_inv. intros s s' -> -> ->. auto.
Qed.

Lemma calls_upd_worker : forall w f s, s_calls (upd_worker w f s) = s_calls s.
Proof. intros. rewrite upd_worker_eq. reflexivity. Qed.
Lemma invs_upd_worker : forall w f s, s_invs (upd_worker w f s) = s_invs s.
Proof. intros. rewrite upd_worker_eq. reflexivity. Qed.
Lemma calls_upd_scq : forall k f s, s_calls (upd_scq k f s) = s_calls s.
Proof. intros. rewrite upd_scq_eq. reflexivity. Qed.
Lemma invs_upd_scq : forall k f s, s_invs (upd_scq k f s) = s_invs s.
Proof. intros. rewrite upd_scq_eq. reflexivity. Qed.
Lemma calls_upd_inv : forall i f s, s_calls (upd_inv i f s) = s_calls s.
Proof. intros. rewrite upd_inv_eq. reflexivity. Qed.
Lemma scqs_upd_inv : forall i f s, s_scqs (upd_inv i f s) = s_scqs s.
Proof. intros. rewrite upd_inv_eq. reflexivity. Qed.

(* worker updates that leave the waiting flag and the last invocation alone and do not arm the time-out *)
Lemma WP_upd_worker : forall s w f,
  (forall k, (k_cleanup (f k) = k_cleanup k \/ k_cleanup (f k) = None) /\ k_wait (f k) = k_wait k /\ k_last (f k) = k_last k) ->
  WP s -> WP (upd_worker w f s).
Proof.
  intros s w f Hf [A2 [A3 [B1 [B5 [B3 [X8 [X8n E7]]]]]]].
  set (s' := upd_worker w f s).
  assert (Hfield : forall w', (k_cleanup (get_worker s' w') = k_cleanup (get_worker s w') \/ k_cleanup (get_worker s' w') = None)
                    /\ k_wait (get_worker s' w') = k_wait (get_worker s w') /\ k_last (get_worker s' w') = k_last (get_worker s w')).
  { intro w'. unfold s'. rewrite get_worker_upd_worker. destruct (wref_eqb w' w && worker_exists s w) eqn:E; [|auto].
    apply andb_true_iff in E. destruct E as [E _]. apply wref_eqb_eq in E. subst. apply Hf. }
  assert (Hex : forall w', worker_exists s' w' = worker_exists s w') by (intro; apply worker_exists_upd_worker).
  assert (Hcalls : s_calls s' = s_calls s) by apply calls_upd_worker.
  assert (Hinv : forall i, get_inv s' i = get_inv s i) by (intro; apply get_inv_frame; apply invs_upd_worker).
  unfold WP. rewrite Hcalls. wp_split.
  - intros c p w' Hc Hs. destruct (A2 _ _ _ Hc Hs) as [E1 E2]. rewrite Hex. split; [exact E1|].
    destruct (Hfield w') as [[Hk|Hk] _]; [rewrite Hk; exact E2|exact Hk].
  - exact A3.
  - intros w' Hc. destruct (Hfield w') as [[Hk|Hk] [Hw _]]; [|congruence]. rewrite Hw. apply B1. rewrite <- Hk. exact Hc.
  - intros w' Hw. destruct (Hfield w') as [_ [Hw' Hl]]. rewrite Hl. apply B5. rewrite <- Hw'. exact Hw.
  - intros c p w' Hc Hd. destruct (Hfield w') as [_ [Hw' _]]. rewrite Hw'. eapply B3; eassumption.
  - intros i w' Hin. rewrite Hinv in Hin. destruct (X8 _ _ Hin) as [E1 [E2 [E3 E4]]].
    destruct (Hfield w') as [_ [Hw' Hl]]. rewrite Hex, Hw', Hl. auto.
  - intro i. rewrite Hinv. apply X8n.
  - intros k Hc. destruct (get_scq_upd_worker s w f k) as [_ [Ec [_ [_ Ek]]]]. fold s' in Ec, Ek.
    rewrite Ec in Hc. specialize (E7 k Hc). rewrite E7 in Ek. destruct (q_workers (get_scq s' k)); [reflexivity|discriminate].
Qed.

(* invocation updates that leave the idle list alone *)
Lemma WP_upd_inv : forall s i f, (forall v, v_isync (f v) = v_isync v) -> WP s -> WP (upd_inv i f s).
Proof.
  intros s i f Hf [A2 [A3 [B1 [B5 [B3 [X8 [X8n E7]]]]]]].
  set (s' := upd_inv i f s).
  assert (Hw : forall w, get_worker s' w = get_worker s w) by (intro; apply get_worker_frame'; apply scqs_upd_inv).
  assert (Hex : forall w, worker_exists s' w = worker_exists s w) by (intro; apply worker_exists_frame; apply scqs_upd_inv).
  assert (Hq : forall k, get_scq s' k = get_scq s k) by (intro; apply get_scq_frame; apply scqs_upd_inv).
  assert (Hcalls : s_calls s' = s_calls s) by apply calls_upd_inv.
  assert (Hi : forall i', v_isync (get_inv s' i') = v_isync (get_inv s i')).
  { intro i'. unfold s'. rewrite get_inv_upd_inv. destruct (iref_eqb i' i && inv_exists s i) eqn:E; [|reflexivity].
    apply andb_true_iff in E. destruct E as [E _]. apply iref_eqb_eq in E. subst. apply Hf. }
  unfold WP. rewrite Hcalls. wp_split.
  - intros c p w Hc Hs. rewrite Hex, Hw. eapply A2; eassumption.
  - exact A3.
  - intros w. rewrite Hw. apply B1.
  - intros w. rewrite Hw. apply B5.
  - intros c p w Hc Hd. rewrite Hw. eapply B3; eassumption.
  - intros i' w Hin. rewrite Hi in Hin. rewrite Hex, Hw. apply X8. exact Hin.
  - intro i'. rewrite Hi. apply X8n.
  - intro k. rewrite Hq. apply E7.
Qed.

(* ---- swap-remove -------------------------------------------------------------------------------- *)
From Coq Require Import Permutation.

Lemma index_of_split : forall w l n m, index_of w l n = Some m ->
  exists l1 l2, l = l1 ++ w :: l2 /\ m = (n + List.length l1)%nat /\ ~ In w l1.
Proof.
  intros w. induction l as [|x l IH]; intros n m H; [discriminate|]. cbn in H.
  destruct (wref_eqb x w) eqn:E.
  - apply wref_eqb_eq in E. subst x. inversion H; subst. exists [], l. cbn. split; [reflexivity|]. split; [lia|tauto].
  - destruct (IH _ _ H) as [l1 [l2 [-> [-> Hn]]]]. exists (x :: l1), l2. cbn. split; [reflexivity|]. split; [lia|].
    intros [->|Hin]; [rewrite wref_eqb_refl in E; discriminate|contradiction].
Qed.

Lemma index_of_none : forall w l n, index_of w l n = None -> ~ In w l.
Proof.
  intros w. induction l as [|x l IH]; intros n H; [tauto|]. cbn in H.
  destruct (wref_eqb x w) eqn:E; [discriminate|]. intros [->|Hin]; [rewrite wref_eqb_refl in E; discriminate|eapply IH; eassumption].
Qed.

Lemma replace_nth_app : forall {A} (l1 : list A) x y l2, replace_nth (List.length l1) y (l1 ++ x :: l2) = l1 ++ y :: l2.
Proof. intros A. induction l1 as [|a l1 IH]; intros; cbn; [reflexivity|]. rewrite IH. reflexivity. Qed.

Lemma swap_remove_perm : forall w l, In w l -> Permutation l (w :: swap_remove w l).
Proof.
  intros w l Hin. unfold swap_remove. destruct (index_of w l 0) as [n|] eqn:E; [|exfalso; exact (index_of_none _ _ _ E Hin)].
  destruct (index_of_split _ _ _ _ E) as [l1 [l2 [-> [-> Hn]]]]. cbn [Nat.add]. rewrite replace_nth_app.
  destruct l2 as [|y l2] using rev_ind.
  - rewrite last_last. rewrite removelast_last. apply Permutation_sym. apply Permutation_cons_append.
  - clear IHl2. replace (l1 ++ w :: l2 ++ [y]) with ((l1 ++ w :: l2) ++ [y]) by (rewrite <- app_assoc; reflexivity).
    rewrite last_last. replace (l1 ++ y :: l2 ++ [y]) with ((l1 ++ y :: l2) ++ [y]) by (rewrite <- app_assoc; reflexivity).
    rewrite removelast_last. rewrite <- app_assoc. cbn.
    (* l1 ++ w :: l2 ++ [y]  ~  w :: l1 ++ y :: l2 *)
    apply Permutation_sym. apply Permutation_trans with (w :: l1 ++ l2 ++ [y]).
    + constructor. apply Permutation_app_head. apply Permutation_cons_append.
    + apply Permutation_middle.
Qed.

Lemma swap_remove_notin : forall w l, ~ In w l -> swap_remove w l = l.
Proof.
  intros w l Hn. unfold swap_remove. destruct (index_of w l 0) as [n|] eqn:E; [|reflexivity].
  destruct (index_of_split _ _ _ _ E) as [l1 [l2 [-> _]]]. exfalso. apply Hn. apply in_or_app. right. left. reflexivity.
Qed.

Lemma wref_eq_dec : forall a b : wref, {a = b} + {a <> b}.
Proof.
  intros a b. destruct (wref_eqb a b) eqn:E; [left; apply wref_eqb_eq; exact E|].
  right. intros ->. rewrite wref_eqb_refl in E. discriminate.
Qed.

Lemma swap_remove_in : forall w l x, In x (swap_remove w l) -> In x l.
Proof.
  intros w l x H. destruct (in_dec wref_eq_dec w l) as [Hin|Hn].
  - apply (Permutation_in _ (Permutation_sym (swap_remove_perm w l Hin))). right. exact H.
  - rewrite swap_remove_notin in H by exact Hn. exact H.
Qed.

Lemma swap_remove_nodup : forall w l, NoDup l -> NoDup (swap_remove w l) /\ ~ In w (swap_remove w l).
Proof.
  intros w l Hn. destruct (in_dec wref_eq_dec w l) as [Hin|Hni].
  - pose proof (Permutation_NoDup (swap_remove_perm w l Hin) Hn) as H. inversion H; subst. auto.
  - rewrite swap_remove_notin by exact Hni. auto.
Qed.

(* ---- more primitive updates ------------------------------------------------------------------------ *)
Lemma WP_upd_scq_keep : forall s k f,
  (forall q, q_workers (f q) = q_workers q /\ (q_cleanup (f q) = q_cleanup q \/ q_cleanup (f q) = None)) ->
  WP s -> WP (upd_scq k f s).
Proof.
  intros s k f Hf [A2 [A3 [B1 [B5 [B3 [X8 [X8n E7]]]]]]].
  set (s' := upd_scq k f s).
  assert (Hw : forall w, get_worker s' w = get_worker s w) by (intro; apply get_worker_upd_scq_keep; intro; apply Hf).
  assert (Hex : forall w, worker_exists s' w = worker_exists s w) by (intro; apply worker_exists_upd_scq_keep; intro; apply Hf).
  assert (Hcalls : s_calls s' = s_calls s) by apply calls_upd_scq.
  assert (Hinv : forall i, get_inv s' i = get_inv s i) by (intro; apply get_inv_frame; apply invs_upd_scq).
  unfold WP. rewrite Hcalls. wp_split.
  - intros c p w Hc Hs. rewrite Hex, Hw. eapply A2; eassumption.
  - exact A3.
  - intro w. rewrite Hw. apply B1.
  - intro w. rewrite Hw. apply B5.
  - intros c p w Hc Hd. rewrite Hw. eapply B3; eassumption.
  - intros i w Hin. rewrite Hinv in Hin. rewrite Hex, Hw. apply X8. exact Hin.
  - intro i. rewrite Hinv. apply X8n.
  - intros k' Hc. unfold s' in *. rewrite get_scq_upd_scq in *.
    destruct (skey_eqb k' k && scq_exists s k) eqn:E; [|apply E7; exact Hc].
    apply andb_true_iff in E. destruct E as [E _]. apply skey_eqb_eq in E. subst k'.
    destruct (Hf (get_scq s k)) as [Hq [Hcl|Hcl]]; rewrite Hq; [apply E7; rewrite <- Hcl; exact Hc|congruence].
Qed.

Lemma WP_arm_scq : forall s k z, q_workers (get_scq s k) = [] -> WP s ->
  WP (upd_scq k (fun q => q <| q_cleanup := Some z |>) s).
Proof.
  intros s k z Hnone [A2 [A3 [B1 [B5 [B3 [X8 [X8n E7]]]]]]].
  set (s' := upd_scq k (fun q => q <| q_cleanup := Some z |>) s).
  assert (Hw : forall w, get_worker s' w = get_worker s w) by (intro; apply get_worker_upd_scq_keep; intro; reflexivity).
  assert (Hex : forall w, worker_exists s' w = worker_exists s w) by (intro; apply worker_exists_upd_scq_keep; intro; reflexivity).
  assert (Hcalls : s_calls s' = s_calls s) by apply calls_upd_scq.
  assert (Hinv : forall i, get_inv s' i = get_inv s i) by (intro; apply get_inv_frame; apply invs_upd_scq).
  unfold WP. rewrite Hcalls. wp_split.
  - intros c p w Hc Hs. rewrite Hex, Hw. eapply A2; eassumption.
  - exact A3.
  - intro w. rewrite Hw. apply B1.
  - intro w. rewrite Hw. apply B5.
  - intros c p w Hc Hd. rewrite Hw. eapply B3; eassumption.
  - intros i w Hin. rewrite Hinv in Hin. rewrite Hex, Hw. apply X8. exact Hin.
  - intro i. rewrite Hinv. apply X8n.
  - intros k' Hc. unfold s' in *. rewrite get_scq_upd_scq in *.
    destruct (skey_eqb k' k && scq_exists s k) eqn:E; [|apply E7; exact Hc].
    apply andb_true_iff in E. destruct E as [E _]. apply skey_eqb_eq in E. subst k'. cbn. exact Hnone.
Qed.

Lemma isync_invs_new : forall s i z i',
  v_isync (get_inv (s <| s_invs ::= fun l => l ++ [(i, new_inv z)] |>) i') = v_isync (get_inv s i').
Proof.
  intros. unfold get_inv. cbn. rewrite (aget_app iref_eqb). destruct (aget iref_eqb i' (s_invs s)); [reflexivity|].
  cbn. destruct (iref_eqb i' i); reflexivity.
Qed.

Lemma WP_invs_new : forall s i z, WP s -> WP (s <| s_invs ::= fun l => l ++ [(i, new_inv z)] |>).
Proof.
  intros s i z [A2 [A3 [B1 [B5 [B3 [X8 [X8n E7]]]]]]]. unfold WP. wp_split; auto.
  - intros i' w Hin. rewrite isync_invs_new in Hin. apply X8 in Hin. exact Hin.
  - intro i'. rewrite isync_invs_new. apply X8n.
Qed.

Lemma get_inv_adel : forall s i i', NoDup (map fst (s_invs s)) ->
  get_inv (s <| s_invs := adel iref_eqb i (s_invs s) |>) i' = if iref_eqb i' i then dummy_inv else get_inv s i'.
Proof.
  intros s i i' Hn. unfold get_inv. cbn. destruct (iref_eqb i' i) eqn:E.
  - apply iref_eqb_eq in E. subst. rewrite (aget_adel_same iref_eqb iref_eqb_eq) by exact Hn. reflexivity.
  - rewrite (aget_adel_other iref_eqb iref_eqb_eq); [reflexivity|]. intros ->. rewrite iref_eqb_refl in E. discriminate.
Qed.

Lemma WP_invs_del : forall s i, NoDup (map fst (s_invs s)) -> WP s -> WP (s <| s_invs := adel iref_eqb i (s_invs s) |>).
Proof.
  intros s i Hn [A2 [A3 [B1 [B5 [B3 [X8 [X8n E7]]]]]]]. unfold WP. wp_split; auto.
  - intros i' w Hin. rewrite get_inv_adel in Hin by exact Hn. destruct (iref_eqb i' i); [destruct Hin|]. apply X8 in Hin. exact Hin.
  - intro i'. rewrite get_inv_adel by exact Hn. destruct (iref_eqb i' i); [constructor|apply X8n].
Qed.

(* a general worker update: the new record of w must fit the calls naming w and the idle lists holding w *)
Lemma WP_upd_worker_gen : forall s w f,
  let v := f (get_worker s w) in
  (k_cleanup v <> None -> k_wait v = false) ->
  ((exists c p, aget Nat.eqb c (s_calls s) = Some p /\ sync_of p = Some w) -> k_cleanup v = None) ->
  (k_wait v = true -> k_last v <> None) ->
  ((exists c p, aget Nat.eqb c (s_calls s) = Some p /\ drained_of p = Some w) -> k_wait v = false) ->
  (forall i, In w (v_isync (get_inv s i)) -> k_wait v = true /\ k_last v = Some (i_path i)) ->
  WP s -> WP (upd_worker w f s).
Proof.
  intros s w f v H1 H2 H3 H4 H5 [A2 [A3 [B1 [B5 [B3 [X8 [X8n E7]]]]]]].
  set (s' := upd_worker w f s).
  assert (Hgw : forall w', get_worker s' w' = if wref_eqb w' w && worker_exists s w then v else get_worker s w').
  { intro w'. unfold s'. apply get_worker_upd_worker. }
  assert (Hex : forall w', worker_exists s' w' = worker_exists s w') by (intro; apply worker_exists_upd_worker).
  assert (Hcalls : s_calls s' = s_calls s) by apply calls_upd_worker.
  assert (Hinv : forall i, get_inv s' i = get_inv s i) by (intro; apply get_inv_frame; apply invs_upd_worker).
  unfold WP. rewrite Hcalls. wp_split.
  - intros c p w' Hc Hs. destruct (A2 _ _ _ Hc Hs) as [E1 E2]. rewrite Hex, Hgw. split; [exact E1|].
    destruct (wref_eqb w' w && worker_exists s w) eqn:E; [|exact E2].
    apply andb_true_iff in E. destruct E as [E _]. apply wref_eqb_eq in E. subst w'. apply H2. eauto.
  - exact A3.
  - intros w'. rewrite Hgw. destruct (wref_eqb w' w && worker_exists s w); [exact H1|apply B1].
  - intros w'. rewrite Hgw. destruct (wref_eqb w' w && worker_exists s w); [exact H3|apply B5].
  - intros c p w' Hc Hd. rewrite Hgw. destruct (wref_eqb w' w && worker_exists s w) eqn:E; [|eapply B3; eassumption].
    apply andb_true_iff in E. destruct E as [E _]. apply wref_eqb_eq in E. subst w'. apply H4. eauto.
  - intros i w' Hin. rewrite Hinv in Hin. destruct (X8 _ _ Hin) as [E1 [E2 [E3 E4]]]. rewrite Hex, Hgw.
    destruct (wref_eqb w' w && worker_exists s w) eqn:E; [|auto].
    apply andb_true_iff in E. destruct E as [E _]. apply wref_eqb_eq in E. subst w'. destruct (H5 _ Hin). auto.
  - intro i. rewrite Hinv. apply X8n.
  - intros k Hc. destruct (get_scq_upd_worker s w f k) as [_ [Ec [_ [_ Ek]]]]. fold s' in Ec, Ek.
    rewrite Ec in Hc. specialize (E7 k Hc). rewrite E7 in Ek. destruct (q_workers (get_scq s' k)); [reflexivity|discriminate].
Qed.

Lemma get_scq_app : forall s k b k' (g : list (iref * inv) -> list (iref * inv)),
  get_scq (s <| s_scqs ::= fun l => l ++ [(k, mkScq b None [] 0 [])] |> <| s_invs ::= g |>) k'
  = if scq_exists s k' then get_scq s k' else if skey_eqb k' k then mkScq b None [] 0 [] else dummy_scq.
Proof.
  intros. unfold get_scq, scq_exists. cbn. rewrite (aget_app skey_eqb). destruct (aget skey_eqb k' (s_scqs s)); [reflexivity|].
  cbn. destruct (skey_eqb k' k); reflexivity.
Qed.

Lemma WP_newscq : forall s k b,
  WP s -> WP (s <| s_scqs ::= fun l => l ++ [(k, mkScq b None [] 0 [])] |>
                <| s_invs ::= fun l => l ++ [(mkI k [], new_inv 0)] |>).
Proof.
  intros s k b [A2 [A3 [B1 [B5 [B3 [X8 [X8n E7]]]]]]].
  set (s' := s <| s_scqs ::= _ |> <| s_invs ::= _ |>).
  assert (Hq : forall k', q_workers (get_scq s' k') = q_workers (get_scq s k') /\
                         (q_cleanup (get_scq s' k') = q_cleanup (get_scq s k') \/ q_cleanup (get_scq s' k') = None)).
  { intro k'. unfold s'. rewrite get_scq_app. unfold scq_exists, get_scq.
    destruct (aget skey_eqb k' (s_scqs s)); [auto|]. destruct (skey_eqb k' k); cbn; auto. }
  assert (Hw : forall w, get_worker s' w = get_worker s w) by (intro w; unfold get_worker; destruct (Hq (w_sk w)) as [E _]; rewrite E; reflexivity).
  assert (Hex : forall w, worker_exists s' w = worker_exists s w) by (intro w; unfold worker_exists; destruct (Hq (w_sk w)) as [E _]; rewrite E; reflexivity).
  assert (Hi : forall i, v_isync (get_inv s' i) = v_isync (get_inv s i)).
  { intro i. unfold s', get_inv. cbn. rewrite (aget_app iref_eqb). destruct (aget iref_eqb i (s_invs s)); [reflexivity|].
    cbn. destruct (iref_eqb i (mkI k [])); reflexivity. }
  unfold WP. change (s_calls s') with (s_calls s). wp_split.
  - intros c p w Hc Hs. rewrite Hex, Hw. eapply A2; eassumption.
  - exact A3.
  - intro w. rewrite Hw. apply B1.
  - intro w. rewrite Hw. apply B5.
  - intros c p w Hc Hd. rewrite Hw. eapply B3; eassumption.
  - intros i w Hin. rewrite Hi in Hin. rewrite Hex, Hw. apply X8. exact Hin.
  - intro i. rewrite Hi. apply X8n.
  - intros k' Hc. destruct (Hq k') as [E1 [E2|E2]]; [|congruence]. rewrite E1. apply E7. rewrite <- E2. exact Hc.
Qed.

(* dropping a queue that has no workers *)
Lemma WP_delscq : forall s k,
  NoDup (map fst (s_scqs s)) -> q_workers (get_scq s k) = [] ->
  WP s -> WP (s <| s_scqs := adel skey_eqb k (s_scqs s) |>
                <| s_invs := filter (fun '(i, _) => negb (skey_eqb (i_sk i) k)) (s_invs s) |>).
Proof.
  intros s k Hn Hnone [A2 [A3 [B1 [B5 [B3 [X8 [X8n E7]]]]]]].
  set (s' := s <| s_scqs := _ |> <| s_invs := _ |>).
  assert (Hq : forall k', get_scq s' k' = if skey_eqb k' k then dummy_scq else get_scq s k').
  { intro k'. unfold s', get_scq. cbn. destruct (skey_eqb k' k) eqn:E.
    - apply skey_eqb_eq in E. subst. rewrite (aget_adel_same skey_eqb skey_eqb_eq) by exact Hn. reflexivity.
    - rewrite (aget_adel_other skey_eqb skey_eqb_eq); [reflexivity|]. intros ->. rewrite skey_eqb_refl in E. discriminate. }
  assert (Hqw : forall k', q_workers (get_scq s' k') = q_workers (get_scq s k')).
  { intro k'. rewrite Hq. destruct (skey_eqb k' k) eqn:E; [|reflexivity]. apply skey_eqb_eq in E. subst. rewrite Hnone. reflexivity. }
  assert (Hw : forall w, get_worker s' w = get_worker s w) by (intro w; unfold get_worker; rewrite Hqw; reflexivity).
  assert (Hex : forall w, worker_exists s' w = worker_exists s w) by (intro w; unfold worker_exists; rewrite Hqw; reflexivity).
  assert (Hi : forall i, get_inv s' i = if skey_eqb (i_sk i) k then dummy_inv else get_inv s i).
  { intro i. unfold s', get_inv. cbn. destruct (skey_eqb (i_sk i) k) eqn:E.
    - rewrite (aget_filter_drop iref_eqb iref_eqb_eq (fun i => negb (skey_eqb (i_sk i) k))); [reflexivity|]. cbn. rewrite E. reflexivity.
    - rewrite (aget_filter_keep iref_eqb iref_eqb_eq (fun i => negb (skey_eqb (i_sk i) k))); [reflexivity|]. cbn. rewrite E. reflexivity. }
  unfold WP. change (s_calls s') with (s_calls s). wp_split.
  - intros c p w Hc Hs. rewrite Hex, Hw. eapply A2; eassumption.
  - exact A3.
  - intro w. rewrite Hw. apply B1.
  - intro w. rewrite Hw. apply B5.
  - intros c p w Hc Hd. rewrite Hw. eapply B3; eassumption.
  - intros i w Hin. rewrite Hi in Hin. destruct (skey_eqb (i_sk i) k); [destruct Hin|]. rewrite Hex, Hw. apply X8. exact Hin.
  - intro i. rewrite Hi. destruct (skey_eqb (i_sk i) k); [constructor|apply X8n].
  - intros k' Hc. rewrite Hq in *. destruct (skey_eqb k' k); [reflexivity|apply E7; exact Hc].
Qed.

(* ---- idle lists ---------------------------------------------------------------------------------------- *)
Lemma WP_isync_del : forall s i w, WP s -> WP (upd_inv i (fun v => v <| v_isync ::= swap_remove w |>) s).
Proof.
  intros s i w [A2 [A3 [B1 [B5 [B3 [X8 [X8n E7]]]]]]].
  set (s' := upd_inv i _ s).
  assert (Hw : forall w', get_worker s' w' = get_worker s w') by (intro; apply get_worker_frame'; apply scqs_upd_inv).
  assert (Hex : forall w', worker_exists s' w' = worker_exists s w') by (intro; apply worker_exists_frame; apply scqs_upd_inv).
  assert (Hq : forall k, get_scq s' k = get_scq s k) by (intro; apply get_scq_frame; apply scqs_upd_inv).
  assert (Hi : forall i', v_isync (get_inv s' i') = v_isync (get_inv s i') \/ v_isync (get_inv s' i') = swap_remove w (v_isync (get_inv s i'))).
  { intro i'. unfold s'. rewrite get_inv_upd_inv. destruct (iref_eqb i' i && inv_exists s i) eqn:E; [|auto].
    apply andb_true_iff in E. destruct E as [E _]. apply iref_eqb_eq in E. subst. right. reflexivity. }
  assert (Hcalls : s_calls s' = s_calls s) by apply calls_upd_inv.
  unfold WP. rewrite Hcalls. wp_split.
  - intros c p w' Hc Hs. rewrite Hex, Hw. eapply A2; eassumption.
  - exact A3.
  - intro w'. rewrite Hw. apply B1.
  - intro w'. rewrite Hw. apply B5.
  - intros c p w' Hc Hd. rewrite Hw. eapply B3; eassumption.
  - intros i' w' Hin. rewrite Hex, Hw. apply X8. destruct (Hi i') as [E|E]; rewrite E in Hin; [exact Hin|eapply swap_remove_in; exact Hin].
  - intro i'. destruct (Hi i') as [E|E]; rewrite E; [apply X8n|apply swap_remove_nodup; apply X8n].
  - intro k. rewrite Hq. apply E7.
Qed.

Lemma WP_dequeue_worker : forall s w, WP s -> WP (dequeue_worker w s).
Proof.
  intros s w H. unfold dequeue_worker. destruct (k_last (get_worker s w)) as [p|] eqn:El;
    [|eapply WP_frame; [ | | |exact H]; reflexivity].
  set (s1 := upd_inv (last_iref w p) (fun v => v <| v_isync ::= swap_remove w |>) s).
  assert (H1 : WP s1) by (apply WP_isync_del; exact H).
  assert (Hgw : get_worker s1 w = get_worker s w) by (apply get_worker_frame'; apply scqs_upd_inv).
  pose proof H as [A2 [A3 [B1 [B5 [B3 [X8 [X8n E7]]]]]]].
  apply WP_upd_worker_gen; [| | | | |exact H1]; rewrite Hgw; cbn.
  - reflexivity.
  - intros [c [p' [Hc Hs]]]. unfold s1 in Hc. rewrite calls_upd_inv in Hc. eapply A2; eassumption.
  - discriminate.
  - reflexivity.
  - intros i Hin. exfalso. unfold s1 in Hin. rewrite get_inv_upd_inv in Hin.
    destruct (iref_eqb i (last_iref w p) && inv_exists s (last_iref w p)) eqn:E.
    + cbn in Hin. apply (proj2 (swap_remove_nodup w _ (X8n (last_iref w p)))). exact Hin.
    + destruct (X8 _ _ Hin) as [_ [_ [E3 E4]]]. rewrite El in E3. inversion E3; subst p.
      assert (i = last_iref w (i_path i)) by (destruct i; cbn in *; unfold last_iref; congruence).
      rewrite H0 in E. rewrite iref_eqb_refl in E. cbn in E.
      unfold inv_exists in E. rewrite <- H0 in E. unfold get_inv in Hin. destruct (aget iref_eqb i (s_invs s)); [discriminate|destruct Hin].
Qed.

(* ---- workers coming and going ------------------------------------------------------------------------ *)
Lemma get_worker_delworker : forall s w w', NoDup (map fst (q_workers (get_scq s (w_sk w)))) ->
  get_worker (upd_scq (w_sk w) (fun q => q <| q_workers ::= adel wref_eqb w |>) s) w'
  = if wref_eqb w' w then dummy_worker else get_worker s w'.
Proof.
  intros s w w' Hn. unfold get_worker at 1. rewrite get_scq_upd_scq.
  destruct (wref_eqb w' w) eqn:Ew.
  - apply wref_eqb_eq in Ew. subst w'. rewrite skey_eqb_refl. cbn. destruct (scq_exists s (w_sk w)) eqn:Es.
    + cbn. rewrite (aget_adel_same wref_eqb wref_eqb_eq) by exact Hn. reflexivity.
    + unfold scq_exists, get_scq in *. destruct (aget skey_eqb (w_sk w) (s_scqs s)); [discriminate|reflexivity].
  - destruct (skey_eqb (w_sk w') (w_sk w) && scq_exists s (w_sk w)) eqn:E; [|reflexivity].
    apply andb_true_iff in E. destruct E as [E _]. apply skey_eqb_eq in E. cbn.
    rewrite (aget_adel_other wref_eqb wref_eqb_eq); [unfold get_worker; rewrite E; reflexivity|].
    intros ->. rewrite wref_eqb_refl in Ew. discriminate.
Qed.

Lemma worker_exists_delworker : forall s w w', NoDup (map fst (q_workers (get_scq s (w_sk w)))) ->
  worker_exists (upd_scq (w_sk w) (fun q => q <| q_workers ::= adel wref_eqb w |>) s) w'
  = if wref_eqb w' w then false else worker_exists s w'.
Proof.
  intros s w w' Hn. unfold worker_exists at 1. rewrite get_scq_upd_scq.
  destruct (wref_eqb w' w) eqn:Ew.
  - apply wref_eqb_eq in Ew. subst w'. rewrite skey_eqb_refl. cbn. destruct (scq_exists s (w_sk w)) eqn:Es.
    + cbn. rewrite (aget_adel_same wref_eqb wref_eqb_eq) by exact Hn. reflexivity.
    + unfold scq_exists, get_scq in *. destruct (aget skey_eqb (w_sk w) (s_scqs s)); [discriminate|reflexivity].
  - destruct (skey_eqb (w_sk w') (w_sk w) && scq_exists s (w_sk w)) eqn:E; [|reflexivity].
    apply andb_true_iff in E. destruct E as [E _]. apply skey_eqb_eq in E. cbn.
    rewrite (aget_adel_other wref_eqb wref_eqb_eq); [unfold worker_exists; rewrite E; reflexivity|].
    intros ->. rewrite wref_eqb_refl in Ew. discriminate.
Qed.

Lemma WP_delworker : forall s w,
  NoDup (map fst (q_workers (get_scq s (w_sk w)))) ->
  (forall c p, aget Nat.eqb c (s_calls s) = Some p -> sync_of p <> Some w) ->
  (forall i, ~ In w (v_isync (get_inv s i))) ->
  WP s -> WP (upd_scq (w_sk w) (fun q => q <| q_workers ::= adel wref_eqb w |>) s).
Proof.
  intros s w Hn Hun Hni [A2 [A3 [B1 [B5 [B3 [X8 [X8n E7]]]]]]].
  set (s' := upd_scq (w_sk w) _ s).
  assert (Hgw : forall w', get_worker s' w' = if wref_eqb w' w then dummy_worker else get_worker s w') by (intro; apply get_worker_delworker; exact Hn).
  assert (Hex : forall w', worker_exists s' w' = if wref_eqb w' w then false else worker_exists s w') by (intro; apply worker_exists_delworker; exact Hn).
  assert (Hinv : forall i, get_inv s' i = get_inv s i) by (intro; apply get_inv_frame; apply invs_upd_scq).
  assert (Hcalls : s_calls s' = s_calls s) by apply calls_upd_scq.
  unfold WP. rewrite Hcalls. wp_split.
  - intros c p w' Hc Hs. rewrite Hex, Hgw. destruct (wref_eqb w' w) eqn:E; [|eapply A2; eassumption].
    apply wref_eqb_eq in E. subst. exfalso. exact (Hun _ _ Hc Hs).
  - exact A3.
  - intro w'. rewrite Hgw. destruct (wref_eqb w' w); [cbn; congruence|apply B1].
  - intro w'. rewrite Hgw. destruct (wref_eqb w' w); [cbn; discriminate|apply B5].
  - intros c p w' Hc Hd. rewrite Hgw. destruct (wref_eqb w' w); [reflexivity|eapply B3; eassumption].
  - intros i w' Hin. rewrite Hinv in Hin. rewrite Hex, Hgw. destruct (wref_eqb w' w) eqn:E; [|apply X8; exact Hin].
    apply wref_eqb_eq in E. subst. exfalso. exact (Hni _ Hin).
  - intro i. rewrite Hinv. apply X8n.
  - intros k Hc. unfold s' in *. rewrite get_scq_upd_scq in *.
    destruct (skey_eqb k (w_sk w) && scq_exists s (w_sk w)) eqn:E; [|apply E7; exact Hc].
    apply andb_true_iff in E. destruct E as [E _]. apply skey_eqb_eq in E. subst k. cbn in *. rewrite (E7 _ Hc). reflexivity.
Qed.

(* ---- closure under the internal functions ------------------------------------------------------------------- *)
Definition SW (s : state) : Prop := St s /\ WP s.

Ltac t_WP :=
  lazymatch goal with
  | |- WP (upd_worker _ _ _) => apply WP_upd_worker; [intros ?; cbn; repeat split; auto | assumption]
  | |- WP (upd_inv _ (fun v => v <| v_isync ::= swap_remove _ |>) _) => apply WP_isync_del; assumption
  | |- WP (upd_inv _ _ _) =>
    apply WP_upd_inv; [first [ (match goal with Hf : inv_upd _ |- _ => destruct Hf; intros ?; reflexivity end) | (intros ?; reflexivity) ] | assumption]
  | |- WP (upd_scq _ _ _) =>
    apply WP_upd_scq_keep; [intros q; first [ (cbn; split; [reflexivity | auto]) | (destruct (existsb _ (q_drains q)); (cbn; split; [reflexivity | auto])) ] | assumption]
  | |- WP (set s_invs (fun l => l ++ [(_, new_inv _)]) _) => apply WP_invs_new; assumption
  | |- WP (set s_invs (fun _ => adel iref_eqb _ _) _) =>
    apply WP_invs_del; [match goal with HS : St _ |- _ => destruct HS as [_ [_ [Hn _]]]; exact Hn end | assumption]
  | |- WP (set s_invs _ (set s_scqs (fun l => l ++ _) _)) => apply WP_newscq; assumption
  | |- _ => (eapply WP_frame; [ | | | eassumption]); frame_eq
  end.

Ltac t_SW :=
  intros;
  match goal with H : SW _ |- _ => let HS := fresh "HS" in let HW := fresh "HW" in destruct H as [HS HW] end;
  split; [ t_St | t_WP ].

Lemma SW_St : forall s, SW s -> St s. Proof. unfold SW. tauto. Qed.
Lemma SW_WP : forall s, SW s -> WP s. Proof. unfold SW. tauto. Qed.

Lemma SW_get_or_create_invocation : forall k p s, SW s -> SW (get_or_create_invocation k p s).
Proof.
  intros k p s [HS HW]. split; [apply St_get_or_create_invocation; exact HS|].
  unfold get_or_create_invocation. apply fold_left_pres; [|exact HW].
  intros a pp Ha. destruct (inv_exists a (mkI k pp)); [exact Ha|apply WP_invs_new; exact Ha].
Qed.

Lemma SW_remove_if_empty : forall i s, SW s -> SW (fst (remove_if_empty i s)).
Proof.
  intros i s [HS HW]. split; [apply St_remove_if_empty; exact HS|].
  unfold remove_if_empty. destruct (_ && _); cbn [fst]; [|exact HW].
  apply WP_invs_del; [destruct HS as [_ [_ [Hn _]]]; exact Hn|exact HW].
Qed.

Lemma SW_dequeue_worker : forall w s, SW s -> SW (dequeue_worker w s).
Proof.
  intros w s [HS HW]. split; [|apply WP_dequeue_worker; exact HW].
  unfold dequeue_worker. destruct (k_last (get_worker s w)); [|eapply St_frame; [ | | |exact HS]; reflexivity].
  apply St_upd_worker. apply St_upd_inv. exact HS.
Qed.

Ltac sw_leaf0 :=
  idtac;
  lazymatch goal with
  | |- SW (get_or_create_invocation _ _ _) => apply SW_get_or_create_invocation
  | |- SW (fst (remove_if_empty _ _)) => apply SW_remove_if_empty
  | |- SW (dequeue_worker _ _) => apply SW_dequeue_worker
  end.

(* frames: the queue table is untouched / the worker table of a queue stays empty / a worker keeps not waiting *)
Definition keeps_scqs (l : list (skey * scq)) (s : state) : Prop := s_scqs s = l.
Ltac t_ks := intros; unfold keeps_scqs in *; first [assumption | (rewrite upd_inv_eq; assumption) | (rewrite upd_task_eq; assumption) | (rewrite upd_op_eq; assumption) | (cbn; assumption) ].

Lemma scqs_clear_fold : forall w p s,
  s_scqs (fold_left (fun s j => let v := get_inv s j in
      if (v_idle v =? 0)%N then panic "Invalid workers count" s
      else fst (remove_if_empty j (upd_inv j (fun v => v <| v_idle ::= N.pred |>) s)))
      (chain (last_iref w p)) s) = s_scqs s.
Proof.
  intros w p s. apply (fold_left_pres (fun s' => s_scqs s' = s_scqs s)); [|reflexivity].
  intros a j Ha. cbv zeta. destruct (v_idle (get_inv a j) =? 0)%N; [exact Ha|].
  unfold remove_if_empty. destruct (_ && _); cbn [fst]; [cbn; rewrite scqs_upd_inv; exact Ha|rewrite scqs_upd_inv; exact Ha].
Qed.

Lemma SW_clear_last_invocation : forall w s, SW s -> SW (clear_last_invocation w s).
Proof.
  intros w s H. unfold clear_last_invocation. cbv zeta.
  destruct (is_phantom w); [exact H|].
  destruct (k_wait (get_worker s w)) eqn:Ew; [t_SW|].
  destruct (k_last (get_worker s w)) as [p|] eqn:El; [|exact H].
  match goal with |- SW (upd_worker w _ ?S1) => assert (H1 : SW S1) end.
  { apply fold_left_pres; [|exact H]. intros a j Ha. cbv zeta.
    destruct (v_idle (get_inv a j) =? 0)%N; [t_SW|]. apply SW_remove_if_empty. t_SW. }
  match goal with |- SW (upd_worker w _ ?S1) => assert (Hg : get_worker S1 w = get_worker s w) by (apply get_worker_frame'; apply scqs_clear_fold); set (s1 := S1) in * end.
  clearbody s1. destruct H1 as [HS1 HW1]. split; [apply St_upd_worker; exact HS1|].
  pose proof HW1 as [A2 [A3 [B1 [B5 [B3 [X8 [X8n E7]]]]]]].
  apply WP_upd_worker_gen; [| | | | |exact HW1]; rewrite Hg; cbn.
  - intro Hc. exact Ew.
  - intros [c [p' [Hc Hs]]]. rewrite <- Hg. eapply A2; eassumption.
  - rewrite Ew. discriminate.
  - intros _. exact Ew.
  - intros i Hin. exfalso. destruct (X8 _ _ Hin) as [_ [E2 _]]. rewrite Hg in E2. congruence.
Qed.

Lemma SW_set_last_invocation : forall w p s, SW s -> SW (set_last_invocation w p s).
Proof.
  intros w p s H. unfold set_last_invocation. cbv zeta. destruct (is_phantom w); [exact H|].
  destruct (k_last (get_worker s w)) eqn:El; [t_SW|].
  apply fold_left_pres; [intros a j Ha; t_SW|].
  destruct H as [HS HW]. split; [apply St_upd_worker; exact HS|].
  pose proof HW as [A2 [A3 [B1 [B5 [B3 [X8 [X8n E7]]]]]]].
  apply WP_upd_worker_gen; [| | | | |exact HW]; cbn.
  - apply B1.
  - intros [c [p' [Hc Hs]]]. eapply A2; eassumption.
  - discriminate.
  - intros [c [p' [Hc Hd]]]. eapply B3; eassumption.
  - intros i Hin. exfalso. destruct (X8 _ _ Hin) as [_ [_ [E3 _]]]. congruence.
Qed.

Ltac sw_leaf1 :=
  first [ sw_leaf0
        | lazymatch goal with
          | |- SW (clear_last_invocation _ _) => apply SW_clear_last_invocation
          | |- SW (set_last_invocation _ _ _) => apply SW_set_last_invocation
          end ].
Ltac sw_go1 := inv_go sw_leaf1 t_SW.

Lemma SW_complete_task : forall t r b s, SW s -> SW (complete_task t r b s).
Proof. intros. unfold complete_task, new_operation. sw_go1. Qed.

Lemma SW_cancel_all_queued : forall i r s, SW s -> SW (cancel_all_queued i r s).
Proof.
  intros i r s H. rewrite cancel_all_queued_eq. apply cancel_go_closed; [|exact H].
  intros. apply SW_complete_task. assumption.
Qed.

Ltac sw_leaf2 :=
  first [ sw_leaf1
        | lazymatch goal with
          | |- SW (complete_task _ _ _ _) => apply SW_complete_task
          | |- SW (cancel_all_queued _ _ _) => apply SW_cancel_all_queued
          end ].
Ltac sw_go2 := inv_go sw_leaf2 t_SW.

Lemma SW_operation_remove : forall o s, SW s -> SW (operation_remove o s).
Proof.
  intros o s H. unfold operation_remove. sw_go2.
  all: match goal with |- SW (fst (fold_left ?g ?l ?a)) => apply (fold_left_pres (fun acc => SW (fst acc)) g l) end;
    [ intros [s1 go] j H1; cbn [fst] in *; destruct go; [sw_go2 | assumption] | cbn [fst]; sw_go2 ].
Qed.

(* a queue without workers stays without workers; a worker that does not wait does not start waiting *)
Definition NWf (k : skey) (s : state) : Prop := q_workers (get_scq s k) = [].
Lemma NWf_frame : forall k s s', s_scqs s' = s_scqs s -> NWf k s -> NWf k s'.
Proof. unfold NWf. intros k s s' E H. rewrite (get_scq_frame _ _ _ E). exact H. Qed.
Lemma NWf_upd_worker : forall k s w f, NWf k s -> NWf k (upd_worker w f s).
Proof.
  unfold NWf. intros k s w f H. destruct (get_scq_upd_worker s w f k) as [_ [_ [_ [_ Ek]]]]. rewrite H in Ek.
  destruct (q_workers (get_scq (upd_worker w f s) k)); [reflexivity|discriminate].
Qed.
Lemma NWf_upd_scq : forall k s k' f, (forall q, q_workers q = [] -> q_workers (f q) = []) -> NWf k s -> NWf k (upd_scq k' f s).
Proof.
  unfold NWf. intros k s k' f Hf H. rewrite get_scq_upd_scq. destruct (skey_eqb k k' && scq_exists s k') eqn:E; [|exact H].
  apply andb_true_iff in E. destruct E as [E _]. apply skey_eqb_eq in E. subst. apply Hf. exact H.
Qed.
Ltac t_nw :=
  intros;
  lazymatch goal with
  | |- NWf _ (upd_worker _ _ _) => apply NWf_upd_worker; assumption
  | |- NWf _ (upd_scq _ _ _) => apply NWf_upd_scq; [let q := fresh "q" in let Hq := fresh "Hq" in intros q Hq; first [exact Hq | (cbn; rewrite Hq; reflexivity) | (destruct (existsb _ (q_drains q)); exact Hq)] | assumption]
  | |- _ => (eapply NWf_frame; [|eassumption]); frame_eq
  end.

Definition KWf (w : wref) (s : state) : Prop := k_wait (get_worker s w) = false.
Lemma KWf_frame : forall w s s', s_scqs s' = s_scqs s -> KWf w s -> KWf w s'.
Proof. unfold KWf. intros w s s' E H. rewrite (get_worker_frame' _ _ _ E). exact H. Qed.
Lemma KWf_upd_worker : forall w s w' f, (forall k, k_wait k = false -> k_wait (f k) = false) -> KWf w s -> KWf w (upd_worker w' f s).
Proof.
  unfold KWf. intros w s w' f Hf H. rewrite get_worker_upd_worker. destruct (wref_eqb w w' && worker_exists s w') eqn:E; [|exact H].
  apply andb_true_iff in E. destruct E as [E _]. apply wref_eqb_eq in E. subst. apply Hf. exact H.
Qed.
Lemma KWf_upd_scq : forall w s k f, (forall q, q_workers (f q) = q_workers q) -> KWf w s -> KWf w (upd_scq k f s).
Proof. unfold KWf. intros w s k f Hf H. rewrite get_worker_upd_scq_keep by exact Hf. exact H. Qed.
Ltac t_kw :=
  intros;
  lazymatch goal with
  | |- KWf _ (upd_worker _ _ _) => apply KWf_upd_worker; [let k := fresh "k" in let Hkk := fresh "Hkk" in intros k Hkk; first [exact Hkk | reflexivity] | assumption]
  | |- KWf _ (upd_scq _ _ _) => apply KWf_upd_scq; [intros q; first [reflexivity | (destruct (existsb _ (q_drains q)); reflexivity)] | assumption]
  | |- _ => (eapply KWf_frame; [|eassumption]); frame_eq
  end.

Lemma SW_scq_remove : forall k s, q_workers (get_scq s k) = [] -> SW s -> SW (scq_remove k s).
Proof.
  intros k s Hnw H. unfold scq_remove. cbv zeta.
  set (s1 := cancel_all_queued (mkI k []) (mkResp cUNAVAILABLE 0 0) s).
  assert (H1 : SW s1) by (apply SW_cancel_all_queued; exact H).
  assert (Hn1 : NWf k s1).
  { unfold s1. rewrite cancel_all_queued_eq. apply cancel_go_closed; [|exact Hnw]. intros. inv_go fail t_nw. }
  clearbody s1. split; [exact (St_scq_remove_tail k s1 (SW_St _ H1))|].
  destruct H1 as [HS1 HW1]. eapply WP_frame; [reflexivity|reflexivity|reflexivity|].
  eapply WP_frame; [ | | |apply (WP_delscq s1 k); [destruct HS1 as [Hn _]; exact Hn|exact Hn1|exact HW1]]; reflexivity.
Qed.

Definition unnamed (s : state) (w : wref) : Prop :=
  forall c p, aget Nat.eqb c (s_calls s) = Some p -> sync_of p <> Some w.
Lemma unnamed_frame : forall s s' w, s_calls s' = s_calls s -> unnamed s w -> unnamed s' w.
Proof. unfold unnamed. intros s s' w ->. auto. Qed.

Lemma SW_remove_stale_worker : forall w z s,
  unnamed s w -> k_wait (get_worker s w) = false -> SW s -> SW (remove_stale_worker w z s).
Proof.
  intros w z s Hun Hkw H. unfold remove_stale_worker. cbv zeta.
  set (s1 := mark_terminating w s).
  set (s2 := match k_task (get_worker s1 w) with None => s1 | Some t => complete_task t (mkResp cUNAVAILABLE 0 0) false s1 end).
  set (s3 := clear_last_invocation w s2).
  assert (H3 : SW s3).
  { unfold s3, s2, s1. apply SW_clear_last_invocation. destruct (k_task _); [apply SW_complete_task|]; unfold mark_terminating; sw_go2. }
  assert (Hc3 : s_calls s3 = s_calls s).
  { unfold s3, s2, s1. assert (Hk : keeps_calls (s_calls s) s) by reflexivity.
    change (keeps_calls (s_calls s) (clear_last_invocation w (match k_task (get_worker (mark_terminating w s) w) with None => mark_terminating w s | Some t => complete_task t (mkResp cUNAVAILABLE 0 0) false (mark_terminating w s) end))).
    fr_go (keeps_calls (s_calls s)) t_kc. }
  assert (Hk3 : KWf w s3).
  { unfold s3, s2, s1. assert (Hk : KWf w s) by exact Hkw. unfold mark_terminating. inv_go fail t_kw. }
  clearbody s3. clear s1 s2.
  assert (Hun3 : unnamed s3 w) by (eapply unnamed_frame; [exact Hc3|exact Hun]).
  destruct H3 as [HS3 HW3].
  assert (Hni : forall i, ~ In w (v_isync (get_inv s3 i))).
  { intros i Hin. destruct HW3 as [_ [_ [_ [_ [_ [X8 _]]]]]]. destruct (X8 _ _ Hin) as [_ [E2 _]]. unfold KWf in Hk3. congruence. }
  assert (Hnd : NoDup (map fst (q_workers (get_scq s3 (w_sk w))))).
  { unfold get_scq. destruct (aget skey_eqb (w_sk w) (s_scqs s3)) as [q|] eqn:E; [|constructor].
    destruct HS3 as [_ [H1 _]]. apply (aget_In skey_eqb skey_eqb_eq) in E. apply (H1 _ _ E). }
  set (s4 := upd_scq (w_sk w) (fun q => q <| q_workers ::= adel wref_eqb w |>) s3).
  assert (H4 : SW s4).
  { split; [unfold s4; assert (HS : St s3) by exact HS3; t_St|apply WP_delworker; assumption]. }
  clearbody s4. destruct (Nat.eqb (List.length (q_workers (get_scq s4 (w_sk w)))) 0 && q_removable (get_scq s4 (w_sk w))) eqn:Ec; [|exact H4].
  apply andb_true_iff in Ec. destruct Ec as [Ec _]. apply Nat.eqb_eq in Ec.
  destruct H4 as [HS4 HW4]. split; [assert (HS : St s4) by exact HS4; t_St|].
  apply WP_arm_scq; [destruct (q_workers (get_scq s4 (w_sk w))); [reflexivity|discriminate]|exact HW4].
Qed.

Lemma cleanup_entry_worker : forall s z w, St s -> In (z, CE_worker w) (cleanup_entries s) ->
  k_cleanup (get_worker s w) = Some z.
Proof.
  intros s z w [H0 [H1 _]] Hin. unfold cleanup_entries in Hin. apply in_app_or in Hin. destruct Hin as [Hin|Hin].
  - exfalso. apply in_flat_map in Hin. destruct Hin as [[o x] [_ Hin]]. destruct (o_cleanup x); [|destruct Hin].
    destruct Hin as [Heq|[]]. discriminate.
  - apply in_app_or in Hin. destruct Hin as [Hin|Hin].
    + apply in_flat_map in Hin. destruct Hin as [[k q] [Hkq Hin]]. apply in_flat_map in Hin. destruct Hin as [[w' wk] [Hw Hin]].
      destruct (k_cleanup wk) eqn:Ec; [|destruct Hin]. destruct Hin as [Heq|[]]. inversion Heq; subst.
      destruct (H1 _ _ Hkq) as [Hn Hk]. assert (Hsk : w_sk w = k) by (apply Hk; apply (in_map fst) in Hw; exact Hw).
      unfold get_worker, get_scq. rewrite Hsk. rewrite (In_aget_NoDup skey_eqb skey_eqb_eq _ _ _ H0 Hkq).
      rewrite (In_aget_NoDup wref_eqb wref_eqb_eq _ _ _ Hn Hw). exact Ec.
    + exfalso. apply in_flat_map in Hin. destruct Hin as [[k q] [_ Hin]]. destruct (q_cleanup q); [|destruct Hin].
      destruct Hin as [Heq|[]]. discriminate.
Qed.

Lemma cleanup_entry_scq : forall s z k, St s -> In (z, CE_scq k) (cleanup_entries s) -> q_cleanup (get_scq s k) = Some z.
Proof.
  intros s z k [H0 _] Hin. unfold cleanup_entries in Hin. apply in_app_or in Hin. destruct Hin as [Hin|Hin].
  - exfalso. apply in_flat_map in Hin. destruct Hin as [[o x] [_ Hin]]. destruct (o_cleanup x); [|destruct Hin].
    destruct Hin as [Heq|[]]. discriminate.
  - apply in_app_or in Hin. destruct Hin as [Hin|Hin].
    + exfalso. apply in_flat_map in Hin. destruct Hin as [[k' q] [_ Hin]]. apply in_flat_map in Hin. destruct Hin as [[w' wk] [_ Hin]].
      destruct (k_cleanup wk); [|destruct Hin]. destruct Hin as [Heq|[]]. discriminate.
    + apply in_flat_map in Hin. destruct Hin as [[k' q] [Hkq Hin]]. destruct (q_cleanup q) eqn:Ec; [|destruct Hin].
      destruct Hin as [Heq|[]]. inversion Heq; subst. unfold get_scq. rewrite (In_aget_NoDup skey_eqb skey_eqb_eq _ _ _ H0 Hkq). exact Ec.
Qed.

Lemma SW_run_entry : forall e s, In e (cleanup_entries s) -> SW s -> SW (run_entry e s).
Proof.
  intros [z ce] s Hin H. unfold run_entry. cbn [fst snd]. destruct ce as [o|w|k].
  - apply SW_operation_remove. sw_go2.
  - pose proof (cleanup_entry_worker s z w (SW_St _ H) Hin) as Hc.
    pose proof (SW_WP _ H) as [A2 [_ [B1 _]]].
    apply SW_remove_stale_worker.
    + eapply unnamed_frame; [apply calls_upd_worker|]. intros c p Hcp Hs. destruct (A2 _ _ _ Hcp Hs) as [_ E]. congruence.
    + rewrite get_worker_upd_worker. destruct (wref_eqb w w && worker_exists s w); cbn; apply B1; congruence.
    + sw_go2.
  - pose proof (cleanup_entry_scq s z k (SW_St _ H) Hin) as Hc.
    pose proof (SW_WP _ H) as [_ [_ [_ [_ [_ [_ [_ E7]]]]]]].
    apply SW_scq_remove; [|sw_go2].
    assert (Hn : NWf k s) by (apply E7; congruence). change (NWf k (upd_scq k (fun q => q <| q_cleanup := None |>) s)). t_nw.
Qed.

Lemma SW_enter : forall t s, SW s -> SW (enter t s).
Proof.
  intros t s H. unfold enter. destruct (s_now s <? t); [|exact H]. cbv zeta.
  apply cleanup_run_closed; [intros; t_SW | intros; apply SW_run_entry; assumption | sw_go2].
Qed.

(* ---- the sections of Synchronize calls --------------------------------------------------------------------- *)
Lemma SW_setcall_plain : forall s c p', sync_of p' = None -> SW s -> SW (set_call c p' s).
Proof.
  intros s c p' Hp [HS [A2 [A3 [B1 [B5 [B3 [X8 [X8n E7]]]]]]]]. split; [eapply St_frame; [ | | |exact HS]; reflexivity|].
  assert (Hd : drained_of p' = None) by (destruct p'; try reflexivity; discriminate).
  assert (Hold : forall c' p, aget Nat.eqb c' (s_calls (set_call c p' s)) = Some p -> sync_of p <> None \/ drained_of p <> None ->
                 aget Nat.eqb c' (s_calls s) = Some p /\ c' <> c).
  { intros c' p Hc Hs. unfold set_call in Hc. cbn in Hc. rewrite (aget_aset Nat.eqb nat_eqb_eq) in Hc.
    destruct (Nat.eqb c' c) eqn:E; [inversion Hc; subst; destruct Hs; congruence|].
    split; [exact Hc|apply Nat.eqb_neq; exact E]. }
  unfold WP. change (get_worker (set_call c p' s)) with (get_worker s). change (worker_exists (set_call c p' s)) with (worker_exists s).
  change (get_inv (set_call c p' s)) with (get_inv s). change (get_scq (set_call c p' s)) with (get_scq s). wp_split; auto.
  - intros c' p w Hc Hs. destruct (Hold _ _ Hc) as [Hc' _]; [left; congruence|]. eapply A2; eassumption.
  - intros c1 c2 p1 p2 w H1 H2 Hs1 Hs2. destruct (Hold _ _ H1) as [H1' _]; [left; congruence|].
    destruct (Hold _ _ H2) as [H2' _]; [left; congruence|]. eapply A3; eassumption.
  - intros c' p w Hc Hdr. destruct (Hold _ _ Hc) as [Hc' _]; [right; congruence|]. eapply B3; eassumption.
Qed.

Definition only_names (c : nat) (w : wref) (s : state) : Prop :=
  forall c' p, aget Nat.eqb c' (s_calls s) = Some p -> sync_of p = Some w -> c' = c.

Lemma SW_setcall_sync : forall s c p' w, sync_of p' = Some w ->
  worker_exists s w = true -> k_cleanup (get_worker s w) = None ->
  (drained_of p' = Some w -> k_wait (get_worker s w) = false) ->
  only_names c w s -> SW s -> SW (set_call c p' s).
Proof.
  intros s c p' w Hp Hex Hcn Hdw Hon [HS [A2 [A3 [B1 [B5 [B3 [X8 [X8n E7]]]]]]]]. split; [eapply St_frame; [ | | |exact HS]; reflexivity|].
  assert (Hd : forall w', drained_of p' = Some w' -> w' = w).
  { intros w' H. destruct p'; try discriminate; cbn in *; try destruct queued; congruence. }
  assert (Hcase : forall c' p, aget Nat.eqb c' (s_calls (set_call c p' s)) = Some p ->
                 (c' = c /\ p = p') \/ (aget Nat.eqb c' (s_calls s) = Some p /\ c' <> c)).
  { intros c' p Hc. unfold set_call in Hc. cbn in Hc. rewrite (aget_aset Nat.eqb nat_eqb_eq) in Hc.
    destruct (Nat.eqb c' c) eqn:E; [left; apply Nat.eqb_eq in E; inversion Hc; auto|right; split; [exact Hc|apply Nat.eqb_neq; exact E]]. }
  unfold WP. change (get_worker (set_call c p' s)) with (get_worker s). change (worker_exists (set_call c p' s)) with (worker_exists s).
  change (get_inv (set_call c p' s)) with (get_inv s). change (get_scq (set_call c p' s)) with (get_scq s). wp_split; auto.
  - intros c' p w' Hc Hs. destruct (Hcase _ _ Hc) as [[-> ->]|[Hc' _]]; [|eapply A2; eassumption].
    rewrite Hp in Hs. inversion Hs; subst. auto.
  - intros c1 c2 p1 p2 w' H1 H2 Hs1 Hs2.
    destruct (Hcase _ _ H1) as [[-> ->]|[H1' N1]], (Hcase _ _ H2) as [[-> ->]|[H2' N2]]; [reflexivity| | |eapply A3; eassumption].
    + rewrite Hp in Hs1. inversion Hs1; subst. symmetry. eapply Hon; eassumption.
    + rewrite Hp in Hs2. inversion Hs2; subst. eapply Hon; eassumption.
  - intros c' p w' Hc Hdr. destruct (Hcase _ _ Hc) as [[-> ->]|[Hc' _]]; [|eapply B3; eassumption].
    rewrite (Hd _ Hdr). apply Hdw. rewrite <- (Hd _ Hdr). exact Hdr.
Qed.
