(* C01, exclusivity layer: a task is held by exactly one queue or one worker. *)
From Coq Require Import Lia.
From VF Require Export Sched.ProofsWorkers3.
Open Scope Z_scope.

Definition tsk (s : state) (o : nat) : nat := o_task (get_op s o).
Definition queued (s : state) (o : nat) : Prop := In o (v_qops (get_inv s (o_inv (get_op s o)))).
Definition idle_live (s : state) (t : nat) : Prop := t_worker (get_task s t) = None /\ t_resp (get_task s t) = None.

(* [ext]: tasks in the middle of a critical section *)
Record X (ext : list nat) (s : state) : Prop := mkX {
  XA : forall t w, ~ In t ext -> t_worker (get_task s t) = Some w ->
         is_phantom w = false /\ worker_exists s w = true /\ k_task (get_worker s w) = Some t /\ t_resp (get_task s t) = None;
  XB : forall w t, worker_exists s w = true -> k_task (get_worker s w) = Some t -> ~ In t ext ->
         t_worker (get_task s t) = Some w;
  (* (a waiting worker holds no task: not needed for C01 and not kept, see Sched-proofs.md) *)
  XC : forall w, k_wait (get_worker s w) = true -> True;
  XQ : forall i o, In o (v_qops (get_inv s i)) -> op_alive s o = true /\ o_inv (get_op s o) = i;
  XQn : forall i, NoDup (v_qops (get_inv s i));
  XL : forall o, op_alive s o = true -> ~ In (tsk s o) ext -> queued s o -> idle_live s (tsk s o);
  XO1 : forall o, op_alive s o = true -> ~ In (tsk s o) ext -> In (o_inv (get_op s o), o) (t_ops (get_task s (tsk s o)));
  XO2 : forall t i o, ~ In t ext -> In (i, o) (t_ops (get_task s t)) ->
          op_alive s o = true /\ tsk s o = t /\ o_inv (get_op s o) = i
}.

Lemma X_weaken : forall ext t s, X ext s -> X (t :: ext) s.
Proof.
  intros ext t s [A B C Q Qn L O1 O2]. constructor; auto.
  - intros t' w Hn. apply A. intro H. apply Hn. right. exact H.
  - intros w t' He Hk Hn. apply B; auto. intro H. apply Hn. right. exact H.
  - intros o Ha Hn. apply L; auto. intro H. apply Hn. right. exact H.
  - intros o Ha Hn. apply O1; auto. intro H. apply Hn. right. exact H.
  - intros t' i o Hn. apply O2. intro H. apply Hn. right. exact H.
Qed.

(* everything X reads *)
Lemma X_frame : forall ext s s',
  s_tasks s' = s_tasks s -> s_ops s' = s_ops s -> s_invs s' = s_invs s -> s_scqs s' = s_scqs s -> X ext s -> X ext s'.
Proof.
  intros ext s s' E1 E2 E3 E4 [A B C Q Qn L O1 O2].
  assert (Ht : forall t, get_task s' t = get_task s t) by (intro; apply get_task_frame; exact E1).
  assert (Ho : forall o, get_op s' o = get_op s o) by (intro; apply get_op_frame; exact E2).
  assert (Ha : forall o, op_alive s' o = op_alive s o) by (intro; apply op_alive_frame; exact E2).
  assert (Hi : forall i, get_inv s' i = get_inv s i) by (intro; apply get_inv_frame; exact E3).
  assert (Hw : forall w, get_worker s' w = get_worker s w) by (intro; apply get_worker_frame'; exact E4).
  assert (He : forall w, worker_exists s' w = worker_exists s w) by (intro; apply worker_exists_frame; exact E4).
  constructor; unfold queued, idle_live, tsk in *; intros;
    repeat first [rewrite Ht | rewrite Ho | rewrite Ha | rewrite Hi | rewrite Hw | rewrite He];
    repeat match goal with H : context [get_task s' _] |- _ => rewrite Ht in H
                         | H : context [get_op s' _] |- _ => rewrite Ho in H
                         | H : context [op_alive s' _] |- _ => rewrite Ha in H
                         | H : context [get_inv s' _] |- _ => rewrite Hi in H
                         | H : context [get_worker s' _] |- _ => rewrite Hw in H
                         | H : context [worker_exists s' _] |- _ => rewrite He in H end; eauto.
Qed.

(* ---- reading after raw updates of the task and operation tables -------------------------------------- *)
Lemma get_task_newtask : forall s x t,
  get_task (s <| s_ntasks ::= S |> <| s_tasks ::= fun l => l ++ [(s_ntasks s, x)] |>) t
  = match aget Nat.eqb t (s_tasks s) with Some y => y | None => if Nat.eqb t (s_ntasks s) then x else dummy_task end.
Proof. intros. unfold get_task. cbn. rewrite (aget_app Nat.eqb). destruct (aget Nat.eqb t (s_tasks s)); [reflexivity|]. cbn. destruct (Nat.eqb t (s_ntasks s)); reflexivity. Qed.

Lemma get_op_newop : forall s x o,
  get_op (s <| s_nops ::= S |> <| s_ops ::= fun l => l ++ [(s_nops s, x)] |>) o
  = match aget Nat.eqb o (s_ops s) with Some y => y | None => if Nat.eqb o (s_nops s) then x else dummy_oper end.
Proof. intros. unfold get_op. cbn. rewrite (aget_app Nat.eqb). destruct (aget Nat.eqb o (s_ops s)); [reflexivity|]. cbn. destruct (Nat.eqb o (s_nops s)); reflexivity. Qed.

Lemma op_alive_newop : forall s x o,
  op_alive (s <| s_nops ::= S |> <| s_ops ::= fun l => l ++ [(s_nops s, x)] |>) o = op_alive s o || Nat.eqb o (s_nops s).
Proof. intros. unfold op_alive. cbn. rewrite (aget_app Nat.eqb). destruct (aget Nat.eqb o (s_ops s)); [reflexivity|]. cbn. destruct (Nat.eqb o (s_nops s)); reflexivity. Qed.

(* ---- primitive updates ------------------------------------------------------------------------------------ *)
(* a task update that keeps worker, response and operation list *)
Lemma X_upd_task_keep : forall ext s t f,
  (forall x, t_worker (f x) = t_worker x /\ t_resp (f x) = t_resp x /\ t_ops (f x) = t_ops x) ->
  X ext s -> X ext (upd_task t f s).
Proof.
  intros ext s t f Hf [A B C Q Qn L O1 O2].
  set (s' := upd_task t f s).
  assert (Ht : forall t', t_worker (get_task s' t') = t_worker (get_task s t') /\ t_resp (get_task s' t') = t_resp (get_task s t')
                          /\ t_ops (get_task s' t') = t_ops (get_task s t')).
  { intro t'. unfold s'. rewrite get_task_upd_task. destruct (Nat.eqb t' t) eqn:E; [|auto]. apply Nat.eqb_eq in E. subst. apply Hf. }
  assert (Ho : forall o, get_op s' o = get_op s o) by (intro; apply get_op_frame; reflexivity).
  assert (Ha : forall o, op_alive s' o = op_alive s o) by (intro; apply op_alive_frame; reflexivity).
  assert (Hi : forall i, get_inv s' i = get_inv s i) by (intro; apply get_inv_frame; reflexivity).
  assert (Hw : forall w, get_worker s' w = get_worker s w) by (intro; apply get_worker_frame'; reflexivity).
  assert (He : forall w, worker_exists s' w = worker_exists s w) by (intro; apply worker_exists_frame; reflexivity).
  constructor; unfold queued, idle_live, tsk in *.
  - intros t' w Hn Hw'. destruct (Ht t') as [E1 [E2 _]]. rewrite E1 in Hw'. rewrite He, Hw, E2. apply A; assumption.
  - intros w t' Hex Hk Hn. rewrite He in Hex. rewrite Hw in Hk. destruct (Ht t') as [E1 _]. rewrite E1. apply B; assumption.
  - intros w. rewrite Hw. apply C.
  - intros i o. rewrite Hi, Ha, Ho. apply Q.
  - intros i. rewrite Hi. apply Qn.
  - intros o. rewrite Ha, Ho, Hi. intros Hal Hn Hq. destruct (Ht (o_task (get_op s o))) as [E1 [E2 _]]. rewrite E1, E2. apply L; assumption.
  - intros o. rewrite Ha, Ho. intros Hal Hn. destruct (Ht (o_task (get_op s o))) as [_ [_ E3]]. rewrite E3. apply O1; assumption.
  - intros t' i o Hn Hin. destruct (Ht t') as [_ [_ E3]]. rewrite E3 in Hin. rewrite Ha, Ho. apply O2; assumption.
Qed.

(* any update of a task that is in its critical section *)
Lemma X_upd_task_ext : forall ext s t f, In t ext -> X ext s -> X ext (upd_task t f s).
Proof.
  intros ext s t f Hin [A B C Q Qn L O1 O2].
  set (s' := upd_task t f s).
  assert (Ht : forall t', ~ In t' ext -> get_task s' t' = get_task s t').
  { intros t' Hn. unfold s'. rewrite get_task_upd_task. destruct (Nat.eqb t' t) eqn:E; [|reflexivity]. apply Nat.eqb_eq in E. subst. contradiction. }
  assert (Ho : forall o, get_op s' o = get_op s o) by (intro; apply get_op_frame; reflexivity).
  assert (Ha : forall o, op_alive s' o = op_alive s o) by (intro; apply op_alive_frame; reflexivity).
  assert (Hi : forall i, get_inv s' i = get_inv s i) by (intro; apply get_inv_frame; reflexivity).
  assert (Hw : forall w, get_worker s' w = get_worker s w) by (intro; apply get_worker_frame'; reflexivity).
  assert (He : forall w, worker_exists s' w = worker_exists s w) by (intro; apply worker_exists_frame; reflexivity).
  constructor; unfold queued, idle_live, tsk in *.
  - intros t' w Hn. rewrite (Ht t' Hn), He, Hw. apply A. exact Hn.
  - intros w t' Hex Hk Hn. rewrite He in Hex. rewrite Hw in Hk. rewrite (Ht t' Hn). apply B; assumption.
  - intros w. rewrite Hw. apply C.
  - intros i o. rewrite Hi, Ha, Ho. apply Q.
  - intros i. rewrite Hi. apply Qn.
  - intros o. rewrite Ha, Ho, Hi. intros Hal Hn. rewrite (Ht _ Hn). apply L; assumption.
  - intros o. rewrite Ha, Ho. intros Hal Hn. rewrite (Ht _ Hn). apply O1; assumption.
  - intros t' i o Hn. rewrite (Ht t' Hn), Ha, Ho. apply O2. exact Hn.
Qed.

Lemma X_newtask : forall ext s x,
  X ext s -> X (s_ntasks s :: ext) (s <| s_ntasks ::= S |> <| s_tasks ::= fun l => l ++ [(s_ntasks s, x)] |>).
Proof.
  intros ext s x [A B C Q Qn L O1 O2].
  set (s' := s <| s_ntasks ::= S |> <| s_tasks ::= _ |>).
  assert (Ht : forall t', t' <> s_ntasks s -> get_task s' t' = get_task s t').
  { intros t' Hn. unfold s'. rewrite get_task_newtask. unfold get_task. destruct (aget Nat.eqb t' (s_tasks s)); [reflexivity|].
    rewrite (proj2 (Nat.eqb_neq _ _) Hn). reflexivity. }
  assert (Hne : forall t', ~ In t' (s_ntasks s :: ext) -> t' <> s_ntasks s /\ ~ In t' ext).
  { intros t' Hn. split; [intros ->; apply Hn; left; reflexivity|intro H; apply Hn; right; exact H]. }
  constructor; unfold queued, idle_live, tsk in *;
    change (get_op s') with (get_op s); change (op_alive s') with (op_alive s); change (get_inv s') with (get_inv s);
    change (get_worker s') with (get_worker s); change (worker_exists s') with (worker_exists s).
  - intros t' w Hn. destruct (Hne _ Hn) as [H1 H2]. rewrite (Ht _ H1). apply A. exact H2.
  - intros w t' Hex Hk Hn. destruct (Hne _ Hn) as [H1 H2]. rewrite (Ht _ H1). apply B; assumption.
  - exact C.
  - exact Q.
  - exact Qn.
  - intros o Hal Hn. destruct (Hne _ Hn) as [H1 H2]. rewrite (Ht _ H1). apply L; assumption.
  - intros o Hal Hn. destruct (Hne _ Hn) as [H1 H2]. rewrite (Ht _ H1). apply O1; assumption.
  - intros t' i o Hn. destruct (Hne _ Hn) as [H1 H2]. rewrite (Ht _ H1). apply O2. exact H2.
Qed.

(* a generic transfer lemma: the new state agrees with the old one on everything X reads, except as described *)
Lemma X_transfer : forall ext s s',
  (forall t, ~ In t ext -> t_worker (get_task s' t) = t_worker (get_task s t) /\ t_resp (get_task s' t) = t_resp (get_task s t)
                           /\ t_ops (get_task s' t) = t_ops (get_task s t)) ->
  (forall o, op_alive s' o = true -> op_alive s o = true /\ (~ In (tsk s o) ext -> get_op s' o = get_op s o) /\ (In (tsk s o) ext -> tsk s' o = tsk s o)
             \/ (op_alive s o = false /\ In (tsk s' o) ext /\ forall i, ~ In o (v_qops (get_inv s' i)))) ->
  (forall o, op_alive s o = true -> ~ In (tsk s o) ext -> op_alive s' o = true) ->
  (forall i o, In o (v_qops (get_inv s' i)) -> (In o (v_qops (get_inv s i)) /\ op_alive s' o = true /\ o_inv (get_op s' o) = o_inv (get_op s o))
                                               \/ (op_alive s' o = true /\ o_inv (get_op s' o) = i /\ In (tsk s' o) ext)) ->
  (forall i, NoDup (v_qops (get_inv s' i))) ->
  (forall w, worker_exists s w = true -> k_task (get_worker s w) <> None -> (forall t, k_task (get_worker s w) = Some t -> ~ In t ext) ->
             worker_exists s' w = true /\ k_task (get_worker s' w) = k_task (get_worker s w)) ->
  (forall w t, worker_exists s' w = true -> k_task (get_worker s' w) = Some t -> ~ In t ext ->
             worker_exists s w = true /\ k_task (get_worker s w) = Some t) ->
  (forall w, k_wait (get_worker s' w) = true -> True) ->
  X ext s -> X ext s'.
Proof.
  intros ext s s' HT HO HOa HQ HQn HW1 HW2 HC [A B C Q Qn L O1 O2].
  assert (Hop : forall o, op_alive s' o = true -> ~ In (tsk s' o) ext -> op_alive s o = true /\ get_op s' o = get_op s o /\ ~ In (tsk s o) ext).
  { intros o Ha Hn. destruct (HO o Ha) as [[H1 [H2 H3]]|[_ [H2 _]]]; [|contradiction].
    destruct (in_dec Nat.eq_dec (tsk s o) ext) as [Hi|Hi]; [rewrite <- (H3 Hi) in Hi; contradiction|].
    split; [exact H1|]. split; [apply H2; exact Hi|exact Hi]. }
  constructor; unfold queued, idle_live in *.
  - intros t w Hn Hw. destruct (HT t Hn) as [E1 [E2 _]]. rewrite E1 in Hw. destruct (A t w Hn Hw) as [P1 [P2 [P3 P4]]].
    rewrite E2. destruct (HW1 w P2) as [Q1 Q2]; [congruence|intros t' Ht'; rewrite P3 in Ht'; inversion Ht'; subst; exact Hn|].
    split; [exact P1|]. split; [exact Q1|]. split; [rewrite Q2; exact P3|exact P4].
  - intros w t Hex Hk Hn. destruct (HW2 w t Hex Hk Hn) as [P1 P2]. destruct (HT t Hn) as [E1 _]. rewrite E1. apply B; assumption.
  - exact HC.
  - intros i o Hin. destruct (HQ i o Hin) as [[H1 [H2 H3]]|[H1 [H2 _]]]; [|auto]. destruct (Q i o H1) as [_ E]. rewrite H3. auto.
  - exact HQn.
  - intros o Ha Hn Hq. destruct (Hop o Ha Hn) as [Ha0 [Ego Hn0]]. unfold tsk in *. rewrite Ego in *.
    destruct (HT _ Hn0) as [E1 [E2 _]]. rewrite E1, E2. apply L; [exact Ha0|exact Hn0|].
    destruct (HQ _ _ Hq) as [[H1 _]|[_ [_ H3]]]; [exact H1|]. unfold tsk in H3. rewrite Ego in H3. contradiction.
  - intros o Ha Hn. destruct (Hop o Ha Hn) as [Ha0 [Ego Hn0]]. unfold tsk in *. rewrite Ego in *.
    destruct (HT _ Hn0) as [_ [_ E3]]. rewrite E3. apply O1; assumption.
  - intros t i o Hn Hin. destruct (HT t Hn) as [_ [_ E3]]. rewrite E3 in Hin. destruct (O2 t i o Hn Hin) as [P1 [P2 P3]].
    assert (Hn0 : ~ In (tsk s o) ext) by (rewrite P2; exact Hn).
    pose proof (HOa o P1 Hn0) as Ha'. destruct (HO o Ha') as [[_ [H2 _]]|[H1 _]]; [|congruence].
    unfold tsk. rewrite (H2 Hn0). auto.
Qed.

Ltac xfer_same_tasks := intros ? ?; repeat split; reflexivity.

(* operation updates that keep task and invocation *)
Lemma X_upd_op_keep : forall ext s o f, (forall y, o_task (f y) = o_task y /\ o_inv (f y) = o_inv y) -> X ext s -> X ext (upd_op o f s).
Proof.
  intros ext s o f Hf HX. pose proof HX as [A B C Q Qn L O1 O2].
  assert (Hgo : forall o', o_task (get_op (upd_op o f s) o') = o_task (get_op s o') /\ o_inv (get_op (upd_op o f s) o') = o_inv (get_op s o')).
  { intro o'. rewrite get_op_upd_op. destruct (Nat.eqb o' o && op_alive s o) eqn:E; [|auto].
    apply andb_true_iff in E. destruct E as [E _]. apply Nat.eqb_eq in E. subst. apply Hf. }
  (* not an instance of the transfer lemma (get_op changes in irrelevant fields): direct *)
  assert (Ht : forall t, get_task (upd_op o f s) t = get_task s t) by (intro; apply get_task_frame; rewrite upd_op_eq; reflexivity).
  assert (Ha : forall o', op_alive (upd_op o f s) o' = op_alive s o') by (intro; apply op_alive_upd_op).
  assert (Hi : forall i, get_inv (upd_op o f s) i = get_inv s i) by (intro; apply get_inv_frame; rewrite upd_op_eq; reflexivity).
  assert (Hw : forall w, get_worker (upd_op o f s) w = get_worker s w) by (intro; apply get_worker_frame'; rewrite upd_op_eq; reflexivity).
  assert (He : forall w, worker_exists (upd_op o f s) w = worker_exists s w) by (intro; apply worker_exists_frame; rewrite upd_op_eq; reflexivity).
  constructor; unfold queued, idle_live, tsk in *.
  - intros t w. rewrite Ht, He, Hw. apply A.
  - intros w t. rewrite He, Hw, Ht. apply B.
  - intros w. rewrite Hw. apply C.
  - intros i o'. rewrite Hi, Ha. destruct (Hgo o') as [_ E]. rewrite E. apply Q.
  - intros i. rewrite Hi. apply Qn.
  - intros o'. rewrite Ha, Hi. destruct (Hgo o') as [E1 E2]. rewrite E1, E2, Ht. apply L.
  - intros o'. rewrite Ha. destruct (Hgo o') as [E1 E2]. rewrite E1, E2, Ht. apply O1.
  - intros t i o'. rewrite Ht, Ha. destruct (Hgo o') as [E1 E2]. rewrite E1, E2. apply O2.
Qed.

(* a new operation of a task in its critical section *)
Lemma X_newop : forall ext s t prio i m, In t ext -> X ext s ->
  X ext (s <| s_nops ::= S |> <| s_ops ::= fun l => l ++ [(s_nops s, mkOper t prio i 0 m None)] |>).
Proof.
  intros ext s t prio i m Hin HX. pose proof HX as [A B C Q Qn L O1 O2].
  set (s' := s <| s_nops ::= S |> <| s_ops ::= _ |>).
  assert (Hgo : forall o, op_alive s o = true -> get_op s' o = get_op s o).
  { intros o Ha. unfold s'. rewrite get_op_newop. unfold op_alive, get_op in *. destruct (aget Nat.eqb o (s_ops s)); [reflexivity|discriminate]. }
  assert (Hal : forall o, op_alive s' o = true -> op_alive s o = true \/ (op_alive s o = false /\ tsk s' o = t)).
  { intros o Ha. unfold s' in *. rewrite op_alive_newop in Ha. destruct (op_alive s o) eqn:E; [left; reflexivity|right]. split; [reflexivity|].
    cbn in Ha. unfold tsk. rewrite get_op_newop. unfold op_alive in E. destruct (aget Nat.eqb o (s_ops s)); [discriminate|]. rewrite Ha. reflexivity. }
  apply (X_transfer ext s s'); try exact HX.
  - intros t' _. repeat split; reflexivity.
  - intros o Ha. destruct (Hal o Ha) as [H1|[H1 H2]].
    + left. split; [exact H1|]. split; [intros _; apply Hgo; exact H1|intros _; unfold tsk; rewrite (Hgo o H1); reflexivity].
    + right. split; [exact H1|]. split; [rewrite H2; exact Hin|].
      intros i' Hq. change (get_inv s' i') with (get_inv s i') in Hq. destruct (Q _ _ Hq) as [E _]. congruence.
  - intros o Ha _. unfold s'. rewrite op_alive_newop, Ha. reflexivity.
  - intros i' o Hq. change (get_inv s' i') with (get_inv s i') in Hq. left. destruct (Q _ _ Hq) as [E _].
    split; [exact Hq|]. split; [unfold s'; rewrite op_alive_newop, E; reflexivity|rewrite (Hgo o E); reflexivity].
  - exact Qn.
  - intros w He _ _. auto.
  - intros w t' He Hk _. auto.
  - exact C.
Qed.

(* dropping an operation of a task in its critical section that is in no queue *)
Lemma X_delop : forall ext s o, NoDup (map fst (s_ops s)) -> In (tsk s o) ext -> (forall i, ~ In o (v_qops (get_inv s i))) ->
  X ext s -> X ext (s <| s_ops := adel Nat.eqb o (s_ops s) |>).
Proof.
  intros ext s o Hnd Hin Hnq HX. pose proof HX as [A B C Q Qn L O1 O2].
  set (s' := s <| s_ops := adel Nat.eqb o (s_ops s) |>).
  assert (Hgo : forall o', o' <> o -> get_op s' o' = get_op s o' /\ op_alive s' o' = op_alive s o').
  { intros o' Hne. unfold s', get_op, op_alive. cbn. rewrite (aget_adel_other Nat.eqb nat_eqb_eq) by exact Hne. auto. }
  assert (Hdead : op_alive s' o = false).
  { unfold s', op_alive. cbn. rewrite (aget_adel_same Nat.eqb nat_eqb_eq) by exact Hnd. reflexivity. }
  apply (X_transfer ext s s'); try exact HX.
  - intros t' _. repeat split; reflexivity.
  - intros o' Ha. assert (Hne : o' <> o) by (intros ->; congruence). destruct (Hgo o' Hne) as [E1 E2]. left.
    split; [rewrite <- E2; exact Ha|]. split; [intros _; exact E1|intros _; unfold tsk; rewrite E1; reflexivity].
  - intros o' Ha Hn. assert (Hne : o' <> o) by (intros ->; contradiction). destruct (Hgo o' Hne) as [_ E2]. rewrite E2. exact Ha.
  - intros i o' Hq. change (get_inv s' i) with (get_inv s i) in Hq. left. assert (Hne : o' <> o) by (intros ->; exact (Hnq _ Hq)).
    destruct (Hgo o' Hne) as [E1 E2]. destruct (Q _ _ Hq) as [E _]. split; [exact Hq|]. split; [rewrite E2; exact E|rewrite E1; reflexivity].
  - exact Qn.
  - intros w He _ _. auto.
  - intros w t' He Hk _. auto.
  - exact C.
Qed.

(* invocation updates *)
Lemma X_upd_inv_keep : forall ext s i f, (forall v, v_qops (f v) = v_qops v) -> X ext s -> X ext (upd_inv i f s).
Proof.
  intros ext s i f Hf HX. pose proof HX as [A B C Q Qn L O1 O2].
  assert (Hq : forall i', v_qops (get_inv (upd_inv i f s) i') = v_qops (get_inv s i')).
  { intro i'. rewrite get_inv_upd_inv. destruct (iref_eqb i' i && inv_exists s i) eqn:E; [|reflexivity].
    apply andb_true_iff in E. destruct E as [E _]. apply iref_eqb_eq in E. subst. apply Hf. }
  apply (X_transfer ext s (upd_inv i f s)); try exact HX.
  - intros t' _. rewrite (get_task_frame s) by (rewrite upd_inv_eq; reflexivity). auto.
  - intros o Ha. left. rewrite (op_alive_frame s) in Ha by (rewrite upd_inv_eq; reflexivity). split; [exact Ha|].
    split; [intros _; apply get_op_frame; rewrite upd_inv_eq; reflexivity|intros _; unfold tsk; rewrite (get_op_frame s) by (rewrite upd_inv_eq; reflexivity); reflexivity].
  - intros o Ha _. rewrite (op_alive_frame s) by (rewrite upd_inv_eq; reflexivity). exact Ha.
  - intros i' o Hin. rewrite Hq in Hin. left. destruct (Q _ _ Hin) as [E _]. split; [exact Hin|].
    rewrite (op_alive_frame s), (get_op_frame s) by (rewrite upd_inv_eq; reflexivity). auto.
  - intro i'. rewrite Hq. apply Qn.
  - intros w He _ _. rewrite (worker_exists_frame s), (get_worker_frame' s) by apply scqs_upd_inv. auto.
  - intros w t' He Hk _. rewrite (worker_exists_frame s) in He by apply scqs_upd_inv. rewrite (get_worker_frame' s) in Hk by apply scqs_upd_inv. auto.
  - intros w. rewrite (get_worker_frame' s) by apply scqs_upd_inv. apply C.
Qed.

Lemma remove_nat_in : forall o l x, In x (remove_nat o l) -> In x l /\ x <> o.
Proof.
  intros o l x H. unfold remove_nat in H. apply filter_In in H. destruct H as [H1 H2]. split; [exact H1|].
  apply negb_true_iff in H2. apply Nat.eqb_neq in H2. auto.
Qed.

Lemma X_deq : forall ext s i o, X ext s -> X ext (upd_inv i (fun v => v <| v_qops ::= remove_nat o |>) s).
Proof.
  intros ext s i o HX. pose proof HX as [A B C Q Qn L O1 O2].
  set (s' := upd_inv i _ s).
  assert (Hq : forall i' x, In x (v_qops (get_inv s' i')) -> In x (v_qops (get_inv s i'))).
  { intros i' x. unfold s'. rewrite get_inv_upd_inv. destruct (iref_eqb i' i && inv_exists s i) eqn:E; [|auto].
    apply andb_true_iff in E. destruct E as [E _]. apply iref_eqb_eq in E. subst. cbn. intro H. apply remove_nat_in in H. tauto. }
  apply (X_transfer ext s s'); try exact HX.
  - intros t' _. unfold s'. rewrite (get_task_frame s) by (rewrite upd_inv_eq; reflexivity). auto.
  - intros o' Ha. left. unfold s' in *. rewrite (op_alive_frame s) in Ha by (rewrite upd_inv_eq; reflexivity). split; [exact Ha|].
    split; [intros _; apply get_op_frame; rewrite upd_inv_eq; reflexivity|intros _; unfold tsk; rewrite (get_op_frame s) by (rewrite upd_inv_eq; reflexivity); reflexivity].
  - intros o' Ha _. unfold s'. rewrite (op_alive_frame s) by (rewrite upd_inv_eq; reflexivity). exact Ha.
  - intros i' o' Hin. apply Hq in Hin. left. destruct (Q _ _ Hin) as [E _]. split; [exact Hin|].
    unfold s'. rewrite (op_alive_frame s), (get_op_frame s) by (rewrite upd_inv_eq; reflexivity). auto.
  - intro i'. unfold s'. rewrite get_inv_upd_inv. destruct (iref_eqb i' i && inv_exists s i); [|apply Qn].
    cbn. unfold remove_nat. apply NoDup_filter. apply Qn.
  - intros w He _ _. unfold s'. rewrite (worker_exists_frame s), (get_worker_frame' s) by apply scqs_upd_inv. auto.
  - intros w t' He Hk _. unfold s' in *. rewrite (worker_exists_frame s) in He by apply scqs_upd_inv. rewrite (get_worker_frame' s) in Hk by apply scqs_upd_inv. auto.
  - intros w. unfold s'. rewrite (get_worker_frame' s) by apply scqs_upd_inv. apply C.
Qed.

(* queueing an operation of a task in its critical section in its own invocation *)
Lemma X_enq : forall ext s o, op_alive s o = true -> In (tsk s o) ext -> ~ In o (v_qops (get_inv s (o_inv (get_op s o)))) ->
  X ext s -> X ext (upd_inv (o_inv (get_op s o)) (fun v => v <| v_qops ::= fun l => l ++ [o] |>) s).
Proof.
  intros ext s o Hal Hin Hnq HX. pose proof HX as [A B C Q Qn L O1 O2].
  set (i := o_inv (get_op s o)). set (s' := upd_inv i _ s).
  assert (Hq : forall i' x, In x (v_qops (get_inv s' i')) -> In x (v_qops (get_inv s i')) \/ (x = o /\ i' = i)).
  { intros i' x. unfold s'. rewrite get_inv_upd_inv. destruct (iref_eqb i' i && inv_exists s i) eqn:E; [|auto].
    apply andb_true_iff in E. destruct E as [E _]. apply iref_eqb_eq in E. subst i'. cbn. intro H. apply in_app_or in H.
    destruct H as [H|[<-|[]]]; auto. }
  assert (Hgo : forall o', get_op s' o' = get_op s o') by (intro; apply get_op_frame; unfold s'; rewrite upd_inv_eq; reflexivity).
  assert (Hao : forall o', op_alive s' o' = op_alive s o') by (intro; apply op_alive_frame; unfold s'; rewrite upd_inv_eq; reflexivity).
  apply (X_transfer ext s s'); try exact HX.
  - intros t' _. unfold s'. rewrite (get_task_frame s) by (rewrite upd_inv_eq; reflexivity). auto.
  - intros o' Ha. left. rewrite Hao in Ha. split; [exact Ha|]. split; [intros _; apply Hgo|intros _; unfold tsk; rewrite Hgo; reflexivity].
  - intros o' Ha _. rewrite Hao. exact Ha.
  - intros i' o' Hin'. destruct (Hq _ _ Hin') as [H|[-> ->]].
    + left. destruct (Q _ _ H) as [E _]. rewrite Hao, Hgo. auto.
    + right. rewrite Hao, Hgo. split; [exact Hal|]. split; [reflexivity|unfold tsk; rewrite Hgo; exact Hin].
  - intro i'. unfold s'. rewrite get_inv_upd_inv. destruct (iref_eqb i' i && inv_exists s i) eqn:E; [|apply Qn].
    cbn. pose proof (Qn i) as Hn. rewrite <- (rev_involutive (v_qops (get_inv s i) ++ [o])). apply NoDup_rev.
    rewrite rev_app_distr. cbn. constructor; [rewrite <- in_rev; exact Hnq|apply NoDup_rev; exact Hn].
  - intros w He _ _. unfold s'. rewrite (worker_exists_frame s), (get_worker_frame' s) by apply scqs_upd_inv. auto.
  - intros w t' He Hk _. unfold s' in *. rewrite (worker_exists_frame s) in He by apply scqs_upd_inv. rewrite (get_worker_frame' s) in Hk by apply scqs_upd_inv. auto.
  - intros w. unfold s'. rewrite (get_worker_frame' s) by apply scqs_upd_inv. apply C.
Qed.

(* a transfer lemma specialised to updates that leave tasks and operations alone *)
Lemma X_transfer_io : forall ext s s',
  s_tasks s' = s_tasks s -> s_ops s' = s_ops s ->
  (forall i o, In o (v_qops (get_inv s' i)) -> In o (v_qops (get_inv s i))) ->
  (forall i, NoDup (v_qops (get_inv s' i))) ->
  (forall w, worker_exists s w = true -> k_task (get_worker s w) <> None -> (forall t, k_task (get_worker s w) = Some t -> ~ In t ext) ->
             worker_exists s' w = true /\ k_task (get_worker s' w) = k_task (get_worker s w)) ->
  (forall w t, worker_exists s' w = true -> k_task (get_worker s' w) = Some t -> ~ In t ext ->
             worker_exists s w = true /\ k_task (get_worker s w) = Some t) ->
  (forall w, k_wait (get_worker s' w) = true -> True) ->
  X ext s -> X ext s'.
Proof.
  intros ext s s' E1 E2 HQ HQn HW1 HW2 HC HX. pose proof HX as [A B C Q Qn L O1 O2].
  assert (Hgo : forall o, get_op s' o = get_op s o) by (intro; apply get_op_frame; exact E2).
  assert (Hao : forall o, op_alive s' o = op_alive s o) by (intro; apply op_alive_frame; exact E2).
  apply (X_transfer ext s s'); try assumption.
  - intros t _. rewrite (get_task_frame s s' t E1). auto.
  - intros o Ha. left. rewrite Hao in Ha. split; [exact Ha|]. split; [intros _; apply Hgo|intros _; unfold tsk; rewrite Hgo; reflexivity].
  - intros o Ha _. rewrite Hao. exact Ha.
  - intros i o Hin. left. pose proof (HQ _ _ Hin) as H. destruct (Q _ _ H) as [E _]. rewrite Hao, Hgo. auto.
Qed.

Lemma qops_invs_new : forall s i z i',
  v_qops (get_inv (s <| s_invs ::= fun l => l ++ [(i, new_inv z)] |>) i') = v_qops (get_inv s i').
Proof.
  intros. unfold get_inv. cbn. rewrite (aget_app iref_eqb). destruct (aget iref_eqb i' (s_invs s)); [reflexivity|].
  cbn. destruct (iref_eqb i' i); reflexivity.
Qed.

Lemma X_invs_new : forall ext s i z, X ext s -> X ext (s <| s_invs ::= fun l => l ++ [(i, new_inv z)] |>).
Proof.
  intros ext s i z HX. pose proof HX as [A B C Q Qn L O1 O2].
  apply (X_transfer_io ext s); try reflexivity; try exact HX; auto.
  - intros i' o. rewrite qops_invs_new. auto.
  - intros i'. rewrite qops_invs_new. apply Qn.
Qed.

Lemma X_invs_del : forall ext s i, NoDup (map fst (s_invs s)) -> X ext s -> X ext (s <| s_invs := adel iref_eqb i (s_invs s) |>).
Proof.
  intros ext s i Hn HX. pose proof HX as [A B C Q Qn L O1 O2].
  apply (X_transfer_io ext s); try reflexivity; try exact HX; auto.
  - intros i' o. rewrite get_inv_adel by exact Hn. destruct (iref_eqb i' i); [intros []|auto].
  - intros i'. rewrite get_inv_adel by exact Hn. destruct (iref_eqb i' i); [constructor|apply Qn].
Qed.

Lemma X_newscq : forall ext s k b, X ext s ->
  X ext (s <| s_scqs ::= fun l => l ++ [(k, mkScq b None [] 0 [])] |> <| s_invs ::= fun l => l ++ [(mkI k [], new_inv 0)] |>).
Proof.
  intros ext s k b HX. pose proof HX as [A B C Q Qn L O1 O2].
  set (s' := s <| s_scqs ::= _ |> <| s_invs ::= _ |>).
  assert (Hq : forall k', q_workers (get_scq s' k') = q_workers (get_scq s k')).
  { intro k'. unfold s'. rewrite get_scq_app. unfold scq_exists, get_scq.
    destruct (aget skey_eqb k' (s_scqs s)); [reflexivity|]. destruct (skey_eqb k' k); reflexivity. }
  assert (Hw : forall w, get_worker s' w = get_worker s w) by (intro w; unfold get_worker; rewrite Hq; reflexivity).
  assert (Hex : forall w, worker_exists s' w = worker_exists s w) by (intro w; unfold worker_exists; rewrite Hq; reflexivity).
  assert (Hi : forall i, v_qops (get_inv s' i) = v_qops (get_inv s i)).
  { intro i. unfold s', get_inv. cbn. rewrite (aget_app iref_eqb). destruct (aget iref_eqb i (s_invs s)); [reflexivity|].
    cbn. destruct (iref_eqb i (mkI k [])); reflexivity. }
  apply (X_transfer_io ext s s'); try reflexivity; try exact HX.
  - intros i o. rewrite Hi. auto.
  - intros i. rewrite Hi. apply Qn.
  - intros w He _ _. rewrite Hex, Hw. auto.
  - intros w t He Hk _. rewrite Hex in He. rewrite Hw in Hk. auto.
Qed.

Lemma X_delscq : forall ext s k, NoDup (map fst (s_scqs s)) -> q_workers (get_scq s k) = [] -> X ext s ->
  X ext (s <| s_scqs := adel skey_eqb k (s_scqs s) |> <| s_invs := filter (fun '(i, _) => negb (skey_eqb (i_sk i) k)) (s_invs s) |>).
Proof.
  intros ext s k Hn Hnone HX. pose proof HX as [A B C Q Qn L O1 O2].
  set (s' := s <| s_scqs := _ |> <| s_invs := _ |>).
  assert (Hq : forall k', q_workers (get_scq s' k') = q_workers (get_scq s k')).
  { intro k'. unfold s', get_scq. cbn. destruct (skey_eqb k' k) eqn:E.
    - apply skey_eqb_eq in E. subst. rewrite (aget_adel_same skey_eqb skey_eqb_eq) by exact Hn. unfold get_scq in Hnone. rewrite Hnone. reflexivity.
    - rewrite (aget_adel_other skey_eqb skey_eqb_eq); [reflexivity|]. intros ->. rewrite skey_eqb_refl in E. discriminate. }
  assert (Hw : forall w, get_worker s' w = get_worker s w) by (intro w; unfold get_worker; rewrite Hq; reflexivity).
  assert (Hex : forall w, worker_exists s' w = worker_exists s w) by (intro w; unfold worker_exists; rewrite Hq; reflexivity).
  assert (Hi : forall i, get_inv s' i = if skey_eqb (i_sk i) k then dummy_inv else get_inv s i).
  { intro i. unfold s', get_inv. cbn. destruct (skey_eqb (i_sk i) k) eqn:E.
    - rewrite (aget_filter_drop iref_eqb iref_eqb_eq (fun i => negb (skey_eqb (i_sk i) k))); [reflexivity|]. cbn. rewrite E. reflexivity.
    - rewrite (aget_filter_keep iref_eqb iref_eqb_eq (fun i => negb (skey_eqb (i_sk i) k))); [reflexivity|]. cbn. rewrite E. reflexivity. }
  apply (X_transfer_io ext s s'); try reflexivity; try exact HX.
  - intros i o. rewrite Hi. destruct (skey_eqb (i_sk i) k); [intros []|auto].
  - intros i. rewrite Hi. destruct (skey_eqb (i_sk i) k); [constructor|apply Qn].
  - intros w He _ _. rewrite Hex, Hw. auto.
  - intros w t He Hk _. rewrite Hex in He. rewrite Hw in Hk. auto.
Qed.

(* queue records: updates that keep the worker table *)
Lemma X_upd_scq_keep : forall ext s k f, (forall q, q_workers (f q) = q_workers q) -> X ext s -> X ext (upd_scq k f s).
Proof.
  intros ext s k f Hf HX. pose proof HX as [A B C Q Qn L O1 O2].
  assert (Hw : forall w, get_worker (upd_scq k f s) w = get_worker s w) by (intro; apply get_worker_upd_scq_keep; exact Hf).
  assert (Hex : forall w, worker_exists (upd_scq k f s) w = worker_exists s w) by (intro; apply worker_exists_upd_scq_keep; exact Hf).
  assert (Hi : forall i, get_inv (upd_scq k f s) i = get_inv s i) by (intro; apply get_inv_frame; apply invs_upd_scq).
  apply (X_transfer_io ext s); try (rewrite upd_scq_eq; reflexivity); try exact HX.
  - intros i o. rewrite Hi. auto.
  - intros i. rewrite Hi. apply Qn.
  - intros w He _ _. rewrite Hex, Hw. auto.
  - intros w t He Hk _. rewrite Hex in He. rewrite Hw in Hk. auto.
Qed.

(* workers *)
Lemma X_upd_worker : forall ext s w f,
  let v := f (get_worker s w) in
  (forall t, k_task v = Some t -> k_task (get_worker s w) = Some t \/ In t ext) ->
  (forall t, k_task (get_worker s w) = Some t -> k_task v = Some t \/ In t ext) ->
  (k_wait v = true -> True) ->
  X ext s -> X ext (upd_worker w f s).
Proof.
  intros ext s w f v H1 H2 H3 HX. pose proof HX as [A B C Q Qn L O1 O2].
  set (s' := upd_worker w f s).
  assert (Hgw : forall w', get_worker s' w' = if wref_eqb w' w && worker_exists s w then v else get_worker s w') by (intro; apply get_worker_upd_worker).
  assert (Hex : forall w', worker_exists s' w' = worker_exists s w') by (intro; apply worker_exists_upd_worker).
  assert (Hi : forall i, get_inv s' i = get_inv s i) by (intro; apply get_inv_frame; apply invs_upd_worker).
  apply (X_transfer_io ext s s'); try (unfold s'; rewrite upd_worker_eq; reflexivity); try exact HX.
  - intros i o. rewrite Hi. auto.
  - intros i. rewrite Hi. apply Qn.
  - intros w' He Hk Hn. rewrite Hex, Hgw. split; [exact He|]. destruct (wref_eqb w' w && worker_exists s w) eqn:E; [|reflexivity].
    apply andb_true_iff in E. destruct E as [E _]. apply wref_eqb_eq in E. subst w'.
    destruct (k_task (get_worker s w)) as [t0|] eqn:Et; [|congruence]. destruct (H2 t0 eq_refl) as [Hv|Hin]; [exact Hv|].
    exfalso. exact (Hn t0 eq_refl Hin).
  - intros w' t He Hk Hn. rewrite Hex in He. rewrite Hgw in Hk. split; [exact He|].
    destruct (wref_eqb w' w && worker_exists s w) eqn:E; [|exact Hk].
    apply andb_true_iff in E. destruct E as [E _]. apply wref_eqb_eq in E. subst w'. destruct (H1 t Hk) as [Ho|Hin]; [exact Ho|contradiction].
Qed.

Lemma X_newworker : forall ext s w n, worker_exists s w = false -> X ext s ->
  X ext (upd_scq (w_sk w) (fun q => q <| q_workers ::= fun l => l ++ [(w, mkWorker None None false (Some []) false (repeat 0 n))] |>) s).
Proof.
  intros ext s w n Hne HX. pose proof HX as [A B C Q Qn L O1 O2].
  set (v := mkWorker None None false (Some []) false (repeat 0 n)).
  set (s' := upd_scq (w_sk w) _ s).
  assert (Hgw : forall w', get_worker s' w' = get_worker s w' \/ (w' = w /\ get_worker s' w' = v)).
  { intro w'. destruct (wref_eq_dec w' w) as [->|Hne'].
    - destruct (scq_exists s (w_sk w)) eqn:Es.
      + right. split; [reflexivity|]. apply (get_worker_newworker_aux s w v Es Hne).
      + left. unfold s', upd_scq. unfold scq_exists in Es. destruct (aget skey_eqb (w_sk w) (s_scqs s)); [discriminate|reflexivity].
    - left. unfold s', get_worker. rewrite get_scq_upd_scq.
      destruct (skey_eqb (w_sk w') (w_sk w) && scq_exists s (w_sk w)) eqn:E; [|reflexivity].
      apply andb_true_iff in E. destruct E as [E _]. apply skey_eqb_eq in E. cbn. rewrite (aget_app wref_eqb). rewrite E.
      destruct (aget wref_eqb w' (q_workers (get_scq s (w_sk w)))); [reflexivity|]. cbn.
      rewrite (eqb_false_of wref_eqb wref_eqb_eq _ _ Hne'). reflexivity. }
  assert (Hex : forall w', worker_exists s' w' = true -> worker_exists s w' = true \/ w' = w).
  { intros w' H. destruct (wref_eq_dec w' w) as [->|Hne']; [right; reflexivity|left].
    unfold s', worker_exists in *. rewrite get_scq_upd_scq in H.
    destruct (skey_eqb (w_sk w') (w_sk w) && scq_exists s (w_sk w)) eqn:E; [|exact H].
    apply andb_true_iff in E. destruct E as [E _]. apply skey_eqb_eq in E. cbn in H. rewrite (aget_app wref_eqb) in H. rewrite E.
    destruct (aget wref_eqb w' (q_workers (get_scq s (w_sk w)))); [reflexivity|]. cbn in H.
    rewrite (eqb_false_of wref_eqb wref_eqb_eq _ _ Hne') in H. discriminate. }
  assert (Hex2 : forall w', worker_exists s w' = true -> worker_exists s' w' = true).
  { intros w' H. unfold s', worker_exists in *. rewrite get_scq_upd_scq.
    destruct (skey_eqb (w_sk w') (w_sk w) && scq_exists s (w_sk w)) eqn:E; [|exact H].
    apply andb_true_iff in E. destruct E as [E _]. apply skey_eqb_eq in E. cbn. rewrite (aget_app wref_eqb).
    rewrite <- E. destruct (aget wref_eqb w' (q_workers (get_scq s (w_sk w')))); [reflexivity|discriminate]. }
  assert (Hi : forall i, get_inv s' i = get_inv s i) by (intro; apply get_inv_frame; apply invs_upd_scq).
  apply (X_transfer_io ext s s'); try (unfold s'; rewrite upd_scq_eq; reflexivity); try exact HX.
  - intros i o. rewrite Hi. auto.
  - intros i. rewrite Hi. apply Qn.
  - intros w' He Hk _. split; [apply Hex2; exact He|]. destruct (Hgw w') as [E | [ -> _ ]]; [rewrite E; reflexivity|congruence].
  - intros w' t He Hk _. destruct (Hgw w') as [E | [ -> E ]]; [|rewrite E in Hk; discriminate]. rewrite E in Hk.
    destruct (Hex w' He) as [H | -> ]; [auto|]. exfalso. unfold get_worker, worker_exists in *. destruct (aget wref_eqb w (q_workers (get_scq s (w_sk w)))); [discriminate|discriminate].
Qed.

Lemma X_delworker : forall ext s w, NoDup (map fst (q_workers (get_scq s (w_sk w)))) ->
  (forall t, k_task (get_worker s w) = Some t -> In t ext) -> X ext s ->
  X ext (upd_scq (w_sk w) (fun q => q <| q_workers ::= adel wref_eqb w |>) s).
Proof.
  intros ext s w Hn Hk HX. pose proof HX as [A B C Q Qn L O1 O2].
  set (s' := upd_scq (w_sk w) _ s).
  assert (Hgw : forall w', get_worker s' w' = if wref_eqb w' w then dummy_worker else get_worker s w') by (intro; apply get_worker_delworker; exact Hn).
  assert (Hex : forall w', worker_exists s' w' = if wref_eqb w' w then false else worker_exists s w') by (intro; apply worker_exists_delworker; exact Hn).
  assert (Hi : forall i, get_inv s' i = get_inv s i) by (intro; apply get_inv_frame; apply invs_upd_scq).
  apply (X_transfer_io ext s s'); try (unfold s'; rewrite upd_scq_eq; reflexivity); try exact HX.
  - intros i o. rewrite Hi. auto.
  - intros i. rewrite Hi. apply Qn.
  - intros w' He Hk' Hn'. rewrite Hex, Hgw. destruct (wref_eqb w' w) eqn:E; [|auto].
    apply wref_eqb_eq in E. subst w'. exfalso. destruct (k_task (get_worker s w)) as [t|] eqn:Et; [|congruence]. exact (Hn' t eq_refl (Hk t eq_refl)).
  - intros w' t He Hk' _. rewrite Hex in He. rewrite Hgw in Hk'. destruct (wref_eqb w' w); [discriminate|auto].
Qed.

(* ---- leaving a critical section ------------------------------------------------------------------------------ *)
Lemma X_drop : forall ext t s,
  X (t :: ext) s ->
  (forall w, t_worker (get_task s t) = Some w ->
     is_phantom w = false /\ worker_exists s w = true /\ k_task (get_worker s w) = Some t /\ t_resp (get_task s t) = None) ->
  (forall w, worker_exists s w = true -> k_task (get_worker s w) = Some t -> t_worker (get_task s t) = Some w) ->
  (forall o, op_alive s o = true -> tsk s o = t -> queued s o -> idle_live s t) ->
  (forall o, op_alive s o = true -> tsk s o = t -> In (o_inv (get_op s o), o) (t_ops (get_task s t))) ->
  (forall i o, In (i, o) (t_ops (get_task s t)) -> op_alive s o = true /\ tsk s o = t /\ o_inv (get_op s o) = i) ->
  X ext s.
Proof.
  intros ext t s [A B C Q Qn L O1 O2] D1 D2 D3 D4 D5.
  assert (Hcase : forall t', ~ In t' ext -> t' = t \/ ~ In t' (t :: ext)).
  { intros t' Hn. destruct (Nat.eq_dec t' t) as [->|Hne]; [left; reflexivity|right]. intros [H|H]; [congruence|contradiction]. }
  constructor; auto.
  - intros t' w Hn Hw. destruct (Hcase t' Hn) as [->|Hn']; [apply D1; exact Hw|apply A; assumption].
  - intros w t' He Hk Hn. destruct (Hcase t' Hn) as [->|Hn']; [apply D2; assumption|apply B; assumption].
  - intros o Ha Hn Hq. destruct (Hcase _ Hn) as [E|Hn']; [rewrite E; apply (D3 o Ha E Hq)|apply L; assumption].
  - intros o Ha Hn. destruct (Hcase _ Hn) as [E|Hn']; [rewrite E; apply (D4 o Ha E)|apply O1; assumption].
  - intros t' i o Hn Hin. destruct (Hcase t' Hn) as [->|Hn']; [apply D5; exact Hin|apply O2; assumption].
Qed.

(* ---- the operation table: distinct, bounded indices ------------------------------------------------------------ *)
Definition ON (s : state) : Prop :=
  NoDup (map fst (s_ops s)) /\ forall o, In o (map fst (s_ops s)) -> (o < s_nops s)%nat.

Lemma ON_frame : forall s s', s_ops s' = s_ops s -> s_nops s' = s_nops s -> ON s -> ON s'.
Proof. unfold ON. intros s s' -> ->. auto. Qed.
Lemma ON_upd_op : forall s o f, ON s -> ON (upd_op o f s).
Proof.
  unfold ON, upd_op. intros s o f [H1 H2]. destruct (aget Nat.eqb o (s_ops s)) eqn:E; [|auto]. cbn.
  rewrite (map_fst_aset Nat.eqb nat_eqb_eq), E. auto.
Qed.
Lemma ON_newop : forall s x, ON s -> ON (s <| s_nops ::= S |> <| s_ops ::= fun l => l ++ [(s_nops s, x)] |>).
Proof.
  unfold ON. intros s x [H1 H2]. cbn. rewrite map_app. cbn. split.
  - rewrite <- (rev_involutive (map fst (s_ops s) ++ [s_nops s])). apply NoDup_rev. rewrite rev_app_distr. cbn.
    constructor; [rewrite <- in_rev; intro Hin; specialize (H2 _ Hin); lia|apply NoDup_rev; exact H1].
  - intros o Ho. apply in_app_or in Ho. destruct Ho as [Ho|[<-|[]]]; [specialize (H2 _ Ho)|]; lia.
Qed.
Lemma ON_delop : forall s o, ON s -> ON (s <| s_ops := adel Nat.eqb o (s_ops s) |>).
Proof.
  unfold ON. intros s o [H1 H2]. cbn. split; [apply (NoDup_keys_adel Nat.eqb); exact H1|].
  intros o' Ho'. apply H2. eapply map_fst_adel_incl. exact Ho'.
Qed.

(* no registered worker carries the id the scheduler uses for "no worker" *)
Definition NPh (s : state) : Prop := forall w, worker_exists s w = true -> is_phantom w = false.
Lemma NPh_mono : forall s s', (forall w, worker_exists s' w = true -> worker_exists s w = true) -> NPh s -> NPh s'.
Proof. unfold NPh. intros s s' H H0 w Hw. apply H0. apply H. exact Hw. Qed.
