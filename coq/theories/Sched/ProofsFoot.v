(* Footprints: which components of the state the functions of the model leave
   alone.  Instances of the generic frame lemmas of ProofsFrame.v. *)
From Coq Require Import Lia.
From VF Require Export Sched.ProofsFrame.
Open Scope Z_scope.

(* ---- the in-flight map ---------------------------------------------------------------- *)
Definition keeps_inflight (l : list ((list N * N) * nat)) (s : state) : Prop := s_inflight s = l.
Ltac t_inflight := intros; unfold keeps_inflight in *; prim_unfold; prim_cases; cbn; assumption.

Lemma exec_start_dnc_keeps_inflight : forall c a s,
  x_dnc a = true -> s_inflight (exec_start c a s) = s_inflight s.
Proof.
  intros c a s Hd. change (keeps_inflight (s_inflight s) (exec_start c a s)).
  assert (H : keeps_inflight (s_inflight s) s) by reflexivity. revert H. generalize (s_inflight s) as l. intros l H.
  unfold exec_start, new_operation. rewrite Hd.
  fr_go (keeps_inflight l) t_inflight.
Qed.
