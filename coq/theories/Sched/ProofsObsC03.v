(* C03: the state predicates Spec.c03_dump and Spec.c03_waited on observed reachable states. *)
From Coq Require Import Lia.
From VF Require Import Sched.Spec.
From VF Require Export Sched.ProofsObsC01.
From VF Require Import Sched.ProofsC01 Sched.ProofsInflight Sched.ProofsWaiters.
Open Scope Z_scope.

(* an operation somebody waits on has no abandonment time-out pending *)
Lemma c03_waited_ok : forall cfg t0 evs, fresh_calls [] evs ->
  c03_waited (observe (fst (run (init cfg t0) evs))) = ""%string.
Proof.
  intros cfg t0 evs Hf. set (s := fst (run (init cfg t0) evs)).
  destruct (waiters_all cfg t0 evs Hf) as [_ [_ [Hnd [_ [_ [HC _]]]]]]. fold s in Hnd, HC.
  unfold c03_waited. apply first_nonempty_all_empty. intros y Hy. apply in_map_iff in Hy. destruct Hy as [d [Ey Hd]]. subst y.
  unfold observe in Hd. cbn [d_ops] in Hd. apply in_map_iff in Hd. destruct Hd as [[o x] [Ed Hin]]. subst d.
  unfold observe_op. cbn [do_waiters do_cleanup].
  pose proof (In_aget_NoDup Nat.eqb nat_eqb_eq _ _ _ Hnd Hin) as Ea.
  destruct (o_cleanup x) eqn:Ec; [|rewrite andb_false_r; reflexivity].
  rewrite (HC o x Ea) by (rewrite Ec; discriminate). reflexivity.
Qed.

Lemma min_nat_in : forall l, l <> [] -> In (min_nat l) l.
Proof.
  intros l Hne. unfold min_nat. destruct l as [|x l]; [congruence|]. cbn [hd].
  assert (H : forall l a, In a (x :: l) -> In (fold_left Nat.min l a) (x :: l) \/ False -> True) by auto.
  assert (Hgen : forall (l0 : list nat) a acc, In a acc -> incl l0 acc -> In (fold_left Nat.min l0 a) acc).
  { induction l0 as [|y l0 IH]; intros a acc Ha Hi; cbn [fold_left]; [exact Ha|].
    apply IH; [|intros z Hz; apply Hi; right; exact Hz].
    destruct (Nat.min_spec a y) as [[_ E]|[_ E]]; rewrite E; [exact Ha|apply Hi; left; reflexivity]. }
  apply Hgen; [left; reflexivity|apply incl_refl].
Qed.

Lemma c03_dump_ok : forall cfg t0 evs, no_phantom_sync evs ->
  c03_dump (observe (fst (run (init cfg t0) evs))) = ""%string.
Proof.
  intros cfg t0 evs Hnp. set (s := fst (run (init cfg t0) evs)).
  pose proof (reach_G cfg t0 evs Hnp) as HG. fold s in HG. pose proof (G_XS _ HG) as HXS. pose proof (XS_X _ _ HXS) as HX.
  destruct (XS_ON _ _ HXS) as [Hndo _].
  pose proof (inflight_exact_all cfg t0 evs) as HI. fold s in HI. destruct HI as [I1 [I2 I3]].
  (* an observed operation of a live cacheable task: its task record is in the table *)
  assert (Hlive : forall o x, In (o, x) (s_ops s) -> Spec.live_cacheable (observe_op s o x) = true ->
            exists y, aget Nat.eqb (o_task x) (s_tasks s) = Some y /\ get_task s (o_task x) = y /\ ProofsInflight.live_cacheable y /\
                      In o (map snd (t_ops y))).
  { intros o x Hin Hl. unfold Spec.live_cacheable, observe_op in Hl. cbn [do_resp do_action] in Hl.
    destruct (t_resp (get_task s (o_task x))) eqn:Er; [discriminate|]. destruct (t_dnc (get_task s (o_task x))) as [[|]|] eqn:Ed; try discriminate.
    unfold get_task in *. destruct (aget Nat.eqb (o_task x) (s_tasks s)) as [y|] eqn:Ey; [|cbn in Ed; discriminate].
    exists y. split; [reflexivity|]. split; [reflexivity|]. split; [split; assumption|].
    pose proof (In_aget_NoDup Nat.eqb nat_eqb_eq _ _ _ Hndo Hin) as Ea.
    assert (Hal : op_alive s o = true) by (unfold op_alive; rewrite Ea; reflexivity).
    pose proof (XO1 _ _ HX o Hal (fun F => F)) as Hlst. unfold tsk, get_op in Hlst. rewrite Ea in Hlst. unfold get_task in Hlst. rewrite Ey in Hlst.
    apply in_map_iff. exists (o_inv x, o). auto. }
  unfold c03_dump. apply first_nonempty_all_empty. intros y Hy. apply in_app_or in Hy. destruct Hy as [Hy|Hy].
  - apply in_map_iff in Hy. destruct Hy as [d [Ey Hd]]. subst y.
    unfold observe in Hd. cbn [d_ops] in Hd. apply in_map_iff in Hd. destruct Hd as [[o x] [Ed Hin]]. subst d.
    destruct (Spec.live_cacheable (observe_op s o x)) eqn:El; [|reflexivity].
    destruct (Hlive o x Hin El) as [y [Ey [Eg [Hly Hoy]]]].
    pose proof (I3 _ _ Ey Hly) as Hfl.
    (* the observed in-flight map *)
    assert (Hfind : find (fun '(k, _) => dkey_eqb k (dkey_of (observe_op s o x))) (d_inflight (observe s))
                    = Some (tkey y, min_nat (task_opids s (o_task x)))).
    { unfold observe. cbn [d_inflight]. unfold dkey_of, observe_op. cbn [do_instance do_digest]. rewrite Eg. fold (tkey y).
      revert Hfl. clear. induction (s_inflight s) as [|[k t] l IH]; cbn; [discriminate|]. intro H.
      rewrite (eqb_sym_of dkey_eqb dkey_eqb_eq k (tkey y)). destruct (dkey_eqb (tkey y) k) eqn:E.
      - apply dkey_eqb_eq in E. subst k. inversion H; subst. reflexivity.
      - apply IH. exact H. }
    rewrite Hfind. unfold observe_op. cbn [do_taskops]. unfold task_opids. rewrite Eg.
    assert (Hm : existsb (Nat.eqb (min_nat (map snd (t_ops y)))) (map snd (t_ops y)) = true).
    { apply existsb_exists. exists (min_nat (map snd (t_ops y))). split; [|apply Nat.eqb_refl]. apply min_nat_in. intro E. rewrite E in Hoy. destruct Hoy. }
    rewrite Hm. reflexivity.
  - apply in_map_iff in Hy. destruct Hy as [d [Ey Hd]]. subst y.
    unfold observe in Hd. cbn [d_ops] in Hd. apply in_map_iff in Hd. destruct Hd as [[o x] [Ed Hin]]. subst d.
    destruct (Spec.live_cacheable (observe_op s o x)) eqn:El; [|reflexivity]. cbn [andb].
    match goal with |- (if ?b then _ else _) = _ => assert (Hb : b = false); [|rewrite Hb; reflexivity] end.
    apply not_true_is_false. intro Hex. apply existsb_exists in Hex. destruct Hex as [d' [Hd' Hc]].
    unfold observe in Hd'. cbn [d_ops] in Hd'. apply in_map_iff in Hd'. destruct Hd' as [[o' x'] [Ed' Hin']]. subst d'.
    apply andb_true_iff in Hc. destruct Hc as [Hc Hns]. apply andb_true_iff in Hc. destruct Hc as [El' Hk].
    destruct (Hlive o x Hin El) as [y [Ey [Eg [Hly _]]]]. destruct (Hlive o' x' Hin' El') as [y' [Ey' [Eg' [Hly' _]]]].
    apply dkey_eqb_eq in Hk. unfold dkey_of, observe_op in Hk. cbn [do_instance do_digest] in Hk. rewrite Eg, Eg' in Hk.
    assert (Et : o_task x = o_task x') by (eapply (Inf_unique s); [split; [exact I1|split; [exact I2|exact I3]]|exact Ey|exact Ey'|exact Hly|exact Hly'|exact Hk]).
    apply negb_true_iff in Hns. unfold same_task, observe_op in Hns. cbn [do_taskops] in Hns. rewrite Et, same_set_refl in Hns. discriminate.
Qed.
