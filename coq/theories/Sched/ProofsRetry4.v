(* The model's retry counter over one event (model side of positions 14 / 15 of the monitor; independent of Spec.v):
   every event leaves t_retry of every task unchanged, or resets it to 0 (an assignment, a new task), or -- a Synchronize
   event only, in get_current_or_next -- adds one.  Proved with the generic frame lemmas of ProofsFrame.v: the footprint
   relations RZ / RS are closed under every primitive update except "t_retry ::= S". *)
From Coq Require Import Lia.
From VF Require Export Sched.ProofsRoute.
Open Scope Z_scope.

Definition RZ (s0 s : state) : Prop :=
  forall T, t_retry (get_task s T) = t_retry (get_task s0 T) \/ t_retry (get_task s T) = 0%nat.
(* ... or counted once, possibly after a reset within the same event *)
Definition RS (s0 s : state) : Prop :=
  forall T, t_retry (get_task s T) = t_retry (get_task s0 T) \/ t_retry (get_task s T) = 0%nat \/
            t_retry (get_task s T) = S (t_retry (get_task s0 T)) \/ t_retry (get_task s T) = 1%nat.

Lemma RZ_refl : forall s, RZ s s.
Proof. intros s T. left. reflexivity. Qed.
Lemma RZ_RS : forall s0 s, RZ s0 s -> RS s0 s.
Proof. intros s0 s H T. destruct (H T) as [E|E]; [left|right; left]; exact E. Qed.

Lemma get_task_new : forall s T x (f : state -> state),
  s_tasks (f s) = s_tasks s ++ [(s_ntasks s, x)] ->
  get_task (f s) T = get_task s T \/ get_task (f s) T = x.
Proof.
  intros s T x f E. unfold get_task. rewrite E, (aget_app Nat.eqb). destruct (aget Nat.eqb T (s_tasks s)) as [y|]; [left; reflexivity|].
  cbn [aget]. destruct (Nat.eqb T (s_ntasks s)); [right; reflexivity|left; reflexivity].
Qed.

(* closure of RZ s0 / RS s0 under a primitive update that is not "t_retry ::= S" *)
Ltac t_rel R :=
  intros; unfold R in *;
  let T := fresh "T" in intro T;
  match goal with H : forall T0 : nat, _ |- _ => specialize (H T) end;
  first [ (erewrite get_task_frame; [eassumption | prim_unfold; prim_cases; reflexivity])
        | (rewrite get_task_upd_task;
           let E := fresh "E" in
           destruct (Nat.eqb T _) eqn:E;
           [ apply Nat.eqb_eq in E; subst T; cbn; first [assumption | tauto] | assumption ])
        | (match goal with |- context [get_task ?s1 T] =>
             lazymatch s1 with
             | set _ _ _ =>
               let Hn := fresh "Hn" in
               match goal with Hs : context [get_task ?s2 T] |- _ =>
                 destruct (get_task_new s2 T _ (fun _ => s1) eq_refl) as [Hn|Hn]; rewrite Hn; cbn; first [assumption | tauto]
               end
             end
           end) ].
Ltac t_rz := t_rel RZ.
Ltac t_rs := t_rel RS.

(* ---- the one place that counts ------------------------------------------------------------------------------------------------------------------------ *)
Lemma RS_count : forall s0 s t, RZ s0 s -> RS s0 (upd_task t (fun x => x <| t_retry ::= S |>) s).
Proof.
  intros s0 s t H T. rewrite get_task_upd_task. destruct (Nat.eqb T t) eqn:E; [|destruct (H T) as [A|A]; [left|right; left]; exact A].
  apply Nat.eqb_eq in E. subst T. cbn. destruct (H t) as [A|A]; rewrite A; [right; right; left; reflexivity|right; right; right; reflexivity].
Qed.

Section Sync.
  Variable c0 : nat.
  Variable s0 : state.

  Lemma RZ_enter : forall t s, RZ s0 s -> RZ s0 (enter t s).
  Proof. intros t s H. fr_go (RZ s0) t_rz. Qed.

  Lemma RZ_complete_task : forall t r b s, RZ s0 s -> RZ s0 (complete_task t r b s).
  Proof. intros t r b s H. fr_go (RZ s0) t_rz. Qed.

  Lemma RZ_get_next_task : forall w bl pr s, RZ s0 s -> RZ s0 (get_next_task c0 w bl pr s).
  Proof. intros w bl pr s H. fr_go (RZ s0) t_rz. Qed.

  Lemma RS_sync_return_exec : forall w s, RS s0 s -> RS s0 (sync_return_exec c0 w s).
  Proof. intros w s H. fr_go (RS s0) t_rs. Qed.

  Lemma RS_get_current_or_next : forall w bl pr s, RZ s0 s -> RS s0 (get_current_or_next c0 w bl pr s).
  Proof.
    intros w bl pr s H. unfold get_current_or_next. destruct (k_task (get_worker s w)) as [t|]; [|apply RZ_RS, RZ_get_next_task; exact H].
    destruct (Nat.ltb _ _); [apply RS_sync_return_exec, RS_count; exact H|apply RZ_RS, RZ_get_next_task, RZ_complete_task; exact H].
  Qed.

  Lemma RS_sync_start : forall a s, RZ s0 s -> RS s0 (sync_start c0 a s).
  Proof.
    intros a s H. unfold sync_start. cbv zeta.
    repeat fr_destruct_head;
      first [ apply RS_get_current_or_next; fr_go (RZ s0) t_rz
            | apply RZ_RS; fr_go (RZ s0) t_rz ].
  Qed.

  Definition is_sync (e : event) : bool := match e with EStartSync _ _ _ => true | _ => false end.

  Lemma RZ_step_core : forall e s, ev_call e = c0 -> is_sync e = false -> RZ s0 s -> RZ s0 (step_core e s).
  Proof.
    intros e s Hc Hs H. destruct e; cbn [ev_call] in Hc; try discriminate Hs; subst; unfold step_core; cbv zeta;
      try solve [fr_go (RZ s0) t_rz].
  Qed.
End Sync.

(* ---- one event ------------------------------------------------------------------------------------------------------------------------------------------ *)
Lemma RS_step_core : forall s0 e s, RZ s0 s -> RS s0 (step_core e s).
Proof.
  intros s0 e s H. destruct (is_sync e) eqn:Es.
  - destruct e; try discriminate Es. unfold step_core. apply RS_sync_start. apply RZ_enter. exact H.
  - apply RZ_RS. apply (RZ_step_core (ev_call e)); [reflexivity|exact Es|exact H].
Qed.

Theorem retry_counter_step : forall s eh, RS s (fst (step s eh)).
Proof.
  intros s eh. unfold step. cbn [fst]. unfold auto_returns.
  assert (H : RS s (step_core (fst eh) (s <| s_hints := snd eh |> <| s_out := [] |>))).
  { apply RS_step_core. assert (H0 : RZ s s) by apply RZ_refl. fr_go (RZ s) t_rz. }
  fr_go (RS s) t_rs.
Qed.

Theorem retry_counter_step_nonsync : forall s eh, is_sync (fst eh) = false -> RZ s (fst (step s eh)).
Proof.
  intros s eh Hs. unfold step. cbn [fst]. unfold auto_returns.
  assert (H : RZ s (step_core (fst eh) (s <| s_hints := snd eh |> <| s_out := [] |>))).
  { apply (RZ_step_core (ev_call (fst eh))); [reflexivity|exact Hs|]. assert (H0 : RZ s s) by apply RZ_refl. fr_go (RZ s) t_rz. }
  fr_go (RZ s) t_rz.
Qed.

(* ---- the counter never exceeds WorkerTaskRetryCount ---------------------------------------------------------------------------------------------- *)
Definition RB (lim : nat) (s : state) : Prop :=
  cf_retry_count (s_cfg s) = lim /\ forall T, (t_retry (get_task s T) <= lim)%nat.

Ltac t_rb :=
  intros; unfold RB in *;
  match goal with H : _ /\ _ |- _ => let Hc := fresh "Hc" in let Hb := fresh "Hb" in destruct H as [Hc Hb]; split;
    [ prim_unfold; prim_cases; cbn; exact Hc
    | let T := fresh "T" in intro T; specialize (Hb T);
      first [ (erewrite get_task_frame; [eassumption | prim_unfold; prim_cases; reflexivity])
            | (rewrite get_task_upd_task;
               let E := fresh "E" in
               destruct (Nat.eqb T _) eqn:E;
               [ apply Nat.eqb_eq in E; subst T; cbn; first [assumption | lia] | assumption ])
            | (match goal with |- context [get_task ?s1 T] =>
                 lazymatch s1 with
                 | set _ _ _ =>
                   let Hn := fresh "Hn" in
                   match goal with Hs : context [get_task ?s2 T] |- _ =>
                     destruct (get_task_new s2 T _ (fun _ => s1) eq_refl) as [Hn|Hn]; rewrite Hn; cbn; first [assumption | lia]
                   end
                 end
               end) ] ] end.

Section Bound.
  Variable c0 : nat.
  Variable lim : nat.

  Lemma RB_get_current_or_next : forall w bl pr s, RB lim s -> RB lim (get_current_or_next c0 w bl pr s).
  Proof.
    intros w bl pr s H. unfold get_current_or_next. destruct (k_task (get_worker s w)) as [t|]; [|fr_go (RB lim) t_rb].
    destruct (Nat.ltb _ _) eqn:El; [|fr_go (RB lim) t_rb].
    assert (H1 : RB lim (upd_task t (fun x => x <| t_retry ::= S |>) s)).
    { destruct H as [Hc Hb]. split; [exact Hc|]. intro T. rewrite get_task_upd_task. destruct (Nat.eqb T t) eqn:E; [|apply Hb].
      apply Nat.eqb_eq in E. subst T. cbn. apply Nat.ltb_lt in El. rewrite Hc in El. lia. }
    fr_go (RB lim) t_rb.
  Qed.

  Lemma RB_sync_start : forall a s, RB lim s -> RB lim (sync_start c0 a s).
  Proof.
    intros a s H. unfold sync_start. cbv zeta.
    repeat fr_destruct_head;
      first [ apply RB_get_current_or_next; fr_go (RB lim) t_rb
            | fr_go (RB lim) t_rb ].
  Qed.

  Lemma RB_step_core : forall e s, ev_call e = c0 -> RB lim s -> RB lim (step_core e s).
  Proof.
    intros e s Hc H. destruct (is_sync e) eqn:Es.
    - destruct e; try discriminate Es. cbn [ev_call] in Hc. subst c. unfold step_core. apply RB_sync_start. fr_go (RB lim) t_rb.
    - destruct e; cbn [ev_call] in Hc; try discriminate Es; subst; unfold step_core; cbv zeta; fr_go (RB lim) t_rb.
  Qed.
End Bound.

Lemma RB_step : forall lim s eh, RB lim s -> RB lim (fst (step s eh)).
Proof.
  intros lim s eh H0. unfold step. cbn [fst]. unfold auto_returns.
  assert (H : RB lim (step_core (fst eh) (s <| s_hints := snd eh |> <| s_out := [] |>))).
  { apply (RB_step_core (ev_call (fst eh))); [reflexivity|]. fr_go (RB lim) t_rb. }
  fr_go (RB lim) t_rb.
Qed.

Lemma RB_run : forall lim evs s, RB lim s -> RB lim (fst (run s evs)).
Proof.
  intros lim. induction evs as [|eh evs IH]; intros s H; cbn [run fst]; [exact H|].
  pose proof (RB_step lim s eh H) as H1. destruct (step s eh) as [s1 o]. cbn [fst] in H1.
  specialize (IH s1 H1). destruct (run s1 evs) as [s2 os]. exact IH.
Qed.

(* all event lists, no hypothesis: a task's retry counter never exceeds the configured WorkerTaskRetryCount *)
Theorem retry_counter_bounded : forall cfg t0 evs T,
  (t_retry (get_task (fst (run (init cfg t0) evs)) T) <= cf_retry_count cfg)%nat.
Proof.
  intros cfg t0 evs T. assert (H : RB (cf_retry_count cfg) (init cfg t0)) by (split; [reflexivity|intro T'; cbn; lia]).
  exact (proj2 (RB_run _ evs _ H) T).
Qed.
