(* C06, retry bookkeeping of the monitor (positions 14 e_retry and 15 e_early of Spec.p_step) on the model's own traces.

   WANTED (monitor_retry_on_model / monitor_early_on_model), in the shape of the other monitor_*_on_model theorems:
     forall cfg t0 evs, selectors_in_range (init cfg t0) evs -> fresh_calls [] evs -> bg_scripts_ok evs ->
       learner_ids_unique evs -> causes_ok evs ->
       panicked (snd (run (init cfg t0) evs)) \/ trace_sub [14] cfg t0 (model_trace cfg t0 evs) = true        (and [15])
   NOT PROVED YET.  Two attempts on 2026-09-23 each ended in a model trace the monitor of the day rejected; Spec.p_step
   was repaired twice, and the witnesses are the regression Examples of this file (all 22 positions accept them now):

   FIRST ROUND (rw5_evs, rw6_evs; ProofsRetry1.v): a task retried after a worker-reported failure and handed back to the
   reporting worker keeps its operations, so the stored count survived the model's reset at the assignment; positions 14
   ("C06:task-reissued-beyond-retry-limit") and 15 ("C06:task-failed-before-retry-limit").  Repair: an accepted completion
   report deletes m_reissue[w].
   SECOND ROUND (rw7_evs; ProofsRetry3.v): the operation list of the held task was compared only between two re-requests; in
   between, deduplication attached a new operation and the no-waiter clean-up removed the old one, the lists were
   disjoint, the monitor restarted its count while the model went on; position 15.  Repair: every entry follows its task
   through every post dump (and is dropped when the worker no longer holds it).

   The invariant for the proof is now: m_reissue[w] = (ops0, n) iff w holds an uncompleted task whose operation list is
   ops0 and whose t_retry is n > 0 ... precisely: an entry (ops0, n) of w means w holds a task with exactly these operations
   and t_retry = n; a worker that holds a task and has no entry has t_retry = 0 (docs/areas/Sched-retry-proofs.md). *)
From VF Require Import Sched.ProofsRetry1 Sched.ProofsRetry2 Sched.ProofsRetry3 Sched.ProofsRetry4 Sched.ProofsRetry5 Sched.ProofsRetry6 Sched.ProofsRetry7 Sched.Spec Sched.Corr.
Open Scope Z_scope.

(* ---- building blocks that ARE proved (all closed under the global context) ----------------------------------------------------------------------- *)

(* model side, every state and every event (no reachability, no hypothesis): one event leaves the retry counter of every task
   unchanged, or resets it to 0 (assignment / new task), or counts one re-request (S of the old value; 1 if the task was
   also reset within the event); only a Synchronize event can count *)
Theorem retry_counter_step : forall s eh T,
  let s' := fst (step s eh) in
  t_retry (get_task s' T) = t_retry (get_task s T) \/ t_retry (get_task s' T) = 0%nat \/
  t_retry (get_task s' T) = S (t_retry (get_task s T)) \/ t_retry (get_task s' T) = 1%nat.
Proof. exact retry_counter_step. Qed.
Print Assumptions retry_counter_step.

Theorem retry_counter_step_nonsync : forall s eh T, (forall c a t, fst eh <> EStartSync c a t) ->
  let s' := fst (step s eh) in
  t_retry (get_task s' T) = t_retry (get_task s T) \/ t_retry (get_task s' T) = 0%nat.
Proof.
  intros s eh T H. apply retry_counter_step_nonsync. destruct (fst eh) eqn:E; try reflexivity. exfalso. exact (H _ _ _ eq_refl).
Qed.
Print Assumptions retry_counter_step_nonsync.

(* model side, all event lists, no hypothesis: the counter never exceeds WorkerTaskRetryCount (so the scheduler never tells a
   worker again beyond the limit: the model-side content of position 14) *)
Theorem retry_counter_bounded : forall cfg t0 evs T,
  (t_retry (get_task (fst (run (init cfg t0) evs)) T) <= cf_retry_count cfg)%nat.
Proof. exact retry_counter_bounded. Qed.
Print Assumptions retry_counter_bounded.

(* model side, every state and every event: a task that is assigned to worker w after the event was assigned to w before it
   with the same counter (or one more: Synchronize events only), or its counter has just been reset (0; 1 if it was also
   counted).  The assignment writes t_worker and t_retry := 0 in one primitive update *)
Theorem assigned_retry_step : forall s eh T w,
  let s' := fst (step s eh) in
  t_worker (get_task s' T) = Some w ->
  (t_worker (get_task s T) = Some w /\ (t_retry (get_task s' T) = t_retry (get_task s T) \/ t_retry (get_task s' T) = S (t_retry (get_task s T)))) \/
  t_retry (get_task s' T) = 0%nat \/ t_retry (get_task s' T) = 1%nat.
Proof. exact assigned_retry_step. Qed.
Print Assumptions assigned_retry_step.

(* the same for the task a registered worker holds, in reachable states (through workers_tasks_inverse): after one event of
   a run a registered worker that holds T holds it uncompleted, and either it was registered and held T before with the
   same counter (one more in a Synchronize event), or T's counter is 0 (1 in a Synchronize event) *)
Theorem held_retry_step : forall cfg t0 evs eh, no_phantom_sync (evs ++ [eh]) ->
  let s := fst (run (init cfg t0) evs) in
  let s' := fst (step s eh) in
  forall w T, worker_exists s' w = true -> k_task (get_worker s' w) = Some T ->
    t_resp (get_task s' T) = None /\
    ((worker_exists s w = true /\ k_task (get_worker s w) = Some T /\
      (t_retry (get_task s' T) = t_retry (get_task s T) \/
       (is_sync (fst eh) = true /\ t_retry (get_task s' T) = S (t_retry (get_task s T))))) \/
     t_retry (get_task s' T) = 0%nat \/
     (is_sync (fst eh) = true /\ t_retry (get_task s' T) = 1%nat)).
Proof. exact held_retry_step. Qed.
Print Assumptions held_retry_step.

(* monitor side: positions 14 and 15 and the next m_reissue are functions of m_reissue before the event, the two dumps, the
   event and its observations: pm_clear, rereq, retry_step, pc_early, pm_follow of ProofsMon1.v applied to the monitor state
   before the event; nothing else in p_step touches m_reissue *)
Theorem retry_positions_isolated : forall cfg t0 m pre e o post,
  let mc := pm_clear pre e m in
  let rr := rereq pre e mc in
  nth 14 (p_components cfg t0 m pre e o post) ""%string = snd (retry_step cfg post e o rr mc) /\
  nth 15 (p_components cfg t0 m pre e o post) ""%string = pc_early cfg pre post rr /\
  m_reissue (pm_final cfg pre post e o m) = m_reissue (pm_follow post (fst (retry_step cfg post e o rr mc))).
Proof. exact retry_positions_isolated. Qed.
Print Assumptions retry_positions_isolated.

(* ---- regression (first round): a task retried after a failure report and handed back to the reporting worker ----
   rw5_evs, rw6_evs: retry count 1; told, one re-request, failure report, the learner asks for the retry and the reporting
   call gets the task again (model: counter 0), one / two more re-requests (the second fails the task at its limit) *)
Example retry_monitor_accepts_retried_task_on_same_worker :
  (selectors_in_range (init rw3_cfg 0) rw6_evs /\ fresh_calls [] rw6_evs /\ bg_scripts_ok rw6_evs /\ learner_ids_unique rw6_evs /\ causes_ok rw6_evs) /\
  ~ panicked (snd (run (init rw3_cfg 0) rw6_evs)) /\
  trace_ok rw3_cfg 0 (model_trace rw3_cfg 0 rw5_evs) = true /\ trace_ok rw3_cfg 0 (model_trace rw3_cfg 0 rw6_evs) = true.
Proof. exact (conj rw6_hypotheses (conj rw6_no_panic (conj rw5_accepted rw6_accepted))). Qed.

(* ---- regression (second round): the operation list of a held task is replaced completely between two re-requests ----
   rw7_evs: retry count 2; told; re-request (1); a second Execute attaches operation 1; the first client leaves and
   operation 0 is removed; re-request (2); re-request: INTERNAL at the limit.  After ten events the model has t_retry = 2
   for the task with operations [1]; the monitor's entry is ([1], 2) (it was ([1], 1) before the repair) *)
Example early_monitor_accepts_replaced_operation_list :
  (selectors_in_range (init rw7_cfg 0) rw7_evs /\ fresh_calls [] rw7_evs /\ bg_scripts_ok rw7_evs /\ learner_ids_unique rw7_evs /\ causes_ok rw7_evs) /\
  ~ panicked (snd (run (init rw7_cfg 0) rw7_evs)) /\
  trace_ok rw7_cfg 0 (model_trace rw7_cfg 0 rw7_evs) = true.
Proof. exact (conj rw7_hypotheses (conj rw7_no_panic rw7_accepted)). Qed.

Example early_regression_counter_and_entry_agree :
  (let s := fst (run (init rw7_cfg 0) (firstn 10 rw7_evs)) in
   k_task (get_worker s rw7_w) = Some 0%nat /\ t_retry (get_task s 0%nat) = 2%nat /\ t_resp (get_task s 0%nat) = None /\ task_opids s 0%nat = [1%nat]) /\
  aget wref_eqb rw7_w (m_reissue (fst (fold_left (fun (acc : mon * dump) x => let '(m, pre) := acc in let '(e, o, d) := x in (pm_final rw7_cfg pre d e o m, d))
                                                  (model_trace rw7_cfg 0 (firstn 10 rw7_evs)) (mon0, empty_dump)))) = Some ([1%nat], 2%nat).
Proof. exact (conj rw7_drift rw7_entry). Qed.

(* ---- bounded evidence (not a theorem about all histories) ----
   rt_step true (ProofsRetry3.v) is a copy of the bookkeeping of positions 14 / 15 of the current p_step (it says what
   p_step_all says on rw7_evs), rt_step false the one of the second round, which rejects rw7_evs *)
Example retry_bookkeeping_copy_is_faithful_on_witness :
  rt_run true rw7_cfg mon0 empty_dump (rt_trace (init rw7_cfg 0) rw7_evs) = rt_positions rw7_cfg 0 mon0 empty_dump (rt_trace (init rw7_cfg 0) rw7_evs) /\
  rt_accepts false rw7_cfg 0 rw7_evs = false /\ rt_accepts true rw7_cfg 0 rw7_evs = true.
Proof. exact (conj rt_faithful_on_rw7 rt_rw7). Qed.

(* small histories (ProofsRetry2.v: 3 x 1000 histories per line, retry counts 0 / 1 / 2): how many panic-free histories are
   rejected by the bookkeeping of the second round, and by the current one *)
Example retry_bookkeeping_small_histories :
  rt_count false [] 3 = [0; 0; 0]%nat /\ rt_count true [] 3 = [0; 0; 0]%nat /\
  rt_count false [0; 4; 8; 9]%nat 3 = [0; 22; 1]%nat /\ rt_count true [0; 4; 8; 9]%nat 3 = [0; 0; 0]%nat.
Proof. exact rt_search_3. Qed.

(* the same small histories against the real components (positions 14 / 15 of Spec.p_step_all): none rejected *)
Example retry_positions_accept_small_histories :
  rt_count_real [] 3 = [0; 0; 0]%nat /\ rt_count_real [0; 4; 8; 9]%nat 3 = [0; 0; 0]%nat.
Proof. exact rt_search_real_3. Qed.
