(* C06, retry bookkeeping of the monitor (positions 14 e_retry and 15 e_early of Spec.p_step) on the model's own traces.

   ASKED FOR (monitor_retry_on_model / monitor_early_on_model), in the shape of the other monitor_*_on_model theorems:
     forall cfg t0 evs, selectors_in_range (init cfg t0) evs -> fresh_calls [] evs -> bg_scripts_ok evs ->
       learner_ids_unique evs -> causes_ok evs ->
       panicked (snd (run (init cfg t0) evs)) \/ trace_sub [14] cfg t0 (model_trace cfg t0 evs) = true        (and [15])
   BOTH ARE FALSE of the model and the current p_step; the theorems below are the refutations (witnesses by vm_compute,
   ProofsRetry1.v).  Cause: the model, like the Go code, resets the task's retry counter at every assignment; the monitor
   restarts m_reissue[w] only when the operation lists share no operation; a task that its learner has retried after a
   worker-reported failure keeps its operations, so when the same worker gets it again the stored count is stale.  The
   rule of an earlier p_step that covered this (an accepted completion report clears m_reissue[w]) was lost in the rewrite
   to re-request counting.

   rw5_evs: retry count 1, one size class.  register; worker parks; Execute (learner asks for one retry on failure); the
   parked call is told to run the task; the worker asks again (counted: 1); the worker reports a failure, the learner asks
   for the retry, the reporting call is handed the same task again (model: counter 0; monitor: still ([0], 1)); the worker
   asks again: the model tells it (0 < 1), position 14 says "C06:task-reissued-beyond-retry-limit".
   rw6_evs = rw5_evs + one more re-request: the model fails the task at its limit (INTERNAL), position 15 reads 2 <> 1 and
   says "C06:task-failed-before-retry-limit". *)
From VF Require Import Sched.ProofsRetry1 Sched.ProofsRetry2 Sched.Spec Sched.Corr.
Open Scope Z_scope.

(* position 14: a model history that satisfies every hypothesis, reports no panic, and is rejected *)
Theorem monitor_retry_on_model_refuted :
  exists cfg t0 evs,
    (selectors_in_range (init cfg t0) evs /\ fresh_calls [] evs /\ bg_scripts_ok evs /\ learner_ids_unique evs /\ causes_ok evs) /\
    ~ panicked (snd (run (init cfg t0) evs)) /\ trace_sub [14%nat] cfg t0 (model_trace cfg t0 evs) = false.
Proof. exact monitor_retry_on_model_refuted. Qed.
Print Assumptions monitor_retry_on_model_refuted.

(* position 15 *)
Theorem monitor_early_on_model_refuted :
  exists cfg t0 evs,
    (selectors_in_range (init cfg t0) evs /\ fresh_calls [] evs /\ bg_scripts_ok evs /\ learner_ids_unique evs /\ causes_ok evs) /\
    ~ panicked (snd (run (init cfg t0) evs)) /\ trace_sub [15%nat] cfg t0 (model_trace cfg t0 evs) = false.
Proof. exact monitor_early_on_model_refuted. Qed.
Print Assumptions monitor_early_on_model_refuted.

(* the statements that were asked for do not hold *)
Theorem monitor_retry_on_model_false :
  ~ (forall cfg t0 evs, selectors_in_range (init cfg t0) evs -> fresh_calls [] evs -> bg_scripts_ok evs -> learner_ids_unique evs -> causes_ok evs ->
       panicked (snd (run (init cfg t0) evs)) \/ trace_sub [14%nat] cfg t0 (model_trace cfg t0 evs) = true).
Proof. exact monitor_retry_on_model_false. Qed.
Print Assumptions monitor_retry_on_model_false.

Theorem monitor_early_on_model_false :
  ~ (forall cfg t0 evs, selectors_in_range (init cfg t0) evs -> fresh_calls [] evs -> bg_scripts_ok evs -> learner_ids_unique evs -> causes_ok evs ->
       panicked (snd (run (init cfg t0) evs)) \/ trace_sub [15%nat] cfg t0 (model_trace cfg t0 evs) = true).
Proof. exact monitor_early_on_model_false. Qed.
Print Assumptions monitor_early_on_model_false.

(* the witnesses, concretely: what the two positions say step by step; no other position complains about rw5_evs *)
Example retry_witness_rejected_by_position_14_only :
  trace_comp 14 rw3_cfg 0 (model_trace rw3_cfg 0 rw5_evs) = [""; ""; ""; ""; ""; ""; "C06:task-reissued-beyond-retry-limit"]%string /\
  trace_sub (seq 0 14 ++ seq 15 7) rw3_cfg 0 (model_trace rw3_cfg 0 rw5_evs) = true.
Proof. exact (conj rw5_retry_says rw5_others_accept). Qed.

Example early_witness_rejected_by_position_15 :
  trace_comp 15 rw3_cfg 0 (model_trace rw3_cfg 0 rw6_evs) = [""; ""; ""; ""; ""; ""; ""; "C06:task-failed-before-retry-limit"]%string.
Proof. exact rw6_early_says. Qed.

(* the drift itself: after the re-assignment (six events) the worker holds task 0, uncompleted, with retry counter 0 and
   operation list [0], while the monitor's entry for the worker is ([0], 1) *)
Example retry_witness_drift :
  let s := fst (run (init rw3_cfg 0) (firstn 6 rw5_evs)) in
  k_task (get_worker s rw_w) = Some 0%nat /\ t_retry (get_task s 0%nat) = 0%nat /\ t_resp (get_task s 0%nat) = None /\ task_opids s 0%nat = [0%nat] /\
  aget wref_eqb rw_w (m_reissue (fst (fold_left (fun (acc : mon * dump) x => let '(m, pre) := acc in let '(e, o, d) := x in (pm_final rw3_cfg pre d e o m, d))
                                                  (model_trace rw3_cfg 0 (firstn 6 rw5_evs)) (mon0, empty_dump)))) = Some ([0%nat], 1%nat).
Proof. exact rw5_drift. Qed.

(* candidate repair, evidence only (no proof): the bookkeeping of positions 14 / 15 run in isolation (rb_run: rereq,
   retry_step, pc_early of ProofsMon1.v; it reproduces what p_components says on the retry histories) with the extra rule
   "a Synchronize event whose completion report names the task the worker holds deletes m_reissue[w]" accepts the three
   regression histories of PropertiesC06.v and both new witnesses; without the rule it rejects the witnesses *)
Example retry_repair_candidate_accepts_all_retry_histories :
  (rb_accepts false rw3_cfg 0 rw5_evs = false /\ rb_accepts false rw3_cfg 0 rw6_evs = false) /\
  (rb_accepts true rw_cfg 0 rw_evs = true /\ rb_accepts true rw_cfg 0 rw_evs2 = true /\
   rb_accepts true rw3_cfg 0 rw3_evs = true /\ rb_accepts true rw3_cfg 0 rw4_evs = true /\
   rb_accepts true rw3_cfg 0 rw5_evs = true /\ rb_accepts true rw3_cfg 0 rw6_evs = true).
Proof. exact (conj rb_unrepaired_rejects rb_repaired_accepts). Qed.

(* bounded evidence for the same candidate (ProofsRetry2.v): every sequence of four moves (re-request, failure report,
   Executing report, release of the latest call, deduplicated Execute, a jump past every time-out, success report, a second
   worker) after "register, park, Execute, told", retry counts 0, 1, 2: the current bookkeeping rejects 0 / 20 / 2 of the
   panic-free histories, the repaired one none *)
Example retry_repair_candidate_small_histories :
  map (fun r => List.length (filter (rs_bad false r) (rs_seqs 4))) [0%nat; 1%nat; 2%nat] = [0%nat; 20%nat; 2%nat] /\
  map (fun r => filter (rs_bad true r) (rs_seqs 4)) [0%nat; 1%nat; 2%nat] = [[]; []; []].
Proof. exact rs_search_4. Qed.
